#!/usr/bin/env python3
"""Copy a bounded sample of the native fuzzer's cached interesting inputs (out/build/fuzzcache/<ID>/<pkg>.<Target>/)
into the committed corpus /verif/corpus/<ID>/<pkg>.<Target>/, which every tier replays as seed inputs.

  tools/corpus_harvest.py [max_files_per_target=150] [max_bytes_per_file=4096]

Only files in Go's corpus format are taken, smallest first (small inputs replay fast and read well); existing corpus files
are kept. Run it after a thorough sweep on the unchanged tree, then run the quick tier once before committing.
"""
import os, sys, shutil, glob

V = os.path.dirname(os.path.dirname(os.path.abspath(__file__)))
maxn = int(sys.argv[1]) if len(sys.argv) > 1 else 150
maxb = int(sys.argv[2]) if len(sys.argv) > 2 else 4096
total = 0
for d in sorted(glob.glob(os.path.join(V, "out", "build", "fuzzcache", "*", "*"))):
    cid, tgt = d.split(os.sep)[-2:]
    # the engine keeps its cache under <cachedir>/<import path>/<Target>/ below the directory we passed
    files = [p for p in glob.glob(os.path.join(d, "**", "*"), recursive=True) if os.path.isfile(p)]
    good = []
    for p in files:
        try:
            if os.path.getsize(p) <= maxb and open(p, "rb").read(16).startswith(b"go test fuzz v1"):
                good.append(p)
        except OSError:
            pass
    good.sort(key=lambda p: (os.path.getsize(p), os.path.basename(p)))
    dst = os.path.join(V, "corpus", cid, tgt)
    os.makedirs(dst, exist_ok=True)
    have = set(os.listdir(dst))
    n = 0
    for p in good:
        if len(have) >= maxn:
            break
        b = os.path.basename(p)
        if b in have:
            continue
        shutil.copy(p, os.path.join(dst, b))
        have.add(b)
        n += 1
    total += n
    print("%s %s: %d cached, %d added, corpus now %d files" % (cid, tgt, len(good), n, len(have)))
print("added %d files" % total)
