#!/usr/bin/env python3
"""Run the checks of one or more properties against a seeded change, in a scratch worktree.

  tools/seedtest.py <seed-dir> [--tier quick|thorough] [--props C12,C13]

<seed-dir> = /verif/seeded/<name>/ holding patch.diff and meta.json ({"property": "C12", ...}).
Creates a worktree of /repo HEAD under /tmp, applies the patch, runs `VERIF_REPO=<wt> ./check <prop> <tier>`
for the seed's property (or --props), prints the verdicts, appends them to meta.json ("runs"), and removes the
worktree and its build output. /repo itself is never touched.
"""
import json, os, shutil, subprocess, sys, time, hashlib

V = os.path.dirname(os.path.dirname(os.path.abspath(__file__)))


def main():
    a = sys.argv[1:]
    if not a:
        print(__doc__)
        return 2
    sd = os.path.abspath(a[0])
    tier = "quick"
    props = None
    if "--tier" in a:
        tier = a[a.index("--tier") + 1]
    if "--props" in a:
        props = a[a.index("--props") + 1].split(",")
    meta_p = os.path.join(sd, "meta.json")
    meta = json.load(open(meta_p)) if os.path.exists(meta_p) else {}
    if props is None:
        props = [meta["property"]] + meta.get("also_check", [])
    name = os.path.basename(sd.rstrip("/"))
    wt = "/tmp/seedwt-%s-%d" % (name, os.getpid())
    subprocess.check_call(["git", "-C", "/repo", "worktree", "add", "-q", "--detach", wt, "HEAD"])
    results = {}
    try:
        r = subprocess.run(["git", "-C", wt, "apply", os.path.join(sd, "patch.diff")], stdout=subprocess.PIPE, stderr=subprocess.STDOUT, text=True)
        if r.returncode != 0:
            print("patch does not apply to HEAD:", r.stdout)
            return 2
        for p in props:
            t0 = time.time()
            r = subprocess.run([os.path.join(V, "check"), p, tier], cwd=V, env=dict(os.environ, VERIF_REPO=wt),
                               stdout=subprocess.PIPE, stderr=subprocess.STDOUT, text=True)
            viol = [l for l in r.stdout.splitlines() if l.startswith("VIOLATION")]
            verdict = {0: "missed", 1: "caught", 2: "inconclusive"}.get(r.returncode, "error")
            msg = ""
            lines = r.stdout.splitlines()
            for i, l in enumerate(lines):
                if l.startswith("VIOLATION") and i + 1 < len(lines):
                    msg = lines[i + 1].strip()[:300]
                    break
            results[p] = {"tier": tier, "verdict": verdict, "wall_s": round(time.time() - t0, 1), "violations": len(viol), "first_msg": msg}
            print("%s %s on seed %s: %s (%d violation lines, %.0fs) %s" % (p, tier, name, verdict, len(viol), time.time() - t0, msg))
            if verdict in ("inconclusive", "error"):
                print(r.stdout[-2500:])
    finally:
        subprocess.call(["git", "-C", "/repo", "worktree", "remove", "--force", wt])
        bd = os.path.join(V, "out", "build-" + hashlib.sha256(wt.encode()).hexdigest()[:10])
        shutil.rmtree(bd, ignore_errors=True)
    meta.setdefault("runs", []).append({"at_repo_head": subprocess.check_output(["git", "-C", "/repo", "rev-parse", "--short", "HEAD"], text=True).strip(),
                                        "results": results})
    json.dump(meta, open(meta_p, "w"), indent=1)
    return 0


if __name__ == "__main__":
    sys.exit(main())
