#!/usr/bin/env python3
"""print, for every stored seed, the last verdict per property (from meta.json 'runs')"""
import json, glob, os
for d in sorted(glob.glob('/verif/seeded/*/')):
    m = json.load(open(d + 'meta.json'))
    last = {}
    for r in m.get('runs', []):
        for p, v in r.get('results', {}).items():
            if v['verdict'] != 'inconclusive':
                last[p] = v['verdict'] + ('/' + v['tier'][0] if v['tier'] != 'quick' else '')
    print(os.path.basename(d.rstrip('/')), m.get('property'), last)
