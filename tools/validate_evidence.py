#!/usr/bin/env python3
import json, sys, glob, os, jsonschema
V = os.path.dirname(os.path.dirname(os.path.abspath(__file__)))
sch = json.load(open("/root/.vp/EVIDENCE.schema.json"))
bad = 0
for f in sorted(glob.glob(os.path.join(V, "evidence", "*.json"))):
    try:
        jsonschema.validate(json.load(open(f)), sch)
    except Exception as e:
        bad += 1
        print("INVALID", f, str(e)[:300])
print("evidence files checked:", len(glob.glob(os.path.join(V, "evidence", "*.json"))), "invalid:", bad)
sys.exit(1 if bad else 0)
