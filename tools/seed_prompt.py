#!/usr/bin/env python3
"""print the prompt for a seeding sub-agent: property text + its scratch worktree only (nothing from /verif)"""
import json, sys
pid, tag = sys.argv[1], sys.argv[2]
avoid = sys.argv[3] if len(sys.argv) > 3 else ""
p = [json.loads(l) for l in open('/verif/properties.jsonl') if json.loads(l)['id'] == pid][0]
wt = "/tmp/seed-%s" % tag
AVOID = ("A previous tester already produced a change in " + avoid + " - choose a DIFFERENT mechanism at a different code site (different function, ideally a different file).\n\n") if avoid else ""
print(f"""You are testing how robust a semantic property of a Go code base is against realistic regressions. You get ONLY the property text and your own scratch git worktree of the repository (polynetwork/poly, a relay-chain node in Go); do not look at or use anything under /verif, and do not touch /repo itself.

Worktree (yours, already created): {wt}
Output directory (create it): {wt}-out

Property "{p['title']}":
{p['statement']}
(Quantified over: {p['quantifier']['text']})
Code areas it is anchored in: {', '.join(p['anchors']['files'])}

Task: produce ONE change to the code in the worktree that BREAKS this property while (a) the repository still compiles (`go build ./...` minus the two harmony packages that need cgo and never built here) and (b) the existing tests of the packages you touch, and of packages that import them, still pass exactly as before your change (many tests in this repository already fail before any change because they need network data — compare before/after, do not fix them). The change must look like a plausible maintenance edit (refactor, optimisation, "simplification", off-by-one, dropped guard, reordered steps, wrong key/field) — not sabotage with obvious markers — and it must need something SPECIFIC to manifest: a particular interleaving, a crash or fault at a particular point, a multi-step sequence of operations, an unusual input, or two cooperating sites that each look fine alone. It must NOT be exposed at once by ordinary use (e.g. not "every call fails").

{AVOID}Also write a demonstration: a Go test file (or small program) placed in the worktree that FAILS with your change and PASSES without it, exercising the real code. Verify both directions yourself by saving and reverting the diff (`git diff > /tmp/p.diff; git apply -R /tmp/p.diff; ...; git apply /tmp/p.diff`). NEVER use `git stash`: the stash is shared by all worktrees of the repository and other agents work in sibling worktrees at the same time.

Environment: offline sandbox. For every shell call: `export GOFLAGS=-mod=mod GOPROXY=off GOSUMDB=off GOTOOLCHAIN=local`. Run go only inside {wt}. In-package tests of some packages do not build at all (consensus/vbft, txnpool/proc, native/service/cross_chain_manager/btc, .../bsc, .../msc, .../consensus_vote) — for those put the demonstration in an external test package or a small main program under {wt}/cmd/. Packages importing the harmony routers (native/service, native/service/header_sync, native/service/cross_chain_manager entrances, main) do not link here; avoid needing them in the demonstration. Keep CPU use modest (the machine is shared); no long-running processes.

Deliver in {wt}-out/:
  patch.diff   — `git -C {wt} diff` of the code change ONLY (without the demonstration file)
  demo/        — the demonstration file(s) with a line at the top saying where in the tree they go and the exact command to run them
  notes.md     — 10-20 lines: what the change is, why it breaks the property, what exactly is needed for it to manifest, which existing tests you ran before/after and their results, and the demonstration's output with and without the change
Finish with a short report (what you changed, what it needs to manifest, verification done). Do not clean up the worktree; the lead removes it.""")
