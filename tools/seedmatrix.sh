#!/bin/bash
# seedmatrix.sh [parallelism] [seed-name-glob] - re-run every stored seeded change against the current checks (quick tier)
# and print one verdict line per seed; appends the runs to each seed's meta.json (tools/seedtest.py does).
par=${1:-4}; pat=${2:-*}
cd /verif
ls -d seeded/$pat/ | sed 's#/$##' | xargs -P $par -I{} sh -c 'tools/seedtest.py {} 2>&1 | grep " on seed " | cut -c1-220'
