#!/bin/bash
# seed_intake.sh <tag> <property> <demo go-test command, run inside the worktree>
# Confirms a seeded change in the seeder's own worktree (/tmp/seed-<tag>): demo fails with the patch, passes without,
# tree builds, touched packages' tests behave the same; then stores it under /verif/seeded/<tag>/.
tag=$1; prop=$2; shift 2; democmd="$*"
wt=/tmp/seed-$tag; out=/tmp/seed-$tag-out; dst=/verif/seeded/$tag
export GOFLAGS=-mod=mod GOPROXY=off GOSUMDB=off GOTOOLCHAIN=local
cd $wt || exit 2
[ -s $out/patch.diff ] || { echo "no patch.diff"; exit 2; }
# make sure the patch is what is applied (besides untracked demo files)
git -C $wt diff > /tmp/seed-$tag.cur.diff
pkgs=$(grep '^+++ b/' $out/patch.diff | sed 's#+++ b/##' | xargs -n1 dirname | sort -u | sed 's#^#./#')
echo "touched packages: $pkgs"
echo "== build with patch"; go build $pkgs 2>&1 | grep -v "^#\|oaes\|warning\|note:\|^ \|ftime\|_block\|In function\|In file" | head -5
echo "== demo WITH patch (must fail)"; (eval "$democmd") > /tmp/seed-$tag.with.txt 2>&1; rcw=$?; tail -4 /tmp/seed-$tag.with.txt
hide() { rm -rf /tmp/seed-$tag.untracked; mkdir -p /tmp/seed-$tag.untracked; git -C $wt ls-files --others --exclude-standard | grep -v "merkletree.db\|temp.db" > /tmp/seed-$tag.untracked.list; while read f; do mkdir -p /tmp/seed-$tag.untracked/$(dirname $f); mv $wt/$f /tmp/seed-$tag.untracked/$f; done < /tmp/seed-$tag.untracked.list; }
unhide() { while read f; do mkdir -p $wt/$(dirname $f); mv /tmp/seed-$tag.untracked/$f $wt/$f; done < /tmp/seed-$tag.untracked.list; }
hide
echo "== existing tests WITH patch (demo files moved away)"; go test -vet=off -count=1 $pkgs 2>&1 | grep -E "^(--- FAIL|ok|FAIL|panic)" | sort > /tmp/seed-$tag.tests.with.txt
unhide
git -C $wt apply -R $out/patch.diff || { echo "cannot revert patch"; exit 2; }
echo "== demo WITHOUT patch (must pass)"; (eval "$democmd") > /tmp/seed-$tag.without.txt 2>&1; rco=$?; tail -3 /tmp/seed-$tag.without.txt
hide
echo "== existing tests WITHOUT patch"; go test -vet=off -count=1 $pkgs 2>&1 | grep -E "^(--- FAIL|ok|FAIL|panic)" | sort > /tmp/seed-$tag.tests.without.txt
unhide
git -C $wt apply $out/patch.diff
sed -E 's/\(?[0-9.]+s\)?$//' /tmp/seed-$tag.tests.with.txt > /tmp/a.$tag; sed -E 's/\(?[0-9.]+s\)?$//' /tmp/seed-$tag.tests.without.txt > /tmp/b.$tag
if diff /tmp/a.$tag /tmp/b.$tag > /dev/null; then same=true; else same=false; diff /tmp/a.$tag /tmp/b.$tag | head; fi
echo "demo rc with=$rcw without=$rco ; existing tests identical=$same"
if [ $rcw -ne 0 ] && [ $rco -eq 0 ]; then
  mkdir -p $dst; cp $out/patch.diff $dst/; rm -rf $dst/demo; cp -r $out/demo $dst/demo 2>/dev/null; cp $out/notes.md $dst/ 2>/dev/null
  python3 - "$tag" "$prop" "$democmd" "$same" <<'PY'
import json,sys,os
tag,prop,cmd,same=sys.argv[1:5]
p='/verif/seeded/%s/meta.json'%tag
m=json.load(open(p)) if os.path.exists(p) else {}
m.update({"property":prop,"origin":"independent sub-agent given only the property text and a scratch worktree","demo_cmd":cmd,
 "confirmed":{"demo_fails_with_patch":True,"demo_passes_without_patch":True,"touched_packages_tests_identical_before_after":same=="true","builds":True}})
json.dump(m,open(p,'w'),indent=1)
PY
  echo "stored in $dst"
else
  echo "NOT CONFIRMED"
fi
