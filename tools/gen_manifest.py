#!/usr/bin/env python3
"""Regenerates /verif/MANIFEST.json from checks.json (+ not_applicable.json) and validates it."""
import json, os, subprocess, sys

V = os.path.dirname(os.path.dirname(os.path.abspath(__file__)))
import glob
checks = json.load(open(os.path.join(V, "checks.json")))
for _f in sorted(glob.glob(os.path.join(V, "checks.d", "*.json"))):
    checks.update(json.load(open(_f)))
checks = {k: v for k, v in checks.items() if k.startswith("C")}
props = [json.loads(l) for l in open(os.path.join(V, "properties.jsonl"))]
na_path = os.path.join(V, "not_applicable.json")
na = json.load(open(na_path)) if os.path.exists(na_path) else {}
hooks_path = os.path.join(V, "hooks.json")
hooks = json.load(open(hooks_path)) if os.path.exists(hooks_path) else {"source_commits": []}

m = {
    "version": 1,
    "setup_cmd": "./check setup",
    "hooks": {
        "guard": "verif",
        "enable": "go test -tags verif (build tag); harness module /verif/harness uses `replace github.com/polynetwork/poly => /repo`, so every build compiles /repo's current working tree",
        "baseline_off_cmd": "cd /repo && go test -vet=off -count=1 -timeout 25m ./...",
        "source_commits": hooks.get("source_commits", []),
        "add_only": True,
    },
    "engines": [{
        "name": "rapid-harness", "path": "harness/",
        "serves_properties": sorted(checks.keys()),
        "kind_free_text": "property-based testing with pgregory.net/rapid v1.3.0 (generated cases, explicit oracles, shrinking to a JSON replay file), sharded by seed; native go fuzzing in some thorough tiers",
    }],
    "checks": [],
    "notes": "See DESIGN.md. Exit codes: 0 held, 1 VIOLATION, 2 inconclusive (build failure/timeout; never a violation). KNOWN-FINDING lines come from known_findings.json.",
    "not_applicable": [],
}
def technique_of(c):
    t = c.get("technique", "property-based testing (rapid) against an explicit oracle")
    fz = list(c.get("fuzz", []))
    for part in c.get("parts", []):
        fz += part.get("fuzz", [])
    if fz and "fuzz" not in t.lower():
        t += "; native coverage-guided fuzzing (go test -fuzz: %s) through the same oracle in the thorough tier, its seed corpus replayed in every tier" % ", ".join(x["pkg"] + "." + x["target"] for x in fz)
    return t


for p in props:
    cid = p["id"]
    if cid in checks:
        c = checks[cid]
        m["checks"].append({
            "property_id": cid,
            "quick_cmd": "./check %s quick" % cid,
            "thorough_cmd": "./check %s thorough" % cid,
            "evidence_file": "evidence/%s.json" % cid,
            "replay_cmd_template": "./check %s replay {path}" % cid,
            "engine": "rapid-harness",
            "level_claimed": {
                "category": c.get("level", "exploration"),
                "text": c.get("text", "generated-input search against an explicit oracle; held on every generated case"),
                "design_ref": "DESIGN.md section 5 " + cid,
            },
            "level_note": c.get("note", "assumes SHA-256/ECDSA are sound; covers only generated cases within the stated bounds"),
            "technique": technique_of(c),
        })
    else:
        m["not_applicable"].append({"property_id": cid, "reason": na.get(cid, "check not built yet in this session; planned, see DESIGN.md section 5 " + cid)})

out = os.path.join(V, "MANIFEST.json")
json.dump(m, open(out, "w"), indent=1)
open(out, "a").write("\n")
try:
    import jsonschema
    jsonschema.validate(m, json.load(open("/root/.vp/MANIFEST.schema.json")))
    print("MANIFEST.json valid: %d checks, %d not_applicable" % (len(m["checks"]), len(m["not_applicable"])))
except ImportError:
    print("jsonschema not importable; run with python3-vt")
