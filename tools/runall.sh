#!/bin/bash
# run every claimed check once (tier $1, default quick); summary lines to stdout
tier=${1:-quick}
cd "$(dirname "$0")/.."
ids=$(python3 -c "
import json,glob
c=json.load(open('checks.json'))
for f in sorted(glob.glob('checks.d/*.json')): c.update(json.load(open(f)))
print(' '.join(sorted(k for k in c if k.startswith('C'))))")
for id in $ids; do
  s=$(date +%s)
  out=$(./check $id $tier 2>&1); rc=$?
  e=$(date +%s)
  echo "$id rc=$rc $((e-s))s :: $(echo "$out" | grep -E "^C[0-9]+ $tier:" | tail -1)"
  if [ $rc -ne 0 ]; then echo "$out" | grep -E "VIOLATION|INCONCLUSIVE" | head -5; echo "$out" | grep -A3 "^VIOLATION" | head -8; fi
  echo "$out" | grep "^KNOWN-FINDING" | cut -c1-160
done
