package pbtc

import (
	"bytes"
	"crypto/sha256"
	"encoding/binary"
	"encoding/hex"
	"fmt"
	"sort"
	"strings"
	"sync"
	"testing"

	"github.com/btcsuite/btcd/btcec"
	"github.com/btcsuite/btcd/chaincfg"
	"github.com/btcsuite/btcd/txscript"
	"github.com/btcsuite/btcd/wire"
	"github.com/btcsuite/btcutil"
	"github.com/polynetwork/poly/common"
	"github.com/polynetwork/poly/core/store/overlaydb"
	"github.com/polynetwork/poly/core/types"
	"github.com/polynetwork/poly/native"
	"github.com/polynetwork/poly/native/service/cross_chain_manager/btc"
	crosscommon "github.com/polynetwork/poly/native/service/cross_chain_manager/common"
	"github.com/polynetwork/poly/native/service/governance/side_chain_manager"
	"github.com/polynetwork/poly/native/service/utils"
	"github.com/polynetwork/poly/native/storage"
	"pgregory.net/rapid"

	"verif/harness/ev"
	"verif/harness/world"
)

func TestMain(m *testing.M) { ev.Main(m) }

// ---------------------------------------------------------------------------------------------
// C26 BTC coin selection conserves UTXO value
//
// World: the real native runtime (world.New, reused through a snapshot, see freshWorld); the BTC side chain (id 1, testnet3) is registered and
// approved, an m-of-n redeem script is bound to a contract (registerRedeem) and its fee rate /
// minimum change are installed with setBtcTxParam -- all through the real contracts with real
// secp256k1 signatures, so only parameter values the contracts accept are explored (fee rate >= 1,
// minimum change >= 2000). The UTXO set of the redeem script is written with the H6 shim
// (VerifPutUtxos) the same way addUtxos does. Then a sequence of withdrawals runs against it, each
// either directly through chooseUtxos (H6) with the output list makeBtcTx would pass, or through
// BTCHandler.MakeTransaction (the whole withdrawal: parse, bind check, selection, raw tx, notify).
//
// Oracle: the harness keeps its own model of the unspent / spent sets (maps keyed by outpoint) and
// judges every successful selection against the property text:
//   distinct members of the unspent model, with the model's value and script; sum of their values ==
//   reported input total; total == payment or total >= payment + minimum change; afterwards stored
//   UTXO set == model minus selection, stored STXO set == model plus selection (as multisets); an
//   outpoint is never selected twice in the sequence. Through MakeTransaction the selection and the
//   reported total are read back from the raw transaction in the notification (inputs, change
//   output = total - payment), and outputs never exceed inputs.
// A failed selection is a reverted transaction (tx layer reset, as in executeBlock).

const (
	c26KeySkip  = "sortedsearch-p2sh-skip-keeps-value-in-sum"
	c26KeyAlias = "sortedsearch-replace-step-aliases-selection"
	c26KeyTie   = "chooseutxos-removal-loop-equal-value-siblings-order"

	btcChainID      = uint64(1)
	contractChainID = uint64(2)
)

type c26Utxo struct {
	V uint64 `json:"v"`           // value in satoshi
	K string `json:"k"`           // script kind: p2wsh | p2sh | multisig
	I uint32 `json:"i,omitempty"` // output index
	T int    `json:"t,omitempty"` // txid group: outputs with the same non-zero T are siblings (same txid, different I)
}

type c26Step struct {
	Op     string    `json:"op"` // choose | make | make-self | sign | add
	Amount int64     `json:"amount,omitempty"`
	Rel    string    `json:"rel,omitempty"` // "min-sibling": pay exactly the smallest unspent output that has an unspent sibling (fallback: Amount)
	Add    []c26Utxo `json:"add,omitempty"`
}

type c26Case struct {
	M         int       `json:"m"`
	N         int       `json:"n"`
	FeeRate   uint64    `json:"feeRate"`
	MinChange uint64    `json:"minChange"`
	Utxos     []c26Utxo `json:"utxos"`
	Steps     []c26Step `json:"steps"`
}

// ---------------------------------------------------------------------------------------------
// generator

func logUniform(lo, hi uint64) *rapid.Generator[uint64] {
	return rapid.Custom(func(t *rapid.T) uint64 {
		// pick a magnitude, then a value inside it
		var bounds []uint64
		for b := lo; b < hi; b *= 10 {
			bounds = append(bounds, b)
		}
		b := rapid.SampledFrom(bounds).Draw(t, "mag")
		top := b * 10
		if top > hi {
			top = hi
		}
		return rapid.Uint64Range(b, top).Draw(t, "val")
	})
}

var c26Kinds = []string{"p2wsh", "p2wsh", "p2wsh", "p2sh", "p2sh", "multisig"}

func genC26(t *rapid.T) c26Case {
	c := c26Case{}
	c.N = rapid.IntRange(1, 7).Draw(t, "n")
	c.M = rapid.IntRange(1, c.N).Draw(t, "m")
	c.FeeRate = rapid.OneOf(rapid.Uint64Range(1, 500), rapid.Uint64Range(1, 20), rapid.Uint64Range(1, 5), rapid.SampledFrom([]uint64{1, 2, 10, 50, 500})).Draw(t, "feeRate")
	c.MinChange = rapid.OneOf(rapid.SampledFrom([]uint64{2000, 2001, 10000, 100000, 1000000}), logUniform(2000, 1000000)).Draw(t, "minChange")

	regime := rapid.SampledFrom([]string{"mixed", "mixed", "cluster", "dust-withdrawal", "fee-limit", "big-and-small"}).Draw(t, "regime")
	// Size bounds: a first pass that finds nothing visits min(2^n, 10^6) subsets and classifies every
	// selected script again at each node (~1 us each), so n is kept small; only the thorough tier
	// occasionally (about 1 in 4000 cases) uses sets large enough to exhaust the 10^6-try budget (several seconds per search).
	maxN := ev.Scale(10, 12)
	if rapid.Uint64().Draw(t, "larger")%10 == 7 { // (rapid favours small values, so rarity is taken from a residue)
		maxN = ev.Scale(14, 15)
	}
	kindMode := rapid.SampledFrom([]string{"any", "any", "witness-only", "big-p2sh"}).Draw(t, "kindmode")
	minN := 0
	if ev.Thorough() && rapid.Uint64().Draw(t, "huge")%4000 == 3321 {
		minN, maxN, kindMode = 24, 32, "witness-only"
	}
	nU := rapid.IntRange(minN, maxN).Draw(t, "nutxo")
	base := logUniform(546, 1000000000).Draw(t, "base")
	firstAmount := int64(0)

	kindGen := rapid.SampledFrom(c26Kinds)
	genOne := func(label string) c26Utxo {
		u := c26Utxo{K: kindGen.Draw(t, label+"k")}
		if kindMode == "witness-only" {
			u.K = "p2wsh"
		}
		if rapid.IntRange(0, 7).Draw(t, label+"idx") == 0 {
			u.I = uint32(rapid.IntRange(1, 3).Draw(t, label+"i"))
		}
		switch regime {
		case "cluster", "dust-withdrawal":
			switch rapid.IntRange(0, 3).Draw(t, label+"c") {
			case 0:
				u.V = base
			default:
				j := base / 20
				u.V = base - j + rapid.Uint64Range(0, 2*j).Draw(t, label+"j")
			}
		case "big-and-small":
			if rapid.IntRange(0, 4).Draw(t, label+"big") == 0 {
				u.V = base * rapid.Uint64Range(50, 5000).Draw(t, label+"mul")
			} else {
				u.V = rapid.Uint64Range(1, base).Draw(t, label+"v")
			}
		default:
			u.V = rapid.OneOf(logUniform(546, 10000000000), rapid.Uint64Range(1, 545), rapid.Just(base)).Draw(t, label+"v")
		}
		if u.V == 0 {
			u.V = 1
		}
		return u
	}
	for i := 0; i < nU; i++ {
		c.Utxos = append(c.Utxos, genOne(fmt.Sprintf("u%d", i)))
	}
	// Sibling groups: several unspent outputs of ONE transaction (same txid, different vout), as left
	// behind by a finished withdrawal that pays the multisig's own script (payment + change).
	sibMode := rapid.SampledFrom([]string{"none", "none", "none", "siblings", "siblings"}).Draw(t, "sibmode")
	nextVout := map[int]uint32{}
	if sibMode == "siblings" && len(c.Utxos) >= 2 {
		groups := rapid.IntRange(1, 2).Draw(t, "ngroups")
		pos := 0
		for g := 1; g <= groups && pos+2 <= len(c.Utxos); g++ {
			size := rapid.IntRange(2, 4).Draw(t, fmt.Sprintf("g%dsize", g))
			if pos+size > len(c.Utxos) {
				size = len(c.Utxos) - pos
			}
			vals := rapid.SampledFrom([]string{"equal", "near", "as-drawn", "near-rev"}).Draw(t, fmt.Sprintf("g%dvals", g))
			first := c.Utxos[pos].V
			for k := 0; k < size; k++ {
				u := &c.Utxos[pos+k]
				u.T, u.I = g, uint32(k)
				switch vals {
				case "equal":
					u.V = first
				case "near": // later vout is smaller
					if first > uint64(k) {
						u.V = first - uint64(k)
					}
				case "near-rev": // later vout is larger
					u.V = first + uint64(k)
				}
			}
			nextVout[g] = uint32(size)
			pos += size + rapid.IntRange(0, 2).Draw(t, fmt.Sprintf("g%dgap", g))
		}
	}
	var total uint64
	var maxV uint64
	for _, u := range c.Utxos {
		total += u.V
		if u.V > maxV {
			maxV = u.V
		}
	}
	if kindMode == "big-p2sh" {
		// the largest outputs are P2SH, the small ones witness: the class behind the skip branch
		for i := range c.Utxos {
			if c.Utxos[i].V*2 >= maxV {
				c.Utxos[i].K = "p2sh"
			} else {
				c.Utxos[i].K = "p2wsh"
			}
		}
	}

	genAmount := func(label string) int64 {
		kinds := []string{"log", "subset", "subset", "subset-short", "subset-short", "small", "above-total", "total", "quarter", "quarter", "fee-window"}
		switch regime {
		case "dust-withdrawal":
			kinds = append(kinds, "below-minchange", "below-minchange", "below-minchange", "below-minchange")
		case "fee-limit":
			kinds = append(kinds, "fee-window", "fee-window", "fee-window", "fee-window")
		case "big-and-small":
			kinds = append(kinds, "quarter", "quarter")
		}
		if sibMode == "siblings" {
			kinds = append(kinds, "sibling", "sibling", "sibling", "sibling-plus")
		}
		var a uint64
		switch rapid.SampledFrom(kinds).Draw(t, label+"kind") {
		case "sibling", "sibling-plus":
			// exactly the value of one output that has siblings (optionally plus one other output)
			var sib []int
			for i, u := range c.Utxos {
				if u.T > 0 {
					sib = append(sib, i)
				}
			}
			if len(sib) > 0 {
				a = c.Utxos[sib[rapid.IntRange(0, len(sib)-1).Draw(t, label+"sib")]].V
				if rapid.Bool().Draw(t, label+"plus") {
					a += c.Utxos[rapid.IntRange(0, len(c.Utxos)-1).Draw(t, label+"other")].V
				}
			}
		case "log":
			hi := uint64(10000000000)
			if 2*total+10 < hi {
				hi = 2*total + 10
			}
			a = logUniform(1, hi).Draw(t, label)
		case "subset", "subset-short":
			// sum of a random subset (exact match), optionally short by less than the minimum change
			mask := rapid.Uint64().Draw(t, label+"mask")
			for i, u := range c.Utxos {
				if mask>>(uint(i)%64)&1 == 1 && i < 64 {
					a += u.V
				}
			}
			if a > 1 && rapid.Bool().Draw(t, label+"short") {
				d := rapid.Uint64Range(1, c.MinChange).Draw(t, label+"d")
				if d < a {
					a -= d
				}
			}
		case "small":
			a = rapid.Uint64Range(1, 5000).Draw(t, label)
		case "above-total":
			a = total + rapid.Uint64Range(1, 100000).Draw(t, label)
		case "total":
			a = total
		case "quarter":
			// a bit under a quarter of the largest output: it alone overshoots the 4x window
			a = maxV/4 - maxV/4/uint64(rapid.IntRange(2, 50).Draw(t, label+"f"))
		case "fee-window":
			// payments of the order of the fee of a one-or-two-input transaction
			a = c.FeeRate * rapid.Uint64Range(60, 1800).Draw(t, label)
		case "below-minchange":
			a = rapid.Uint64Range(1, c.MinChange/2).Draw(t, label)
		}
		if a == 0 {
			a = 1
		}
		if a > btcutil.MaxSatoshi {
			a = btcutil.MaxSatoshi
		}
		return int64(a)
	}

	nSteps := rapid.IntRange(1, 5).Draw(t, "nsteps")
	for sI := 0; sI < nSteps; sI++ {
		label := fmt.Sprintf("s%d", sI)
		ops := []string{"choose", "choose", "make", "make", "add"}
		if sibMode == "siblings" || rapid.IntRange(0, 3).Draw(t, label+"real") == 0 {
			// the production route to siblings: pay the multisig's own address, then complete the signatures
			ops = append(ops, "make-self", "make-self", "sign", "sign")
		}
		op := rapid.SampledFrom(ops).Draw(t, label+"op")
		st := c26Step{Op: op}
		if op == "sign" {
			c.Steps = append(c.Steps, st)
			continue
		}
		if op == "add" {
			k := rapid.IntRange(1, 3).Draw(t, label+"nadd")
			for j := 0; j < k; j++ {
				u := genOne(fmt.Sprintf("%sa%d", label, j))
				if g := rapid.IntRange(0, 2).Draw(t, fmt.Sprintf("%sa%dgrp", label, j)); g > 0 && nextVout[g] > 0 && nextVout[g] < 8 {
					u.T, u.I = g, nextVout[g] // a further output of an existing sibling group
					nextVout[g]++
				}
				st.Add = append(st.Add, u)
			}
		} else {
			if rapid.IntRange(0, 3).Draw(t, label+"rel") == 0 {
				st.Rel = "min-sibling"
			}
			st.Amount = genAmount(label + "amt")
			if firstAmount == 0 {
				firstAmount = st.Amount
			}
		}
		c.Steps = append(c.Steps, st)
	}
	if regime == "dust-withdrawal" && firstAmount > 0 && len(c.Utxos) > 0 {
		// re-centre the cluster so that k outputs are needed to reach payment + minimum change
		k := rapid.IntRange(1, 6).Draw(t, "need")
		target := (uint64(firstAmount) + c.MinChange) / uint64(k)
		if target < 2 {
			target = 2
		}
		for i := range c.Utxos {
			j := target / 20
			c.Utxos[i].V = target + rapid.Uint64Range(0, j+1).Draw(t, fmt.Sprintf("rc%d", i))
		}
	}
	return c
}

// ---------------------------------------------------------------------------------------------
// fixtures: keys, scripts, the world

var (
	btcNet   = &chaincfg.TestNet3Params
	c26Privs []*btcec.PrivateKey
)

func init() {
	for i := 0; i < 7; i++ {
		h := sha256.Sum256([]byte(fmt.Sprintf("verif-c26-btc-key-%d", i)))
		p, _ := btcec.PrivKeyFromBytes(btcec.S256(), h[:])
		c26Privs = append(c26Privs, p)
	}
}

type redeemInfo struct {
	script   []byte
	rk       []byte // hash160(script)
	p2wsh    []byte // OP_0 <sha256(script)>
	p2sh     []byte // OP_HASH160 <hash160(script)> OP_EQUAL
	m, n     int
	contract []byte
}

func makeRedeem(m, n int) *redeemInfo {
	// written from the script format: OP_m <33-byte key>... OP_n OP_CHECKMULTISIG
	b := []byte{byte(0x50 + m)}
	for i := 0; i < n; i++ {
		pk := c26Privs[i].PubKey().SerializeCompressed()
		b = append(b, byte(len(pk)))
		b = append(b, pk...)
	}
	b = append(b, byte(0x50+n), 0xae)
	r := &redeemInfo{script: b, m: m, n: n}
	r.rk = btcutil.Hash160(b)
	sh := sha256.Sum256(b)
	r.p2wsh = append([]byte{0x00, 0x20}, sh[:]...)
	r.p2sh = append(append([]byte{0xa9, 0x14}, r.rk...), 0x87)
	r.contract = bytes.Repeat([]byte{0xc7}, 20)
	return r
}

func (r *redeemInfo) pkScript(kind string) []byte {
	switch kind {
	case "p2sh":
		return r.p2sh
	case "multisig":
		return r.script
	}
	return r.p2wsh
}

func le64(v uint64) []byte {
	var b [8]byte
	binary.LittleEndian.PutUint64(b[:], v)
	return b[:]
}

func (r *redeemInfo) sign(msg []byte) [][]byte {
	h := btcutil.Hash160(msg)
	var out [][]byte
	for i := 0; i < r.m; i++ {
		sig, err := c26Privs[i].Sign(h)
		if err != nil {
			panic(err)
		}
		out = append(out, sig.Serialize())
	}
	return out
}

func must(ctx *ev.Ctx, what string, r world.Result) {
	if !r.OK() {
		ctx.Failf("harness fixture: %s failed: %v %s", what, r.Err, r.Panic)
	}
}

// World reuse. world.New allocates two 4 MiB buffers (mem LevelDB + block overlay); zeroing them per
// case dominated the run time. The store below the overlay is never written by a world, so the
// harness builds ONE base world per process (genesis + the case-independent BTC side-chain
// registration and approval, all through the real contracts), snapshots the block overlay, and gives
// every case a fresh world made of the shared read-only store, the pooled overlay reset and
// re-filled from the snapshot, and a new transaction cache. Cases run sequentially in a process.
var (
	baseOnce sync.Once
	baseW    *world.World
	baseSnap [][2][]byte
	pooledOv *overlaydb.OverlayDB
	baseErr  string
)

func buildBase() {
	w := world.New(1, world.Opts{})
	owner := world.Acct(20).Address
	val := world.Acct(0).Address
	scm := utils.SideChainManagerContractAddress
	rp := &side_chain_manager.RegisterSideChainParam{Address: owner, ChainId: btcChainID, Router: utils.BTC_ROUTER, Name: "btc",
		BlocksToWait: 1, CCMCAddress: le64(uint64(utils.TyTestnet3))}
	sink := common.NewZeroCopySink(nil)
	rp.Serialization(sink)
	if r := w.Invoke(scm, side_chain_manager.REGISTER_SIDE_CHAIN, sink.Bytes(), []common.Address{owner}); !r.OK() {
		baseErr = fmt.Sprintf("registerSideChain: %v %s", r.Err, r.Panic)
		return
	}
	ap := &side_chain_manager.ChainidParam{Chainid: btcChainID, Address: val}
	sink = common.NewZeroCopySink(nil)
	ap.Serialization(sink)
	if r := w.Invoke(scm, side_chain_manager.APPROVE_REGISTER_SIDE_CHAIN, sink.Bytes(), []common.Address{val}); !r.OK() {
		baseErr = fmt.Sprintf("approveRegisterSideChain: %v %s", r.Err, r.Panic)
		return
	}
	sc, err := side_chain_manager.GetSideChain(w.Service(), btcChainID)
	if err != nil || sc == nil || sc.Router != utils.BTC_ROUTER {
		baseErr = fmt.Sprintf("side chain not registered after approval: %v %v", sc, err)
		return
	}
	baseW = w
	baseSnap = w.Dump()
	pooledOv = overlaydb.NewOverlayDB(w.Store)
}

func freshWorld(ctx *ev.Ctx) *world.World {
	baseOnce.Do(buildBase)
	if baseErr != "" {
		ctx.Failf("harness fixture: %s", baseErr)
	}
	world.ResetGlobals(0)
	pooledOv.Reset()
	for _, kv := range baseSnap {
		pooledOv.Put(kv[0], kv[1])
	}
	return &world.World{Store: baseW.Store, Overlay: pooledOv, Cache: storage.NewCacheDB(pooledOv), Height: 1, Time: baseW.Time,
		ChainID: baseW.ChainID, Validators: baseW.Validators}
}

// setupWorld binds the redeem script and installs the tx parameters through the contracts.
func setupWorld(ctx *ev.Ctx, c c26Case, r *redeemInfo) *world.World {
	w := freshWorld(ctx)
	scm := utils.SideChainManagerContractAddress
	var sink *common.ZeroCopySink

	// registerRedeem: signatures over hash160(redeem || redeemChain || contract || contractChain || version)
	msg := append(append(append(append(append([]byte{}, r.script...), le64(btcChainID)...), r.contract...), le64(contractChainID)...), le64(0)...)
	rr := &side_chain_manager.RegisterRedeemParam{RedeemChainID: btcChainID, ContractChainID: contractChainID, Redeem: r.script, CVersion: 0,
		ContractAddress: r.contract, Signs: r.sign(msg)}
	sink = common.NewZeroCopySink(nil)
	rr.Serialization(sink)
	must(ctx, "registerRedeem", w.Invoke(scm, side_chain_manager.REGISTER_REDEEM, sink.Bytes(), nil))

	// setBtcTxParam: signatures over hash160(redeem || chain || feeRate || minChange || version)
	msg = append(append(append(append(append([]byte{}, r.script...), le64(btcChainID)...), le64(c.FeeRate)...), le64(c.MinChange)...), le64(0)...)
	bp := &side_chain_manager.BtcTxParam{Redeem: r.script, RedeemChainId: btcChainID, Sigs: r.sign(msg),
		Detial: &side_chain_manager.BtcTxParamDetial{PVersion: 0, FeeRate: c.FeeRate, MinChange: c.MinChange}}
	sink = common.NewZeroCopySink(nil)
	bp.Serialization(sink)
	must(ctx, "setBtcTxParam", w.Invoke(scm, side_chain_manager.SET_BTC_TX_PARAM, sink.Bytes(), nil))

	svc := w.Service()
	d, err := side_chain_manager.GetBtcTxParam(svc, r.rk, btcChainID)
	if err != nil || d == nil || d.FeeRate != c.FeeRate || d.MinChange != c.MinChange {
		ctx.Failf("harness fixture: stored BtcTxParam is %+v (err %v), want fee rate %d min change %d", d, err, c.FeeRate, c.MinChange)
	}
	return w
}

// ---------------------------------------------------------------------------------------------
// model

type mU struct {
	hash   []byte
	idx    uint32
	val    uint64
	kind   string
	script []byte
}

func (u *mU) key() string { return fmt.Sprintf("%x:%d", u.hash, u.idx) }

func opKey(o *btc.OutPoint) string { return fmt.Sprintf("%x:%d", o.Hash, o.Index) }

type model struct {
	unspent map[string]*mU
	spent   map[string]int
	spentV  map[string]*mU
	ever    map[string]bool
	serial  int
}

func (m *model) mint(r *redeemInfo, u c26Utxo) *mU {
	m.serial++
	h := sha256.Sum256([]byte(fmt.Sprintf("verif-c26-outpoint-%d", m.serial)))
	if u.T > 0 {
		h = sha256.Sum256([]byte(fmt.Sprintf("verif-c26-sibling-group-%d", u.T)))
	}
	return &mU{hash: h[:], idx: u.I, val: u.V, kind: u.K, script: r.pkScript(u.K)}
}

func toUtxo(u *mU) *btc.Utxo {
	return &btc.Utxo{Op: &btc.OutPoint{Hash: append([]byte(nil), u.hash...), Index: u.idx}, AtHeight: 1, Value: u.val,
		ScriptPubkey: append([]byte(nil), u.script...)}
}

// compareStored checks that the stored set equals the model set as a multiset.
func compareStored(ctx *ev.Ctx, what string, stored *btc.Utxos, want map[string]*mU, mult map[string]int) {
	seen := map[string]int{}
	for _, u := range stored.Utxos {
		k := opKey(u.Op)
		seen[k]++
		w, ok := want[k]
		if !ok {
			ctx.Failf("%s: stored set holds %s (value %d) which the model does not expect there", what, k, u.Value)
		}
		if u.Value != w.val || !bytes.Equal(u.ScriptPubkey, w.script) {
			ctx.Failf("%s: stored entry %s has value %d / script %x, model has %d / %x", what, k, u.Value, u.ScriptPubkey, w.val, w.script)
		}
	}
	for k := range want {
		n := 1
		if mult != nil {
			n = mult[k]
		}
		if seen[k] != n {
			ctx.Failf("%s: outpoint %s is stored %d times, model expects %d", what, k, seen[k], n)
		}
	}
}

// ---------------------------------------------------------------------------------------------
// root-cause attribution for a reported-total mismatch.
//
// NOT the oracle: the verdict "reported total != sum of selected values" is reached from the model
// above. This is a literal transcription of the second search pass, instrumented to tell which of
// its two slips produced the difference, so that each gets its own stable root-cause key; if the
// transcription does not reproduce the observation the failure is reported unattributed.

type diagSel struct {
	feeRate, target, mc uint64
	m, n                int
	outsSize, nOuts     int
}

func varIntSize(v uint64) int {
	switch {
	case v < 0xfd:
		return 1
	case v <= 0xffff:
		return 3
	case v <= 0xffffffff:
		return 5
	}
	return 9
}

func (d *diagSel) lossRatio(sel []*mU) float64 {
	redeemSize := 1 + d.m*(1+75) + 1 + 1 + d.n*(1+33) + 1 + 1
	p2sh := 43 + redeemSize
	wit := 41 + redeemSize/4
	nw := 0
	for _, u := range sel {
		if u.kind == "p2wsh" {
			nw++
		}
	}
	size := 10 + 2 + varIntSize(uint64(len(sel))) + varIntSize(uint64(d.nOuts+1)) + (len(sel)-nw)*p2sh + nw*wit + d.outsSize
	return float64(uint64(size)*d.feeRate) / float64(d.target)
}

func (d *diagSel) sortedSearch(sorted []*mU) (sel []*mU, sum, skipErr, aliasErr uint64) {
	selection := make([]*mU, 0)
	pass := 0
	for _, u := range sorted {
		switch pass {
		case 0:
			selection = append(selection, u)
			sum += u.val
			if d.lossRatio(selection) >= 1.0 {
				if u.kind == "p2sh" {
					selection = selection[:len(selection)-1]
					skipErr += u.val // value stays in sum although the output was dropped
					continue
				}
				return nil, 0, 0, 0
			}
			if sum == d.target || sum >= d.target+d.mc {
				pass = 1
			}
		case 1:
			last := selection[len(selection)-1]
			lr := d.lossRatio(append(selection[:len(selection)-1:cap(selection)-1], u))
			aliased := selection[len(selection)-1] != last
			if aliased {
				aliasErr += last.val - u.val // the element to be replaced was already overwritten
			}
			if sumTemp := sum - selection[len(selection)-1].val + u.val; (sumTemp == d.target || sumTemp >= d.target+d.mc) && lr < 1.0 {
				sum = sumTemp
				selection[len(selection)-1] = u
			} else {
				return selection, sum, skipErr, aliasErr
			}
		}
	}
	if pass == 1 {
		return selection, sum, skipErr, aliasErr
	}
	return nil, 0, 0, 0
}

func attribute(ctx *ev.Ctx, what string, c c26Case, amount int64, pre []*mU, sel []*mU, reported, actual uint64, outs []*wire.TxOut) {
	sorted := append([]*mU(nil), pre...)
	sort.Slice(sorted, func(i, j int) bool { // descending by value, then by hash
		if sorted[i].val != sorted[j].val {
			return sorted[i].val > sorted[j].val
		}
		return bytes.Compare(sorted[i].hash, sorted[j].hash) > 0
	})
	d := &diagSel{feeRate: c.FeeRate, target: uint64(amount), mc: c.MinChange, m: c.M, n: c.N, nOuts: len(outs)}
	for _, o := range outs {
		d.outsSize += o.SerializeSize()
	}
	dsel, dsum, skipErr, aliasErr := d.sortedSearch(sorted)
	match := dsum == reported && len(dsel) == len(sel)
	if match {
		in := map[string]bool{}
		for _, u := range dsel {
			in[u.key()] = true
		}
		for _, u := range sel {
			if !in[u.key()] {
				match = false
			}
		}
	}
	desc := fmt.Sprintf("%s: reported input total %d but the %d selected outputs add up to %d (payment %d, fee rate %d, min change %d, %d-of-%d)",
		what, reported, len(sel), actual, amount, c.FeeRate, c.MinChange, c.M, c.N)
	if !match || reported < actual || skipErr+aliasErr != reported-actual {
		ctx.Failf("%s [unattributed: second-pass transcription gives total %d, %d outputs, skip %d, alias %d]", desc, dsum, len(dsel), skipErr, aliasErr)
	}
	if skipErr > 0 {
		ctx.Label("finding:p2sh-skip")
		ctx.Known(c26KeySkip, "%s: SortedSearch dropped P2SH output(s) worth %d for exceeding the fee limit but left their value in the running sum", desc, skipErr)
	}
	if aliasErr > 0 {
		ctx.Label("finding:replace-alias")
		ctx.Known(c26KeyAlias, "%s: SortedSearch's replace step appended into the selection's own backing array, so the replaced output's value (difference %d) was never subtracted", desc, aliasErr)
	}
}

// ---------------------------------------------------------------------------------------------
// completing a withdrawal through the real BTCHandler.MultiSign (the production source of sibling
// outputs): m signers sign every input; on the last signature the contract drops the inputs from the
// spent record and re-adds every output that pays the redeem script's P2WSH as a new unspent output
// (txid of the signed transaction, vout = output position).

type pendingTx struct {
	unsigned *wire.MsgTx // as stored by makeBtcTx: SignatureScript carries the spent output's pkScript
	inputs   []*mU
}

func finishWithdrawal(ctx *ev.Ctx, what string, w *world.World, c c26Case, r *redeemInfo, mdl *model, p *pendingTx) {
	storedHash := p.unsigned.TxHash()
	tx := p.unsigned.Copy()
	for _, in := range tx.TxIn {
		in.SignatureScript = nil
	}
	var final *wire.MsgTx
	for j := 0; j < c.M; j++ {
		pub, err := btcutil.NewAddressPubKey(c26Privs[j].PubKey().SerializeCompressed(), btcNet)
		if err != nil {
			panic(err)
		}
		var sigs [][]byte
		for i, u := range p.inputs {
			var h []byte
			if u.kind == "p2wsh" {
				h, err = txscript.CalcWitnessSigHash(r.script, txscript.NewTxSigHashes(tx), txscript.SigHashAll, tx, i, int64(u.val))
			} else {
				h, err = txscript.CalcSignatureHash(r.script, txscript.SigHashAll, tx, i)
			}
			if err != nil {
				ctx.Failf("harness fixture: %s: signature hash of input %d: %v", what, i, err)
			}
			sg, err := c26Privs[j].Sign(h)
			if err != nil {
				panic(err)
			}
			sigs = append(sigs, append(sg.Serialize(), byte(txscript.SigHashAll)))
		}
		mp := &crosscommon.MultiSignParam{ChainID: btcChainID, RedeemKey: hex.EncodeToString(r.rk), TxHash: storedHash[:],
			Address: pub.EncodeAddress(), Signs: sigs}
		sink := common.NewZeroCopySink(nil)
		mp.Serialization(sink)
		w.Cache.Reset()
		svc, err := native.NewNativeService(w.Cache, &types.Transaction{ChainID: w.ChainID}, w.Time, w.Height, w.BlockHash, w.ChainID, sink.Bytes(), false)
		if err != nil {
			panic(err)
		}
		var callErr error
		if pn := ev.Catch(func() { callErr = btc.NewBTCHandler().MultiSign(svc) }); pn != "" {
			ctx.Failf("%s: MultiSign (signer %d) panicked: %s", what, j, pn)
		}
		if callErr != nil {
			w.Cache.Reset()
			ctx.Failf("harness fixture: %s: MultiSign rejected signer %d of %d: %v", what, j, c.M, callErr)
		}
		w.Cache.Commit()
		for _, n := range svc.GetNotify() {
			if st, ok := n.States.([]interface{}); ok && len(st) == 6 && st[0] == "btcTxToRelay" {
				raw, _ := st[3].(string)
				rb, err := hex.DecodeString(raw)
				if err != nil {
					ctx.Failf("%s: relay notification does not carry a hex transaction", what)
				}
				final = wire.NewMsgTx(wire.TxVersion)
				if err := final.BtcDecode(bytes.NewReader(rb), wire.ProtocolVersion, wire.LatestEncoding); err != nil {
					ctx.Failf("%s: signed transaction does not decode: %v", what, err)
				}
			}
		}
	}
	if final == nil {
		ctx.Failf("harness fixture: %s: no signed transaction after %d signatures", what, c.M)
	}
	// model: inputs leave the spent record, outputs to the redeem script become unspent siblings
	for _, u := range p.inputs {
		if mdl.spent[u.key()]--; mdl.spent[u.key()] <= 0 {
			delete(mdl.spent, u.key())
			delete(mdl.spentV, u.key())
		}
	}
	txid := final.TxHash()
	back := 0
	for i, o := range final.TxOut {
		if bytes.Equal(o.PkScript, r.p2wsh) {
			m := &mU{hash: append([]byte(nil), txid[:]...), idx: uint32(i), val: uint64(o.Value), kind: "p2wsh", script: r.p2wsh}
			mdl.unspent[m.key()] = m
			back++
		}
	}
	if back >= 2 {
		ctx.Label("sign:left-sibling-outputs")
	}
	svc := w.Service()
	us, err := btc.VerifGetUtxos(svc, btcChainID, hex.EncodeToString(r.rk))
	if err != nil {
		ctx.Failf("%s: getUtxos: %v", what, err)
	}
	compareStored(ctx, what+": unspent set after the last signature", us, mdl.unspent, nil)
	ss, err := btc.VerifGetStxos(svc, btcChainID, hex.EncodeToString(r.rk))
	if err != nil {
		ctx.Failf("%s: getStxos: %v", what, err)
	}
	compareStored(ctx, what+": spent record after the last signature", ss, mdl.spentV, mdl.spent)
}

// removalPanic handles a panic of the code under test. One class has its own root-cause key: the
// unspent set holds two outputs with the same txid AND the same value (Utxos.Less compares value and
// txid only, so the unspent list and the selection can order such a pair differently, and the
// removal loop of chooseUtxos, which relies on equal orders, runs off the end of the list). Every
// other panic is a plain violation. When the key is listed the step counts as a reverted transaction.
func removalPanic(ctx *ev.Ctx, what, p string, pre []*mU) error {
	tie := false
	seen := map[string]bool{}
	for _, u := range pre {
		k := fmt.Sprintf("%x/%d", u.hash, u.val)
		if seen[k] {
			tie = true
		}
		seen[k] = true
	}
	first := p
	if i := strings.Index(p, "\n"); i >= 0 {
		first = p[:i]
	}
	if tie && strings.Contains(first, "index out of range") && strings.Contains(p, "btc.chooseUtxos") {
		ctx.Label("finding:equal-value-sibling-panic")
		ctx.Known(c26KeyTie, "%s panicked (%s) in the removal loop of chooseUtxos: the unspent set holds outputs of one transaction with equal values, "+
			"which Utxos.Less leaves unordered, so the sorted selection and the sorted unspent list disagree on their order", what, first)
		return fmt.Errorf("panic: %s", first)
	}
	ctx.Failf("%s panicked: %s", what, p)
	return nil
}

// ---------------------------------------------------------------------------------------------
// run

func runC26(ctx *ev.Ctx, c c26Case) {
	if c.N < 1 || c.N > 7 || c.M < 1 || c.M > c.N || c.FeeRate == 0 || c.MinChange < 2000 {
		ctx.Label("skip:malformed-case")
		return
	}
	r := makeRedeem(c.M, c.N)
	if cls := txscript.GetScriptClass(r.script); cls != txscript.MultiSigTy {
		ctx.Failf("harness fixture: redeem script is classified %s", cls)
	}
	w := setupWorld(ctx, c, r)
	rkHex := hex.EncodeToString(r.rk)
	mdl := &model{unspent: map[string]*mU{}, spent: map[string]int{}, spentV: map[string]*mU{}, ever: map[string]bool{}}

	addUtxos := func(list []c26Utxo) {
		w.Cache.Reset()
		svc := w.Service()
		cur, err := btc.VerifGetUtxos(svc, btcChainID, rkHex)
		if err != nil {
			ctx.Failf("getUtxos: %v", err)
		}
		for _, u := range list {
			if u.V == 0 {
				continue
			}
			m := mdl.mint(r, u)
			if mdl.unspent[m.key()] != nil || mdl.ever[m.key()] {
				ctx.Label("skip:duplicate-outpoint")
				continue
			}
			if u.T > 0 {
				ctx.Label("utxo:sibling")
			}
			mdl.unspent[m.key()] = m
			cur.Utxos = append(cur.Utxos, toUtxo(m))
		}
		btc.VerifPutUtxos(svc, btcChainID, rkHex, cur)
		w.Cache.Commit()
	}
	addUtxos(c.Utxos)

	recipient, err := btcutil.NewAddressPubKeyHash(bytes.Repeat([]byte{0x11}, 20), btcNet)
	if err != nil {
		panic(err)
	}
	p2pkhScript, _ := txscript.PayToAddrScript(recipient)
	selfAddr, err := btcutil.NewAddressWitnessScriptHash(r.p2wsh[2:], btcNet)
	if err != nil {
		panic(err)
	}
	var pending []*pendingTx // withdrawals built by MakeTransaction and not yet fully signed

	selections, secondPass, maxInputs := 0, 0, 0
	for si, st := range c.Steps {
		switch st.Op {
		case "add":
			addUtxos(st.Add)
			ctx.Label("op:add")
			continue
		case "sign":
			if len(pending) == 0 {
				ctx.Label("op:sign-nothing-pending")
				continue
			}
			ctx.Label("op:sign")
			finishWithdrawal(ctx, fmt.Sprintf("step %d (sign)", si), w, c, r, mdl, pending[0])
			pending = pending[1:]
			continue
		case "choose", "make", "make-self":
		default:
			ctx.Label("skip:malformed-case")
			continue
		}
		if st.Rel == "min-sibling" {
			// resolved against the current state: the smallest unspent output that has an unspent sibling
			byTx := map[string]int{}
			for _, u := range mdl.unspent {
				byTx[string(u.hash)]++
			}
			var best *mU
			for _, u := range mdl.unspent {
				if byTx[string(u.hash)] > 1 && (best == nil || u.val < best.val || (u.val == best.val && u.key() > best.key())) {
					best = u
				}
			}
			if best != nil && best.val <= btcutil.MaxSatoshi {
				st.Amount = int64(best.val)
				ctx.Label("amount:min-sibling")
			}
		}
		what := fmt.Sprintf("step %d (%s %d)", si, st.Op, st.Amount)
		recipientAddr, recipientScript := recipient.EncodeAddress(), p2pkhScript
		if st.Op == "make-self" {
			recipientAddr, recipientScript = selfAddr.EncodeAddress(), r.p2wsh
		}
		if st.Amount <= 0 || st.Amount > btcutil.MaxSatoshi {
			ctx.Label("skip:malformed-case")
			continue
		}
		ctx.Label("op:" + st.Op)
		pre := make([]*mU, 0, len(mdl.unspent))
		for _, u := range mdl.unspent {
			pre = append(pre, u)
		}
		sort.Slice(pre, func(i, j int) bool { return pre[i].key() < pre[j].key() })
		// the output list makeBtcTx hands to the selector: recipient output, then the change output
		outs := []*wire.TxOut{wire.NewTxOut(st.Amount, recipientScript), wire.NewTxOut(0, r.p2wsh)}

		w.Cache.Reset()
		svc := w.Service()
		var sel []*mU
		var reported uint64
		var callErr error
		var mtx *wire.MsgTx
		if st.Op == "choose" {
			var res []*btc.Utxo
			var sum, fee int64
			if p := ev.Catch(func() { res, sum, fee, callErr = btc.VerifChooseUtxos(svc, btcChainID, st.Amount, outs, r.rk, c.M, c.N) }); p != "" {
				callErr = removalPanic(ctx, what+": chooseUtxos", p, pre)
			}
			_ = fee
			if callErr == nil {
				if sum < 0 {
					ctx.Failf("%s: negative input total %d", what, sum)
				}
				reported = uint64(sum)
				for _, u := range res {
					mu, ok := mdl.unspent[opKey(u.Op)]
					if !ok {
						ctx.Failf("%s: selected %s (value %d) which is not an unspent output of the redeem script (ever selected before: %v)",
							what, opKey(u.Op), u.Value, mdl.ever[opKey(u.Op)])
					}
					if u.Value != mu.val || !bytes.Equal(u.ScriptPubkey, mu.script) {
						ctx.Failf("%s: selected %s with value %d / script %x, the unspent output has %d / %x", what, opKey(u.Op), u.Value, u.ScriptPubkey, mu.val, mu.script)
					}
					sel = append(sel, mu)
				}
			}
		} else {
			sink := common.NewZeroCopySink(nil)
			sink.WriteVarBytes([]byte(recipientAddr))
			sink.WriteUint64(uint64(st.Amount))
			sink.WriteVarBytes(r.script)
			th := sha256.Sum256([]byte(fmt.Sprintf("verif-c26-fromtx-%d", si)))
			param := &crosscommon.MakeTxParam{TxHash: th[:], CrossChainID: th[:], FromContractAddress: r.contract, ToChainID: btcChainID,
				ToContractAddress: r.rk, Method: "unlock", Args: sink.Bytes()}
			if p := ev.Catch(func() { callErr = btc.NewBTCHandler().MakeTransaction(svc, param, contractChainID) }); p != "" {
				callErr = removalPanic(ctx, what+": MakeTransaction", p, pre)
			}
			if callErr == nil {
				var raw string
				var amts []uint64
				for _, n := range svc.GetNotify() {
					if s, ok := n.States.([]interface{}); ok && len(s) == 4 && s[0] == "makeBtcTx" {
						raw, _ = s[2].(string)
						amts, _ = s[3].([]uint64)
					}
				}
				rb, err := hex.DecodeString(raw)
				if err != nil || len(rb) == 0 {
					ctx.Failf("%s: MakeTransaction succeeded without a makeBtcTx notification carrying the raw transaction", what)
				}
				mtx = wire.NewMsgTx(wire.TxVersion)
				if err := mtx.BtcDecode(bytes.NewReader(rb), wire.ProtocolVersion, wire.LatestEncoding); err != nil {
					ctx.Failf("%s: raw transaction does not decode: %v", what, err)
				}
				if len(amts) != len(mtx.TxIn) {
					ctx.Failf("%s: notification lists %d input amounts for %d inputs", what, len(amts), len(mtx.TxIn))
				}
				for i, in := range mtx.TxIn {
					k := fmt.Sprintf("%x:%d", in.PreviousOutPoint.Hash[:], in.PreviousOutPoint.Index)
					mu, ok := mdl.unspent[k]
					if !ok {
						ctx.Failf("%s: transaction spends %s which is not an unspent output of the redeem script (ever selected before: %v)", what, k, mdl.ever[k])
					}
					if amts[i] != mu.val || !bytes.Equal(in.SignatureScript, mu.script) {
						ctx.Failf("%s: input %d (%s) carries amount %d / script %x, the unspent output has %d / %x", what, i, k, amts[i], in.SignatureScript, mu.val, mu.script)
					}
					sel = append(sel, mu)
				}
				// reported total = payment + change (the change output pays the redeem script's P2WSH)
				if len(mtx.TxOut) < 1 || len(mtx.TxOut) > 2 || !bytes.Equal(mtx.TxOut[0].PkScript, recipientScript) {
					ctx.Failf("%s: unexpected output layout (%d outputs)", what, len(mtx.TxOut))
				}
				reported = uint64(st.Amount)
				if len(mtx.TxOut) == 2 {
					if !bytes.Equal(mtx.TxOut[1].PkScript, r.p2wsh) || mtx.TxOut[1].Value <= 0 {
						ctx.Failf("%s: second output is not a positive change output to the redeem script", what)
					}
					reported += uint64(mtx.TxOut[1].Value)
				}
			}
		}
		if callErr != nil {
			w.Cache.Reset() // reverted transaction
			ctx.Label("result:no-selection")
			var total uint64
			for _, u := range pre {
				total += u.val
			}
			if total >= uint64(st.Amount) {
				ctx.Label("result:no-selection-despite-funds")
			}
			continue
		}
		w.Cache.Commit()
		selections++
		ctx.Label("result:selected")
		if mtx != nil {
			pending = append(pending, &pendingTx{unsigned: mtx, inputs: sel})
		}
		for _, u := range sel {
			for _, o := range mdl.unspent {
				if o != u && bytes.Equal(o.hash, u.hash) {
					ctx.Label("selected:output-with-unspent-sibling")
				}
			}
		}

		// --- oracle ---
		if len(sel) == 0 {
			ctx.Failf("%s: success with an empty selection", what)
		}
		seen := map[string]bool{}
		var actual uint64
		for _, u := range sel {
			if seen[u.key()] {
				ctx.Failf("%s: outpoint %s selected twice in one withdrawal", what, u.key())
			}
			seen[u.key()] = true
			if mdl.ever[u.key()] {
				ctx.Failf("%s: outpoint %s was already selected by an earlier withdrawal", what, u.key())
			}
			actual += u.val
		}
		conserved := true
		if actual != reported {
			conserved = false
			attribute(ctx, what, c, st.Amount, pre, sel, reported, actual, outs) // fails unless listed as known
		}
		amt := uint64(st.Amount)
		if !(reported == amt || reported >= amt+c.MinChange) {
			ctx.Failf("%s: input total %d is neither the payment %d nor at least payment + minimum change %d", what, reported, amt, amt+c.MinChange)
		}
		if mtx != nil && conserved {
			var outSum int64
			for _, o := range mtx.TxOut {
				if o.Value < 0 {
					ctx.Failf("%s: negative output value %d", what, o.Value)
				}
				outSum += o.Value
			}
			if uint64(outSum) > actual {
				ctx.Failf("%s: outputs %d exceed inputs %d", what, outSum, actual)
			}
			if mtx.TxOut[0].Value > st.Amount {
				ctx.Failf("%s: recipient receives %d, more than the payment %d", what, mtx.TxOut[0].Value, st.Amount)
			}
		}
		// selected outputs leave the unspent set and are recorded as spent
		for _, u := range sel {
			delete(mdl.unspent, u.key())
			mdl.spent[u.key()]++
			mdl.spentV[u.key()] = u
			mdl.ever[u.key()] = true
		}
		svc2 := w.Service()
		us, err := btc.VerifGetUtxos(svc2, btcChainID, rkHex)
		if err != nil {
			ctx.Failf("%s: getUtxos: %v", what, err)
		}
		compareStored(ctx, what+": unspent set after the withdrawal", us, mdl.unspent, nil)
		ss, err := btc.VerifGetStxos(svc2, btcChainID, rkHex)
		if err != nil {
			ctx.Failf("%s: getStxos: %v", what, err)
		}
		compareStored(ctx, what+": spent set after the withdrawal", ss, mdl.spentV, mdl.spent)

		// classification (independent of the implementation): the first pass only returns totals
		// inside [payment+minChange, 4*payment] or equal to the payment
		if reported != amt && float64(reported) > 4.0*float64(amt) {
			secondPass++
			ctx.Label("pass:second")
		} else {
			ctx.Label("pass:first-or-undetermined")
		}
		if len(sel) > maxInputs {
			maxInputs = len(sel)
		}
		if reported == amt {
			ctx.Label("total:exact")
		} else {
			ctx.Label("total:with-change")
		}
	}
	switch {
	case maxInputs >= 3:
		ctx.Label("inputs:3+")
	case maxInputs == 2:
		ctx.Label("inputs:2")
	case maxInputs == 1:
		ctx.Label("inputs:1")
	}
	if selections >= 2 {
		ctx.Label("sequence:2+selections")
	}
	if secondPass > 0 || maxInputs >= 3 {
		ctx.NonTrivial()
	}
}

func TestC26(t *testing.T) {
	ev.Drive(t, "C26",
		"cases: an m-of-n redeem script (n<=7) registered with generated fee rate (1..500) and minimum change (2000..10^6) through the real contracts, "+
			"a UTXO set of 0..10 outputs (one in ten up to 14; thorough 12/15 and rarely 24..32, which exhausts the first pass's 10^6-try budget) with log-uniform / clustered / one-huge values and P2WSH, P2SH and bare-multisig scripts "+
			"(incl. 'largest outputs are P2SH'; in 2 of 5 cases 1..2 groups of 2..4 sibling outputs sharing a txid, equal or near-equal values), then 1..5 steps: withdrawals through chooseUtxos or BTCHandler.MakeTransaction "+
			"(also paying the multisig's own address and then completed through BTCHandler.MultiSign, which re-adds payment and change as siblings) with payments that are subset sums, the exact value of the smallest sibling, "+
			"subset sums short by less than the minimum change, fee-sized, below the minimum change, a quarter of the largest output, the total, above the total; and deposits. "+
			"non-trivial: some withdrawal selected >=3 inputs or its total lies outside the first pass's window (total != payment and total > 4*payment), i.e. it was made by the second pass; distinct by JSON encoding of the case",
		genC26, runC26)
}
