package pbtc

import (
	"bytes"
	"crypto/sha256"
	"encoding/binary"
	"encoding/hex"
	"fmt"
	"math/big"
	"os"
	"sync"
	"testing"

	"github.com/btcsuite/btcd/wire"
	"github.com/polynetwork/poly/common"
	"github.com/polynetwork/poly/core/store/overlaydb"
	"github.com/polynetwork/poly/core/types"
	"github.com/polynetwork/poly/native"
	"github.com/polynetwork/poly/native/service/cross_chain_manager/btc"
	crosscommon "github.com/polynetwork/poly/native/service/cross_chain_manager/common"
	"github.com/polynetwork/poly/native/service/governance/side_chain_manager"
	hscommon "github.com/polynetwork/poly/native/service/header_sync/common"
	"github.com/polynetwork/poly/native/service/utils"
	"github.com/polynetwork/poly/native/storage"
	"pgregory.net/rapid"

	"verif/harness/ev"
	"verif/harness/world"
)

// ---------------------------------------------------------------------------------------------
// C20 (BTC route): each cross-chain message is executed at most once
//
// World (main net): BTC side chain 1 (regtest parameters, BlocksToWait 2) registered and approved, a
// 2-of-3 redeem script bound to a contract on chain 2, the BTC light client initialised with a trust
// root by the consensus operator - all through the real contracts. A case generates deposit
// transactions (vault output as P2WSH / P2SH / bare multisig of the redeem script, OP_RETURN payload
// 0xcc | target chain | fee | address, optional change, legacy or segwit spend), places them with
// filler transactions into 1..3 blocks with real regtest proof of work, and runs a history of
//   sync      the next block header goes to the light client (syncBlockHeader)
//   submit    BTCHandler.MakeDepositProposal for one deposit: raw bytes in one of several encodings of the
//             SAME transaction (canonical, trailing zero / garbage, BIP144 framing with empty witnesses,
//             a changed witness, witness stripped), a BIP37 merkle-block proof in one of several valid
//             forms (only this tx matched, this tx and another, all matched), claimed height
//   forged    the same with a proof of another block or a wrong height
// Oracle (model: set of executed txids): the source-chain identity of a BTC message is (chain, txid).
// A confirmed deposit submitted for the first time in its canonical encoding with a valid proof is
// accepted; any later submission of the same txid, whatever bytes and proof carry it, is refused; a
// forged or unconfirmed submission is refused. On acceptance the returned message names the txid as
// cross-chain id / tx hash and carries the deposit's payload. After every step: CheckDoneTx refuses
// exactly the executed txids, the number of done markers of the chain equals the number of executed
// deposits, and the redeem script is credited exactly one output txid:0 per executed deposit.

const (
	c20Genesis = uint32(100) // height of the trust root
	c20Wait    = uint64(2)   // BlocksToWait of the registered chain: best - height >= 1
)

func c20BtcID() string {
	if v := os.Getenv("VERIF_PROP_ID"); v != "" { // development only (helper entry _C20btc)
		return v
	}
	return "C20"
}

type c20Dep struct {
	Value  int64  `json:"value"`
	Kind   string `json:"kind"` // vault script: p2wsh | p2sh | multisig
	Fee    int64  `json:"fee"`
	Addr   ev.B   `json:"addr"`
	Segwit bool   `json:"segwit,omitempty"` // spends a witness output: the canonical encoding carries a witness
	Change bool   `json:"change,omitempty"`
	Block  int    `json:"block"`
	Pos    int    `json:"pos"` // position in the block (modulo)
}

type c20Op struct {
	Op    string `json:"op"`              // sync | submit | forged
	Dep   int    `json:"dep,omitempty"`   // deposit (modulo)
	Enc   string `json:"enc,omitempty"`   // canonical | trailing-zero | trailing-garbage | segwit-framing | witness-changed | witness-stripped
	Proof string `json:"proof,omitempty"` // single | pair | all
	How   string `json:"how,omitempty"`   // forged: other-block | wrong-height | future-height
}

type c20BtcCase struct {
	Deps    []c20Dep `json:"deps"`
	Fillers []int    `json:"fillers"` // filler transactions per block; len = number of blocks
	Synced  int      `json:"synced"`  // headers synced before the history starts
	Ops     []c20Op  `json:"ops"`
}

func genC20Btc(t *rapid.T) c20BtcCase {
	c := c20BtcCase{}
	nb := rapid.IntRange(1, 3).Draw(t, "nblocks")
	for i := 0; i < nb; i++ {
		c.Fillers = append(c.Fillers, rapid.SampledFrom([]int{0, 1, 2, 3, 5, 6}).Draw(t, "fillers"))
	}
	nd := rapid.IntRange(1, 4).Draw(t, "ndeps")
	for i := 0; i < nd; i++ {
		d := c20Dep{
			Value:  rapid.Int64Range(1, 2_000_000_000).Draw(t, "value"),
			Kind:   rapid.SampledFrom([]string{"p2wsh", "p2wsh", "p2sh", "multisig"}).Draw(t, "kind"),
			Addr:   rapid.SliceOfN(rapid.Byte(), 20, 20).Draw(t, "addr"),
			Segwit: rapid.Bool().Draw(t, "segwit"),
			Change: rapid.Bool().Draw(t, "change"),
			Block:  rapid.IntRange(0, nb-1).Draw(t, "block"),
			Pos:    rapid.IntRange(0, 7).Draw(t, "pos"),
		}
		d.Fee = rapid.Int64Range(0, d.Value).Draw(t, "fee")
		c.Deps = append(c.Deps, d)
	}
	c.Synced = nb + 1 - rapid.IntRange(0, nb+1).Draw(t, "unsynced") // (rapid favours small values: mostly everything is synced)
	encs := []string{"canonical", "canonical", "trailing-zero", "trailing-garbage", "segwit-framing", "witness-changed", "witness-stripped"}
	n := rapid.IntRange(2, 10).Draw(t, "nops")
	for i := 0; i < n; i++ {
		o := c20Op{Op: rapid.SampledFrom([]string{"submit", "submit", "submit", "submit", "sync", "forged"}).Draw(t, "op")}
		switch o.Op {
		case "submit":
			o.Dep = rapid.IntRange(0, nd-1).Draw(t, "dep")
			o.Enc = rapid.SampledFrom(encs).Draw(t, "enc")
			o.Proof = rapid.SampledFrom([]string{"single", "pair", "all"}).Draw(t, "proof")
			// a replay of the previous submission in another encoding is the interesting neighbour
			if i > 0 && c.Ops[i-1].Op == "submit" && rapid.IntRange(0, 3).Draw(t, "replay") < 3 {
				o.Dep = c.Ops[i-1].Dep
			}
		case "forged":
			o.Dep = rapid.IntRange(0, nd-1).Draw(t, "dep")
			o.Enc = "canonical"
			o.How = rapid.SampledFrom([]string{"other-block", "wrong-height", "future-height"}).Draw(t, "how")
		}
		c.Ops = append(c.Ops, o)
	}
	return c
}

// ---------------------------------------------------------------------------------------------
// harness-side Bitcoin: double SHA-256, merkle tree, BIP37 partial merkle tree, header mining

func dsha(b []byte) [32]byte {
	a := sha256.Sum256(b)
	return sha256.Sum256(a[:])
}

func merkleLevelUp(level [][32]byte) [][32]byte {
	var up [][32]byte
	for i := 0; i < len(level); i += 2 {
		l, r := level[i], level[i]
		if i+1 < len(level) {
			r = level[i+1]
		}
		up = append(up, dsha(append(append([]byte{}, l[:]...), r[:]...)))
	}
	return up
}

func merkleRoot(txids [][32]byte) [32]byte {
	level := txids
	for len(level) > 1 {
		level = merkleLevelUp(level)
	}
	return level[0]
}

// partialMerkle builds the BIP37 partial merkle tree (hash list + flag bits) for the matched leaves.
func partialMerkle(txids [][32]byte, match []bool) (hashes [][32]byte, flags []byte) {
	levels := [][][32]byte{txids}
	for len(levels[len(levels)-1]) > 1 {
		levels = append(levels, merkleLevelUp(levels[len(levels)-1]))
	}
	var bits []bool
	var walk func(h, pos int)
	walk = func(h, pos int) {
		lo, hi := pos<<uint(h), (pos+1)<<uint(h)
		parent := false
		for i := lo; i < hi && i < len(txids); i++ {
			parent = parent || match[i]
		}
		bits = append(bits, parent)
		if h == 0 || !parent {
			hashes = append(hashes, levels[h][pos])
			return
		}
		walk(h-1, 2*pos)
		if 2*pos+1 < len(levels[h-1]) {
			walk(h-1, 2*pos+1)
		}
	}
	walk(len(levels)-1, 0)
	flags = make([]byte, (len(bits)+7)/8)
	for i, b := range bits {
		if b {
			flags[i/8] |= 1 << uint(i%8)
		}
	}
	return
}

func putVarInt(b *bytes.Buffer, v uint64) {
	switch {
	case v < 0xfd:
		b.WriteByte(byte(v))
	case v <= 0xffff:
		b.WriteByte(0xfd)
		binary.Write(b, binary.LittleEndian, uint16(v))
	default:
		b.WriteByte(0xfe)
		binary.Write(b, binary.LittleEndian, uint32(v))
	}
}

// merkleBlockMsg serialises a "merkleblock" message: header | tx count | hashes | flag bytes.
func merkleBlockMsg(header []byte, txids [][32]byte, match []bool) []byte {
	hashes, flags := partialMerkle(txids, match)
	var b bytes.Buffer
	b.Write(header)
	binary.Write(&b, binary.LittleEndian, uint32(len(txids)))
	putVarInt(&b, uint64(len(hashes)))
	for _, h := range hashes {
		b.Write(h[:])
	}
	putVarInt(&b, uint64(len(flags)))
	b.Write(flags)
	return b.Bytes()
}

type c20Hdr struct {
	version int32
	prev    [32]byte
	merkle  [32]byte
	time    uint32
	bits    uint32
	nonce   uint32
}

func (h *c20Hdr) bytes() []byte {
	b := make([]byte, 80)
	binary.LittleEndian.PutUint32(b[0:], uint32(h.version))
	copy(b[4:], h.prev[:])
	copy(b[36:], h.merkle[:])
	binary.LittleEndian.PutUint32(b[68:], h.time)
	binary.LittleEndian.PutUint32(b[72:], h.bits)
	binary.LittleEndian.PutUint32(b[76:], h.nonce)
	return b
}

const regtestBits = uint32(0x207fffff)

// mine finds a nonce meeting the regtest target 0x7fffff << 232 (about every second try succeeds).
func (h *c20Hdr) mine() {
	target := new(big.Int).Lsh(big.NewInt(0x7fffff), 8*(0x20-3))
	for n := uint32(0); ; n++ {
		h.nonce = n
		d := dsha(h.bytes())
		var be [32]byte
		for i := range d {
			be[31-i] = d[i]
		}
		if new(big.Int).SetBytes(be[:]).Cmp(target) <= 0 {
			return
		}
	}
}

func c20GenesisHeader() *c20Hdr {
	h := &c20Hdr{version: 1, time: 1_500_000_000, bits: regtestBits, nonce: 7}
	h.merkle[0], h.merkle[1] = 0xee, 0x20
	return h
}

// ---------------------------------------------------------------------------------------------
// deposits and their encodings

var c20Redeem *redeemInfo // set by c20Init (the key table is filled in this package's init)

var c20InitOnce sync.Once

func c20Init() { c20InitOnce.Do(func() { c20Redeem = makeRedeem(2, 3) }) }

type c20Tx struct {
	spec      c20Dep
	mtx       *wire.MsgTx
	txid      [32]byte
	canonical []byte
	payload   []byte // the "unlock" args: varbytes(address) | uint64(value)
}

func buildDeposit(i int, d c20Dep) *c20Tx {
	mtx := wire.NewMsgTx(2)
	prev := sha256.Sum256([]byte(fmt.Sprintf("verif-c20btc-funding-%d-%x-%d", i, []byte(d.Addr), d.Value)))
	var ph [32]byte
	copy(ph[:], prev[:])
	in := wire.NewTxIn(&wire.OutPoint{Hash: ph, Index: uint32(i)}, nil, nil)
	if d.Segwit {
		in.Witness = wire.TxWitness{bytes.Repeat([]byte{0x30}, 71), bytes.Repeat([]byte{0x02}, 33)}
	} else {
		in.SignatureScript = append(append([]byte{71}, bytes.Repeat([]byte{0x30}, 71)...), append([]byte{33}, bytes.Repeat([]byte{0x03}, 33)...)...)
	}
	mtx.AddTxIn(in)
	mtx.AddTxOut(wire.NewTxOut(d.Value, c20Redeem.pkScript(d.Kind)))
	// OP_RETURN <push> 0xcc | toChainID u64 | fee i64 | varbytes(address)
	args := common.NewZeroCopySink(nil)
	args.WriteUint64(contractChainID)
	args.WriteInt64(d.Fee)
	args.WriteVarBytes(d.Addr)
	data := append([]byte{btc.OP_RETURN_SCRIPT_FLAG}, args.Bytes()...)
	mtx.AddTxOut(wire.NewTxOut(0, append([]byte{0x6a, byte(len(data))}, data...)))
	if d.Change {
		mtx.AddTxOut(wire.NewTxOut(12345, append(append([]byte{0x76, 0xa9, 0x14}, bytes.Repeat([]byte{0x22}, 20)...), 0x88, 0xac)))
	}
	t := &c20Tx{spec: d, mtx: mtx}
	var base, full bytes.Buffer
	if err := mtx.SerializeNoWitness(&base); err != nil {
		panic(err)
	}
	if err := mtx.Serialize(&full); err != nil {
		panic(err)
	}
	t.txid = dsha(base.Bytes()) // the txid commits to the witness-free serialisation
	t.canonical = full.Bytes()
	p := common.NewZeroCopySink(nil)
	p.WriteVarBytes(d.Addr)
	p.WriteUint64(uint64(d.Value))
	t.payload = p.Bytes()
	return t
}

// encode returns another byte string carrying the same transaction ("" result = variant not applicable).
func (t *c20Tx) encode(enc string) []byte {
	var base bytes.Buffer
	t.mtx.SerializeNoWitness(&base)
	b := base.Bytes()
	switch enc {
	case "canonical":
		return t.canonical
	case "trailing-zero":
		return append(append([]byte{}, t.canonical...), 0x00)
	case "trailing-garbage":
		return append(append([]byte{}, t.canonical...), 0xde, 0xad, 0xbe, 0xef)
	case "segwit-framing":
		if t.spec.Segwit {
			return nil
		}
		out := append([]byte{}, b[:4]...)
		out = append(out, 0x00, 0x01)
		out = append(out, b[4:len(b)-4]...)
		for range t.mtx.TxIn {
			out = append(out, 0x00)
		}
		return append(out, b[len(b)-4:]...)
	case "witness-changed":
		if !t.spec.Segwit {
			return nil
		}
		cp := t.mtx.Copy()
		cp.TxIn[0].Witness = wire.TxWitness{bytes.Repeat([]byte{0x31}, 70), bytes.Repeat([]byte{0x03}, 33), {0x01}}
		var w bytes.Buffer
		cp.Serialize(&w)
		return w.Bytes()
	case "witness-stripped":
		if !t.spec.Segwit {
			return nil
		}
		return b
	}
	return nil
}

// ---------------------------------------------------------------------------------------------
// world: one base per process (see freshWorld in c26_test.go for the rationale)

var (
	c20Once sync.Once
	c20W    *world.World
	c20Snap [][2][]byte
	c20Ov   *overlaydb.OverlayDB
	c20Err  string
)

func buildC20Base() {
	c20Init()
	w := world.New(1, world.Opts{NetworkID: 1})
	owner, val := world.Acct(20).Address, world.Acct(0).Address
	scm := utils.SideChainManagerContractAddress
	fail := func(what string, r world.Result) bool {
		if !r.OK() {
			c20Err = fmt.Sprintf("%s: %v %s", what, r.Err, r.Panic)
			return true
		}
		return false
	}
	rp := &side_chain_manager.RegisterSideChainParam{Address: owner, ChainId: btcChainID, Router: utils.BTC_ROUTER, Name: "btc",
		BlocksToWait: c20Wait, CCMCAddress: le64(uint64(utils.TyRegtest))}
	sink := common.NewZeroCopySink(nil)
	rp.Serialization(sink)
	if fail("registerSideChain", w.Invoke(scm, side_chain_manager.REGISTER_SIDE_CHAIN, sink.Bytes(), []common.Address{owner})) {
		return
	}
	ap := &side_chain_manager.ChainidParam{Chainid: btcChainID, Address: val}
	sink = common.NewZeroCopySink(nil)
	ap.Serialization(sink)
	if fail("approveRegisterSideChain", w.Invoke(scm, side_chain_manager.APPROVE_REGISTER_SIDE_CHAIN, sink.Bytes(), []common.Address{val})) {
		return
	}
	r := c20Redeem
	msg := append(append(append(append(append([]byte{}, r.script...), le64(btcChainID)...), r.contract...), le64(contractChainID)...), le64(0)...)
	rr := &side_chain_manager.RegisterRedeemParam{RedeemChainID: btcChainID, ContractChainID: contractChainID, Redeem: r.script, CVersion: 0,
		ContractAddress: r.contract, Signs: r.sign(msg)}
	sink = common.NewZeroCopySink(nil)
	rr.Serialization(sink)
	if fail("registerRedeem", w.Invoke(scm, side_chain_manager.REGISTER_REDEEM, sink.Bytes(), nil)) {
		return
	}
	g := append(c20GenesisHeader().bytes(), 0, 0, 0, 0)
	binary.BigEndian.PutUint32(g[80:], c20Genesis)
	gp := &hscommon.SyncGenesisHeaderParam{ChainID: btcChainID, GenesisHeader: g}
	sink = common.NewZeroCopySink(nil)
	gp.Serialization(sink)
	if fail("syncGenesisHeader", w.Invoke(utils.HeaderSyncContractAddress, hscommon.SYNC_GENESIS_HEADER, sink.Bytes(), []common.Address{val})) { // a single consensus node: the operator is that node's own address
		return
	}
	c20W, c20Snap, c20Ov = w, w.Dump(), overlaydb.NewOverlayDB(w.Store)
}

func freshC20World(ctx *ev.Ctx) *world.World {
	c20Once.Do(buildC20Base)
	if c20Err != "" {
		ctx.Failf("harness fixture: %s", c20Err)
	}
	world.ResetGlobals(1)
	c20Ov.Reset()
	for _, kv := range c20Snap {
		c20Ov.Put(kv[0], kv[1])
	}
	return &world.World{Store: c20W.Store, Overlay: c20Ov, Cache: storage.NewCacheDB(c20Ov), Height: 1, Time: c20W.Time,
		ChainID: c20W.ChainID, Validators: c20W.Validators}
}

// ---------------------------------------------------------------------------------------------
// run

type c20Block struct {
	txids  [][32]byte
	header *c20Hdr
	height uint32
	depPos map[int]int // deposit index -> position in the block
}

func runC20Btc(ctx *ev.Ctx, c c20BtcCase) {
	if len(c.Deps) == 0 || len(c.Fillers) == 0 || len(c.Fillers) > 4 || len(c.Deps) > 8 {
		ctx.Label("skip:malformed-case")
		return
	}
	c20Init()
	w := freshC20World(ctx)
	nb := len(c.Fillers)
	rkHex := hex.EncodeToString(c20Redeem.rk)

	// deposits (distinct transactions) and blocks
	var deps []*c20Tx
	seenTx := map[[32]byte]bool{}
	for i, d := range c.Deps {
		if d.Value <= 0 || d.Fee < 0 || d.Fee > d.Value || len(d.Addr) != 20 {
			ctx.Label("skip:malformed-case")
			return
		}
		t := buildDeposit(i, d)
		if seenTx[t.txid] {
			ctx.Label("skip:malformed-case")
			return
		}
		seenTx[t.txid] = true
		deps = append(deps, t)
	}
	blocks := make([]*c20Block, nb+1) // one extra block on top so that the last deposit block can be confirmed
	prev := c20GenesisHeader()
	for b := 0; b <= nb; b++ {
		blk := &c20Block{depPos: map[int]int{}, height: c20Genesis + 1 + uint32(b)}
		nf := 1
		if b < nb {
			nf = c.Fillers[b]
		}
		for f := 0; f < nf; f++ {
			blk.txids = append(blk.txids, dsha([]byte(fmt.Sprintf("verif-c20btc-filler-%d-%d", b, f))))
		}
		for i, t := range deps {
			if ((t.spec.Block%nb)+nb)%nb != b || b == nb {
				continue
			}
			pos := 0
			if len(blk.txids) > 0 {
				pos = t.spec.Pos % (len(blk.txids) + 1)
			}
			blk.txids = append(blk.txids[:pos], append([][32]byte{t.txid}, blk.txids[pos:]...)...)
			for k, p := range blk.depPos {
				if p >= pos {
					blk.depPos[k] = p + 1
				}
			}
			blk.depPos[i] = pos
		}
		if len(blk.txids) == 0 {
			blk.txids = append(blk.txids, dsha([]byte(fmt.Sprintf("verif-c20btc-coinbase-%d", b))))
		}
		prevHash := dsha(prev.bytes())
		blk.header = &c20Hdr{version: 0x20000000, prev: prevHash, merkle: merkleRoot(blk.txids), time: prev.time + 600, bits: regtestBits}
		blk.header.mine()
		blocks[b], prev = blk, blk.header
	}
	blockOf := func(i int) (*c20Block, int) {
		for _, blk := range blocks {
			if p, ok := blk.depPos[i]; ok {
				return blk, p
			}
		}
		return nil, 0
	}

	synced := 0
	syncNext := func() {
		if synced > nb {
			ctx.Label("sync:nothing-left")
			return
		}
		p := &hscommon.SyncBlockHeaderParam{ChainID: btcChainID, Address: world.Acct(50).Address, Headers: [][]byte{blocks[synced].header.bytes()}}
		sink := common.NewZeroCopySink(nil)
		p.Serialization(sink)
		must(ctx, fmt.Sprintf("syncBlockHeader of block %d", synced),
			w.Invoke(utils.HeaderSyncContractAddress, hscommon.SYNC_BLOCK_HEADER, sink.Bytes(), []common.Address{world.Acct(50).Address}))
		synced++
	}
	for i := 0; i < c.Synced && i <= nb; i++ {
		syncNext()
	}

	executed := map[[32]byte]bool{}
	doneKey := utils.ConcatKey(utils.CrossChainManagerContractAddress, []byte(crosscommon.DONE_TX), utils.GetUint64Bytes(btcChainID))
	checkState := func(what string) {
		svc := w.Service()
		for _, t := range deps {
			err := crosscommon.CheckDoneTx(svc, t.txid[:], btcChainID)
			if (err != nil) != executed[t.txid] {
				ctx.Failf("%s: done marker of deposit %x present = %v, executed = %v", what, t.txid, err != nil, executed[t.txid])
			}
		}
		markers := 0
		for _, kv := range w.Dump() {
			if bytes.Contains(kv[0], doneKey) {
				markers++
			}
		}
		if markers != len(executed) {
			ctx.Failf("%s: %d done markers are stored for the BTC chain, %d deposits were executed", what, markers, len(executed))
		}
		us, err := btc.VerifGetUtxos(svc, btcChainID, rkHex)
		if err != nil {
			ctx.Failf("%s: getUtxos: %v", what, err)
		}
		credited := map[[32]byte]int{}
		for _, u := range us.Utxos {
			var h [32]byte
			copy(h[:], u.Op.Hash)
			credited[h]++
			if len(u.Op.Hash) != 32 || u.Op.Index != 0 || !executed[h] {
				ctx.Failf("%s: the redeem script is credited output %x:%d, which is not the vault output of an executed deposit", what, u.Op.Hash, u.Op.Index)
			}
		}
		for _, t := range deps {
			want := 0
			if executed[t.txid] {
				want = 1
			}
			if credited[t.txid] != want {
				ctx.Failf("%s: vault output of deposit %x is credited %d times, executed = %v", what, t.txid, credited[t.txid], executed[t.txid])
			}
		}
	}

	accepted, refusedReplays, reencodedReplays := 0, 0, 0
	for oi, o := range c.Ops {
		if o.Op == "sync" {
			ctx.Label("op:sync")
			syncNext()
			continue
		}
		if o.Op != "submit" && o.Op != "forged" {
			ctx.Label("skip:malformed-case")
			continue
		}
		di := ((o.Dep % len(deps)) + len(deps)) % len(deps)
		t := deps[di]
		blk, pos := blockOf(di)
		raw := t.encode(o.Enc)
		if raw == nil {
			ctx.Label("enc:not-applicable")
			raw = t.canonical
			o.Enc = "canonical"
		}
		match := make([]bool, len(blk.txids))
		match[pos] = true
		switch o.Proof {
		case "pair":
			match[(pos+1)%len(match)] = true
		case "all":
			for k := range match {
				match[k] = true
			}
		}
		proof := merkleBlockMsg(blk.header.bytes(), blk.txids, match)
		height := blk.height
		best := c20Genesis + uint32(synced)
		valid := blk.height <= best && best-blk.height >= uint32(c20Wait-1)
		if o.Op == "forged" {
			valid = false
			switch o.How {
			case "other-block":
				// a genuine proof of the top block, which does not hold the deposit
				ob := blocks[nb]
				m := make([]bool, len(ob.txids))
				m[0] = true
				proof = merkleBlockMsg(ob.header.bytes(), ob.txids, m)
			case "wrong-height":
				if blk.height == c20Genesis+1 {
					height = blk.height + 1
				} else {
					height = blk.height - 1
				}
			default:
				height = c20Genesis + uint32(nb) + 5
			}
			ctx.Label("forged:" + o.How)
		}
		what := fmt.Sprintf("op %d (%s deposit %d %x, encoding %s, proof %s%s, height %d, best %d)", oi, o.Op, di, t.txid[:6], o.Enc, o.Proof, o.How, height, best)

		ep := &crosscommon.EntranceParam{SourceChainID: btcChainID, Height: height, Proof: proof, RelayerAddress: world.Acct(50).Address[:], Extra: raw}
		sink := common.NewZeroCopySink(nil)
		ep.Serialization(sink)
		w.Cache.Reset()
		svc, err := native.NewNativeService(w.Cache, &types.Transaction{ChainID: w.ChainID}, w.Time, w.Height, w.BlockHash, w.ChainID, sink.Bytes(), false)
		if err != nil {
			panic(err)
		}
		var res *crosscommon.MakeTxParam
		var callErr error
		if pn := ev.Catch(func() { res, callErr = btc.NewBTCHandler().MakeDepositProposal(svc) }); pn != "" {
			ctx.Failf("%s: MakeDepositProposal panicked: %s", what, pn)
		}
		if callErr != nil {
			w.Cache.Reset()
		} else {
			w.Cache.Commit()
		}
		ctx.Label("enc:" + o.Enc)
		switch {
		case executed[t.txid]:
			ctx.Label("submit:replay")
			if o.Enc != "canonical" {
				reencodedReplays++
				ctx.Label("submit:replay-reencoded")
			}
			if callErr == nil {
				ctx.Failf("%s: BTC deposit %x (chain %d) was already executed and is accepted a second time; returned cross-chain id %x", what, t.txid, btcChainID, res.CrossChainID)
			}
			refusedReplays++
		case !valid:
			ctx.Label("submit:invalid-or-unconfirmed")
			if callErr == nil {
				ctx.Failf("%s: accepted although the submission is forged or the block is not confirmed", what)
			}
		default:
			if callErr != nil {
				if o.Enc == "canonical" {
					ctx.Failf("%s: first submission of a confirmed deposit with a genuine proof was refused: %v", what, callErr)
				}
				ctx.Label("submit:first-refused-noncanonical")
				break
			}
			ctx.Label("submit:first-accepted")
			accepted++
			executed[t.txid] = true
			if !bytes.Equal(res.CrossChainID, t.txid[:]) || !bytes.Equal(res.TxHash, t.txid[:]) {
				ctx.Failf("%s: the accepted message is identified by %x / %x, the deposit's txid is %x", what, res.CrossChainID, res.TxHash, t.txid)
			}
			if res.ToChainID != contractChainID || res.Method != "unlock" || !bytes.Equal(res.Args, t.payload) ||
				!bytes.Equal(res.FromContractAddress, c20Redeem.rk) || !bytes.Equal(res.ToContractAddress, c20Redeem.contract) {
				ctx.Failf("%s: accepted message differs from the deposit: %+v", what, *res)
			}
		}
		checkState(what)
	}
	if accepted > 0 && refusedReplays > 0 {
		ctx.NonTrivial()
	}
	if reencodedReplays > 0 {
		ctx.Label("history:reencoded-replay")
	}
	if accepted >= 2 {
		ctx.Label("history:2+deposits")
	}
}

func TestC20Btc(t *testing.T) {
	ev.Drive(t, c20BtcID(),
		"BTC route: cases: 1..4 generated deposit transactions (vault output P2WSH/P2SH/bare multisig of the registered redeem script, OP_RETURN payload, legacy or segwit spend) in 1..3 regtest blocks "+
			"with filler transactions and real proof of work; histories of 2..10 steps: header sync, submission of a deposit to BTCHandler.MakeDepositProposal in one of six encodings of the same transaction "+
			"(canonical, trailing zero/garbage, BIP144 framing, changed witness, stripped witness) with one of three valid BIP37 proof forms, forged submissions (proof of another block, wrong or future height), "+
			"a submission preferably replaying the previous one. non-trivial: at least one deposit was accepted and at least one later submission of an executed txid was tried; distinct by JSON encoding of the case",
		genC20Btc, runC20Btc)
}
