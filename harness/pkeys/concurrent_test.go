package pkeys

// C17, concurrent unit: storage keys must not depend on what OTHER native executions are doing at
// the same time. K goroutines, each with its own store overlay / transaction cache / NativeService
// (nothing shared by construction), run generated lists of key-building operations of the real
// contracts behind a start barrier; the reference is the very same lists executed one after the
// other in fresh services. Verdict on a correct tree is deterministic: a goroutine that shares
// nothing must end with exactly the write set and the read results of its sequential run.

import (
	"bytes"
	"fmt"
	"os"
	"sort"
	"strings"
	"sync"
	"testing"

	ccom "github.com/polynetwork/poly/native/service/cross_chain_manager/common"
	"pgregory.net/rapid"

	scommon "github.com/polynetwork/poly/core/store/common"

	"verif/harness/ev"
	"verif/harness/world"
)

type cOp struct {
	Op string `json:"op"`
	A  []kArg `json:"a"`
	Rd int    `json:"rd,omitempty"` // bit 0: read the operation's records through the real getters after it, bit 1: before it
}

type cList struct {
	Ops []cOp `json:"ops"`
	Rep int   `json:"rep"` // the list is executed Rep times in a row
}

type cCase struct {
	G []cList `json:"g"`
}

var (
	concOnce  sync.Once
	concOps   = map[string]*opDef{}
	concHot   []string // cross_chain_manager/common key builders (every cross-chain transaction runs them)
	concOther []string
)

func initConc() {
	initTables()
	concOnce.Do(func() {
		for name, o := range ops {
			if strings.HasPrefix(o.name, "tx.") { // multi-transaction fixtures: part B only
				continue
			}
			concOps[name] = o
		}
		rm := &opDef{group: "cross_chain_manager", name: "RemoveBlackChain", ps: []pspec{{"chain", tU64}},
			exec: func(x *xctx, a []val) error { ccom.RemoveBlackChain(x.svc, a[0].U); return nil },
			recs: func(a []val) []rec { return []rec{rk("ccm/blackedChain", vu(a[0].U))} }}
		concOps["cross_chain_manager.RemoveBlackChain"] = rm
		for name := range concOps {
			switch name {
			case "cross_chain_manager.PutDoneTx", "cross_chain_manager.PutBlackChain", "cross_chain_manager.RemoveBlackChain":
				concHot = append(concHot, name)
			default:
				concOther = append(concOther, name)
			}
		}
		sort.Strings(concHot)
		sort.Strings(concOther)
	})
}

func genConc(t *rapid.T) cCase {
	initConc()
	k := rapid.IntRange(2, 4).Draw(t, "goroutines")
	var c cCase
	for g := 0; g < k; g++ {
		n := rapid.IntRange(10, ev.Scale(40, 80)).Draw(t, "nops")
		l := cList{Rep: rapid.IntRange(8, ev.Scale(20, 40)).Draw(t, "rep")}
		for i := 0; i < n; i++ {
			var name string
			if rapid.IntRange(0, 9).Draw(t, "hot") < 6 {
				name = rapid.SampledFrom(concHot).Draw(t, "op")
			} else {
				name = rapid.SampledFrom(concOther).Draw(t, "op")
			}
			o := concOps[name]
			op := cOp{Op: name, Rd: rapid.SampledFrom([]int{0, 1, 1, 3, 3}).Draw(t, "rd")}
			for _, p := range o.ps {
				a := genLit(t, p, false)
				// numeric parameters (chain ids, heights, request ids) are distinct between goroutines by construction
				if p.t == tU64 || p.t == tU32 {
					a.U = (a.U &^ 3) | uint64(g)
				}
				op.A = append(op.A, a)
			}
			l.Ops = append(l.Ops, op)
		}
		c.G = append(c.G, l)
	}
	return c
}

type concStep struct {
	o *opDef
	a []val
	r []rec
	d int
}

type concOut struct {
	log  []string // per call: error text of the operation and the getter results, in order
	ws   [][2]string
	fail string
}

func runList(x *xctx, steps []concStep, rep int) (out concOut) {
	defer func() {
		if r := recover(); r != nil {
			out.fail = fmt.Sprintf("panic: %v", r)
		}
	}()
	read := func(tag string, s concStep) {
		for _, rc := range s.r {
			if kd := kinds[rc.kind]; kd != nil && kd.get != nil {
				out.log = append(out.log, fmt.Sprintf("%s %s=%v", tag, rc.id(), kd.get(x.svc, rc.p)))
			}
		}
	}
	for i := 0; i < rep; i++ {
		for _, s := range steps {
			if s.d&2 != 0 {
				read("before", s)
			}
			if err := s.o.exec(x, s.a); err != nil {
				out.log = append(out.log, "err "+s.o.name+": "+err.Error())
			}
			if s.d&1 != 0 {
				read("after", s)
			}
		}
	}
	x.w.Cache.Commit()
	x.w.Overlay.GetWriteSet().ForEach(func(k, v []byte) {
		out.ws = append(out.ws, [2]string{string(k), string(v)})
	})
	sort.Slice(out.ws, func(i, j int) bool { return out.ws[i][0] < out.ws[j][0] })
	return
}

func diffOut(ref, got concOut) string {
	if got.fail != "" || ref.fail != "" {
		if got.fail != ref.fail {
			return fmt.Sprintf("outcome %q, sequential reference %q", got.fail, ref.fail)
		}
		return ""
	}
	rm := map[string]string{}
	for _, kv := range ref.ws {
		rm[kv[0]] = kv[1]
	}
	for _, kv := range got.ws {
		v, ok := rm[kv[0]]
		if len(kv[0]) < 21 || kv[0][0] != byte(scommon.ST_STORAGE) {
			return fmt.Sprintf("key %x outside the contract-storage namespace was written", kv[0])
		}
		if !ok {
			return fmt.Sprintf("write set holds key %x|%q which the sequential run of the same operations never writes (value %x)", kv[0][1:21], kv[0][21:], clipS(kv[1]))
		}
		if v != kv[1] {
			return fmt.Sprintf("key %x|%q holds value %x, sequential reference %x", kv[0][1:21], kv[0][21:], clipS(kv[1]), clipS(v))
		}
		delete(rm, kv[0])
	}
	for k := range rm {
		return fmt.Sprintf("key %x|%q of the sequential reference is missing from the write set", k[1:21], k[21:])
	}
	if len(ref.log) != len(got.log) {
		return fmt.Sprintf("%d results, sequential reference %d", len(got.log), len(ref.log))
	}
	for i := range ref.log {
		if ref.log[i] != got.log[i] {
			return fmt.Sprintf("result %d is %q, sequential reference %q", i, got.log[i], ref.log[i])
		}
	}
	return ""
}

func clipS(s string) []byte {
	if len(s) > 40 {
		return []byte(s[:40])
	}
	return []byte(s)
}

func runConc(ctx *ev.Ctx, c cCase) {
	initConc()
	world.ResetGlobals(0)
	lists := make([][]concStep, len(c.G))
	calls, hot := 0, 0
	for g, l := range c.G {
		for _, op := range l.Ops {
			o := concOps[op.Op]
			if o == nil || len(op.A) != len(o.ps) {
				ctx.Label("unknown-op")
				continue
			}
			a := make([]val, len(o.ps))
			for k, p := range o.ps {
				a[k] = litVal(p, op.A[k])
			}
			lists[g] = append(lists[g], concStep{o: o, a: a, r: o.recs(a), d: op.Rd})
			if o.group == "cross_chain_manager" {
				hot++
			}
		}
		calls += len(lists[g]) * l.Rep
	}
	rep := func(g int) int {
		if r := c.G[g].Rep; r > 0 {
			return r
		}
		return 1
	}
	// sequential reference: fresh services, one list after the other
	ref := make([]concOut, len(lists))
	for g := range lists {
		ref[g] = runList(newCtx(baseGenesis), lists[g], rep(g))
	}
	// concurrent rounds: fresh services, all lists at once behind a start barrier
	for round := 0; round < ev.Scale(3, 4); round++ {
		got := make([]concOut, len(lists))
		xs := make([]*xctx, len(lists))
		for g := range lists {
			xs[g] = newCtx(baseGenesis)
		}
		start := make(chan struct{})
		var wg sync.WaitGroup
		for g := range lists {
			wg.Add(1)
			go func(g int) {
				defer wg.Done()
				<-start
				got[g] = runList(xs[g], lists[g], rep(g))
			}(g)
		}
		close(start)
		wg.Wait()
		for g := range lists {
			if d := diffOut(ref[g], got[g]); d != "" {
				ctx.Failf("goroutine %d of %d (own store overlay, cache and service; %d calls; round %d): %s", g, len(lists), len(lists[g])*rep(g), round, d)
			}
		}
	}
	ctx.Label(fmt.Sprintf("goroutines:%d", len(lists)))
	if len(lists) >= 2 && calls >= 200 {
		ctx.NonTrivial()
	}
	if hot > 0 {
		ctx.Label("has-ccm-common")
	}
	statMu.Lock()
	concCalls += calls
	statMu.Unlock()
}

var concCalls int

func concPropID() string {
	if v := os.Getenv("VERIF_PROP_ID"); v != "" {
		return v
	}
	return "C17"
}

func TestC17Concurrent(t *testing.T) {
	id := concPropID()
	ev.Drive(t, id,
		"concurrent unit: 2..4 goroutines, each with its own store overlay / cache / NativeService, run generated lists (10..40 operations x 8..20 repetitions, thorough 80 x 40) of the real storage-key-building helpers "+
			"(cross_chain_manager/common favoured; governance, cross-chain and header-sync put helpers and their getters) behind a start barrier, 3 rounds; reference: the same lists run sequentially. "+
			"non-trivial: at least 2 goroutines and 200 calls; distinct by JSON encoding of the case",
		genConc, runConc)
	statMu.Lock()
	defer statMu.Unlock()
	ev.Get(id).Extra("concurrent_calls_per_round", concCalls)
	_ = bytes.Equal
}
