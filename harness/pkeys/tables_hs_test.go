package pkeys

import (
	"math/big"

	"github.com/btcsuite/btcd/chaincfg/chainhash"
	"github.com/btcsuite/btcd/wire"
	ecommon "github.com/ethereum/go-ethereum/common"
	etypes "github.com/ethereum/go-ethereum/core/types"
	neohelper "github.com/joeqian10/neo-gogogo/helper"
	neo3helper "github.com/joeqian10/neo3-gogogo/helper"
	ocommon "github.com/ontio/ontology/common"
	otypes "github.com/ontio/ontology/core/types"
	"github.com/polynetwork/poly/common"
	"github.com/polynetwork/poly/native"
	"github.com/polynetwork/poly/native/service/header_sync/bsc"
	hsbtc "github.com/polynetwork/poly/native/service/header_sync/btc"
	scom "github.com/polynetwork/poly/native/service/header_sync/common"
	"github.com/polynetwork/poly/native/service/header_sync/cosmos"
	"github.com/polynetwork/poly/native/service/header_sync/eth"
	"github.com/polynetwork/poly/native/service/header_sync/heco"
	"github.com/polynetwork/poly/native/service/header_sync/neo"
	"github.com/polynetwork/poly/native/service/header_sync/neo3"
	"github.com/polynetwork/poly/native/service/header_sync/okex"
	"github.com/polynetwork/poly/native/service/header_sync/ont"
	"github.com/polynetwork/poly/native/service/header_sync/quorum"
)

// header fixtures: the header content is a function of (number/height, salt); the hash that enters
// the key is always computed by the real Hash()/BlockHash() of the header type.

func ethHeader(number, salt uint64) eth.Header {
	return eth.Header{Difficulty: big.NewInt(2), Number: new(big.Int).SetUint64(number), GasLimit: 8000000, Time: 1600000000 + salt, Extra: []byte{byte(salt), 0xaa}}
}

func gethHeader(number, salt uint64) etypes.Header {
	return etypes.Header{Difficulty: big.NewInt(2), Number: new(big.Int).SetUint64(number), GasLimit: 8000000, Time: 1600000000 + salt, Extra: []byte{byte(salt), 0xbb}}
}

func ontHeader(height uint32, salt uint64) *otypes.Header {
	return &otypes.Header{Version: 0, Timestamp: uint32(1600000000 + salt), Height: height, ConsensusData: salt, ConsensusPayload: []byte{1}}
}

func btcHeader(salt uint64) wire.BlockHeader {
	return wire.BlockHeader{Version: 2, Bits: 0x1d00ffff, Nonce: uint32(salt) + 17}
}

func h32(b []byte) (h [32]byte) { copy(h[:], b); return }

func tablesHS() {
	const g = "header_sync"
	// ---- record kinds (shared by the routers that use the same slot of the header-sync contract)
	addKind("hs/genesisHeader", func(s *native.NativeService, p []val) bool {
		v, err := bsc.VerifGetGenesis(s, p[0].U)
		return err != nil || v != nil
	})
	addKind("hs/headerByHash.evm", func(s *native.NativeService, p []val) bool { // headerIndex||chain||hash (eth, bsc, heco)
		ok, err := eth.IsHeaderExist(s, p[1].B, p[0].U)
		return err != nil || ok
	})
	addKind("hs/mainChain", func(s *native.NativeService, p []val) bool { // mainChain||chain||height (eth, bsc, heco)
		v, err := bsc.VerifGetCanonicalHash(s, p[0].U, p[1].U)
		return err != nil || v != (ecommon.Hash{})
	})
	addKind("hs/currentHeaderHeight", func(s *native.NativeService, p []val) bool {
		_, err := eth.GetCurrentHeaderHeight(s, p[0].U)
		return !notFound(err)
	})
	addKind("hs/hashByHeight", func(s *native.NativeService, p []val) bool { // headerIndex||chain||height32 (ont, btc)
		_, err := hsbtc.GetBlockHashByHeight(s, p[0].U, uint32(p[1].U))
		return !notFound(err)
	})
	addKind("hs/blockHeader", func(s *native.NativeService, p []val) bool { // blockHeader||chain||hash (ont, btc)
		_, err := hsbtc.GetHeaderByHash(s, p[0].U, chainhash.Hash(h32(p[1].B)))
		return !notFound(err)
	})
	addKind("hs/crossChainMsg", func(s *native.NativeService, p []val) bool {
		_, err := ont.GetCrossChainMsg(s, p[0].U, uint32(p[1].U))
		return !notFound(err)
	})
	addKind("hs/currentMsgHeight", nil)
	addKind("hs/keyHeights", func(s *native.NativeService, p []val) bool {
		v, err := ont.GetKeyHeights(s, p[0].U)
		return err != nil || len(v.HeightList) > 0
	})
	addKind("hs/consensusPeerAtHeight", func(s *native.NativeService, p []val) bool { // ont
		_, err := ont.VerifGetConsensusPeersByHeight(s, p[0].U, uint32(p[1].U))
		return !notFound(err)
	})
	addKind("hs/consensusPeerBlockHeightAtHeight", nil)                       // ont
	addKind("hs/consensusPeer", func(s *native.NativeService, p []val) bool { // neo, neo3, quorum
		_, err := quorum.GetValSet(s, p[0].U)
		return !notFound(err)
	})
	addKind("hs/consensusPeerBlockHeight", func(s *native.NativeService, p []val) bool { // quorum
		_, err := quorum.GetCurrentValHeight(s, p[0].U)
		return !notFound(err)
	})
	addKind("hs/ethCaches", func(s *native.NativeService, p []val) bool { return eth.VerifTryCache(s, p[0].U) != nil })
	addKind("hs/epochSwitch", func(s *native.NativeService, p []val) bool { // cosmos, okex
		_, err := cosmos.GetEpochSwitchInfo(s, p[0].U)
		return err == nil
	})

	chain := pspec{"chain", tU64}
	// ---- eth
	addOp(&opDef{group: g, name: "eth.putGenesisBlockHeader", ps: []pspec{chain, {"number", tU64}, {"salt", tSalt}},
		exec: func(x *xctx, a []val) error {
			return eth.VerifPutGenesisBlockHeader(x.svc, ethHeader(a[1].U, a[2].U), a[0].U)
		},
		recs: func(a []val) []rec {
			h := ethHeader(a[1].U, a[2].U)
			return []rec{rk("hs/genesisHeader", vu(a[0].U)), rk("hs/headerByHash.evm", vu(a[0].U), vb(h.Hash().Bytes())), rk("hs/mainChain", vu(a[0].U), vu(a[1].U)),
				rk("hs/currentHeaderHeight", vu(a[0].U))}
		}})
	addOp(&opDef{group: g, name: "eth.putBlockHeader", ps: []pspec{chain, {"number", tU64}, {"salt", tSalt}},
		exec: func(x *xctx, a []val) error {
			return eth.VerifPutBlockHeader(x.svc, ethHeader(a[1].U, a[2].U), big.NewInt(9), a[0].U)
		},
		recs: func(a []val) []rec {
			h := ethHeader(a[1].U, a[2].U)
			return []rec{rk("hs/headerByHash.evm", vu(a[0].U), vb(h.Hash().Bytes()))}
		}})
	addOp(&opDef{group: g, name: "eth.appendHeader2Main", ps: []pspec{chain, {"height", tU64}, {"hash", tH32}},
		exec: func(x *xctx, a []val) error {
			return eth.VerifAppendHeader2Main(x.svc, a[1].U, h32(nz(a[2].B)), a[0].U)
		},
		recs: func(a []val) []rec {
			return []rec{rk("hs/mainChain", vu(a[0].U), vu(a[1].U)), rk("hs/currentHeaderHeight", vu(a[0].U))}
		}})
	addOp(&opDef{group: g, name: "eth.addCache", ps: []pspec{{"epoch", tU64}},
		exec: func(x *xctx, a []val) error { eth.VerifAddCache(x.svc, a[0].U, []uint32{1, 2, 3}); return nil },
		recs: func(a []val) []rec { return []rec{rk("hs/ethCaches", vu(a[0].U))} }})
	// ---- bsc
	addOp(&opDef{group: g, name: "bsc.storeGenesis", ps: []pspec{chain, {"number", tU64}, {"salt", tSalt}},
		exec: func(x *xctx, a []val) error {
			return bsc.VerifStoreGenesis(x.svc, &scom.SyncGenesisHeaderParam{ChainID: a[0].U}, &bsc.GenesisHeader{Header: gethHeader(a[1].U, a[2].U)})
		},
		recs: func(a []val) []rec {
			h := gethHeader(a[1].U, a[2].U)
			return []rec{rk("hs/genesisHeader", vu(a[0].U)), rk("hs/headerByHash.evm", vu(a[0].U), vb(h.Hash().Bytes())), rk("hs/mainChain", vu(a[0].U), vu(a[1].U)),
				rk("hs/currentHeaderHeight", vu(a[0].U))}
		}})
	addOp(&opDef{group: g, name: "bsc.putHeaderWithSum", ps: []pspec{chain, {"number", tU64}, {"salt", tSalt}},
		exec: func(x *xctx, a []val) error {
			h := gethHeader(a[1].U, a[2].U)
			return bsc.VerifPutHeaderWithSum(x.svc, a[0].U, &bsc.HeaderWithDifficultySum{Header: &h, DifficultySum: big.NewInt(3)})
		},
		recs: func(a []val) []rec {
			h := gethHeader(a[1].U, a[2].U)
			return []rec{rk("hs/headerByHash.evm", vu(a[0].U), vb(h.Hash().Bytes()))}
		}})
	addOp(&opDef{group: g, name: "bsc.putCanonicalHash", ps: []pspec{chain, {"height", tU64}, {"hash", tH32}},
		exec: func(x *xctx, a []val) error {
			bsc.VerifPutCanonicalHash(x.svc, a[0].U, a[1].U, h32(nz(a[2].B)))
			return nil
		},
		recs: func(a []val) []rec { return []rec{rk("hs/mainChain", vu(a[0].U), vu(a[1].U))} }})
	addOp(&opDef{group: g, name: "bsc.putCanonicalHeight", ps: []pspec{chain, {"height", tSalt}},
		exec: func(x *xctx, a []val) error { bsc.VerifPutCanonicalHeight(x.svc, a[0].U, a[1].U); return nil },
		recs: func(a []val) []rec { return []rec{rk("hs/currentHeaderHeight", vu(a[0].U))} }})
	// ---- heco
	addOp(&opDef{group: g, name: "heco.storeGenesis", ps: []pspec{chain, {"number", tU64}, {"salt", tSalt}},
		exec: func(x *xctx, a []val) error {
			return heco.VerifStoreGenesis(x.svc, &scom.SyncGenesisHeaderParam{ChainID: a[0].U}, &heco.GenesisHeader{Header: ethHeader(a[1].U, a[2].U)})
		},
		recs: func(a []val) []rec {
			h := ethHeader(a[1].U, a[2].U)
			return []rec{rk("hs/genesisHeader", vu(a[0].U)), rk("hs/headerByHash.evm", vu(a[0].U), vb(h.Hash().Bytes())), rk("hs/mainChain", vu(a[0].U), vu(a[1].U)),
				rk("hs/currentHeaderHeight", vu(a[0].U))}
		}})
	addOp(&opDef{group: g, name: "heco.putHeaderWithSum", ps: []pspec{chain, {"number", tU64}, {"salt", tSalt}},
		exec: func(x *xctx, a []val) error {
			h := ethHeader(a[1].U, a[2].U)
			return heco.VerifPutHeaderWithSum(x.svc, a[0].U, &heco.HeaderWithDifficultySum{Header: &h, DifficultySum: big.NewInt(3)})
		},
		recs: func(a []val) []rec {
			h := ethHeader(a[1].U, a[2].U)
			return []rec{rk("hs/headerByHash.evm", vu(a[0].U), vb(h.Hash().Bytes()))}
		}})
	addOp(&opDef{group: g, name: "heco.putCanonicalHash", ps: []pspec{chain, {"height", tU64}, {"hash", tH32}},
		exec: func(x *xctx, a []val) error {
			heco.VerifPutCanonicalHash(x.svc, a[0].U, a[1].U, h32(nz(a[2].B)))
			return nil
		},
		recs: func(a []val) []rec { return []rec{rk("hs/mainChain", vu(a[0].U), vu(a[1].U))} }})
	addOp(&opDef{group: g, name: "heco.putCanonicalHeight", ps: []pspec{chain, {"height", tSalt}},
		exec: func(x *xctx, a []val) error { heco.VerifPutCanonicalHeight(x.svc, a[0].U, a[1].U); return nil },
		recs: func(a []val) []rec { return []rec{rk("hs/currentHeaderHeight", vu(a[0].U))} }})
	// ---- ont
	addOp(&opDef{group: g, name: "ont.PutCrossChainMsg", ps: []pspec{chain, {"height", tU32}},
		exec: func(x *xctx, a []val) error {
			return ont.PutCrossChainMsg(x.svc, a[0].U, &otypes.CrossChainMsg{Version: 1, Height: uint32(a[1].U), StatesRoot: ocommon.Uint256{1}})
		},
		recs: func(a []val) []rec {
			return []rec{rk("hs/crossChainMsg", vu(a[0].U), vu(a[1].U)), rk("hs/currentMsgHeight", vu(a[0].U))}
		}})
	addOp(&opDef{group: g, name: "ont.PutBlockHeader", ps: []pspec{chain, {"height", tU32}, {"salt", tSalt}},
		exec: func(x *xctx, a []val) error {
			return ont.PutBlockHeader(x.svc, a[0].U, ontHeader(uint32(a[1].U), a[2].U))
		},
		recs: func(a []val) []rec {
			h := ontHeader(uint32(a[1].U), a[2].U).Hash()
			return []rec{rk("hs/blockHeader", vu(a[0].U), vb(h.ToArray())), rk("hs/hashByHeight", vu(a[0].U), vu(a[1].U)), rk("hs/currentHeaderHeight", vu(a[0].U))}
		}})
	addOp(&opDef{group: g, name: "ont.PutKeyHeights", ps: []pspec{chain},
		exec: func(x *xctx, a []val) error {
			return ont.PutKeyHeights(x.svc, a[0].U, &ont.KeyHeights{HeightList: []uint32{3}})
		},
		recs: func(a []val) []rec { return []rec{rk("hs/keyHeights", vu(a[0].U))} }})
	addOp(&opDef{group: g, name: "ont.putConsensusPeers", ps: []pspec{chain, {"height", tU32}},
		exec: func(x *xctx, a []val) error {
			return ont.VerifPutConsensusPeers(x.svc, &ont.ConsensusPeers{ChainID: a[0].U, Height: uint32(a[1].U), PeerMap: map[string]*ont.Peer{"k": {Index: 1, PeerPubkey: "k"}}})
		},
		recs: func(a []val) []rec {
			return []rec{rk("hs/consensusPeerAtHeight", vu(a[0].U), vu(a[1].U)), rk("hs/consensusPeerBlockHeightAtHeight", vu(a[0].U), vu(a[1].U)), rk("hs/keyHeights", vu(a[0].U))}
		}})
	// ---- neo / neo3
	addOp(&opDef{group: g, name: "neo.putConsensusValByChainId", ps: []pspec{chain},
		exec: func(x *xctx, a []val) error {
			return neo.VerifPutConsensusValByChainId(x.svc, &neo.NeoConsensus{ChainID: a[0].U, Height: 4, NextConsensus: neohelper.UInt160{1}})
		},
		recs: func(a []val) []rec { return []rec{rk("hs/consensusPeer", vu(a[0].U))} }})
	addOp(&opDef{group: g, name: "neo3.putConsensusValByChainId", ps: []pspec{chain},
		exec: func(x *xctx, a []val) error {
			return neo3.VerifPutConsensusValByChainId(x.svc, &neo3.NeoConsensus{ChainID: a[0].U, Height: 4, NextConsensus: neo3helper.UInt160FromBytes(make([]byte, 20))})
		},
		recs: func(a []val) []rec { return []rec{rk("hs/consensusPeer", vu(a[0].U))} }})
	// ---- cosmos / okex
	addOp(&opDef{group: g, name: "cosmos.PutEpochSwitchInfo", ps: []pspec{chain},
		exec: func(x *xctx, a []val) error {
			cosmos.PutEpochSwitchInfo(x.svc, a[0].U, &cosmos.CosmosEpochSwitchInfo{Height: 5, BlockHash: []byte{1}, NextValidatorsHash: []byte{2}, ChainID: "c"})
			return nil
		},
		recs: func(a []val) []rec { return []rec{rk("hs/epochSwitch", vu(a[0].U))} }})
	addOp(&opDef{group: g, name: "okex.PutEpochSwitchInfo", ps: []pspec{chain},
		exec: func(x *xctx, a []val) error {
			okex.PutEpochSwitchInfo(x.svc, a[0].U, &okex.CosmosEpochSwitchInfo{Height: 5, BlockHash: []byte{1}, NextValidatorsHash: []byte{2}, ChainID: "c"})
			return nil
		},
		recs: func(a []val) []rec { return []rec{rk("hs/epochSwitch", vu(a[0].U))} }})
	// ---- btc
	sh := func(height uint32, salt uint64) hsbtc.StoredHeader {
		return hsbtc.VerifNewStoredHeader(btcHeader(salt), height, big.NewInt(7))
	}
	addOp(&opDef{group: g, name: "btc.putGenesisBlockHeader", ps: []pspec{chain, {"height", tU32}, {"salt", tSalt}},
		exec: func(x *xctx, a []val) error {
			hsbtc.VerifPutGenesisBlockHeader(x.svc, a[0].U, sh(uint32(a[1].U), a[2].U))
			return nil
		},
		recs: func(a []val) []rec {
			h := btcHeader(a[2].U)
			bh := h.BlockHash()
			return []rec{rk("hs/genesisHeader", vu(a[0].U)), rk("hs/hashByHeight", vu(a[0].U), vu(a[1].U)), rk("hs/blockHeader", vu(a[0].U), vb(bh.CloneBytes())),
				rk("hs/currentHeaderHeight", vu(a[0].U))}
		}})
	addOp(&opDef{group: g, name: "btc.putBlockHash", ps: []pspec{chain, {"height", tU32}, {"hash", tH32}},
		exec: func(x *xctx, a []val) error {
			hsbtc.VerifPutBlockHash(x.svc, a[0].U, uint32(a[1].U), chainhash.Hash(h32(a[2].B)))
			return nil
		},
		recs: func(a []val) []rec { return []rec{rk("hs/hashByHeight", vu(a[0].U), vu(a[1].U))} }})
	addOp(&opDef{group: g, name: "btc.putBlockHeader", ps: []pspec{chain, {"salt", tSalt}},
		exec: func(x *xctx, a []val) error { hsbtc.VerifPutBlockHeader(x.svc, a[0].U, sh(5, a[1].U)); return nil },
		recs: func(a []val) []rec {
			h := btcHeader(a[1].U)
			bh := h.BlockHash()
			return []rec{rk("hs/blockHeader", vu(a[0].U), vb(bh.CloneBytes()))}
		}})
	addOp(&opDef{group: g, name: "btc.putBestBlockHeader", ps: []pspec{chain, {"salt", tSalt}},
		exec: func(x *xctx, a []val) error { hsbtc.VerifPutBestBlockHeader(x.svc, a[0].U, sh(5, a[1].U)); return nil },
		recs: func(a []val) []rec { return []rec{rk("hs/currentHeaderHeight", vu(a[0].U))} }})
	// ---- quorum
	addOp(&opDef{group: g, name: "quorum.putValSet", ps: []pspec{chain, {"height", tSalt}},
		exec: func(x *xctx, a []val) error {
			quorum.VerifPutValSet(x.svc, a[0].U, a[1].U+1, []ecommon.Address{{1}})
			return nil
		},
		recs: func(a []val) []rec {
			return []rec{rk("hs/consensusPeer", vu(a[0].U)), rk("hs/consensusPeerBlockHeight", vu(a[0].U))}
		}})
	_ = common.ADDR_LEN
}

// nz makes a stored hash value non-zero (so that the canonical-hash getter can tell present from absent).
func nz(b []byte) []byte {
	o := append([]byte{}, b...)
	if len(o) == 0 {
		o = make([]byte, 32)
	}
	o[len(o)-1] |= 1
	return o
}
