package pkeys

import (
	"crypto/sha256"
	"encoding/hex"
	"fmt"
	"math/big"
	"strings"
	"sync"

	"github.com/btcsuite/btcd/btcec"
	"github.com/btcsuite/btcutil"
	"github.com/ontio/ontology-crypto/keypair"
	"github.com/polynetwork/poly/common"
	"github.com/polynetwork/poly/native"
	"github.com/polynetwork/poly/native/service/governance/neo3_state_manager"
	"github.com/polynetwork/poly/native/service/governance/node_manager"
	"github.com/polynetwork/poly/native/service/governance/relayer_manager"
	"github.com/polynetwork/poly/native/service/governance/side_chain_manager"
	"github.com/polynetwork/poly/native/service/governance/signature_manager"
	"github.com/polynetwork/poly/native/service/utils"

	"verif/harness/world"
)

// ---------------------------------------------------------------------------------------------
// key pool: valid peer public keys in the encodings ValidatePeerPubKeyFormat accepts

var (
	pubOnce sync.Once
	pubPool [][]byte
)

func pubBytes(i int) []byte {
	pubOnce.Do(func() {
		for k := 0; k < 8; k++ {
			pubPool = append(pubPool, keypair.SerializePublicKey(world.Acct(k).PublicKey))
		}
		// the same kind of key in its other accepted byte encodings (explicit algorithm/curve prefix)
		for k := 8; len(pubPool) < 12; k++ {
			b := keypair.SerializePublicKey(world.Acct(k).PublicKey)
			alt := append([]byte{byte(keypair.PK_ECDSA), keypair.P256}, b...)
			if utils.ValidatePeerPubKeyFormat(hex.EncodeToString(alt)) == nil {
				pubPool = append(pubPool, alt)
			} else {
				pubPool = append(pubPool, b)
			}
		}
	})
	return append([]byte{}, pubPool[i%len(pubPool)]...)
}

func addr20(b []byte) (a common.Address) { copy(a[:], b); return }
func hash32(b []byte) (h common.Uint256) { copy(h[:], b); return }

func domPub(b []byte) string {
	if utils.ValidatePeerPubKeyFormat(hex.EncodeToString(b)) != nil {
		return "peer public key does not pass ValidatePeerPubKeyFormat"
	}
	return ""
}

func notFound(err error) bool {
	if err == nil {
		return false
	}
	s := err.Error()
	return strings.Contains(s, "can not find") || strings.Contains(s, "is nil") || strings.Contains(s, "no record") || strings.Contains(s, "not init")
}

// ---------------------------------------------------------------------------------------------
// btc redeem fixture for the two side_chain_manager transactions that build their key from request content

var (
	btcPrivs  []*btcec.PrivateKey
	redeemScr []byte
	redeemRK  []byte
)

func redeemInit() {
	if redeemScr != nil {
		return
	}
	for i := 0; i < 3; i++ {
		h := sha256.Sum256([]byte(fmt.Sprintf("verif-c17b-btc-key-%d", i)))
		p, _ := btcec.PrivKeyFromBytes(btcec.S256(), h[:])
		btcPrivs = append(btcPrivs, p)
	}
	// script format: OP_2 <33-byte key> x3 OP_3 OP_CHECKMULTISIG
	b := []byte{0x52}
	for _, p := range btcPrivs {
		pk := p.PubKey().SerializeCompressed()
		b = append(b, byte(len(pk)))
		b = append(b, pk...)
	}
	b = append(b, 0x53, 0xae)
	redeemScr = b
	redeemRK = btcutil.Hash160(b)
}

func btcSign(msg []byte, n int) [][]byte {
	h := btcutil.Hash160(msg)
	var out [][]byte
	for i := 0; i < n; i++ {
		sig, err := btcPrivs[i].Sign(h)
		if err != nil {
			panic(err)
		}
		out = append(out, sig.Serialize())
	}
	return out
}

func cat(bs ...[]byte) []byte {
	var o []byte
	for _, b := range bs {
		o = append(o, b...)
	}
	return o
}

func invokeOK(x *xctx, contract common.Address, method string, args []byte, signers ...common.Address) error {
	r := x.w.Invoke(contract, method, args, signers)
	if !r.OK() {
		return fmt.Errorf("%s: %v %s", method, r.Err, r.Panic)
	}
	return nil
}

// the request counters wrap to 0 after id 2^64-1, which the counter getters cannot tell from "absent"
var errWrap = fmt.Errorf("request id 2^64-1 is not reachable (counter would wrap)")

func tablesGov() {
	redeemInit()
	// ======================= node_manager =======================
	const nm = "node_manager"
	addKind("nm/governanceView", func(s *native.NativeService, p []val) bool {
		v, err := node_manager.GetGovernanceView(s)
		return err == nil && v != nil
	})
	addKind("nm/vbftConfig", func(s *native.NativeService, p []val) bool {
		v, err := node_manager.GetConfig(s)
		return err == nil && v != nil
	})
	addKind("nm/candidateIndex", func(s *native.NativeService, p []val) bool {
		_, err := node_manager.VerifGetCandidateIndex(s)
		return err == nil
	})
	addKind("nm/peerApply", func(s *native.NativeService, p []val) bool {
		v, err := node_manager.GetPeerApply(s, hex.EncodeToString(p[0].B))
		return err != nil || v != nil
	})
	addKind("nm/peerPool", func(s *native.NativeService, p []val) bool {
		_, err := node_manager.GetPeerPoolMap(s, uint32(p[0].U))
		return !notFound(err)
	})
	addKind("nm/peerIndex", nil)
	addKind("nm/blackList", nil)
	addKind("nm/consensusSigns", func(s *native.NativeService, p []val) bool {
		v, err := node_manager.VerifGetConsensusSigns(s, hash32(p[0].B))
		return err != nil || len(v.SignsMap) > 0
	})
	addOp(&opDef{group: nm, name: "putPeerApply", ps: []pspec{{"pubkey", tHex}},
		exec: func(x *xctx, a []val) error {
			return node_manager.VerifPutPeerApply(x.svc, &node_manager.RegisterPeerParam{PeerPubkey: hex.EncodeToString(a[0].B), Address: world.Acct(20).Address})
		},
		recs:   func(a []val) []rec { return []rec{rk("nm/peerApply", vb(a[0].B))} },
		domain: func(a []val) string { return domPub(a[0].B) }})
	addOp(&opDef{group: nm, name: "putPeerPoolMap", ps: []pspec{{"view", tU32}},
		exec: func(x *xctx, a []val) error {
			m := &node_manager.PeerPoolMap{PeerPoolMap: map[string]*node_manager.PeerPoolItem{}}
			pk := hex.EncodeToString(pubBytes(0))
			m.PeerPoolMap[pk] = &node_manager.PeerPoolItem{Index: 1, PeerPubkey: pk, Address: world.Acct(0).Address, Status: node_manager.ConsensusStatus}
			node_manager.VerifPutPeerPoolMap(x.svc, m, uint32(a[0].U))
			return nil
		},
		recs: func(a []val) []rec { return []rec{rk("nm/peerPool", vu(a[0].U))} }})
	addOp(&opDef{group: nm, name: "putConfig",
		exec: func(x *xctx, a []val) error {
			node_manager.VerifPutConfig(x.svc, &node_manager.Configuration{BlockMsgDelay: 10000, HashMsgDelay: 10000, PeerHandshakeTimeout: 10, MaxBlockChangeView: 60000})
			return nil
		},
		recs: func(a []val) []rec { return []rec{rk("nm/vbftConfig")} }})
	addOp(&opDef{group: nm, name: "putCandidateIndex", ps: []pspec{{"value", tSalt}},
		exec: func(x *xctx, a []val) error { node_manager.VerifPutCandidateIndex(x.svc, uint32(a[0].U)+7); return nil },
		recs: func(a []val) []rec { return []rec{rk("nm/candidateIndex")} }})
	addOp(&opDef{group: nm, name: "putGovernanceView", ps: []pspec{{"value", tSalt}},
		exec: func(x *xctx, a []val) error {
			node_manager.VerifPutGovernanceView(x.svc, &node_manager.GovernanceView{View: uint32(a[0].U) + 1, Height: 3})
			return nil
		},
		recs: func(a []val) []rec { return []rec{rk("nm/governanceView")} }})
	addOp(&opDef{group: nm, name: "putConsensusSigns", ps: []pspec{{"hash", tH32}},
		exec: func(x *xctx, a []val) error {
			node_manager.VerifPutConsensusSigns(x.svc, hash32(a[0].B), &node_manager.ConsensusSigns{SignsMap: map[common.Address]bool{world.Acct(0).Address: true}})
			return nil
		},
		recs: func(a []val) []rec { return []rec{rk("nm/consensusSigns", vb(a[0].B))} }})
	// real transaction on an EMPTY state: genesis initConfig with two chosen peers (peerIndex is built inline there)
	addOp(&opDef{group: nm, name: "tx.initConfig", ps: []pspec{{"peerA", tAcct}, {"peerB", tAcct}}, base: baseEmpty,
		exec: func(x *xctx, a []val) error {
			cfg := world.VBFTConfigFor(world.Accts(0, 2), 60000)
			cfg.Peers[0].PeerPubkey = hex.EncodeToString(pubBytes(int(a[0].U)))
			cfg.Peers[1].PeerPubkey = hex.EncodeToString(pubBytes(int(a[1].U)))
			sink := common.NewZeroCopySink(nil)
			cfg.Serialization(sink)
			return invokeOK(x, utils.NodeManagerContractAddress, "initConfig", sink.Bytes())
		},
		recs: func(a []val) []rec {
			return []rec{rk("nm/peerIndex", vb(pubBytes(int(a[0].U)))), rk("nm/peerIndex", vb(pubBytes(int(a[1].U)))), rk("nm/peerPool", vu(0)), rk("nm/peerPool", vu(1)),
				rk("nm/candidateIndex"), rk("nm/governanceView"), rk("nm/vbftConfig")}
		}})
	// real transactions on the genesis state: 4 of the 5 validators black-list validator v (blackList is built inline there)
	addOp(&opDef{group: nm, name: "tx.blackNode", ps: []pspec{{"validator", tAcct}},
		exec: func(x *xctx, a []val) error {
			v := int(a[0].U) % nValidators
			pk := world.PubHex(world.Acct(v))
			for i := 0; i < 4; i++ {
				p := &node_manager.PeerListParam{PeerPubkeyList: []string{pk}, Address: world.Acct(i).Address}
				sink := common.NewZeroCopySink(nil)
				p.Serialization(sink)
				if err := invokeOK(x, utils.NodeManagerContractAddress, node_manager.BLACK_NODE, sink.Bytes(), world.Acct(i).Address); err != nil {
					return err
				}
			}
			return nil
		},
		recs: func(a []val) []rec {
			v := int(a[0].U) % nValidators
			return []rec{rk("nm/blackList", vb(keypair.SerializePublicKey(world.Acct(v).PublicKey))), rk("nm/peerPool", vu(1)), rk("nm/peerPool", vu(2)), rk("nm/governanceView")}
		}})

	// ======================= side_chain_manager =======================
	const scm = "side_chain_manager"
	sc := func(chain uint64) *side_chain_manager.SideChain {
		return &side_chain_manager.SideChain{Address: world.Acct(21).Address, ChainId: chain, Router: 2, Name: "c", BlocksToWait: 1, CCMCAddress: []byte{1, 2, 3}}
	}
	addKind("scm/sideChainApply", func(s *native.NativeService, p []val) bool {
		v, err := side_chain_manager.VerifGetSideChainApply(s, p[0].U)
		return err != nil || v != nil
	})
	addKind("scm/sideChain", func(s *native.NativeService, p []val) bool {
		v, err := side_chain_manager.GetSideChain(s, p[0].U)
		return err != nil || v != nil
	})
	addKind("scm/updateSideChainRequest", func(s *native.NativeService, p []val) bool {
		v, err := side_chain_manager.VerifGetUpdateSideChain(s, p[0].U)
		return err != nil || v != nil
	})
	addKind("scm/quitSideChainRequest", func(s *native.NativeService, p []val) bool {
		return side_chain_manager.VerifQuitSideChainRequested(s, p[0].U)
	})
	addKind("scm/redeemBind", func(s *native.NativeService, p []val) bool {
		v, err := side_chain_manager.GetContractBind(s, p[0].U, p[1].U, p[2].B)
		return err != nil || v != nil
	})
	addKind("scm/btcTxParam", func(s *native.NativeService, p []val) bool {
		v, err := side_chain_manager.GetBtcTxParam(s, p[0].B, p[1].U)
		return err != nil || v != nil
	})
	addKind("scm/redeemScript", func(s *native.NativeService, p []val) bool {
		_, err := side_chain_manager.GetBtcRedeemScriptBytes(s, string(p[1].B), p[0].U)
		return !notFound(err)
	})
	addKind("scm/assetBind", func(s *native.NativeService, p []val) bool {
		v, err := side_chain_manager.GetAssetBind(s, p[0].U)
		return err != nil || len(v.AssetMap) > 0 || len(v.LockProxyMap) > 0
	})
	addKind("scm/fee", func(s *native.NativeService, p []val) bool {
		v, err := side_chain_manager.GetFee(s, p[0].U)
		return err != nil || v.View != 0 || v.Fee.Sign() != 0
	})
	addKind("scm/feeInfo", func(s *native.NativeService, p []val) bool {
		v, err := side_chain_manager.GetFeeInfo(s, p[0].U, p[1].U)
		return err != nil || len(v.FeeInfo) > 0 || v.StartTime != 0
	})
	// bindSignInfo: the signature-collection record of a request; its key is built from the request content
	// inside RegisterRedeem / SetBtcTxParam, so the two logical kinds are reached through those transactions only
	addKind("scm/bindSignInfo.redeemBind", nil)
	addKind("scm/bindSignInfo.btcTxParam", nil)
	one := func(name, kind string, put func(x *xctx, chain uint64) error) {
		addOp(&opDef{group: scm, name: name, ps: []pspec{{"chain", tU64}},
			exec: func(x *xctx, a []val) error { return put(x, a[0].U) },
			recs: func(a []val) []rec { return []rec{rk(kind, vu(a[0].U))} }})
	}
	one("putSideChainApply", "scm/sideChainApply", func(x *xctx, c uint64) error { return side_chain_manager.VerifPutSideChainApply(x.svc, sc(c)) })
	one("PutSideChain", "scm/sideChain", func(x *xctx, c uint64) error { return side_chain_manager.PutSideChain(x.svc, sc(c)) })
	one("putUpdateSideChain", "scm/updateSideChainRequest", func(x *xctx, c uint64) error { return side_chain_manager.VerifPutUpdateSideChain(x.svc, sc(c)) })
	one("putQuitSideChain", "scm/quitSideChainRequest", func(x *xctx, c uint64) error { return side_chain_manager.VerifPutQuitSideChain(x.svc, c) })
	one("PutAssetBind", "scm/assetBind", func(x *xctx, c uint64) error {
		side_chain_manager.PutAssetBind(x.svc, c, &side_chain_manager.AssetBind{AssetMap: map[uint64][]byte{1: {1}}, LockProxyMap: map[uint64][]byte{}})
		return nil
	})
	one("PutFee", "scm/fee", func(x *xctx, c uint64) error {
		side_chain_manager.PutFee(x.svc, c, &side_chain_manager.Fee{View: 1, Fee: big.NewInt(5)})
		return nil
	})
	addOp(&opDef{group: scm, name: "PutFeeInfo", ps: []pspec{{"chain", tU64}, {"view", tU64}},
		exec: func(x *xctx, a []val) error {
			side_chain_manager.PutFeeInfo(x.svc, a[0].U, a[1].U, &side_chain_manager.FeeInfo{StartTime: 5, FeeInfo: map[common.Address]*big.Int{world.Acct(0).Address: big.NewInt(1)}})
			return nil
		},
		recs: func(a []val) []rec { return []rec{rk("scm/feeInfo", vu(a[0].U), vu(a[1].U))} }})
	addOp(&opDef{group: scm, name: "putContractBind", ps: []pspec{{"redeemChain", tU64}, {"contractChain", tU64}, {"redeemKey", tBytes}},
		exec: func(x *xctx, a []val) error {
			return side_chain_manager.VerifPutContractBind(x.svc, a[0].U, a[1].U, a[2].B, []byte{9}, 1)
		},
		recs: func(a []val) []rec { return []rec{rk("scm/redeemBind", vu(a[0].U), vu(a[1].U), vb(a[2].B))} },
		domain: func(a []val) string {
			if len(a[2].B) != 20 {
				return "redeem key is always a 20-byte hash160"
			}
			return ""
		}})
	addOp(&opDef{group: scm, name: "putBtcTxParam", ps: []pspec{{"redeemKey", tBytes}, {"chain", tU64}},
		exec: func(x *xctx, a []val) error {
			return side_chain_manager.VerifPutBtcTxParam(x.svc, a[0].B, a[1].U, &side_chain_manager.BtcTxParamDetial{PVersion: 1, FeeRate: 1, MinChange: 2000})
		},
		recs: func(a []val) []rec { return []rec{rk("scm/btcTxParam", vb(a[0].B), vu(a[1].U))} },
		domain: func(a []val) string {
			if len(a[0].B) != 20 {
				return "redeem key is always a 20-byte hash160"
			}
			return ""
		}})
	addOp(&opDef{group: scm, name: "putBtcRedeemScript", ps: []pspec{{"chain", tU64}, {"key", tStr}},
		exec: func(x *xctx, a []val) error {
			return side_chain_manager.VerifPutBtcRedeemScript(x.svc, string(a[1].B), redeemScr, a[0].U)
		},
		recs: func(a []val) []rec { return []rec{rk("scm/redeemScript", vu(a[0].U), vb(a[1].B))} },
		domain: func(a []val) string {
			if b, err := hex.DecodeString(string(a[1].B)); err != nil || len(b) != 20 || strings.ToLower(string(a[1].B)) != string(a[1].B) {
				return "redeem script key is always the lowercase hex of a 20-byte hash160"
			}
			return ""
		}})
	// real transaction: registerRedeem signed by ONE of the 2-of-3 redeem keys (below the threshold only the
	// signature-collection record is written)
	addOp(&opDef{group: scm, name: "tx.registerRedeem", ps: []pspec{{"redeemChain", tU64}, {"contractAddr", tBytes}, {"contractChain", tU64}, {"cver", tU64}},
		exec: func(x *xctx, a []val) error {
			msg := cat(redeemScr, le64(a[0].U), a[1].B, le64(a[2].U), le64(a[3].U))
			p := &side_chain_manager.RegisterRedeemParam{RedeemChainID: a[0].U, ContractChainID: a[2].U, Redeem: redeemScr, CVersion: a[3].U,
				ContractAddress: a[1].B, Signs: btcSign(msg, 1)}
			sink := common.NewZeroCopySink(nil)
			p.Serialization(sink)
			return invokeOK(x, utils.SideChainManagerContractAddress, side_chain_manager.REGISTER_REDEEM, sink.Bytes())
		},
		recs: func(a []val) []rec {
			return []rec{rk("scm/bindSignInfo.redeemBind", vb(redeemRK), vu(a[0].U), vb(a[1].B), vu(a[2].U))}
		}})
	// real transaction: setBtcTxParam signed by ONE of the 2-of-3 redeem keys
	addOp(&opDef{group: scm, name: "tx.setBtcTxParam", ps: []pspec{{"redeemChain", tU64}, {"pver", tU64}, {"feeRate", tU64}, {"minChange", tU64}},
		exec: func(x *xctx, a []val) error {
			msg := cat(redeemScr, le64(a[0].U), le64(a[2].U), le64(a[3].U), le64(a[1].U))
			p := &side_chain_manager.BtcTxParam{Redeem: redeemScr, RedeemChainId: a[0].U, Sigs: btcSign(msg, 1),
				Detial: &side_chain_manager.BtcTxParamDetial{PVersion: a[1].U, FeeRate: a[2].U, MinChange: a[3].U}}
			sink := common.NewZeroCopySink(nil)
			p.Serialization(sink)
			return invokeOK(x, utils.SideChainManagerContractAddress, side_chain_manager.SET_BTC_TX_PARAM, sink.Bytes())
		},
		recs: func(a []val) []rec {
			return []rec{rk("scm/bindSignInfo.btcTxParam", vb(redeemRK), vu(a[0].U), vu(a[1].U), vu(a[2].U), vu(a[3].U))}
		}})
	// real transaction: updateFee by one validator (stored fee view preset through PutFee)
	updateFee := func(group string) {
		addOp(&opDef{group: group, name: "tx.updateFee", ps: []pspec{{"chain", tU64}, {"view", tU64}},
			exec: func(x *xctx, a []val) error {
				side_chain_manager.PutFee(x.svc, a[0].U, &side_chain_manager.Fee{View: a[1].U, Fee: big.NewInt(5)})
				x.w.Cache.Commit()
				p := &side_chain_manager.UpdateFeeParam{Address: world.Acct(0).Address, ChainId: a[0].U, View: a[1].U, Fee: big.NewInt(7)}
				sink := common.NewZeroCopySink(nil)
				p.Serialization(sink)
				return invokeOK(x, utils.SideChainManagerContractAddress, side_chain_manager.UPDATE_FEE, sink.Bytes(), world.Acct(0).Address)
			},
			recs: func(a []val) []rec {
				return []rec{rk("scm/fee", vu(a[0].U)), rk("scm/feeInfo", vu(a[0].U), vu(a[1].U)), rk("ccm/voteInfo.updateFee", vu(a[0].U), vu(a[1].U))}
			}})
	}
	updateFee(scm)
	updateFee("cross_chain_manager")

	// ======================= relayer_manager =======================
	const rm = "relayer_manager"
	addKind("rm/relayer", nil)
	addKind("rm/relayerApply", func(s *native.NativeService, p []val) bool {
		_, ok := relayer_manager.VerifRelayerApplyPending(s, p[0].U)
		return ok
	})
	addKind("rm/relayerRemove", func(s *native.NativeService, p []val) bool {
		_, ok := relayer_manager.VerifRelayerRemovePending(s, p[0].U)
		return ok
	})
	addKind("rm/applyID", func(s *native.NativeService, p []val) bool {
		v, err := relayer_manager.VerifGetApplyID(s)
		return err != nil || v != 0
	})
	addKind("rm/removeID", func(s *native.NativeService, p []val) bool {
		v, err := relayer_manager.VerifGetRemoveID(s)
		return err != nil || v != 0
	})
	rl := &relayer_manager.RelayerListParam{AddressList: []common.Address{world.Acct(30).Address}, Address: world.Acct(30).Address}
	addOp(&opDef{group: rm, name: "putRelayer", ps: []pspec{{"addr", tA20}},
		exec: func(x *xctx, a []val) error { return relayer_manager.VerifPutRelayer(x.svc, addr20(a[0].B)) },
		recs: func(a []val) []rec { return []rec{rk("rm/relayer", vb(a[0].B))} }})
	addOp(&opDef{group: rm, name: "putApplyID", ps: []pspec{{"value", tSalt}},
		exec: func(x *xctx, a []val) error { return relayer_manager.VerifPutApplyID(x.svc, a[0].U+1) },
		recs: func(a []val) []rec { return []rec{rk("rm/applyID")} }})
	addOp(&opDef{group: rm, name: "putRemoveID", ps: []pspec{{"value", tSalt}},
		exec: func(x *xctx, a []val) error { return relayer_manager.VerifPutRemoveID(x.svc, a[0].U+1) },
		recs: func(a []val) []rec { return []rec{rk("rm/removeID")} }})
	addOp(&opDef{group: rm, name: "putRelayerApply", ps: []pspec{{"id", tU64}},
		exec: func(x *xctx, a []val) error {
			if a[0].U == 1<<64-1 {
				return errWrap
			}
			if err := relayer_manager.VerifPutApplyID(x.svc, a[0].U); err != nil { // the request id is the stored counter
				return err
			}
			return relayer_manager.VerifPutRelayerApply(x.svc, rl)
		},
		recs: func(a []val) []rec { return []rec{rk("rm/relayerApply", vu(a[0].U)), rk("rm/applyID")} },
		domain: func(a []val) string {
			if a[0].U == 1<<64-1 {
				return "request counter cannot reach 2^64-1"
			}
			return ""
		}})
	addOp(&opDef{group: rm, name: "putRelayerRemove", ps: []pspec{{"id", tU64}},
		exec: func(x *xctx, a []val) error {
			if a[0].U == 1<<64-1 {
				return errWrap
			}
			if err := relayer_manager.VerifPutRemoveID(x.svc, a[0].U); err != nil {
				return err
			}
			return relayer_manager.VerifPutRelayerRemove(x.svc, rl)
		},
		recs: func(a []val) []rec { return []rec{rk("rm/relayerRemove", vu(a[0].U)), rk("rm/removeID")} },
		domain: func(a []val) string {
			if a[0].U == 1<<64-1 {
				return "request counter cannot reach 2^64-1"
			}
			return ""
		}})

	// ======================= neo3_state_manager =======================
	const n3 = "neo3_state_manager"
	addKind("n3/stateValidator", func(s *native.NativeService, p []val) bool {
		v, err := neo3_state_manager.VerifGetStateValidators(s)
		return err != nil || len(v) > 0
	})
	addKind("n3/stateValidatorApply", func(s *native.NativeService, p []val) bool {
		_, ok := neo3_state_manager.VerifStateValidatorApplyPending(s, p[0].U)
		return ok
	})
	addKind("n3/stateValidatorRemove", func(s *native.NativeService, p []val) bool {
		_, ok := neo3_state_manager.VerifStateValidatorRemovePending(s, p[0].U)
		return ok
	})
	addKind("n3/stateValidatorApplyID", func(s *native.NativeService, p []val) bool {
		v, err := neo3_state_manager.VerifGetStateValidatorApplyID(s)
		return err != nil || v != 0
	})
	addKind("n3/stateValidatorRemoveID", func(s *native.NativeService, p []val) bool {
		v, err := neo3_state_manager.VerifGetStateValidatorRemoveID(s)
		return err != nil || v != 0
	})
	svKey := hex.EncodeToString(pubBytes(1))
	sl := &neo3_state_manager.StateValidatorListParam{StateValidators: []string{svKey}, Address: world.Acct(30).Address}
	addOp(&opDef{group: n3, name: "putStateValidators", ps: []pspec{{"value", tSalt}},
		exec: func(x *xctx, a []val) error {
			return neo3_state_manager.VerifPutStateValidators(x.svc, []string{hex.EncodeToString(pubBytes(int(a[0].U)))})
		},
		recs: func(a []val) []rec { return []rec{rk("n3/stateValidator")} }})
	addOp(&opDef{group: n3, name: "putStateValidatorApplyID", ps: []pspec{{"value", tSalt}},
		exec: func(x *xctx, a []val) error { return neo3_state_manager.VerifPutStateValidatorApplyID(x.svc, a[0].U+1) },
		recs: func(a []val) []rec { return []rec{rk("n3/stateValidatorApplyID")} }})
	addOp(&opDef{group: n3, name: "putStateValidatorRemoveID", ps: []pspec{{"value", tSalt}},
		exec: func(x *xctx, a []val) error {
			return neo3_state_manager.VerifPutStateValidatorRemoveID(x.svc, a[0].U+1)
		},
		recs: func(a []val) []rec { return []rec{rk("n3/stateValidatorRemoveID")} }})
	ctr := func(a []val) string {
		if a[0].U == 1<<64-1 {
			return "request counter cannot reach 2^64-1"
		}
		return ""
	}
	addOp(&opDef{group: n3, name: "putStateValidatorApply", ps: []pspec{{"id", tU64}},
		exec: func(x *xctx, a []val) error {
			if a[0].U == 1<<64-1 {
				return errWrap
			}
			if err := neo3_state_manager.VerifPutStateValidatorApplyID(x.svc, a[0].U); err != nil {
				return err
			}
			return neo3_state_manager.VerifPutStateValidatorApply(x.svc, sl)
		},
		recs: func(a []val) []rec {
			return []rec{rk("n3/stateValidatorApply", vu(a[0].U)), rk("n3/stateValidatorApplyID")}
		},
		domain: ctr})
	addOp(&opDef{group: n3, name: "putStateValidatorRemove", ps: []pspec{{"id", tU64}},
		exec: func(x *xctx, a []val) error {
			if a[0].U == 1<<64-1 {
				return errWrap
			}
			if err := neo3_state_manager.VerifPutStateValidatorRemoveID(x.svc, a[0].U); err != nil {
				return err
			}
			return neo3_state_manager.VerifPutStateValidatorRemove(x.svc, sl)
		},
		recs: func(a []val) []rec {
			return []rec{rk("n3/stateValidatorRemove", vu(a[0].U)), rk("n3/stateValidatorRemoveID")}
		},
		domain: ctr})

	// ======================= signature_manager =======================
	const sm = "signature_manager"
	addKind("sm/sigInfo", func(s *native.NativeService, p []val) bool {
		v, err := signature_manager.VerifGetSigInfo(s, p[0].B)
		return err != nil || v.Status || len(v.SigInfo) > 0
	})
	addOp(&opDef{group: sm, name: "putSigInfo", ps: []pspec{{"id", tBytes}},
		exec: func(x *xctx, a []val) error {
			signature_manager.VerifPutSigInfo(x.svc, a[0].B, &signature_manager.SigInfo{Status: false, SigInfo: map[string][]byte{"a": {1}}})
			return nil
		},
		recs: func(a []val) []rec { return []rec{rk("sm/sigInfo", vb(a[0].B))} },
		domain: func(a []val) string {
			if len(a[0].B) != 32 {
				return "signature subject id is always a sha256"
			}
			return ""
		}})
}
