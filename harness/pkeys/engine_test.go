// Package pkeys decides part B of property C17 (storage keys of the native contracts are
// unambiguous): every storage key is obtained FROM THE REAL CODE — the real put helper, an add-only
// `verif` export shim of an unexported helper, or a real transaction — executed on a fresh
// transaction cache whose write set is read back. The harness holds a table of *operations* (what
// is called, with which typed parameters) and of the *logical records* each operation is declared
// to write; it never rebuilds a key layout. Parameter values of later records of a case are cut
// out of, or byte-aligned to, keys observed for earlier records (black-box field location by
// probing), so that prefix relations between layouts are attacked on purpose.
package pkeys

import (
	"bytes"
	"encoding/binary"
	"encoding/hex"
	"fmt"
	"os"
	"sort"
	"strings"
	"sync"
	"testing"

	"github.com/polynetwork/poly/common"
	"github.com/polynetwork/poly/common/log"
	"github.com/polynetwork/poly/core/store/leveldbstore"
	"github.com/polynetwork/poly/core/store/overlaydb"
	"github.com/polynetwork/poly/native"
	"github.com/polynetwork/poly/native/storage"
	"pgregory.net/rapid"

	scommon "github.com/polynetwork/poly/core/store/common"

	"verif/harness/ev"
	"verif/harness/world"
)

func TestMain(m *testing.M) {
	log.InitLog(log.FatalLog) // no writers: discard (getters log every foreign value they cannot decode)
	ev.Main(m)
}

// ---------------------------------------------------------------------------------------------
// tables: parameter types, logical records, operations

type ptype int

const (
	tU64   ptype = iota // uint64 parameter
	tU32                // uint32 parameter
	tBytes              // variable-length byte string
	tStr                // variable-length string
	tHex                // variable-length byte string that the code receives as a hex string (peer public key)
	tH32                // 32-byte hash
	tA20                // 20-byte address
	tAcct               // index into the deterministic key pool (always a valid key); not attackable
	tSalt               // content-only value (feeds hashed content, never a key field of its own)
)

type pspec struct {
	n string
	t ptype
}

type val struct {
	U uint64
	B []byte
}

func (v val) String() string { return fmt.Sprintf("%d/%x", v.U, v.B) }

// rec is one logical record: record kind + canonical parameter values.
type rec struct {
	kind string
	p    []val
}

func (r rec) id() string {
	s := make([]string, len(r.p))
	for i, v := range r.p {
		s[i] = v.String()
	}
	return r.kind + "(" + strings.Join(s, ",") + ")"
}

func rk(kind string, p ...val) rec { return rec{kind: kind, p: p} }
func vu(u uint64) val              { return val{U: u} }
func vb(b []byte) val              { return val{B: append([]byte{}, b...)} }

const (
	baseGenesis = 0 // the shared 5-validator genesis state
	baseEmpty   = 1 // an empty store (for initConfig)
)

// xctx is the fresh execution context of one operation: a private block overlay over a shared
// read-only store, a transaction cache and a NativeService bound to it.
type xctx struct {
	w   *world.World
	svc *native.NativeService
}

type opDef struct {
	group  string // contract whose table the operation belongs to
	name   string
	ps     []pspec
	base   int
	exec   func(x *xctx, a []val) error // writes through the real code
	recs   func(a []val) []rec          // declared logical records written (pairwise different)
	domain func(a []val) string         // "" when real callers can supply these values, else the reason
}

// kindDef: a logical record kind and the real getter that reads it (nil when the repository has none).
type kindDef struct {
	name string
	get  func(svc *native.NativeService, p []val) bool
}

var (
	ops            = map[string]*opDef{}
	opsOf          = map[string][]string{} // group -> op names (sorted)
	kinds          = map[string]*kindDef{}
	groups         []string
	weightedGroups []string
	weightOf       = map[string]int{}
	tableMu        sync.Mutex
	tablesOK       bool
)

func addOp(o *opDef) {
	key := o.group + "." + o.name
	if _, dup := ops[key]; dup {
		panic("duplicate op " + key)
	}
	ops[key] = o
	opsOf[o.group] = append(opsOf[o.group], key)
}

func addKind(name string, get func(svc *native.NativeService, p []val) bool) {
	if _, dup := kinds[name]; dup {
		panic("duplicate kind " + name)
	}
	kinds[name] = &kindDef{name: name, get: get}
}

func initTables() {
	tableMu.Lock()
	defer tableMu.Unlock()
	if tablesOK {
		return
	}
	tablesGov()
	tablesCCM()
	tablesHS()
	for g := range opsOf {
		sort.Strings(opsOf[g])
		groups = append(groups, g)
	}
	sort.Strings(groups)
	for _, g := range groups {
		w := 1
		switch n := len(opsOf[g]); {
		case n >= 20:
			w = 8
		case n >= 14:
			w = 6
		case n >= 8:
			w = 4
		case n >= 4:
			w = 2
		}
		for i := 0; i < w; i++ {
			weightedGroups = append(weightedGroups, g)
		}
		weightOf[g] = w
	}
	// rapid favours the first entries of a sampled slice: interleave the tables (heaviest first in every
	// round) so that the bias hits all of them alike
	byW := append([]string{}, groups...)
	sort.SliceStable(byW, func(i, j int) bool { return weightOf[byW[i]] > weightOf[byW[j]] })
	left := map[string]int{}
	for g, w := range weightOf {
		left[g] = w
	}
	weightedGroups = weightedGroups[:0]
	for more := true; more; {
		more = false
		for _, g := range byW {
			if left[g] > 0 {
				left[g]--
				weightedGroups = append(weightedGroups, g)
				more = true
			}
		}
	}
	tablesOK = true
}

// ---------------------------------------------------------------------------------------------
// shared bases and per-operation worlds

var (
	baseOnce  sync.Once
	genesisW  *world.World
	emptyStor *leveldbstore.LevelDBStore
)

const nValidators = 5

func buildBases() {
	w := world.New(nValidators, world.Opts{})
	// move the genesis state into the (from now on read-only) store below the overlays
	for _, kv := range w.Dump() {
		if err := w.Store.Put(kv[0], kv[1]); err != nil {
			panic(err)
		}
	}
	genesisW = w
	st, err := leveldbstore.VerifNewMemLevelDBStore(64 * 1024)
	if err != nil {
		panic(err)
	}
	emptyStor = st
}

func newCtx(base int) *xctx {
	baseOnce.Do(buildBases)
	st := genesisW.Store
	if base == baseEmpty {
		st = emptyStor
	}
	ov := overlaydb.VerifNewOverlayDB(st, 16*1024, 64)
	w := &world.World{Store: st, Overlay: ov, Cache: storage.NewCacheDB(ov), Height: 10, Time: genesisW.Time + 20,
		ChainID: genesisW.ChainID, Validators: genesisW.Validators}
	return &xctx{w: w, svc: w.Service()}
}

// keysOf returns the keys the context's block overlay holds after the operation (transaction
// layer committed into it), without the ST_STORAGE prefix, deletions excluded, sorted.
func (x *xctx) keysOf() (keys [][]byte, foreign []byte) {
	x.w.Cache.Commit()
	x.w.Overlay.GetWriteSet().ForEach(func(k, v []byte) {
		if len(v) == 0 {
			return
		}
		if len(k) < 1+common.ADDR_LEN || k[0] != byte(scommon.ST_STORAGE) {
			foreign = append([]byte{}, k...)
			return
		}
		keys = append(keys, append([]byte{}, k[1:]...))
	})
	sort.Slice(keys, func(i, j int) bool { return bytes.Compare(keys[i], keys[j]) < 0 })
	return
}

type execRes struct {
	keys [][]byte
	err  string
	x    *xctx
}

func execOp(ctx *ev.Ctx, o *opDef, a []val) execRes {
	x := newCtx(o.base)
	var err error
	if p := ev.Catch(func() { err = o.exec(x, a) }); p != "" {
		return execRes{err: "panic: " + firstLine(p), x: x}
	}
	if err != nil {
		return execRes{err: err.Error(), x: x}
	}
	keys, foreign := x.keysOf()
	if foreign != nil {
		ctx.Failf("%s.%s%v wrote key %x outside the contract-storage namespace", o.group, o.name, a, foreign)
	}
	return execRes{keys: keys, x: x}
}

func firstLine(s string) string {
	if i := strings.IndexByte(s, '\n'); i >= 0 {
		return s[:i]
	}
	return s
}

// ---------------------------------------------------------------------------------------------
// the case

type kArg struct {
	U   uint64 `json:"u,omitempty"`
	B   ev.B   `json:"b,omitempty"`
	M   string `json:"m,omitempty"`   // "" literal | "sl": slice of an observed key | "al": byte-aligned to an observed key
	Off int    `json:"off,omitempty"` // sl: bytes skipped at the start of the stripped source key
	End int    `json:"end,omitempty"` // sl: bytes dropped at its end
	BE  bool   `json:"be,omitempty"`  // sl: numeric parameters decode big-endian
}

type kRec struct {
	Op  string `json:"op"`
	Src int    `json:"src,omitempty"` // earlier record whose observed key feeds the derived parameters (mod index)
	Key int    `json:"key,omitempty"` // which of its keys (mod count)
	Tgt int    `json:"tgt,omitempty"` // al: which of this operation's own keys is aligned (mod count)
	A   []kArg `json:"a"`
}

type kCase struct {
	G string `json:"g"`
	R []kRec `json:"r"`
}

var u64Pool = []uint64{0, 1, 2, 3, 0xff, 0x100, 1999, 2000, 0xffff, 0x10000, 1<<32 - 1, 1 << 32, 1<<32 + 1, 1 << 40, 1 << 56, 1<<63 - 1, 1 << 63,
	1<<64 - 2, 1<<64 - 1, 0x0101010101010101, 0x796c707041 /* "Apply" */, 0x6f666e49 /* "Info" */}

func genU64() *rapid.Generator[uint64] {
	return rapid.OneOf(rapid.SampledFrom(u64Pool), rapid.Uint64Range(0, 300), rapid.Uint64())
}

func genBytes(lo int) *rapid.Generator[[]byte] {
	return rapid.OneOf(
		rapid.Custom(func(t *rapid.T) []byte { // the lengths real callers supply: hash160 / sha256
			n := rapid.SampledFrom([]int{20, 32}).Draw(t, "n")
			return rapid.SliceOfN(rapid.Byte(), n, n).Draw(t, "b")
		}),
		rapid.SliceOfN(rapid.Byte(), lo, 12),
		rapid.SliceOfN(rapid.Byte(), lo, 44),
		rapid.Custom(func(t *rapid.T) []byte {
			n := rapid.SampledFrom([]int{1, 3, 8, 16, 20, 32, 33}).Draw(t, "n")
			return rapid.SliceOfN(rapid.Byte(), n, n).Draw(t, "b")
		}),
		rapid.Custom(func(t *rapid.T) []byte { // text-like: pieces of tag vocabulary
			w := rapid.SampledFrom([]string{"Apply", "Info", "Request", "ID", "BlockHeight", "Remove", "Index", "s", "S"}).Draw(t, "w")
			return append([]byte(w), rapid.SliceOfN(rapid.Byte(), 0, 12).Draw(t, "rest")...)
		}),
	)
}

func genLit(t *rapid.T, p pspec, nonEmpty bool) kArg {
	lo := 0
	if nonEmpty {
		lo = 1
	}
	switch p.t {
	case tU64:
		return kArg{U: genU64().Draw(t, p.n)}
	case tU32:
		return kArg{U: genU64().Draw(t, p.n) & 0xffffffff}
	case tBytes:
		return kArg{B: genBytes(lo).Draw(t, p.n)}
	case tStr:
		if rapid.IntRange(0, 2).Draw(t, "hexstr") == 0 {
			return kArg{B: []byte(hex.EncodeToString(rapid.SliceOfN(rapid.Byte(), 20, 20).Draw(t, p.n)))}
		}
		return kArg{B: genBytes(lo).Draw(t, p.n)}
	case tHex:
		if rapid.IntRange(0, 2).Draw(t, "validkey") != 0 {
			return kArg{B: pubBytes(rapid.IntRange(0, 11).Draw(t, p.n))}
		}
		return kArg{B: genBytes(1).Draw(t, p.n)}
	case tH32:
		return kArg{B: rapid.SliceOfN(rapid.Byte(), 32, 32).Draw(t, p.n)}
	case tA20:
		return kArg{B: rapid.SliceOfN(rapid.Byte(), 20, 20).Draw(t, p.n)}
	case tAcct:
		return kArg{U: uint64(rapid.IntRange(0, 7).Draw(t, p.n))}
	case tSalt:
		return kArg{U: uint64(rapid.IntRange(0, 3).Draw(t, p.n))}
	}
	panic("ptype")
}

func attackable(t ptype) bool { return t != tAcct && t != tSalt }

func genCase(t *rapid.T) kCase {
	initTables()
	g := rapid.SampledFrom(weightedGroups).Draw(t, "group")
	names := opsOf[g]
	shape := rapid.SampledFrom([]string{"pair", "pair", "pair", "mixed", "mixed"}).Draw(t, "shape")
	n := 2
	if shape == "mixed" {
		n = rapid.IntRange(2, ev.Scale(5, 7)).Draw(t, "n")
	}
	c := kCase{G: g}
	for i := 0; i < n; i++ {
		mode := "lit"
		if i > 0 {
			mode = "al" // pair: the second operation is byte-aligned to a key of the first
			if shape == "mixed" {
				mode = rapid.SampledFrom([]string{"lit", "dup", "dup", "sl", "sl", "al", "al", "al", "al"}).Draw(t, "mode")
			}
		}
		if mode == "dup" {
			j := rapid.IntRange(0, i-1).Draw(t, "dupof")
			src := c.R[j]
			r := kRec{Op: src.Op, Src: src.Src, Key: src.Key, Tgt: src.Tgt, A: append([]kArg{}, src.A...)}
			o := ops[r.Op]
			if len(r.A) > 0 && rapid.Bool().Draw(t, "mutate") {
				k := rapid.IntRange(0, len(r.A)-1).Draw(t, "which")
				r.A[k] = genLit(t, o.ps[k], false)
			}
			c.R = append(c.R, r)
			continue
		}
		name := rapid.SampledFrom(names).Draw(t, "op")
		o := ops[name]
		r := kRec{Op: name}
		if mode != "lit" {
			r.Src = rapid.IntRange(0, i-1).Draw(t, "src")
			r.Key = rapid.IntRange(0, 5).Draw(t, "key")
			r.Tgt = rapid.IntRange(0, 5).Draw(t, "tgt")
		}
		for _, p := range o.ps {
			a := genLit(t, p, mode == "al")
			if mode != "lit" && attackable(p.t) {
				a.M = mode
				if mode == "sl" {
					a.Off = rapid.IntRange(0, 40).Draw(t, "off")
					a.End = rapid.SampledFrom([]int{0, 0, 0, 4, 8, 12, 16, 1, 2}).Draw(t, "end")
					a.BE = rapid.IntRange(0, 5).Draw(t, "be") == 0
				}
			}
			r.A = append(r.A, a)
		}
		c.R = append(c.R, r)
	}
	return c
}

// ---------------------------------------------------------------------------------------------
// parameter resolution

func litVal(p pspec, a kArg) val {
	v := val{U: a.U, B: append([]byte{}, a.B...)}
	switch p.t {
	case tU32:
		v.U &= 0xffffffff
		v.B = nil
	case tU64, tSalt:
		v.B = nil
	case tAcct:
		v.U %= 12
		v.B = nil
	case tH32:
		v.U = 0
		v.B = fit(v.B, 32)
	case tA20:
		v.U = 0
		v.B = fit(v.B, 20)
	default:
		v.U = 0
	}
	return v
}

func fit(b []byte, n int) []byte {
	out := make([]byte, n)
	copy(out, b)
	return out
}

func fromBytes(p pspec, b []byte, be bool, lit val) (val, bool) {
	switch p.t {
	case tU64, tU32:
		w := 8
		if p.t == tU32 {
			w = 4
		}
		if len(b) < w {
			return lit, false
		}
		var u uint64
		for i := 0; i < w; i++ {
			if be {
				u = u<<8 | uint64(b[i])
			} else {
				u |= uint64(b[i]) << (8 * uint(i))
			}
		}
		return val{U: u}, true
	case tH32:
		if len(b) < 32 {
			return lit, false
		}
		return vb(b[:32]), true
	case tA20:
		if len(b) < 20 {
			return lit, false
		}
		return vb(b[:20]), true
	case tBytes, tStr, tHex:
		return vb(b), true
	}
	return lit, false
}

func sliceVal(p pspec, a kArg, lit val, stripped []byte) val {
	n := len(stripped)
	off := a.Off % (n + 1)
	end := a.End
	if end > n-off {
		end = 0
	}
	v, _ := fromBytes(p, stripped[off:n-end], a.BE, lit)
	return v
}

func cloneVals(a []val) []val {
	out := make([]val, len(a))
	for i, v := range a {
		out[i] = val{U: v.U, B: append([]byte{}, v.B...)}
	}
	return out
}

func probesOf(p pspec, v val) []val {
	switch p.t {
	case tU64:
		return []val{{U: ^v.U}, {U: v.U ^ 0x5a5a5a5a5a5a5a5a}, {U: v.U + 0x0101010101010101}}
	case tU32:
		return []val{{U: (^v.U) & 0xffffffff}, {U: (v.U ^ 0x5a5a5a5a) & 0xffffffff}}
	}
	var out []val
	for _, x := range []byte{0xff, 0x5a} {
		b := make([]byte, len(v.B))
		for i := range b {
			b[i] = v.B[i] ^ x
		}
		out = append(out, val{B: b})
	}
	return out
}

func diffRange(a, b []byte) (int, int) {
	s, e := -1, -1
	for i := range a {
		if a[i] != b[i] {
			if s < 0 {
				s = i
			}
			e = i + 1
		}
	}
	return s, e
}

func isVar(t ptype) bool { return t == tBytes || t == tStr || t == tHex }

// alignTo chooses the attackable parameters of operation o so that its tgt-th key reproduces the
// bytes of the observed key src wherever o's own parameters sit in that key. Field positions are
// located black-box: the operation is executed with a baseline and with one parameter flipped at a
// time, and the differing byte range of the key is taken as the position of that parameter.
func alignTo(ctx *ev.Ctx, o *opDef, lit []val, which []bool, src []byte, tgt int) ([]val, bool) {
	base := cloneVals(lit)
	for i, p := range o.ps {
		if which[i] && isVar(p.t) && len(base[i].B) == 0 {
			base[i].B = []byte{0x41}
		}
	}
	r0 := execOp(ctx, o, base)
	if r0.err != "" || len(r0.keys) == 0 {
		return lit, false
	}
	j := tgt % len(r0.keys)
	k0 := r0.keys[j]
	type loc struct {
		s, e int
		be   bool
		ok   bool
	}
	locs := make([]loc, len(lit))
	varIdx := -1
	for i, p := range o.ps {
		if !which[i] {
			continue
		}
		for _, pv := range probesOf(p, base[i]) {
			a2 := cloneVals(base)
			a2[i] = pv
			r := execOp(ctx, o, a2)
			if r.err != "" || len(r.keys) != len(r0.keys) || len(r.keys[j]) != len(k0) {
				continue
			}
			s, e := diffRange(k0, r.keys[j])
			if s < 0 {
				break // this parameter is not part of the chosen key
			}
			l := loc{s: s, e: e}
			switch p.t {
			case tU64, tU32:
				w := 8
				if p.t == tU32 {
					w = 4
				}
				if e-s != w {
					break
				}
				le, _ := fromBytes(p, k0[s:e], false, val{})
				be, _ := fromBytes(p, k0[s:e], true, val{})
				if le.U == base[i].U {
					l.ok = true
				} else if be.U == base[i].U {
					l.ok, l.be = true, true
				}
			default:
				l.ok = e-s == len(base[i].B) && bytes.Equal(k0[s:e], base[i].B)
			}
			if l.ok {
				locs[i] = l
				if isVar(p.t) && (varIdx < 0 || l.s > locs[varIdx].s) {
					varIdx = i
				}
			}
			break
		}
	}
	out := cloneVals(base)
	L0, LS := len(k0), len(src)
	any := false
	for i, p := range o.ps {
		l := locs[i]
		if !l.ok {
			continue
		}
		var s, e int
		switch {
		case i == varIdx:
			s, e = l.s, LS-(L0-l.e)
		case varIdx >= 0 && l.s >= locs[varIdx].e:
			s, e = LS-(L0-l.s), LS-(L0-l.e)
		default:
			s, e = l.s, l.e
		}
		if s < 0 || e > LS || e < s {
			continue
		}
		if varIdx >= 0 && i != varIdx && l.s >= locs[varIdx].e && s < locs[varIdx].s {
			continue
		}
		if v, ok := fromBytes(p, src[s:e], l.be, out[i]); ok {
			out[i] = v
			any = true
		}
	}
	return out, any
}

// ---------------------------------------------------------------------------------------------
// run

type done struct {
	o     *opDef
	a     []val
	res   execRes
	recs  []rec
	ids   map[string]bool
	kset  map[string]bool
	dom   string
	kindS map[string]bool
}

var (
	statMu   sync.Mutex
	kindStat = map[string]int{}
	opStat   = map[string]int{}
	pairStat = map[string]int{}
)

func lcp(a, b []byte) int {
	n := 0
	for n < len(a) && n < len(b) && a[n] == b[n] {
		n++
	}
	return n
}

func runCase(ctx *ev.Ctx, c kCase) {
	initTables()
	world.ResetGlobals(0)
	ctx.Label("group:" + c.G)
	var ds []*done
	for i, r := range c.R {
		o := ops[r.Op]
		if o == nil {
			ctx.Label("unknown-op")
			continue
		}
		if len(r.A) != len(o.ps) {
			ctx.Label("arity-mismatch")
			continue
		}
		lit := make([]val, len(o.ps))
		for k, p := range o.ps {
			lit[k] = litVal(p, r.A[k])
		}
		a := lit
		// derived parameters
		var srcKey []byte
		if i > 0 && len(ds) > 0 {
			s := ds[r.Src%len(ds)]
			if len(s.res.keys) > 0 {
				srcKey = s.res.keys[r.Key%len(s.res.keys)]
			}
		}
		mode := "lit"
		if srcKey != nil {
			which := make([]bool, len(o.ps))
			nal := 0
			a = cloneVals(lit)
			for k, p := range o.ps {
				switch r.A[k].M {
				case "sl":
					a[k] = sliceVal(p, r.A[k], lit[k], srcKey[common.ADDR_LEN:])
					mode = "sl"
				case "al":
					which[k] = attackable(p.t)
					nal++
				}
			}
			if nal > 0 {
				var ok bool
				a, ok = alignTo(ctx, o, a, which, srcKey, r.Tgt)
				mode = "al"
				if !ok {
					mode = "al-failed"
				}
			}
		}
		ctx.Label("mode:" + mode)
		d := &done{o: o, a: a, res: execOp(ctx, o, a), ids: map[string]bool{}, kset: map[string]bool{}, kindS: map[string]bool{}}
		if d.res.err != "" {
			ctx.Label("op-rejected")
			continue
		}
		if o.domain != nil {
			d.dom = o.domain(a)
		}
		d.recs = o.recs(a)
		for _, rc := range d.recs {
			if d.ids[rc.id()] {
				ctx.Failf("harness table: %s declares record %s twice", r.Op, rc.id())
			}
			d.ids[rc.id()] = true
			d.kindS[rc.kind] = true
		}
		for _, k := range d.res.keys {
			d.kset[string(k)] = true
		}
		// (1) one key per declared logical record of a single operation
		if len(d.res.keys) != len(d.recs) {
			if len(d.res.keys) < len(d.recs) && d.dom == "" {
				reportCollision(ctx, d, d, fmt.Sprintf("%s%v wrote %d keys %s for %d declared logical records %v: two records of one operation share a key",
					r.Op, a, len(d.res.keys), hexKeys(d.res.keys), len(d.recs), recIDs(d.recs)))
			} else if len(d.res.keys) < len(d.recs) {
				ctx.Label("collision:out-of-domain")
			} else {
				ctx.Failf("%s%v wrote %d keys %s but declares %d logical records %v (table incomplete or a record written under two keys)",
					r.Op, a, len(d.res.keys), hexKeys(d.res.keys), len(d.recs), recIDs(d.recs))
			}
		}
		statMu.Lock()
		opStat[r.Op]++
		for _, rc := range d.recs {
			kindStat[rc.kind]++
		}
		statMu.Unlock()
		ds = append(ds, d)
	}
	// (2) injectivity across operations: shared keys <-> shared logical records
	for i := 0; i < len(ds); i++ {
		for j := i; j < len(ds); j++ {
			A, B := ds[i], ds[j]
			if i != j {
				sharedK, sharedR := 0, 0
				var ks []string
				for k := range A.kset {
					if B.kset[k] {
						sharedK++
						ks = append(ks, fmt.Sprintf("%x", k))
					}
				}
				for id := range A.ids {
					if B.ids[id] {
						sharedR++
					}
				}
				sort.Strings(ks)
				if sharedK > sharedR {
					msg := fmt.Sprintf("storage-key collision in %s: %s%v (records %v) and %s%v (records %v) share %d key(s) %v but only %d logical record(s)",
						c.G, A.o.name, A.a, recIDs(A.recs), B.o.name, B.a, recIDs(B.recs), sharedK, ks, sharedR)
					if A.dom != "" || B.dom != "" {
						ctx.Label("collision:out-of-domain")
						statMu.Lock()
						pairStat["out-of-domain:"+pairName(A, B)]++
						statMu.Unlock()
					} else {
						reportCollision(ctx, A, B, msg)
					}
				} else if sharedK < sharedR {
					ctx.Failf("the same logical record is stored under two different keys in %s: %s%v (records %v, keys %s) and %s%v (records %v, keys %s) share %d record(s) but %d key(s)",
						c.G, A.o.name, A.a, recIDs(A.recs), hexKeys(A.res.keys), B.o.name, B.a, recIDs(B.recs), hexKeys(B.res.keys), sharedR, sharedK)
				}
				if sharedR > 0 {
					ctx.Label("same-record-pair")
				}
			}
			// non-trivial: two keys of different record kinds share a prefix longer than the contract address
			disjoint := true
			if i != j {
				for k := range A.kindS {
					if B.kindS[k] {
						disjoint = false
					}
				}
			}
			if disjoint {
				best := 0
				for _, ka := range A.res.keys {
					for _, kb := range B.res.keys {
						if !bytes.Equal(ka, kb) {
							if l := lcp(ka, kb); l > best {
								best = l
							}
						}
					}
				}
				if best > common.ADDR_LEN {
					ctx.NonTrivial()
					if best-common.ADDR_LEN >= 8 {
						ctx.Label("shared-prefix>=8")
					}
				}
			}
		}
	}
	// (3) write-A-then-read-B through the real getters
	for _, A := range ds {
		var x *xctx
		for _, B := range ds {
			for _, rb := range B.recs {
				kd := kinds[rb.kind]
				if kd == nil {
					ctx.Failf("harness table: record kind %s is not declared", rb.kind)
				}
				if kd.get == nil {
					continue
				}
				if x == nil {
					x = newCtx(A.o.base)
					if err := A.o.exec(x, A.a); err != nil {
						ctx.Failf("harness: re-execution of %s%v failed: %v", A.o.name, A.a, err)
					}
				}
				want := A.ids[rb.id()]
				var got bool
				if p := ev.Catch(func() { got = kd.get(x.svc, rb.p) }); p != "" {
					ctx.Label("getter-panic")
					continue
				}
				if got == want {
					continue
				}
				// present although A did not write it: was it there before A (genesis state)?
				if got && !want {
					if kd.get(newCtx(A.o.base).svc, rb.p) {
						ctx.Label("read:pre-existing")
						continue
					}
					msg := fmt.Sprintf("after %s%v (records %v) the real getter of %s finds a record although it was never written: the two records share storage",
						A.o.name, A.a, recIDs(A.recs), rb.id())
					if A.dom != "" || B.dom != "" {
						ctx.Label("collision:out-of-domain")
						continue
					}
					reportCollision(ctx, A, B, msg)
					continue
				}
				ctx.Failf("after %s%v (keys %s) the real getter of its own record %s reports it absent", A.o.name, A.a, hexKeys(A.res.keys), rb.id())
			}
		}
	}
}

func pairName(A, B *done) string {
	n := []string{A.o.name, B.o.name}
	sort.Strings(n)
	return A.o.group + ":" + n[0] + "~" + n[1]
}

func reportCollision(ctx *ev.Ctx, A, B *done, msg string) {
	ctx.Label("collision:in-domain")
	ctx.Known("collision:"+pairName(A, B), "%s", msg)
}

func hexKeys(ks [][]byte) string {
	s := make([]string, len(ks))
	for i, k := range ks {
		s[i] = fmt.Sprintf("%x|%q", k[:common.ADDR_LEN], k[common.ADDR_LEN:])
	}
	return "[" + strings.Join(s, " ") + "]"
}

func recIDs(rs []rec) []string {
	s := make([]string, len(rs))
	for i, r := range rs {
		s[i] = r.id()
	}
	return s
}

func le64(v uint64) []byte {
	var b [8]byte
	binary.LittleEndian.PutUint64(b[:], v)
	return b[:]
}

func propID() string {
	if v := os.Getenv("VERIF_PROP_ID"); v != "" { // development only: lets the helper entry _C17B collect shard files
		return v
	}
	return "C17"
}

func TestC17B(t *testing.T) {
	id := propID()
	ev.Drive(t, id,
		"part B (key injectivity): a case is 2..5 (thorough 7) operations of one native contract (put helpers, export shims of unexported helpers, real transactions), "+
			"each executed on a fresh cache whose written keys are read back; later operations take their parameters from slices of, or byte-aligned to, keys observed for earlier ones. "+
			"non-trivial: two keys of different record kinds in the case share a prefix longer than the contract address; distinct by JSON encoding of the case",
		genCase, runCase)
	statMu.Lock()
	defer statMu.Unlock()
	cp := func(m map[string]int) map[string]int {
		o := map[string]int{}
		for k, v := range m {
			o[k] = v
		}
		return o
	}
	ev.Get(id).Extra("kinds", cp(kindStat))
	ev.Get(id).Extra("operations", cp(opStat))
	ev.Get(id).Extra("out_of_domain_collisions", cp(pairStat))
}
