package pkeys

import (
	"encoding/hex"
	"strings"

	"github.com/polynetwork/poly/native"
	"github.com/polynetwork/poly/native/service/cross_chain_manager"
	"github.com/polynetwork/poly/native/service/cross_chain_manager/btc"
	ccom "github.com/polynetwork/poly/native/service/cross_chain_manager/common"
	"github.com/polynetwork/poly/native/service/cross_chain_manager/consensus_vote"
	"github.com/polynetwork/poly/native/service/cross_chain_manager/ripple"
)

func lowerHex20(b []byte) string {
	if d, err := hex.DecodeString(string(b)); len(b) != 0 && (err != nil || len(d) != 20 || strings.ToLower(string(b)) != string(b)) {
		return "utxo key is the lowercase hex of a 20-byte hash (or empty)"
	}
	return ""
}

func len32(what string) func(a []val, i int) string {
	return func(a []val, i int) string {
		if len(a[i].B) != 32 {
			return what + " is always 32 bytes"
		}
		return ""
	}
}

func tablesCCM() {
	const g = "cross_chain_manager"
	addKind("ccm/doneTx", func(s *native.NativeService, p []val) bool { return ccom.CheckDoneTx(s, p[1].B, p[0].U) != nil })
	addKind("ccm/blackedChain", func(s *native.NativeService, p []val) bool { b, _ := ccom.CheckIfChainBlacked(s, p[0].U); return b })
	addKind("ccm/request", nil)
	addKind("ccm/rippleMultisignInfo", func(s *native.NativeService, p []val) bool {
		v, err := ripple.GetMultisignInfo(s, string(p[0].B))
		return err != nil || v.Status || len(v.SigMap) > 0
	})
	addKind("ccm/rippleTxInfo", func(s *native.NativeService, p []val) bool {
		_, err := ripple.GetTxJsonInfo(s, p[0].U, p[1].B)
		return !notFound(err)
	})
	addKind("ccm/utxos", func(s *native.NativeService, p []val) bool {
		v, err := btc.VerifGetUtxos(s, p[0].U, string(p[1].B))
		return err != nil || len(v.Utxos) > 0
	})
	addKind("ccm/stxos", func(s *native.NativeService, p []val) bool {
		v, err := btc.VerifGetStxos(s, p[0].U, string(p[1].B))
		return err != nil || len(v.Utxos) > 0
	})
	addKind("ccm/btcMultiSignInfo", func(s *native.NativeService, p []val) bool {
		v, err := btc.VerifGetBtcMultiSignInfo(s, p[0].B)
		return err != nil || len(v.MultiSignInfo) > 0
	})
	addKind("ccm/btcFromInfo", func(s *native.NativeService, p []val) bool {
		_, err := btc.VerifGetBtcFromInfo(s, p[0].B)
		return !notFound(err)
	})
	// vote records: the id is sha256(unique request) in the vote / ripple handlers, and
	// "updateFee"||chain||view in side_chain_manager.UpdateFee (reached through that transaction)
	addKind("ccm/voteInfo.hashed", func(s *native.NativeService, p []val) bool {
		v, err := consensus_vote.VerifGetVoteInfo(s, p[0].B)
		return err != nil || v.Status || len(v.VoteInfo) > 0
	})
	addKind("ccm/voteInfo.updateFee", nil)

	addOp(&opDef{group: g, name: "PutDoneTx", ps: []pspec{{"chain", tU64}, {"crossChainID", tBytes}},
		exec: func(x *xctx, a []val) error {
			id := a[1].B
			if len(id) == 0 {
				id = []byte{} // stored value must be non-empty to be visible; an empty id stores an empty item
			}
			return ccom.PutDoneTx(x.svc, id, a[0].U)
		},
		recs: func(a []val) []rec { return []rec{rk("ccm/doneTx", vu(a[0].U), vb(a[1].B))} }})
	addOp(&opDef{group: g, name: "PutBlackChain", ps: []pspec{{"chain", tU64}},
		exec: func(x *xctx, a []val) error { ccom.PutBlackChain(x.svc, a[0].U); return nil },
		recs: func(a []val) []rec { return []rec{rk("ccm/blackedChain", vu(a[0].U))} }})
	addOp(&opDef{group: g, name: "PutRequest", ps: []pspec{{"chain", tU64}, {"txHash", tBytes}},
		exec: func(x *xctx, a []val) error {
			return cross_chain_manager.PutRequest(x.svc, a[1].B, a[0].U, []byte{1, 2, 3})
		},
		recs:   func(a []val) []rec { return []rec{rk("ccm/request", vu(a[0].U), vb(a[1].B))} },
		domain: func(a []val) string { return len32("the poly transaction hash")(a, 1) }})
	addOp(&opDef{group: g, name: "ripple.PutMultisignInfo", ps: []pspec{{"id", tStr}},
		exec: func(x *xctx, a []val) error {
			ripple.PutMultisignInfo(x.svc, string(a[0].B), &ripple.MultisignInfo{SigMap: map[string]bool{"a": true}})
			return nil
		},
		recs: func(a []val) []rec { return []rec{rk("ccm/rippleMultisignInfo", vb(a[0].B))} }})
	addOp(&opDef{group: g, name: "ripple.PutTxJsonInfo", ps: []pspec{{"chain", tU64}, {"txHash", tBytes}},
		exec: func(x *xctx, a []val) error { ripple.PutTxJsonInfo(x.svc, a[0].U, a[1].B, "7b7d"); return nil },
		recs: func(a []val) []rec { return []rec{rk("ccm/rippleTxInfo", vu(a[0].U), vb(a[1].B))} }})
	txos := &btc.Utxos{Utxos: []*btc.Utxo{{Op: &btc.OutPoint{Hash: make([]byte, 32), Index: 1}, Value: 5, ScriptPubkey: []byte{1}}}}
	addOp(&opDef{group: g, name: "btc.putUtxos", ps: []pspec{{"chain", tU64}, {"key", tStr}},
		exec:   func(x *xctx, a []val) error { btc.VerifPutUtxos(x.svc, a[0].U, string(a[1].B), txos); return nil },
		recs:   func(a []val) []rec { return []rec{rk("ccm/utxos", vu(a[0].U), vb(a[1].B))} },
		domain: func(a []val) string { return lowerHex20(a[1].B) }})
	addOp(&opDef{group: g, name: "btc.putStxos", ps: []pspec{{"chain", tU64}, {"key", tStr}},
		exec:   func(x *xctx, a []val) error { btc.VerifPutStxos(x.svc, a[0].U, string(a[1].B), txos); return nil },
		recs:   func(a []val) []rec { return []rec{rk("ccm/stxos", vu(a[0].U), vb(a[1].B))} },
		domain: func(a []val) string { return lowerHex20(a[1].B) }})
	addOp(&opDef{group: g, name: "btc.putBtcMultiSignInfo", ps: []pspec{{"txid", tBytes}},
		exec: func(x *xctx, a []val) error {
			return btc.VerifPutBtcMultiSignInfo(x.svc, a[0].B, &btc.MultiSignInfo{MultiSignInfo: map[string][][]byte{"a": {{1}}}})
		},
		recs:   func(a []val) []rec { return []rec{rk("ccm/btcMultiSignInfo", vb(a[0].B))} },
		domain: func(a []val) string { return len32("the bitcoin transaction id")(a, 0) }})
	addOp(&opDef{group: g, name: "btc.putBtcFromInfo", ps: []pspec{{"txid", tBytes}},
		exec: func(x *xctx, a []val) error {
			return btc.VerifPutBtcFromInfo(x.svc, a[0].B, &btc.BtcFromInfo{FromTxHash: []byte{1}, FromChainID: 2})
		},
		recs:   func(a []val) []rec { return []rec{rk("ccm/btcFromInfo", vb(a[0].B))} },
		domain: func(a []val) string { return len32("the bitcoin transaction id")(a, 0) }})
	addOp(&opDef{group: g, name: "vote.putVoteInfo", ps: []pspec{{"id", tBytes}},
		exec: func(x *xctx, a []val) error {
			consensus_vote.VerifPutVoteInfo(x.svc, a[0].B, &consensus_vote.VoteInfo{VoteInfo: map[string]bool{"a": true}})
			return nil
		},
		recs:   func(a []val) []rec { return []rec{rk("ccm/voteInfo.hashed", vb(a[0].B))} },
		domain: func(a []val) string { return len32("the sha256 id of a cross-chain vote")(a, 0) }})
}
