// Command instrument generates, from the CURRENT sources of the poly tree, instrumented copies of
// every non-test Go file under native/ (plus core/store/ledgerstore/tx_handler.go) in which
//   time.Now / time.Since / time.Until            -> verifclock.Now / Since / Until
//   crypto/rand.Read, crypto/rand.Int, .Prime      -> verifclock.CryptoRead / CryptoInt / CryptoPrime
//   math/rand package-level functions              -> recorded through verifclock.Entropy() calls
//     inserted at the top of every function of a file that imports math/rand or crypto/rand
// and writes an overlay fragment mapping the original paths to the copies and adding the virtual
// package github.com/polynetwork/poly/common/verifclock. /repo itself is never modified.
//
//	instrument <repo> <outdir> <verifclock source file>
package main

import (
	"bytes"
	"encoding/json"
	"fmt"
	"go/ast"
	"go/format"
	"go/parser"
	"go/token"
	"os"
	"path/filepath"
	"strconv"
	"strings"
)

const clockPkg = "github.com/polynetwork/poly/common/verifclock"

func main() {
	if len(os.Args) != 4 {
		fmt.Fprintln(os.Stderr, "usage: instrument <repo> <outdir> <verifclock.go>")
		os.Exit(2)
	}
	repo, out, clockSrc := os.Args[1], os.Args[2], os.Args[3]
	os.RemoveAll(out)
	os.MkdirAll(out, 0o755)
	overlay := map[string]string{}
	overlay[filepath.Join(repo, "common", "verifclock", "verifclock.go")] = clockSrc
	var files []string
	filepath.Walk(filepath.Join(repo, "native"), func(p string, info os.FileInfo, err error) error {
		if err != nil {
			return nil
		}
		if info.IsDir() {
			if info.Name() == "harmony" || info.Name() == "testdata" {
				return filepath.SkipDir
			}
			return nil
		}
		if strings.HasSuffix(p, ".go") && !strings.HasSuffix(p, "_test.go") {
			files = append(files, p)
		}
		return nil
	})
	files = append(files, filepath.Join(repo, "core", "store", "ledgerstore", "tx_handler.go"))
	sites := []string{}
	n := 0
	for _, f := range files {
		src, err := os.ReadFile(f)
		if err != nil {
			continue
		}
		if !bytes.Contains(src, []byte("\"time\"")) && !bytes.Contains(src, []byte("math/rand")) && !bytes.Contains(src, []byte("crypto/rand")) {
			continue
		}
		res, found, err := rewrite(f, src)
		if err != nil {
			fmt.Fprintf(os.Stderr, "instrument: %s: %v\n", f, err)
			os.Exit(1)
		}
		if len(found) == 0 {
			continue
		}
		rel, _ := filepath.Rel(repo, f)
		dst := filepath.Join(out, strings.ReplaceAll(rel, string(os.PathSeparator), "__"))
		if err := os.WriteFile(dst, res, 0o644); err != nil {
			fmt.Fprintln(os.Stderr, err)
			os.Exit(1)
		}
		overlay[f] = dst
		for _, s := range found {
			sites = append(sites, rel+": "+s)
		}
		n++
	}
	b, _ := json.MarshalIndent(overlay, "", " ")
	os.WriteFile(filepath.Join(out, "overlay_extra.json"), b, 0o644)
	sb, _ := json.MarshalIndent(sites, "", " ")
	os.WriteFile(filepath.Join(out, "static_sites.json"), sb, 0o644)
	fmt.Printf("instrumented %d files, %d rewritten sites\n", n, len(sites))
}

func importName(f *ast.File, path string) (string, bool) {
	for _, im := range f.Imports {
		p, _ := strconv.Unquote(im.Path.Value)
		if p != path {
			continue
		}
		if im.Name != nil {
			return im.Name.Name, true
		}
		return path[strings.LastIndex(path, "/")+1:], true
	}
	return "", false
}

func rewrite(name string, src []byte) ([]byte, []string, error) {
	fset := token.NewFileSet()
	f, err := parser.ParseFile(fset, name, src, parser.ParseComments)
	if err != nil {
		return nil, nil, err
	}
	timeName, hasTime := importName(f, "time")
	mrName, hasMR := importName(f, "math/rand")
	crName, hasCR := importName(f, "crypto/rand")
	var found []string
	timeFuncs := map[string]string{"Now": "Now", "Since": "Since", "Until": "Until"}
	cryptoFuncs := map[string]string{"Read": "CryptoRead", "Int": "CryptoInt", "Prime": "CryptoPrime"}
	ast.Inspect(f, func(n ast.Node) bool {
		sel, ok := n.(*ast.SelectorExpr)
		if !ok {
			return true
		}
		id, ok := sel.X.(*ast.Ident)
		if !ok || id.Obj != nil { // a local object shadows the package name
			return true
		}
		if hasTime && id.Name == timeName {
			if to, ok := timeFuncs[sel.Sel.Name]; ok {
				found = append(found, fmt.Sprintf("time.%s at line %d", sel.Sel.Name, fset.Position(sel.Pos()).Line))
				id.Name = "verifclock"
				sel.Sel.Name = to
			}
		}
		if hasCR && id.Name == crName {
			if to, ok := cryptoFuncs[sel.Sel.Name]; ok {
				found = append(found, fmt.Sprintf("crypto/rand.%s at line %d", sel.Sel.Name, fset.Position(sel.Pos()).Line))
				id.Name = "verifclock"
				sel.Sel.Name = to
			}
		}
		return true
	})
	if hasMR || hasCR {
		// entropy monitor: a call at the top of every function of the file (package init excluded)
		for _, d := range f.Decls {
			fd, ok := d.(*ast.FuncDecl)
			if !ok || fd.Body == nil || fd.Name.Name == "init" && fd.Recv == nil {
				continue
			}
			call := &ast.ExprStmt{X: &ast.CallExpr{Fun: &ast.SelectorExpr{X: ast.NewIdent("verifclock"), Sel: ast.NewIdent("Entropy")}}}
			fd.Body.List = append([]ast.Stmt{call}, fd.Body.List...)
		}
		found = append(found, "entropy monitor in every function (file imports math/rand or crypto/rand)")
		_ = mrName
	}
	if len(found) == 0 {
		return nil, nil, nil
	}
	// add the import
	spec := &ast.ImportSpec{Path: &ast.BasicLit{Kind: token.STRING, Value: strconv.Quote(clockPkg)}}
	gd := &ast.GenDecl{Tok: token.IMPORT, Specs: []ast.Spec{spec}}
	f.Decls = append([]ast.Decl{gd}, f.Decls...)
	var buf bytes.Buffer
	if err := format.Node(&buf, fset, f); err != nil {
		return nil, nil, err
	}
	out := buf.String()
	// keep the original imports alive whatever was rewritten away
	if hasTime {
		out += "\nvar _ " + timeName + ".Duration\n"
	}
	if hasCR {
		out += "\nvar _ = " + crName + ".Reader\n"
	}
	return []byte(out), found, nil
}
