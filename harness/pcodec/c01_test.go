package pcodec

import (
	"bytes"
	"encoding/binary"
	"fmt"
	"testing"

	"github.com/polynetwork/poly/common"
	"github.com/polynetwork/poly/common/serialization"
	"pgregory.net/rapid"

	"verif/harness/ev"
)

func TestMain(m *testing.M) { ev.Main(m) }

// ---------------------------------------------------------------------------------------------
// C01 Binary codec round-trips and fails safely on truncated input

type c01Item struct {
	K string `json:"k"`           // u8 u16 u32 u64 i16 i32 i64 bool varuint varbytes string addr hash
	U uint64 `json:"u,omitempty"` // numeric value
	B ev.B   `json:"b,omitempty"` // bytes value (varbytes/string/addr/hash)
	L int    `json:"l,omitempty"` // for big byte strings: length only (content derived)
}

type c01Case struct {
	Items []c01Item `json:"items"`
	Mode  string    `json:"mode"` // roundtrip | trunc | lenprefix | random
	Cut   int       `json:"cut,omitempty"`
	Which int       `json:"which,omitempty"`
	NewLn uint64    `json:"newlen,omitempty"`
	Raw   ev.B      `json:"raw,omitempty"`
	Kinds []string  `json:"kinds,omitempty"`
}

var c01Kinds = []string{"u8", "u16", "u32", "u64", "i16", "i32", "i64", "bool", "varuint", "varbytes", "string", "addr", "hash"}

func genVarUint() *rapid.Generator[uint64] {
	return rapid.OneOf(
		rapid.SampledFrom([]uint64{0, 1, 0xFC, 0xFD, 0xFE, 0xFF, 0x100, 0xFFFE, 0xFFFF, 0x10000, 0x10001, 0xFFFFFFFE, 0xFFFFFFFF,
			0x100000000, 0x100000001, 1 << 63, 1<<64 - 2, 1<<64 - 1}),
		rapid.Uint64(),
		rapid.Uint64Range(0, 0x20000),
	)
}

func genLen() *rapid.Generator[int] {
	big := []int{0, 1, 0xFC, 0xFD, 0xFE, 0xFF, 0x100, 65534, 65535, 65536, 65537}
	if ev.Thorough() {
		big = append(big, 2*1024*1024-1, 2*1024*1024, 2*1024*1024+1)
	}
	return rapid.OneOf(rapid.IntRange(0, 40), rapid.IntRange(0, 40), rapid.IntRange(0, 300), rapid.SampledFrom(big))
}

func fillBytes(n int, seed byte) []byte {
	b := make([]byte, n)
	for i := range b {
		b[i] = byte(i*7) ^ seed
	}
	return b
}

func genItem(t *rapid.T) c01Item {
	k := rapid.SampledFrom(c01Kinds).Draw(t, "kind")
	it := c01Item{K: k}
	switch k {
	case "u8":
		it.U = uint64(rapid.Uint8().Draw(t, "v"))
	case "u16", "i16":
		it.U = uint64(rapid.Uint16().Draw(t, "v"))
	case "u32", "i32":
		it.U = uint64(rapid.Uint32().Draw(t, "v"))
	case "u64", "i64":
		it.U = rapid.Uint64().Draw(t, "v")
	case "bool":
		it.U = uint64(rapid.IntRange(0, 1).Draw(t, "v"))
	case "varuint":
		it.U = genVarUint().Draw(t, "v")
	case "varbytes", "string":
		n := genLen().Draw(t, "len")
		if n <= 300 {
			it.B = rapid.SliceOfN(rapid.Byte(), n, n).Draw(t, "bytes")
		} else {
			it.L = n
			it.U = uint64(rapid.Byte().Draw(t, "fill"))
		}
	case "addr":
		it.B = rapid.SliceOfN(rapid.Byte(), 20, 20).Draw(t, "bytes")
	case "hash":
		it.B = rapid.SliceOfN(rapid.Byte(), 32, 32).Draw(t, "bytes")
	}
	return it
}

func (it c01Item) bytes() []byte {
	if it.L > 0 {
		return fillBytes(it.L, byte(it.U))
	}
	return []byte(it.B)
}

func genC01(t *rapid.T) c01Case {
	mode := rapid.SampledFrom([]string{"roundtrip", "trunc", "trunc", "lenprefix", "random"}).Draw(t, "mode")
	c := c01Case{Mode: mode}
	if mode == "random" {
		c.Raw = rapid.SliceOfN(rapid.Byte(), 0, 64).Draw(t, "raw")
		// bias the stream towards prefix bytes
		if len(c.Raw) > 0 && rapid.Bool().Draw(t, "prefixbias") {
			c.Raw[0] = rapid.SampledFrom([]byte{0xFD, 0xFE, 0xFF, 0xFC, 0}).Draw(t, "p0")
		}
		c.Kinds = rapid.SliceOfN(rapid.SampledFrom(c01Kinds), 1, 12).Draw(t, "kinds")
		return c
	}
	c.Items = rapid.SliceOfN(rapid.Custom(genItem), 1, 40).Draw(t, "items")
	switch mode {
	case "trunc":
		c.Cut = rapid.IntRange(0, 1<<30).Draw(t, "cut")
	case "lenprefix":
		c.Which = rapid.IntRange(0, 1<<20).Draw(t, "which")
		c.NewLn = rapid.OneOf(genVarUint(), rapid.Uint64Range(0, 70000)).Draw(t, "newlen")
	}
	return c
}

// independent size model written from the format description
func varUintSize(v uint64) int {
	switch {
	case v < 0xFD:
		return 1
	case v <= 0xFFFF:
		return 3
	case v <= 0xFFFFFFFF:
		return 5
	}
	return 9
}

func refVarUint(v uint64) []byte {
	switch {
	case v < 0xFD:
		return []byte{byte(v)}
	case v <= 0xFFFF:
		b := []byte{0xFD, 0, 0}
		binary.LittleEndian.PutUint16(b[1:], uint16(v))
		return b
	case v <= 0xFFFFFFFF:
		b := []byte{0xFE, 0, 0, 0, 0}
		binary.LittleEndian.PutUint32(b[1:], uint32(v))
		return b
	}
	b := make([]byte, 9)
	b[0] = 0xFF
	binary.LittleEndian.PutUint64(b[1:], v)
	return b
}

// refEncode is the harness's own encoder, written from the wire-format description.
func refEncode(it c01Item) []byte {
	switch it.K {
	case "u8", "bool":
		return []byte{byte(it.U)}
	case "u16", "i16":
		b := make([]byte, 2)
		binary.LittleEndian.PutUint16(b, uint16(it.U))
		return b
	case "u32", "i32":
		b := make([]byte, 4)
		binary.LittleEndian.PutUint32(b, uint32(it.U))
		return b
	case "u64", "i64":
		b := make([]byte, 8)
		binary.LittleEndian.PutUint64(b, it.U)
		return b
	case "varuint":
		return refVarUint(it.U)
	case "varbytes", "string":
		d := it.bytes()
		return append(refVarUint(uint64(len(d))), d...)
	case "addr", "hash":
		return it.bytes()
	}
	panic("kind")
}

func sinkWrite(s *common.ZeroCopySink, it c01Item) {
	switch it.K {
	case "u8":
		s.WriteUint8(uint8(it.U))
	case "u16":
		s.WriteUint16(uint16(it.U))
	case "u32":
		s.WriteUint32(uint32(it.U))
	case "u64":
		s.WriteUint64(it.U)
	case "i16":
		s.WriteInt16(int16(uint16(it.U)))
	case "i32":
		s.WriteInt32(int32(uint32(it.U)))
	case "i64":
		s.WriteInt64(int64(it.U))
	case "bool":
		s.WriteBool(it.U == 1)
	case "varuint":
		s.WriteVarUint(it.U)
	case "varbytes":
		s.WriteVarBytes(it.bytes())
	case "string":
		s.WriteString(string(it.bytes()))
	case "addr":
		var a common.Address
		copy(a[:], it.B)
		s.WriteAddress(a)
	case "hash":
		var h common.Uint256
		copy(h[:], it.B)
		s.WriteHash(h)
	}
}

func streamWrite(w *bytes.Buffer, it c01Item) error {
	switch it.K {
	case "u8":
		return serialization.WriteUint8(w, uint8(it.U))
	case "u16", "i16":
		return serialization.WriteUint16(w, uint16(it.U))
	case "u32", "i32":
		return serialization.WriteUint32(w, uint32(it.U))
	case "u64", "i64":
		return serialization.WriteUint64(w, it.U)
	case "bool":
		return serialization.WriteBool(w, it.U == 1)
	case "varuint":
		return serialization.WriteVarUint(w, it.U)
	case "varbytes":
		return serialization.WriteVarBytes(w, it.bytes())
	case "string":
		return serialization.WriteString(w, string(it.bytes()))
	case "addr":
		var a common.Address
		copy(a[:], it.B)
		return a.Serialize(w)
	case "hash":
		var h common.Uint256
		copy(h[:], it.B)
		return h.Serialize(w)
	}
	return fmt.Errorf("kind")
}

// srcRead reads one item of kind k; returns numeric value, bytes value, eof.
func srcRead(s *common.ZeroCopySource, k string) (u uint64, b []byte, eof bool) {
	switch k {
	case "u8":
		v, e := s.NextUint8()
		return uint64(v), nil, e
	case "u16":
		v, e := s.NextUint16()
		return uint64(v), nil, e
	case "u32":
		v, e := s.NextUint32()
		return uint64(v), nil, e
	case "u64":
		v, e := s.NextUint64()
		return v, nil, e
	case "i16":
		v, e := s.NextInt16()
		return uint64(uint16(v)), nil, e
	case "i32":
		v, e := s.NextInt32()
		return uint64(uint32(v)), nil, e
	case "i64":
		v, e := s.NextInt64()
		return uint64(v), nil, e
	case "bool":
		v, e := s.NextBool()
		if v {
			return 1, nil, e
		}
		return 0, nil, e
	case "varuint":
		v, e := s.NextVarUint()
		return v, nil, e
	case "varbytes":
		v, e := s.NextVarBytes()
		return 0, v, e
	case "string":
		v, e := s.NextString()
		return 0, []byte(v), e
	case "addr":
		v, e := s.NextAddress()
		return 0, v[:], e
	case "hash":
		v, e := s.NextHash()
		return 0, v[:], e
	}
	panic("kind")
}

func streamRead(r *bytes.Reader, k string) (u uint64, b []byte, err error) {
	switch k {
	case "u8":
		v, e := serialization.ReadUint8(r)
		return uint64(v), nil, e
	case "u16", "i16":
		v, e := serialization.ReadUint16(r)
		return uint64(v), nil, e
	case "u32", "i32":
		v, e := serialization.ReadUint32(r)
		return uint64(v), nil, e
	case "u64", "i64":
		v, e := serialization.ReadUint64(r)
		return v, nil, e
	case "bool":
		v, e := serialization.ReadBool(r)
		if v {
			return 1, nil, e
		}
		return 0, nil, e
	case "varuint":
		v, e := serialization.ReadVarUint(r, 0)
		return v, nil, e
	case "varbytes":
		v, e := serialization.ReadVarBytes(r)
		return 0, v, e
	case "string":
		v, e := serialization.ReadString(r)
		return 0, []byte(v), e
	case "addr":
		var a common.Address
		e := a.Deserialize(r)
		return 0, a[:], e
	case "hash":
		var h common.Uint256
		e := h.Deserialize(r)
		return 0, h[:], e
	}
	panic("kind")
}

func isBytesKind(k string) bool {
	return k == "varbytes" || k == "string" || k == "addr" || k == "hash"
}

func runC01(ctx *ev.Ctx, c c01Case) {
	ctx.Label("mode:" + c.Mode)
	if c.Mode == "random" {
		ctx.NonTrivial()
		runC01Random(ctx, c)
		return
	}
	// (1) the two encoders agree with each other and with the reference encoder
	sink := common.NewZeroCopySink(nil)
	var buf bytes.Buffer
	var ref []byte
	ends := make([]int, len(c.Items))
	multi := false
	for i, it := range c.Items {
		sinkWrite(sink, it)
		if err := streamWrite(&buf, it); err != nil {
			ctx.Failf("stream write item %d (%s): %v", i, it.K, err)
		}
		ref = append(ref, refEncode(it)...)
		ends[i] = len(ref)
		if (it.K == "varbytes" || it.K == "string") && len(it.bytes()) >= 0xFD {
			multi = true
		}
		if it.K == "varuint" && it.U >= 0xFD {
			multi = true
		}
		if uint64(len(sink.Bytes())) != sink.Size() || len(sink.Bytes()) != len(ref) {
			ctx.Failf("after item %d (%s): sink size %d, reference size %d", i, it.K, sink.Size(), len(ref))
		}
	}
	if !bytes.Equal(sink.Bytes(), ref) {
		ctx.Failf("zero-copy sink bytes differ from reference encoding:\n sink %x\n ref  %x", clip(sink.Bytes()), clip(ref))
	}
	if !bytes.Equal(buf.Bytes(), ref) {
		ctx.Failf("streaming writer bytes differ from reference encoding:\n strm %x\n ref  %x", clip(buf.Bytes()), clip(ref))
	}
	if multi {
		ctx.NonTrivial()
		ctx.Label("multibyte-prefix")
	}
	data := append([]byte(nil), ref...)
	intact := len(c.Items) // number of leading items that must decode to their value
	switch c.Mode {
	case "trunc":
		if len(data) == 0 {
			break
		}
		cut := c.Cut % len(data) // strict truncation
		data = data[:cut]
		intact = 0
		for intact < len(ends) && ends[intact] <= cut {
			intact++
		}
		ctx.NonTrivial()
	case "lenprefix":
		// rewrite the length prefix of one var-bytes item so it exceeds what follows
		var idx []int
		for i, it := range c.Items {
			if it.K == "varbytes" || it.K == "string" {
				idx = append(idx, i)
			}
		}
		if len(idx) == 0 {
			ctx.Label("lenprefix:no-candidate")
			break
		}
		w := idx[c.Which%len(idx)]
		start := 0
		if w > 0 {
			start = ends[w-1]
		}
		oldLen := uint64(len(c.Items[w].bytes()))
		oldPref := varUintSize(oldLen)
		rest := uint64(len(ref) - start - oldPref) // bytes after the old prefix
		newLen := c.NewLn
		if newLen <= rest {
			// make it exceed the remainder (wraps only when rest is 2^64-1, impossible here)
			newLen = rest + 1 + newLen%7
		}
		nd := append([]byte(nil), ref[:start]...)
		nd = append(nd, refVarUint(newLen)...)
		nd = append(nd, ref[start+oldPref:]...)
		data = nd
		intact = w
		ctx.NonTrivial()
		ctx.Label("lenprefix:rewritten")
	}
	// (2)/(3) zero-copy decoder
	src := common.NewZeroCopySource(data)
	for i, it := range c.Items {
		var u uint64
		var b []byte
		var eof bool
		before := src.Pos()
		if p := ev.Catch(func() { u, b, eof = srcRead(src, it.K) }); p != "" {
			ctx.Failf("zero-copy read of item %d (%s) panicked: %s", i, it.K, p)
		}
		if src.Pos() > src.Size() {
			ctx.Failf("zero-copy source position %d beyond size %d after item %d", src.Pos(), src.Size(), i)
		}
		if i < intact {
			if eof {
				ctx.Failf("zero-copy read of fully present item %d (%s) reported eof", i, it.K)
			}
			if isBytesKind(it.K) {
				if !bytes.Equal(b, it.bytes()) {
					ctx.Failf("zero-copy item %d (%s): got %x want %x", i, it.K, clip(b), clip(it.bytes()))
				}
			} else if u != it.U {
				ctx.Failf("zero-copy item %d (%s): got %d want %d", i, it.K, u, it.U)
			}
			if c.Mode != "lenprefix" || i < intact {
				wantPos := uint64(ends[i])
				if src.Pos() != wantPos {
					ctx.Failf("zero-copy item %d (%s): consumed to %d, written end %d (from %d)", i, it.K, src.Pos(), wantPos, before)
				}
			}
			continue
		}
		// first damaged / missing item: must be reported
		if !eof {
			ctx.Failf("zero-copy read of truncated/over-long item %d (%s) did not report eof (mode %s, data len %d, value %d/%x)",
				i, it.K, c.Mode, len(data), u, clip(b))
		}
		break
	}
	// streaming decoder
	rd := bytes.NewReader(data)
	for i, it := range c.Items {
		var u uint64
		var b []byte
		var err error
		if p := ev.Catch(func() { u, b, err = streamRead(rd, it.K) }); p != "" {
			ctx.Failf("streaming read of item %d (%s) panicked: %s", i, it.K, p)
		}
		if i < intact {
			if err != nil {
				ctx.Failf("streaming read of fully present item %d (%s): %v", i, it.K, err)
			}
			if isBytesKind(it.K) {
				if !bytes.Equal(b, it.bytes()) {
					ctx.Failf("streaming item %d (%s): got %x want %x", i, it.K, clip(b), clip(it.bytes()))
				}
			} else if u != it.U {
				ctx.Failf("streaming item %d (%s): got %d want %d", i, it.K, u, it.U)
			}
			if consumed := len(data) - rd.Len(); consumed != ends[i] {
				ctx.Failf("streaming item %d (%s): consumed %d, written end %d", i, it.K, consumed, ends[i])
			}
			continue
		}
		if err == nil {
			ctx.Failf("streaming read of truncated/over-long item %d (%s) returned no error (value %d/%x)", i, it.K, u, clip(b))
		}
		break
	}
}

func clip(b []byte) []byte {
	if len(b) > 96 {
		return b[:96]
	}
	return b
}

// runC01Random: arbitrary bytes, both decoders read the same kind sequence and must agree on
// accept/reject and on the value; nothing may panic and positions stay in bounds.
func runC01Random(ctx *ev.Ctx, c c01Case) {
	src := common.NewZeroCopySource(c.Raw)
	rd := bytes.NewReader(c.Raw)
	for i, k := range c.Kinds {
		var u1, u2 uint64
		var b1, b2 []byte
		var eof bool
		var err error
		pos := int(src.Pos())
		if p := ev.Catch(func() { u1, b1, eof = srcRead(src, k) }); p != "" {
			ctx.Failf("zero-copy read %d (%s) panicked on arbitrary bytes: %s", i, k, p)
		}
		if p := ev.Catch(func() { u2, b2, err = streamRead(rd, k) }); p != "" {
			ctx.Failf("streaming read %d (%s) panicked on arbitrary bytes: %s", i, k, p)
		}
		if src.Pos() > src.Size() {
			ctx.Failf("zero-copy position %d beyond size %d", src.Pos(), src.Size())
		}
		if k == "bool" && pos < len(c.Raw) && c.Raw[pos] > 1 {
			// documented difference: zero-copy rejects bytes other than 0/1, streaming maps non-zero to true
			ctx.Label("random:bool-noncanonical")
			return
		}
		if eof != (err != nil) {
			ctx.Failf("decoders disagree on arbitrary bytes at read %d (%s): zero-copy eof=%v, streaming err=%v; input %x", i, k, eof, err, []byte(c.Raw))
		}
		// third voice: a reference reader written from the format description
		ru, rb, rnext, rok := refRead(c.Raw, pos, k)
		if rok == eof {
			ctx.Failf("zero-copy read %d (%s) at %d: eof=%v but the reference reader says complete=%v; input %x", i, k, pos, eof, rok, clip(c.Raw))
		}
		if eof {
			return
		}
		if u1 != u2 || !bytes.Equal(b1, b2) {
			ctx.Failf("decoders disagree on value at read %d (%s): %d/%x vs %d/%x", i, k, u1, b1, u2, b2)
		}
		if u1 != ru || !bytes.Equal(b1, rb) || src.Pos() != uint64(rnext) {
			ctx.Failf("zero-copy read %d (%s) at %d gave %d/%x and moved to %d; reference reader: %d/%x, next %d; input %x",
				i, k, pos, u1, clip(b1), src.Pos(), ru, clip(rb), rnext, clip(c.Raw))
		}
		// an accepted read returned bytes that really are in the input at that position
		if consumed := len(c.Raw) - rd.Len(); uint64(consumed) != src.Pos() {
			ctx.Failf("decoders consumed different amounts at read %d (%s): %d vs %d", i, k, src.Pos(), consumed)
		}
	}
}

// refRead is the reference reader: little-endian fixed-width integers, one-byte booleans, the
// 1/3/5/9-byte variable-length integer (0xFD/0xFE/0xFF prefixes; shorter-than-necessary forms are
// not required), length-prefixed byte strings, 20-byte addresses, 32-byte hashes. ok=false when
// the item does not fit into what is left.
func refRead(data []byte, pos int, k string) (u uint64, b []byte, next int, ok bool) {
	le := func(n int) (uint64, bool) {
		if pos+n > len(data) {
			return 0, false
		}
		var v uint64
		for i := n - 1; i >= 0; i-- {
			v = v<<8 | uint64(data[pos+i])
		}
		pos += n
		return v, true
	}
	take := func(n uint64) ([]byte, bool) {
		if n > uint64(len(data)-pos) {
			return nil, false
		}
		out := data[pos : pos+int(n)]
		pos += int(n)
		return out, true
	}
	varu := func() (uint64, bool) {
		p, ok := le(1)
		if !ok {
			return 0, false
		}
		switch p {
		case 0xFD:
			return le(2)
		case 0xFE:
			return le(4)
		case 0xFF:
			return le(8)
		}
		return p, true
	}
	switch k {
	case "u8", "bool":
		u, ok = le(1)
	case "u16", "i16":
		u, ok = le(2)
	case "u32", "i32":
		u, ok = le(4)
	case "u64", "i64":
		u, ok = le(8)
	case "varuint":
		u, ok = varu()
	case "varbytes", "string":
		var n uint64
		if n, ok = varu(); ok {
			b, ok = take(n)
		}
	case "addr":
		b, ok = take(20)
	case "hash":
		b, ok = take(32)
	default:
		panic("kind")
	}
	return u, b, pos, ok
}

// FuzzC01 feeds coverage-guided inputs to the arbitrary-bytes mode of C01: byte 0 = number of
// reads, the next bytes select the kinds, the rest is the stream both decoders read.
func FuzzC01(f *testing.F) {
	f.Add([]byte{3, 8, 9, 10, 0xFD, 0x00, 0x01, 0xFE, 1, 2, 3, 4})
	f.Add([]byte{2, 9, 9, 0xFF, 0xFF, 0xFF, 0xFF, 0xFF, 0xFF, 0xFF, 0xFF, 0xFF})
	f.Add([]byte{1, 10, 0xFE, 0xFF, 0xFF, 0xFF, 0x7F, 'a'})
	f.Add([]byte{4, 11, 12, 7, 3})
	ev.Fuzz(f, "C01", "TestC01", func(d []byte) (c01Case, bool) {
		if len(d) < 2 {
			return c01Case{}, false
		}
		n := 1 + int(d[0])%12
		if len(d) < 1+n {
			return c01Case{}, false
		}
		c := c01Case{Mode: "random"}
		for _, x := range d[1 : 1+n] {
			c.Kinds = append(c.Kinds, c01Kinds[int(x)%len(c01Kinds)])
		}
		c.Raw = append([]byte(nil), d[1+n:]...)
		return c, true
	}, runC01)
}

func TestC01(t *testing.T) {
	ev.Drive(t, "C01",
		"cases: sequences of 1..40 typed primitives written with both encoders, or arbitrary bytes; modes roundtrip/trunc/lenprefix/random. "+
			"non-trivial: sequence holds a variable-length item with a multi-byte prefix, or the input is a strict truncation, a rewritten over-long length prefix, or arbitrary bytes; distinct by JSON encoding of the case",
		genC01, runC01)
}
