package ppow

import (
	"bytes"
	"crypto/sha256"
	"encoding/binary"
	"encoding/json"
	"fmt"
	"math/big"
	"sync"
	"testing"

	"github.com/polynetwork/poly/common"
	"github.com/polynetwork/poly/common/config"
	"github.com/polynetwork/poly/common/verifclock"
	"github.com/polynetwork/poly/core/payload"
	scommon "github.com/polynetwork/poly/core/store/common"
	"github.com/polynetwork/poly/core/store/overlaydb"
	ptypes "github.com/polynetwork/poly/core/types"
	"github.com/polynetwork/poly/native"
	hscommon "github.com/polynetwork/poly/native/service/header_sync/common"
	"github.com/polynetwork/poly/native/service/utils"
	"github.com/polynetwork/poly/native/storage"
	"pgregory.net/rapid"

	"verif/harness/ev"
	"verif/harness/world"
)

// ---------------------------------------------------------------------------------------------
// C16 part A (unit TestC16APow, PoW routers eth and btc): executing the same transaction on the
// same prior state always yields the same verdict, write set and notifications - independent of map
// order AND of what the process executed before (hidden package state).
//
// Transaction source: the C27 generator (trust-root install; block trees with long / short block
// times, with and without parent uncles, pre-London / London / Arrow Glacier; call histories with
// chains per call, orphans, reorganisations, re-submissions, future and wrapped-number headers).
// Every transaction is executed k times (8, thorough 16) on throw-away forks of the current state
// and then once for real. At the end of the case the FIRST transactions (trust-root install and
// first header sync) are executed again on forks of their original prior states and must give the
// image of their first execution: history independence inside one process.

type c16aCase struct {
	Tree c27Case `json:"tree"`
}

func (c *c16aCase) UnmarshalJSON(b []byte) error { // shared regress directory: skip files of other shapes
	var p struct {
		Tree *c27Case `json:"tree"`
	}
	if err := json.Unmarshal(b, &p); err != nil || p.Tree == nil || (p.Tree.Router != "eth" && p.Tree.Router != "btc") {
		*c = c16aCase{Tree: c27Case{Router: "foreign"}}
		return nil
	}
	c.Tree = *p.Tree
	return nil
}

func genC16A(t *rapid.T) c16aCase {
	c := genC27(t)
	if len(c.Nodes) > 12 {
		c.Nodes = c.Nodes[:12]
	}
	if len(c.Ops) > 12 {
		c.Ops = c.Ops[:12]
	}
	// long timestamp gaps (>= 900 s: the -99 clamp of the difficulty rules), with and without parent uncles
	for i := range c.Nodes {
		if rapid.IntRange(0, 3).Draw(t, "longgap") == 0 {
			c.Nodes[i].Dt = rapid.Uint64Range(900, 1100).Draw(t, "gap")
		}
	}
	if c.Router == "eth" && c.NowOff < 10_000_000 && rapid.Bool().Draw(t, "farNow") {
		c.NowOff = 10_000_000
	}
	return c16aCase{Tree: c}
}

// readThrough is a read-only PersistStore view of a world's block layer.
type readThrough struct{ o *overlaydb.OverlayDB }

func (r readThrough) Get(key []byte) ([]byte, error) {
	v, err := r.o.Get(key)
	if err != nil {
		return nil, err
	}
	if v == nil {
		return nil, scommon.ErrNotFound
	}
	return v, nil
}
func (r readThrough) Has(key []byte) (bool, error) {
	v, err := r.o.Get(key)
	return v != nil, err
}
func (r readThrough) NewIterator(prefix []byte) scommon.StoreIterator { return r.o.NewIterator(prefix) }
func (r readThrough) Put(key []byte, value []byte) error              { panic("harness: read-only view") }
func (r readThrough) Delete(key []byte) error                         { panic("harness: read-only view") }
func (r readThrough) NewBatch()                                       {}
func (r readThrough) BatchPut(key []byte, value []byte)               { panic("harness: read-only view") }
func (r readThrough) BatchDelete(key []byte)                          { panic("harness: read-only view") }
func (r readThrough) BatchCommit() error                              { return nil }
func (r readThrough) Close() error                                    { return nil }

// execImage: everything observable of one execution.
type execImage struct {
	verdict string
	writes  [][2][]byte
	events  []string
	digest  [32]byte
}

func forkExec(w *world.World, tx *ptypes.Transaction) execImage {
	fork := overlaydb.VerifNewOverlayDB(readThrough{w.Overlay}, 64*1024, 64)
	cache := storage.NewCacheDB(fork)
	var img execImage
	code := tx.Payload.(*payload.InvokeCode).Code
	svc, err := native.NewNativeService(cache, tx, w.Time, w.Height, w.BlockHash, w.ChainID, code, false)
	if err != nil {
		img.verdict = "service: " + err.Error()
	} else {
		func() {
			defer func() {
				if r := recover(); r != nil {
					err = fmt.Errorf("panic: %v", r)
				}
			}()
			_, err = svc.Invoke()
		}()
		if err != nil {
			img.verdict = "error: " + err.Error()
		} else {
			img.verdict = "ok"
			cache.Commit()
			for _, n := range svc.GetNotify() {
				img.events = append(img.events, fmt.Sprintf("%x %v", n.ContractAddress[:], n.States))
			}
			for _, h := range svc.GetCrossHashes() {
				img.events = append(img.events, fmt.Sprintf("cross %x", h[:]))
			}
		}
	}
	h := sha256.New()
	h.Write([]byte(img.verdict))
	fork.GetWriteSet().ForEach(func(k, v []byte) {
		img.writes = append(img.writes, [2][]byte{append([]byte{}, k...), append([]byte{}, v...)})
		fmt.Fprintf(h, "|%d:%x=%d:%x", len(k), k, len(v), v)
	})
	for _, e := range img.events {
		fmt.Fprintf(h, "|ev:%s", e)
	}
	copy(img.digest[:], h.Sum(nil))
	return img
}

func clipStr(s string) string {
	if len(s) > 260 {
		return s[:260] + "..."
	}
	return s
}

func (a execImage) diff(b execImage) string {
	if a.verdict != b.verdict {
		return fmt.Sprintf("verdict %q vs %q", clipStr(a.verdict), clipStr(b.verdict))
	}
	if len(a.writes) != len(b.writes) {
		return fmt.Sprintf("%d vs %d written keys", len(a.writes), len(b.writes))
	}
	for i := range a.writes {
		if !bytes.Equal(a.writes[i][0], b.writes[i][0]) {
			return fmt.Sprintf("written key #%d: %x vs %x", i, a.writes[i][0], b.writes[i][0])
		}
		if !bytes.Equal(a.writes[i][1], b.writes[i][1]) {
			return fmt.Sprintf("value of key %x: %s vs %s", a.writes[i][0], clipStr(fmt.Sprintf("%x", a.writes[i][1])), clipStr(fmt.Sprintf("%x", b.writes[i][1])))
		}
	}
	for i := range a.events {
		if i >= len(b.events) || a.events[i] != b.events[i] {
			return fmt.Sprintf("notification #%d differs", i)
		}
	}
	if len(a.events) != len(b.events) {
		return fmt.Sprintf("%d vs %d notifications", len(a.events), len(b.events))
	}
	return ""
}

var (
	c16aMu      sync.Mutex
	c16aRouters = map[string]int{}
	c16aTx      = map[string]int{}
	// Hidden process state, once corrupted, stays corrupted: after the first reported violation in a
	// process every further case (rapid's shrink attempts) would fail or pass for reasons unrelated
	// to its own content. The verdict is already a violation; later cases are skipped, so the saved
	// replay file is the case that contains the trigger and reproduces in a fresh process.
	c16aTripped bool
)

func runC16A(ctx *ev.Ctx, cc c16aCase) {
	c := cc.Tree
	if c.Router != "eth" && c.Router != "btc" {
		ctx.Label("regression-file-of-another-unit(skipped)")
		return
	}
	c16aMu.Lock()
	tripped := c16aTripped
	c16aMu.Unlock()
	if tripped && !ctx.Replaying {
		ctx.Label("skipped-after-violation-in-this-process")
		return
	}
	ctx.Label("router:" + c.Router)
	k := ev.Scale(8, 16)
	old := config.DefConfig.Common.EnableEventLog
	config.DefConfig.Common.EnableEventLog = true // header sync notifies only when the event log is on
	defer func() { config.DefConfig.Common.EnableEventLog = old }()
	fail := func(format string, a ...interface{}) {
		c16aMu.Lock()
		c16aTripped = true
		c16aMu.Unlock()
		ctx.Failf(format, a...)
	}

	var (
		w       *world.World
		nodes   []*mNode
		chainID uint64
		rootRaw []byte
	)
	switch c.Router {
	case "eth":
		restore := sealSwitch()
		defer restore()
		verifclock.SetFake(int64(ethRootTime + c.NowOff))
		defer verifclock.ClearFake()
		w = newWorldWithChain(c.Net, ethChainID, utils.ETH_ROUTER, []byte{0xcc, 0x01})
		_, nodes = buildEthTree(ctx, c)
		chainID, rootRaw = ethChainID, nodes[0].raw
	default:
		verifclock.SetFake(2_000_000_000)
		defer verifclock.ClearFake()
		ccmc := make([]byte, 8)
		binary.LittleEndian.PutUint64(ccmc, uint64(utils.TyRegtest))
		w = newWorldWithChain(c.Net, btcChainID, utils.BTC_ROUTER, ccmc)
		_, nodes, rootRaw = buildBtcTree(c)
		chainID = btcChainID
	}

	// one monitored transaction: k fork executions, then the real one
	type firstRec struct {
		tx    *ptypes.Transaction
		prior [][2][]byte
		img   execImage
		what  string
	}
	var firsts []firstRec
	execTx := func(what string, tx *ptypes.Transaction, remember bool) world.Result {
		first := forkExec(w, tx)
		for i := 1; i < k; i++ {
			img := forkExec(w, tx)
			if img.digest != first.digest {
				fail("%s (%s router): execution #%d of the same transaction on the same prior state differs from execution #1: %s", what, c.Router, i+1, first.diff(img))
			}
		}
		if remember {
			firsts = append(firsts, firstRec{tx: tx, prior: w.Dump(), img: first, what: what})
		}
		res := w.Exec(tx)
		if (res.Err == nil) != (first.verdict == "ok") {
			fail("%s (%s router): the real execution (%v) disagrees with the fork executions (%s)", what, c.Router, res.Err, clipStr(first.verdict))
		}
		kind := "rejected"
		if res.Err == nil {
			kind = "ok"
		}
		c16aMu.Lock()
		c16aTx[c.Router+"/"+kind]++
		c16aMu.Unlock()
		return res
	}

	gtx := w.MakeTx(utils.HeaderSyncContractAddress, hscommon.SYNC_GENESIS_HEADER, genesisArgs(chainID, rootRaw), []common.Address{w.Operator()})
	if res := execTx("syncGenesisHeader", gtx, true); !res.OK() {
		ctx.Failf("fixture: syncGenesisHeader by the operator failed: %v", res.Err)
	}
	m := &model{nodes: nodes, stored: map[int]bool{0: true}, td: map[int]*big.Int{0: new(big.Int).Set(nodes[0].own)}, head: 0}
	longGap, okSync := false, 0
	for oi, op := range c.Ops {
		batch := m.excludeFilter(m.resolve(op))
		if len(batch) == 0 {
			continue
		}
		raws := make([][]byte, len(batch))
		for i, b := range batch {
			raws[i] = nodes[b].raw
			if b > 0 && c.Nodes[b-1].Dt >= 900 && c.Router == "eth" {
				longGap = true
				ctx.Label("eth:header-with-gap>=900s")
			}
		}
		args, signers := syncHeadersArgs(chainID, raws)
		tx := w.MakeTx(utils.HeaderSyncContractAddress, hscommon.SYNC_BLOCK_HEADER, args, signers)
		res := execTx(fmt.Sprintf("op %d (syncBlockHeader %s %v)", oi, op.Kind, batch), tx, len(firsts) == 1)
		if res.Err == nil {
			okSync++
			if next, ok, _, _ := m.apply(batch); ok {
				m = next
			}
		}
	}
	// history independence: the first transactions again, on their original prior states
	for _, f := range firsts {
		restoreStore(w, f.prior)
		again := forkExec(w, f.tx)
		if again.digest != f.img.digest {
			fail("%s (%s router): re-executed at the end of the case on its original prior state, the transaction no longer gives the result of its first execution "+
				"(the outcome depends on what the process executed in between): %s", f.what, c.Router, f.img.diff(again))
		}
	}
	if longGap && okSync > 0 {
		ctx.NonTrivial()
	}
	c16aMu.Lock()
	c16aRouters[c.Router]++
	c16aMu.Unlock()
}

func TestC16APow(t *testing.T) {
	id := unitID("C16")
	defer func() {
		c16aMu.Lock()
		ev.Get(id).Extra("routers", c16aRouters)
		ev.Get(id).Extra("transactions", c16aTx)
		c16aMu.Unlock()
	}()
	ev.Drive(t, id,
		"part A, PoW-router unit (eth, btc): transactions of the C27 generator (trust-root install; <= 12 headers in a tree with block times 1..1100 s - a quarter >= 900 s - with and without "+
			"parent uncles, rooted before / at / after London and Arrow Glacier; <= 12 syncBlockHeader calls: next header, chains per call, orphans, reorganisations, re-submissions, future and "+
			"wrapped-number headers); each transaction is executed 8 (thorough 16) times on throw-away forks of the same prior state with the clock pinned, then once for real; at the end the "+
			"trust-root install and the first header sync are executed again on forks of their original prior states. Required: identical verdict, byte-identical write set, identical "+
			"notifications every time. non-trivial: an eth header >= 900 s after its parent was submitted and >= 1 sync succeeded; distinct by JSON of the case",
		genC16A, runC16A)
}
