// Package ppow holds the checks of the proof-of-work light clients: C27 (fork choice / stored
// header invariants of the ETH and BTC routers) and C28 (Ethereum header rules vs specification).
package ppow

import (
	"encoding/binary"
	"fmt"
	"testing"

	"github.com/polynetwork/poly/common"
	"github.com/polynetwork/poly/common/log"
	"github.com/polynetwork/poly/core/states"
	scommon "github.com/polynetwork/poly/core/store/common"
	"github.com/polynetwork/poly/native/service/governance/side_chain_manager"
	hscommon "github.com/polynetwork/poly/native/service/header_sync/common"
	"github.com/polynetwork/poly/native/service/utils"

	"verif/harness/ev"
	"verif/harness/world"
)

func TestMain(m *testing.M) {
	log.Log.SetDebugLevel(log.FatalLog) // the routers log every re-submission / reorg at WARN
	ev.Main(m)
}

const nValidators = 4

// newWorldWithChain builds an L1 world and registers one side chain through the real
// side_chain_manager flow: registerSideChain by the owner, approveRegisterSideChain by the
// validators one after the other (signer = validator address) until the chain is installed.
//
// Building a world allocates two 4 MB buffers (LevelDB mem table, overlay), which dominates the
// cost of a case. The registered-chain state is therefore built once per (network, chain) in a
// process, committed into the in-memory store, and every case gets a fresh World value over that
// store with the overlay reset - i.e. exactly the state right after registration. Cases never
// write to the store itself (World.Exec only commits into the overlay).
func newWorldWithChain(netID uint32, chainID, router uint64, ccmc []byte) *world.World {
	return newWorldWithChains(netID, []chainSpec{{chainID, router, ccmc}})
}

type chainSpec struct {
	id, router uint64
	ccmc       []byte
}

func newWorldWithChains(netID uint32, chains []chainSpec) *world.World {
	key := fmt.Sprintf("%d", netID)
	for _, c := range chains {
		key += fmt.Sprintf("/%d:%d:%x", c.id, c.router, c.ccmc)
	}
	base, ok := baseWorlds[key]
	if !ok {
		base = world.New(nValidators, world.Opts{NetworkID: netID})
		for _, c := range chains {
			registerChain(base, c.id, c.router, c.ccmc)
		}
		base.NextBlock()
		base.Store.NewBatch()
		base.Overlay.CommitTo()
		if err := base.Store.BatchCommit(); err != nil {
			panic(err)
		}
		baseWorlds[key] = base
	}
	world.ResetGlobals(netID)
	base.Cache.Reset()
	base.Overlay.Reset()
	return &world.World{Store: base.Store, Overlay: base.Overlay, Cache: base.Cache, Height: base.Height, Time: base.Time,
		ChainID: base.ChainID, BlockHash: base.BlockHash, Validators: base.Validators}
}

var baseWorlds = map[string]*world.World{}

func registerChain(w *world.World, chainID, router uint64, ccmc []byte) {
	owner := world.Acct(40)
	p := &side_chain_manager.RegisterSideChainParam{Address: owner.Address, ChainId: chainID, Router: router,
		Name: fmt.Sprintf("chain-%d", chainID), BlocksToWait: 1, CCMCAddress: ccmc}
	sink := common.NewZeroCopySink(nil)
	if err := p.Serialization(sink); err != nil {
		panic(err)
	}
	if r := w.Invoke(utils.SideChainManagerContractAddress, side_chain_manager.REGISTER_SIDE_CHAIN, sink.Bytes(),
		[]common.Address{owner.Address}); !r.OK() {
		panic(fmt.Sprintf("fixture: registerSideChain failed: %v", r.Err))
	}
	for _, v := range w.Validators {
		ap := &side_chain_manager.ChainidParam{Chainid: chainID, Address: v.Address}
		s := common.NewZeroCopySink(nil)
		ap.Serialization(s)
		if r := w.Invoke(utils.SideChainManagerContractAddress, side_chain_manager.APPROVE_REGISTER_SIDE_CHAIN, s.Bytes(),
			[]common.Address{v.Address}); !r.OK() {
			panic(fmt.Sprintf("fixture: approveRegisterSideChain failed: %v", r.Err))
		}
		sc, err := side_chain_manager.GetSideChain(w.Service(), chainID)
		if err != nil {
			panic(err)
		}
		if sc != nil {
			break
		}
	}
	sc, err := side_chain_manager.GetSideChain(w.Service(), chainID)
	if err != nil || sc == nil || sc.Router != router {
		panic(fmt.Sprintf("fixture: side chain %d not installed (%v)", chainID, err))
	}
}

// syncGenesis installs the trust root through header_sync.syncGenesisHeader witnessed by the
// consensus operator multi-sig address.
func syncGenesis(w *world.World, chainID uint64, raw []byte) world.Result {
	return syncGenesisAs(w, chainID, raw, []common.Address{w.Operator()})
}

func genesisArgs(chainID uint64, raw []byte) []byte {
	p := &hscommon.SyncGenesisHeaderParam{ChainID: chainID, GenesisHeader: raw}
	sink := common.NewZeroCopySink(nil)
	p.Serialization(sink)
	return sink.Bytes()
}

func syncGenesisAs(w *world.World, chainID uint64, raw []byte, signers []common.Address) world.Result {
	return w.Invoke(utils.HeaderSyncContractAddress, hscommon.SYNC_GENESIS_HEADER, genesisArgs(chainID, raw), signers)
}

func syncHeadersArgs(chainID uint64, raws [][]byte) ([]byte, []common.Address) {
	relayer := world.Acct(50)
	p := &hscommon.SyncBlockHeaderParam{ChainID: chainID, Address: relayer.Address, Headers: raws}
	sink := common.NewZeroCopySink(nil)
	p.Serialization(sink)
	return sink.Bytes(), []common.Address{relayer.Address}
}

// syncHeaders submits a batch of raw headers in ONE syncBlockHeader transaction (relayer = outsider).
func syncHeaders(w *world.World, chainID uint64, raws [][]byte) world.Result {
	relayer := world.Acct(50)
	p := &hscommon.SyncBlockHeaderParam{ChainID: chainID, Address: relayer.Address, Headers: raws}
	sink := common.NewZeroCopySink(nil)
	p.Serialization(sink)
	return w.Invoke(utils.HeaderSyncContractAddress, hscommon.SYNC_BLOCK_HEADER, sink.Bytes(), []common.Address{relayer.Address})
}

// ---- raw store access (independent of the routers' getters) ----------------------------------

func le64(v uint64) []byte {
	var b [8]byte
	binary.LittleEndian.PutUint64(b[:], v)
	return b[:]
}

// hsPrefix = header-sync contract address || key name || chain id (8 bytes little endian)
func hsPrefix(name string, chainID uint64) []byte {
	a := utils.HeaderSyncContractAddress
	out := append([]byte{}, a[:]...)
	out = append(out, []byte(name)...)
	return append(out, le64(chainID)...)
}

// rawPrefix: the same key as it appears in World.Dump (state-store entry prefix in front).
func rawPrefix(name string, chainID uint64) []byte {
	return append([]byte{byte(scommon.ST_STORAGE)}, hsPrefix(name, chainID)...)
}

func hasPrefix(b, p []byte) bool {
	return len(b) >= len(p) && string(b[:len(p)]) == string(p)
}

// item strips the storage-item wrapper of a raw store value.
func item(v []byte) []byte {
	x, err := states.GetValueFromRawStorageItem(v)
	if err != nil {
		panic(fmt.Sprintf("store value is not a storage item: %x", v))
	}
	return x
}
