package ppow

import (
	"crypto/sha256"
	"encoding/binary"
	"encoding/hex"
	"encoding/json"
	"fmt"
	"math/big"
	"os"
	"strings"
	"testing"

	"github.com/polynetwork/poly/common/verifclock"
	"github.com/polynetwork/poly/native/service/header_sync/eth"
	"github.com/polynetwork/poly/native/service/utils"
	"pgregory.net/rapid"

	"verif/harness/ev"
	"verif/harness/world"
)

// ---------------------------------------------------------------------------------------------
// C27 PoW light client keeps the heaviest valid chain (ETH router, BTC router)

type c27Node struct {
	Back  int    `json:"back"`            // parent = (i-1) - Back mod i   (0 = extends the previous node; node 0 is the root)
	Dt    uint64 `json:"dt"`              // time delta to the parent
	Uncle bool   `json:"uncle,omitempty"` // eth: non-empty uncle hash (raises the child's difficulty)
	Gas   int    `json:"gas,omitempty"`   // eth: gas-limit choice
	Used  int    `json:"used,omitempty"`  // eth: gas-used choice
	Work  int    `json:"work,omitempty"`  // btc: index into the work table
	Bad   string `json:"bad,omitempty"`   // eth: "num-wrap"; btc: "pow", "bits-high", "bits-neg", "bits-zero"
}

type c27Op struct {
	Kind string `json:"kind"` // next | chain | any | list | resub
	K    int    `json:"k,omitempty"`
	L    int    `json:"l,omitempty"`
	Ns   []int  `json:"ns,omitempty"`
}

type c27Case struct {
	Router   string    `json:"router"` // eth | btc
	Net      uint32    `json:"net"`
	RootNum  uint64    `json:"rootNum"`
	RootDiff string    `json:"rootDiff,omitempty"`
	RootGL   uint64    `json:"rootGL,omitempty"`
	RootFee  string    `json:"rootFee,omitempty"`
	NowOff   uint64    `json:"nowOff,omitempty"` // eth: the (fake) wall clock of the run = root time + NowOff
	Nodes    []c27Node `json:"nodes"`
	Ops      []c27Op   `json:"ops"`
}

func parentOf(i int, back int) int { // i >= 1
	return (i - 1) - (back % i)
}

var dtClasses = [][2]uint64{{1, 8}, {9, 17}, {900, 1000}, {18, 200}}

func genC27(t *rapid.T) c27Case {
	c := c27Case{Router: rapid.SampledFrom([]string{"eth", "eth", "btc"}).Draw(t, "router")}
	if r := os.Getenv("PPOW_ROUTER"); r != "" { // development aid (sensitivity runs per router); never set by the driver
		c.Router = r
	}
	maxNodes := 25
	if c.Router == "eth" {
		c.Net = rapid.SampledFrom([]uint32{1, 1, 2}).Draw(t, "net")
		c.RootNum = genSyncRootNum(c.Net).Draw(t, "rootNum")
		if rapid.Bool().Draw(t, "mainnet-sized") {
			c.RootDiff = bigHex(new(big.Int).SetUint64(rapid.Uint64Range(1e15, 2e16).Draw(t, "d")))
		} else {
			c.RootDiff = genDiffHex().Draw(t, "rootDiff")
		}
		c.RootGL = rapid.Uint64Range(5000, 30_000_000).Draw(t, "rootGL")
		c.RootFee = genFeeHex().Draw(t, "rootFee")
		// mostly far ahead of every header; sometimes so close that deep / slow headers lie in the future
		c.NowOff = rapid.OneOf(rapid.Just(uint64(10_000_000)), rapid.Just(uint64(10_000_000)), rapid.Uint64Range(0, 12000)).Draw(t, "nowOff")
	} else {
		c.Net = 2
		c.RootNum = rapid.OneOf(rapid.Uint64Range(0, 5000), rapid.SampledFrom([]uint64{0, 2014, 2015, 2016, 4031, 4032, 1<<32 - 40})).Draw(t, "rootNum")
	}
	n := rapid.IntRange(1, maxNodes).Draw(t, "n")
	// "duel" shape (ETH difficulty moves at most ~5% per block, so a shorter-but-heavier fork needs
	// a long slow branch against a slightly shorter fast one): nodes 1..a slow chain, then a fast
	// chain forking at the root; the slow chain is submitted first.
	duelA := 0
	if rapid.IntRange(0, 3).Draw(t, "duel") == 0 {
		duelA = rapid.IntRange(7, 13).Draw(t, "duelA")
		n = rapid.IntRange(2*duelA-1, maxNodes).Draw(t, "duelN")
	}
	cls := make([]int, n+1)
	cls[0] = rapid.IntRange(0, 3).Draw(t, "cls0")
	for i := 1; i <= n; i++ {
		nd := c27Node{}
		if rapid.IntRange(0, 9).Draw(t, "branch") < 7 {
			nd.Back = 0
		} else {
			nd.Back = rapid.IntRange(0, i-1).Draw(t, "back")
		}
		p := parentOf(i, nd.Back)
		if p != i-1 || rapid.IntRange(0, 9).Draw(t, "recls") < 2 {
			cls[i] = rapid.IntRange(0, 3).Draw(t, "cls")
		} else {
			cls[i] = cls[p]
		}
		if duelA > 0 && i < 2*duelA {
			switch {
			case i <= duelA:
				nd.Back, cls[i] = 0, 2
			case i == duelA+1:
				nd.Back, cls[i] = duelA, 0 // parent = root
			default:
				nd.Back, cls[i] = 0, 0
			}
		}
		r := dtClasses[cls[i]]
		nd.Dt = rapid.Uint64Range(r[0], r[1]).Draw(t, "dt")
		if c.Router == "eth" {
			nd.Uncle = rapid.IntRange(0, 3).Draw(t, "uncle") == 0
			nd.Gas = rapid.IntRange(0, 4).Draw(t, "gas")
			nd.Used = rapid.IntRange(0, 5).Draw(t, "used")
			if rapid.IntRange(0, 24).Draw(t, "bad") == 0 && (duelA == 0 || i >= 2*duelA) {
				nd.Bad = "num-wrap"
			}
		} else {
			nd.Work = rapid.IntRange(0, len(btcBitsTable)-1).Draw(t, "work")
			if rapid.IntRange(0, 11).Draw(t, "bad") == 0 {
				nd.Bad = rapid.SampledFrom([]string{"pow", "pow", "bits-high", "bits-neg", "bits-zero"}).Draw(t, "badkind")
			}
		}
		c.Nodes = append(c.Nodes, nd)
	}
	c.Ops = rapid.SliceOfN(rapid.Custom(func(t *rapid.T) c27Op {
		k := rapid.SampledFrom([]string{"next", "next", "next", "next", "next", "chain", "chain", "any", "any", "list", "resub"}).Draw(t, "kind")
		op := c27Op{Kind: k, K: rapid.IntRange(0, 40).Draw(t, "k")}
		switch k {
		case "chain":
			op.L = rapid.IntRange(2, 6).Draw(t, "l")
		case "list":
			op.Ns = rapid.SliceOfN(rapid.IntRange(0, 40), 1, 5).Draw(t, "ns")
		}
		return op
	}), 1, n+8).Draw(t, "ops")
	if duelA > 0 {
		c.Ops = append([]c27Op{{Kind: "chain", K: 0, L: rapid.IntRange(duelA-2, duelA).Draw(t, "duelFirst")}}, c.Ops...)
	}
	return c
}

// ---- router-independent model ----------------------------------------------------------------

type mNode struct {
	parent  int // -1 for the root
	hash    [32]byte
	own     *big.Int // difficulty / work
	height  *big.Int
	raw     []byte
	silent  bool // btc: invalid header that is skipped without an error
	reject  bool // header the router must refuse with an error
	kind    string // why: "num-wrap" | "future"
	exclude bool // never submitted (known finding excluded by construction)
}

type model struct {
	nodes  []*mNode
	stored map[int]bool
	td     map[int]*big.Int
	head   int
}

func (m *model) clone() *model {
	c := &model{nodes: m.nodes, stored: map[int]bool{}, td: map[int]*big.Int{}, head: m.head}
	for k, v := range m.stored {
		c.stored[k] = v
	}
	for k, v := range m.td {
		c.td[k] = v
	}
	return c
}

// apply processes one batch the way one syncBlockHeader transaction must: sequentially, known
// headers skipped, first-seen heaviest head; any refusal aborts (and rolls back) the whole call.
func (m *model) apply(batch []int) (next *model, ok bool, why string, failNode int) {
	c := m.clone()
	for _, i := range batch {
		nd := c.nodes[i]
		if c.stored[i] {
			continue
		}
		if nd.parent < 0 || !c.stored[nd.parent] {
			return m, false, fmt.Sprintf("node %d: parent %d unknown", i, nd.parent), i
		}
		if nd.reject {
			return m, false, fmt.Sprintf("node %d: invalid header (%s)", i, nd.kind), i
		}
		if nd.silent {
			continue
		}
		c.stored[i] = true
		c.td[i] = new(big.Int).Add(c.td[nd.parent], nd.own)
		if c.td[i].Cmp(c.td[c.head]) > 0 {
			c.head = i
		}
	}
	return c, true, "", -1
}

func (m *model) eligible() []int {
	var out []int
	for i, nd := range m.nodes {
		if i > 0 && !nd.exclude && !m.stored[i] && m.stored[nd.parent] {
			out = append(out, i)
		}
	}
	return out
}

func (m *model) storedList() []int {
	var out []int
	for i := range m.nodes {
		if m.stored[i] {
			out = append(out, i)
		}
	}
	return out
}

func (m *model) resolve(op c27Op) []int {
	n := len(m.nodes)
	switch op.Kind {
	case "next", "chain":
		el := m.eligible()
		if len(el) == 0 {
			st := m.storedList()
			return []int{st[op.K%len(st)]}
		}
		cur := el[op.K%len(el)]
		batch := []int{cur}
		for len(batch) < op.L {
			nxt := -1
			for j := cur + 1; j < n; j++ {
				if m.nodes[j].parent == cur && !m.nodes[j].exclude && !m.stored[j] {
					nxt = j
					break
				}
			}
			if nxt < 0 {
				break
			}
			batch = append(batch, nxt)
			cur = nxt
		}
		return batch
	case "any":
		if n == 1 {
			return []int{0}
		}
		return []int{1 + op.K%(n-1)}
	case "list":
		var out []int
		for _, x := range op.Ns {
			out = append(out, x%n)
		}
		return out
	default: // resub
		st := m.storedList()
		return []int{st[op.K%len(st)]}
	}
}

func (m *model) excludeFilter(batch []int) []int {
	var out []int
	for _, i := range batch {
		if !m.nodes[i].exclude {
			out = append(out, i)
		}
	}
	return out
}

const ethRootTime = 1_550_000_000

const keyEthNumWrap = "eth-header-number-truncated-to-uint64"

// ---- ETH adapter -----------------------------------------------------------------------------

func buildEthTree(ctx *ev.Ctx, c c27Case) (hs []*hdr, nodes []*mNode) {
	r := ethRules{c.Net}
	rootNum := c.RootNum
	if c.Net == 1 && rootNum > mainnetGrayGlacier-40 {
		rootNum = mainnetGrayGlacier - 40
	}
	root := &hdr{Number: bigHex(new(big.Int).SetUint64(rootNum)), Diff: c.RootDiff, GasLimit: c.RootGL, GasUsed: c.RootGL / 3, Time: ethRootTime,
		Uncle: ev.B(emptyUncleHash), Parent: ev.B{0xaa}, Root: ev.B{0xbb}}
	if hexBig(c.RootDiff).Cmp(minimumDifficulty) < 0 {
		root.Diff = bigHex(minimumDifficulty)
	}
	if rootNum >= londonHeight(c.Net) {
		root.setBaseFee(hexBig(c.RootFee))
	}
	hs = []*hdr{root}
	nodes = []*mNode{{parent: -1, hash: refHash(root), own: root.diff(), height: root.number(), raw: headerJSON(root)}}
	wrap := new(big.Int).Lsh(big.NewInt(1), 64)
	for i, nd := range c.Nodes {
		idx := i + 1
		p := parentOf(idx, nd.Back)
		for nodes[p].reject || nodes[p].exclude { // invalid headers stay leaves
			p = nodes[p].parent
		}
		h := r.child(hs[p], c28Step{Dt: nd.Dt, Uncle: nd.Uncle, GasSel: nd.Gas, UsedSel: nd.Used, Extra: idx % 33}, byte(idx))
		mn := &mNode{parent: p}
		if nd.Bad == "num-wrap" {
			// number = parent+1 (mod 2^64) but not parent+1: must be refused
			h.Number = bigHex(new(big.Int).Add(h.number(), wrap))
			mn.reject, mn.kind = true, "num-wrap"
		} else if h.Time > ethRootTime+c.NowOff+15 {
			// more than 15 s ahead of the (fake) wall clock: a future block, must be refused
			mn.reject, mn.kind = true, "future"
		}
		seal(ctx, h)
		mn.hash, mn.own, mn.height, mn.raw = refHash(h), h.diff(), h.number(), headerJSON(h)
		hs = append(hs, h)
		nodes = append(nodes, mn)
	}
	return hs, nodes
}

type ethRec struct {
	h  *hdr
	td *big.Int
}

func strip0x(s string) string { return strings.TrimPrefix(s, "0x") }

func unhex(ctx *ev.Ctx, s string) []byte {
	out, err := hex.DecodeString(strip0x(s))
	if err != nil {
		ctx.Failf("stored header holds a malformed hex member %q", s)
	}
	return out
}

func hexU64(ctx *ev.Ctx, s string) uint64 {
	v := hexBig(strip0x(s))
	if !v.IsUint64() {
		ctx.Failf("stored header member %q exceeds 64 bits", s)
	}
	return v.Uint64()
}

// parseEthStored decodes one HEADER_INDEX value independently of the router's types.
func parseEthStored(ctx *ev.Ctx, v []byte) ethRec {
	var outer struct {
		Header        map[string]string `json:"header"`
		DifficultySum *big.Int          `json:"difficultySum"`
	}
	if err := json.Unmarshal(v, &outer); err != nil || outer.Header == nil || outer.DifficultySum == nil {
		ctx.Failf("stored header record does not parse (%v): %s", err, v)
	}
	m := outer.Header
	h := &hdr{Parent: unhex(ctx, m["parentHash"]), Uncle: unhex(ctx, m["sha3Uncles"]), Coinbase: unhex(ctx, m["miner"]), Root: unhex(ctx, m["stateRoot"]),
		Tx: unhex(ctx, m["transactionsRoot"]), Receipt: unhex(ctx, m["receiptsRoot"]), Bloom: unhex(ctx, m["logsBloom"]),
		Diff: strip0x(m["difficulty"]), Number: strip0x(m["number"]), GasLimit: hexU64(ctx, m["gasLimit"]), GasUsed: hexU64(ctx, m["gasUsed"]),
		Time: hexU64(ctx, m["timestamp"]), Extra: unhex(ctx, m["extraData"]), Mix: unhex(ctx, m["mixHash"]),
		Nonce: binary.BigEndian.Uint64(fixed(unhex(ctx, m["nonce"]), 8))}
	if f, ok := m["baseFeePerGas"]; ok {
		s := strip0x(f)
		h.BaseFee = &s
	}
	return ethRec{h: h, td: outer.DifficultySum}
}

type chainView struct {
	stored  map[[32]byte]*big.Int // hash -> total difficulty / work
	parent  map[[32]byte][32]byte
	height  map[[32]byte]*big.Int
	own     map[[32]byte]*big.Int
	index   map[uint64][32]byte // canonical index (raw store)
	current uint64              // height the router reports as head height
	headTD  *big.Int
}

// parsed records are memoised per raw value within a case (the store is re-read after every call)
type ethMemo map[string]ethRec

func readEthStore(ctx *ev.Ctx, w *world.World, memo ethMemo) *chainView {
	cv := &chainView{stored: map[[32]byte]*big.Int{}, parent: map[[32]byte][32]byte{}, height: map[[32]byte]*big.Int{}, own: map[[32]byte]*big.Int{},
		index: map[uint64][32]byte{}}
	pIdx, pMain, pCur := rawPrefix("headerIndex", ethChainID), rawPrefix("mainChain", ethChainID), rawPrefix("currentHeaderHeight", ethChainID)
	haveCur := false
	for _, kv := range w.Dump() {
		k, v := kv[0], kv[1]
		switch {
		case hasPrefix(k, pIdx) && len(k) == len(pIdx)+32:
			var hash [32]byte
			copy(hash[:], k[len(pIdx):])
			rec, seen := memo[string(k)+string(v)]
			if !seen {
				rec = parseEthStored(ctx, item(v))
				if got := refHash(rec.h); got != hash {
					ctx.Failf("header stored under key %x hashes (keccak256 of the RLP of its stored fields) to %x", hash, got)
				}
				memo[string(k)+string(v)] = rec
			}
			cv.stored[hash] = rec.td
			var ph [32]byte
			copy(ph[:], fixed(rec.h.Parent, 32))
			cv.parent[hash], cv.height[hash], cv.own[hash] = ph, rec.h.number(), rec.h.diff()
		case hasPrefix(k, pMain) && len(k) == len(pMain)+8:
			var hash [32]byte
			copy(hash[:], item(v))
			cv.index[binary.LittleEndian.Uint64(k[len(pMain):])] = hash
		case string(k) == string(pCur):
			cv.current = binary.LittleEndian.Uint64(item(v))
			haveCur = true
		}
	}
	if !haveCur {
		ctx.Failf("CURRENT_HEADER_HEIGHT missing from the store")
	}
	// the exported getters must agree with the raw store
	if h, err := eth.GetCurrentHeaderHeight(w.Service(), ethChainID); err != nil || h != cv.current {
		ctx.Failf("GetCurrentHeaderHeight = %d,%v; raw store %d", h, err, cv.current)
	}
	return cv
}

// checkInvariants is the statement of C27 evaluated on the raw store content.
func checkInvariants(ctx *ev.Ctx, cv *chainView, rootHash [32]byte, rootHeight uint64, strictIndex bool, what string) {
	for h, td := range cv.stored {
		if h == rootHash {
			continue
		}
		p := cv.parent[h]
		ptd, ok := cv.stored[p]
		if !ok {
			ctx.Failf("%s: stored header %x has no stored parent %x", what, h, p)
		}
		if want := new(big.Int).Add(cv.height[p], big.NewInt(1)); cv.height[h].Cmp(want) != 0 {
			ctx.Failf("%s: stored header %x has height %v, its parent %v", what, h, cv.height[h], cv.height[p])
		}
		if want := new(big.Int).Add(ptd, cv.own[h]); td.Cmp(want) != 0 {
			ctx.Failf("%s: stored header %x has total difficulty %v, parent's %v + own %v = %v", what, h, td, ptd, cv.own[h], want)
		}
	}
	if cv.current < rootHeight {
		ctx.Failf("%s: head height %d below the trust root %d", what, cv.current, rootHeight)
	}
	if got, ok := cv.index[rootHeight]; !ok || got != rootHash {
		ctx.Failf("%s: canonical index at the root height %d is %x, trust root %x", what, rootHeight, got, rootHash)
	}
	for ht := rootHeight; ; ht++ {
		hash, ok := cv.index[ht]
		if !ok {
			ctx.Failf("%s: canonical index has a gap at height %d (root %d, head %d)", what, ht, rootHeight, cv.current)
		}
		if _, ok := cv.stored[hash]; !ok {
			ctx.Failf("%s: canonical index at height %d names %x which is not stored", what, ht, hash)
		}
		if !cv.height[hash].IsUint64() || cv.height[hash].Uint64() != ht {
			ctx.Failf("%s: canonical index at height %d names a header of height %v", what, ht, cv.height[hash])
		}
		if ht > rootHeight && cv.parent[hash] != cv.index[ht-1] {
			ctx.Failf("%s: canonical index not parent-linked at height %d: parent %x, index[%d] = %x", what, ht, cv.parent[hash], ht-1, cv.index[ht-1])
		}
		if ht == cv.current {
			cv.headTD = cv.stored[hash]
			break
		}
	}
	for h, td := range cv.stored {
		if td.Cmp(cv.headTD) > 0 {
			ctx.Failf("%s: stored header %x (height %v) has total difficulty %v above the head's %v (head height %d)", what, h, cv.height[h], td, cv.headTD, cv.current)
		}
	}
	stale := 0
	for ht := range cv.index {
		if ht > cv.current || ht < rootHeight {
			stale++
		}
	}
	if stale > 0 {
		if strictIndex {
			ctx.Failf("%s: canonical index holds %d entries outside [root %d, head %d]", what, stale, rootHeight, cv.current)
		}
		// ETH: RestructChain never deletes; entries above the head are unreachable through
		// GetHeaderByHeight (guarded by the head height). Counted, not judged.
		ctx.Label("eth:index-entries-above-head(unreachable, not judged)")
	}
}

func compareWithModel(ctx *ev.Ctx, cv *chainView, m *model, what string) {
	want := map[[32]byte]int{}
	for i := range m.nodes {
		if m.stored[i] {
			want[m.nodes[i].hash] = i
		}
	}
	for h := range cv.stored {
		if _, ok := want[h]; !ok {
			ctx.Failf("%s: router stores header %x that must not be stored (unknown to the reference model)", what, h)
		}
	}
	for h, i := range want {
		td, ok := cv.stored[h]
		if !ok {
			ctx.Failf("%s: valid header node %d (%x, height %v) was submitted with its parent known but is not stored", what, i, h, m.nodes[i].height)
		}
		if i != 0 && td.Cmp(m.td[i]) != 0 {
			ctx.Failf("%s: node %d total difficulty %v, reference %v", what, i, td, m.td[i])
		}
	}
	head := cv.index[cv.current]
	if head != m.nodes[m.head].hash {
		hi, ok := want[head]
		if ok && m.td[hi].Cmp(m.td[m.head]) == 0 {
			ctx.Failf("%s: head is node %d but node %d reached the same total difficulty %v first (first-seen must win ties)", what, hi, m.head, m.td[m.head])
		}
		ctx.Failf("%s: head is %x (node %d), reference head node %d %x with total difficulty %v", what, head, hi, m.head, m.nodes[m.head].hash, m.td[m.head])
	}
}

// ---- BTC adapter -----------------------------------------------------------------------------

const btcChainID = 1

// compact targets on regtest (pow limit 2^255-1) and the expected work 2^256/(target+1)
var btcBitsTable = []uint32{0x207fffff, 0x207fffff, 0x203fffff, 0x201fffff, 0x200fffff, 0x2007ffff, 0x2003ffff, 0x1f7fffff}

type btcHdr struct {
	Version int32
	Prev    [32]byte
	Merkle  [32]byte
	Time    uint32
	Bits    uint32
	Nonce   uint32
}

func (h *btcHdr) bytes() []byte {
	b := make([]byte, 80)
	binary.LittleEndian.PutUint32(b[0:], uint32(h.Version))
	copy(b[4:], h.Prev[:])
	copy(b[36:], h.Merkle[:])
	binary.LittleEndian.PutUint32(b[68:], h.Time)
	binary.LittleEndian.PutUint32(b[72:], h.Bits)
	binary.LittleEndian.PutUint32(b[76:], h.Nonce)
	return b
}

func dsha(b []byte) [32]byte {
	a := sha256.Sum256(b)
	return sha256.Sum256(a[:])
}

func (h *btcHdr) hash() [32]byte { return dsha(h.bytes()) }

// compactTarget: Bitcoin "nBits": mantissa 23 bits, sign bit 0x00800000, exponent in the top byte.
func compactTarget(bits uint32) (t *big.Int, negative bool) {
	mant := int64(bits & 0x007fffff)
	exp := uint(bits >> 24)
	if exp <= 3 {
		t = big.NewInt(mant >> (8 * (3 - exp)))
	} else {
		t = new(big.Int).Lsh(big.NewInt(mant), 8*(exp-3))
	}
	return t, bits&0x00800000 != 0 && t.Sign() != 0
}

var regtestPowLimit = new(big.Int).Sub(new(big.Int).Lsh(big.NewInt(1), 255), big.NewInt(1))

func btcWork(bits uint32) *big.Int {
	t, neg := compactTarget(bits)
	if neg || t.Sign() <= 0 {
		return new(big.Int)
	}
	return new(big.Int).Quo(new(big.Int).Lsh(big.NewInt(1), 256), new(big.Int).Add(t, big.NewInt(1)))
}

func hashLE(h [32]byte) *big.Int {
	var r [32]byte
	for i := range h {
		r[31-i] = h[i]
	}
	return new(big.Int).SetBytes(r[:])
}

func buildBtcTree(c c27Case) (hs []*btcHdr, nodes []*mNode, rootRaw []byte) {
	root := &btcHdr{Version: 1, Time: 1_500_000_000, Bits: 0x207fffff, Nonce: 7}
	root.Merkle[0] = 0xee
	rootHeight := uint32(c.RootNum)
	rootRaw = append(root.bytes(), 0, 0, 0, 0)
	binary.BigEndian.PutUint32(rootRaw[80:], rootHeight)
	hs = []*btcHdr{root}
	nodes = []*mNode{{parent: -1, hash: root.hash(), own: new(big.Int), height: new(big.Int).SetUint64(uint64(rootHeight)), raw: root.bytes()}}
	for i, nd := range c.Nodes {
		idx := i + 1
		p := parentOf(idx, nd.Back)
		for nodes[p].silent {
			p = nodes[p].parent
		}
		h := &btcHdr{Version: 0x20000000, Prev: hs[p].hash(), Time: hs[p].Time + uint32(nd.Dt), Bits: btcBitsTable[nd.Work%len(btcBitsTable)]}
		h.Merkle[0], h.Merkle[1] = byte(idx), 0x5a
		mn := &mNode{parent: p, height: new(big.Int).Add(nodes[p].height, big.NewInt(1))}
		switch nd.Bad {
		case "bits-high":
			h.Bits = 0x2100ffff // target above the regtest pow limit
			mn.silent = true
		case "bits-neg":
			h.Bits = 0x20800001
			mn.silent = true
		case "bits-zero":
			h.Bits = 0x20000000
			mn.silent = true
		}
		target, _ := compactTarget(h.Bits)
		wantValid := nd.Bad == ""
		if nd.Bad == "pow" {
			mn.silent = true
		}
		if nd.Bad == "" || nd.Bad == "pow" {
			for n := uint32(0); ; n++ {
				h.Nonce = n
				if (hashLE(h.hash()).Cmp(target) <= 0) == wantValid {
					break
				}
			}
		}
		mn.hash, mn.own, mn.raw = h.hash(), btcWork(h.Bits), h.bytes()
		hs = append(hs, h)
		nodes = append(nodes, mn)
	}
	return hs, nodes, rootRaw
}

func readBtcStore(ctx *ev.Ctx, w *world.World) *chainView {
	cv := &chainView{stored: map[[32]byte]*big.Int{}, parent: map[[32]byte][32]byte{}, height: map[[32]byte]*big.Int{}, own: map[[32]byte]*big.Int{},
		index: map[uint64][32]byte{}}
	pHdr, pIdx, pBest := rawPrefix("blockHeader", btcChainID), rawPrefix("headerIndex", btcChainID), rawPrefix("currentHeaderHeight", btcChainID)
	parse := func(v []byte) (h btcHdr, height uint32, work *big.Int) {
		// varbytes(80) | u32 height | varbytes(32) total work, big endian
		if len(v) != 1+80+4+1+32 || v[0] != 80 || v[85] != 32 {
			ctx.Failf("stored BTC header record has an unexpected layout: %x", v)
		}
		b := v[1:81]
		h.Version = int32(binary.LittleEndian.Uint32(b[0:]))
		copy(h.Prev[:], b[4:36])
		copy(h.Merkle[:], b[36:68])
		h.Time, h.Bits, h.Nonce = binary.LittleEndian.Uint32(b[68:]), binary.LittleEndian.Uint32(b[72:]), binary.LittleEndian.Uint32(b[76:])
		return h, binary.LittleEndian.Uint32(v[81:85]), new(big.Int).SetBytes(v[86:])
	}
	var best *btcHdr
	var bestWork *big.Int
	for _, kv := range w.Dump() {
		k, v := kv[0], kv[1]
		switch {
		case hasPrefix(k, pHdr) && len(k) == len(pHdr)+32:
			var hash [32]byte
			copy(hash[:], k[len(pHdr):])
			h, height, work := parse(item(v))
			if h.hash() != hash {
				ctx.Failf("BTC header stored under %x hashes to %x", hash, h.hash())
			}
			cv.stored[hash], cv.parent[hash], cv.height[hash], cv.own[hash] = work, h.Prev, new(big.Int).SetUint64(uint64(height)), btcWork(h.Bits)
		case hasPrefix(k, pIdx) && len(k) == len(pIdx)+4:
			var hash [32]byte
			copy(hash[:], item(v))
			cv.index[uint64(binary.LittleEndian.Uint32(k[len(pIdx):]))] = hash
		case string(k) == string(pBest):
			h, height, work := parse(item(v))
			best, bestWork = &h, work
			cv.current = uint64(height)
		}
	}
	if best == nil {
		ctx.Failf("BTC best-header record missing")
	}
	if got, ok := cv.index[cv.current]; !ok || got != best.hash() {
		ctx.Failf("BTC best header %x (height %d) differs from the canonical index entry %x", best.hash(), cv.current, got)
	}
	if w2, ok := cv.stored[best.hash()]; !ok || w2.Cmp(bestWork) != 0 {
		ctx.Failf("BTC best-header record (work %v) disagrees with the stored header (work %v, stored %v)", bestWork, w2, ok)
	}
	return cv
}

// every stored non-root BTC header carries a valid proof of work for its own target
func checkBtcPow(ctx *ev.Ctx, w *world.World, rootHash [32]byte) {
	pHdr := rawPrefix("blockHeader", btcChainID)
	for _, kv := range w.Dump() {
		k := kv[0]
		if !hasPrefix(k, pHdr) || len(k) != len(pHdr)+32 {
			continue
		}
		var hash [32]byte
		copy(hash[:], k[len(pHdr):])
		if hash == rootHash {
			continue
		}
		v := item(kv[1])
		bits := binary.LittleEndian.Uint32(v[1+72:])
		target, neg := compactTarget(bits)
		if neg || target.Sign() <= 0 || target.Cmp(regtestPowLimit) > 0 || hashLE(hash).Cmp(target) > 0 {
			ctx.Failf("stored BTC header %x does not satisfy its proof-of-work target (bits %08x)", hash, bits)
		}
	}
}

// restoreStore rewrites the block-layer overlay so that the visible state equals `before`.
func restoreStore(w *world.World, before [][2][]byte) {
	w.Cache.Reset()
	bm := map[string][]byte{}
	for _, kv := range before {
		bm[string(kv[0])] = kv[1]
	}
	for _, kv := range w.Dump() {
		old, ok := bm[string(kv[0])]
		switch {
		case !ok:
			w.Overlay.Delete(kv[0])
		case string(old) != string(kv[1]):
			w.Overlay.Put(kv[0], old)
		}
		delete(bm, string(kv[0]))
	}
	for k, v := range bm {
		w.Overlay.Put([]byte(k), v)
	}
	if d := world.DiffDump(before, w.Dump()); d != "" {
		panic("harness: could not restore the store: " + d)
	}
}

// ---- runner ----------------------------------------------------------------------------------

func runC27(ctx *ev.Ctx, c c27Case) {
	ctx.Label("router:" + c.Router)
	var (
		w        *world.World
		nodes    []*mNode
		chainID  uint64
		read     func() *chainView
		rootH    uint64
		strictIx bool
	)
	switch c.Router {
	case "eth":
		restore := sealSwitch()
		defer restore()
		verifclock.SetFake(int64(ethRootTime + c.NowOff))
		defer verifclock.ClearFake()
		w = newWorldWithChain(c.Net, ethChainID, utils.ETH_ROUTER, []byte{0xcc, 0x01})
		_, nodes = buildEthTree(ctx, c)
		chainID = ethChainID
		memo := ethMemo{}
		read = func() *chainView { return readEthStore(ctx, w, memo) }
		rootH = nodes[0].height.Uint64()
		if res := syncGenesis(w, chainID, nodes[0].raw); !res.OK() {
			ctx.Failf("fixture: ETH syncGenesisHeader by the operator failed: %v", res.Err)
		}
	case "btc":
		ccmc := make([]byte, 8)
		binary.LittleEndian.PutUint64(ccmc, uint64(utils.TyRegtest))
		w = newWorldWithChain(c.Net, btcChainID, utils.BTC_ROUTER, ccmc)
		var rootRaw []byte
		_, nodes, rootRaw = buildBtcTree(c)
		chainID = btcChainID
		read = func() *chainView { return readBtcStore(ctx, w) }
		rootH = nodes[0].height.Uint64()
		strictIx = true
		if res := syncGenesis(w, chainID, rootRaw); !res.OK() {
			ctx.Failf("fixture: BTC syncGenesisHeader by the operator failed: %v", res.Err)
		}
	default:
		ctx.Failf("harness: unknown router %q", c.Router)
	}
	m := &model{nodes: nodes, stored: map[int]bool{0: true}, td: map[int]*big.Int{0: new(big.Int).Set(nodes[0].own)}, head: 0}
	if c.Router == "btc" {
		m.td[0] = new(big.Int)
	}
	rootHash := nodes[0].hash
	cv := read()
	checkInvariants(ctx, cv, rootHash, rootH, strictIx, "after genesis")
	compareWithModel(ctx, cv, m, "after genesis")

	reorgDiffLen, reorgs := false, 0
	for oi, op := range c.Ops {
		batch := m.excludeFilter(m.resolve(op))
		if len(batch) == 0 {
			ctx.Label("op:excluded-known-class")
			continue
		}
		what := fmt.Sprintf("op %d (%s %v)", oi, op.Kind, batch)
		next, ok, why, failNode := m.apply(batch)
		raws := make([][]byte, len(batch))
		for i, b := range batch {
			raws[i] = nodes[b].raw
		}
		before := w.Dump()
		res := syncHeaders(w, chainID, raws)
		if res.Panic != "" {
			ctx.Failf("%s: SyncBlockHeader panicked: %s", what, res.Panic)
		}
		if !ok {
			// orphan / invalid header inside the call: the call must fail and leave nothing behind
			if res.Err == nil {
				if wrapNode := failNode; strings.Contains(why, "invalid header (num-wrap)") {
					ctx.Known(keyEthNumWrap, "%s: header with number = parent+1+2^64 (%v on parent %v) was accepted: the height test compares Number.Uint64()",
						what, nodes[wrapNode].height, nodes[nodes[wrapNode].parent].height)
					// known finding: put the store back to the state before the call (what a refusal
					// would have left) so that the search continues behind it
					restoreStore(w, before)
					ctx.Label("eth:number-wrap-accepted(known finding, call undone)")
					nodes[wrapNode].exclude = true // observed once per case; not offered again
					continue
				}
				ctx.Failf("%s: call succeeded although %s", what, why)
			}
			if d := world.DiffDump(before, w.Dump()); d != "" {
				ctx.Failf("%s: refused call (%s) changed the store: %s", what, why, d)
			}
			if strings.Contains(why, "invalid header") {
				ctx.Label("op:refused(invalid:" + nodes[failNode].kind + ")")
			} else {
				ctx.Label("op:refused(orphan)")
			}
			continue
		}
		if res.Err != nil {
			ctx.Failf("%s: call with only valid / known headers (parents known) was refused: %v", what, res.Err)
		}
		changed := len(next.stored) != len(m.stored)
		if !changed {
			// only known headers (re-submission) or silently skipped invalid ones: nothing may change
			if d := world.DiffDump(before, w.Dump()); d != "" {
				ctx.Failf("%s: re-submitting known headers changed the store: %s", what, d)
			}
			ctx.Label("op:no-op(resubmission/skipped)")
		} else {
			ctx.Label("op:stored")
		}
		if next.head != m.head && nodes[next.head].parent != m.head {
			reorgs++
			switch nodes[next.head].height.Cmp(nodes[m.head].height) {
			case 1:
				ctx.Label(c.Router + ":reorg:to-longer")
				reorgDiffLen = true
			case -1:
				ctx.Label(c.Router + ":reorg:to-shorter-heavier")
				reorgDiffLen = true
			default:
				ctx.Label(c.Router + ":reorg:same-length")
			}
		}
		m = next
		cv = read()
		checkInvariants(ctx, cv, rootHash, rootH, strictIx, what)
		compareWithModel(ctx, cv, m, what)
		if c.Router == "btc" {
			checkBtcPow(ctx, w, rootHash)
		}
	}
	if reorgDiffLen {
		ctx.NonTrivial()
	}
	if reorgs == 0 {
		ctx.Label(c.Router + ":history:no-reorg")
	}
	// ties: two stored headers with the head's total difficulty
	ties := 0
	for i := range m.nodes {
		if m.stored[i] && m.td[i].Cmp(m.td[m.head]) == 0 {
			ties++
		}
	}
	if ties > 1 {
		ctx.Label(c.Router + ":history:tie-at-head")
	}
}

func TestC27(t *testing.T) {
	verifclock.Reset()
	defer func() { ev.Get("C27").Extra("clock_sites", verifclock.Snapshot()) }()
	ev.Drive(t, "C27",
		"cases: a block tree of 1..25 headers over a trust root (70% chain continuation, otherwise a fork from any earlier node; per-branch fast/slow block "+
			"times so that a shorter branch can be heavier; BTC: per-header work 2..512 on regtest with real proof of work, plus headers with bad proof of work / "+
			"out-of-range targets; ETH: specification-valid difficulty, gas and base-fee fields, ethash threshold switched off, trees crossing London / Arrow Glacier), "+
			"submitted as a generated history of calls: next eligible header, chains in one call, arbitrary (orphan / children-first) headers, mixed lists, re-submissions. "+
			"After every call the raw store is re-read and the statement is evaluated; the stored set, totals and head are also compared with a reference model "+
			"(all-or-nothing calls, first-seen heaviest head). non-trivial: history containing a reorganisation to a fork of different length; distinct by JSON encoding",
		genC27, runC27)
}
