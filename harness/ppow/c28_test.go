package ppow

import (
	"bytes"
	"encoding/json"
	"fmt"
	"math/big"
	"os"
	"testing"

	ethcommon "github.com/ethereum/go-ethereum/common"
	gethash "github.com/ethereum/go-ethereum/consensus/ethash"
	"github.com/ethereum/go-ethereum/core/types"
	"github.com/ethereum/go-ethereum/params"
	"github.com/polynetwork/poly/common/verifclock"
	"github.com/polynetwork/poly/native/service/header_sync/eth"
	"github.com/polynetwork/poly/native/service/utils"
	"pgregory.net/rapid"

	"verif/harness/ev"
	"verif/harness/world"
)

// ---------------------------------------------------------------------------------------------
// C28 Ethereum header rules match the Ethereum specification

type c28Diff struct {
	ParentTime uint64 `json:"ptime"`
	Dt         uint64 `json:"dt"`
	ParentDiff string `json:"pdiff"`
	ParentNum  uint64 `json:"pnum"`
	Uncles     bool   `json:"uncles"`
}

type c28Gas struct {
	Parent uint64 `json:"parent"`
	Limit  uint64 `json:"limit"`
}

type c28Fee struct {
	Net        uint32  `json:"net"`
	ParentNum  uint64  `json:"pnum"`
	ParentGL   uint64  `json:"pgl"`
	ParentUsed uint64  `json:"pused"`
	ParentFee  *string `json:"pfee,omitempty"`
	ChildGL    uint64  `json:"cgl"`
	ChildFee   *string `json:"cfee,omitempty"`
}

type c28Sizes struct {
	Epoch uint64 `json:"epoch"`
	N     int    `json:"n"`
}

type c28Step struct {
	Dt      uint64 `json:"dt"`
	Uncle   bool   `json:"uncle,omitempty"`
	GasSel  int    `json:"gas"`  // 0 lowest valid, 1 parent-1, 2 parent, 3 parent+1, 4 highest valid
	UsedSel int    `json:"used"` // 0 zero, 1 below target, 2 target, 3 above target, 4 full, 5 target+1
	Extra   int    `json:"extra"`
}

type c28Sync struct {
	Net      uint32    `json:"net"`
	RootNum  uint64    `json:"rootNum"`
	RootDiff string    `json:"rootDiff"`
	RootGL   uint64    `json:"rootGL"`
	RootUsed int       `json:"rootUsed"`
	RootFee  string    `json:"rootFee"`
	RootTime uint64    `json:"rootTime"`
	RootUnc  bool      `json:"rootUncle,omitempty"`
	Steps    []c28Step `json:"steps"`
	MutAt    int       `json:"mutAt"`
	Mut      string    `json:"mut"`
	MutArg   int       `json:"mutArg"`
	NowSlack int       `json:"nowSlack"` // (fake) wall clock of the run = time of the last valid header + NowSlack (>= -15)
}

type c28Case struct {
	Mode string    `json:"mode"`
	H    *hdr      `json:"h,omitempty"`
	D    *c28Diff  `json:"d,omitempty"`
	G    *c28Gas   `json:"g,omitempty"`
	F    *c28Fee   `json:"f,omitempty"`
	S    *c28Sizes `json:"s,omitempty"`
	Y    *c28Sync  `json:"y,omitempty"`
}

// ---- generators ------------------------------------------------------------------------------

func genU64Edge() *rapid.Generator[uint64] {
	return rapid.OneOf(
		rapid.SampledFrom([]uint64{0, 1, 0x7f, 0x80, 0xff, 0x100, 0xffff, 0x10000, 1<<32 - 1, 1 << 32, 1<<56 - 1, 1 << 56, 1<<63 - 1, 1 << 63, 1<<64 - 1}),
		rapid.Uint64(),
		rapid.Uint64Range(0, 100000),
	)
}

func genBigHex(maxBits int) *rapid.Generator[string] {
	return rapid.Custom(func(t *rapid.T) string {
		switch rapid.IntRange(0, 4).Draw(t, "bigkind") {
		case 0:
			return bigHex(new(big.Int).SetUint64(genU64Edge().Draw(t, "u")))
		case 4: // wider than 64 bits with a bit length that is a whole number of bytes (72, 80, .., maxBits) or one off
			if maxBits < 72 {
				return "0"
			}
			bits := 8 * rapid.IntRange(9, maxBits/8).Draw(t, "bytes")
			v := new(big.Int).Lsh(big.NewInt(1), uint(bits-1)) // bit length == bits
			switch rapid.IntRange(0, 2).Draw(t, "shape") {
			case 1:
				v.Sub(new(big.Int).Lsh(big.NewInt(1), uint(bits)), big.NewInt(1)) // all ones
			case 2:
				v.Sub(v, big.NewInt(1)) // bit length bits-1
			}
			return bigHex(v)
		case 1:
			bits := rapid.IntRange(0, maxBits).Draw(t, "bits")
			v := new(big.Int).Lsh(big.NewInt(1), uint(bits))
			v.Add(v, big.NewInt(int64(rapid.IntRange(-1, 1).Draw(t, "off"))))
			if v.Sign() < 0 {
				v.SetInt64(0)
			}
			if v.BitLen() > maxBits {
				v.Rsh(v, 1)
			}
			return bigHex(v)
		default:
			n := rapid.IntRange(0, maxBits/8).Draw(t, "nbytes")
			b := rapid.SliceOfN(rapid.Byte(), n, n).Draw(t, "b")
			return bigHex(new(big.Int).SetBytes(b))
		}
	})
}

func genHash32(label string) *rapid.Generator[ev.B] {
	return rapid.Custom(func(t *rapid.T) ev.B {
		if rapid.IntRange(0, 5).Draw(t, label+"-zero") == 0 {
			return ev.B(make([]byte, 32))
		}
		return ev.B(rapid.SliceOfN(rapid.Byte(), 32, 32).Draw(t, label))
	})
}

func genHdr(t *rapid.T) *hdr {
	h := &hdr{
		Parent: genHash32("parent").Draw(t, "parent"), Coinbase: ev.B(rapid.SliceOfN(rapid.Byte(), 20, 20).Draw(t, "coinbase")),
		Root: genHash32("root").Draw(t, "root"), Tx: genHash32("tx").Draw(t, "tx"), Receipt: genHash32("rc").Draw(t, "rc"),
		Bloom: ev.B(rapid.SliceOfN(rapid.Byte(), 0, 12).Draw(t, "bloom")),
		Diff:  genBigHex(256).Draw(t, "diff"), Number: genBigHex(256).Draw(t, "number"),
		GasLimit: genU64Edge().Draw(t, "gl"), GasUsed: genU64Edge().Draw(t, "gu"), Time: genU64Edge().Draw(t, "time"),
		Mix: genHash32("mix").Draw(t, "mix"), Nonce: genU64Edge().Draw(t, "nonce"),
	}
	if rapid.Bool().Draw(t, "emptyUncles") {
		h.Uncle = ev.B(emptyUncleHash)
	} else {
		h.Uncle = genHash32("uncle").Draw(t, "uncle")
	}
	switch rapid.IntRange(0, 4).Draw(t, "extrakind") {
	case 0:
		h.Extra = nil
	case 1:
		h.Extra = ev.B{rapid.Byte().Draw(t, "x1")}
	case 2:
		n := rapid.SampledFrom([]int{2, 31, 32, 33, 55, 56, 57, 80}).Draw(t, "xn")
		h.Extra = ev.B(rapid.SliceOfN(rapid.Byte(), n, n).Draw(t, "xb"))
	default:
		h.Extra = ev.B(rapid.SliceOfN(rapid.Byte(), 0, 32).Draw(t, "xb"))
	}
	if rapid.Bool().Draw(t, "hasFee") {
		s := genBigHex(256).Draw(t, "fee")
		h.BaseFee = &s
	}
	return h
}

var fakerEthash = gethash.NewFaker()

var bombDelays = []uint64{delayMuirGlacier, delayLondon, delayArrowGlacier}

func genParentNumber() *rapid.Generator[uint64] {
	return rapid.Custom(func(t *rapid.T) uint64 {
		switch rapid.IntRange(0, 3).Draw(t, "numkind") {
		case 0: // within 2 of a bomb period boundary of one of the delays: parent+1-delay = k*100000
			d := rapid.SampledFrom(bombDelays).Draw(t, "delay")
			k := uint64(rapid.IntRange(0, 70).Draw(t, "k"))
			off := uint64(rapid.IntRange(0, 4).Draw(t, "off"))
			return d - 1 + k*100000 + off - 2
		case 1:
			return rapid.Uint64Range(0, 20_000_000).Draw(t, "num")
		case 2:
			return rapid.SampledFrom([]uint64{0, 1, 8_999_998, 8_999_999, 9_000_000, 9_199_999, 9_699_998, 9_699_999, 9_700_000,
				10_699_998, 10_699_999, 10_700_000, 12_964_999, 12_965_000, 13_772_999, 13_773_000}).Draw(t, "num")
		default:
			return rapid.Uint64Range(9_000_000, 16_000_000).Draw(t, "num")
		}
	})
}

func genDt() *rapid.Generator[uint64] {
	return rapid.OneOf(
		rapid.Uint64Range(1, 30),
		rapid.Uint64Range(1, 1000),
		rapid.Uint64Range(880, 930), // around the -99 clamp: dt/9 reaches 100 (no uncles) / 101 (uncles)
		rapid.SampledFrom([]uint64{1, 8, 9, 10, 17, 18, 19, 890, 891, 899, 900, 901, 908, 909, 910, 917, 918, 919, 1 << 20, 1 << 40, 1 << 61}),
	)
}

func genDiffHex() *rapid.Generator[string] {
	return rapid.Custom(func(t *rapid.T) string {
		switch rapid.IntRange(0, 4).Draw(t, "dkind") {
		case 0:
			return bigHex(new(big.Int).SetUint64(rapid.Uint64Range(131072, 131072+4096).Draw(t, "d")))
		case 1:
			return bigHex(new(big.Int).SetUint64(rapid.Uint64Range(131072, 1<<40).Draw(t, "d")))
		case 2: // around multiples of 2048
			k := rapid.Uint64Range(64, 1<<30).Draw(t, "k")
			off := rapid.Uint64Range(0, 2).Draw(t, "off")
			return bigHex(new(big.Int).SetUint64(k*2048 + off - 1))
		case 3:
			bits := rapid.IntRange(18, 70).Draw(t, "bits")
			v := new(big.Int).Lsh(big.NewInt(1), uint(bits))
			v.Add(v, new(big.Int).SetUint64(rapid.Uint64Range(0, 5000).Draw(t, "lo")))
			return bigHex(v)
		default: // main-net sized
			return bigHex(new(big.Int).SetUint64(rapid.Uint64Range(1e15, 2e16).Draw(t, "d")))
		}
	})
}

func genGasParent() *rapid.Generator[uint64] {
	return rapid.OneOf(
		rapid.Uint64Range(5000, 6200),
		rapid.Uint64Range(5000, 40_000_000),
		rapid.SampledFrom([]uint64{5000, 5119, 5120, 5121, 1024 * 1024, 1024*1024 - 1, 8_000_000, 12_500_000, 15_000_000, 30_000_000, 1<<62 - 1}),
		rapid.Uint64Range(1<<40, 1<<62-1),
	)
}

// gas limit around the edge of the allowed window of parentEff
func genGasChild(t *rapid.T, parentEff uint64) uint64 {
	bound := parentEff / 1024
	switch rapid.IntRange(0, 5).Draw(t, "glkind") {
	case 0:
		return parentEff + bound - uint64(rapid.IntRange(0, 2).Draw(t, "o")) + 1 // bound+1, bound, bound-1 above
	case 1:
		d := bound + 1 - uint64(rapid.IntRange(0, 2).Draw(t, "o"))
		if d > parentEff {
			return 0
		}
		return parentEff - d
	case 2:
		return parentEff
	case 3:
		return rapid.Uint64Range(4990, 5010).Draw(t, "gl")
	case 4:
		lo := parentEff - bound
		return rapid.Uint64Range(lo, parentEff+bound).Draw(t, "gl")
	default:
		return rapid.Uint64Range(0, 1<<63-1).Draw(t, "gl")
	}
}

func genFeeHex() *rapid.Generator[string] {
	return rapid.Custom(func(t *rapid.T) string {
		switch rapid.IntRange(0, 3).Draw(t, "fkind") {
		case 0:
			return bigHex(new(big.Int).SetUint64(rapid.SampledFrom([]uint64{0, 1, 2, 7, 8, 9, 15, 16, 1_000_000_000, 875_000_000}).Draw(t, "f")))
		case 1:
			return bigHex(new(big.Int).SetUint64(rapid.Uint64Range(0, 100).Draw(t, "f")))
		case 2:
			return bigHex(new(big.Int).SetUint64(rapid.Uint64Range(1e8, 1e12).Draw(t, "f")))
		default:
			bits := rapid.IntRange(0, 70).Draw(t, "bits")
			v := new(big.Int).Lsh(big.NewInt(1), uint(bits))
			v.Add(v, new(big.Int).SetUint64(rapid.Uint64Range(0, 1000).Draw(t, "lo")))
			return bigHex(v)
		}
	})
}

func usedFromSel(sel int, gasLimit uint64) uint64 {
	target := gasLimit / 2
	switch sel {
	case 0:
		return 0
	case 1:
		return target / 2
	case 2:
		return target
	case 3:
		return target + (gasLimit-target)/2
	case 4:
		return gasLimit
	default:
		if target+1 <= gasLimit {
			return target + 1
		}
		return target
	}
}

func genSyncRootNum(net uint32) *rapid.Generator[uint64] {
	return rapid.Custom(func(t *rapid.T) uint64 {
		kind := rapid.IntRange(0, 3).Draw(t, "rootkind")
		if net == 1 {
			switch kind {
			case 0:
				return mainnetLondon - 4 + uint64(rapid.IntRange(0, 6).Draw(t, "o"))
			case 1:
				return mainnetArrowGlacier - 4 + uint64(rapid.IntRange(0, 6).Draw(t, "o"))
			case 2: // bomb period boundaries inside the claimed eras
				d := rapid.SampledFrom(bombDelays).Draw(t, "delay")
				k := uint64(rapid.IntRange(0, 60).Draw(t, "k"))
				n := d - 1 + k*100000 - 2 + uint64(rapid.IntRange(0, 3).Draw(t, "o"))
				if n < mainnetMuirGlacier || n >= mainnetGrayGlacier-5 {
					n = mainnetMuirGlacier + k*90000
				}
				return n
			default:
				return rapid.Uint64Range(mainnetMuirGlacier, mainnetGrayGlacier-5).Draw(t, "n")
			}
		}
		switch kind {
		case 0, 1:
			return ropstenLondon - 4 + uint64(rapid.IntRange(0, 6).Draw(t, "o"))
		case 2:
			d := rapid.SampledFrom([]uint64{delayMuirGlacier, delayLondon}).Draw(t, "delay")
			k := uint64(rapid.IntRange(0, 40).Draw(t, "k"))
			n := d - 1 + k*100000 - 2 + uint64(rapid.IntRange(0, 3).Draw(t, "o"))
			if n < ropstenMuirGlacier {
				n = ropstenMuirGlacier + k
			}
			return n
		default:
			return rapid.Uint64Range(ropstenMuirGlacier, 14_000_000).Draw(t, "n")
		}
	})
}

var c28Muts = []string{"none", "diff+1", "diff-1", "diff-era", "gas-hi", "gas-lo", "gas-min", "fee+1", "fee-1", "fee-nil",
	"used>limit", "time-eq", "time-lt", "time-future", "extra33", "number+1"}

func genC28(t *rapid.T) c28Case {
	mode := rapid.SampledFrom([]string{"hash", "hash", "diff", "diff", "diff", "gas", "fee", "fee", "sizes", "sync", "sync", "sync"}).Draw(t, "mode")
	if m := os.Getenv("PPOW_C28_MODE"); m != "" { // development aid (sensitivity runs per mode); never set by the driver
		mode = m
	}
	c := c28Case{Mode: mode}
	switch mode {
	case "hash":
		c.H = genHdr(t)
	case "diff":
		c.D = &c28Diff{ParentTime: rapid.OneOf(rapid.Uint64Range(0, 2_000_000_000), rapid.Uint64Range(0, 1<<62)).Draw(t, "ptime"),
			Dt: genDt().Draw(t, "dt"), ParentNum: genParentNumber().Draw(t, "pnum"), Uncles: rapid.Bool().Draw(t, "uncles")}
		if rapid.IntRange(0, 19).Draw(t, "belowmin") == 0 {
			c.D.ParentDiff = bigHex(new(big.Int).SetUint64(rapid.Uint64Range(0, 131071).Draw(t, "d")))
		} else {
			c.D.ParentDiff = genDiffHex().Draw(t, "pdiff")
		}
	case "gas":
		p := genGasParent().Draw(t, "parent")
		c.G = &c28Gas{Parent: p, Limit: genGasChild(t, p)}
	case "fee":
		f := &c28Fee{Net: rapid.SampledFrom([]uint32{1, 2, 3}).Draw(t, "net")}
		fork := londonHeight(f.Net)
		f.ParentNum = fork - 3 + uint64(rapid.IntRange(0, 6).Draw(t, "o"))
		if rapid.IntRange(0, 3).Draw(t, "far") == 0 {
			f.ParentNum = fork + rapid.Uint64Range(0, 3_000_000).Draw(t, "far-n")
		}
		f.ParentGL = genGasParent().Draw(t, "pgl")
		if rapid.IntRange(0, 2).Draw(t, "oddgl") == 0 {
			f.ParentGL |= 1
		}
		f.ParentUsed = usedFromSel(rapid.IntRange(0, 5).Draw(t, "used"), f.ParentGL)
		if rapid.IntRange(0, 2).Draw(t, "usedoff") == 0 {
			tg := f.ParentGL / 2
			off := rapid.Uint64Range(0, 16).Draw(t, "uo")
			if rapid.Bool().Draw(t, "above") && tg+off <= f.ParentGL {
				f.ParentUsed = tg + off
			} else if off <= tg {
				f.ParentUsed = tg - off
			}
		}
		parentLondon := f.ParentNum >= fork
		if parentLondon {
			s := genFeeHex().Draw(t, "pfee")
			f.ParentFee = &s
		} else if rapid.IntRange(0, 15).Draw(t, "early-fee") == 0 {
			s := genFeeHex().Draw(t, "pfee")
			f.ParentFee = &s // base fee below the fork height: classified, not judged
		}
		eff := f.ParentGL
		if !parentLondon && f.ParentFee == nil {
			eff = f.ParentGL * 2
		}
		f.ChildGL = genGasChild(t, eff)
		if rapid.IntRange(0, 2).Draw(t, "glvalid") > 0 {
			f.ChildGL = eff
		}
		if f.ParentFee != nil || !parentLondon {
			var pf *big.Int
			if f.ParentFee != nil {
				pf = hexBig(*f.ParentFee)
			}
			want := refBaseFee(f.ParentFee != nil || parentLondon, f.ParentGL, f.ParentUsed, pf)
			switch rapid.IntRange(0, 5).Draw(t, "cfee") {
			case 0:
				f.ChildFee = nil
			case 1:
				s := bigHex(new(big.Int).Add(want, big.NewInt(1)))
				f.ChildFee = &s
			case 2:
				if want.Sign() > 0 {
					s := bigHex(new(big.Int).Sub(want, big.NewInt(1)))
					f.ChildFee = &s
				}
			default:
				s := bigHex(want)
				f.ChildFee = &s
			}
		}
		c.F = f
	case "sizes":
		maxE := uint64(ev.Scale(2047+600, 2047+2500))
		e := rapid.OneOf(rapid.Uint64Range(0, 2047), rapid.Uint64Range(2040, maxE)).Draw(t, "epoch")
		c.S = &c28Sizes{Epoch: e, N: ev.Scale(8, 16)}
	case "sync":
		y := &c28Sync{Net: rapid.SampledFrom([]uint32{1, 1, 2, 3}).Draw(t, "net")}
		y.RootNum = genSyncRootNum(y.Net).Draw(t, "rootNum")
		y.RootDiff = genDiffHex().Draw(t, "rootDiff")
		y.RootGL = rapid.OneOf(genGasParent(), genGasParent(), genGasParent(), rapid.Uint64Range(5000, 5004), rapid.Uint64Range(2500, 2502)).Draw(t, "rootGL")
		if y.RootGL > 1<<61 {
			y.RootGL = 1 << 61
		}
		y.RootUsed = rapid.IntRange(0, 5).Draw(t, "rootUsed")
		y.RootFee = genFeeHex().Draw(t, "rootFee")
		y.RootTime = rapid.Uint64Range(1_500_000_000, 1_600_000_000).Draw(t, "rootTime")
		y.RootUnc = rapid.Bool().Draw(t, "rootUncle")
		y.Steps = rapid.SliceOfN(rapid.Custom(func(t *rapid.T) c28Step {
			return c28Step{Dt: genDt().Draw(t, "dt") % 100000, Uncle: rapid.Bool().Draw(t, "uncle"), GasSel: rapid.IntRange(0, 4).Draw(t, "gas"),
				UsedSel: rapid.IntRange(0, 5).Draw(t, "used"), Extra: rapid.IntRange(0, 32).Draw(t, "extra")}
		}), 1, 4).Draw(t, "steps")
		for i := range y.Steps {
			if y.Steps[i].Dt == 0 {
				y.Steps[i].Dt = 1
			}
		}
		y.MutAt = rapid.IntRange(0, 3).Draw(t, "mutAt")
		y.Mut = rapid.SampledFrom(c28Muts).Draw(t, "mut")
		y.MutArg = rapid.IntRange(0, 1).Draw(t, "mutArg")
		y.NowSlack = rapid.OneOf(rapid.IntRange(-15, -13), rapid.IntRange(-15, 100), rapid.Just(1_000_000)).Draw(t, "nowSlack")
		c.Y = y
	}
	return c
}

// ---- runners ---------------------------------------------------------------------------------

func toEthHeader(ctx *ev.Ctx, h *hdr) *eth.Header {
	var out eth.Header
	if err := json.Unmarshal(headerJSON(h), &out); err != nil {
		ctx.Failf("router's header decoder rejects a well-formed JSON-RPC header: %v\n%s", err, headerJSON(h))
	}
	return &out
}

func toGethHeader(h *hdr) *types.Header {
	g := &types.Header{
		ParentHash: ethcommon.BytesToHash(fixed(h.Parent, 32)), UncleHash: ethcommon.BytesToHash(fixed(h.Uncle, 32)),
		Coinbase: ethcommon.BytesToAddress(fixed(h.Coinbase, 20)), Root: ethcommon.BytesToHash(fixed(h.Root, 32)),
		TxHash: ethcommon.BytesToHash(fixed(h.Tx, 32)), ReceiptHash: ethcommon.BytesToHash(fixed(h.Receipt, 32)),
		Bloom: types.BytesToBloom(h.bloom()), Difficulty: h.diff(), Number: h.number(), GasLimit: h.GasLimit, GasUsed: h.GasUsed,
		Time: h.Time, Extra: []byte(h.Extra), MixDigest: ethcommon.BytesToHash(fixed(h.Mix, 32)), Nonce: types.EncodeNonce(h.Nonce),
	}
	return g
}

func runC28(ctx *ev.Ctx, c c28Case) {
	ctx.Label("mode:" + c.Mode)
	switch c.Mode {
	case "hash":
		runC28Hash(ctx, c.H)
	case "diff":
		runC28Diff(ctx, c.D)
	case "gas":
		runC28Gas(ctx, c.G)
	case "fee":
		runC28Fee(ctx, c.F)
	case "sizes":
		runC28Sizes(ctx, c.S)
	case "sync":
		runC28Sync(ctx, c.Y)
	default:
		ctx.Failf("harness: unknown mode %q", c.Mode)
	}
}

func rlpEdge(v *big.Int) bool {
	return v.Sign() == 0 || v.Cmp(big.NewInt(0x7f)) == 0 || v.Cmp(big.NewInt(0x80)) == 0 || v.BitLen() > 56 && v.BitLen() <= 64 || v.BitLen() > 64
}

func runC28Hash(ctx *ev.Ctx, h *hdr) {
	world.ResetGlobals(1)
	want := refHash(h)
	wantSeal := refSealHash(h)
	// reference self-check against go-ethereum v1.9.15 where it knows the header format
	if h.BaseFee == nil {
		g := toGethHeader(h)
		if g.Hash() != ethcommon.Hash(want) {
			ctx.Failf("ORACLE self-check failed: reference header hash %x != go-ethereum %x", want, g.Hash())
		}
		if s := fakerEthash.SealHash(g); s != ethcommon.Hash(wantSeal) {
			ctx.Failf("ORACLE self-check failed: reference seal hash %x != go-ethereum %x", wantSeal, s)
		}
		ctx.Label("hash:legacy")
	} else {
		ctx.Label("hash:with-basefee")
	}
	e := toEthHeader(ctx, h)
	var got, gotSeal ethcommon.Hash
	if p := ev.Catch(func() { got = e.Hash(); gotSeal = eth.HashHeader(e) }); p != "" {
		ctx.Failf("Header.Hash panicked: %s", p)
	}
	if got != ethcommon.Hash(want) {
		ctx.Failf("header hash differs from keccak256(rlp(fields)): got %x want %x\nheader %s", got, want, headerJSON(h))
	}
	if gotSeal != ethcommon.Hash(wantSeal) {
		ctx.Failf("seal hash (HashHeader) differs from the specification: got %x want %x\nheader %s", gotSeal, wantSeal, headerJSON(h))
	}
	// the stored form (MarshalJSON -> UnmarshalJSON) must preserve every hashed field
	enc, err := json.Marshal(e)
	if err != nil {
		ctx.Failf("Header.MarshalJSON: %v", err)
	}
	var back eth.Header
	if err := json.Unmarshal(enc, &back); err != nil {
		ctx.Failf("stored header JSON does not decode: %v", err)
	}
	if back.Hash() != ethcommon.Hash(want) {
		ctx.Failf("hash changes over the storage round trip: %x -> %x\n%s", want, back.Hash(), enc)
	}
	var probe struct {
		Hash ethcommon.Hash `json:"hash"`
	}
	json.Unmarshal(enc, &probe)
	if probe.Hash != ethcommon.Hash(want) {
		ctx.Failf("\"hash\" member of the stored JSON %x != specification hash %x", probe.Hash, want)
	}
	if h.BaseFee == nil {
		if x := eth.To1559(toGethHeader(h)); x.Hash() != ethcommon.Hash(want) {
			ctx.Failf("To1559(legacy header) hash %x != %x", x.Hash(), want)
		}
	}
	if h.BaseFee != nil || rlpEdge(h.diff()) || rlpEdge(h.number()) || rlpEdge(new(big.Int).SetUint64(h.GasLimit)) ||
		rlpEdge(new(big.Int).SetUint64(h.GasUsed)) || rlpEdge(new(big.Int).SetUint64(h.Time)) ||
		len(h.Extra) == 1 && h.Extra[0] < 0x80 || len(h.Extra) >= 55 || len(h.Extra) == 0 {
		ctx.NonTrivial()
	}
}

var (
	big0      = big.NewInt(0)
	cfgByz    = &params.ChainConfig{ChainID: big.NewInt(1), HomesteadBlock: big0, ByzantiumBlock: big0}
	cfgConst  = &params.ChainConfig{ChainID: big.NewInt(1), HomesteadBlock: big0, ByzantiumBlock: big0, ConstantinopleBlock: big0}
	cfgMuir   = &params.ChainConfig{ChainID: big.NewInt(1), HomesteadBlock: big0, ByzantiumBlock: big0, ConstantinopleBlock: big0, MuirGlacierBlock: big0}
	mkLondon  = eth.VerifMakeDifficultyCalculator(big.NewInt(delayLondon))
	mkArrow   = eth.VerifMakeDifficultyCalculator(big.NewInt(delayArrowGlacier))
	nonEmptyU = ethcommon.HexToHash("0x1111111111111111111111111111111111111111111111111111111111111111")
)

func nearBombBoundary(parentNum uint64) bool {
	for _, d := range bombDelays {
		if parentNum+3 < d {
			continue
		}
		// block.number - delay within 1 of a multiple of 100000 (and at least one period)
		fake := int64(parentNum+1) - int64(d)
		m := ((fake % 100000) + 100000) % 100000
		if fake >= 199998 && (m <= 1 || m == 99999) {
			return true
		}
	}
	return false
}

func runC28Diff(ctx *ev.Ctx, d *c28Diff) {
	world.ResetGlobals(1)
	pd := hexBig(d.ParentDiff)
	pn := new(big.Int).SetUint64(d.ParentNum)
	childTime := d.ParentTime + d.Dt
	if pd.Cmp(minimumDifficulty) < 0 {
		// EIP-100 text floors at min(parent_diff, 131072), Yellow Paper / clients at 131072: the
		// sources disagree for parents below the minimum (which no valid chain contains). Not judged.
		ctx.Label("diff:parent-below-minimum(not judged)")
		return
	}
	uncle := ethcommon.BytesToHash(emptyUncleHash)
	if d.Uncles {
		uncle = nonEmptyU
	}
	// reference self-check against go-ethereum (same formula, delays 3M / 5M / 9M)
	gp := &types.Header{Time: d.ParentTime, Difficulty: pd, Number: pn, UncleHash: uncle}
	for _, x := range []struct {
		cfg   *params.ChainConfig
		delay uint64
	}{{cfgByz, 3_000_000}, {cfgConst, 5_000_000}, {cfgMuir, delayMuirGlacier}} {
		g := gethash.CalcDifficulty(x.cfg, childTime, gp)
		if r := refDifficulty(x.delay, childTime, d.ParentTime, pd, pn, d.Uncles); r.Cmp(g) != 0 {
			ctx.Failf("ORACLE self-check failed: reference difficulty (delay %d) %v != go-ethereum %v", x.delay, r, g)
		}
	}
	parent := &eth.Header{Time: d.ParentTime, Difficulty: new(big.Int).Set(pd), Number: new(big.Int).Set(pn), UncleHash: uncle}
	type calc struct {
		name  string
		delay uint64
		f     func() *big.Int
	}
	for _, k := range []calc{
		{"difficultyCalculator (pre-London, EIP-2384)", delayMuirGlacier, func() *big.Int {
			return eth.VerifDifficultyCalculator(new(big.Int).SetUint64(childTime), parent)
		}},
		{"makeDifficultyCalculator(9,700,000) (London, EIP-3554)", delayLondon, func() *big.Int { return mkLondon(childTime, parent) }},
		{"makeDifficultyCalculator(10,700,000) (Arrow Glacier, EIP-4345)", delayArrowGlacier, func() *big.Int { return mkArrow(childTime, parent) }},
	} {
		var got *big.Int
		if p := ev.Catch(func() { got = k.f() }); p != "" {
			ctx.Failf("%s panicked: %s", k.name, p)
		}
		want := refDifficulty(k.delay, childTime, d.ParentTime, pd, pn, d.Uncles)
		if got.Cmp(want) != 0 {
			ctx.Failf("%s: got %v, specification %v (parent number %d diff %v time %d uncles %v; child time +%d)",
				k.name, got, want, d.ParentNum, pd, d.ParentTime, d.Uncles, d.Dt)
		}
		if parent.Difficulty.Cmp(pd) != 0 || parent.Number.Cmp(pn) != 0 {
			ctx.Failf("%s modified its parent header argument", k.name)
		}
	}
	q := d.Dt / 9
	if nearBombBoundary(d.ParentNum) {
		ctx.Label("diff:bomb-boundary")
		ctx.NonTrivial()
	}
	if d.Dt%9 == 0 || d.Dt%9 == 8 || q >= 99 && q <= 102 {
		ctx.Label("diff:time-boundary")
		ctx.NonTrivial()
	}
	if pd.Cmp(big.NewInt(131072+4096)) < 0 {
		ctx.Label("diff:near-minimum")
		ctx.NonTrivial()
	}
}

func runC28Gas(ctx *ev.Ctx, g *c28Gas) {
	world.ResetGlobals(1)
	if g.Parent > 1<<63-1 || g.Limit > 1<<63-1 {
		ctx.Label("gas:above-2^63(not judged)")
		return
	}
	var err error
	if p := ev.Catch(func() { err = eth.VerifyGaslimit(g.Parent, g.Limit) }); p != "" {
		ctx.Failf("VerifyGaslimit panicked: %s", p)
	}
	want := refGasLimitOK(g.Parent, g.Limit)
	if (err == nil) != want {
		ctx.Failf("VerifyGaslimit(parent %d, limit %d): accepted=%v (%v), specification accepted=%v (bound parent/1024 = %d)",
			g.Parent, g.Limit, err == nil, err, want, g.Parent/1024)
	}
	bound := g.Parent / 1024
	var diff uint64
	if g.Parent > g.Limit {
		diff = g.Parent - g.Limit
	} else {
		diff = g.Limit - g.Parent
	}
	if diff+1 >= bound && diff <= bound+1 || g.Limit >= 4999 && g.Limit <= 5001 {
		ctx.NonTrivial()
		ctx.Label("gas:boundary")
	}
	if want {
		ctx.Label("gas:valid")
	} else {
		ctx.Label("gas:invalid")
	}
}

func runC28Fee(ctx *ev.Ctx, f *c28Fee) {
	world.ResetGlobals(f.Net)
	fork := londonHeight(f.Net)
	parentLondon := f.ParentNum >= fork
	if !parentLondon && f.ParentFee != nil {
		// A header below the fork height that carries a base fee is invalid per EIP-1559; the router
		// treats it as a London header. Classified, not judged.
		ctx.Label("fee:basefee-below-fork-height(not judged)")
		return
	}
	parent := &eth.Header{Number: new(big.Int).SetUint64(f.ParentNum), GasLimit: f.ParentGL, GasUsed: f.ParentUsed,
		Difficulty: big.NewInt(131072), UncleHash: ethcommon.BytesToHash(emptyUncleHash)}
	var pf *big.Int
	if f.ParentFee != nil {
		pf = hexBig(*f.ParentFee)
		parent.BaseFee = new(big.Int).Set(pf)
	}
	// fork-height determination on bare headers (no base fee) around the activation heights
	for _, n := range []uint64{f.ParentNum, f.ParentNum + 1} {
		probe := &eth.Header{Number: new(big.Int).SetUint64(n)}
		if got, want := eth.VerifIsLondon(probe), n >= fork; got != want {
			ctx.Failf("isLondon(number %d, network %d) = %v, EIP-3554/1559 activation height %d", n, f.Net, got, fork)
		}
		ag := n - fork + mainnetArrowGlacier // same offset from the Arrow Glacier height
		probe = &eth.Header{Number: new(big.Int).SetUint64(ag)}
		if got, want := eth.VerifIsArrowGlacier(probe), f.Net == 1 && ag >= mainnetArrowGlacier; got != want {
			ctx.Failf("isArrowGlacier(number %d, network %d) = %v, EIP-4345 activation height %d (main net only)", ag, f.Net, got, mainnetArrowGlacier)
		}
	}
	if got := eth.VerifIsLondon(parent); got != parentLondon {
		ctx.Failf("isLondon(parent number %d, network %d) = %v, fork height per EIP-3554 activation %d", f.ParentNum, f.Net, got, fork)
	}
	want := refBaseFee(parentLondon, f.ParentGL, f.ParentUsed, pf)
	var got *big.Int
	if p := ev.Catch(func() { got = eth.CalcBaseFee(parent) }); p != "" {
		ctx.Failf("CalcBaseFee panicked: %s", p)
	}
	if got.Cmp(want) != 0 {
		ctx.Failf("CalcBaseFee: got %v, EIP-1559 %v (parent number %d gasLimit %d gasUsed %d baseFee %v, network %d)",
			got, want, f.ParentNum, f.ParentGL, f.ParentUsed, pf, f.Net)
	}
	if pf != nil && parent.BaseFee.Cmp(pf) != 0 {
		ctx.Failf("CalcBaseFee modified the parent's base fee: %v -> %v", pf, parent.BaseFee)
	}
	// full EIP-1559 header rule on a child
	child := &eth.Header{Number: new(big.Int).SetUint64(f.ParentNum + 1), GasLimit: f.ChildGL}
	if f.ChildFee != nil {
		child.BaseFee = hexBig(*f.ChildFee)
	}
	if f.ParentNum+1 < fork {
		ctx.Label("fee:child-below-fork(header rule not applicable)")
	} else if f.ChildGL <= 1<<63-1 {
		eff := f.ParentGL
		if !parentLondon {
			eff = f.ParentGL * 2
		}
		wantOK := refGasLimitOK(eff, f.ChildGL) && f.ChildFee != nil && hexBig(*f.ChildFee).Cmp(want) == 0
		var err error
		if p := ev.Catch(func() { err = eth.VerifyEip1559Header(parent, child) }); p != "" {
			ctx.Failf("VerifyEip1559Header panicked: %s", p)
		}
		if (err == nil) != wantOK {
			ctx.Failf("VerifyEip1559Header accepted=%v (%v), EIP-1559 accepted=%v: parent {number %d gasLimit %d gasUsed %d baseFee %v} child {gasLimit %d baseFee %v} expected base fee %v, effective parent gas limit %d",
				err == nil, err, wantOK, f.ParentNum, f.ParentGL, f.ParentUsed, pf, f.ChildGL, child.BaseFee, want, eff)
		}
		if wantOK {
			ctx.Label("fee:child-valid")
		} else {
			ctx.Label("fee:child-invalid")
		}
	}
	if !parentLondon {
		ctx.Label("fee:transition")
		ctx.NonTrivial()
		return
	}
	tg := f.ParentGL / 2
	var du uint64
	if f.ParentUsed > tg {
		du = f.ParentUsed - tg
		ctx.Label("fee:increase")
	} else {
		du = tg - f.ParentUsed
		if du == 0 {
			ctx.Label("fee:unchanged")
		} else {
			ctx.Label("fee:decrease")
		}
	}
	// non-trivial: at/next to the target, or the raw delta is below 1 (max(...,1) matters), or fork boundary
	raw := new(big.Int).Mul(pf, new(big.Int).SetUint64(du))
	raw.Quo(raw, new(big.Int).SetUint64(tg))
	raw.Quo(raw, big.NewInt(8))
	if du <= 1 || raw.Cmp(big.NewInt(1)) <= 0 || f.ParentNum <= fork+1 {
		ctx.NonTrivial()
	}
}

func runC28Sizes(ctx *ev.Ctx, s *c28Sizes) {
	world.ResetGlobals(1)
	for e := s.Epoch; e < s.Epoch+uint64(s.N); e++ {
		for _, off := range []uint64{0, 1, 29999} {
			block := e*30000 + off
			var gc, gd uint64
			if p := ev.Catch(func() { gc = eth.VerifCacheSize(block); gd = eth.VerifDatasetSize(block) }); p != "" {
				ctx.Failf("cacheSize/datasetSize(%d) panicked: %s", block, p)
			}
			if wc := refCacheSize(block); gc != wc {
				ctx.Failf("cacheSize(block %d, epoch %d) = %d, ethash specification %d", block, e, gc, wc)
			}
			if wd := refDatasetSize(block); gd != wd {
				ctx.Failf("datasetSize(block %d, epoch %d) = %d, ethash specification %d", block, e, gd, wd)
			}
		}
	}
	if s.Epoch+uint64(s.N) > 2048 {
		ctx.Label("sizes:computed(beyond table)")
	}
	if s.Epoch < 2048 {
		ctx.Label("sizes:table")
	}
	ctx.NonTrivial()
}

// ---- C28 through SyncBlockHeader -------------------------------------------------------------

const ethChainID = 2

var nonEmptyUncle = bytes.Repeat([]byte{0x11}, 32)

// sealSwitch makes the ethash seal satisfiable for synthetic headers (see the shim): target
// raised above every hashimoto result, tiny cache/dataset. Difficulty, gas, base-fee, time and
// extra-data rules of SyncBlockHeader stay active, so does the mix-digest equality check.
func sealSwitch() func() { return eth.VerifSealSwitch(1024, 1024, 96) }

func seal(ctx *ev.Ctx, h *hdr) {
	h.Mix = nil
	e := toEthHeader(ctx, h)
	d := eth.VerifMixDigest(e)
	h.Mix = ev.B(d[:])
}

type ethRules struct{ net uint32 }

func (r ethRules) london(h *hdr) bool {
	return h.BaseFee != nil || (h.number().IsUint64() && h.number().Uint64() >= londonHeight(r.net))
}

// child builds the header the specification requires on top of parent for the given free choices.
func (r ethRules) child(parent *hdr, st c28Step, salt byte) *hdr {
	num := new(big.Int).Add(parent.number(), big.NewInt(1))
	h := &hdr{Number: bigHex(num), Time: parent.Time + st.Dt, Coinbase: ev.B{salt, 0xc0}, Root: ev.B{salt, 1}, Tx: ev.B{2}, Receipt: ev.B{3},
		Uncle: ev.B(emptyUncleHash), Extra: ev.B(bytes.Repeat([]byte{salt}, st.Extra)), Nonce: uint64(salt)}
	if st.Uncle {
		h.Uncle = ev.B(nonEmptyUncle)
	}
	ph := refHash(parent)
	h.Parent = ev.B(ph[:])
	london := num.Uint64() >= londonHeight(r.net)
	parentLondon := r.london(parent)
	eff := parent.GasLimit
	if london && !parentLondon {
		eff = parent.GasLimit * 2
	}
	bound := eff / 1024
	switch st.GasSel {
	case 0:
		h.GasLimit = eff - (bound - 1)
	case 1:
		h.GasLimit = eff - 1
	case 3:
		h.GasLimit = eff + 1
	case 4:
		h.GasLimit = eff + (bound - 1)
	default:
		h.GasLimit = eff
	}
	if !refGasLimitOK(eff, h.GasLimit) {
		h.GasLimit = eff
		if h.GasLimit < 5000 {
			h.GasLimit = 5000 // only reachable from a trusted root below the minimum
		}
	}
	h.GasUsed = usedFromSel(st.UsedSel, h.GasLimit)
	if london {
		h.setBaseFee(refBaseFee(parentLondon, parent.GasLimit, parent.GasUsed, parent.baseFee()))
	}
	h.Diff = bigHex(refDifficulty(refDelay(r.net, num.Uint64(), london), h.Time, parent.Time, parent.diff(), parent.number(), parent.hasUncles()))
	return h
}

func (r ethRules) effParentGas(parent, child *hdr) uint64 {
	if r.london(child) && !r.london(parent) {
		return parent.GasLimit * 2
	}
	return parent.GasLimit
}

func cloneHdr(h *hdr) *hdr {
	b, _ := json.Marshal(h)
	var o hdr
	json.Unmarshal(b, &o)
	return &o
}

func ethStored(w *world.World, hash [32]byte) bool {
	k := append(hsPrefix("headerIndex", ethChainID), hash[:]...)
	v, err := w.Cache.Get(k)
	return err == nil && v != nil
}

func ethCurrentHeight(w *world.World) uint64 {
	v := w.Get(hsPrefix("currentHeaderHeight", ethChainID))
	return utils.GetBytesUint64(v)
}

func runC28Sync(ctx *ev.Ctx, y *c28Sync) {
	restore := sealSwitch()
	defer restore()
	w := newWorldWithChain(y.Net, ethChainID, utils.ETH_ROUTER, []byte{0xcc, 0x01})
	r := ethRules{y.Net}
	ctx.Label(fmt.Sprintf("sync:net%d", y.Net))
	rootLondon := y.RootNum >= londonHeight(y.Net)
	root := &hdr{Number: bigHex(new(big.Int).SetUint64(y.RootNum)), Diff: y.RootDiff, GasLimit: y.RootGL, Time: y.RootTime,
		Uncle: ev.B(emptyUncleHash), Parent: ev.B{0xaa}, Root: ev.B{0xbb}}
	if y.RootUnc {
		root.Uncle = ev.B(nonEmptyUncle)
	}
	root.GasUsed = usedFromSel(y.RootUsed, root.GasLimit)
	if rootLondon {
		root.setBaseFee(hexBig(y.RootFee))
	}
	if res := syncGenesis(w, ethChainID, headerJSON(root)); !res.OK() {
		ctx.Failf("fixture: syncGenesisHeader by the operator failed: %v", res.Err)
	}
	last := root.Time
	for _, st := range y.Steps {
		last += st.Dt
	}
	now := int64(last) + int64(y.NowSlack)
	verifclock.SetFake(now)
	defer verifclock.ClearFake()
	if y.NowSlack <= -14 {
		ctx.Label("sync:head-time-at-future-limit")
	}
	parent := root
	crossed := false
	for i, st := range y.Steps {
		good := r.child(parent, st, byte(i+1))
		if !refGasLimitOK(r.effParentGas(parent, good), good.GasLimit) {
			// only below a trusted root whose own gas limit leaves no admissible child
			ctx.Label("sync:no-admissible-child-gas-limit")
			return
		}
		seal(ctx, good)
		num := good.number().Uint64()
		if num == londonHeight(y.Net) || (y.Net == 1 && num == mainnetArrowGlacier) {
			crossed = true
			ctx.Label("sync:first-block-of-era")
		}
		if i == y.MutAt%len(y.Steps) && y.Mut != "none" {
			bad := cloneHdr(good)
			applied := true
			eff := r.effParentGas(parent, good)
			bound := eff / 1024
			switch y.Mut {
			case "diff+1":
				bad.Diff = bigHex(new(big.Int).Add(good.diff(), big.NewInt(1)))
			case "diff-1":
				bad.Diff = bigHex(new(big.Int).Sub(good.diff(), big.NewInt(1)))
			case "diff-era":
				cur := refDelay(y.Net, num, r.london(good))
				var others []uint64
				for _, d := range bombDelays {
					if d != cur {
						others = append(others, d)
					}
				}
				alt := refDifficulty(others[y.MutArg%len(others)], good.Time, parent.Time, parent.diff(), parent.number(), parent.hasUncles())
				if alt.Cmp(good.diff()) == 0 {
					applied = false
				}
				bad.Diff = bigHex(alt)
			case "gas-hi":
				bad.GasLimit = eff + bound
			case "gas-lo":
				bad.GasLimit = eff - bound
				if bad.GasUsed > bad.GasLimit {
					bad.GasUsed = bad.GasLimit
				}
			case "gas-min":
				// inside the +-1/1024 window but below 5000
				if eff >= 4999 && eff-4999 < bound {
					bad.GasLimit = 4999
					if bad.GasUsed > bad.GasLimit {
						bad.GasUsed = bad.GasLimit
					}
				} else {
					applied = false
				}
			case "fee+1":
				if good.BaseFee == nil {
					applied = false
				} else {
					bad.setBaseFee(new(big.Int).Add(good.baseFee(), big.NewInt(1)))
				}
			case "fee-1":
				if good.BaseFee == nil || good.baseFee().Sign() == 0 {
					applied = false
				} else {
					bad.setBaseFee(new(big.Int).Sub(good.baseFee(), big.NewInt(1)))
				}
			case "fee-nil":
				if good.BaseFee == nil {
					applied = false
				} else {
					bad.BaseFee = nil
				}
			case "used>limit":
				bad.GasUsed = bad.GasLimit + 1
			case "time-eq":
				bad.Time = parent.Time
			case "time-lt":
				bad.Time = parent.Time - 1
			case "time-future":
				// 16 s ahead of the wall clock (allowed: 15 s); difficulty recomputed so that only this rule is violated
				bad.Time = uint64(now) + 16
				bad.Diff = bigHex(refDifficulty(refDelay(y.Net, num, r.london(good)), bad.Time, parent.Time, parent.diff(), parent.number(), parent.hasUncles()))
			case "extra33":
				bad.Extra = ev.B(bytes.Repeat([]byte{7}, 33))
			case "number+1":
				bad.Number = bigHex(new(big.Int).Add(good.number(), big.NewInt(1)))
			default:
				ctx.Failf("harness: unknown mutation %q", y.Mut)
			}
			if !applied {
				ctx.Label("sync:mutation-not-applicable:" + y.Mut)
			} else {
				seal(ctx, bad)
				before := w.Dump()
				res := syncHeaders(w, ethChainID, [][]byte{headerJSON(bad)})
				if res.Panic != "" {
					ctx.Failf("SyncBlockHeader panicked on a header violating rule %q: %s", y.Mut, res.Panic)
				}
				if res.Err == nil {
					ctx.Failf("SyncBlockHeader ACCEPTED a header violating exactly rule %q (network %d):\nparent %s\nheader %s\nvalid  %s",
						y.Mut, y.Net, headerJSON(parent), headerJSON(bad), headerJSON(good))
				}
				if d := world.DiffDump(before, w.Dump()); d != "" {
					ctx.Failf("rejected header (rule %q) left a trace in the store: %s", y.Mut, d)
				}
				ctx.Label("sync:rejected:" + y.Mut)
				ctx.NonTrivial()
			}
		}
		res := syncHeaders(w, ethChainID, [][]byte{headerJSON(good)})
		if res.Panic != "" {
			ctx.Failf("SyncBlockHeader panicked on a specification-valid header: %s", res.Panic)
		}
		if res.Err != nil {
			ctx.Failf("SyncBlockHeader REJECTED a specification-valid header (network %d, height %d): %v\nparent %s\nheader %s",
				y.Net, num, res.Err, headerJSON(parent), headerJSON(good))
		}
		if hh := refHash(good); !ethStored(w, hh) {
			ctx.Failf("accepted header is not stored under its specification hash %x", hh)
		}
		if cur := ethCurrentHeight(w); cur != num {
			ctx.Failf("after accepting height %d the current height is %d", num, cur)
		}
		ctx.Label("sync:accepted")
		parent = good
	}
	if crossed {
		ctx.NonTrivial()
	}
}

func TestC28(t *testing.T) {
	verifclock.Reset()
	defer func() { ev.Get("C28").Extra("clock_sites", verifclock.Snapshot()) }()
	ev.Drive(t, "C28",
		"cases: one of six modes - header hash of arbitrary field combinations (RLP edge values, with/without base fee); difficulty of the three calculators "+
			"(EIP-2384/3554/4345 delays) for parent numbers at bomb-period boundaries, time deltas around multiples of 9 and the -99 clamp; gas-limit window edges; "+
			"EIP-1559 base fee and header rule around the target and the fork block; ethash cache/dataset sizes per epoch (table and computed); and chains of 1-4 "+
			"headers through SyncBlockHeader (ethash threshold switched off) rooted within 4 blocks of London / Arrow Glacier or at bomb boundaries, where a "+
			"header violating exactly one rule must be rejected and the specification-valid header accepted. "+
			"non-trivial: input within 1 of a rule boundary (RLP form change, multiple of 9 / clamp, bomb period, +-parent/1024 window, 5000, gas target, delta<1), "+
			"a fork-height transition, a size epoch, or a rejected single-rule mutation through sync; distinct by JSON encoding of the case",
		genC28, runC28)
}
