package ppow

import (
	"encoding/binary"
	"encoding/json"
	"fmt"
	"math/big"
	"os"
	"sync"
	"testing"

	"github.com/polynetwork/poly/common"
	"github.com/polynetwork/poly/common/verifclock"
	"github.com/polynetwork/poly/native/service/utils"
	"pgregory.net/rapid"

	"verif/harness/ev"
	"verif/harness/world"
)

// ---------------------------------------------------------------------------------------------
// C19 (unit TestC19, routers ETH and BTC): the trust root of a side chain is installed at most once

type c19Op struct {
	Kind   string `json:"kind"`             // install | sync
	Chain  int    `json:"chain"`            // 0 / 1: the two chain ids registered for the router under test; 2: a chain of the OTHER router
	G      int    `json:"g,omitempty"`      // install: genesis variant (0 = g1, 1.. = different data)
	Signer string `json:"signer,omitempty"` // install: operator | validator | owner | outsider | none
	N      int    `json:"n,omitempty"`      // sync: number of headers appended to the chain's tip
}

type c19Case struct {
	Router  string  `json:"router"` // eth | btc
	Net     uint32  `json:"net"`
	RootNum uint64  `json:"rootNum"`
	Ops     []c19Op `json:"ops"`
}

// The regress directory <ID>.<TestName> is shared by every package that has a unit of that name;
// files of other packages' units do not have this shape: they decode to a case that is skipped.
func (c *c19Case) UnmarshalJSON(b []byte) error {
	type plain c19Case
	var p plain
	if err := json.Unmarshal(b, &p); err != nil || (p.Router != "eth" && p.Router != "btc") || len(p.Ops) == 0 {
		*c = c19Case{Router: "foreign"}
		return nil
	}
	*c = c19Case(p)
	return nil
}

func unitID(def string) string {
	if v := os.Getenv("VERIF_PROP_ID"); v != "" { // development only: lets a helper entry (_C19pow, _C16Bpow) collect the shard files
		return v
	}
	return def
}

func genC19(t *rapid.T) c19Case {
	c := c19Case{Router: rapid.SampledFrom([]string{"eth", "btc"}).Draw(t, "router"), Net: rapid.SampledFrom([]uint32{1, 2}).Draw(t, "net")}
	if r := os.Getenv("PPOW_ROUTER"); r != "" {
		c.Router = r
	}
	if c.Router == "eth" {
		c.RootNum = genSyncRootNum(c.Net).Draw(t, "rootNum")
	} else {
		c.RootNum = rapid.Uint64Range(0, 5000).Draw(t, "rootNum")
	}
	c.Ops = rapid.SliceOfN(rapid.Custom(func(t *rapid.T) c19Op {
		op := c19Op{Kind: rapid.SampledFrom([]string{"install", "install", "install", "sync", "sync"}).Draw(t, "kind"),
			Chain: rapid.SampledFrom([]int{0, 0, 0, 1, 1, 2}).Draw(t, "chain")}
		if op.Kind == "install" {
			op.G = rapid.SampledFrom([]int{0, 0, 1, 2}).Draw(t, "g")
			op.Signer = rapid.SampledFrom([]string{"operator", "operator", "operator", "validator", "owner", "outsider", "none"}).Draw(t, "signer")
		} else {
			op.N = rapid.IntRange(1, 3).Draw(t, "n")
		}
		return op
	}), 2, 12).Draw(t, "ops")
	if rapid.IntRange(0, 9).Draw(t, "installFirst") < 8 {
		c.Ops = append([]c19Op{{Kind: "install", Chain: 0, G: rapid.IntRange(0, 1).Draw(t, "g0"), Signer: "operator"}}, c.Ops...)
	}
	return c
}

// chains registered in every C19 / C16B world: two per router
var powChains = []chainSpec{
	{2, utils.ETH_ROUTER, []byte{0xcc, 0x01}}, {12, utils.ETH_ROUTER, []byte{0xcc, 0x02}},
	{1, utils.BTC_ROUTER, regtestCCMC()}, {11, utils.BTC_ROUTER, regtestCCMC()},
}

func regtestCCMC() []byte {
	b := make([]byte, 8)
	binary.LittleEndian.PutUint64(b, uint64(utils.TyRegtest))
	return b
}

// lightChain is the harness-side view of one chain: how to make a trust root and headers for it.
type lightChain struct {
	id      uint64
	router  string
	net     uint32
	rootNum uint64
	// state
	installed bool
	variant   int
	synced    int
	ethTip    *hdr
	btcTip    *btcHdr
}

func (lc *lightChain) genesis(ctx *ev.Ctx, g int) (raw []byte, eh *hdr, bh *btcHdr) {
	if lc.router == "eth" {
		num := lc.rootNum + uint64(g)*3
		h := &hdr{Number: bigHex(new(big.Int).SetUint64(num)), Diff: bigHex(big.NewInt(int64(3_000_000 + 7777*g))), GasLimit: 8_000_000, GasUsed: 2_000_000,
			Time: ethRootTime, Uncle: ev.B(emptyUncleHash), Parent: ev.B{0xaa, byte(g)}, Root: ev.B{0xbb, byte(lc.id)}}
		if num >= londonHeight(lc.net) {
			h.setBaseFee(big.NewInt(1_000_000_000))
		}
		return headerJSON(h), h, nil
	}
	b := &btcHdr{Version: 1, Time: 1_500_000_000, Bits: 0x207fffff, Nonce: uint32(7 + g)}
	b.Merkle[0], b.Merkle[1] = 0xee, byte(lc.id)
	raw = append(b.bytes(), 0, 0, 0, 0)
	binary.BigEndian.PutUint32(raw[80:], uint32(lc.rootNum)+uint32(g))
	return raw, nil, b
}

func btcChild(parent *btcHdr, dt uint32, bits uint32, salt int) *btcHdr {
	h := &btcHdr{Version: 0x20000000, Prev: parent.hash(), Time: parent.Time + dt, Bits: bits}
	h.Merkle[0], h.Merkle[1] = byte(salt), 0x5a
	target, _ := compactTarget(bits)
	for n := uint32(0); ; n++ {
		h.Nonce = n
		if hashLE(h.hash()).Cmp(target) <= 0 {
			return h
		}
	}
}

// next builds n valid headers on the chain's tip (does not advance the tip).
func (lc *lightChain) next(ctx *ev.Ctx, n int, dt uint64) (raws [][]byte, eth []*hdr, btc []*btcHdr) {
	if lc.router == "eth" {
		p := lc.ethTip
		for i := 0; i < n; i++ {
			h := ethRules{lc.net}.child(p, c28Step{Dt: dt, GasSel: 2, UsedSel: 1, Extra: (lc.synced + i) % 30}, byte(lc.synced+i+1))
			seal(ctx, h)
			raws, eth, p = append(raws, headerJSON(h)), append(eth, h), h
		}
		return
	}
	p := lc.btcTip
	for i := 0; i < n; i++ {
		h := btcChild(p, uint32(dt), 0x207fffff, lc.synced+i+1)
		raws, btc, p = append(raws, h.bytes()), append(btc, h), h
	}
	return
}

// lcKeys: the store keys (after the state prefix and the header-sync contract address) a call
// on chain `id` may touch; everything else must stay byte-identical.
func keyBelongsTo(k []byte, id uint64) bool {
	a := utils.HeaderSyncContractAddress
	pre := append([]byte{0x05}, a[:]...)
	if !hasPrefix(k, pre) {
		return false
	}
	rest := k[len(pre):]
	for _, name := range []string{"genesisHeader", "headerIndex", "mainChain", "currentHeaderHeight", "blockHeader"} {
		if hasPrefix(rest, append([]byte(name), le64(id)...)) {
			return true
		}
	}
	return hasPrefix(rest, []byte("ethCaches")) // ethash verification cache, shared by all ETH-router chains
}

func changedKeys(a, b [][2][]byte) [][]byte {
	am := map[string][]byte{}
	for _, kv := range a {
		am[string(kv[0])] = kv[1]
	}
	var out [][]byte
	for _, kv := range b {
		if v, ok := am[string(kv[0])]; !ok || string(v) != string(kv[1]) {
			out = append(out, kv[0])
		}
		delete(am, string(kv[0]))
	}
	for k := range am {
		out = append(out, []byte(k))
	}
	return out
}

var (
	c19Mu      sync.Mutex
	c19Routers = map[string]int{}
)

func c19Count(k string) { c19Mu.Lock(); c19Routers[k]++; c19Mu.Unlock() }

func runC19(ctx *ev.Ctx, c c19Case) {
	if c.Router != "eth" && c.Router != "btc" {
		ctx.Label("regression-file-of-another-unit(skipped)")
		return
	}
	ctx.Label("router:" + c.Router)
	restore := sealSwitch()
	defer restore()
	verifclock.SetFake(ethRootTime + 10_000_000)
	defer verifclock.ClearFake()
	w := newWorldWithChains(c.Net, powChains)
	other := "btc"
	ids := []uint64{2, 12, 1}
	if c.Router == "btc" {
		other = "eth"
		ids = []uint64{1, 11, 2}
	}
	chains := []*lightChain{
		{id: ids[0], router: c.Router, net: c.Net, rootNum: c.RootNum},
		{id: ids[1], router: c.Router, net: c.Net, rootNum: c.RootNum + 100},
		{id: ids[2], router: other, net: c.Net, rootNum: 10_000_000},
	}
	if other == "btc" {
		chains[2].rootNum = 100
	}
	signers := func(s string) []common.Address {
		switch s {
		case "operator":
			return []common.Address{w.Operator()}
		case "validator":
			return []common.Address{w.Validators[0].Address}
		case "owner":
			return []common.Address{world.Acct(40).Address}
		case "outsider":
			return []common.Address{world.Acct(55).Address}
		}
		return nil
	}
	nontrivial := false
	for oi, op := range c.Ops {
		lc := chains[op.Chain%len(chains)]
		what := fmt.Sprintf("op %d (%s chain %d/%s", oi, op.Kind, lc.id, lc.router)
		before := w.Dump()
		switch op.Kind {
		case "install":
			what += fmt.Sprintf(" g%d by %s)", op.G, op.Signer)
			raw, eh, bh := lc.genesis(ctx, op.G)
			res := syncGenesisAs(w, lc.id, raw, signers(op.Signer))
			if res.Panic != "" {
				ctx.Failf("%s: syncGenesisHeader panicked: %s", what, res.Panic)
			}
			after := w.Dump()
			if lc.installed {
				// a LATER attempt: must fail and change nothing, whoever signs and whatever the data
				c19Count(lc.router + ":reinstall-attempts")
				if res.Err == nil {
					if d := world.DiffDump(before, after); d != "" {
						ctx.Known(lc.router+"-genesis-reinstall-accepted", "%s: trust root g%d already installed (%d headers synced since), yet the call succeeded and changed the store: %s",
							what, lc.variant, lc.synced, d)
						restoreStore(w, before)
					} else {
						ctx.Known(lc.router+"-genesis-reinstall-reports-success", "%s: trust root g%d already installed, the call reports success (store unchanged)", what, lc.variant)
					}
					ctx.Label(lc.router + ":reinstall-NOT-refused(known finding)")
					continue
				}
				if d := world.DiffDump(before, after); d != "" {
					ctx.Failf("%s: refused re-installation changed the store: %s", what, d)
				}
				c19Count(lc.router + ":reinstall-refused")
				ctx.Label(lc.router + ":reinstall-refused:" + op.Signer)
				if op.G != lc.variant && lc.synced > 0 {
					nontrivial = true
					ctx.Label(lc.router + ":reinstall-different-data-after-sync")
				}
				continue
			}
			// FIRST attempt for this chain id
			if op.Signer == "operator" {
				if res.Err != nil {
					ctx.Failf("%s: the first installation by the consensus operator was refused: %v", what, res.Err)
				}
			} else if res.Err == nil {
				// who may install is property C18's matter; here the chain simply counts as installed
				ctx.Label(lc.router + ":first-install-by-non-operator-accepted(C18 matter, not judged)")
			}
			if res.Err != nil {
				if d := world.DiffDump(before, after); d != "" {
					ctx.Failf("%s: refused installation changed the store: %s", what, d)
				}
				ctx.Label(lc.router + ":first-install-refused:" + op.Signer)
				continue
			}
			for _, k := range changedKeys(before, after) {
				if !keyBelongsTo(k, lc.id) {
					ctx.Failf("%s: installation touched a key outside chain %d: %x", what, lc.id, k)
				}
			}
			if len(changedKeys(before, after)) == 0 {
				ctx.Failf("%s: installation reported success but stored nothing", what)
			}
			lc.installed, lc.variant, lc.synced, lc.ethTip, lc.btcTip = true, op.G, 0, eh, bh
			c19Count(lc.router + ":installed")
			ctx.Label(lc.router + ":installed")
		case "sync":
			what += fmt.Sprintf(" %d headers)", op.N)
			if !lc.installed {
				// nothing to build on: submit headers over the would-be g1 root; must be refused
				_, eh, bh := lc.genesis(ctx, 0)
				tmp := *lc
				tmp.ethTip, tmp.btcTip = eh, bh
				raws, _, _ := tmp.next(ctx, op.N, 13)
				res := syncHeaders(w, lc.id, raws)
				if res.Panic != "" {
					ctx.Failf("%s: SyncBlockHeader panicked without a trust root: %s", what, res.Panic)
				}
				if res.Err == nil && world.DiffDump(before, w.Dump()) != "" {
					ctx.Failf("%s: headers were stored for a chain without a trust root", what)
				}
				ctx.Label(lc.router + ":sync-without-root-refused")
				continue
			}
			raws, eth, btc := lc.next(ctx, op.N, 13)
			res := syncHeaders(w, lc.id, raws)
			if !res.OK() {
				ctx.Failf("%s: valid headers on the installed root were refused: %v %s", what, res.Err, res.Panic)
			}
			for _, k := range changedKeys(before, w.Dump()) {
				if !keyBelongsTo(k, lc.id) {
					ctx.Failf("%s: header sync touched a key outside chain %d: %x", what, lc.id, k)
				}
			}
			lc.synced += op.N
			if lc.router == "eth" {
				lc.ethTip = eth[len(eth)-1]
			} else {
				lc.btcTip = btc[len(btc)-1]
			}
			ctx.Label(lc.router + ":synced")
		}
	}
	if nontrivial {
		ctx.NonTrivial()
	}
}

func TestC19(t *testing.T) {
	id := unitID("C19")
	defer func() {
		c19Mu.Lock()
		ev.Get(id).Extra("routers", c19Routers)
		c19Mu.Unlock()
	}()
	ev.Drive(t, id,
		"unit TestC19 (routers eth, btc): a history of 2..12 calls over two chain ids of the router under test and one of the other router (all registered): "+
			"syncGenesisHeader with trust-root variant g1/g2/g3 signed by operator / single validator / chain owner / outsider / nobody, and syncBlockHeader of 1..3 valid headers on the "+
			"installed root. Once a root is installed every later syncGenesisHeader for that chain id must return an error with a byte-identical state dump; successful calls may "+
			"only touch keys of their own chain id. non-trivial: a re-installation with different data after >= 1 synced header; distinct by JSON encoding",
		genC19, runC19)
}

// TestC19Pow: the same unit under a package-unique name (its regress directory C19.TestC19Pow is then not shared).
func TestC19Pow(t *testing.T) { TestC19(t) }
