package ppow

import (
	"encoding/json"
	"fmt"
	"os"
	"sort"
	"strings"
	"sync"
	"testing"

	"github.com/polynetwork/poly/common"
	"github.com/polynetwork/poly/common/verifclock"
	hscommon "github.com/polynetwork/poly/native/service/header_sync/common"
	"github.com/polynetwork/poly/native/service/utils"
	"pgregory.net/rapid"

	"verif/harness/ev"
	"verif/harness/world"
)

// ---------------------------------------------------------------------------------------------
// C16 part B (unit TestC16B, routers ETH and BTC): transaction execution does not consult the wall
// clock or a random source, and its outcome does not depend on the wall-clock time.

type c16Tx struct {
	N    int   `json:"n"`    // headers in the call (1..3)
	Offs []int `json:"offs"` // header time = now + off (made strictly increasing along the chain inside run)
	E1   int   `json:"e1"`   // clock of fork 1 = (latest header time - 15) - 1 - e1   (header lies in the future)
	E2   int   `json:"e2"`   // clock of fork 2 = (latest header time - 15) + e2       (header is admissible)
}

type c16Case struct {
	Router  string  `json:"router"`
	Net     uint32  `json:"net"`
	RootNum uint64  `json:"rootNum"`
	Now     int64   `json:"now"` // the generated "present"; header times lie within +-100 s of it
	Txs     []c16Tx `json:"txs"`
}

func (c *c16Case) UnmarshalJSON(b []byte) error {
	type plain c16Case
	var p plain
	if err := json.Unmarshal(b, &p); err != nil || (p.Router != "eth" && p.Router != "btc") || len(p.Txs) == 0 {
		*c = c16Case{Router: "foreign"}
		return nil
	}
	*c = c16Case(p)
	return nil
}

func genC16B(t *rapid.T) c16Case {
	c := c16Case{Router: rapid.SampledFrom([]string{"eth", "eth", "btc"}).Draw(t, "router"), Net: rapid.SampledFrom([]uint32{1, 2}).Draw(t, "net"),
		Now: rapid.Int64Range(1_400_000_000, 1_900_000_000).Draw(t, "now")}
	if r := os.Getenv("PPOW_ROUTER"); r != "" {
		c.Router = r
	}
	if c.Router == "eth" {
		c.RootNum = genSyncRootNum(c.Net).Draw(t, "rootNum")
	} else {
		c.RootNum = rapid.Uint64Range(0, 5000).Draw(t, "rootNum")
	}
	c.Txs = rapid.SliceOfN(rapid.Custom(func(t *rapid.T) c16Tx {
		n := rapid.IntRange(1, 3).Draw(t, "n")
		return c16Tx{N: n, Offs: rapid.SliceOfN(rapid.IntRange(-100, 100), n, n).Draw(t, "offs"),
			E1: rapid.IntRange(0, 50).Draw(t, "e1"), E2: rapid.IntRange(0, 50).Draw(t, "e2")}
	}), 1, 4).Draw(t, "txs")
	return c
}

var (
	c16Mu    sync.Mutex
	c16Sites = map[string]int{}
)

// siteKey turns a snapshot key "time.Now in pkg.func" into the finding key "clock:pkg.func".
func siteKey(snapKey string) string {
	if i := strings.Index(snapKey, " in "); i >= 0 {
		return "clock:" + snapKey[i+4:]
	}
	return "clock:" + snapKey
}

type c16Run struct {
	res   world.Result
	dump  [][2][]byte
	sites map[string]int
}

// execUnder executes tx on the current state under the given fake wall clock, monitored.
func execUnder(w *world.World, contract common.Address, method string, args []byte, signers []common.Address, clock int64) c16Run {
	tx := w.MakeTx(contract, method, args, signers)
	verifclock.Reset()
	verifclock.SetFake(clock)
	res := w.Exec(tx)
	sites := verifclock.Snapshot()
	verifclock.Reset()
	c16Mu.Lock()
	for k, v := range sites {
		c16Sites[k] += v
	}
	c16Mu.Unlock()
	return c16Run{res: res, dump: w.Dump(), sites: sites}
}

func sortedKeys(m map[string]int) []string {
	var ks []string
	for k := range m {
		ks = append(ks, k)
	}
	sort.Strings(ks)
	return ks
}

func runC16B(ctx *ev.Ctx, c c16Case) {
	if c.Router != "eth" && c.Router != "btc" {
		ctx.Label("regression-file-of-another-unit(skipped)")
		return
	}
	for i := range c.Txs { // hand-written regression files: keep the fields in the generated domain
		if c.Txs[i].N < 1 || len(c.Txs[i].Offs) == 0 {
			c.Txs[i].N, c.Txs[i].Offs = 1, []int{0}
		}
	}
	ctx.Label("router:" + c.Router)
	restore := sealSwitch()
	defer restore()
	defer verifclock.ClearFake()
	w := newWorldWithChains(c.Net, powChains)
	lc := &lightChain{id: 2, router: "eth", net: c.Net, rootNum: c.RootNum}
	if c.Router == "btc" {
		lc = &lightChain{id: 1, router: "btc", net: c.Net, rootNum: c.RootNum}
	}
	// trust root 200 s before the generated present; installation is a monitored transaction too
	raw, eh, bh := lc.genesis(ctx, 0)
	if eh != nil {
		eh.Time = uint64(c.Now - 200)
		raw = headerJSON(eh)
	} else {
		bh.Time = uint32(c.Now - 200)
		raw = append(bh.bytes(), raw[80:]...)
	}
	g := execUnder(w, utils.HeaderSyncContractAddress, hscommon.SYNC_GENESIS_HEADER, genesisArgs(lc.id, raw), []common.Address{w.Operator()}, c.Now)
	if !g.res.OK() {
		ctx.Failf("fixture: syncGenesisHeader by the operator failed: %v", g.res.Err)
	}
	for _, k := range sortedKeys(g.sites) {
		ctx.Known(siteKey(k), "syncGenesisHeader (%s router) consulted: %s x%d", c.Router, k, g.sites[k])
	}
	lc.installed, lc.ethTip, lc.btcTip = true, eh, bh
	straddled := false
	for ti, tx := range c.Txs {
		// headers with times now+off, strictly increasing and after the tip
		var tipTime uint64
		if lc.router == "eth" {
			tipTime = lc.ethTip.Time
		} else {
			tipTime = uint64(lc.btcTip.Time)
		}
		var raws [][]byte
		var latest uint64
		tmp := *lc
		for i := 0; i < tx.N; i++ {
			want := uint64(c.Now + int64(tx.Offs[i%len(tx.Offs)]))
			if want <= tipTime {
				want = tipTime + 1
			}
			r, e, b := tmp.next(ctx, 1, want-tipTime)
			raws = append(raws, r[0])
			if e != nil {
				tmp.ethTip = e[0]
			} else {
				tmp.btcTip = b[0]
			}
			tmp.synced++
			tipTime, latest = want, want
		}
		args, signers := syncHeadersArgs(lc.id, raws)
		t1 := int64(latest) - 15 - 1 - int64(tx.E1) // latest header > t1+15: "future block" for a clock-reading handler
		t2 := int64(latest) - 15 + int64(tx.E2)     // every header <= t2+15
		what := fmt.Sprintf("tx %d (syncBlockHeader, %s router, %d headers, latest header time %d; clocks %d / %d)", ti, c.Router, tx.N, latest, t1, t2)
		before := w.Dump()
		r1 := execUnder(w, utils.HeaderSyncContractAddress, hscommon.SYNC_BLOCK_HEADER, args, signers, t1)
		restoreStore(w, before)
		r2 := execUnder(w, utils.HeaderSyncContractAddress, hscommon.SYNC_BLOCK_HEADER, args, signers, t2)
		if r1.res.Panic != "" || r2.res.Panic != "" {
			ctx.Failf("%s: panicked: %s %s", what, r1.res.Panic, r2.res.Panic)
		}
		straddled = true
		// (monitor) every consultation of the clock / an entropy source is a finding, keyed by site
		all := map[string]int{}
		for k, v := range r1.sites {
			all[k] += v
		}
		for k, v := range r2.sites {
			all[k] += v
		}
		// (differential) the same transaction on the same state under two wall clocks
		diverge := ""
		if (r1.res.Err == nil) != (r2.res.Err == nil) {
			diverge = fmt.Sprintf("outcome depends on the wall clock: under clock %d -> %v; under clock %d -> %v", t1, errStr(r1.res.Err), t2, errStr(r2.res.Err))
		} else if d := world.DiffDump(r1.dump, r2.dump); d != "" {
			diverge = fmt.Sprintf("resulting state depends on the wall clock (clocks %d / %d): %s", t1, t2, d)
		}
		if diverge != "" {
			ctx.Label(c.Router + ":outcome-depends-on-clock")
			if len(all) == 0 {
				ctx.Failf("%s: %s - and no clock / entropy consultation was recorded by the monitor", what, diverge)
			}
		} else {
			ctx.Label(c.Router + ":outcome-independent-of-clock")
		}
		for _, k := range sortedKeys(all) {
			msg := fmt.Sprintf("%s consulted: %s x%d", what, k, all[k])
			if diverge != "" {
				msg += "; " + diverge
			}
			ctx.Known(siteKey(k), "%s", msg)
		}
		// continue on the state of the second fork; the model tip advances only if it was accepted
		if r2.res.Err == nil {
			*lc = tmp
			ctx.Label(c.Router + ":synced")
		} else {
			ctx.Label(c.Router + ":refused-under-both")
		}
	}
	if straddled {
		ctx.NonTrivial()
	}
}

func errStr(err error) string {
	if err == nil {
		return "success"
	}
	s := err.Error()
	if len(s) > 160 {
		s = s[:160] + "..."
	}
	return "error: " + s
}

func TestC16B(t *testing.T) {
	id := unitID("C16")
	defer func() {
		c16Mu.Lock()
		ev.Get(id).Extra("clock_sites", c16Sites)
		c16Mu.Unlock()
	}()
	ev.Drive(t, id,
		"unit TestC16B (header-sync transactions of the eth and btc routers): a trust-root installation and 1..4 syncBlockHeader transactions of 1..3 valid headers whose times lie "+
			"within +-100 s of a generated present. Every transaction is executed with the clock / entropy monitor armed (instrumented native sources); every syncBlockHeader "+
			"transaction is executed twice from the same state under two fake wall clocks that straddle the 15 s future-block window of its latest header, and success and resulting "+
			"state dump are compared. non-trivial: at least one transaction executed under both clocks; distinct by JSON encoding",
		genC16B, runC16B)
}

// TestC16BPow: the same unit under a package-unique name (regress directory C16.TestC16BPow, not shared).
func TestC16BPow(t *testing.T) { TestC16B(t) }
