package ppow

// Reference model of the Ethereum header rules, written from the specifications:
//   RLP + header hash            Yellow Paper app. B / EIP-1559 (base fee appended as 16th field)
//   difficulty                   EIP-100 adjustment + EIP-649-style delayed bomb, delays from
//                                EIP-2384 (9,000,000), EIP-3554 (9,700,000), EIP-4345 (10,700,000)
//   gas limit                    Yellow Paper (45)-(47) / EIP-1559 (strict +-parent/1024, >= 5000)
//   base fee                     EIP-1559
//   ethash cache / dataset size  ethash spec: largest size below the linear bound with a prime
//                                number of rows
// Nothing in this file calls into the code under test.

import (
	"encoding/hex"
	"encoding/json"
	"fmt"
	"math/big"

	"golang.org/x/crypto/sha3"

	"verif/harness/ev"
)

// ---- header as data --------------------------------------------------------------------------

type hdr struct {
	Parent   ev.B    `json:"parent"`            // 32
	Uncle    ev.B    `json:"uncle"`             // 32
	Coinbase ev.B    `json:"coinbase"`          // 20
	Root     ev.B    `json:"root"`              // 32
	Tx       ev.B    `json:"tx"`                // 32
	Receipt  ev.B    `json:"receipt"`           // 32
	Bloom    ev.B    `json:"bloom,omitempty"`   // prefix of the 256-byte bloom (rest zero)
	Diff     string  `json:"diff"`              // hex without 0x
	Number   string  `json:"number"`            // hex without 0x
	GasLimit uint64  `json:"gasLimit"`
	GasUsed  uint64  `json:"gasUsed"`
	Time     uint64  `json:"time"`
	Extra    ev.B    `json:"extra,omitempty"`
	Mix      ev.B    `json:"mix,omitempty"`     // 32
	Nonce    uint64  `json:"nonce"`
	BaseFee  *string `json:"baseFee,omitempty"` // hex without 0x; nil = legacy header
}

func hexBig(s string) *big.Int {
	if s == "" {
		return new(big.Int)
	}
	v, ok := new(big.Int).SetString(s, 16)
	if !ok {
		panic("bad hex big: " + s)
	}
	return v
}

func bigHex(v *big.Int) string { return v.Text(16) }

func (h *hdr) diff() *big.Int   { return hexBig(h.Diff) }
func (h *hdr) number() *big.Int { return hexBig(h.Number) }
func (h *hdr) baseFee() *big.Int {
	if h.BaseFee == nil {
		return nil
	}
	return hexBig(*h.BaseFee)
}
func (h *hdr) setBaseFee(v *big.Int) {
	if v == nil {
		h.BaseFee = nil
		return
	}
	s := bigHex(v)
	h.BaseFee = &s
}

func fixed(b []byte, n int) []byte {
	out := make([]byte, n)
	copy(out, b)
	return out
}

func (h *hdr) bloom() []byte { return fixed(h.Bloom, 256) }

// emptyUncleHash = keccak256(rlp([])) - the hash of an empty uncle list.
var emptyUncleHash = keccak256([]byte{0xc0})

func (h *hdr) hasUncles() bool { return string(fixed(h.Uncle, 32)) != string(emptyUncleHash) }

// ---- RLP -------------------------------------------------------------------------------------

func beMinimal(v uint64) []byte {
	var out []byte
	for v > 0 {
		out = append([]byte{byte(v)}, out...)
		v >>= 8
	}
	return out
}

func rlpLen(n int, offset byte) []byte {
	if n < 56 {
		return []byte{offset + byte(n)}
	}
	l := beMinimal(uint64(n))
	return append([]byte{offset + 55 + byte(len(l))}, l...)
}

func rlpString(b []byte) []byte {
	if len(b) == 1 && b[0] < 0x80 {
		return []byte{b[0]}
	}
	return append(rlpLen(len(b), 0x80), b...)
}

func rlpUint(v uint64) []byte   { return rlpString(beMinimal(v)) }
func rlpBig(v *big.Int) []byte  { return rlpString(v.Bytes()) } // non-negative only
func rlpList(items ...[]byte) []byte {
	var body []byte
	for _, it := range items {
		body = append(body, it...)
	}
	return append(rlpLen(len(body), 0xc0), body...)
}

func keccak256(b []byte) []byte {
	k := sha3.NewLegacyKeccak256()
	k.Write(b)
	return k.Sum(nil)
}

// refHash: keccak256(rlp([parent, uncles, coinbase, state, tx, receipts, bloom, difficulty, number,
// gasLimit, gasUsed, time, extra, mixHash, nonce(8 bytes) (, baseFee)])).
func refHash(h *hdr) [32]byte {
	var nonce [8]byte
	for i := 0; i < 8; i++ {
		nonce[i] = byte(h.Nonce >> (8 * uint(7-i)))
	}
	items := [][]byte{
		rlpString(fixed(h.Parent, 32)), rlpString(fixed(h.Uncle, 32)), rlpString(fixed(h.Coinbase, 20)),
		rlpString(fixed(h.Root, 32)), rlpString(fixed(h.Tx, 32)), rlpString(fixed(h.Receipt, 32)), rlpString(h.bloom()),
		rlpBig(h.diff()), rlpBig(h.number()), rlpUint(h.GasLimit), rlpUint(h.GasUsed), rlpUint(h.Time), rlpString(h.Extra),
		rlpString(fixed(h.Mix, 32)), rlpString(nonce[:]),
	}
	if h.BaseFee != nil {
		items = append(items, rlpBig(h.baseFee()))
	}
	var out [32]byte
	copy(out[:], keccak256(rlpList(items...)))
	return out
}

// refSealHash: the ethash "header hash without seal": the first 13 fields (plus base fee).
func refSealHash(h *hdr) [32]byte {
	items := [][]byte{
		rlpString(fixed(h.Parent, 32)), rlpString(fixed(h.Uncle, 32)), rlpString(fixed(h.Coinbase, 20)),
		rlpString(fixed(h.Root, 32)), rlpString(fixed(h.Tx, 32)), rlpString(fixed(h.Receipt, 32)), rlpString(h.bloom()),
		rlpBig(h.diff()), rlpBig(h.number()), rlpUint(h.GasLimit), rlpUint(h.GasUsed), rlpUint(h.Time), rlpString(h.Extra),
	}
	if h.BaseFee != nil {
		items = append(items, rlpBig(h.baseFee()))
	}
	var out [32]byte
	copy(out[:], keccak256(rlpList(items...)))
	return out
}

// headerJSON renders the header in the JSON-RPC field format the ETH router decodes.
func headerJSON(h *hdr) []byte {
	q := func(v *big.Int) string { return "0x" + v.Text(16) }
	u := func(v uint64) string { return fmt.Sprintf("0x%x", v) }
	x := func(b []byte) string { return "0x" + hex.EncodeToString(b) }
	var nonce [8]byte
	for i := 0; i < 8; i++ {
		nonce[i] = byte(h.Nonce >> (8 * uint(7-i)))
	}
	m := map[string]string{
		"parentHash": x(fixed(h.Parent, 32)), "sha3Uncles": x(fixed(h.Uncle, 32)), "miner": x(fixed(h.Coinbase, 20)),
		"stateRoot": x(fixed(h.Root, 32)), "transactionsRoot": x(fixed(h.Tx, 32)), "receiptsRoot": x(fixed(h.Receipt, 32)),
		"logsBloom": x(h.bloom()), "difficulty": q(h.diff()), "number": q(h.number()), "gasLimit": u(h.GasLimit),
		"gasUsed": u(h.GasUsed), "timestamp": u(h.Time), "extraData": x(h.Extra), "mixHash": x(fixed(h.Mix, 32)),
		"nonce": x(nonce[:]),
	}
	if h.BaseFee != nil {
		m["baseFeePerGas"] = q(h.baseFee())
	}
	b, err := json.Marshal(m)
	if err != nil {
		panic(err)
	}
	return b
}

// ---- difficulty ------------------------------------------------------------------------------

const (
	delayMuirGlacier  = 9_000_000  // EIP-2384
	delayLondon       = 9_700_000  // EIP-3554
	delayArrowGlacier = 10_700_000 // EIP-4345

	mainnetMuirGlacier  = 9_200_000  // EIP-2387
	mainnetLondon       = 12_965_000 // EIP-3554 activation
	mainnetArrowGlacier = 13_773_000 // EIP-4345 activation
	mainnetGrayGlacier  = 15_050_000 // EIP-5133 activation (delay 11,400,000)
	ropstenMuirGlacier  = 7_117_117
	ropstenLondon       = 10_499_401
)

var minimumDifficulty = big.NewInt(131072)

// refDifficulty: EIP-100 adjustment, floor 131072, plus floor(2^(fake/100000 - 2)) where
// fake = max(0, block.number - delay), block.number = parent.number + 1.
func refDifficulty(delay uint64, childTime, parentTime uint64, parentDiff, parentNumber *big.Int, parentHasUncles bool) *big.Int {
	dt := new(big.Int).Sub(new(big.Int).SetUint64(childTime), new(big.Int).SetUint64(parentTime))
	q := new(big.Int).Quo(dt, big.NewInt(9)) // dt > 0 in the judged domain
	base := int64(1)
	if parentHasUncles {
		base = 2
	}
	adj := new(big.Int).Sub(big.NewInt(base), q)
	if adj.Cmp(big.NewInt(-99)) < 0 {
		adj = big.NewInt(-99)
	}
	d := new(big.Int).Quo(parentDiff, big.NewInt(2048))
	d.Mul(d, adj)
	d.Add(d, parentDiff)
	if d.Cmp(minimumDifficulty) < 0 {
		d = new(big.Int).Set(minimumDifficulty)
	}
	blockNumber := new(big.Int).Add(parentNumber, big.NewInt(1))
	fake := new(big.Int).Sub(blockNumber, new(big.Int).SetUint64(delay))
	if fake.Sign() < 0 {
		fake = new(big.Int)
	}
	period := new(big.Int).Quo(fake, big.NewInt(100000))
	if period.Cmp(big.NewInt(2)) >= 0 {
		e := new(big.Int).Sub(period, big.NewInt(2))
		if !e.IsUint64() || e.Uint64() > 1<<20 {
			panic("refDifficulty: bomb exponent out of the generated domain")
		}
		d.Add(d, new(big.Int).Lsh(big.NewInt(1), uint(e.Uint64())))
	}
	return d
}

// forks the light client claims per poly network id (1 = main net: Ethereum main net;
// everything else: Ropsten schedule).
func londonHeight(net uint32) uint64 {
	if net == 1 {
		return mainnetLondon
	}
	return ropstenLondon
}

// refDelay: the bomb delay in force for a block of the given number (claimed eras only).
func refDelay(net uint32, number uint64, london bool) uint64 {
	if net == 1 && number >= mainnetArrowGlacier {
		return delayArrowGlacier
	}
	if london {
		return delayLondon
	}
	return delayMuirGlacier
}

// ---- gas limit and base fee ------------------------------------------------------------------

// refGasLimitOK: |limit - parent| < parent/1024 and limit >= 5000 (parent already multiplied by
// the elasticity multiplier at the London transition).
func refGasLimitOK(parentEff, limit uint64) bool {
	p, l := new(big.Int).SetUint64(parentEff), new(big.Int).SetUint64(limit)
	d := new(big.Int).Sub(p, l)
	d.Abs(d)
	bound := new(big.Int).Quo(p, big.NewInt(1024))
	return d.Cmp(bound) < 0 && limit >= 5000
}

const initialBaseFee = 1_000_000_000

// refBaseFee: EIP-1559 expected base fee of the child of `parent`.
func refBaseFee(parentLondon bool, parentGasLimit, parentGasUsed uint64, parentBaseFee *big.Int) *big.Int {
	if !parentLondon {
		return big.NewInt(initialBaseFee)
	}
	target := parentGasLimit / 2
	if parentGasUsed == target {
		return new(big.Int).Set(parentBaseFee)
	}
	t := new(big.Int).SetUint64(target)
	if parentGasUsed > target {
		delta := new(big.Int).SetUint64(parentGasUsed - target)
		x := new(big.Int).Mul(parentBaseFee, delta)
		x.Quo(x, t)
		x.Quo(x, big.NewInt(8))
		if x.Cmp(big.NewInt(1)) < 0 {
			x = big.NewInt(1)
		}
		return x.Add(x, parentBaseFee)
	}
	delta := new(big.Int).SetUint64(target - parentGasUsed)
	x := new(big.Int).Mul(parentBaseFee, delta)
	x.Quo(x, t)
	x.Quo(x, big.NewInt(8))
	return new(big.Int).Sub(parentBaseFee, x)
}

// ---- ethash sizes ----------------------------------------------------------------------------

func isPrimeTrial(n uint64) bool {
	if n < 2 {
		return false
	}
	if n%2 == 0 {
		return n == 2
	}
	for d := uint64(3); d*d <= n; d += 2 {
		if n%d == 0 {
			return false
		}
	}
	return true
}

// ethash spec: get_cache_size / get_full_size.
var sizeMemo = map[[2]uint64]uint64{}

func refCacheSize(block uint64) uint64 {
	if v, ok := sizeMemo[[2]uint64{0, block / 30000}]; ok {
		return v
	}
	v := refCacheSizeRaw(block)
	sizeMemo[[2]uint64{0, block / 30000}] = v
	return v
}

func refDatasetSize(block uint64) uint64 {
	if v, ok := sizeMemo[[2]uint64{1, block / 30000}]; ok {
		return v
	}
	v := refDatasetSizeRaw(block)
	sizeMemo[[2]uint64{1, block / 30000}] = v
	return v
}

func refCacheSizeRaw(block uint64) uint64 {
	sz := uint64(1<<24) + uint64(1<<17)*(block/30000) - 64
	for !isPrimeTrial(sz / 64) {
		sz -= 2 * 64
	}
	return sz
}

func refDatasetSizeRaw(block uint64) uint64 {
	sz := uint64(1<<30) + uint64(1<<23)*(block/30000) - 128
	for !isPrimeTrial(sz / 128) {
		sz -= 2 * 128
	}
	return sz
}
