package ptypes

import (
	"testing"

	"verif/harness/ev"
)

// Native coverage-guided fuzz targets: the fuzzer's bytes are read through a small total data provider
// that builds the SAME case types the rapid generators build; the oracles are runC02 / runC39 unchanged.

type prov struct {
	d []byte
	i int
}

func (p *prov) u8() byte {
	if p.i >= len(p.d) {
		return 0
	}
	b := p.d[p.i]
	p.i++
	return b
}
func (p *prov) n(max int) int { return int(p.u8()) % (max + 1) } // 0..max
func (p *prov) u16() uint16   { return uint16(p.u8()) | uint16(p.u8())<<8 }
func (p *prov) u32() uint32   { return uint32(p.u16()) | uint32(p.u16())<<16 }
func (p *prov) u64() uint64   { return uint64(p.u32()) | uint64(p.u32())<<32 }
func (p *prov) bytes(k int) []byte {
	out := make([]byte, k)
	for i := range out {
		out[i] = p.u8()
	}
	return out
}
func (p *prov) rest() []byte {
	if p.i >= len(p.d) {
		return []byte{}
	}
	r := append([]byte{}, p.d[p.i:]...)
	p.i = len(p.d)
	return r
}

// interesting 64-bit values are reachable with one byte
func (p *prov) val() uint64 {
	s := p.u8()
	if int(s) < len(boundaryVals) {
		return boundaryVals[s]
	}
	if s < 0x80 {
		return uint64(p.u8())
	}
	return p.u64()
}

func (p *prov) sigs(max int) []c02Sig {
	out := make([]c02Sig, p.n(max))
	for i := range out {
		nk := 1 + p.n(3)
		if p.u8() == 0xEE {
			nk = 17
		}
		for k := 0; k < nk; k++ {
			out[i].Keys = append(out[i].Keys, int(p.u8())%canonicalKeys())
		}
		out[i].M = p.u16()
		nd := p.n(3)
		out[i].Data = []ev.B{}
		for k := 0; k < nd; k++ {
			out[i].Data = append(out[i].Data, p.bytes(p.n(9)))
		}
	}
	return out
}

func (p *prov) tx() c02Tx {
	t := c02Tx{Nonce: p.u32(), ChainID: p.val(), GasLimit: p.val(), GasPrice: uint64(p.u8()), Payer: p.bytes(20)}
	switch cl := p.u8(); {
	case cl == 0xFF:
		t.CodeLen, t.CodeFill = []int{0xFC, 0xFD, 0xFFFF, 0x10000}[p.n(3)], p.u8()
	default:
		t.Code = p.bytes(int(cl) % 24)
	}
	t.Sigs = p.sigs(3)
	return t
}

func (p *prov) hdr() c02Hdr {
	h := c02Hdr{ChainID: p.val(), Prev: p.bytes(32), TxRoot: p.bytes(32), Cross: p.bytes(32), BlockRoot: p.bytes(32),
		Timestamp: p.u32(), Height: p.u32(), ConsensusData: p.val(), Payload: p.bytes(p.n(20)), NextBK: p.bytes(20),
		BK: []int{}, Sigs: []ev.B{}}
	for k, n := 0, p.n(4); k < n; k++ {
		h.BK = append(h.BK, int(p.u8())%canonicalKeys())
	}
	for k, n := 0, p.n(4); k < n; k++ {
		h.Sigs = append(h.Sigs, p.bytes(p.n(9)))
	}
	return h
}

var fuzzOps = []string{"trunc", "count", "count", "set", "insert", "append"}

func (p *prov) ops() []c02Op {
	out := make([]c02Op, 1+p.n(2))
	for i := range out {
		op := c02Op{Op: fuzzOps[p.n(len(fuzzOps)-1)], Pos: int(p.u16())}
		if p.u8()&1 == 1 {
			op.Pos |= 1 << 19 // non-minimal var-uint form for "count"
		}
		switch op.Op {
		case "count":
			op.Val = p.val()
		case "set":
			op.Val = uint64(p.u8())
		case "insert", "append":
			op.Raw = p.bytes(1 + p.n(11))
		}
		out[i] = op
	}
	return out
}

var fuzzKinds = []string{"tx", "header", "block"}

// selector layout: byte 0 = kind, byte 1 = mode; mode "random": the rest is the wire input as is.
var fuzzModes = map[string][]string{
	"tx":     {"random", "random", "bytes", "bytes", "roundtrip", "resign", "oversize"},
	"header": {"random", "random", "bytes", "bytes", "roundtrip", "resign"},
	"block":  {"random", "random", "bytes", "bytes", "roundtrip", "resign", "dup", "dup", "badroot", "oversize"},
}

func decodeFuzzC02(d []byte) (c02Case, bool) {
	if len(d) < 2 {
		return c02Case{}, false
	}
	p := &prov{d: d}
	c := c02Case{Kind: fuzzKinds[p.n(2)]}
	ms := fuzzModes[c.Kind]
	c.Mode = ms[p.n(len(ms)-1)]
	if c.Mode == "random" {
		c.Raw = p.rest()
		return c, true
	}
	// mode parameters first, then transactions, then the header: short inputs stay meaningful
	pa, pb, pc := p.u8(), p.u8(), p.u8()
	switch c.Kind {
	case "tx":
		t := p.tx()
		c.Tx = &t
	case "header":
		h := p.hdr()
		c.Hdr = &h
	case "block":
		c.Txs = make([]c02Tx, int(pc)%7)
		if c.Mode == "oversize" {
			c.Txs = make([]c02Tx, 1)
		}
		for i := range c.Txs {
			c.Txs[i] = p.tx()
		}
	}
	switch c.Mode {
	case "resign":
		if c.Kind != "header" {
			c.Alt = p.sigs(3)
		}
		if c.Kind != "tx" {
			c.AltBK = []int{int(pa) % canonicalKeys()}
			c.AltSigs = []ev.B{p.bytes(int(pb) % 10)}
		}
	case "oversize":
		c.Delta = []int{-2, -1, 0, 1, 2, 700}[int(pa)%6]
	case "dup":
		c.A, c.B = int(pa), int(pb)
		c.Alt = p.sigs(2)
	case "badroot":
		c.A, c.B = int(pa), int(pb)%3
	case "bytes":
		c.Ops = p.ops()
	}
	if c.Kind == "block" {
		h := p.hdr()
		c.Hdr = &h
	}
	return c, true
}

func FuzzC02(f *testing.F) {
	initPool()
	// genuine small encodings from the reference encoder, fed as arbitrary wire bytes (kind, mode "random")
	tx := c02Tx{Nonce: 7, ChainID: 2, GasLimit: 1, Code: []byte{1, 2, 3}, Payer: make([]byte, 20),
		Sigs: []c02Sig{{Keys: []int{0}, M: 1, Data: []ev.B{{9, 9}}}, {Keys: []int{1, 20, 23}, M: 2, Data: []ev.B{{}, {1}}}}}
	var wt wr
	tx.enc(&wt, tx.Sigs)
	hd := c02Hdr{ChainID: 2, Height: 5, Timestamp: 99, Payload: []byte("vbft"), BK: []int{0, 21, 24}, Sigs: []ev.B{{1, 2, 3}}}
	var wh wr
	hd.enc(&wh, nil, hd.BK, hd.Sigs)
	bare := c02Tx{Nonce: 8, Payer: make([]byte, 20)}
	blk := planBlock(&hd, []c02Tx{tx, bare}, [][]c02Sig{tx.Sigs, nil}, nil, hd.BK, hd.Sigs)
	f.Add(append([]byte{0, 0}, wt.b...))
	f.Add(append([]byte{1, 0}, wh.b...))
	f.Add(append([]byte{2, 0}, blk.raw...))
	// hostile constants
	var wu wr
	bare.encUnsigned(&wu)
	f.Add(append(append([]byte{0, 0}, wu.b...), 0xff, 0xff, 0xff, 0xff, 0xff, 0xff, 0xff, 0xff, 0x7f))     // F1
	f.Add(append(append([]byte{0, 0}, wu.b...), 0xfe, 0xff, 0xff, 0xff, 0xff))                             // 2^32-1 entries
	f.Add(append(append([]byte{0, 0}, wu.b...), 0x01, 0xff, 0xff, 0xfd, 0xff, 0xff))                       // 65535 signature blobs, huge blob
	f.Add(append(append([]byte{1, 0}, wh.b[:len(wh.b)-40]...), 0xff, 0, 0, 0, 0, 0, 0, 0, 0x80, 0xfd, 1))  // bookkeeper count 2^63
	f.Add(append(append([]byte{2, 0}, blk.raw[:blk.txStart[0]-4]...), 0xff, 0xff, 0xff, 0xff, 0, 0xd1, 0)) // 2^32-1 transactions
	f.Add([]byte{0, 0, 0, 0xd1, 0xfd})
	f.Add([]byte{1, 0, 0, 0, 0, 0, 0xff})
	// structured modes: provider bytes (all-zero objects plus a few selectors)
	for kind := byte(0); kind < 3; kind++ {
		for mode := byte(2); mode < 10; mode++ {
			s := make([]byte, 70)
			s[0], s[1], s[2], s[3], s[4] = kind, mode, 3, 1, 2
			s[5], s[34] = 1, 2 // nonces of the first two transactions
			f.Add(s)
		}
	}
	// block, mode dup: 3 transactions with nonces 1,2,3 (tx = 4 nonce + chain + gaslimit + gasprice + 20 payer + code class + nsigs = 29 bytes),
	// copy of the LAST tx appended at the end
	dup := make([]byte, 5+3*29)
	dup[0], dup[1], dup[2], dup[3], dup[4] = 2, 6, 2, 3, 3
	for i := 0; i < 3; i++ {
		dup[5+29*i] = byte(i + 1)
	}
	f.Add(dup)
	ev.Fuzz(f, "C02", "TestC02", decodeFuzzC02, runC02)
}

// ---------------------------------------------------------------------------------------------

var fuzzC39Keys = []int{0, 1, 2, 3, 20, 23, 26, 27, 28, 29} // P-256 x4, SM2, Ed25519, secp256k1, P-384, two off-curve keys
var fuzzC39Kinds = []string{"ok", "ok", "ok", "ok", "ok512", "okpref", "otherhash", "trunc", "flip", "garbage", "repeat"}

func decodeFuzzC39(d []byte) (c39Case, bool) {
	if len(d) < 2 {
		return c39Case{}, false
	}
	p := &prov{d: d}
	c := c39Case{Wire: p.u8()&1 == 1, Nonce: uint32(p.u8()), Code: ev.B{}}
	ne := p.n(4)
	if ne == 4 {
		ne = 15 + p.n(3) // around the entry limit
	}
	c.Entries = make([]c39Entry, ne)
	for i := range c.Entries {
		e := &c.Entries[i]
		nk := p.n(4)
		if nk == 0 && p.u8() == 0xEE {
			nk = 16 + p.n(1)
		}
		e.Keys = []int{}
		for k := 0; k < nk; k++ {
			if nk > 4 {
				e.Keys = append(e.Keys, k) // 16/17 distinct P-256 keys
			} else {
				e.Keys = append(e.Keys, fuzzC39Keys[p.n(len(fuzzC39Keys)-1)])
			}
		}
		e.M = uint16(p.u8())
		if e.M == 0xFF {
			e.M = 0xFFFF
		}
		ns := p.n(5)
		if nk > 4 {
			ns = int(e.M) % 19
		}
		e.Sgs = []c39Sg{}
		for k := 0; k < ns; k++ {
			sg := c39Sg{Kind: fuzzC39Kinds[p.n(len(fuzzC39Kinds)-1)]}
			if nk > 4 {
				sg.By = k % nk
			} else {
				sg.By = fuzzC39Keys[p.n(len(fuzzC39Keys)-1)]
			}
			if pool[sg.By].sign == nil {
				sg.By = 0
			}
			if sg.Kind == "garbage" {
				sg.Raw = p.bytes(p.n(67))
			}
			e.Sgs = append(e.Sgs, sg)
		}
	}
	return c, true
}

func FuzzC39(f *testing.F) {
	initPool()
	f.Add([]byte{1, 7, 1, 1, 0, 1, 1, 0, 0})                                // one single-key entry, valid
	f.Add([]byte{0, 7, 1, 3, 0, 1, 4, 2, 2, 0, 0, 0, 4})                    // 2-of-3 incl. SM2
	f.Add([]byte{1, 1, 1, 2, 0, 1, 2, 2, 0, 0, 10, 0})                      // repeated signature
	f.Add([]byte{1, 1, 2, 1, 8, 1, 1, 0, 4, 1, 9, 1, 1, 0, 0})              // off-curve keys
	f.Add([]byte{0, 1, 1, 0, 0xEE, 1, 17})                                  // 17 keys
	f.Add([]byte{0, 1, 1, 0, 0xEE, 0, 16})                                  // 16-of-16
	f.Add(append([]byte{1, 1, 4, 2}, make([]byte, 120)...))                 // 17 entries
	f.Add([]byte{1, 1, 1, 1, 0, 1, 1, 9, 0, 66, 1, 2, 3, 4, 5, 6, 7, 8, 9}) // arbitrary signature bytes
	f.Add([]byte{1, 1, 1, 1, 0, 0xFF, 1, 0, 0})                             // M = 65535
	f.Add([]byte{0, 1, 1, 2, 0, 1, 0, 2, 0, 0, 0, 1})                       // M = 0
	ev.Fuzz(f, "C39", "TestC39", decodeFuzzC39, runC39)
}
