package ptypes

import (
	"bytes"
	"fmt"
	"strings"
	"testing"

	"github.com/ontio/ontology-crypto/keypair"
	"github.com/polynetwork/poly/common"
	"github.com/polynetwork/poly/core/payload"
	"github.com/polynetwork/poly/core/types"
	"pgregory.net/rapid"

	"verif/harness/ev"
)

// ---------------------------------------------------------------------------------------------
// C02 Ledger objects encode faithfully with signature-independent identity

const maxTxSize = 1024 * 1024 // documented limit ("The max size of a transaction to prevent DOS attacks")

type c02Sig struct {
	Keys []int  `json:"keys"`
	M    uint16 `json:"m"`
	Data []ev.B `json:"data"`
}

type c02Tx struct {
	Nonce    uint32   `json:"nonce"`
	ChainID  uint64   `json:"chain"`
	GasLimit uint64   `json:"gaslimit"`
	GasPrice uint64   `json:"gasprice"`
	Code     ev.B     `json:"code,omitempty"`
	CodeLen  int      `json:"codelen,omitempty"` // >0: code is CodeLen bytes derived from CodeFill
	CodeFill byte     `json:"codefill,omitempty"`
	Payer    ev.B     `json:"payer"`
	Sigs     []c02Sig `json:"sigs"`
}

type c02Hdr struct {
	ChainID       uint64 `json:"chain"`
	Prev          ev.B   `json:"prev"`
	TxRoot        ev.B   `json:"txroot"`
	Cross         ev.B   `json:"cross"`
	BlockRoot     ev.B   `json:"blockroot"`
	Timestamp     uint32 `json:"ts"`
	Height        uint32 `json:"height"`
	ConsensusData uint64 `json:"cdata"`
	Payload       ev.B   `json:"payload"`
	NextBK        ev.B   `json:"nextbk"`
	BK            []int  `json:"bk"`
	Sigs          []ev.B `json:"sigs"`
}

type c02Op struct {
	Op  string `json:"op"` // trunc | count | set | insert | append
	Pos int    `json:"pos"`
	Val uint64 `json:"val"`
	Raw ev.B   `json:"raw,omitempty"`
}

type c02Case struct {
	Kind string `json:"kind"` // tx | header | block
	// roundtrip | resign | oversize | dup | badroot | bytes | random
	Mode    string   `json:"mode"`
	Tx      *c02Tx   `json:"tx,omitempty"`
	Hdr     *c02Hdr  `json:"hdr,omitempty"`
	Txs     []c02Tx  `json:"txs,omitempty"`
	Alt     []c02Sig `json:"alt,omitempty"`     // resign: the other signature set (tx, or tx 0 of a block)
	AltBK   []int    `json:"altbk,omitempty"`   // resign: the other bookkeeper list (header / block)
	AltSigs []ev.B   `json:"altsigs,omitempty"` // resign: the other header signature blobs
	Delta   int      `json:"delta,omitempty"`   // oversize: serialized size of the transaction = 1 MiB + Delta
	A       int      `json:"a,omitempty"`       // dup: source index / badroot: variant
	B       int      `json:"b,omitempty"`       // dup: insert position
	Ops     []c02Op  `json:"ops,omitempty"`
	Raw     ev.B     `json:"raw,omitempty"`
}

func fill(n int, seed byte) []byte {
	b := make([]byte, n)
	for i := range b {
		b[i] = byte(i*13) ^ seed
	}
	return b
}

func (t *c02Tx) code() []byte {
	if t.CodeLen > 0 {
		return fill(t.CodeLen, t.CodeFill)
	}
	return t.Code
}

func pad(b []byte, n int) []byte {
	out := make([]byte, n)
	copy(out, b)
	return out
}

// --- reference encoders (written from the wire format, independent of core/types) ---

func (t *c02Tx) encUnsigned(w *wr) {
	w.u8(0)    // version
	w.u8(0xd1) // invoke
	w.u32(t.Nonce)
	w.u64(t.ChainID)
	w.u64(t.GasLimit)
	w.u64(t.GasPrice)
	w.varbytes(t.code())
	w.varbytes(nil) // attributes: must be empty
	w.raw(pad(t.Payer, 20))
	w.u8(0) // coin type
}

func encSigs(w *wr, sigs []c02Sig) {
	w.varuint(uint64(len(sigs)))
	for _, s := range sigs {
		w.cnt16(uint16(len(s.Data)))
		for _, d := range s.Data {
			w.varbytes(d)
		}
		w.cnt16(uint16(len(s.Keys)))
		for _, k := range s.Keys {
			w.varbytes(pool[k].enc)
		}
		w.u16(s.M)
	}
}

// enc returns (unsigned length, full encoding)
func (t *c02Tx) enc(w *wr, sigs []c02Sig) (unsignedLen int) {
	start := len(w.b)
	t.encUnsigned(w)
	unsignedLen = len(w.b) - start
	encSigs(w, sigs)
	return
}

func (h *c02Hdr) encUnsigned(w *wr, root []byte) {
	w.u32(0) // version
	w.u64(h.ChainID)
	w.raw(pad(h.Prev, 32))
	w.raw(pad(root, 32))
	w.raw(pad(h.Cross, 32))
	w.raw(pad(h.BlockRoot, 32))
	w.u32(h.Timestamp)
	w.u32(h.Height)
	w.u64(h.ConsensusData)
	w.varbytes(h.Payload)
	w.raw(pad(h.NextBK, 20))
}

func (h *c02Hdr) enc(w *wr, root []byte, bk []int, sigs []ev.B) (unsignedLen int) {
	start := len(w.b)
	h.encUnsigned(w, root)
	unsignedLen = len(w.b) - start
	w.varuint(uint64(len(bk)))
	for _, k := range bk {
		w.varbytes(pool[k].enc)
	}
	w.varuint(uint64(len(sigs)))
	for _, s := range sigs {
		w.varbytes(s)
	}
	return
}

// --- generators ---

func genBytesN(lo, hi int) *rapid.Generator[[]byte] { return rapid.SliceOfN(rapid.Byte(), lo, hi) }

func genKeyList(lo, hi int) *rapid.Generator[[]int] {
	return rapid.SliceOfN(rapid.IntRange(0, canonicalKeys()-1), lo, hi)
}

func genSig(t *rapid.T) c02Sig {
	nk := rapid.OneOf(rapid.IntRange(1, 3), rapid.IntRange(1, 3), rapid.IntRange(1, 17)).Draw(t, "nkeys")
	return c02Sig{
		Keys: genKeyList(nk, nk).Draw(t, "keys"),
		M:    rapid.OneOf(rapid.Uint16Range(0, 18), rapid.Uint16()).Draw(t, "m"),
		Data: toB(rapid.SliceOfN(rapid.OneOf(genBytesN(0, 8), genBytesN(64, 66), genBytesN(0, 300)), 0, 4).Draw(t, "data")),
	}
}

func toB(x [][]byte) []ev.B {
	out := make([]ev.B, len(x))
	for i := range x {
		out[i] = x[i]
	}
	return out
}

func genSigs() *rapid.Generator[[]c02Sig] {
	return rapid.OneOf(
		rapid.SliceOfN(rapid.Custom(genSig), 0, 3),
		rapid.SliceOfN(rapid.Custom(genSig), 0, 3),
		rapid.SliceOfN(rapid.Custom(genSig), 0, 17),
	)
}

func genU64() *rapid.Generator[uint64] {
	return rapid.OneOf(rapid.Uint64(), rapid.Uint64Range(0, 300), rapid.SampledFrom([]uint64{0, 1<<63 - 1, 1 << 63, 1<<64 - 1}))
}

func genTx(t *rapid.T) c02Tx {
	tx := c02Tx{
		Nonce:    rapid.Uint32().Draw(t, "nonce"),
		ChainID:  genU64().Draw(t, "chain"),
		GasLimit: genU64().Draw(t, "gaslimit"),
		GasPrice: genU64().Draw(t, "gasprice"),
		Payer:    genBytesN(20, 20).Draw(t, "payer"),
	}
	switch rapid.IntRange(0, 9).Draw(t, "codeclass") {
	case 0:
		big := []int{0xFC, 0xFD, 0xFE, 0xFF, 0x100, 2048, 0xFFFF, 0x10000, 0x10001}
		tx.CodeLen = rapid.SampledFrom(big).Draw(t, "codelen")
		tx.CodeFill = rapid.Byte().Draw(t, "codefill")
	case 1, 2:
		tx.Code = genBytesN(0, 300).Draw(t, "code")
	default:
		tx.Code = genBytesN(0, 40).Draw(t, "code")
	}
	tx.Sigs = genSigs().Draw(t, "sigs")
	return tx
}

func genHdr(t *rapid.T) c02Hdr {
	return c02Hdr{
		ChainID:       genU64().Draw(t, "chain"),
		Prev:          genBytesN(32, 32).Draw(t, "prev"),
		TxRoot:        genBytesN(32, 32).Draw(t, "txroot"),
		Cross:         genBytesN(32, 32).Draw(t, "cross"),
		BlockRoot:     genBytesN(32, 32).Draw(t, "blockroot"),
		Timestamp:     rapid.Uint32().Draw(t, "ts"),
		Height:        rapid.Uint32().Draw(t, "height"),
		ConsensusData: genU64().Draw(t, "cdata"),
		Payload:       rapid.OneOf(genBytesN(0, 40), genBytesN(0, 400)).Draw(t, "payload"),
		NextBK:        genBytesN(20, 20).Draw(t, "nextbk"),
		BK:            genKeyList(0, 10).Draw(t, "bk"),
		Sigs:          toB(rapid.SliceOfN(rapid.OneOf(genBytesN(0, 8), genBytesN(64, 66)), 0, 10).Draw(t, "hsigs")),
	}
}

var boundaryVals = []uint64{0, 1, 2, 0xFC, 0xFD, 0xFFFF, 0x10000, 0xFFFFFFFF, 0x100000000, 1<<63 - 1, 1 << 63, 1<<64 - 1,
	1 << 20, 1<<20 + 1, 1 << 31, 1<<32 - 1, 1 << 16}

func genOp(t *rapid.T) c02Op {
	op := c02Op{Op: rapid.SampledFrom([]string{"trunc", "count", "count", "count", "set", "insert", "append"}).Draw(t, "op")}
	op.Pos = rapid.IntRange(0, 1<<20).Draw(t, "pos")
	switch op.Op {
	case "count":
		op.Val = rapid.OneOf(rapid.SampledFrom(boundaryVals), rapid.Uint64Range(0, 300), rapid.Uint64()).Draw(t, "val")
	case "set":
		op.Val = uint64(rapid.OneOf(rapid.SampledFrom([]byte{0, 1, 0xFC, 0xFD, 0xFE, 0xFF, 0x7F, 0x80}), rapid.Byte()).Draw(t, "val"))
	case "insert", "append":
		op.Raw = rapid.OneOf(genBytesN(1, 12),
			rapid.SampledFrom([][]byte{
				{0xff, 0xff, 0xff, 0xff, 0xff, 0xff, 0xff, 0xff, 0x7f},
				{0xff, 0xff, 0xff, 0xff, 0xff, 0xff, 0xff, 0xff, 0xff},
				{0xfe, 0xff, 0xff, 0xff, 0xff}, {0xfd, 0xff, 0xff}, {0xff, 0xff}})).Draw(t, "raw")
	}
	return op
}

func genC02(t *rapid.T) c02Case {
	c := c02Case{Kind: rapid.SampledFrom([]string{"tx", "tx", "header", "block", "block"}).Draw(t, "kind")}
	modes := map[string][]string{
		"tx":     {"roundtrip", "roundtrip", "resign", "resign", "bytes", "bytes", "bytes", "random"},
		"header": {"roundtrip", "roundtrip", "resign", "bytes", "bytes", "random"},
		"block":  {"roundtrip", "roundtrip", "resign", "dup", "dup", "badroot", "badroot", "bytes", "bytes", "bytes", "random"},
	}[c.Kind]
	c.Mode = rapid.SampledFrom(modes).Draw(t, "mode")
	if c.Kind != "header" && rapid.IntRange(0, 39).Draw(t, "oversize") == 23 {
		c.Mode = "oversize"
	}
	if c.Mode == "random" {
		c.Raw = rapid.OneOf(genBytesN(0, 40), genBytesN(0, 300)).Draw(t, "raw")
		return c
	}
	switch c.Kind {
	case "tx":
		tx := genTx(t)
		c.Tx = &tx
	case "header":
		h := genHdr(t)
		c.Hdr = &h
	case "block":
		h := genHdr(t)
		c.Hdr = &h
		c.Txs = rapid.OneOf(rapid.SliceOfN(rapid.Custom(genTx), 0, 4), rapid.SliceOfN(rapid.Custom(genTx), 0, 9)).Draw(t, "txs")
	}
	switch c.Mode {
	case "resign":
		if c.Kind != "header" {
			c.Alt = genSigs().Draw(t, "alt")
		}
		if c.Kind != "tx" {
			c.AltBK = genKeyList(0, 10).Draw(t, "altbk")
			c.AltSigs = toB(rapid.SliceOfN(genBytesN(0, 70), 0, 10).Draw(t, "altsigs"))
		}
	case "oversize":
		c.Delta = rapid.SampledFrom([]int{-2, -1, 0, 0, 1, 1, 2, 700}).Draw(t, "delta")
		if c.Kind == "block" {
			c.Txs = c.Txs[:0]
			c.Txs = append(c.Txs, genTx(t))
		}
	case "dup":
		c.A = rapid.IntRange(0, 1<<16).Draw(t, "a")
		c.B = rapid.IntRange(0, 1<<16).Draw(t, "b")
		c.Alt = genSigs().Draw(t, "alt")
	case "badroot":
		c.A = rapid.IntRange(0, 255).Draw(t, "a")
		c.B = rapid.IntRange(0, 2).Draw(t, "b")
	case "bytes":
		c.Ops = rapid.SliceOfN(rapid.Custom(genOp), 1, 3).Draw(t, "ops")
	}
	return c
}

// --- helpers on the real objects ---

func sameKeys(got []keypair.PublicKey, want []int) bool {
	if len(got) != len(want) {
		return false
	}
	for i := range got {
		if !bytes.Equal(keypair.SerializePublicKey(got[i]), pool[want[i]].enc) {
			return false
		}
	}
	return true
}

func sameBlobs(got [][]byte, want []ev.B) bool {
	if len(got) != len(want) {
		return false
	}
	for i := range got {
		if !bytes.Equal(got[i], want[i]) {
			return false
		}
	}
	return true
}

func cp(b []byte) []byte { return append([]byte(nil), b...) }

func realSigs(sigs []c02Sig) []types.Sig {
	out := make([]types.Sig, len(sigs))
	for i, s := range sigs {
		for _, k := range s.Keys {
			out[i].PubKeys = append(out[i].PubKeys, pool[k].pub)
		}
		out[i].SigData = make([][]byte, len(s.Data))
		for j, d := range s.Data {
			out[i].SigData[j] = cp(d)
		}
		out[i].M = s.M
	}
	return out
}

func realTx(t *c02Tx, sigs []c02Sig) *types.Transaction {
	var payer common.Address
	copy(payer[:], t.Payer)
	return &types.Transaction{TxType: types.Invoke, Nonce: t.Nonce, ChainID: t.ChainID, GasLimit: t.GasLimit, GasPrice: t.GasPrice,
		Payload: &payload.InvokeCode{Code: cp(t.code())}, Payer: payer, Sigs: realSigs(sigs)}
}

func realHdr(h *c02Hdr, root []byte, bk []int, sigs []ev.B) *types.Header {
	r := &types.Header{ChainID: h.ChainID, Timestamp: h.Timestamp, Height: h.Height, ConsensusData: h.ConsensusData,
		ConsensusPayload: cp(h.Payload)}
	copy(r.PrevBlockHash[:], h.Prev)
	copy(r.TransactionsRoot[:], root)
	copy(r.CrossStateRoot[:], h.Cross)
	copy(r.BlockRoot[:], h.BlockRoot)
	copy(r.NextBookkeeper[:], h.NextBK)
	for _, k := range bk {
		r.Bookkeepers = append(r.Bookkeepers, pool[k].pub)
	}
	for _, s := range sigs {
		r.SigData = append(r.SigData, cp(s))
	}
	return r
}

// checkTx compares a decoded transaction with the generated one and the reference encoding.
func checkTx(ctx *ev.Ctx, what string, got *types.Transaction, t *c02Tx, sigs []c02Sig, raw []byte, unsignedLen int) {
	if got.Version != 0 || got.TxType != types.Invoke || got.Nonce != t.Nonce || got.ChainID != t.ChainID ||
		got.GasLimit != t.GasLimit || got.GasPrice != t.GasPrice || got.CoinType != 0 || len(got.Attributes) != 0 ||
		!bytes.Equal(got.Payer[:], pad(t.Payer, 20)) {
		ctx.Failf("%s: decoded scalar fields differ from the encoded transaction: %+v", what, got)
	}
	ic, ok := got.Payload.(*payload.InvokeCode)
	if !ok || !bytes.Equal(ic.Code, t.code()) {
		ctx.Failf("%s: decoded payload differs", what)
	}
	if len(got.Sigs) != len(sigs) {
		ctx.Failf("%s: decoded %d signature entries, encoded %d", what, len(got.Sigs), len(sigs))
	}
	for i, s := range sigs {
		if got.Sigs[i].M != s.M || !sameKeys(got.Sigs[i].PubKeys, s.Keys) || !sameBlobs(got.Sigs[i].SigData, s.Data) {
			ctx.Failf("%s: signature entry %d differs after decoding", what, i)
		}
	}
	want := dsha(raw[:unsignedLen])
	if h := got.Hash(); h != common.Uint256(want) {
		ctx.Failf("%s: Hash() = %x, double SHA-256 of the %d unsigned bytes = %x", what, h[:], unsignedLen, want[:])
	}
	if !bytes.Equal(got.Raw, raw) {
		ctx.Failf("%s: Raw (%d bytes) differs from the input (%d bytes)", what, len(got.Raw), len(raw))
	}
	var re []byte
	if p := ev.Catch(func() { re = got.ToArray() }); p != "" {
		ctx.Failf("%s: ToArray panicked: %s", what, p)
	}
	if !bytes.Equal(re, raw) {
		ctx.Failf("%s: re-encoding differs from the input: %x vs %x", what, clip(re), clip(raw))
	}
}

func clip(b []byte) []byte {
	if len(b) > 120 {
		return b[:120]
	}
	return b
}

func checkHdr(ctx *ev.Ctx, what string, got *types.Header, h *c02Hdr, root []byte, bk []int, sigs []ev.B, unsigned []byte) {
	if got.Version != 0 || got.ChainID != h.ChainID || got.Timestamp != h.Timestamp || got.Height != h.Height ||
		got.ConsensusData != h.ConsensusData || !bytes.Equal(got.ConsensusPayload, h.Payload) ||
		!bytes.Equal(got.PrevBlockHash[:], pad(h.Prev, 32)) || !bytes.Equal(got.TransactionsRoot[:], pad(root, 32)) ||
		!bytes.Equal(got.CrossStateRoot[:], pad(h.Cross, 32)) || !bytes.Equal(got.BlockRoot[:], pad(h.BlockRoot, 32)) ||
		!bytes.Equal(got.NextBookkeeper[:], pad(h.NextBK, 20)) {
		ctx.Failf("%s: decoded header fields differ: %+v", what, got)
	}
	if !sameKeys(got.Bookkeepers, bk) || !sameBlobs(got.SigData, sigs) {
		ctx.Failf("%s: decoded bookkeepers / signatures differ", what)
	}
	want := dsha(unsigned)
	if hh := got.Hash(); hh != common.Uint256(want) {
		ctx.Failf("%s: Hash() = %x, double SHA-256 of the unsigned part = %x", what, hh[:], want[:])
	}
	if m := got.GetMessage(); !bytes.Equal(m, unsigned) {
		ctx.Failf("%s: GetMessage() differs from the unsigned part", what)
	}
}

func decodeTx(ctx *ev.Ctx, raw []byte) (tx *types.Transaction, err error) {
	if p := ev.Catch(func() { tx, err = types.TransactionFromRawBytes(cp(raw)) }); p != "" {
		c02Panic(ctx, "TransactionFromRawBytes", raw, p)
		return nil, fmt.Errorf("panic")
	}
	return
}

func decodeHdr(ctx *ev.Ctx, raw []byte) (h *types.Header, err error) {
	if p := ev.Catch(func() { h, err = types.HeaderFromRawBytes(cp(raw)) }); p != "" {
		c02Panic(ctx, "HeaderFromRawBytes", raw, p)
		return nil, fmt.Errorf("panic")
	}
	return
}

func decodeHdrStream(ctx *ev.Ctx, raw []byte) (h *types.Header, err error) {
	h = new(types.Header)
	if p := ev.Catch(func() { err = h.Deserialize(bytes.NewReader(cp(raw))) }); p != "" {
		c02Panic(ctx, "Header.Deserialize", raw, p)
		return nil, fmt.Errorf("panic")
	}
	return
}

func decodeBlock(ctx *ev.Ctx, raw []byte) (b *types.Block, err error) {
	if p := ev.Catch(func() { b, err = types.BlockFromRawBytes(cp(raw)) }); p != "" {
		c02Panic(ctx, "BlockFromRawBytes", raw, p)
		return nil, fmt.Errorf("panic")
	}
	return
}

// panicFunc names the innermost poly function on the stack of a Catch result (stable root-cause key,
// independent of line numbers and of the checkout directory).
func panicFunc(p string) string {
	for _, l := range strings.Split(p, "\n") {
		if i := strings.Index(l, "github.com/polynetwork/poly/"); i == 0 {
			l = l[len("github.com/polynetwork/poly/"):]
			if j := strings.LastIndex(l, "("); j > 0 {
				l = l[:j]
			}
			return l
		}
	}
	return "outside-poly"
}

// c02Panic: a decoder panicked. The root-cause key is the panicking poly function.
func c02Panic(ctx *ev.Ctx, fn string, raw []byte, p string) {
	ctx.Known("decoder-panic:"+panicFunc(p), "%s panicked on %d input bytes %x: %s", fn, len(raw), clip(raw), p)
}

// --- the case runner ---

func runC02(ctx *ev.Ctx, c c02Case) {
	ctx.Label(c.Kind + ":" + c.Mode)
	for _, s := range c.allSigs() {
		for _, k := range s.Keys {
			if k < 0 || k >= len(pool) {
				ctx.Failf("harness: key index %d out of range", k)
			}
		}
	}
	if c.Mode == "random" {
		ctx.NonTrivial()
		c02Feed(ctx, c.Kind, c.Raw, nil)
		return
	}
	switch c.Kind {
	case "tx":
		runC02Tx(ctx, c)
	case "header":
		runC02Hdr(ctx, c)
	case "block":
		runC02Block(ctx, c)
	default:
		ctx.Failf("harness: unknown kind %q", c.Kind)
	}
}

func (c *c02Case) allSigs() []c02Sig {
	var out []c02Sig
	if c.Tx != nil {
		out = append(out, c.Tx.Sigs...)
	}
	for _, t := range c.Txs {
		out = append(out, t.Sigs...)
	}
	out = append(out, c.Alt...)
	if c.Hdr != nil {
		out = append(out, c02Sig{Keys: c.Hdr.BK}, c02Sig{Keys: c.AltBK})
	}
	return out
}

// sized returns a copy of t whose full encoding is exactly size bytes (code is re-dimensioned).
func sized(t c02Tx, size int) c02Tx {
	t.Code = nil
	t.CodeLen = 70000 // any length with a 5-byte prefix: fixes the prefix width
	var w wr
	t.enc(&w, t.Sigs)
	t.CodeLen += size - len(w.b)
	return t
}

func runC02Tx(ctx *ev.Ctx, c c02Case) {
	t := *c.Tx
	if c.Mode == "oversize" {
		t = sized(t, maxTxSize+c.Delta)
	}
	var w wr
	ul := t.enc(&w, t.Sigs)
	raw := w.b
	if len(t.Sigs) > 0 {
		ctx.NonTrivial()
	}
	switch c.Mode {
	case "oversize":
		ctx.NonTrivial()
		if len(raw) != maxTxSize+c.Delta {
			ctx.Failf("harness: sized transaction has %d bytes", len(raw))
		}
		tx, err := decodeTx(ctx, raw)
		if len(raw) > maxTxSize {
			if err == nil {
				ctx.Failf("transaction of %d bytes (limit %d) was accepted by TransactionFromRawBytes", len(raw), maxTxSize)
			}
			return
		}
		if err != nil {
			ctx.Failf("well-formed transaction of %d bytes (limit %d) was refused: %v", len(raw), maxTxSize, err)
		}
		checkTx(ctx, "tx at size limit", tx, &t, t.Sigs, raw, ul)
		return
	case "bytes":
		ctx.NonTrivial()
		c02Feed(ctx, "tx", applyOps(raw, w.counts, c.Ops), nil)
		return
	}
	tx, err := decodeTx(ctx, raw)
	if err != nil {
		ctx.Failf("well-formed transaction refused: %v; bytes %x", err, clip(raw))
	}
	checkTx(ctx, "tx", tx, &t, t.Sigs, raw, ul)
	// the encoder alone, from an object built in memory
	var enc []byte
	if p := ev.Catch(func() { enc = realTx(&t, t.Sigs).ToArray() }); p != "" {
		ctx.Failf("ToArray of an in-memory transaction panicked: %s", p)
	}
	if !bytes.Equal(enc, raw) {
		ctx.Failf("in-memory transaction encodes to %x, reference encoding %x", clip(enc), clip(raw))
	}
	if c.Mode == "resign" {
		ctx.NonTrivial()
		var w2 wr
		ul2 := t.enc(&w2, c.Alt)
		tx2, err := decodeTx(ctx, w2.b)
		if err != nil {
			ctx.Failf("re-signed transaction refused: %v", err)
		}
		checkTx(ctx, "re-signed tx", tx2, &t, c.Alt, w2.b, ul2)
		if tx.Hash() != tx2.Hash() {
			ctx.Failf("transaction identity changed with the signatures: %x vs %x", tx.Hash(), tx2.Hash())
		}
		// change the signatures of the decoded object in memory and send it through the wire again
		tx.Sigs = realSigs(c.Alt)
		var re []byte
		if p := ev.Catch(func() { re = tx.ToArray() }); p != "" {
			ctx.Failf("ToArray after replacing signatures panicked: %s", p)
		}
		if !bytes.Equal(re, w2.b) {
			ctx.Failf("object with replaced signatures encodes differently from the reference")
		}
	}
}

func runC02Hdr(ctx *ev.Ctx, c c02Case) {
	h := c.Hdr
	var w wr
	ul := h.enc(&w, h.TxRoot, h.BK, h.Sigs)
	raw := w.b
	if len(h.BK)+len(h.Sigs) > 0 {
		ctx.NonTrivial()
	}
	if c.Mode == "bytes" {
		ctx.NonTrivial()
		c02Feed(ctx, "header", applyOps(raw, w.counts, c.Ops), nil)
		return
	}
	c02HdrRound(ctx, "header", h, h.TxRoot, h.BK, h.Sigs, raw, ul)
	if c.Mode == "resign" {
		ctx.NonTrivial()
		var w2 wr
		ul2 := h.enc(&w2, h.TxRoot, c.AltBK, c.AltSigs)
		h1, _ := decodeHdr(ctx, raw)
		h2 := c02HdrRound(ctx, "re-signed header", h, h.TxRoot, c.AltBK, c.AltSigs, w2.b, ul2)
		if h1.Hash() != h2.Hash() {
			ctx.Failf("header identity changed with bookkeepers/signatures: %x vs %x", h1.Hash(), h2.Hash())
		}
	}
}

func c02HdrRound(ctx *ev.Ctx, what string, h *c02Hdr, root []byte, bk []int, sigs []ev.B, raw []byte, ul int) *types.Header {
	got, err := decodeHdr(ctx, raw)
	if err != nil {
		ctx.Failf("%s: well-formed header refused: %v; bytes %x", what, err, clip(raw))
	}
	checkHdr(ctx, what, got, h, root, bk, sigs, raw[:ul])
	if re := got.ToArray(); !bytes.Equal(re, raw) {
		ctx.Failf("%s: re-encoding differs from the input", what)
	}
	// streaming codec
	gs, err := decodeHdrStream(ctx, raw)
	if err != nil {
		ctx.Failf("%s: streaming decoder refused a well-formed header: %v", what, err)
	}
	checkHdr(ctx, what+" (streaming)", gs, h, root, bk, sigs, raw[:ul])
	var buf bytes.Buffer
	if err := got.Serialize(&buf); err != nil || !bytes.Equal(buf.Bytes(), raw) {
		ctx.Failf("%s: streaming encoder differs from the reference encoding (err %v)", what, err)
	}
	// object built in memory
	mem := realHdr(h, root, bk, sigs)
	if enc := mem.ToArray(); !bytes.Equal(enc, raw) {
		ctx.Failf("%s: in-memory header encodes to %x, reference %x", what, clip(enc), clip(raw))
	}
	want := dsha(raw[:ul])
	if hh := mem.Hash(); hh != common.Uint256(want) {
		ctx.Failf("%s: in-memory header Hash() = %x, want %x", what, hh[:], want[:])
	}
	return got
}

type blockPlan struct {
	txs     []c02Tx
	sigs    [][]c02Sig
	raw     []byte
	counts  []field
	hdrUL   int
	txStart []int
	txUL    []int
	hashes  [][32]byte
	root    [32]byte
}

func planBlock(h *c02Hdr, txs []c02Tx, sigs [][]c02Sig, root *[32]byte, bk []int, hs []ev.B) *blockPlan {
	p := &blockPlan{txs: txs, sigs: sigs}
	// transactions first (their hashes determine the root)
	var tw wr
	for i := range txs {
		p.txStart = append(p.txStart, len(tw.b))
		ul := txs[i].enc(&tw, sigs[i])
		p.txUL = append(p.txUL, ul)
		p.hashes = append(p.hashes, dsha(tw.b[p.txStart[i]:p.txStart[i]+ul]))
	}
	p.root = refMerkle(p.hashes)
	if root == nil {
		root = &p.root
	}
	var w wr
	p.hdrUL = h.enc(&w, root[:], bk, hs)
	w.cnt32(uint32(len(txs)))
	base := len(w.b)
	for _, f := range tw.counts {
		f.Off += base
		w.counts = append(w.counts, f)
	}
	w.raw(tw.b)
	for i := range p.txStart {
		p.txStart[i] += base
	}
	p.raw, p.counts = w.b, w.counts
	return p
}

func sigsOf(txs []c02Tx) [][]c02Sig {
	out := make([][]c02Sig, len(txs))
	for i := range txs {
		out[i] = txs[i].Sigs
	}
	return out
}

func hasDup(hs [][32]byte) bool {
	seen := map[[32]byte]bool{}
	for _, h := range hs {
		if seen[h] {
			return true
		}
		seen[h] = true
	}
	return false
}

func runC02Block(ctx *ev.Ctx, c c02Case) {
	h := c.Hdr
	txs := append([]c02Tx(nil), c.Txs...)
	sigs := sigsOf(txs)
	var root *[32]byte
	bk, hs := h.BK, h.Sigs
	switch c.Mode {
	case "oversize":
		txs[0] = sized(txs[0], maxTxSize+c.Delta)
	case "dup":
		if len(txs) == 0 {
			ctx.Label("block:dup:empty")
			return
		}
		a := c.A % len(txs)
		b := c.B % (len(txs) + 1)
		// the copy carries other signatures: same identity, different bytes
		txs = append(txs[:b:b], append([]c02Tx{txs[a]}, txs[b:]...)...)
		sigs = append(sigs[:b:b], append([][]c02Sig{c.Alt}, sigs[b:]...)...)
	case "badroot":
		p0 := planBlock(h, txs, sigs, nil, bk, hs)
		r := p0.root
		switch c.B {
		case 0:
			r[c.A%32] ^= 1 << (c.A % 8)
		case 1: // the root of the reversed list
			rev := make([][32]byte, len(p0.hashes))
			for i := range rev {
				rev[i] = p0.hashes[len(rev)-1-i]
			}
			r = refMerkle(rev)
		case 2: // the header's arbitrary root
			copy(r[:], pad(h.TxRoot, 32))
		}
		root = &r
	}
	p := planBlock(h, txs, sigs, root, bk, hs)
	if len(txs) > 0 {
		ctx.NonTrivial()
	}
	if c.Mode == "bytes" {
		ctx.NonTrivial()
		c02Feed(ctx, "block", applyOps(p.raw, p.counts, c.Ops), nil)
		return
	}
	// what the statement demands
	wantErr := ""
	if hasDup(p.hashes) {
		wantErr = "repeats a transaction"
	} else if root != nil && *root != p.root {
		wantErr = "transaction root mismatch"
	}
	for i := range txs {
		end := len(p.raw)
		if i+1 < len(txs) {
			end = p.txStart[i+1]
		}
		if end-p.txStart[i] > maxTxSize {
			wantErr = "oversize transaction"
		}
	}
	if c.Mode == "dup" || c.Mode == "badroot" || c.Mode == "oversize" {
		ctx.NonTrivial()
	}
	blk, err := decodeBlock(ctx, p.raw)
	if wantErr != "" {
		ctx.Label("block:refuse:" + wantErr)
		if err == nil {
			ctx.Failf("block accepted although it has: %s (%d txs)", wantErr, len(txs))
		}
		return
	}
	ctx.Label("block:accept")
	if err != nil {
		ctx.Failf("well-formed block (%d distinct txs, matching root) refused: %v", len(txs), err)
	}
	checkBlock(ctx, "block", blk, p, h, bk, hs)
	if c.Mode == "resign" {
		sigs2 := append([][]c02Sig(nil), sigs...)
		if len(sigs2) > 0 {
			sigs2[0] = c.Alt
		}
		p2 := planBlock(h, txs, sigs2, nil, c.AltBK, c.AltSigs)
		if p2.root != p.root {
			ctx.Failf("harness: reference root depends on signatures")
		}
		blk2, err := decodeBlock(ctx, p2.raw)
		if err != nil {
			ctx.Failf("re-signed block refused: %v", err)
		}
		checkBlock(ctx, "re-signed block", blk2, p2, h, c.AltBK, c.AltSigs)
		if blk.Hash() != blk2.Hash() {
			ctx.Failf("block identity changed with signatures: %x vs %x", blk.Hash(), blk2.Hash())
		}
	}
	// build the block in memory from decoded transactions and let the node compute the root
	mem := &types.Block{Header: realHdr(h, h.TxRoot, bk, hs), Transactions: blk.Transactions}
	mem.RebuildMerkleRoot()
	if mem.Header.TransactionsRoot != common.Uint256(p.root) {
		ctx.Failf("RebuildMerkleRoot gives %x, reference root %x over %d txs", mem.Header.TransactionsRoot[:], p.root[:], len(txs))
	}
	if enc := mem.ToArray(); !bytes.Equal(enc, p.raw) {
		ctx.Failf("in-memory block encodes differently from the reference encoding")
	}
}

func checkBlock(ctx *ev.Ctx, what string, blk *types.Block, p *blockPlan, h *c02Hdr, bk []int, hs []ev.B) {
	checkHdr(ctx, what+" header", blk.Header, h, p.root[:], bk, hs, p.raw[:p.hdrUL])
	if len(blk.Transactions) != len(p.txs) {
		ctx.Failf("%s: %d transactions decoded, %d encoded", what, len(blk.Transactions), len(p.txs))
	}
	for i := range p.txs {
		end := len(p.raw)
		if i+1 < len(p.txs) {
			end = p.txStart[i+1]
		}
		checkTx(ctx, fmt.Sprintf("%s tx %d", what, i), blk.Transactions[i], &p.txs[i], p.sigs[i], p.raw[p.txStart[i]:end], p.txUL[i])
	}
	if re := blk.ToArray(); !bytes.Equal(re, p.raw) {
		ctx.Failf("%s: re-encoding differs from the input", what)
	}
	want := dsha(p.raw[:p.hdrUL])
	if blk.Hash() != common.Uint256(want) {
		ctx.Failf("%s: Hash() differs from the double SHA-256 of the unsigned header", what)
	}
}

// applyOps mutates a valid encoding at the byte level.
func applyOps(raw []byte, counts []field, ops []c02Op) []byte {
	b := cp(raw)
	for _, op := range ops {
		switch op.Op {
		case "trunc":
			if len(b) > 0 {
				b = b[:op.Pos%len(b)]
			}
		case "set":
			if len(b) > 0 {
				b[op.Pos%len(b)] = byte(op.Val)
			}
		case "insert":
			p := op.Pos % (len(b) + 1)
			b = append(b[:p:p], append(cp(op.Raw), b[p:]...)...)
		case "append":
			b = append(b, op.Raw...)
		case "count":
			// rewrite one count / length field of the ORIGINAL layout (if still inside the buffer)
			if len(counts) == 0 {
				continue
			}
			f := counts[op.Pos%len(counts)]
			if f.Off+f.Len > len(b) {
				continue
			}
			var e []byte
			switch f.Kind {
			case "u16":
				e = []byte{byte(op.Val), byte(op.Val >> 8)}
			case "u32":
				e = []byte{byte(op.Val), byte(op.Val >> 8), byte(op.Val >> 16), byte(op.Val >> 24)}
			default:
				e = encVarUint(op.Val)
				if op.Pos&(1<<19) != 0 && op.Val < 1<<32 {
					// non-minimal 9-byte form of a small value
					e = append([]byte{0xFF}, make([]byte, 8)...)
					for i := 0; i < 8; i++ {
						e[1+i] = byte(op.Val >> (8 * i))
					}
				}
			}
			b = append(b[:f.Off:f.Off], append(e, b[f.Off+f.Len:]...)...)
			// later fields shift; positions of the remaining ops are only heuristics anyway
			d := len(e) - f.Len
			counts = append([]field(nil), counts...)
			for i := range counts {
				if counts[i].Off > f.Off {
					counts[i].Off += d
				}
			}
			counts[op.Pos%len(counts)].Len = len(e)
		}
	}
	return b
}

// c02Feed hands arbitrary bytes to the decoder(s) of one object kind. Oracle: no panic; and when the
// decoder accepts, the object's identity is still the double SHA-256 of the unsigned bytes it came from,
// an accepted block has pairwise distinct transactions matching its root, and decode-encode-decode is stable.
func c02Feed(ctx *ev.Ctx, kind string, raw []byte, _ interface{}) {
	switch kind {
	case "tx":
		tx, err := decodeTx(ctx, raw)
		if err != nil {
			ctx.Label("feed:tx:refused")
			return
		}
		ctx.Label("feed:tx:accepted")
		c02AcceptedTx(ctx, tx, raw)
	case "header":
		h, err := decodeHdr(ctx, raw)
		hs, errs := decodeHdrStream(ctx, raw)
		if (err == nil) != (errs == nil) {
			ctx.Label("feed:header:codecs-disagree") // counted, not judged (statement covers well-formed headers)
		}
		if err != nil {
			ctx.Label("feed:header:refused")
			return
		}
		ctx.Label("feed:header:accepted")
		c02AcceptedHdr(ctx, h, raw)
		if errs == nil && hs.Hash() != h.Hash() {
			ctx.Failf("the two header decoders accept %x with different identities", clip(raw))
		}
	case "block":
		blk, err := decodeBlock(ctx, raw)
		// the header prefix goes through the header decoders as well
		decodeHdrStream(ctx, raw)
		if err != nil {
			ctx.Label("feed:block:refused")
			return
		}
		ctx.Label("feed:block:accepted")
		c02AcceptedHdr(ctx, blk.Header, raw)
		var hashes [][32]byte
		rest := 0
		for i, tx := range blk.Transactions {
			if len(tx.Raw) > maxTxSize {
				ctx.Failf("accepted block holds a transaction of %d bytes", len(tx.Raw))
			}
			ul, _, ok := refTxUnsignedLen(tx.Raw)
			if !ok {
				ctx.Failf("accepted block tx %d: Raw is not a parsable transaction: %x", i, clip(tx.Raw))
			}
			want := dsha(tx.Raw[:ul])
			if tx.Hash() != common.Uint256(want) {
				ctx.Failf("accepted block tx %d: Hash() is not the double SHA-256 of its unsigned bytes", i)
			}
			hashes = append(hashes, want)
			rest += len(tx.Raw)
		}
		if hasDup(hashes) {
			ctx.Failf("accepted block repeats a transaction")
		}
		if r := refMerkle(hashes); blk.Header.TransactionsRoot != common.Uint256(r) {
			ctx.Failf("accepted block: header root %x, reference root of its %d txs %x", blk.Header.TransactionsRoot[:], len(hashes), r[:])
		}
		// the transactions are the tail of the consumed input
		if rest > len(raw) {
			ctx.Failf("accepted block: transactions longer than the input")
		}
	}
}

func c02AcceptedTx(ctx *ev.Ctx, tx *types.Transaction, raw []byte) {
	if len(raw) > maxTxSize {
		ctx.Failf("input of %d bytes accepted as a transaction", len(raw))
	}
	if !bytes.HasPrefix(raw, tx.Raw) {
		ctx.Failf("accepted tx: Raw is not a prefix of the input")
	}
	ul, minimal, ok := refTxUnsignedLen(tx.Raw)
	if !ok {
		ctx.Failf("accepted tx: Raw is not a parsable transaction: %x", clip(tx.Raw))
	}
	want := dsha(raw[:ul])
	if tx.Hash() != common.Uint256(want) {
		ctx.Failf("accepted tx: Hash() %x is not the double SHA-256 of the %d unsigned bytes (%x)", tx.Hash(), ul, want[:])
	}
	if !minimal {
		// a non-minimal length prefix inside the unsigned part: re-encoding normalises it, so the re-encoded
		// object is a different byte string; outside "well-formed", counted only
		ctx.Label("feed:tx:non-minimal-prefix")
		return
	}
	for _, s := range tx.Sigs {
		if len(s.PubKeys) == 0 {
			// decoder accepts an entry without keys, encoder refuses it: outside "well-formed", counted only
			ctx.Label("feed:tx:accepted-keyless-entry")
			return
		}
	}
	// decode -> encode -> decode is stable and keeps the identity
	var re []byte
	if p := ev.Catch(func() { re = tx.ToArray() }); p != "" {
		ctx.Failf("ToArray of an accepted transaction panicked: %s", p)
	}
	tx2, err := decodeTx(ctx, re)
	if err != nil {
		// possible only for public keys the library accepts without an on-curve check; counted, not judged
		ctx.Label("feed:tx:reencoding-refused")
		return
	}
	if tx2.Hash() != tx.Hash() {
		ctx.Failf("identity changed by decode-encode-decode")
	}
	if !bytes.Equal(tx2.ToArray(), re) {
		ctx.Failf("decode-encode is not idempotent")
	}
}

func c02AcceptedHdr(ctx *ev.Ctx, h *types.Header, raw []byte) {
	// unsigned part: 4+8+4*32+4+4+8, var-bytes payload, 20
	off := 156
	l, n, ok := readVarUint(raw, off)
	if !ok || l > uint64(len(raw)) || off+n+int(l)+20 > len(raw) {
		ctx.Failf("accepted header but the reference reader cannot walk its unsigned part: %x", clip(raw))
	}
	un := raw[:off+n+int(l)+20]
	want := dsha(un)
	if n != len(encVarUint(l)) {
		// non-minimal length prefix: the identity is computed over the re-encoded (minimal) form
		ctx.Label("feed:header:non-minimal-prefix")
	} else if h.Hash() != common.Uint256(want) {
		ctx.Failf("accepted header: Hash() is not the double SHA-256 of its unsigned bytes")
	}
	var re []byte
	if p := ev.Catch(func() { re = h.ToArray() }); p != "" {
		ctx.Failf("ToArray of an accepted header panicked: %s", p)
	}
	h2, err := decodeHdr(ctx, re)
	if err != nil {
		ctx.Label("feed:header:reencoding-refused") // see the transaction case
		return
	}
	if h2.Hash() != h.Hash() {
		ctx.Failf("header identity changed by decode-encode-decode")
	}
}

func TestC02(t *testing.T) {
	ev.Drive(t, "C02",
		"cases: generated transactions (payload 0..64 KiB, 0..17 signature entries of 1..17 pool keys of 5 key types, arbitrary M and signature blobs), "+
			"headers (0..10 bookkeepers / signature blobs), blocks (0..9 txs); modes roundtrip / resign (second signature set, identities compared) / "+
			"oversize (serialized size 1 MiB-2..+700, alone and inside a block) / dup (a tx repeated with other signatures) / badroot / "+
			"bytes (valid encoding mutated: truncation, count and length fields rewritten to boundary values, byte set, insert, append) / random bytes. "+
			"non-trivial: object has >=1 signature entry (tx), >=1 bookkeeper or signature (header), >=1 tx (block), or the input is a mutated/arbitrary encoding or a resign/oversize/dup/badroot variant; distinct by JSON encoding of the case",
		genC02, runC02)
}
