package ptypes

import (
	"encoding/binary"
	"os"
	"testing"

	"github.com/polynetwork/poly/common"
	"github.com/polynetwork/poly/core/types"
	"pgregory.net/rapid"

	"verif/harness/ev"
)

// ---------------------------------------------------------------------------------------------
// C03 Transaction root equals the reference Merkle root

type c03Case struct {
	Mode string   `json:"mode"` // hashes | block
	Seed uint64   `json:"seed"`
	Idx  []uint16 `json:"idx,omitempty"` // hashes: leaf i = H(seed, idx[i]); equal idx => repeated hash; 0xFFFF zero hash, 0xFFFE all-ones
	Raw  []ev.B   `json:"raw,omitempty"` // hashes: explicit leaves (appended after Idx)
	N    int      `json:"n,omitempty"`   // block: number of transactions (distinct nonces seed+i)
	Code ev.B     `json:"code,omitempty"`
}

func (c *c03Case) leaves() [][32]byte {
	out := make([][32]byte, 0, len(c.Idx)+len(c.Raw))
	for _, ix := range c.Idx {
		var h [32]byte
		switch ix {
		case 0xFFFF:
		case 0xFFFE:
			for i := range h {
				h[i] = 0xFF
			}
		default:
			var b [10]byte
			binary.LittleEndian.PutUint64(b[:], c.Seed)
			binary.LittleEndian.PutUint16(b[8:], ix)
			h = dsha(b[:])
		}
		out = append(out, h)
	}
	for _, r := range c.Raw {
		var h [32]byte
		copy(h[:], r)
		out = append(out, h)
	}
	return out
}

func genC03(t *rapid.T) c03Case {
	c := c03Case{Seed: rapid.Uint64().Draw(t, "seed")}
	maxN := ev.Scale(300, 1200)
	if rapid.IntRange(0, 5).Draw(t, "blockmode") == 0 {
		c.Mode = "block"
		c.N = rapid.OneOf(rapid.IntRange(0, 12), rapid.IntRange(0, ev.Scale(40, 130))).Draw(t, "n")
		c.Code = genBytesN(0, 12).Draw(t, "code")
		return c
	}
	c.Mode = "hashes"
	n := rapid.OneOf(rapid.IntRange(0, 20), rapid.IntRange(0, 130), rapid.IntRange(0, maxN)).Draw(t, "n")
	idx := rapid.OneOf(
		rapid.Uint16(),                    // mostly distinct
		rapid.Uint16Range(0, 3),           // many repeats
		rapid.Uint16Range(0xFFFC, 0xFFFF), // special leaves
	)
	c.Idx = rapid.SliceOfN(idx, n, n).Draw(t, "idx")
	if rapid.IntRange(0, 3).Draw(t, "withraw") == 0 {
		c.Raw = toB(rapid.SliceOfN(genBytesN(32, 32), 0, 5).Draw(t, "raw"))
	}
	return c
}

func runC03(ctx *ev.Ctx, c c03Case) {
	ctx.Label("mode:" + c.Mode)
	if c.Mode == "block" {
		runC03Block(ctx, c)
		return
	}
	leaves := c.leaves()
	n := len(leaves)
	if n >= 3 && oddLevel(n) {
		ctx.NonTrivial()
	}
	switch {
	case n == 0:
		ctx.Label("n=0")
	case n == 1:
		ctx.Label("n=1")
	case n&(n-1) == 0:
		ctx.Label("n=2^k")
	case oddLevel(n):
		ctx.Label("n:odd-level")
	}
	want := refMerkle(leaves)
	work := make([]common.Uint256, n) // the function documents that it uses the argument as workspace
	for i := range leaves {
		work[i] = common.Uint256(leaves[i])
	}
	var got common.Uint256
	if p := ev.Catch(func() { got = common.ComputeMerkleRoot(work) }); p != "" {
		ctx.Failf("ComputeMerkleRoot panicked on %d hashes: %s", n, p)
	}
	if got != common.Uint256(want) {
		ctx.Failf("ComputeMerkleRoot over %d hashes = %x, reference root = %x", n, got[:], want[:])
	}
	if n == 0 && got != (common.Uint256{}) {
		ctx.Failf("empty list does not map to the zero hash")
	}
	// nil slice as well as empty slice
	if n == 0 {
		if r := common.ComputeMerkleRoot(nil); r != (common.Uint256{}) {
			ctx.Failf("nil list does not map to the zero hash")
		}
	}
}

// block mode: real transactions; the root the node commits (RebuildMerkleRoot) and the root it demands
// when decoding a block are both the reference root over the independently computed identities.
func runC03Block(ctx *ev.Ctx, c c03Case) {
	n := c.N
	if n >= 3 && oddLevel(n) {
		ctx.NonTrivial()
	}
	txs := make([]c02Tx, n)
	for i := range txs {
		txs[i] = c02Tx{Nonce: uint32(c.Seed) + uint32(i), ChainID: c.Seed >> 32, Code: c.Code, Payer: make([]byte, 20)}
	}
	h := &c02Hdr{Height: uint32(n)}
	p := planBlock(h, txs, sigsOf(txs), nil, nil, nil)
	mem := &types.Block{Header: realHdr(h, nil, nil, nil)}
	for i := range txs {
		end := len(p.raw)
		if i+1 < n {
			end = p.txStart[i+1]
		}
		tx, err := decodeTx(ctx, p.raw[p.txStart[i]:end])
		if err != nil {
			ctx.Failf("harness: generated transaction %d refused: %v", i, err)
		}
		if tx.Hash() != common.Uint256(p.hashes[i]) {
			ctx.Failf("tx %d identity differs from the reference (see C02)", i)
		}
		mem.Transactions = append(mem.Transactions, tx)
	}
	if p := ev.Catch(func() { mem.RebuildMerkleRoot() }); p != "" {
		ctx.Failf("RebuildMerkleRoot panicked on %d txs: %s", n, p)
	}
	if mem.Header.TransactionsRoot != common.Uint256(p.root) {
		ctx.Failf("RebuildMerkleRoot over %d txs = %x, reference root = %x", n, mem.Header.TransactionsRoot[:], p.root[:])
	}
	blk, err := decodeBlock(ctx, p.raw)
	if err != nil {
		ctx.Failf("block of %d txs carrying the reference root is refused: %v", n, err)
	}
	if blk.Header.TransactionsRoot != common.Uint256(p.root) || len(blk.Transactions) != n {
		ctx.Failf("decoded block differs from the encoded one")
	}
	if n >= 2 {
		// a root that is not the reference root must be refused: use the root of the list without its last tx
		other := refMerkle(p.hashes[:n-1])
		p2 := planBlock(h, txs, sigsOf(txs), &other, nil, nil)
		if _, err := decodeBlock(ctx, p2.raw); err == nil {
			ctx.Failf("block of %d txs accepted with the root of its first %d txs", n, n-1)
		}
	}
}

func TestC03(t *testing.T) {
	if ev.Shard() == 0 && os.Getenv("VERIF_REPLAY") == "" {
		// every list length 0..130 (thorough 0..600) once: exhaustive over the size dimension
		var cases []c03Case
		for n := 0; n <= ev.Scale(130, 600); n++ {
			idx := make([]uint16, n)
			for i := range idx {
				idx[i] = uint16(i)
			}
			cases = append(cases, c03Case{Mode: "hashes", Seed: uint64(n), Idx: idx})
		}
		ev.DriveList(t, "C03", cases, runC03)
		if t.Failed() {
			return
		}
	}
	ev.Drive(t, "C03",
		"cases: every list length 0..130 (thorough 0..600) once, then lists of 0..300 (thorough 0..1200) 32-byte hashes (pseudo-random, heavily repeated, all-zero / all-ones, explicit arbitrary leaves) "+
			"handed to ComputeMerkleRoot, and blocks of 0..40 (thorough 0..130) real transactions through RebuildMerkleRoot and the block decoder; "+
			"oracle: independent recursive Bitcoin-style double-SHA-256 root. non-trivial: n >= 3 and some tree level has odd width; distinct by JSON encoding of the case",
		genC03, runC03)
}
