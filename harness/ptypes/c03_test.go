package ptypes

import (
	"crypto/sha256"
	"encoding/binary"
	"fmt"
	"os"
	"testing"

	"github.com/polynetwork/poly/common"
	"github.com/polynetwork/poly/core/types"
	"pgregory.net/rapid"

	"verif/harness/ev"
)

// ---------------------------------------------------------------------------------------------
// C03 Transaction root equals the reference Merkle root

type c03Case struct {
	Mode string   `json:"mode"` // hashes | block
	Seed uint64   `json:"seed"`
	Idx  []uint16 `json:"idx,omitempty"` // hashes: leaf i = H(seed, idx[i]); equal idx => repeated hash; 0xFFFF zero hash, 0xFFFE all-ones
	Raw  []ev.B   `json:"raw,omitempty"` // hashes: explicit leaves (appended after Idx)
	N    int      `json:"n,omitempty"`   // block: number of transactions (distinct nonces seed+i); large: number of leaves
	Rep  int      `json:"rep,omitempty"` // large: leaf i = H(seed, i mod Rep) (0: all distinct)
	Code ev.B     `json:"code,omitempty"`
}

func (c *c03Case) leaves() [][32]byte {
	out := make([][32]byte, 0, len(c.Idx)+len(c.Raw)+c.N)
	if c.Mode == "large" {
		for i := 0; i < c.N; i++ {
			k := i
			if c.Rep > 0 {
				k = i % c.Rep
			}
			var b [12]byte
			binary.LittleEndian.PutUint64(b[:], c.Seed)
			binary.LittleEndian.PutUint32(b[8:], uint32(k))
			out = append(out, dsha(b[:]))
		}
		return out
	}
	for _, ix := range c.Idx {
		var h [32]byte
		switch ix {
		case 0xFFFF:
		case 0xFFFE:
			for i := range h {
				h[i] = 0xFF
			}
		default:
			var b [10]byte
			binary.LittleEndian.PutUint64(b[:], c.Seed)
			binary.LittleEndian.PutUint16(b[8:], ix)
			h = dsha(b[:])
		}
		out = append(out, h)
	}
	for _, r := range c.Raw {
		var h [32]byte
		copy(h[:], r)
		out = append(out, h)
	}
	return out
}

// c03Boundaries: sizes next to every power of two 2^j and every 1.5*2^j for j = 10..maxJ
func c03Boundaries(maxJ int) []int {
	var out []int
	for j := 10; j <= maxJ; j++ {
		for _, b := range []int{1 << j, 3 << (j - 1)} {
			for d := -1; d <= 2; d++ {
				out = append(out, b+d)
			}
		}
	}
	return out
}

func genC03(t *rapid.T) c03Case {
	c := c03Case{Seed: rapid.Uint64().Draw(t, "seed")}
	maxN := ev.Scale(300, 1200)
	if rapid.IntRange(0, ev.Scale(59, 149)).Draw(t, "largemode") == 31 {
		// large lists: sizes around 2^j and 1.5*2^j and anywhere up to 10000 (thorough 70000)
		c.Mode = "large"
		c.N = rapid.OneOf(rapid.SampledFrom(c03Boundaries(ev.Scale(13, 16))), rapid.IntRange(1000, ev.Scale(10000, 70000))).Draw(t, "n")
		c.Rep = rapid.SampledFrom([]int{0, 0, 0, 1, 2, 3, 1000}).Draw(t, "rep")
		return c
	}
	if rapid.IntRange(0, 5).Draw(t, "blockmode") == 0 {
		c.Mode = "block"
		c.N = rapid.OneOf(rapid.IntRange(0, 12), rapid.IntRange(0, ev.Scale(40, 130))).Draw(t, "n")
		if rapid.IntRange(0, 39).Draw(t, "bigblock") == 17 {
			c.N = rapid.OneOf(rapid.SampledFrom(c03Boundaries(11)), rapid.IntRange(1000, ev.Scale(3100, 9000))).Draw(t, "bign")
		}
		c.Code = genBytesN(0, 12).Draw(t, "code")
		return c
	}
	c.Mode = "hashes"
	n := rapid.OneOf(rapid.IntRange(0, 20), rapid.IntRange(0, 130), rapid.IntRange(0, maxN)).Draw(t, "n")
	idx := rapid.OneOf(
		rapid.Uint16(),                    // mostly distinct
		rapid.Uint16Range(0, 3),           // many repeats
		rapid.Uint16Range(0xFFFC, 0xFFFF), // special leaves
	)
	c.Idx = rapid.SliceOfN(idx, n, n).Draw(t, "idx")
	if rapid.IntRange(0, 3).Draw(t, "withraw") == 0 {
		c.Raw = toB(rapid.SliceOfN(genBytesN(32, 32), 0, 5).Draw(t, "raw"))
	}
	return c
}

func runC03(ctx *ev.Ctx, c c03Case) {
	ctx.Label("mode:" + c.Mode)
	if c.Mode == "block" {
		runC03Block(ctx, c)
		return
	}
	leaves := c.leaves()
	n := len(leaves)
	if n >= 1024 {
		ctx.Label("n>=1024")
	}
	if n >= 3 && oddLevel(n) {
		ctx.NonTrivial()
	}
	switch {
	case n == 0:
		ctx.Label("n=0")
	case n == 1:
		ctx.Label("n=1")
	case n&(n-1) == 0:
		ctx.Label("n=2^k")
	case oddLevel(n):
		ctx.Label("n:odd-level")
	}
	want := refMerkle(leaves)
	work := make([]common.Uint256, n) // the function documents that it uses the argument as workspace
	for i := range leaves {
		work[i] = common.Uint256(leaves[i])
	}
	var got common.Uint256
	if p := ev.Catch(func() { got = common.ComputeMerkleRoot(work) }); p != "" {
		ctx.Failf("ComputeMerkleRoot panicked on %d hashes: %s", n, p)
	}
	if got != common.Uint256(want) {
		ctx.Failf("ComputeMerkleRoot over %d hashes = %x, reference root = %x", n, got[:], want[:])
	}
	if n == 0 && got != (common.Uint256{}) {
		ctx.Failf("empty list does not map to the zero hash")
	}
	// nil slice as well as empty slice
	if n == 0 {
		if r := common.ComputeMerkleRoot(nil); r != (common.Uint256{}) {
			ctx.Failf("nil list does not map to the zero hash")
		}
	}
}

// block mode: real transactions; the root the node commits (RebuildMerkleRoot) and the root it demands
// when decoding a block are both the reference root over the independently computed identities.
func runC03Block(ctx *ev.Ctx, c c03Case) {
	n := c.N
	if n >= 3 && oddLevel(n) {
		ctx.NonTrivial()
	}
	txs := make([]c02Tx, n)
	for i := range txs {
		txs[i] = c02Tx{Nonce: uint32(c.Seed) + uint32(i), ChainID: c.Seed >> 32, Code: c.Code, Payer: make([]byte, 20)}
	}
	h := &c02Hdr{Height: uint32(n)}
	p := planBlock(h, txs, sigsOf(txs), nil, nil, nil)
	mem := &types.Block{Header: realHdr(h, nil, nil, nil)}
	for i := range txs {
		end := len(p.raw)
		if i+1 < n {
			end = p.txStart[i+1]
		}
		tx, err := decodeTx(ctx, p.raw[p.txStart[i]:end])
		if err != nil {
			ctx.Failf("harness: generated transaction %d refused: %v", i, err)
		}
		if tx.Hash() != common.Uint256(p.hashes[i]) {
			ctx.Failf("tx %d identity differs from the reference (see C02)", i)
		}
		mem.Transactions = append(mem.Transactions, tx)
	}
	if p := ev.Catch(func() { mem.RebuildMerkleRoot() }); p != "" {
		ctx.Failf("RebuildMerkleRoot panicked on %d txs: %s", n, p)
	}
	if mem.Header.TransactionsRoot != common.Uint256(p.root) {
		ctx.Failf("RebuildMerkleRoot over %d txs = %x, reference root = %x", n, mem.Header.TransactionsRoot[:], p.root[:])
	}
	blk, err := decodeBlock(ctx, p.raw)
	if err != nil {
		ctx.Failf("block of %d txs carrying the reference root is refused: %v", n, err)
	}
	if blk.Header.TransactionsRoot != common.Uint256(p.root) || len(blk.Transactions) != n {
		ctx.Failf("decoded block differs from the encoded one")
	}
	// (b) the same block with any other header root must be refused - for every n, including the empty block
	var extra wr
	xt := c02Tx{Nonce: uint32(c.Seed) + uint32(n), ChainID: c.Seed >> 32, Code: c.Code, Payer: make([]byte, 20)}
	xt.encUnsigned(&extra)
	var seedb [9]byte
	binary.LittleEndian.PutUint64(seedb[:], c.Seed)
	seedb[8] = byte(n)
	ones := [32]byte{}
	for i := range ones {
		ones[i] = 0xFF
	}
	flipped := p.root
	flipped[int(c.Seed%32)] ^= 1 << (c.Seed % 8)
	wrong := []struct {
		name string
		root [32]byte
	}{
		{"the zero hash", [32]byte{}},
		{"an all-ones root", ones},
		{"an arbitrary root", dsha(seedb[:])},
		{"the reference root with one bit flipped", flipped},
		{"the root of n+1 transactions", refMerkle(append(append([][32]byte(nil), p.hashes...), dsha(extra.b)))},
		{"the root with the odd node paired with zero", variantMerkle(p.hashes, "oddzero")},
		{"the single-SHA root", variantMerkle(p.hashes, "single")},
	}
	if n >= 1 {
		wrong = append(wrong, struct {
			name string
			root [32]byte
		}{"the root of the first n-1 transactions", refMerkle(p.hashes[:n-1])})
	}
	if n >= 2 {
		rev := make([][32]byte, n)
		for i := range rev {
			rev[i] = p.hashes[n-1-i]
		}
		wrong = append(wrong, struct {
			name string
			root [32]byte
		}{"the root of the reversed list", refMerkle(rev)})
	}
	tried := 0
	for _, wg := range wrong {
		if wg.root == p.root {
			continue // coincides with the reference root for this n (e.g. zero hash for the empty block)
		}
		tried++
		r := wg.root
		p2 := planBlock(h, txs, sigsOf(txs), &r, nil, nil)
		if _, err := decodeBlock(ctx, p2.raw); err == nil {
			ctx.Failf("block of %d txs whose header commits to %s (%x) instead of the reference root %x is accepted by the decoder",
				n, wg.name, r[:], p.root[:])
		}
	}
	if tried < 4 {
		ctx.Failf("harness: only %d wrong roots for n=%d", tried, n)
	}
	ctx.Label(fmt.Sprintf("block:n=%s", map[bool]string{true: fmt.Sprint(n), false: ">=4"}[n < 4]))
}

// variantMerkle: deliberately WRONG roots (used only as header roots that must be refused).
func variantMerkle(hs [][32]byte, variant string) [32]byte {
	if len(hs) == 0 {
		return [32]byte{1}
	}
	if len(hs) == 1 {
		if variant == "single" {
			return sha256.Sum256(hs[0][:])
		}
		return dsha(hs[0][:])
	}
	var next [][32]byte
	for i := 0; i < len(hs); i += 2 {
		var cat [64]byte
		copy(cat[:32], hs[i][:])
		if i+1 < len(hs) {
			copy(cat[32:], hs[i+1][:])
		} else if variant != "oddzero" {
			copy(cat[32:], hs[i][:])
		}
		if variant == "single" {
			next = append(next, sha256.Sum256(cat[:]))
		} else {
			next = append(next, dsha(cat[:]))
		}
	}
	if len(next) == 1 {
		return next[0]
	}
	return variantMerkle(next, variant)
}

func TestC03(t *testing.T) {
	if ev.Shard() == 0 && os.Getenv("VERIF_REPLAY") == "" {
		// every list length 0..130 (thorough 0..600) once: exhaustive over the size dimension
		var cases []c03Case
		for n := 0; n <= ev.Scale(130, 600); n++ {
			idx := make([]uint16, n)
			for i := range idx {
				idx[i] = uint16(i)
			}
			cases = append(cases, c03Case{Mode: "hashes", Seed: uint64(n), Idx: idx})
		}
		// and every block size 0..24 (thorough 0..80): correct root accepted, wrong roots refused
		for n := 0; n <= ev.Scale(24, 80); n++ {
			cases = append(cases, c03Case{Mode: "block", Seed: uint64(1000 + n), N: n})
		}
		// large lists at every boundary 2^j-1..2^j+2 and 1.5*2^j-1..1.5*2^j+2, j = 10..13 (thorough ..16), and a few large real blocks
		for _, n := range c03Boundaries(ev.Scale(13, 16)) {
			cases = append(cases, c03Case{Mode: "large", Seed: uint64(n), N: n})
		}
		for _, n := range []int{1023, 1024, 1025, 1200, 1536, 1537, 2049, 3000} {
			cases = append(cases, c03Case{Mode: "block", Seed: uint64(7000 + n), N: n})
		}
		ev.DriveList(t, "C03", cases, runC03)
		if t.Failed() {
			return
		}
	}
	ev.Drive(t, "C03",
		"cases: every list length 0..130 (thorough 0..600) and every block size 0..24 (thorough 0..80) once, large lists at 2^j-1..2^j+2 and 1.5*2^j-1..1.5*2^j+2 for j=10..13 (thorough ..16) and blocks of 1023..3000 txs once, then lists of 0..300 (thorough 0..1200) 32-byte hashes and (1 case in 60, thorough 150) large lists of 1000..10000 (thorough 70000) hashes around the same boundaries (pseudo-random, heavily repeated, all-zero / all-ones, explicit arbitrary leaves) "+
			"handed to ComputeMerkleRoot, and blocks of 0..40 (thorough 0..130) real transactions through RebuildMerkleRoot and the block decoder (reference root accepted; zero / all-ones / arbitrary / bit-flipped / n-1 / n+1 / reversed / odd-paired-with-zero / single-SHA roots refused, for every n incl. 0); "+
			"oracle: independent recursive Bitcoin-style double-SHA-256 root. non-trivial: n >= 3 and some tree level has odd width; distinct by JSON encoding of the case",
		genC03, runC03)
}
