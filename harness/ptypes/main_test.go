// Package ptypes holds the checks for the ledger object layer:
//
//	C02 transactions / headers / blocks encode faithfully, identity ignores signatures, decoders never panic
//	C03 transaction root == reference Bitcoin-style Merkle root
//	C39 transaction signature validation is exact
//
// Everything the oracles need (wire encoder, double SHA-256, Merkle root, address derivation,
// public key sorting, ECDSA signing) is re-implemented here from the format descriptions; nothing of
// github.com/polynetwork/poly is used on the oracle side. The third-party crypto library
// (ontology-crypto) is trusted for public key objects and for SM2 signing only.
package ptypes

import (
	"bytes"
	"crypto/ecdsa"
	"crypto/elliptic"
	"crypto/sha256"
	"crypto/sha512"
	"encoding/binary"
	"fmt"
	"math/big"
	"sort"
	"testing"

	"github.com/btcsuite/btcd/btcec"
	"github.com/ontio/ontology-crypto/ec"
	"github.com/ontio/ontology-crypto/keypair"
	osig "github.com/ontio/ontology-crypto/signature"
	"github.com/ontio/ontology-crypto/sm2"
	"github.com/ontio/ontology-crypto/sm3"
	"github.com/polynetwork/poly/common/log"
	"golang.org/x/crypto/ed25519"
	"golang.org/x/crypto/ripemd160"

	"verif/harness/ev"
)

func TestMain(m *testing.M) {
	log.InitLog(log.FatalLog) // no writers: discard (the validator logs every rejected transaction)
	initPool()
	ev.Main(m)
}

// ---------------------------------------------------------------------------------------------
// hashing helpers

func dsha(b []byte) [32]byte {
	t := sha256.Sum256(b)
	return sha256.Sum256(t[:])
}

// refMerkle: Bitcoin-style root, written recursively (level by level, odd node paired with itself).
func refMerkle(hs [][32]byte) [32]byte {
	if len(hs) == 0 {
		return [32]byte{}
	}
	if len(hs) == 1 {
		return hs[0]
	}
	next := make([][32]byte, 0, (len(hs)+1)/2)
	for i := 0; i < len(hs); i += 2 {
		l := hs[i]
		r := l
		if i+1 < len(hs) {
			r = hs[i+1]
		}
		var cat [64]byte
		copy(cat[:32], l[:])
		copy(cat[32:], r[:])
		next = append(next, dsha(cat[:]))
	}
	return refMerkle(next)
}

// oddLevel reports whether some level of the tree over n leaves (above the root) has odd width > 1.
func oddLevel(n int) bool {
	for n > 1 {
		if n%2 == 1 {
			return true
		}
		n = (n + 1) / 2
	}
	return false
}

// ---------------------------------------------------------------------------------------------
// reference wire writer

type wr struct {
	b      []byte
	counts []field // positions of count / length fields (for byte-level mutation)
}

type field struct {
	Off  int
	Len  int
	Kind string // "var" | "u16" | "u32"
}

func (w *wr) u8(v byte)    { w.b = append(w.b, v) }
func (w *wr) u16(v uint16) { w.b = binary.LittleEndian.AppendUint16(w.b, v) }
func (w *wr) u32(v uint32) { w.b = binary.LittleEndian.AppendUint32(w.b, v) }
func (w *wr) u64(v uint64) { w.b = binary.LittleEndian.AppendUint64(w.b, v) }
func (w *wr) raw(b []byte) { w.b = append(w.b, b...) }

func encVarUint(v uint64) []byte {
	switch {
	case v < 0xFD:
		return []byte{byte(v)}
	case v <= 0xFFFF:
		return binary.LittleEndian.AppendUint16([]byte{0xFD}, uint16(v))
	case v <= 0xFFFFFFFF:
		return binary.LittleEndian.AppendUint32([]byte{0xFE}, uint32(v))
	}
	return binary.LittleEndian.AppendUint64([]byte{0xFF}, v)
}

func (w *wr) varuint(v uint64) {
	e := encVarUint(v)
	w.counts = append(w.counts, field{len(w.b), len(e), "var"})
	w.b = append(w.b, e...)
}
func (w *wr) cnt16(v uint16) {
	w.counts = append(w.counts, field{len(w.b), 2, "u16"})
	w.u16(v)
}
func (w *wr) cnt32(v uint32) {
	w.counts = append(w.counts, field{len(w.b), 4, "u32"})
	w.u32(v)
}
func (w *wr) varbytes(b []byte) { w.varuint(uint64(len(b))); w.raw(b) }

// readVarUint: reference reader used only to locate the end of the unsigned part of accepted,
// mutated transactions (ok=false: not enough bytes).
func readVarUint(b []byte, off int) (v uint64, n int, ok bool) {
	if off >= len(b) {
		return 0, 0, false
	}
	need := map[byte]int{0xFD: 2, 0xFE: 4, 0xFF: 8}[b[off]]
	if need == 0 {
		return uint64(b[off]), 1, true
	}
	if off+1+need > len(b) {
		return 0, 0, false
	}
	var tmp [8]byte
	copy(tmp[:], b[off+1:off+1+need])
	return binary.LittleEndian.Uint64(tmp[:]), 1 + need, true
}

// refTxUnsignedLen walks the unsigned part of a serialized transaction:
// version(1) type(1) nonce(4) chain(8) gaslimit(8) gasprice(8) varbytes(code) varbytes(attr) payer(20) coin(1)
func refTxUnsignedLen(b []byte) (end int, minimal bool, ok bool) {
	off := 30
	minimal = true
	for i := 0; i < 2; i++ {
		l, n, ok := readVarUint(b, off)
		if !ok || l > uint64(len(b)) {
			return 0, false, false
		}
		if n != len(encVarUint(l)) {
			minimal = false
		}
		off += n + int(l)
	}
	off += 21
	if off > len(b) {
		return 0, false, false
	}
	return off, minimal, true
}

// ---------------------------------------------------------------------------------------------
// key pool

type poolKey struct {
	kind  string // p256 | sm2 | ed25519 | secp256k1 | p384 | offcurve
	pub   keypair.PublicKey
	enc   []byte // independent encoding of the public key
	typ   byte   // key type rank for sorting: 0x12 ecdsa, 0x13 sm2, 0x14 eddsa
	label byte   // curve label
	x, y  *big.Int
	sign  func(msg []byte, variant string) []byte // nil: nobody can sign
}

var pool []*poolKey

const (
	nP256 = 20
	nSM2  = 3
	nEd   = 3
)

func scalarFor(tag string, i int, n *big.Int) *big.Int {
	h := sha256.Sum256([]byte(fmt.Sprintf("ptypes-%s-%d", tag, i)))
	d := new(big.Int).SetBytes(h[:])
	d.Mod(d, new(big.Int).Sub(n, big.NewInt(1)))
	return d.Add(d, big.NewInt(1))
}

func compressed(c elliptic.Curve, x, y *big.Int) []byte {
	l := (c.Params().BitSize + 7) / 8
	out := make([]byte, 1+l)
	out[0] = 2 + byte(y.Bit(0))
	x.FillBytes(out[1:])
	return out
}

// detECDSA is a plain textbook ECDSA signer with a hash-derived nonce (deterministic, so that run
// is a pure function of the case). digest is truncated to the order size as FIPS 186 prescribes.
func detECDSA(c elliptic.Curve, d *big.Int, digest []byte) (r, s *big.Int) {
	n := c.Params().N
	ol := (n.BitLen() + 7) / 8
	if len(digest) > ol {
		digest = digest[:ol]
	}
	e := new(big.Int).SetBytes(digest)
	for ctr := 0; ; ctr++ {
		kh := sha512.Sum512(append(append(d.Bytes(), digest...), byte(ctr)))
		k := new(big.Int).SetBytes(kh[:])
		k.Mod(k, new(big.Int).Sub(n, big.NewInt(1)))
		k.Add(k, big.NewInt(1))
		x, _ := c.ScalarBaseMult(k.Bytes())
		r = new(big.Int).Mod(x, n)
		if r.Sign() == 0 {
			continue
		}
		s = new(big.Int).Mul(r, d)
		s.Add(s, e)
		s.Mul(s, new(big.Int).ModInverse(k, n))
		s.Mod(s, n)
		if s.Sign() != 0 {
			return r, s
		}
	}
}

func rs(c elliptic.Curve, r, s *big.Int) []byte {
	l := (c.Params().BitSize + 7) / 8
	out := make([]byte, 2*l)
	r.FillBytes(out[:l])
	s.FillBytes(out[l:])
	return out
}

func ecdsaKey(kind string, i int, c elliptic.Curve, label byte) *poolKey {
	d := scalarFor(kind, i, c.Params().N)
	x, y := c.ScalarBaseMult(d.Bytes())
	pk := &poolKey{kind: kind, typ: 0x12, label: label, x: x, y: y}
	pk.pub = &ec.PublicKey{Algorithm: ec.ECDSA, PublicKey: &ecdsa.PublicKey{Curve: c, X: x, Y: y}}
	if kind == "p256" {
		pk.enc = compressed(c, x, y) // P-256 ECDSA keys are written without the two flag bytes
	} else {
		pk.enc = append([]byte{0x12, label}, compressed(c, x, y)...)
	}
	pk.sign = func(msg []byte, variant string) []byte {
		switch variant {
		case "sha512": // explicit scheme byte 3 = SHA512withECDSA
			dg := sha512.Sum512(msg)
			r, s := detECDSA(c, d, dg[:])
			return append([]byte{3}, rs(c, r, s)...)
		case "prefixed": // explicit scheme byte 1 = SHA256withECDSA
			dg := sha256.Sum256(msg)
			r, s := detECDSA(c, d, dg[:])
			return append([]byte{1}, rs(c, r, s)...)
		}
		dg := sha256.Sum256(msg)
		r, s := detECDSA(c, d, dg[:])
		out := rs(c, r, s)
		if len(out) != 64 { // only a 64-byte body may drop the scheme byte
			out = append([]byte{1}, out...)
		}
		return out
	}
	return pk
}

type zeroes struct{}

func (zeroes) Read(p []byte) (int, error) {
	for i := range p {
		p[i] = 0
	}
	return len(p), nil
}

func initPool() {
	if pool != nil {
		return
	}
	for i := 0; i < nP256; i++ {
		pool = append(pool, ecdsaKey("p256", i, elliptic.P256(), 2))
	}
	for i := 0; i < nSM2; i++ {
		c := sm2.SM2P256V1()
		d := scalarFor("sm2", i, c.Params().N)
		x, y := c.ScalarBaseMult(d.Bytes())
		priv := &ecdsa.PrivateKey{PublicKey: ecdsa.PublicKey{Curve: c, X: x, Y: y}, D: d}
		pk := &poolKey{kind: "sm2", typ: 0x13, label: 20, x: x, y: y}
		pk.pub = &ec.PublicKey{Algorithm: ec.SM2, PublicKey: &priv.PublicKey}
		pk.enc = append([]byte{0x13, 20}, compressed(c, x, y)...)
		pk.sign = func(msg []byte, variant string) []byte {
			// the library signer derives its nonce from (key, entropy, digest); constant entropy => deterministic
			r, s, err := sm2.Sign(zeroes{}, priv, "", msg, sm3.New())
			if err != nil {
				panic(err)
			}
			return append([]byte{9, 0}, rs(c, r, s)...) // scheme 9 = SM3withSM2, empty id, 0 terminator
		}
		pool = append(pool, pk)
	}
	for i := 0; i < nEd; i++ {
		seed := sha256.Sum256([]byte(fmt.Sprintf("ptypes-ed-%d", i)))
		priv := ed25519.NewKeyFromSeed(seed[:])
		pub := priv.Public().(ed25519.PublicKey)
		pk := &poolKey{kind: "ed25519", typ: 0x14, label: 25, pub: pub}
		pk.enc = append([]byte{0x14, 25}, pub...)
		pk.sign = func(msg []byte, variant string) []byte {
			return append([]byte{10}, ed25519.Sign(priv, msg)...) // scheme 10 = SHA512withEdDSA
		}
		pool = append(pool, pk)
	}
	{ // one secp256k1 key (compact recoverable signatures) and one P-384 key
		c := btcec.S256()
		d := scalarFor("secp256k1", 0, c.Params().N)
		priv, pubk := btcec.PrivKeyFromBytes(c, d.FillBytes(make([]byte, 32)))
		pk := &poolKey{kind: "secp256k1", typ: 0x12, label: 5, x: pubk.X, y: pubk.Y}
		pk.pub = &ec.PublicKey{Algorithm: ec.ECDSA, PublicKey: &ecdsa.PublicKey{Curve: c, X: pubk.X, Y: pubk.Y}}
		pk.enc = append([]byte{0x12, 5}, compressed(c, pubk.X, pubk.Y)...)
		pk.sign = func(msg []byte, variant string) []byte {
			dg := sha256.Sum256(msg)
			sg, err := btcec.SignCompact(c, priv, dg[:], false) // RFC 6979: deterministic
			if err != nil {
				panic(err)
			}
			return append([]byte{1}, sg...)
		}
		pool = append(pool, pk)
		pool = append(pool, ecdsaKey("p384", 0, elliptic.P384(), 3))
	}
	{ // a syntactically acceptable uncompressed P-256 key that is NOT on the curve: nobody can sign for it
		g := elliptic.P256().Params()
		y := new(big.Int).Add(g.Gy, big.NewInt(1))
		enc := make([]byte, 65)
		enc[0] = 4
		g.Gx.FillBytes(enc[1:33])
		y.FillBytes(enc[33:])
		pub, err := keypair.DeserializePublicKey(enc)
		if err != nil {
			panic(err)
		}
		// re-serialisation compresses it: 02/03 || X, which decodes to a different (on-curve) point
		pool = append(pool, &poolKey{kind: "offcurve", typ: 0x12, label: 2, x: g.Gx, y: y, pub: pub, enc: enc})
	}
	{ // the same on the SM2 curve
		g := sm2.SM2P256V1().Params()
		y := new(big.Int).Add(g.Gy, big.NewInt(1))
		enc := make([]byte, 67)
		enc[0], enc[1], enc[2] = 0x13, 20, 4
		g.Gx.FillBytes(enc[3:35])
		y.FillBytes(enc[35:])
		pub, err := keypair.DeserializePublicKey(enc)
		if err != nil {
			panic(err)
		}
		pool = append(pool, &poolKey{kind: "offcurve", typ: 0x13, label: 20, x: g.Gx, y: y, pub: pub, enc: enc})
	}
	// self-test of the independent encoders / signers against the third-party library
	msg := []byte("ptypes pool self test")
	for i, k := range pool {
		if k.kind != "offcurve" {
			if !bytes.Equal(k.enc, keypair.SerializePublicKey(k.pub)) {
				panic(fmt.Sprintf("pool key %d (%s): encoding differs from the library", i, k.kind))
			}
		}
		if k.sign == nil {
			continue
		}
		for _, v := range []string{"", "sha512", "prefixed"} {
			sg, err := osig.Deserialize(k.sign(msg, v))
			if err != nil || !osig.Verify(k.pub, msg, sg) {
				panic(fmt.Sprintf("pool key %d (%s): own signature (variant %q) not accepted by the library: %v", i, k.kind, v, err))
			}
			if !bytes.Equal(k.sign(msg, v), k.sign(msg, v)) {
				panic(fmt.Sprintf("pool key %d (%s): signing is not deterministic", i, k.kind))
			}
		}
	}
}

// signable pool indices / all indices that serialise canonically (everything except offcurve)
func canonicalKeys() int { return len(pool) - 2 }

// keyLess: the documented public key order (type, then curve label, then x, then y; EdDSA by bytes).
func keyLess(a, b *poolKey) bool {
	if a.typ != b.typ {
		return a.typ < b.typ
	}
	if a.typ == 0x14 {
		return bytes.Compare(a.enc[2:], b.enc[2:]) < 0
	}
	if a.label != b.label {
		return a.label < b.label
	}
	if c := a.x.Cmp(b.x); c != 0 {
		return c < 0
	}
	return a.y.Cmp(b.y) < 0
}

func refAddress(program []byte) (a [20]byte) {
	t := sha256.Sum256(program)
	h := ripemd160.New()
	h.Write(t[:])
	copy(a[:], h.Sum(nil))
	return
}

// refEntryAddress: address of a signature entry: one key -> hash of its encoding;
// several keys -> hash of the M-of-n program (u16 n, var-bytes of each key in sorted order, u16 m).
func refEntryAddress(keys []int, m uint16) [20]byte {
	if len(keys) == 1 {
		return refAddress(encOf(pool[keys[0]]))
	}
	ks := make([]*poolKey, len(keys))
	for i, k := range keys {
		ks[i] = pool[k]
	}
	sort.SliceStable(ks, func(i, j int) bool { return keyLess(ks[i], ks[j]) })
	var w wr
	w.u16(uint16(len(ks)))
	for _, k := range ks {
		w.varbytes(encOf(k))
	}
	w.u16(m)
	return refAddress(w.b)
}

// encOf is the canonical (compressed) encoding the node writes for a key object.
func encOf(k *poolKey) []byte {
	if k.kind == "offcurve" {
		if k.typ == 0x13 {
			return append([]byte{0x13, 20}, compressed(sm2.SM2P256V1(), k.x, k.y)...)
		}
		return compressed(elliptic.P256(), k.x, k.y)
	}
	return k.enc
}
