package ptypes

import (
	"fmt"
	"sort"
	"strings"
	"testing"

	"github.com/polynetwork/poly/common"
	"github.com/polynetwork/poly/core/types"
	"github.com/polynetwork/poly/core/validation"
	ontErrors "github.com/polynetwork/poly/errors"
	"pgregory.net/rapid"

	"verif/harness/ev"
)

// ---------------------------------------------------------------------------------------------
// C39 Transaction signature validation is exact

const (
	maxEntries = 16 // documented limits (common/constants): TX_MAX_SIG_SIZE, MULTI_SIG_MAX_PUBKEY_SIZE
	maxKeys    = 16
)

type c39Sg struct {
	// ok | ok512 | okpref: valid signature of pool key By over the transaction hash (default / SHA-512 / explicit scheme byte)
	// otherhash: valid signature of By over a different hash; trunc: valid signature minus its last byte;
	// flip: valid signature with one bit flipped; garbage: Raw; repeat: the same bytes as the previous signature of the entry
	Kind string `json:"kind"`
	By   int    `json:"by"`
	Raw  ev.B   `json:"raw,omitempty"`
}

type c39Entry struct {
	Keys []int   `json:"keys"`
	M    uint16  `json:"m"`
	Sgs  []c39Sg `json:"sgs"`
}

type c39Case struct {
	Nonce   uint32     `json:"nonce"`
	Code    ev.B       `json:"code"`
	Entries []c39Entry `json:"entries"`
	Wire    bool       `json:"wire"` // true: the signed transaction goes through the wire decoder; false: entries are set on the decoded object
}

func genC39Entry(t *rapid.T) c39Entry { return genC39EntryH(t, false) }

// an untampered entry (small), used to make transactions with many entries that are all valid
func genC39Honest(t *rapid.T) c39Entry { return genC39EntryH(t, true) }

func genC39EntryH(t *rapid.T, honest bool) c39Entry {
	var e c39Entry
	nGen := rapid.OneOf(rapid.IntRange(1, 3), rapid.IntRange(1, 3), rapid.IntRange(2, 6), rapid.IntRange(0, 17))
	if honest {
		nGen = rapid.OneOf(rapid.IntRange(1, 3), rapid.IntRange(1, 3), rapid.IntRange(1, 16))
	}
	n := nGen.Draw(t, "nkeys")
	keyIdx := rapid.OneOf(rapid.IntRange(0, nP256-1), rapid.IntRange(0, nP256-1), rapid.IntRange(0, len(pool)-1))
	if honest {
		keyIdx = rapid.OneOf(rapid.IntRange(0, nP256-1), rapid.IntRange(0, canonicalKeys()-1))
	}
	if !honest && rapid.IntRange(0, 7).Draw(t, "dupkeys") == 3 {
		e.Keys = rapid.SliceOfN(keyIdx, n, n).Draw(t, "keys")
	} else {
		e.Keys = rapid.SliceOfNDistinct(keyIdx, n, n, rapid.ID[int]).Draw(t, "keys")
	}
	m := 0
	if n > 0 {
		m = rapid.IntRange(1, n).Draw(t, "m")
	}
	e.M = uint16(m)
	if !honest {
		switch rapid.IntRange(0, 11).Draw(t, "mclass") {
		case 3:
			e.M = rapid.SampledFrom([]uint16{0, uint16(n + 1), uint16(n + 1), 17, 0xFFFF, uint16(n)}).Draw(t, "mbad")
		case 7:
			e.M = uint16(n)
		}
	}
	if int(e.M) <= 20 {
		m = int(e.M) // the signature count follows the claimed M (also when it is out of range)
	}
	// honest core: the first m signatures by m distinct listed keys (in a drawn order) ...
	order := e.Keys
	if n > 1 {
		order = rapid.Permutation(e.Keys).Draw(t, "order")
	}
	sn := m
	if !honest {
		switch rapid.IntRange(0, 9).Draw(t, "snclass") {
		case 2:
			sn = m + rapid.IntRange(1, 3).Draw(t, "extra")
		case 5:
			if m > 0 {
				sn = m - 1
			}
		}
	}
	okKind := rapid.SampledFrom([]string{"ok", "ok", "ok", "ok", "ok512", "okpref"})
	for i := 0; i < sn; i++ {
		sg := c39Sg{Kind: okKind.Draw(t, "kind")}
		if n > 0 {
			sg.By = order[i%n]
		} else {
			sg.By = rapid.IntRange(0, canonicalKeys()-1).Draw(t, "by")
		}
		e.Sgs = append(e.Sgs, sg)
	}
	// ... then tampered with in 0..2 places
	nt := 0
	if !honest {
		nt = rapid.SampledFrom([]int{0, 0, 0, 0, 0, 1, 1, 2}).Draw(t, "ntamper")
	}
	for k := 0; k < nt && len(e.Sgs) > 0; k++ {
		i := rapid.IntRange(0, len(e.Sgs)-1).Draw(t, "tpos")
		sg := &e.Sgs[i]
		switch rapid.SampledFrom([]string{"otherhash", "trunc", "flip", "garbage", "repeat", "foreign", "samesigner", "swap"}).Draw(t, "tamper") {
		case "otherhash", "trunc", "flip":
			sg.Kind = []string{"otherhash", "trunc", "flip"}[rapid.IntRange(0, 2).Draw(t, "tk")]
		case "garbage":
			sg.Kind = "garbage"
			sg.Raw = rapid.OneOf(genBytesN(0, 3), genBytesN(64, 67), genBytesN(0, 100)).Draw(t, "raw")
			if len(sg.Raw) > 2 && rapid.Bool().Draw(t, "schemebyte") {
				sg.Raw[0] = rapid.ByteRange(0, 11).Draw(t, "scheme")
			}
		case "repeat":
			sg.Kind = "repeat"
		case "foreign":
			sg.By = rapid.IntRange(0, canonicalKeys()-1).Draw(t, "by")
		case "samesigner":
			sg.By = e.Sgs[rapid.IntRange(0, len(e.Sgs)-1).Draw(t, "src")].By
		case "swap":
			j := rapid.IntRange(0, len(e.Sgs)-1).Draw(t, "j")
			e.Sgs[i], e.Sgs[j] = e.Sgs[j], e.Sgs[i]
		}
	}
	return e
}

func genC39(t *rapid.T) c39Case {
	return c39Case{
		Nonce: rapid.Uint32().Draw(t, "nonce"),
		Code:  genBytesN(0, 16).Draw(t, "code"),
		Entries: rapid.OneOf(
			rapid.SliceOfN(rapid.Custom(genC39Entry), 1, 2),
			rapid.SliceOfN(rapid.Custom(genC39Entry), 0, 4),
			rapid.SliceOfN(rapid.OneOf(rapid.Custom(genC39Honest), rapid.Custom(genC39Honest), rapid.Custom(genC39Honest),
				rapid.Custom(genC39Honest), rapid.Custom(genC39Entry)), 14, 18),
		).Draw(t, "entries"),
		Wire: rapid.Bool().Draw(t, "wire"),
	}
}

// sigBytes materialises the signatures of an entry; validBy[i] is the pool key the i-th signature is
// valid for by construction (-1: none).
func (e *c39Entry) sigBytes(hash [32]byte) (out [][]byte, validBy []int) {
	for i, sg := range e.Sgs {
		var b []byte
		v := -1
		signer := func(variant string, msg []byte) []byte {
			if sg.By < 0 || sg.By >= len(pool) || pool[sg.By].sign == nil {
				return nil
			}
			return pool[sg.By].sign(msg, variant)
		}
		switch sg.Kind {
		case "ok", "ok512", "okpref":
			b = signer(map[string]string{"ok": "", "ok512": "sha512", "okpref": "prefixed"}[sg.Kind], hash[:])
			if b != nil {
				v = sg.By
			}
		case "otherhash":
			other := hash
			other[31] ^= 1
			b = signer("", other[:])
		case "trunc":
			b = signer("", hash[:])
			if len(b) > 0 {
				b = b[:len(b)-1]
			}
		case "flip":
			b = cp(signer("", hash[:]))
			if len(b) > 0 {
				b[len(b)/2] ^= 0x10
			}
		case "repeat":
			if i > 0 {
				b, v = cp(out[i-1]), validBy[i-1]
			}
		default:
			b = cp(sg.Raw)
		}
		out = append(out, b)
		validBy = append(validBy, v)
	}
	return
}

// verdict of the statement for one entry: "accept", "reject" or "" (not decided by the statement)
func (e *c39Entry) verdict(validBy []int) (string, string) {
	kn, m, sn := len(e.Keys), int(e.M), len(e.Sgs)
	if kn > maxKeys {
		return "reject", "keys>16"
	}
	if m < 1 || m > kn {
		return "reject", "m-out-of-range"
	}
	if sn < m {
		return "reject", "fewer-sigs-than-m"
	}
	listed := map[int]int{} // key identity -> number of listed positions
	for _, k := range e.Keys {
		listed[k]++
	}
	// largest number of signatures that can be attributed to distinct listed positions
	bySigner := map[int]int{}
	for _, v := range validBy {
		if v >= 0 && listed[v] > 0 {
			bySigner[v]++
		}
	}
	match := 0
	for id, c := range bySigner {
		if c > listed[id] {
			c = listed[id]
		}
		match += c
	}
	if match < m {
		return "reject", "fewer-than-m-valid-distinct"
	}
	// the first m signatures valid, by m distinct listed keys
	seen := map[int]bool{}
	for i := 0; i < m; i++ {
		v := validBy[i]
		if v < 0 || listed[v] == 0 || seen[v] {
			return "", "enough-valid-but-not-leading-or-duplicate-key"
		}
		seen[v] = true
	}
	for _, k := range e.Keys {
		if pool[k].kind == "offcurve" {
			// enough honest signatures, but the list also names a malformed key: whether that is still a
			// proper m-of-n entry is not settled by the statement (counted only)
			return "", "leading-m-valid-but-lists-offcurve-key"
		}
	}
	return "accept", "leading-m-valid"
}

func runC39(ctx *ev.Ctx, c c39Case) {
	for _, e := range c.Entries {
		for _, k := range e.Keys {
			if k < 0 || k >= len(pool) {
				ctx.Failf("harness: key index %d out of range", k)
			}
		}
	}
	base := c02Tx{Nonce: c.Nonce, Code: c.Code, Payer: make([]byte, 20)}
	var w wr
	base.encUnsigned(&w)
	unsigned := cp(w.b)
	hash := dsha(unsigned)

	// materialise entries and the statement's verdict
	want := "accept"
	why := ""
	var wantAddrs [][20]byte
	sigs := make([][][]byte, len(c.Entries))
	for i := range c.Entries {
		e := &c.Entries[i]
		var validBy []int
		sigs[i], validBy = e.sigBytes(hash)
		v, r := e.verdict(validBy)
		ctx.Label("entry:" + r)
		if len(e.Keys) > 1 {
			ctx.Label("entry:multi")
		}
		switch v {
		case "reject":
			want, why = "reject", fmt.Sprintf("entry %d: %s", i, r)
		case "":
			if want == "accept" {
				want = ""
			}
		default:
			if len(e.Keys) == 1 || (int(e.M) >= 1 && int(e.M) <= len(e.Keys) && len(e.Keys) <= maxKeys) {
				wantAddrs = append(wantAddrs, refEntryAddress(e.Keys, e.M))
			}
		}
	}
	if len(c.Entries) > maxEntries {
		want, why = "reject", "more than 16 entries"
		ctx.Label("entries>16")
	}
	if len(c.Entries) > 0 {
		ctx.NonTrivial()
	}

	// build the real transaction
	var tx *types.Transaction
	var err error
	if c.Wire {
		ctx.Label("path:wire")
		w.varuint(uint64(len(c.Entries)))
		for i, e := range c.Entries {
			w.u16(uint16(len(sigs[i])))
			for _, s := range sigs[i] {
				w.varbytes(s)
			}
			w.u16(uint16(len(e.Keys)))
			for _, k := range e.Keys {
				w.varbytes(pool[k].enc)
			}
			w.u16(e.M)
		}
		tx, err = decodeTx(ctx, w.b)
	} else {
		ctx.Label("path:memory")
		tx, err = decodeTx(ctx, append(cp(unsigned), 0))
		if err == nil {
			tx.Sigs = make([]types.Sig, len(c.Entries))
			for i, e := range c.Entries {
				tx.Sigs[i].M = e.M
				tx.Sigs[i].SigData = sigs[i]
				for _, k := range e.Keys {
					tx.Sigs[i].PubKeys = append(tx.Sigs[i].PubKeys, pool[k].pub)
				}
			}
		}
	}
	if err != nil {
		ctx.Failf("harness/C02: well-formed transaction refused by the decoder: %v", err)
	}
	if tx.Hash() != common.Uint256(hash) {
		ctx.Failf("transaction hash differs from the reference (see C02)")
	}

	var code ontErrors.ErrCode
	if p := ev.Catch(func() { code = validation.VerifyTransaction(tx) }); p != "" {
		key := "validation-panic:" + panicFunc(p)
		if strings.Contains(p, "invalid point") {
			key = "offcurve-pubkey-panic" // one root cause, several call sites
		}
		if ctx.Known(key, "VerifyTransaction panicked (statement demands %q %s): %s", want, why, p) {
			return
		}
	}
	got := "reject"
	if code == ontErrors.ErrNoError {
		got = "accept"
	} else if code != ontErrors.ErrVerifySignature {
		ctx.Failf("unexpected error code %v", code)
	}
	ctx.Label("want:" + want + "/got:" + got)
	if want != "" && got != want {
		ctx.Failf("validation says %s, the statement demands %s (%s)", got, want, why)
	}
	if got == "reject" {
		if len(tx.SignedAddr) != 0 {
			ctx.Failf("rejected transaction has %d signer addresses attributed", len(tx.SignedAddr))
		}
		return
	}
	if want != "accept" {
		return // accepted in the class the statement leaves open: addresses not judged
	}
	gotSet := addrSet(tx.SignedAddr)
	var wantList []common.Address
	for _, a := range wantAddrs {
		wantList = append(wantList, common.Address(a))
	}
	wantSet := addrSet(wantList)
	if fmt.Sprint(gotSet) != fmt.Sprint(wantSet) {
		ctx.Failf("signer addresses %v, reference addresses of the entries %v", gotSet, wantSet)
	}
	ga, err := tx.GetSignatureAddresses()
	if err != nil || fmt.Sprint(addrSet(ga)) != fmt.Sprint(wantSet) {
		ctx.Failf("GetSignatureAddresses() = %v (err %v), reference %v", addrSet(ga), err, wantSet)
	}
}

func addrSet(a []common.Address) []string {
	m := map[string]bool{}
	for _, x := range a {
		m[fmt.Sprintf("%x", x[:])] = true
	}
	out := make([]string, 0, len(m))
	for k := range m {
		out = append(out, k)
	}
	sort.Strings(out)
	return out
}

func TestC39(t *testing.T) {
	ev.Drive(t, "C39",
		"cases: transactions with 0..18 signature entries; per entry 0..17 keys from a pool of 30 (P-256, SM2, Ed25519, secp256k1, P-384, two syntactically accepted off-curve keys; "+
			"sometimes repeated keys), M in range or 0/n+1/17/65535, signatures built as an honest core (M distinct listed signers, drawn order, three encodings) "+
			"tampered with in 0..2 places (other hash, truncated, bit flip, arbitrary bytes, repeated signature, foreign signer, same signer twice, swapped), "+
			"one signature missing or 1..3 extra; validated through the wire decoder or on the in-memory object. "+
			"oracle: accept demanded when every entry has its first M signatures valid by M distinct listed keys, reject demanded when an entry has M out of range, "+
			">16 keys, or fewer than M signatures attributable to distinct listed keys, or >16 entries; otherwise counted only. non-trivial: >=1 entry; distinct by JSON encoding of the case",
		genC39, runC39)
}
