// Package pprod drives the block PRODUCERS for property C03: the root a producer commits in the header equals
// the reference Bitcoin-style Merkle root over exactly the transactions the block carries.
//
//	solo: SoloService.makeBlock (stub tx-pool actor, real IncrementValidator, real ledger)
//	vbft: Server.constructBlock (minimal server, real ledger for the block root)
//
// Needs the tag-guarded shims consensus/solo/verif_export.go and consensus/vbft/verif_export_producer.go.
package pprod

import (
	"bytes"
	"crypto/sha256"
	"encoding/binary"
	"fmt"
	"os"
	"sync"
	"testing"

	"github.com/ontio/ontology-eventbus/actor"
	"github.com/polynetwork/poly/common"
	"github.com/polynetwork/poly/common/log"
	"github.com/polynetwork/poly/consensus/solo"
	"github.com/polynetwork/poly/consensus/vbft"
	"github.com/polynetwork/poly/core/ledger"
	"github.com/polynetwork/poly/core/types"
	tc "github.com/polynetwork/poly/txnpool/common"
	"pgregory.net/rapid"

	"verif/harness/ev"
	"verif/harness/lworld"
	"verif/harness/world"
)

func TestMain(m *testing.M) {
	log.InitLog(log.FatalLog)
	ev.Main(m)
}

// --- independent reference -------------------------------------------------------------------

func dsha(b []byte) [32]byte {
	t := sha256.Sum256(b)
	return sha256.Sum256(t[:])
}

func refMerkle(hs [][32]byte) [32]byte {
	if len(hs) == 0 {
		return [32]byte{}
	}
	for len(hs) > 1 {
		var next [][32]byte
		for i := 0; i < len(hs); i += 2 {
			j := i + 1
			if j == len(hs) {
				j = i // odd node paired with itself
			}
			next = append(next, dsha(append(append([]byte{}, hs[i][:]...), hs[j][:]...)))
		}
		hs = next
	}
	return hs[0]
}

// unsigned wire form of an invoke transaction: version, type d1, nonce, chain, gas limit, gas price,
// var-bytes code, empty attributes, payer, coin type; followed by signature count 0
func txBytes(id uint32) (raw []byte, hash [32]byte) {
	b := []byte{0, 0xd1}
	b = binary.LittleEndian.AppendUint32(b, id)
	b = binary.LittleEndian.AppendUint64(b, 0)
	b = binary.LittleEndian.AppendUint64(b, 0)
	b = binary.LittleEndian.AppendUint64(b, 0)
	code := []byte{byte(id), byte(id >> 8), 1, 2}
	b = append(b, byte(len(code)))
	b = append(b, code...)
	b = append(b, 0)
	b = append(b, make([]byte, 20)...)
	b = append(b, 0)
	return append(append([]byte{}, b...), 0), dsha(b)
}

var (
	txMu    sync.Mutex
	txCache = map[uint32]*types.Transaction{}
)

func tx(id uint32) *types.Transaction {
	txMu.Lock()
	defer txMu.Unlock()
	if t, ok := txCache[id]; ok {
		return t
	}
	raw, _ := txBytes(id)
	t, err := types.TransactionFromRawBytes(raw)
	if err != nil {
		panic(err)
	}
	txCache[id] = t
	return t
}

// --- fixture: one real ledger per process, three committed (empty) blocks -----------------------

var (
	fixOnce sync.Once
	chain   *lworld.Chain
	fixErr  error
	poolMu  sync.Mutex
	poolNow []*tc.TXEntry
	poolPID *actor.PID
)

const ledgerHeight = 3

func fixture() error {
	fixOnce.Do(func() {
		dir := lworld.TempDir("pprod")
		chain, fixErr = lworld.Open(dir, 4, 0)
		if fixErr != nil {
			return
		}
		for i := 0; i < ledgerHeight; i++ {
			if fixErr = chain.Commit(chain.Build(nil, lworld.BlockOpt{})); fixErr != nil {
				return
			}
		}
		ledger.DefLedger = chain.Ledger
		poolPID = actor.Spawn(actor.FromFunc(func(ctx actor.Context) {
			if _, ok := ctx.Message().(*tc.GetTxnPoolReq); ok {
				poolMu.Lock()
				rsp := &tc.GetTxnPoolRsp{TxnPool: append([]*tc.TXEntry(nil), poolNow...)}
				poolMu.Unlock()
				ctx.Sender().Request(rsp, ctx.Self())
			}
		}))
	})
	return fixErr
}

// --- case ------------------------------------------------------------------------------------

type prodCase struct {
	Producer string `json:"producer"` // solo | vbft
	// solo: transactions the tx pool hands out, by id, in order, without repetition
	Pool []uint32 `json:"pool"`
	// solo: blocks the increment validator has been told about: Window[i] holds the tx ids of the block at height
	// First+i. The validator is in step with the ledger iff First+len(Window) == ledger height+1.
	First  uint32     `json:"first"`
	Window [][]uint32 `json:"window"`
	// vbft: the transaction list handed to constructBlock
	Txs     []uint32 `json:"txs,omitempty"`
	Payload ev.B     `json:"payload,omitempty"`
}

func genIDs(lo, hi int) *rapid.Generator[[]uint32] {
	return rapid.SliceOfNDistinct(rapid.Uint32Range(0, 200), lo, hi, rapid.ID[uint32])
}

func genProd(t *rapid.T) prodCase {
	if rapid.IntRange(0, 3).Draw(t, "vbft") == 0 {
		return prodCase{Producer: "vbft", Window: [][]uint32{},
			Txs:     rapid.OneOf(genIDs(0, 6), genIDs(0, 40)).Draw(t, "txs"),
			Payload: rapid.SliceOfN(rapid.Byte(), 0, 20).Draw(t, "payload")}
	}
	c := prodCase{Producer: "solo"}
	k := rapid.IntRange(0, 4).Draw(t, "k")
	c.Window = make([][]uint32, k)
	for i := range c.Window {
		c.Window[i] = genIDs(0, 5).Draw(t, "packed")
	}
	// mostly in step with the ledger (last block = ledger height), sometimes stale or ahead
	c.First = uint32(ledgerHeight + 1 - k)
	switch rapid.IntRange(0, 7).Draw(t, "step") {
	case 3:
		if c.First > 0 {
			c.First--
		}
	case 5:
		c.First++
	}
	c.Pool = rapid.OneOf(genIDs(0, 6), genIDs(0, 40)).Draw(t, "pool")
	return c
}

func runProd(ctx *ev.Ctx, c prodCase) {
	if err := fixture(); err != nil {
		ctx.Failf("harness: ledger fixture: %v", err)
	}
	ctx.Label("producer:" + c.Producer)
	var blk *types.Block
	var err error
	var want []uint32 // ids the block must carry, in order
	switch c.Producer {
	case "solo":
		svc := solo.VerifNewSoloService(world.Acct(0), poolPID, 20)
		for i, ids := range c.Window {
			b := &types.Block{Header: &types.Header{Height: c.First + uint32(i)}}
			for _, id := range ids {
				b.Transactions = append(b.Transactions, tx(id))
			}
			svc.VerifBlockSaved(b)
		}
		inStep := len(c.Window) > 0 && c.First+uint32(len(c.Window)) == ledgerHeight+1
		packed := map[uint32]bool{}
		if inStep {
			for _, ids := range c.Window {
				for _, id := range ids {
					packed[id] = true
				}
			}
		}
		dropped := 0
		for _, id := range c.Pool {
			if packed[id] {
				dropped++
			} else {
				want = append(want, id)
			}
		}
		if !inStep {
			ctx.Label("solo:validator-out-of-step")
		}
		if dropped > 0 {
			ctx.Label("solo:dropped-already-packed")
			ctx.NonTrivial()
		}
		entries := make([]*tc.TXEntry, len(c.Pool))
		for i, id := range c.Pool {
			entries[i] = &tc.TXEntry{Tx: tx(id)}
		}
		poolMu.Lock()
		poolNow = entries
		poolMu.Unlock()
		if p := ev.Catch(func() { blk, err = svc.VerifMakeBlock() }); p != "" {
			ctx.Failf("solo makeBlock panicked: %s", p)
		}
	case "vbft":
		var txs []*types.Transaction
		for _, id := range c.Txs {
			txs = append(txs, tx(id))
		}
		want = c.Txs
		if p := ev.Catch(func() {
			blk, err = vbft.VerifConstructBlock(world.Acct(0), chain.Tip(), txs, c.Payload, chain.Tip().Header.Timestamp+1, common.ADDRESS_EMPTY)
		}); p != "" {
			ctx.Failf("vbft constructBlock panicked: %s", p)
		}
	default:
		ctx.Failf("harness: producer %q", c.Producer)
	}
	if err != nil {
		ctx.Failf("%s producer failed: %v", c.Producer, err)
	}
	if len(want) >= 1 {
		ctx.NonTrivial()
	}
	// the block carries exactly the expected transactions, in pool order
	if len(blk.Transactions) != len(want) {
		ctx.Failf("%s block carries %d transactions, expected %d (%v)", c.Producer, len(blk.Transactions), len(want), want)
	}
	hs := make([][32]byte, len(want))
	for i, id := range want {
		raw, h := txBytes(id)
		if !bytes.Equal(blk.Transactions[i].Raw, raw) {
			ctx.Failf("%s block transaction %d is not pool entry id %d", c.Producer, i, id)
		}
		hs[i] = h
	}
	ref := refMerkle(hs)
	if blk.Header.TransactionsRoot != common.Uint256(ref) {
		ctx.Failf("%s producer: header TransactionsRoot %x != reference Merkle root %x over the %d transactions of the block",
			c.Producer, blk.Header.TransactionsRoot[:], ref[:], len(want))
	}
	if blk.Header.Height != ledgerHeight+1 || blk.Header.PrevBlockHash != chain.Tip().Hash() {
		ctx.Failf("%s producer: block height %d / previous hash do not extend the ledger tip %d", c.Producer, blk.Header.Height, ledgerHeight)
	}
	// what every peer does with the block
	var back *types.Block
	if p := ev.Catch(func() { back, err = types.BlockFromRawBytes(blk.ToArray()) }); p != "" {
		ctx.Failf("decoding the produced block panicked: %s", p)
	}
	if err != nil {
		ctx.Failf("%s producer: the produced block (%d txs) is refused by BlockFromRawBytes: %v", c.Producer, len(want), err)
	}
	if back.Hash() != blk.Hash() || len(back.Transactions) != len(want) || back.Header.TransactionsRoot != common.Uint256(ref) {
		ctx.Failf("%s producer: block changes in a wire round trip", c.Producer)
	}
	ctx.Label(fmt.Sprintf("ntx:%s", map[bool]string{true: fmt.Sprint(len(want)), false: ">=4"}[len(want) < 4]))
}

func TestC03Producers(t *testing.T) {
	defer func() {
		if chain != nil && os.Getenv("VERIF_KEEP_TMP") == "" {
			chain.Close()
			os.RemoveAll(chain.Dir)
		}
	}()
	ev.Drive(t, "C03",
		"producers: solo makeBlock with a stub tx pool handing out 0..40 distinct transactions and an increment validator told about 0..4 recent blocks "+
			"(in step with the ledger, stale or ahead) whose transactions partly reappear in the pool, and vbft constructBlock with 0..40 transactions, over a real ledger of height 3; "+
			"oracle: the block carries exactly the pool entries not packed in the validator's window, header root == independent reference root over them, block round-trips through BlockFromRawBytes. "+
			"non-trivial: >=1 transaction in the block or >=1 pool entry dropped; distinct by JSON encoding of the case",
		genProd, runProd)
}
