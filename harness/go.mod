module verif/harness

go 1.23

require (
	github.com/anishathalye/porcupine v1.3.0
	github.com/polynetwork/poly v0.0.0
	pgregory.net/rapid v1.3.0
)

require (
	github.com/itchyny/base58-go v0.1.0 // indirect
	golang.org/x/crypto v0.0.0-20220214200702-86341886e292 // indirect
)

replace (
	github.com/btcsuite/btcutil v1.0.3-0.20201208143702-a53e38424cce => github.com/btcsuite/btcutil v1.0.2
	github.com/ethereum/go-ethereum v1.9.25 => github.com/ethereum/go-ethereum v1.9.15
	github.com/harmony-one/harmony v1.10.3-0.20220216090956-7e6b16aec8dc => github.com/devfans/harmony v1.10.3-0.20220304055439-856e256b615f
	github.com/polynetwork/poly => /repo
	github.com/rubblelabs/ripple v0.0.0-20220222071018-38c1a8b14c18 => github.com/siovanus/ripple v0.0.0-20220406100637-81f6afe283d9
	github.com/tendermint/tm-db/064 => github.com/tendermint/tm-db v0.6.4
	golang.org/x/crypto v0.0.0-20210506145944-38f3c27a63bf => golang.org/x/crypto v0.0.0-20210322153248-0c34fe9e7dc2
)
