module verif/harness

go 1.23

require (
	github.com/anishathalye/porcupine v1.3.0
	github.com/btcsuite/btcd v0.21.0-beta
	github.com/btcsuite/btcutil v1.0.3-0.20201208143702-a53e38424cce
	github.com/cosmos/cosmos-sdk v0.39.1
	github.com/ethereum/go-ethereum v1.9.25
	github.com/joeqian10/neo-gogogo v1.1.0
	github.com/joeqian10/neo3-gogogo v0.3.8
	github.com/ontio/ontology v1.11.1-0.20200812075204-26cf1fa5dd47
	github.com/ontio/ontology-crypto v1.0.9
	github.com/ontio/ontology-eventbus v0.9.1
	github.com/polynetwork/poly v0.0.0
	github.com/polynetwork/ripple-sdk v0.0.0-20220424031403-3947f2e7636c
	github.com/rubblelabs/ripple v0.0.0-20220222071018-38c1a8b14c18
	github.com/switcheo/tendermint v0.34.14-2
	github.com/syndtr/goleveldb v1.0.1-0.20200815110645-5c35d600f0ca
	github.com/tendermint/tendermint v0.33.7
	github.com/tendermint/tm-db v0.5.1
	golang.org/x/crypto v0.0.0-20220214200702-86341886e292
	pgregory.net/rapid v1.3.0
)

require (
	github.com/ChainSafe/go-schnorrkel v0.0.0-20200405005733-88cbf1b4c40d // indirect
	github.com/JohnCGriffin/overflow v0.0.0-20170615021017-4d914c927216 // indirect
	github.com/VictoriaMetrics/fastcache v1.5.7 // indirect
	github.com/Workiva/go-datastructures v1.0.52 // indirect
	github.com/Zilliqa/gozilliqa-sdk v1.2.1-0.20210927032600-4c733f2cb879 // indirect
	github.com/aristanetworks/goarista v0.0.0-20190607111240-52c2a7864a08 // indirect
	github.com/beorn7/perks v1.0.1 // indirect
	github.com/bits-and-blooms/bitset v1.2.1 // indirect
	github.com/blocktree/go-owcrypt v1.1.10 // indirect
	github.com/btcsuite/btclog v0.0.0-20170628155309-84c8d2346e9f // indirect
	github.com/btcsuite/go-socks v0.0.0-20170105172521-4720035b7bfd // indirect
	github.com/buger/jsonparser v1.1.1 // indirect
	github.com/cespare/xxhash/v2 v2.1.1 // indirect
	github.com/confio/ics23/go v0.6.6 // indirect
	github.com/cosmos/go-bip39 v0.0.0-20180819234021-555e2067c45d // indirect
	github.com/davecgh/go-spew v1.1.1 // indirect
	github.com/dchest/siphash v1.2.1 // indirect
	github.com/deckarep/golang-set v1.7.1 // indirect
	github.com/drand/kyber v1.1.4 // indirect
	github.com/edsrzf/mmap-go v1.0.0 // indirect
	github.com/emirpasic/gods v1.12.0 // indirect
	github.com/fsnotify/fsnotify v1.4.9 // indirect
	github.com/gcash/bchd v0.16.5 // indirect
	github.com/gcash/bchlog v0.0.0-20180913005452-b4f036f92fa6 // indirect
	github.com/gcash/bchutil v0.0.0-20200506001747-c2894cd54b33 // indirect
	github.com/go-kit/kit v0.10.0 // indirect
	github.com/go-logfmt/logfmt v0.5.0 // indirect
	github.com/go-stack/stack v1.8.0 // indirect
	github.com/gogo/protobuf v1.3.2 // indirect
	github.com/golang/protobuf v1.5.2 // indirect
	github.com/golang/snappy v0.0.1 // indirect
	github.com/google/btree v1.0.0 // indirect
	github.com/gorilla/websocket v1.4.2 // indirect
	github.com/gtank/merlin v0.1.1 // indirect
	github.com/gtank/ristretto255 v0.1.2 // indirect
	github.com/harmony-one/bls v0.0.6 // indirect
	github.com/harmony-one/harmony v1.10.3-0.20220216090956-7e6b16aec8dc // indirect
	github.com/harmony-one/taggedrlp v0.1.4 // indirect
	github.com/hashicorp/golang-lru v0.5.4 // indirect
	github.com/hashicorp/hcl v1.0.0 // indirect
	github.com/holiman/uint256 v1.2.0 // indirect
	github.com/ipfs/go-cid v0.0.7 // indirect
	github.com/itchyny/base58-go v0.1.0 // indirect
	github.com/joeqian10/neo3-gogogo-legacy v1.0.0 // indirect
	github.com/klauspost/cpuid/v2 v2.0.4 // indirect
	github.com/libp2p/go-buffer-pool v0.0.2 // indirect
	github.com/libp2p/go-libp2p-core v0.8.6 // indirect
	github.com/magiconair/properties v1.8.1 // indirect
	github.com/matthewhartstonge/argon2 v0.2.1 // indirect
	github.com/mattn/go-runewidth v0.0.4 // indirect
	github.com/matttproud/golang_protobuf_extensions v1.0.1 // indirect
	github.com/mimoo/StrobeGo v0.0.0-20181016162300-f8f6d4d2b643 // indirect
	github.com/minio/blake2b-simd v0.0.0-20160723061019-3f5f724cb5b1 // indirect
	github.com/minio/sha256-simd v1.0.0 // indirect
	github.com/mitchellh/mapstructure v1.3.3 // indirect
	github.com/mr-tron/base58 v1.2.0 // indirect
	github.com/multiformats/go-base32 v0.0.3 // indirect
	github.com/multiformats/go-base36 v0.1.0 // indirect
	github.com/multiformats/go-multiaddr v0.3.3 // indirect
	github.com/multiformats/go-multibase v0.0.3 // indirect
	github.com/multiformats/go-multihash v0.0.15 // indirect
	github.com/multiformats/go-varint v0.0.6 // indirect
	github.com/natefinch/lumberjack v2.0.0+incompatible // indirect
	github.com/novifinancial/serde-reflection/serde-generate/runtime/golang v0.0.0-20210526181959-1694c58d103e // indirect
	github.com/olekukonko/tablewriter v0.0.2-0.20190409134802-7e037d187b0c // indirect
	github.com/orcaman/concurrent-map v0.0.0-20190826125027-8c72a8bb44f6 // indirect
	github.com/pelletier/go-toml v1.9.3 // indirect
	github.com/phoreproject/bls v0.0.0-20200525203911-a88a5ae26844 // indirect
	github.com/pkg/errors v0.9.1 // indirect
	github.com/pmezard/go-difflib v1.0.0 // indirect
	github.com/prometheus/client_golang v1.10.0 // indirect
	github.com/prometheus/client_model v0.2.0 // indirect
	github.com/prometheus/common v0.18.0 // indirect
	github.com/prometheus/procfs v0.6.0 // indirect
	github.com/prometheus/tsdb v0.7.1 // indirect
	github.com/renlulu/gozilliqa-sdklegacy v0.0.0-20220127085552-852a2675dc93 // indirect
	github.com/rs/zerolog v1.18.0 // indirect
	github.com/shirou/gopsutil v2.20.5-0.20200531151128-663af789c085+incompatible // indirect
	github.com/spf13/afero v1.2.1 // indirect
	github.com/spf13/cast v1.3.0 // indirect
	github.com/spf13/cobra v1.1.1 // indirect
	github.com/spf13/jwalterweatherman v1.1.0 // indirect
	github.com/spf13/pflag v1.0.5 // indirect
	github.com/spf13/viper v1.7.1 // indirect
	github.com/starcoinorg/starcoin-go v0.0.0-20220803022851-4369901a66d0 // indirect
	github.com/steakknife/bloomfilter v0.0.0-20180922174646-6819c0d2a570 // indirect
	github.com/steakknife/hamming v0.0.0-20180906055917-c99c65617cd3 // indirect
	github.com/stretchr/objx v0.2.0 // indirect
	github.com/stretchr/testify v1.7.0 // indirect
	github.com/subosito/gotenv v1.2.0 // indirect
	github.com/tendermint/go-amino v0.15.1 // indirect
	github.com/tendermint/iavl v0.14.0 // indirect
	github.com/valyala/bytebufferpool v1.0.0 // indirect
	github.com/zquestz/grab v0.0.0-20190224022517-abcee96e61b1 // indirect
	golang.org/x/net v0.0.0-20211112202133-69e39bad7dc2 // indirect
	golang.org/x/sys v0.0.0-20220222160653-b146bcec3beb // indirect
	golang.org/x/term v0.0.0-20201126162022-7de9c90e9dd1 // indirect
	golang.org/x/text v0.3.6 // indirect
	google.golang.org/genproto v0.0.0-20200526211855-cb27e3aa2013 // indirect
	google.golang.org/grpc v1.37.0 // indirect
	google.golang.org/protobuf v1.26.0 // indirect
	gopkg.in/ini.v1 v1.51.0 // indirect
	gopkg.in/yaml.v2 v2.4.0 // indirect
	gopkg.in/yaml.v3 v3.0.0-20200313102051-9f266ea9e77c // indirect
)

replace (
	github.com/btcsuite/btcutil v1.0.3-0.20201208143702-a53e38424cce => github.com/btcsuite/btcutil v1.0.2
	github.com/ethereum/go-ethereum v1.9.25 => github.com/ethereum/go-ethereum v1.9.15
	github.com/harmony-one/harmony v1.10.3-0.20220216090956-7e6b16aec8dc => github.com/devfans/harmony v1.10.3-0.20220304055439-856e256b615f
	github.com/polynetwork/poly => /repo
	github.com/rubblelabs/ripple v0.0.0-20220222071018-38c1a8b14c18 => github.com/siovanus/ripple v0.0.0-20220406100637-81f6afe283d9
	github.com/tendermint/tm-db/064 => github.com/tendermint/tm-db v0.6.4
	golang.org/x/crypto v0.0.0-20210506145944-38f3c27a63bf => golang.org/x/crypto v0.0.0-20210322153248-0c34fe9e7dc2
)
