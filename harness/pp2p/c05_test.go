package pp2p

import (
	"bytes"
	"encoding/binary"
	"fmt"
	"os"
	"reflect"
	"strings"
	"testing"

	"pgregory.net/rapid"

	"github.com/polynetwork/poly/common"
	"github.com/polynetwork/poly/common/config"
	"github.com/polynetwork/poly/p2pserver/message/types"

	"verif/harness/ev"
)

func TestMain(m *testing.M) { ev.Main(m) }

// ---------------------------------------------------------------------------------------------
// C05 Peer-to-peer frames are integrity-checked and round-trip

type hdrOp struct {
	K string `json:"k"`           // magic | len | lend | cksum | cmd | repair | cut | append
	V uint64 `json:"v,omitempty"` // magic / absolute length / cut position
	D int64  `json:"d,omitempty"` // lend: delta added to the current length field
	B ev.B   `json:"b,omitempty"` // cksum (4) / cmd (<=12) / append bytes
}

type pMut struct {
	K    string `json:"k"`              // set | u64 | u32 | u16 | varp | cut | ins | app
	Mark bool   `json:"mark,omitempty"` // Off selects one of the count / length fields of the original payload
	Off  int    `json:"off,omitempty"`
	V    uint64 `json:"v,omitempty"`
	B    ev.B   `json:"b,omitempty"`
}

type c05Case struct {
	Mode   string   `json:"mode"` // roundtrip | sweep | hdr | payload | stream | big
	Magic  uint32   `json:"magic"`
	Msgs   []pMsg   `json:"msgs,omitempty"`
	Full   bool     `json:"full,omitempty"`   // sweep: every one of the 255 other values at every offset
	Large  bool     `json:"large,omitempty"`  // sweep: also try (two per offset of) the length values claiming 64KiB..limit
	Ops    []hdrOp  `json:"ops,omitempty"`    // header-field rewrites applied to the stream
	PMuts  []pMut   `json:"pmuts,omitempty"`  // payload mutations applied before (re)framing
	Tail   ev.B     `json:"tail,omitempty"`   // bytes following the frame in the stream
	Cmd    ev.B     `json:"cmd,omitempty"`    // payload/stream: command bytes (default: kind of Msgs[0])
	Raw    ev.B     `json:"raw,omitempty"`    // stream: payload bytes (Framed) or the whole stream
	Framed bool     `json:"framed,omitempty"` // stream: Raw is a payload, framed with a correct header
	BigLen int      `json:"biglen,omitempty"` // big: payload length around the size limit
	Lists  [][]pMsg `json:"lists,omitempty"`  // conc: one message list per goroutine
	Reps   int      `json:"reps,omitempty"`   // conc: repetitions of the list per goroutine
	Src    string   `json:"src,omitempty"`    // "fuzz": case decoded from native fuzzer bytes (FuzzC05)
}

func gMagic() *rapid.Generator[uint32] {
	return rapid.OneOf(rapid.Uint32(), rapid.SampledFrom([]uint32{0x8c77ab60, 0x2d8829df, 0, 1, 0xFFFFFFFF, 0x80000000, 0x000000FF}))
}

func swap32(v uint32) uint32 {
	return v<<24 | (v<<8)&0xFF0000 | (v>>8)&0xFF00 | v>>24
}

func gOp(magic uint32) *rapid.Generator[hdrOp] {
	return rapid.Custom(func(t *rapid.T) hdrOp {
		k := rapid.SampledFrom([]string{"magic", "magic", "len", "lend", "lend", "cksum", "cmd", "cmd", "repair", "repair", "cut", "append"}).Draw(t, "op")
		op := hdrOp{K: k}
		switch k {
		case "magic":
			op.V = uint64(rapid.OneOf(
				rapid.SampledFrom([]uint32{magic + 1, magic - 1, swap32(magic), 0, ^magic, magic}),
				rapid.Custom(func(t *rapid.T) uint32 { return magic ^ (1 << rapid.IntRange(0, 31).Draw(t, "bit")) }),
				rapid.Uint32()).Draw(t, "magic"))
		case "len":
			// values that claim 64KiB..limit make ReadMessage allocate the claim before it finds the
			// stream short; they are kept rare (1 in 25) because clearing that memory dominates otherwise
			cheap := rapid.SampledFrom([]uint64{maxPayload + 1, maxPayload + 2, 0xFFFFFFFF, 0x80000000, 0x7FFFFFFF, 0, 1 << 25})
			small := rapid.Uint64Range(0, 400)
			over := rapid.Uint64Range(maxPayload+1, 0xFFFFFFFF)
			if rapid.IntRange(0, 24).Draw(t, "largeclaim") == 0 {
				op.V = rapid.SampledFrom([]uint64{maxPayload, maxPayload - 1, 1 << 24, 1 << 20, 1 << 17}).Draw(t, "len")
			} else {
				op.V = rapid.OneOf(cheap, small, over, rapid.Uint64Range(0, 70000)).Draw(t, "len")
			}
		case "lend":
			op.D = rapid.OneOf(rapid.Int64Range(-6, 6), rapid.Int64Range(-300, 300)).Draw(t, "delta")
		case "cksum":
			op.B = gFix(4).Draw(t, "cksum")
		case "cmd":
			op.B = gCmd().Draw(t, "cmd")
		case "cut":
			op.V = rapid.Uint64Range(0, 1<<20).Draw(t, "cut")
		case "append":
			op.B = gBytes(0, 40).Draw(t, "extra")
		}
		return op
	})
}

// gCmd: command field contents (<= 12 bytes, NUL padded on use): known names and near misses.
func gCmd() *rapid.Generator[ev.B] {
	return rapid.Custom(func(t *rapid.T) ev.B {
		name := rapid.SampledFrom(kinds).Draw(t, "name")
		switch rapid.IntRange(0, 9).Draw(t, "cmdclass") {
		case 0, 1, 2:
			return ev.B(name)
		case 3:
			return ev.B(strings.ToUpper(name))
		case 4:
			return ev.B(name + "x")
		case 5:
			return ev.B(name[:len(name)-1])
		case 6: // garbage behind the terminating NUL
			return ev.B(fix(append(append([]byte(name), 0), rapid.SampledFrom([]string{"z", "ping", "\x01"}).Draw(t, "junk")...), 12))
		case 7: // leading NUL
			return ev.B(append([]byte{0}, name...))
		case 8:
			return ev.B(nil) // all NUL
		}
		return gBytes(1, 12).Draw(t, "rawcmd")
	})
}

func gPMut() *rapid.Generator[pMut] {
	boundary := []uint64{0, 1, 63, 64, 65, 0xFC, 0xFD, 0xFE, 0xFF, 0xFFFF, 0x10000, 0xFFFFFFFF, 1 << 32, 1<<63 - 1, 1 << 63, 1<<63 + 1, 1<<64 - 1}
	return rapid.Custom(func(t *rapid.T) pMut {
		m := pMut{}
		// two thirds of the mutations aim at a count / length field of the original payload
		m.Mark = rapid.IntRange(0, 2).Draw(t, "atmark") > 0
		if m.Mark {
			m.K = rapid.SampledFrom([]string{"varp", "varp", "varp", "u64", "u32", "u16", "set"}).Draw(t, "mut")
			m.Off = rapid.IntRange(0, 23).Draw(t, "markidx")
		} else {
			m.K = rapid.SampledFrom([]string{"set", "u64", "u32", "u16", "varp", "cut", "cut", "ins", "app"}).Draw(t, "mut")
			m.Off = rapid.OneOf(rapid.Just(0), rapid.Just(1), rapid.IntRange(0, 1<<16)).Draw(t, "off")
		}
		switch m.K {
		case "set":
			m.V = uint64(rapid.Byte().Draw(t, "val"))
		case "u64", "u32", "u16", "varp":
			m.V = rapid.OneOf(rapid.SampledFrom(boundary), rapid.Uint64Range(0, 300), rapid.Uint64()).Draw(t, "val")
		case "ins", "app":
			m.B = gBytes(1, 40).Draw(t, "bytes")
		}
		return m
	})
}

func genC05(t *rapid.T) c05Case {
	// (rapid favours the first entries)
	mode := rapid.SampledFrom([]string{"payload", "payload", "payload", "payload", "payload", "hdr", "hdr", "hdr", "hdr", "sweep", "sweep",
		"roundtrip", "roundtrip", "roundtrip", "roundtrip", "roundtrip", "roundtrip", "stream", "stream", "stream", "conc"}).Draw(t, "mode")
	if mode == "conc" && rapid.IntRange(0, 17).Draw(t, "concrare") != 0 {
		mode = "roundtrip" // a concurrent case costs as much as a few hundred others: about a dozen per quick shard
	}
	c := c05Case{Mode: mode, Magic: gMagic().Draw(t, "magic")}
	switch mode {
	case "conc":
		// K = 2..6 goroutines, each with its own 3..8 small messages of any kind, repeated so that
		// every goroutine handles a few hundred frames
		k := rapid.IntRange(2, 6).Draw(t, "goroutines")
		c.Lists = rapid.SliceOfN(rapid.SliceOfN(gMsg("", true), 3, 8), k, k).Draw(t, "lists")
		c.Reps = rapid.IntRange(20, 40).Draw(t, "reps")
	case "roundtrip":
		c.Msgs = rapid.SliceOfN(gMsg("", false), 1, 3).Draw(t, "msgs")
	case "sweep":
		c.Msgs = []pMsg{gMsg("", true).Draw(t, "msg")}
		c.Full = rapid.IntRange(0, 19).Draw(t, "full") == 0
		c.Tail = gBytes(0, 30).Draw(t, "tail")
	case "hdr":
		c.Msgs = []pMsg{gMsg("", false).Draw(t, "msg")}
		c.Tail = rapid.OneOf(rapid.Just(ev.B(nil)), gBytes(0, 40), gBytes(200, 400)).Draw(t, "tail")
		c.Ops = rapid.SliceOfN(gOp(c.Magic), 1, 3).Draw(t, "ops")
	case "payload":
		c.Msgs = []pMsg{gMsg("", false).Draw(t, "msg")}
		c.PMuts = rapid.SliceOfN(gPMut(), 1, 3).Draw(t, "pmuts")
		if rapid.IntRange(0, 5).Draw(t, "othercmd") == 0 {
			c.Cmd = ev.B(rapid.SampledFrom(kinds).Draw(t, "cmd")) // payload of one kind under another command
		}
		c.Tail = gBytes(0, 20).Draw(t, "tail")
		c.Ops = rapid.SliceOfN(gOp(c.Magic), 0, 1).Draw(t, "ops")
	case "stream":
		c.Framed = rapid.IntRange(0, 3).Draw(t, "framed") > 0
		if c.Framed {
			c.Cmd = rapid.OneOf(rapid.Custom(func(t *rapid.T) ev.B { return ev.B(rapid.SampledFrom(kinds).Draw(t, "cmd")) }), gCmd()).Draw(t, "cmd")
			c.Raw = rapid.OneOf(gBytes(0, 60), gBytes(0, 250)).Draw(t, "payload")
			c.PMuts = rapid.SliceOfN(gPMut(), 0, 2).Draw(t, "pmuts")
			c.Ops = rapid.SliceOfN(gOp(c.Magic), 0, 2).Draw(t, "ops")
		} else {
			c.Raw = rapid.OneOf(gBytes(0, 30), gBytes(0, 120)).Draw(t, "raw")
			// half of the time give the garbage a correct magic (and sometimes more) so it gets past the first test
			c.Ops = rapid.SliceOfN(rapid.OneOf(rapid.Just(hdrOp{K: "magic", V: uint64(c.Magic)}), gOp(c.Magic)), 0, 3).Draw(t, "ops")
		}
	}
	return c
}

// ---------------------------------------------------------------------------------------------
// the independent frame predicate (written from the statement)

// framePredicate decides whether stream starts with an acceptable frame for network magic `magic`:
// magic ok ∧ length <= limit ∧ the stream holds `length` payload bytes ∧ first four bytes of
// SHA-256(SHA-256(payload)) equal the header checksum ∧ the NUL-padded command is a known one.
func framePredicate(stream []byte, magic uint32) (ok bool, kind string, payload []byte, why string) {
	if len(stream) < hdrLen {
		return false, "", nil, "short-header"
	}
	if binary.LittleEndian.Uint32(stream[0:4]) != magic {
		return false, "", nil, "magic"
	}
	ln := uint64(binary.LittleEndian.Uint32(stream[16:20]))
	if ln > maxPayload {
		return false, "", nil, "too-long"
	}
	if uint64(len(stream)-hdrLen) < ln {
		return false, "", nil, "short-payload"
	}
	payload = stream[hdrLen : hdrLen+int(ln)]
	ck := sha256d(payload)
	if !bytes.Equal(ck[:4], stream[20:24]) {
		return false, "", nil, "checksum"
	}
	for _, k := range kinds {
		if bytes.Equal(stream[4:16], fix([]byte(k), 12)) {
			return true, k, payload, ""
		}
	}
	return false, "", nil, "command"
}

// panicSite: first stack frame inside the repository under test (file path relative to its root;
// works for /repo and for a scratch worktree given by VERIF_REPO).
func panicSite(p string) string {
	root := os.Getenv("VERIF_REPO")
	if root == "" {
		root = "/repo"
	}
	root = strings.TrimRight(root, "/") + "/"
	for _, l := range strings.Split(p, "\n") {
		l = strings.TrimSpace(l)
		if strings.HasPrefix(l, root) && strings.Contains(l, ".go:") {
			l = l[len(root):]
			return l[:strings.Index(l, ".go:")+3]
		}
	}
	return ev.PanicSite(p)
}

func reportPanic(ctx *ev.Ctx, tag, p string, stream []byte) {
	key := "panic:" + panicSite(p)
	ctx.Known(key, "%s: reading a %d-byte stream panicked (stream %x): %s", tag, len(stream), clip(stream), p)
}

// judge feeds stream to ReadMessage and checks the outcome against the frame predicate.
// Returns "accept", "reject:<why>" or "known-panic".
func judge(ctx *ev.Ctx, stream []byte, magic uint32, tag string) string {
	var msg types.Message
	var n uint32
	var err error
	r := bytes.NewReader(stream)
	if p := ev.Catch(func() { msg, n, err = types.ReadMessage(r) }); p != "" {
		reportPanic(ctx, tag, p, stream)
		return "known-panic"
	}
	ok, kind, payload, why := framePredicate(stream, magic)
	if why == "short-payload" {
		if claim := binary.LittleEndian.Uint32(stream[16:20]); claim > largeClaim {
			ctx.Label(fmt.Sprintf("claim-%dMiB-without-payload", (claim>>20)+1)) // ReadMessage allocates the claim first
		}
	}
	if !ok {
		if err == nil {
			ctx.Failf("%s: ReadMessage accepted a frame that must be rejected (%s): got %s message, length %d; stream %x", tag, why, kindOf(msg), n, clip(stream))
		}
		if msg != nil {
			ctx.Failf("%s: ReadMessage returned both an error and a message (%s)", tag, why)
		}
		return "reject:" + why
	}
	ref := newByKind(kind)
	var derr error
	if p := ev.Catch(func() { derr = ref.Deserialization(common.NewZeroCopySource(payload)) }); p != "" {
		reportPanic(ctx, tag+" (direct payload decode)", p, stream)
		return "known-panic"
	}
	if derr != nil {
		if err == nil {
			ctx.Failf("%s: ReadMessage accepted a %s frame whose payload the %s decoder refuses (%v); stream %x", tag, kind, kind, derr, clip(stream))
		}
		return "reject:payload"
	}
	if err != nil {
		ctx.Failf("%s: ReadMessage rejected a well-formed %s frame (magic, length, checksum, command and payload all fine): %v; stream %x", tag, kind, err, clip(stream))
	}
	if int(n) != len(payload) {
		ctx.Failf("%s: ReadMessage reported payload length %d, header says %d", tag, n, len(payload))
	}
	if k := kindOf(msg); k != kind || msg.CmdType() != kind {
		ctx.Failf("%s: command %q decoded as %s (CmdType %q)", tag, kind, k, msg.CmdType())
	}
	if consumed := len(stream) - r.Len(); consumed != hdrLen+len(payload) {
		ctx.Failf("%s: ReadMessage consumed %d bytes of the stream, frame is %d bytes", tag, consumed, hdrLen+len(payload))
	}
	if !reflect.DeepEqual(msg, ref) {
		ctx.Failf("%s: ReadMessage result differs from decoding the payload as %s: %s", tag, kind, flatImplSafe(msg).diff(flatImplSafe(ref)))
	}
	reframe(ctx, msg, kind, magic, tag)
	return "accept"
}

// keyFree: kinds without public keys / signature programs. Any value of these kinds that a decoder
// returns can be written again, so "survives framing unchanged" is judged for every accepted frame.
// (Decoded headers / transactions / consensus payloads may hold keys in a non-canonical encoding or
// signature entries without keys, which the writers normalise or refuse; those are judged on
// generated values in the roundtrip mode only.)
func keyFree(kind string) bool {
	switch kind {
	case "headers", "block", "tx", "consensus":
		return false
	}
	return true
}

// reframe: an accepted message, written with WriteMessage and read back, is the same message.
func reframe(ctx *ev.Ctx, msg types.Message, kind string, magic uint32, tag string) {
	if !keyFree(kind) {
		return
	}
	sink := common.NewZeroCopySink(nil)
	var err error
	if p := ev.Catch(func() { err = types.WriteMessage(sink, msg) }); p != "" || err != nil {
		ctx.Failf("%s: the accepted %s message cannot be framed again: %v %s", tag, kind, err, p)
	}
	var msg2 types.Message
	if p := ev.Catch(func() { msg2, _, err = types.ReadMessage(bytes.NewReader(sink.Bytes())) }); p != "" {
		reportPanic(ctx, tag+" (re-framed)", p, sink.Bytes())
		return
	}
	if err != nil {
		ctx.Failf("%s: the accepted %s message, framed again by WriteMessage, is refused: %v (frame %x)", tag, kind, err, clip(sink.Bytes()))
	}
	if !reflect.DeepEqual(msg2, msg) {
		ctx.Failf("%s: the accepted %s message changes when framed again: %s", tag, kind, flatImplSafe(msg2).diff(flatImplSafe(msg)))
	}
}

func flatImplSafe(m types.Message) (f flat) {
	if p := ev.Catch(func() { f = flatImpl(m) }); p != "" {
		return flat{K: "unflattenable " + kindOf(m)}
	}
	return f
}

// ---------------------------------------------------------------------------------------------
// stream construction helpers

func applyPMuts(p []byte, marks []int, muts []pMut) []byte {
	p = append([]byte(nil), p...)
	for _, m := range muts {
		n := len(p)
		switch m.K {
		case "app":
			p = append(p, m.B...)
			continue
		case "ins":
			off := 0
			if n > 0 {
				off = m.Off % (n + 1)
			}
			p = append(p[:off:off], append(append([]byte(nil), m.B...), p[off:]...)...)
			continue
		}
		if n == 0 {
			continue
		}
		off := m.Off % n
		if m.Mark && len(marks) > 0 { // marks refer to the unmutated payload: most useful for the first mutation
			if mk := marks[m.Off%len(marks)]; mk < n {
				off = mk
			}
		}
		switch m.K {
		case "set":
			p[off] = byte(m.V)
		case "u16":
			var b [2]byte
			binary.LittleEndian.PutUint16(b[:], uint16(m.V))
			copy(p[off:], b[:])
		case "u64":
			var b [8]byte
			binary.LittleEndian.PutUint64(b[:], m.V)
			copy(p[off:], b[:])
		case "u32":
			var b [4]byte
			binary.LittleEndian.PutUint32(b[:], uint32(m.V))
			copy(p[off:], b[:])
		case "varp":
			e := &enc{}
			e.varuint(m.V)
			p = append(p[:off:off], append(e.b, p[off+1:]...)...)
		case "cut":
			p = p[:off]
		}
	}
	return p
}

func applyOps(s []byte, ops []hdrOp) []byte {
	s = append([]byte(nil), s...)
	for _, op := range ops {
		switch op.K {
		case "append":
			s = append(s, op.B...)
			continue
		case "cut":
			if len(s) > 0 {
				s = s[:int(op.V%uint64(len(s)))]
			}
			continue
		}
		if len(s) < hdrLen {
			continue
		}
		switch op.K {
		case "magic":
			binary.LittleEndian.PutUint32(s[0:4], uint32(op.V))
		case "len":
			binary.LittleEndian.PutUint32(s[16:20], uint32(op.V))
		case "lend":
			v := int64(binary.LittleEndian.Uint32(s[16:20])) + op.D
			if v < 0 {
				v = 0
			}
			if v > 0xFFFFFFFF {
				v = 0xFFFFFFFF
			}
			binary.LittleEndian.PutUint32(s[16:20], uint32(v))
		case "cksum":
			copy(s[20:24], fix(op.B, 4))
		case "cmd":
			copy(s[4:16], fix(op.B, 12))
		case "repair":
			ln := uint64(binary.LittleEndian.Uint32(s[16:20]))
			if ln <= uint64(len(s)-hdrLen) {
				ck := sha256d(s[hdrLen : hdrLen+int(ln)])
				copy(s[20:24], ck[:4])
			}
		}
	}
	return s
}

func region(off int) string {
	switch {
	case off < 4:
		return "magic"
	case off < 16:
		return "cmd"
	case off < 20:
		return "len"
	case off < 24:
		return "cksum"
	}
	return "payload"
}

func variants(orig byte, full bool) []byte {
	var out []byte
	if full {
		for v := 0; v < 256; v++ {
			if byte(v) != orig {
				out = append(out, byte(v))
			}
		}
		return out
	}
	seen := map[byte]bool{orig: true}
	cand := []byte{0x00, 0xFF, orig + 1, orig - 1}
	for b := 0; b < 8; b++ {
		cand = append(cand, orig^(1<<b))
	}
	for _, v := range cand {
		if !seen[v] {
			seen[v] = true
			out = append(out, v)
		}
	}
	return out
}

// largeClaim: the corrupted length field claims more than 64 KiB but not more than the limit.
// ReadMessage allocates (and clears) the claimed size before it notices that the stream is shorter,
// which dominates the run time; the sweeps therefore only sample this class (the exhaustive grid
// keeps the smallest and the largest such claim per offset; the header-rewrite mode covers it too).
const largeClaim = 1 << 16

func sweepVariants(stream []byte, off int, full, withLarge bool) (vs []byte, skipped int) {
	vs = variants(stream[off], full)
	if off < 16 || off >= 20 {
		return vs, 0
	}
	var keep, large []byte
	orig := stream[off]
	for _, v := range vs {
		stream[off] = v
		ln := binary.LittleEndian.Uint32(stream[16:20])
		if ln > largeClaim && ln <= maxPayload {
			large = append(large, v)
		} else {
			keep = append(keep, v)
		}
	}
	stream[off] = orig
	if withLarge && len(large) > 0 { // exhaustive grid: smallest and largest claim of the class
		keep = append(keep, large[0])
		if len(large) > 1 {
			keep = append(keep, large[len(large)-1])
		}
		return keep, len(large) - min(len(large), 2)
	}
	return keep, len(large)
}

// writeFrames serialises msgs with the real WriteMessage into one sink and checks the bytes against
// the reference frames.
func writeFrames(ctx *ev.Ctx, c c05Case) (all []byte, frames [][]byte) {
	sink := common.NewZeroCopySink(nil)
	for i, m := range c.Msgs {
		obj := build(m)
		var err error
		if p := ev.Catch(func() { err = types.WriteMessage(sink, obj) }); p != "" {
			ctx.Failf("WriteMessage of message %d (%s) panicked: %s", i, m.Kind, p)
		}
		if err != nil {
			ctx.Failf("WriteMessage of message %d (%s) failed: %v", i, m.Kind, err)
		}
		want := refFrame(c.Magic, []byte(m.Kind), refPayload(m))
		frames = append(frames, want)
		all = append(all, want...)
		got := sink.Bytes()
		if uint64(len(got)) != sink.Size() || !bytes.Equal(got, all) {
			at := 0
			for at < len(got) && at < len(all) && got[at] == all[at] {
				at++
			}
			ctx.Failf("WriteMessage output differs from the reference frame after message %d (%s): lengths %d / %d, first difference at stream offset %d (%s of frame)\n got  %x\n want %x",
				i, m.Kind, len(got), len(all), at, region(at-(len(all)-len(want))), clip(got[min(at, len(got)):]), clip(all[min(at, len(all)):]))
		}
	}
	return all, frames
}

func truncated(m pMsg) pMsg {
	if len(m.Addrs) > addrLimit {
		m.Addrs = m.Addrs[:addrLimit]
	}
	if len(m.Hashes) > invLimit {
		m.Hashes = m.Hashes[:invLimit]
	}
	return m
}

// ---------------------------------------------------------------------------------------------

func runC05(ctx *ev.Ctx, c c05Case) {
	config.DefConfig.P2PNode.NetworkMagic = c.Magic
	ctx.Label("mode:" + c.Mode)
	if c.Src != "" {
		ctx.Label("src:" + c.Src)
	}
	for _, m := range c.Msgs {
		if !wellFormed(m) {
			ctx.Label("malformed-case")
			return
		}
	}
	switch c.Mode {
	case "roundtrip":
		runRoundTrip(ctx, c)
	case "sweep":
		runSweep(ctx, c)
	case "hdr":
		if len(c.Msgs) == 0 {
			return
		}
		_, frames := writeFrames(ctx, c05Case{Magic: c.Magic, Msgs: c.Msgs[:1]})
		s := applyOps(append(append([]byte(nil), frames[0]...), c.Tail...), c.Ops)
		ctx.NonTrivial()
		res := judge(ctx, s, c.Magic, "header rewrite of a "+c.Msgs[0].Kind+" frame")
		ctx.Label("hdr:" + res)
		for _, op := range c.Ops {
			ctx.Label("hdr-op:" + op.K)
		}
	case "payload", "stream":
		var s []byte
		if c.Mode == "payload" || c.Framed {
			var base []byte
			var marks []int
			cmd := []byte(c.Cmd)
			if len(c.Msgs) > 0 {
				e := refPayloadEnc(c.Msgs[0])
				base, marks = e.b, e.marks
				if len(cmd) == 0 {
					cmd = []byte(c.Msgs[0].Kind)
				}
				ctx.Label("payload-of:" + c.Msgs[0].Kind)
			} else {
				base = c.Raw
			}
			s = refFrame(c.Magic, cmd, applyPMuts(base, marks, c.PMuts))
			s = append(s, c.Tail...)
		} else {
			s = append([]byte(nil), c.Raw...)
		}
		s = applyOps(s, c.Ops)
		ctx.NonTrivial()
		res := judge(ctx, s, c.Magic, c.Mode)
		ctx.Label(c.Mode + ":" + res)
		if ok, kind, _, _ := framePredicate(s, c.Magic); ok {
			ctx.Label(c.Mode + ":reached-decoder:" + kind)
		}
	case "big":
		runBig(ctx, c)
	case "conc":
		runConc(ctx, c)
	default:
		ctx.Label("unknown-mode")
	}
}

func runRoundTrip(ctx *ev.Ctx, c c05Case) {
	all, frames := writeFrames(ctx, c)
	r := bytes.NewReader(all)
	pos := 0
	for i, m := range c.Msgs {
		ctx.Label("kind:" + m.Kind)
		if hasList(m) {
			ctx.NonTrivial()
		}
		expectAccept := true
		if m.Kind == "block" {
			_, expectAccept = blockTxRoot(m)
			if !expectAccept {
				ctx.Label("block:bad-root-or-duplicate-tx")
			}
		}
		if len(m.Addrs) > addrLimit || len(m.Hashes) > invLimit {
			ctx.Label("over-limit-list:" + m.Kind)
		}
		// the frame alone, against the predicate
		res := judge(ctx, frames[i], c.Magic, fmt.Sprintf("round trip of message %d (%s)", i, m.Kind))
		if res == "known-panic" {
			return
		}
		if (res == "accept") != expectAccept {
			ctx.Failf("round trip of message %d (%s): outcome %s, expected accept=%v", i, m.Kind, res, expectAccept)
		}
		// the frame inside the concatenated stream, against the generated fields
		var msg types.Message
		var n uint32
		var err error
		if p := ev.Catch(func() { msg, n, err = types.ReadMessage(r) }); p != "" {
			reportPanic(ctx, "round trip (concatenated)", p, frames[i])
			return
		}
		if !expectAccept {
			if err == nil {
				ctx.Failf("block message with wrong transactions root / duplicated transaction was accepted")
			}
			return // stream position after a refused frame is not specified
		}
		if err != nil {
			ctx.Failf("message %d (%s) of %d written by WriteMessage is refused by ReadMessage: %v", i, m.Kind, len(c.Msgs), err)
		}
		pos += len(frames[i])
		if got := len(all) - r.Len(); got != pos {
			ctx.Failf("after message %d (%s) the reader is at %d, frames end at %d", i, m.Kind, got, pos)
		}
		if int(n) != len(frames[i])-hdrLen {
			ctx.Failf("message %d (%s): reported payload length %d, written %d", i, m.Kind, n, len(frames[i])-hdrLen)
		}
		if d := flatImplSafe(msg).diff(flatCase(m)); d != "" {
			ctx.Failf("message %d (%s) changed in the frame round trip (decoded vs generated): %s", i, m.Kind, d)
		}
		if msg.CmdType() != m.Kind {
			ctx.Failf("message %d: CmdType %q, want %q", i, msg.CmdType(), m.Kind)
		}
		// re-encoding the decoded message gives the reference payload (of the list cut to the limit)
		sink := common.NewZeroCopySink(nil)
		var serr error
		if p := ev.Catch(func() { serr = msg.Serialization(sink) }); p != "" || serr != nil {
			ctx.Failf("decoded message %d (%s) cannot be serialised again: %v %s", i, m.Kind, serr, p)
		}
		if want := refPayload(truncated(m)); !bytes.Equal(sink.Bytes(), want) {
			ctx.Failf("decoded message %d (%s) re-encodes to different bytes:\n got  %x\n want %x", i, m.Kind, clip(sink.Bytes()), clip(want))
		}
	}
	// exhausted stream: clean error, no message
	var msg types.Message
	var err error
	if p := ev.Catch(func() { msg, _, err = types.ReadMessage(r) }); p != "" {
		reportPanic(ctx, "read at end of stream", p, nil)
		return
	}
	if err == nil || msg != nil {
		ctx.Failf("ReadMessage at the end of the stream returned a message / no error")
	}
	if len(c.Msgs) > 1 {
		ctx.Label("concatenated-frames")
	}
}

func runSweep(ctx *ev.Ctx, c c05Case) {
	if len(c.Msgs) == 0 {
		return
	}
	m := c.Msgs[0]
	_, frames := writeFrames(ctx, c05Case{Magic: c.Magic, Msgs: c.Msgs[:1]})
	frame := frames[0]
	stream := append(append([]byte(nil), frame...), c.Tail...)
	ctx.Label("sweep-kind:" + m.Kind)
	if c.Full {
		ctx.Label("sweep:all-255-values")
	}
	base := judge(ctx, stream, c.Magic, "uncorrupted "+m.Kind+" frame")
	expectAccept := true
	if m.Kind == "block" {
		_, expectAccept = blockTxRoot(m)
	}
	if base != "known-panic" && (base == "accept") != expectAccept {
		ctx.Failf("uncorrupted %s frame: outcome %s, expected accept=%v", m.Kind, base, expectAccept)
	}
	if base == "accept" {
		msg, _, _ := types.ReadMessage(bytes.NewReader(stream))
		if d := flatImplSafe(msg).diff(flatCase(m)); d != "" {
			ctx.Failf("uncorrupted %s frame decodes to other field values than were written: %s", m.Kind, d)
		}
	}
	ctx.NonTrivial()
	rec := ev.Get("C05")
	total, accepted, skipped := 0, 0, 0
	for off := 0; off < len(frame); off++ {
		orig := stream[off]
		vs, sk := sweepVariants(stream, off, c.Full, c.Large)
		skipped += sk
		for _, v := range vs {
			stream[off] = v
			res := judge(ctx, stream, c.Magic, fmt.Sprintf("%s frame with byte %d (%s) changed %02x->%02x", m.Kind, off, region(off), orig, v))
			total++
			if res == "accept" {
				// the predicate holds for the corrupted frame (e.g. ping<->pong, or a length change
				// repaired by chance); in the magic / checksum / payload region that needs a
				// 32-bit second preimage, which a one-byte change cannot produce for the magic
				accepted++
				if region(off) == "magic" {
					ctx.Failf("corrupted magic accepted at offset %d", off)
				}
			}
		}
		stream[off] = orig
	}
	rec.AddLabel("sweep:corrupted-frames", total)
	rec.AddLabel("sweep:corrupted-frames-still-valid", accepted)
	rec.AddLabel("sweep:skipped-length-claims-64KiB..limit", skipped)
	rec.CountOnly(total)
}

func runBig(ctx *ev.Ctx, c c05Case) {
	if c.BigLen < 8 || c.BigLen > maxPayload+64 {
		return
	}
	ctx.NonTrivial()
	// address list with count 0 followed by filler; the frame is laid out in place (one buffer)
	s := make([]byte, hdrLen+c.BigLen)
	for i := hdrLen + 8; i < len(s); i++ {
		s[i] = 0xA5
	}
	ck := sha256d(s[hdrLen:])
	copy(s, refFrame(c.Magic, []byte("addr"), nil)[:hdrLen])
	binary.LittleEndian.PutUint32(s[16:20], uint32(c.BigLen))
	copy(s[20:24], ck[:4])
	res := judge(ctx, s, c.Magic, fmt.Sprintf("frame with a %d-byte payload (limit %d)", c.BigLen, maxPayload))
	ctx.Label("big:" + res)
	if want := c.BigLen <= maxPayload; (res == "accept") != want && res != "known-panic" {
		ctx.Failf("frame with a %d-byte payload (limit %d): outcome %s, expected accept=%v", c.BigLen, maxPayload, res, want)
	}
}

// gridCases: the deterministic part — for every kind one exhaustive single-byte sweep (all 255
// other values at every offset of a small canonical frame) and the payload-size boundary.
func gridCases() []c05Case {
	// every shard starts with the limit+1 payload: a reader that lost its size limit would otherwise
	// spend the whole budget clearing multi-GiB buffers in the sweeps instead of being reported
	out := []c05Case{{Mode: "big", Magic: 0x8c77ab60, BigLen: maxPayload + 1}, concGridLight(), concGrid()}
	n := 0
	add := func(c c05Case) {
		if n%ev.Shards() == ev.Shard() {
			out = append(out, c)
		}
		n++
	}
	for _, l := range []int{maxPayload - 1, maxPayload} {
		add(c05Case{Mode: "big", Magic: 0x8c77ab60, BigLen: l})
	}
	for _, k := range kinds {
		add(c05Case{Mode: "sweep", Magic: 0x8c77ab60, Msgs: []pMsg{canon(k)}, Full: true, Large: true, Tail: ev.B{0x60, 0xab, 0x77, 0x8c}})
	}
	return out
}

const c05Rule = "cases: (roundtrip) 1..3 generated messages of any of the 16 kinds written by WriteMessage into one stream, compared with an independently " +
	"encoded reference frame, read back and compared field by field; (sweep) every offset of a small frame x {8 bit flips, 00, FF, +1, -1} or all 255 values (length-field values claiming 64KiB..limit are sampled in the per-kind grid only); " +
	"(hdr) rewrites of magic / length / checksum / command, truncation, checksum repair; (payload) byte-level mutations of a valid payload re-framed with a correct " +
	"checksum; (stream) arbitrary payloads under any command and arbitrary byte streams; (big) payload sizes limit-1, limit, limit+1; every outcome judged by the " +
	"independent frame predicate; (conc) 2..6 goroutines each framing, reading back and reading corrupted copies of their own message lists (hundreds of frames each) " +
	"at the same time, verdicts compared with the same work done alone. non-trivial: the stream is corrupted / mutated / arbitrary, or a round-tripped message carries a non-empty list or a nested " +
	"block / transaction; distinct by JSON encoding of the case"

func TestC05(t *testing.T) {
	if os.Getenv("VERIF_REPLAY") == "" {
		ev.DriveList(t, "C05", gridCases(), runC05)
		if t.Failed() {
			return
		}
	}
	ev.Drive(t, "C05", c05Rule, genC05, runC05)
}

// ---------------------------------------------------------------------------------------------
// native coverage-guided fuzzing as a second generator of TestC05's "stream" mode

const fuzzMagic = 0x8c77ab60

// decodeFuzzC05 maps fuzzer bytes to a stream-mode case. Byte 0 selects:
//
//	0      the rest is the stream handed to ReadMessage exactly as it is (header + payload)
//	1      the same, with the first four bytes overwritten by the right magic
//	2..17  the rest is a payload of kind kinds[sel-2]; it is framed with a correct length and checksum,
//	       so the mutations land in that kind's payload decoder
//
// other values wrap around. A raw stream whose header claims 1 MiB..limit without supplying the
// payload is skipped: ReadMessage allocates and clears the claim first (milliseconds per input,
// which starves the campaign); that class is covered by the hdr mode and the grid of TestC05.
func decodeFuzzC05(d []byte) (c05Case, bool) {
	if len(d) < 1 {
		return c05Case{}, false
	}
	sel := int(d[0]) % (2 + len(kinds))
	rest := append([]byte(nil), d[1:]...)
	c := c05Case{Mode: "stream", Magic: fuzzMagic, Raw: rest, Src: "fuzz"}
	if sel >= 2 {
		c.Framed = true
		c.Cmd = ev.B(kinds[sel-2])
		return c, true
	}
	if sel == 1 {
		c.Ops = []hdrOp{{K: "magic", V: fuzzMagic}}
	}
	if len(rest) >= hdrLen {
		if claim := uint64(binary.LittleEndian.Uint32(rest[16:20])); claim > 1<<20 && claim <= maxPayload && uint64(len(rest)-hdrLen) < claim {
			return c05Case{}, false
		}
	}
	return c, true
}

func FuzzC05(f *testing.F) {
	raw := func(stream []byte) { f.Add(append([]byte{0}, stream...)) }
	pay := func(kind string, payload []byte) {
		for i, k := range kinds {
			if k == kind {
				f.Add(append([]byte{byte(2 + i)}, payload...))
			}
		}
	}
	// one genuine small frame per kind, as a raw stream and as a payload behind the repaired header
	for _, k := range kinds {
		p := refPayload(canon(k))
		raw(refFrame(fuzzMagic, []byte(k), p))
		pay(k, p)
	}
	// hostile headers
	hdr := func(cmd string, ln uint32, payload []byte) []byte {
		s := refFrame(fuzzMagic, []byte(cmd), payload)
		binary.LittleEndian.PutUint32(s[16:20], ln)
		return s
	}
	raw(hdr("ping", 0xFFFFFFFF, refPayload(canon("ping"))))
	raw(hdr("addr", maxPayload+1, nil))
	raw(hdr("getaddr", 1, nil))
	raw(hdr("verack", 0, []byte{1}))
	raw(refFrame(fuzzMagic+1, []byte("ping"), refPayload(canon("ping"))))
	raw(refFrame(fuzzMagic, []byte("pingpong"), refPayload(canon("ping"))))
	raw(refFrame(fuzzMagic, []byte("getaddr"), nil)[:hdrLen-1])
	f.Add(append([]byte{1}, refFrame(0, []byte("disconnect"), nil)...))
	// hostile counts: fixed-width counts and 0xFD / 0xFE / 0xFF var-uint prefixes at every count /
	// length field of the canonical payloads
	u64 := func(v uint64) []byte { return binary.LittleEndian.AppendUint64(nil, v) }
	for _, v := range []uint64{1 << 63, 1 << 62, 1<<62 + 1, 3 << 62, 1<<64 - 1, 65, 1 << 32} {
		pay("addr", u64(v))
		pay("addr", append(u64(v), refPayload(canon("addr"))[8:]...))
	}
	for _, v := range []uint32{0xFFFFFFFF, 0x80000000, 65, 3} {
		pay("inv", append([]byte{2}, binary.LittleEndian.AppendUint32(nil, v)...))
		pay("headers", binary.LittleEndian.AppendUint32(nil, v))
		pay("headers", append(binary.LittleEndian.AppendUint32(nil, v), refPayload(canon("headers"))[4:]...))
	}
	for _, k := range []string{"tx", "block", "headers", "consensus", "version"} {
		e := refPayloadEnc(canon(k))
		for i := range e.marks {
			for _, v := range []uint64{0xFD, 0xFFFF, 0x10000, 1 << 32, 1 << 63, 1<<64 - 1} {
				pay(k, applyPMuts(e.b, e.marks, []pMut{{K: "varp", Mark: true, Off: i, V: v}}))
			}
		}
	}
	pay("verack", []byte{2})
	pay("version", refPayload(canon("version"))[:76])
	ev.Fuzz(f, "C05", "TestC05", decodeFuzzC05, runC05)
}
