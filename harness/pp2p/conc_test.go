package pp2p

// Concurrent mode of C05: the node frames and reads messages on one goroutine per peer link, so
// WriteMessage / ReadMessage must give the same results when several goroutines are inside them
// at the same time as they give alone. A case is K lists of messages; the per-list work (write,
// read back, read a corrupted copy; repeated Reps times) is first run sequentially - that run is
// checked against the independent oracle (reference frame, expected acceptance, frame predicate) -
// and then on K goroutines released together; every goroutine's verdict list must equal its
// sequential one. No timing assumption: on code without shared state the two are equal however the
// goroutines are scheduled; an unlucky schedule can only hide a defect, never invent one.

import (
	"bytes"
	"crypto/sha256"
	"fmt"
	"strings"
	"sync"

	"github.com/polynetwork/poly/common"
	"github.com/polynetwork/poly/p2pserver/message/types"

	"verif/harness/ev"
)

func firstLine(s string) string {
	if i := strings.IndexByte(s, '\n'); i >= 0 {
		return s[:i]
	}
	return s
}

// frameDesc: length, the 24 header bytes (they hold the checksum) and a digest of the payload.
func frameDesc(f []byte) string {
	if len(f) < hdrLen {
		return fmt.Sprintf("w:short:%x", f)
	}
	d := sha256.Sum256(f[hdrLen:])
	return fmt.Sprintf("w:%d:%x:%x", len(f), f[:hdrLen], d[:6])
}

func readDesc(tag string, frame []byte) string {
	var msg types.Message
	var n uint32
	var err error
	if p := ev.Catch(func() { msg, n, err = types.ReadMessage(bytes.NewReader(frame)) }); p != "" {
		return tag + ":PANIC:" + firstLine(p)
	}
	if err != nil {
		return tag + ":err:" + err.Error()
	}
	f := flatImplSafe(msg)
	d := sha256.Sum256([]byte(fmt.Sprintf("%s|%v|%x", f.K, f.N, f.B)))
	return fmt.Sprintf("%s:ok:%s:%d:%x", tag, f.K, n, d[:8])
}

// corruptAt: which byte / bit of the frame of message i in repetition r is flipped.
func corruptAt(r, i, n int) (pos int, mask byte) {
	return (r*31 + i*7 + 5) % n, 1 << uint((r+i)%8)
}

// concWork is the work of one goroutine; three verdicts per message and repetition.
func concWork(list []pMsg, reps int) []string {
	out := make([]string, 0, 3*reps*len(list))
	for r := 0; r < reps; r++ {
		for i, m := range list {
			var frame []byte
			var werr error
			p := ev.Catch(func() {
				sink := common.NewZeroCopySink(nil)
				werr = types.WriteMessage(sink, build(m))
				frame = append([]byte(nil), sink.Bytes()...)
			})
			if p != "" || werr != nil || len(frame) < hdrLen {
				out = append(out, fmt.Sprintf("w:FAILED:%v:%s", werr, firstLine(p)), "r:skipped", "c:skipped")
				continue
			}
			out = append(out, frameDesc(frame), readDesc("r", frame))
			pos, mask := corruptAt(r, i, len(frame))
			frame[pos] ^= mask
			out = append(out, readDesc("c", frame))
		}
	}
	return out
}

func runConc(ctx *ev.Ctx, c c05Case) {
	if len(c.Lists) < 2 || len(c.Lists) > 8 || c.Reps < 1 || c.Reps > 400 {
		ctx.Label("conc:malformed-case")
		return
	}
	for _, l := range c.Lists {
		if len(l) == 0 {
			ctx.Label("conc:malformed-case")
			return
		}
		for _, m := range l {
			if !wellFormed(m) {
				ctx.Label("conc:malformed-case")
				return
			}
		}
	}
	ctx.NonTrivial()
	ctx.Label(fmt.Sprintf("conc:goroutines=%d", len(c.Lists)))
	// sequential reference, checked against the independent oracle
	ref := make([][]string, len(c.Lists))
	frames := 0
	for g, l := range c.Lists {
		ref[g] = concWork(l, c.Reps)
		frames += len(l) * c.Reps
		for r := 0; r < c.Reps; r++ {
			for i, m := range l {
				v := ref[g][3*(r*len(l)+i):]
				want := refFrame(c.Magic, []byte(m.Kind), refPayload(m))
				if v[0] != frameDesc(want) {
					ctx.Failf("sequential run, list %d rep %d message %d (%s): WriteMessage gave %s, reference frame is %s", g, r, i, m.Kind, v[0], frameDesc(want))
				}
				accept := true
				if m.Kind == "block" {
					_, accept = blockTxRoot(m)
				}
				if strings.HasPrefix(v[1], "r:ok:"+m.Kind+":") != accept {
					ctx.Failf("sequential run, list %d rep %d message %d (%s): read of the frame just written gave %s, expected accept=%v", g, r, i, m.Kind, v[1], accept)
				}
				pos, mask := corruptAt(r, i, len(want))
				want[pos] ^= mask
				if ok, _, _, why := framePredicate(want, c.Magic); !ok && !strings.HasPrefix(v[2], "c:err:") {
					ctx.Failf("sequential run, list %d rep %d message %d (%s): frame with byte %d (%s) xor %02x must be refused (%s) but gave %s", g, r, i, m.Kind, pos, region(pos), mask, why, v[2])
				}
				if r == 0 { // full judgement (agreement with the payload decoder, consumption, ...) once per message
					want[pos] ^= mask
					judge(ctx, want, c.Magic, fmt.Sprintf("conc list %d message %d (%s)", g, i, m.Kind))
				}
			}
		}
	}
	// the same work on one goroutine per list, released together
	got := make([][]string, len(c.Lists))
	var wg sync.WaitGroup
	start := make(chan struct{})
	for g := range c.Lists {
		wg.Add(1)
		go func(g int) {
			defer wg.Done()
			<-start
			got[g] = concWork(c.Lists[g], c.Reps)
		}(g)
	}
	close(start)
	wg.Wait()
	bad, total := 0, 0
	first := ""
	for g := range c.Lists {
		for k := range ref[g] {
			total++
			gv := "<missing>"
			if k < len(got[g]) {
				gv = got[g][k]
			}
			if gv != ref[g][k] {
				bad++
				if first == "" {
					j := k / 3
					m := c.Lists[g][j%len(c.Lists[g])]
					first = fmt.Sprintf("goroutine %d, repetition %d, message %d (%s), step %s: concurrent %q, alone %q", g, j/len(c.Lists[g]), j%len(c.Lists[g]), m.Kind,
						[]string{"write", "read back", "read corrupted"}[k%3], gv, ref[g][k])
				}
			}
		}
	}
	rec := ev.Get("C05")
	rec.AddLabel("conc:frames", frames)
	if bad > 0 {
		ctx.Failf("%d goroutines framing / reading their own messages at the same time: %d of %d verdicts differ from the same work done alone; first: %s", len(c.Lists), bad, total, first)
	}
}

// concGridLight: six goroutines with the twelve canonical messages that carry no public keys; their
// frames cost little besides the checksum, so the goroutines overlap inside it most of the time.
func concGridLight() c05Case {
	c := c05Case{Mode: "conc", Magic: 0x8c77ab60, Reps: 200}
	var light []pMsg
	for _, k := range kinds {
		if keyFree(k) {
			light = append(light, canon(k))
		}
	}
	for g := 0; g < 6; g++ {
		var l []pMsg
		for i := range light {
			l = append(l, light[(i+2*g)%len(light)])
		}
		c.Lists = append(c.Lists, l)
	}
	return c
}

// concGrid: four goroutines, each with all 16 canonical messages in a different rotation.
func concGrid() c05Case {
	c := c05Case{Mode: "conc", Magic: 0x8c77ab60, Reps: 25}
	for g := 0; g < 4; g++ {
		var l []pMsg
		for i := range kinds {
			l = append(l, canon(kinds[(i+4*g)%len(kinds)]))
		}
		c.Lists = append(c.Lists, l)
	}
	return c
}
