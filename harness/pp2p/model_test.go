package pp2p

// Case model of C05: a JSON-serialisable description of every peer-to-peer message kind, rapid
// generators for it, an independent reference encoder of the payloads and of the frame (written
// from the wire-format description, not by calling the code under test), the construction of the
// implementation's message objects, and a field-by-field flattening used to compare a decoded
// message with the generated one.

import (
	"bytes"
	"crypto/ecdsa"
	"crypto/elliptic"
	"crypto/sha256"
	"encoding/binary"
	"fmt"
	"math/big"

	"crypto/ed25519"
	"github.com/ontio/ontology-crypto/ec"
	"github.com/ontio/ontology-crypto/keypair"
	"github.com/ontio/ontology-crypto/sm2"
	"pgregory.net/rapid"

	"github.com/polynetwork/poly/common"
	"github.com/polynetwork/poly/core/payload"
	ct "github.com/polynetwork/poly/core/types"
	p2pc "github.com/polynetwork/poly/p2pserver/common"
	"github.com/polynetwork/poly/p2pserver/message/types"

	"verif/harness/ev"
)

// ---------------------------------------------------------------------------------------------
// wire constants, written from the statement / protocol description (NOT imported from the code)

const (
	hdrLen     = 24                    // magic(4) cmd(12) length(4) checksum(4)
	maxPayload = 30*1024*1024 - hdrLen // largest acceptable payload
	addrLimit  = 64                    // address list is cut to this many entries on receipt
	invLimit   = 64                    // inventory hash list is cut to this many entries on receipt
)

var kinds = []string{"ping", "pong", "version", "verack", "getaddr", "addr", "getheaders", "headers", "inv",
	"getdata", "block", "tx", "consensus", "getblocks", "notfound", "disconnect"}

func kindKnown(k string) bool {
	for _, x := range kinds {
		if x == k {
			return true
		}
	}
	return false
}

// newByKind: the harness's own kind -> empty message table (independent of MakeEmptyMessage).
func newByKind(k string) types.Message {
	switch k {
	case "ping":
		return &types.Ping{}
	case "pong":
		return &types.Pong{}
	case "version":
		return &types.Version{}
	case "verack":
		return &types.VerACK{}
	case "getaddr":
		return &types.AddrReq{}
	case "addr":
		return &types.Addr{}
	case "getheaders":
		return &types.HeadersReq{}
	case "headers":
		return &types.BlkHeader{}
	case "inv":
		return &types.Inv{}
	case "getdata":
		return &types.DataReq{}
	case "block":
		return &types.Block{}
	case "tx":
		return &types.Trn{}
	case "consensus":
		return &types.Consensus{}
	case "getblocks":
		return &types.BlocksReq{}
	case "notfound":
		return &types.NotFound{}
	case "disconnect":
		return &types.Disconnected{}
	}
	return nil
}

// kindOf maps a decoded implementation object back to its command name by Go type.
func kindOf(m types.Message) string {
	switch m.(type) {
	case *types.Ping:
		return "ping"
	case *types.Pong:
		return "pong"
	case *types.Version:
		return "version"
	case *types.VerACK:
		return "verack"
	case *types.AddrReq:
		return "getaddr"
	case *types.Addr:
		return "addr"
	case *types.HeadersReq:
		return "getheaders"
	case *types.BlkHeader:
		return "headers"
	case *types.Inv:
		return "inv"
	case *types.DataReq:
		return "getdata"
	case *types.Block:
		return "block"
	case *types.Trn:
		return "tx"
	case *types.Consensus:
		return "consensus"
	case *types.BlocksReq:
		return "getblocks"
	case *types.NotFound:
		return "notfound"
	case *types.Disconnected:
		return "disconnect"
	}
	return fmt.Sprintf("%T", m)
}

// ---------------------------------------------------------------------------------------------
// deterministic public-key pool (same keys in every process)

var (
	keyPool  []keypair.PublicKey
	keyBytes [][]byte
)

func deriveEC(curve elliptic.Curve, alg ec.ECAlgorithm, tag string) keypair.PublicKey {
	h := sha256.Sum256([]byte(tag))
	d := new(big.Int).SetBytes(h[:])
	d.Mod(d, new(big.Int).Sub(curve.Params().N, big.NewInt(1)))
	d.Add(d, big.NewInt(1))
	x, y := curve.ScalarBaseMult(d.Bytes())
	return &ec.PublicKey{Algorithm: alg, PublicKey: &ecdsa.PublicKey{Curve: curve, X: x, Y: y}}
}

func init() {
	for i := 0; i < 5; i++ {
		keyPool = append(keyPool, deriveEC(elliptic.P256(), ec.ECDSA, fmt.Sprintf("verif-p2p-key-%d", i)))
	}
	keyPool = append(keyPool, deriveEC(elliptic.P384(), ec.ECDSA, "verif-p2p-key-p384"))
	keyPool = append(keyPool, deriveEC(elliptic.P224(), ec.ECDSA, "verif-p2p-key-p224"))
	keyPool = append(keyPool, deriveEC(sm2.SM2P256V1(), ec.SM2, "verif-p2p-key-sm2"))
	seed := sha256.Sum256([]byte("verif-p2p-key-ed25519"))
	keyPool = append(keyPool, ed25519.NewKeyFromSeed(seed[:]).Public().(ed25519.PublicKey))
	for _, k := range keyPool {
		keyBytes = append(keyBytes, keypair.SerializePublicKey(k))
	}
}

func keyIdx(i int) int {
	if i < 0 {
		i = -i
	}
	return i % len(keyPool)
}

// ---------------------------------------------------------------------------------------------
// case model

type pAddr struct {
	Time  int64  `json:"t"`
	Svc   uint64 `json:"s"`
	IP    ev.B   `json:"ip"` // 16 bytes
	Port  uint16 `json:"p"`
	CPort uint16 `json:"cp"`
	ID    uint64 `json:"id"`
}

type pSig struct {
	Data []ev.B `json:"data,omitempty"`
	Keys []int  `json:"keys"` // pool indices, >= 1 entry
	M    uint16 `json:"m"`
}

type pTx struct {
	Nonce    uint32 `json:"nonce"`
	Chain    uint64 `json:"chain"`
	GasLimit uint64 `json:"gl"`
	GasPrice uint64 `json:"gp"`
	Code     ev.B   `json:"code,omitempty"`
	Payer    ev.B   `json:"payer"` // 20 bytes
	Sigs     []pSig `json:"sigs,omitempty"`
}

type pHdr struct {
	Chain    uint64 `json:"chain"`
	Prev     ev.B   `json:"prev"`
	TxRoot   ev.B   `json:"txroot"`
	Cross    ev.B   `json:"cross"`
	BlkRoot  ev.B   `json:"blkroot"`
	Time     uint32 `json:"time"`
	Height   uint32 `json:"height"`
	CData    uint64 `json:"cdata"`
	CPayload ev.B   `json:"cpayload,omitempty"`
	NextBK   ev.B   `json:"nextbk"` // 20 bytes
	BKs      []int  `json:"bks,omitempty"`
	Sigs     []ev.B `json:"sigs,omitempty"`
}

type pVer struct {
	Version  uint32 `json:"version"`
	Services uint64 `json:"services"`
	Time     int64  `json:"time"`
	Sync     uint16 `json:"sync"`
	HTTP     uint16 `json:"http"`
	Cons     uint16 `json:"cons"`
	Cap      ev.B   `json:"cap"` // 32 bytes
	Nonce    uint64 `json:"nonce"`
	Start    uint64 `json:"start"`
	Relay    uint8  `json:"relay"`
	IsCons   bool   `json:"iscons"`
	Soft     ev.B   `json:"soft,omitempty"`
}

type pCons struct {
	Version uint32 `json:"version"`
	Prev    ev.B   `json:"prev"`
	Height  uint32 `json:"height"`
	BkIdx   uint16 `json:"bkidx"`
	Time    uint32 `json:"time"`
	Data    ev.B   `json:"data,omitempty"`
	Owner   int    `json:"owner"`
	Sig     ev.B   `json:"sig,omitempty"`
}

type pMsg struct {
	Kind    string  `json:"kind"`
	U64     uint64  `json:"u64,omitempty"`  // ping/pong height
	U8      uint8   `json:"u8,omitempty"`   // getheaders/getblocks count, inv/getdata type
	Flag    bool    `json:"flag,omitempty"` // verack
	H1      ev.B    `json:"h1,omitempty"`   // first hash (start / hash / block-message merkle root)
	H2      ev.B    `json:"h2,omitempty"`   // second hash (end/stop)
	Addrs   []pAddr `json:"addrs,omitempty"`
	Hashes  []ev.B  `json:"hashes,omitempty"`
	Hdrs    []pHdr  `json:"hdrs,omitempty"` // headers list; block: Hdrs[0]
	Txs     []pTx   `json:"txs,omitempty"`  // tx: Txs[0]; block: transactions
	BadRoot bool    `json:"badroot,omitempty"`
	Ver     *pVer   `json:"ver,omitempty"`
	Cons    *pCons  `json:"cons,omitempty"`
}

// ---------------------------------------------------------------------------------------------
// generators

func gBytes(lo, hi int) *rapid.Generator[ev.B] {
	return rapid.Custom(func(t *rapid.T) ev.B {
		return ev.B(rapid.SliceOfN(rapid.Byte(), lo, hi).Draw(t, "bytes"))
	})
}

func gFix(n int) *rapid.Generator[ev.B] { return gBytes(n, n) }

func gU64() *rapid.Generator[uint64] {
	return rapid.OneOf(rapid.Uint64(), rapid.SampledFrom([]uint64{0, 1, 0xFC, 0xFD, 0xFFFF, 0x10000, 0xFFFFFFFF, 1 << 32, 1 << 63, 1<<64 - 1}))
}

func gAddr(t *rapid.T) pAddr {
	return pAddr{Time: rapid.Int64().Draw(t, "time"), Svc: gU64().Draw(t, "svc"), IP: gFix(16).Draw(t, "ip"),
		Port: rapid.Uint16().Draw(t, "port"), CPort: rapid.Uint16().Draw(t, "cport"), ID: gU64().Draw(t, "id")}
}

func gVarLenBytes(small bool) *rapid.Generator[ev.B] {
	if small {
		return gBytes(0, 12)
	}
	// mostly short, sometimes long enough for a 3-byte length prefix
	return rapid.OneOf(gBytes(0, 40), gBytes(0, 40), gBytes(0, 90), gBytes(250, 300))
}

func gSig(small bool) *rapid.Generator[pSig] {
	return rapid.Custom(func(t *rapid.T) pSig {
		nk, nd := 3, 3
		if small {
			nk, nd = 1, 1
		}
		return pSig{
			Data: rapid.SliceOfN(gBytes(0, 70), 0, nd).Draw(t, "sigdata"),
			Keys: rapid.SliceOfN(rapid.IntRange(0, len(keyPool)-1), 1, nk).Draw(t, "keys"),
			M:    rapid.Uint16().Draw(t, "m"),
		}
	})
}

func gTx(small bool) *rapid.Generator[pTx] {
	return rapid.Custom(func(t *rapid.T) pTx {
		ns := 3
		if small {
			ns = 1
		}
		return pTx{Nonce: rapid.Uint32().Draw(t, "nonce"), Chain: gU64().Draw(t, "chain"), GasLimit: gU64().Draw(t, "gl"),
			GasPrice: gU64().Draw(t, "gp"), Code: gVarLenBytes(small).Draw(t, "code"), Payer: gFix(20).Draw(t, "payer"),
			Sigs: rapid.SliceOfN(gSig(small), 0, ns).Draw(t, "sigs")}
	})
}

func gHdr(small bool) *rapid.Generator[pHdr] {
	return rapid.Custom(func(t *rapid.T) pHdr {
		n := 4
		if small {
			n = 1
		}
		return pHdr{Chain: gU64().Draw(t, "chain"), Prev: gFix(32).Draw(t, "prev"), TxRoot: gFix(32).Draw(t, "txroot"),
			Cross: gFix(32).Draw(t, "cross"), BlkRoot: gFix(32).Draw(t, "blkroot"), Time: rapid.Uint32().Draw(t, "time"),
			Height: rapid.Uint32().Draw(t, "height"), CData: gU64().Draw(t, "cdata"), CPayload: gVarLenBytes(small).Draw(t, "cpayload"),
			NextBK: gFix(20).Draw(t, "nextbk"), BKs: rapid.SliceOfN(rapid.IntRange(0, len(keyPool)-1), 0, n).Draw(t, "bks"),
			Sigs: rapid.SliceOfN(gBytes(0, 70), 0, n).Draw(t, "hsigs")}
	})
}

// gMsg generates one message of the given kind ("" = any). small keeps frames short (sweeps).
func gMsg(kind string, small bool) *rapid.Generator[pMsg] {
	return rapid.Custom(func(t *rapid.T) pMsg {
		k := kind
		if k == "" {
			k = rapid.SampledFrom(kinds).Draw(t, "kind")
		}
		m := pMsg{Kind: k}
		switch k {
		case "ping", "pong":
			m.U64 = gU64().Draw(t, "height")
		case "version":
			soft := gVarLenBytes(small)
			m.Ver = &pVer{Version: rapid.Uint32().Draw(t, "version"), Services: gU64().Draw(t, "services"), Time: rapid.Int64().Draw(t, "time"),
				Sync: rapid.Uint16().Draw(t, "sync"), HTTP: rapid.Uint16().Draw(t, "http"), Cons: rapid.Uint16().Draw(t, "cons"),
				Cap: gFix(32).Draw(t, "cap"), Nonce: gU64().Draw(t, "nonce"), Start: gU64().Draw(t, "start"),
				Relay: rapid.Uint8().Draw(t, "relay"), IsCons: rapid.Bool().Draw(t, "iscons"), Soft: soft.Draw(t, "soft")}
		case "verack":
			m.Flag = rapid.Bool().Draw(t, "flag")
		case "getaddr", "disconnect":
		case "addr":
			hi := addrLimit
			if small {
				hi = 2
			}
			g := rapid.IntRange(0, hi)
			if !small {
				// 0..limit, biased to short lists; a separate over-limit class (documented truncation)
				g = rapid.OneOf(rapid.IntRange(0, 4), rapid.IntRange(0, addrLimit), rapid.IntRange(addrLimit-1, addrLimit+6))
			}
			n := g.Draw(t, "naddr")
			m.Addrs = rapid.SliceOfN(rapid.Custom(gAddr), n, n).Draw(t, "addrs")
		case "getheaders", "getblocks":
			m.U8 = rapid.Uint8().Draw(t, "count")
			m.H1 = gFix(32).Draw(t, "start")
			m.H2 = gFix(32).Draw(t, "end")
		case "headers":
			hi := 3
			if small {
				hi = 1
			}
			m.Hdrs = rapid.SliceOfN(gHdr(small), 0, hi).Draw(t, "hdrs")
		case "inv":
			m.U8 = rapid.Uint8().Draw(t, "invtype")
			g := rapid.IntRange(0, 2)
			if !small {
				g = rapid.OneOf(rapid.IntRange(0, 4), rapid.IntRange(0, invLimit), rapid.IntRange(invLimit-1, invLimit+6))
			}
			n := g.Draw(t, "ninv")
			m.Hashes = rapid.SliceOfN(gFix(32), n, n).Draw(t, "hashes")
		case "getdata":
			m.U8 = rapid.Uint8().Draw(t, "datatype")
			m.H1 = gFix(32).Draw(t, "hash")
		case "notfound":
			m.H1 = gFix(32).Draw(t, "hash")
		case "tx":
			m.Txs = []pTx{gTx(small).Draw(t, "tx")}
		case "block":
			m.Hdrs = []pHdr{gHdr(small).Draw(t, "hdr")}
			hi := 3
			if small {
				hi = 1
			}
			m.Txs = rapid.SliceOfN(gTx(small), 0, hi).Draw(t, "txs")
			m.H1 = gFix(32).Draw(t, "merkleroot")
			m.BadRoot = rapid.IntRange(0, 7).Draw(t, "badroot") == 0
		case "consensus":
			m.Cons = &pCons{Version: rapid.Uint32().Draw(t, "version"), Prev: gFix(32).Draw(t, "prev"), Height: rapid.Uint32().Draw(t, "height"),
				BkIdx: rapid.Uint16().Draw(t, "bkidx"), Time: rapid.Uint32().Draw(t, "time"), Data: gVarLenBytes(small).Draw(t, "data"),
				Owner: rapid.IntRange(0, len(keyPool)-1).Draw(t, "owner"), Sig: gBytes(0, 70).Draw(t, "sig")}
		}
		return m
	})
}

// canon is a fixed small message of each kind (used by the exhaustive single-byte sweeps).
func canon(kind string) pMsg {
	h := func(seed byte, n int) ev.B {
		b := make([]byte, n)
		for i := range b {
			b[i] = seed + byte(i)*3
		}
		return b
	}
	tx := pTx{Nonce: 7, Chain: 2, GasLimit: 20000, GasPrice: 5, Code: h(9, 5), Payer: h(1, 20), Sigs: []pSig{{Data: []ev.B{h(4, 6)}, Keys: []int{0}, M: 1}}}
	hd := pHdr{Chain: 2, Prev: h(1, 32), TxRoot: h(2, 32), Cross: h(3, 32), BlkRoot: h(4, 32), Time: 1600000000, Height: 12, CData: 99,
		CPayload: h(5, 3), NextBK: h(6, 20), BKs: []int{1}, Sigs: []ev.B{h(7, 4)}}
	m := pMsg{Kind: kind}
	switch kind {
	case "ping", "pong":
		m.U64 = 0x0102030405060708
	case "version":
		m.Ver = &pVer{Version: 1, Services: 3, Time: 1600000000, Sync: 20338, HTTP: 20335, Cons: 20339, Cap: h(8, 32), Nonce: 77, Start: 5, Relay: 1, IsCons: true, Soft: ev.B("v1.0")}
	case "verack":
		m.Flag = true
	case "addr":
		m.Addrs = []pAddr{{Time: 1600000000, Svc: 1, IP: h(10, 16), Port: 20338, CPort: 20339, ID: 42}}
	case "getheaders", "getblocks":
		m.U8, m.H1, m.H2 = 3, h(1, 32), h(2, 32)
	case "headers":
		m.Hdrs = []pHdr{hd}
	case "inv":
		m.U8, m.Hashes = 2, []ev.B{h(1, 32), h(2, 32)}
	case "getdata":
		m.U8, m.H1 = 1, h(1, 32)
	case "notfound":
		m.H1 = h(1, 32)
	case "tx":
		m.Txs = []pTx{tx}
	case "block":
		m.Hdrs, m.Txs, m.H1 = []pHdr{hd}, []pTx{tx}, h(11, 32)
	case "consensus":
		m.Cons = &pCons{Version: 1, Prev: h(1, 32), Height: 12, BkIdx: 2, Time: 1600000000, Data: h(2, 5), Owner: 2, Sig: h(3, 6)}
	}
	return m
}

// ---------------------------------------------------------------------------------------------
// reference encoder

// enc also records the offsets of all count / length fields (marks), the targets of the
// structure-aware payload mutations.
type enc struct {
	b     []byte
	marks []int
}

func (e *enc) mark() { e.marks = append(e.marks, len(e.b)) }

func (e *enc) u8(v uint8)   { e.b = append(e.b, v) }
func (e *enc) u16(v uint16) { e.b = binary.LittleEndian.AppendUint16(e.b, v) }
func (e *enc) u32(v uint32) { e.b = binary.LittleEndian.AppendUint32(e.b, v) }
func (e *enc) u64(v uint64) { e.b = binary.LittleEndian.AppendUint64(e.b, v) }
func (e *enc) raw(v []byte) { e.b = append(e.b, v...) }
func (e *enc) boolean(v bool) {
	if v {
		e.u8(1)
	} else {
		e.u8(0)
	}
}
func (e *enc) varuint(v uint64) {
	e.mark()
	switch {
	case v < 0xFD:
		e.u8(uint8(v))
	case v <= 0xFFFF:
		e.u8(0xFD)
		e.u16(uint16(v))
	case v <= 0xFFFFFFFF:
		e.u8(0xFE)
		e.u32(uint32(v))
	default:
		e.u8(0xFF)
		e.u64(v)
	}
}
func (e *enc) varbytes(v []byte) { e.varuint(uint64(len(v))); e.raw(v) }
func (e *enc) sub(s *enc) { // append a nested encoding, keeping its marks
	for _, m := range s.marks {
		e.marks = append(e.marks, len(e.b)+m)
	}
	e.b = append(e.b, s.b...)
}

func fix(b []byte, n int) []byte { // fixed-width field (defensive against hand-edited replay files)
	out := make([]byte, n)
	copy(out, b)
	return out
}

func sha256d(b []byte) [32]byte {
	a := sha256.Sum256(b)
	return sha256.Sum256(a[:])
}

func refTxUnsigned(x pTx) []byte { return refTxUnsignedEnc(x).b }

func refTxUnsignedEnc(x pTx) *enc {
	e := &enc{}
	e.u8(0)    // version
	e.u8(0xd1) // invoke
	e.u32(x.Nonce)
	e.u64(x.Chain)
	e.u64(x.GasLimit)
	e.u64(x.GasPrice)
	e.varbytes(x.Code)
	e.varbytes(nil) // attributes: must be empty
	e.raw(fix(x.Payer, 20))
	e.u8(0) // coin type
	return e
}

func refTx(x pTx) []byte { return refTxEnc(x).b }

func refTxEnc(x pTx) *enc {
	e := refTxUnsignedEnc(x)
	e.varuint(uint64(len(x.Sigs)))
	for _, s := range x.Sigs {
		e.mark()
		e.u16(uint16(len(s.Data)))
		for _, d := range s.Data {
			e.varbytes(d)
		}
		e.mark()
		e.u16(uint16(len(s.Keys)))
		for _, k := range s.Keys {
			e.varbytes(keyBytes[keyIdx(k)])
		}
		e.u16(s.M)
	}
	return e
}

func refHdr(h pHdr, txroot []byte) []byte { return refHdrEnc(h, txroot).b }

func refHdrEnc(h pHdr, txroot []byte) *enc {
	e := &enc{}
	e.u32(0)
	e.u64(h.Chain)
	e.raw(fix(h.Prev, 32))
	e.raw(fix(txroot, 32))
	e.raw(fix(h.Cross, 32))
	e.raw(fix(h.BlkRoot, 32))
	e.u32(h.Time)
	e.u32(h.Height)
	e.u64(h.CData)
	e.varbytes(h.CPayload)
	e.raw(fix(h.NextBK, 20))
	e.varuint(uint64(len(h.BKs)))
	for _, k := range h.BKs {
		e.varbytes(keyBytes[keyIdx(k)])
	}
	e.varuint(uint64(len(h.Sigs)))
	for _, s := range h.Sigs {
		e.varbytes(s)
	}
	return e
}

// refMerkle: Bitcoin-style root (double SHA-256 of the concatenated pair, odd node paired with
// itself, single leaf is the root, empty list is the zero hash).
func refMerkle(leaves [][32]byte) [32]byte {
	if len(leaves) == 0 {
		return [32]byte{}
	}
	lv := append([][32]byte(nil), leaves...)
	for len(lv) > 1 {
		var nx [][32]byte
		for i := 0; i < len(lv); i += 2 {
			j := i + 1
			if j == len(lv) {
				j = i
			}
			nx = append(nx, sha256d(append(append([]byte(nil), lv[i][:]...), lv[j][:]...)))
		}
		lv = nx
	}
	return lv[0]
}

// blockTxRoot returns the transactions root to put in the header of a block message and whether
// the block is expected to be acceptable (correct root, no duplicated transaction).
func blockTxRoot(m pMsg) (root []byte, acceptable bool) {
	var leaves [][32]byte
	seen := map[[32]byte]bool{}
	dup := false
	for _, x := range m.Txs {
		h := sha256d(refTxUnsigned(x))
		if seen[h] {
			dup = true
		}
		seen[h] = true
		leaves = append(leaves, h)
	}
	r := refMerkle(leaves)
	if m.BadRoot {
		root = fix(m.Hdrs[0].TxRoot, 32)
		return root, !dup && bytes.Equal(root, r[:])
	}
	return r[:], !dup
}

func wellFormed(m pMsg) bool {
	switch m.Kind {
	case "version":
		return m.Ver != nil
	case "consensus":
		return m.Cons != nil
	case "tx":
		return len(m.Txs) >= 1
	case "block":
		return len(m.Hdrs) >= 1
	}
	return kindKnown(m.Kind)
}

// refPayload encodes the payload of m from the wire-format description.
func refPayload(m pMsg) []byte { return refPayloadEnc(m).b }

func refPayloadEnc(m pMsg) *enc {
	e := &enc{}
	switch m.Kind {
	case "ping", "pong":
		e.u64(m.U64)
	case "version":
		v := m.Ver
		e.u32(v.Version)
		e.u64(v.Services)
		e.u64(uint64(v.Time))
		e.u16(v.Sync)
		e.u16(v.HTTP)
		e.u16(v.Cons)
		e.raw(fix(v.Cap, 32))
		e.u64(v.Nonce)
		e.u64(v.Start)
		e.u8(v.Relay)
		e.boolean(v.IsCons)
		e.varbytes(v.Soft)
	case "verack":
		e.boolean(m.Flag)
	case "getaddr", "disconnect":
	case "addr":
		e.mark()
		e.u64(uint64(len(m.Addrs)))
		for _, a := range m.Addrs {
			e.u64(uint64(a.Time))
			e.u64(a.Svc)
			e.raw(fix(a.IP, 16))
			e.u16(a.Port)
			e.u16(a.CPort)
			e.u64(a.ID)
		}
	case "getheaders", "getblocks":
		e.u8(m.U8)
		e.raw(fix(m.H1, 32))
		e.raw(fix(m.H2, 32))
	case "headers":
		e.mark()
		e.u32(uint32(len(m.Hdrs)))
		for _, h := range m.Hdrs {
			e.sub(refHdrEnc(h, h.TxRoot))
		}
	case "inv":
		e.u8(m.U8)
		e.mark()
		e.u32(uint32(len(m.Hashes)))
		for _, h := range m.Hashes {
			e.raw(fix(h, 32))
		}
	case "getdata":
		e.u8(m.U8)
		e.raw(fix(m.H1, 32))
	case "notfound":
		e.raw(fix(m.H1, 32))
	case "tx":
		e.sub(refTxEnc(m.Txs[0]))
	case "block":
		root, _ := blockTxRoot(m)
		e.sub(refHdrEnc(m.Hdrs[0], root))
		e.mark()
		e.u32(uint32(len(m.Txs)))
		for _, x := range m.Txs {
			e.sub(refTxEnc(x))
		}
		e.raw(fix(m.H1, 32))
	case "consensus":
		c := m.Cons
		e.u32(c.Version)
		e.raw(fix(c.Prev, 32))
		e.u32(c.Height)
		e.u16(c.BkIdx)
		e.u32(c.Time)
		e.varbytes(c.Data)
		e.varbytes(keyBytes[keyIdx(c.Owner)])
		e.varbytes(c.Sig)
	}
	return e
}

// refFrame builds a frame from the description: magic LE, command NUL-padded to 12 bytes, payload
// length LE, first four bytes of SHA-256(SHA-256(payload)), payload.
func refFrame(magic uint32, cmd []byte, payload []byte) []byte {
	e := &enc{}
	e.u32(magic)
	e.raw(fix(cmd, 12))
	e.u32(uint32(len(payload)))
	ck := sha256d(payload)
	e.raw(ck[:4])
	e.raw(payload)
	return e.b
}

// ---------------------------------------------------------------------------------------------
// implementation objects from the case

func u256(b []byte) (h common.Uint256)   { copy(h[:], b); return }
func addr20(b []byte) (a common.Address) { copy(a[:], b); return }

func raws(bs []ev.B) [][]byte {
	var out [][]byte
	for _, b := range bs {
		out = append(out, []byte(b))
	}
	return out
}

func buildTx(x pTx) *ct.Transaction {
	tx := &ct.Transaction{Version: 0, TxType: ct.Invoke, Nonce: x.Nonce, ChainID: x.Chain, GasLimit: x.GasLimit, GasPrice: x.GasPrice,
		Payload: &payload.InvokeCode{Code: []byte(x.Code)}, Payer: addr20(x.Payer)}
	for _, s := range x.Sigs {
		sg := ct.Sig{SigData: raws(s.Data), M: s.M}
		for _, k := range s.Keys {
			sg.PubKeys = append(sg.PubKeys, keyPool[keyIdx(k)])
		}
		tx.Sigs = append(tx.Sigs, sg)
	}
	return tx
}

func buildHdr(h pHdr, txroot []byte) *ct.Header {
	hd := &ct.Header{Version: 0, ChainID: h.Chain, PrevBlockHash: u256(h.Prev), TransactionsRoot: u256(txroot), CrossStateRoot: u256(h.Cross),
		BlockRoot: u256(h.BlkRoot), Timestamp: h.Time, Height: h.Height, ConsensusData: h.CData, ConsensusPayload: []byte(h.CPayload),
		NextBookkeeper: addr20(h.NextBK), SigData: raws(h.Sigs)}
	for _, k := range h.BKs {
		hd.Bookkeepers = append(hd.Bookkeepers, keyPool[keyIdx(k)])
	}
	return hd
}

func build(m pMsg) types.Message {
	switch m.Kind {
	case "ping":
		return &types.Ping{Height: m.U64}
	case "pong":
		return &types.Pong{Height: m.U64}
	case "version":
		v := m.Ver
		p := types.VersionPayload{Version: v.Version, Services: v.Services, TimeStamp: v.Time, SyncPort: v.Sync, HttpInfoPort: v.HTTP, ConsPort: v.Cons,
			Nonce: v.Nonce, StartHeight: v.Start, Relay: v.Relay, IsConsensus: v.IsCons, SoftVersion: string(v.Soft)}
		copy(p.Cap[:], v.Cap)
		return &types.Version{P: p}
	case "verack":
		return &types.VerACK{IsConsensus: m.Flag}
	case "getaddr":
		return &types.AddrReq{}
	case "disconnect":
		return &types.Disconnected{}
	case "addr":
		a := &types.Addr{}
		for _, x := range m.Addrs {
			pa := p2pc.PeerAddr{Time: x.Time, Services: x.Svc, Port: x.Port, ConsensusPort: x.CPort, ID: x.ID}
			copy(pa.IpAddr[:], x.IP)
			a.NodeAddrs = append(a.NodeAddrs, pa)
		}
		return a
	case "getheaders":
		return &types.HeadersReq{Len: m.U8, HashStart: u256(m.H1), HashEnd: u256(m.H2)}
	case "getblocks":
		return &types.BlocksReq{HeaderHashCount: m.U8, HashStart: u256(m.H1), HashStop: u256(m.H2)}
	case "headers":
		b := &types.BlkHeader{}
		for _, h := range m.Hdrs {
			b.BlkHdr = append(b.BlkHdr, buildHdr(h, h.TxRoot))
		}
		return b
	case "inv":
		v := &types.Inv{}
		v.P.InvType = common.InventoryType(m.U8)
		for _, h := range m.Hashes {
			v.P.Blk = append(v.P.Blk, u256(h))
		}
		return v
	case "getdata":
		return &types.DataReq{DataType: common.InventoryType(m.U8), Hash: u256(m.H1)}
	case "notfound":
		return &types.NotFound{Hash: u256(m.H1)}
	case "tx":
		return &types.Trn{Txn: buildTx(m.Txs[0])}
	case "block":
		root, _ := blockTxRoot(m)
		blk := &ct.Block{Header: buildHdr(m.Hdrs[0], root)}
		for _, x := range m.Txs {
			blk.Transactions = append(blk.Transactions, buildTx(x))
		}
		return &types.Block{Blk: blk, MerkleRoot: u256(m.H1)}
	case "consensus":
		c := m.Cons
		return &types.Consensus{Cons: types.ConsensusPayload{Version: c.Version, PrevHash: u256(c.Prev), Height: c.Height, BookkeeperIndex: c.BkIdx,
			Timestamp: c.Time, Data: []byte(c.Data), Owner: keyPool[keyIdx(c.Owner)], Signature: []byte(c.Sig)}}
	}
	return nil
}

// ---------------------------------------------------------------------------------------------
// flattening: (kind, numeric fields, byte fields) in a fixed order, read from struct FIELDS

type flat struct {
	K string
	N []uint64
	B [][]byte
}

func (f *flat) n(v ...uint64) { f.N = append(f.N, v...) }
func (f *flat) b(v ...[]byte) { f.B = append(f.B, v...) }
func b2u(b bool) uint64 {
	if b {
		return 1
	}
	return 0
}

func (f flat) diff(g flat) string {
	if f.K != g.K {
		return fmt.Sprintf("kind %q vs %q", f.K, g.K)
	}
	if len(f.N) != len(g.N) {
		return fmt.Sprintf("%d numeric fields vs %d", len(f.N), len(g.N))
	}
	for i := range f.N {
		if f.N[i] != g.N[i] {
			return fmt.Sprintf("numeric field #%d: %d vs %d", i, f.N[i], g.N[i])
		}
	}
	if len(f.B) != len(g.B) {
		return fmt.Sprintf("%d byte fields vs %d", len(f.B), len(g.B))
	}
	for i := range f.B {
		if !bytes.Equal(f.B[i], g.B[i]) {
			return fmt.Sprintf("byte field #%d: %x vs %x", i, clip(f.B[i]), clip(g.B[i]))
		}
	}
	return ""
}

func clip(b []byte) []byte {
	if len(b) > 80 {
		return b[:80]
	}
	return b
}

func (f *flat) implHdr(h *ct.Header) {
	f.n(uint64(h.Version), h.ChainID, uint64(h.Timestamp), uint64(h.Height), h.ConsensusData, uint64(len(h.Bookkeepers)), uint64(len(h.SigData)))
	f.b(h.PrevBlockHash[:], h.TransactionsRoot[:], h.CrossStateRoot[:], h.BlockRoot[:], h.ConsensusPayload, h.NextBookkeeper[:])
	for _, k := range h.Bookkeepers {
		f.b(keypair.SerializePublicKey(k))
	}
	f.b(h.SigData...)
}

func (f *flat) caseHdr(h pHdr, txroot []byte) {
	f.n(0, h.Chain, uint64(h.Time), uint64(h.Height), h.CData, uint64(len(h.BKs)), uint64(len(h.Sigs)))
	f.b(fix(h.Prev, 32), fix(txroot, 32), fix(h.Cross, 32), fix(h.BlkRoot, 32), h.CPayload, fix(h.NextBK, 20))
	for _, k := range h.BKs {
		f.b(keyBytes[keyIdx(k)])
	}
	f.b(raws(h.Sigs)...)
}

func (f *flat) implTx(tx *ct.Transaction) {
	f.n(uint64(tx.Version), uint64(tx.TxType), uint64(tx.Nonce), tx.ChainID, tx.GasLimit, tx.GasPrice, uint64(tx.CoinType), uint64(len(tx.Sigs)))
	var code []byte
	if ic, ok := tx.Payload.(*payload.InvokeCode); ok && ic != nil {
		code = ic.Code
	} else {
		code = []byte("<payload is not InvokeCode>")
	}
	f.b(code, tx.Attributes, tx.Payer[:])
	for _, s := range tx.Sigs {
		f.n(uint64(len(s.SigData)), uint64(len(s.PubKeys)), uint64(s.M))
		f.b(s.SigData...)
		for _, k := range s.PubKeys {
			f.b(keypair.SerializePublicKey(k))
		}
	}
	h := tx.Hash()
	f.b(tx.Raw, h[:])
}

func (f *flat) caseTx(x pTx) {
	f.n(0, 0xd1, uint64(x.Nonce), x.Chain, x.GasLimit, x.GasPrice, 0, uint64(len(x.Sigs)))
	f.b(x.Code, nil, fix(x.Payer, 20))
	for _, s := range x.Sigs {
		f.n(uint64(len(s.Data)), uint64(len(s.Keys)), uint64(s.M))
		f.b(raws(s.Data)...)
		for _, k := range s.Keys {
			f.b(keyBytes[keyIdx(k)])
		}
	}
	h := sha256d(refTxUnsigned(x))
	f.b(refTx(x), h[:])
}

// flatImpl flattens a decoded implementation object.
func flatImpl(m types.Message) flat {
	f := flat{K: kindOf(m)}
	switch v := m.(type) {
	case *types.Ping:
		f.n(v.Height)
	case *types.Pong:
		f.n(v.Height)
	case *types.Version:
		p := v.P
		f.n(uint64(p.Version), p.Services, uint64(p.TimeStamp), uint64(p.SyncPort), uint64(p.HttpInfoPort), uint64(p.ConsPort), p.Nonce, p.StartHeight,
			uint64(p.Relay), b2u(p.IsConsensus))
		f.b(p.Cap[:], []byte(p.SoftVersion))
	case *types.VerACK:
		f.n(b2u(v.IsConsensus))
	case *types.AddrReq, *types.Disconnected:
	case *types.Addr:
		f.n(uint64(len(v.NodeAddrs)))
		for _, a := range v.NodeAddrs {
			f.n(uint64(a.Time), a.Services, uint64(a.Port), uint64(a.ConsensusPort), a.ID)
			f.b(a.IpAddr[:])
		}
	case *types.HeadersReq:
		f.n(uint64(v.Len))
		f.b(v.HashStart[:], v.HashEnd[:])
	case *types.BlocksReq:
		f.n(uint64(v.HeaderHashCount))
		f.b(v.HashStart[:], v.HashStop[:])
	case *types.BlkHeader:
		f.n(uint64(len(v.BlkHdr)))
		for _, h := range v.BlkHdr {
			f.implHdr(h)
		}
	case *types.Inv:
		f.n(uint64(v.P.InvType), uint64(len(v.P.Blk)))
		for i := range v.P.Blk {
			f.b(v.P.Blk[i][:])
		}
	case *types.DataReq:
		f.n(uint64(v.DataType))
		f.b(v.Hash[:])
	case *types.NotFound:
		f.b(v.Hash[:])
	case *types.Trn:
		f.implTx(v.Txn)
	case *types.Block:
		f.implHdr(v.Blk.Header)
		f.n(uint64(len(v.Blk.Transactions)))
		for _, tx := range v.Blk.Transactions {
			f.implTx(tx)
		}
		f.b(v.MerkleRoot[:])
	case *types.Consensus:
		c := v.Cons
		f.n(uint64(c.Version), uint64(c.Height), uint64(c.BookkeeperIndex), uint64(c.Timestamp))
		f.b(c.PrevHash[:], c.Data, keypair.SerializePublicKey(c.Owner), c.Signature)
	}
	return f
}

// flatCase flattens the generated message as it must look AFTER a frame round trip (address and
// inventory lists longer than the limit are cut to the limit).
func flatCase(m pMsg) flat {
	f := flat{K: m.Kind}
	switch m.Kind {
	case "ping", "pong":
		f.n(m.U64)
	case "version":
		v := m.Ver
		f.n(uint64(v.Version), v.Services, uint64(v.Time), uint64(v.Sync), uint64(v.HTTP), uint64(v.Cons), v.Nonce, v.Start, uint64(v.Relay), b2u(v.IsCons))
		f.b(fix(v.Cap, 32), v.Soft)
	case "verack":
		f.n(b2u(m.Flag))
	case "addr":
		as := m.Addrs
		if len(as) > addrLimit {
			as = as[:addrLimit]
		}
		f.n(uint64(len(as)))
		for _, a := range as {
			f.n(uint64(a.Time), a.Svc, uint64(a.Port), uint64(a.CPort), a.ID)
			f.b(fix(a.IP, 16))
		}
	case "getheaders", "getblocks":
		f.n(uint64(m.U8))
		f.b(fix(m.H1, 32), fix(m.H2, 32))
	case "headers":
		f.n(uint64(len(m.Hdrs)))
		for _, h := range m.Hdrs {
			f.caseHdr(h, h.TxRoot)
		}
	case "inv":
		hs := m.Hashes
		if len(hs) > invLimit {
			hs = hs[:invLimit]
		}
		f.n(uint64(m.U8), uint64(len(hs)))
		for _, h := range hs {
			f.b(fix(h, 32))
		}
	case "getdata":
		f.n(uint64(m.U8))
		f.b(fix(m.H1, 32))
	case "notfound":
		f.b(fix(m.H1, 32))
	case "tx":
		f.caseTx(m.Txs[0])
	case "block":
		root, _ := blockTxRoot(m)
		f.caseHdr(m.Hdrs[0], root)
		f.n(uint64(len(m.Txs)))
		for _, x := range m.Txs {
			f.caseTx(x)
		}
		f.b(fix(m.H1, 32))
	case "consensus":
		c := m.Cons
		f.n(uint64(c.Version), uint64(c.Height), uint64(c.BkIdx), uint64(c.Time))
		f.b(fix(c.Prev, 32), c.Data, keyBytes[keyIdx(c.Owner)], c.Sig)
	}
	return f
}

// hasList: the message carries a non-empty list or a nested block / transaction.
func hasList(m pMsg) bool {
	switch m.Kind {
	case "tx", "block":
		return true
	case "addr":
		return len(m.Addrs) > 0
	case "inv":
		return len(m.Hashes) > 0
	case "headers":
		return len(m.Hdrs) > 0
	}
	return false
}
