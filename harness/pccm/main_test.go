package pccm

import (
	"testing"

	"pgregory.net/rapid"

	"verif/harness/ev"
)

func TestMain(m *testing.M) { ev.Main(m) }

// ---------------------------------------------------------------------------------------------
// generators (all data up front; indices are resolved modulo the pools inside run)

var chainIDPool = []uint64{1, 2, 3, 5, 7, 10, 0xFC, 0xFD, 0xFFFF, 0x10000, 1 << 40, 1<<63 + 5, 1<<64 - 1}

func genRouter(f focus) *rapid.Generator[uint64] {
	return rapid.Custom(func(t *rapid.T) uint64 {
		k := rapid.IntRange(0, 99).Draw(t, "routerclass")
		switch {
		case k < 34:
			return rVote
		case k < 48:
			return rETH
		case k < 58:
			return rRIPPLE
		case k < 68:
			return rHSC
		case k < 74:
			return rBYTOM
		case k < 79:
			return rBSC
		case k < 84:
			return rHECO
		case k < 88:
			return rPIXIE
		case k < 94:
			return rQUORUM
		}
		return rapid.SampledFrom(destOnlyRouters).Draw(t, "destrouter")
	})
}

func genChains(t *rapid.T, f focus) []chainDef {
	n := rapid.IntRange(2, 6).Draw(t, "nchains")
	ids := rapid.SliceOfNDistinct(rapid.SampledFrom(chainIDPool), n, n, func(v uint64) uint64 { return v }).Draw(t, "ids")
	out := make([]chainDef, n)
	for i := range out {
		out[i] = chainDef{ID: ids[i], Router: genRouter(f).Draw(t, "router")}
	}
	return out
}

func genBytes(lo, hi int) *rapid.Generator[[]byte] { return rapid.SliceOfN(rapid.Byte(), lo, hi) }

func genMsgs(t *rapid.T, f focus) []msgDef {
	npool := rapid.IntRange(1, 3).Draw(t, "nccid")
	pool := make([][]byte, npool)
	for i := range pool {
		pool[i] = rapid.OneOf(genBytes(0, 4), genBytes(32, 32), genBytes(0, 40)).Draw(t, "ccid")
	}
	nm := rapid.IntRange(1, 6).Draw(t, "nmsgs")
	out := make([]msgDef, nm)
	for i := range out {
		m := msgDef{
			TxHash: rapid.OneOf(genBytes(32, 32), genBytes(0, 33)).Draw(t, "txhash"),
			CCID:   pool[rapid.IntRange(0, npool-1).Draw(t, "ccidx")],
			From:   genBytes(0, 20).Draw(t, "from"),
			To:     rapid.IntRange(0, 5).Draw(t, "to"),
			ToC:    genBytes(0, 20).Draw(t, "toc"),
			Method: genBytes(0, 12).Draw(t, "method"),
		}
		if rapid.IntRange(0, 9).Draw(t, "toraw") == 0 {
			m.ToRaw = rapid.SampledFrom([]uint64{99, 4, 1 << 33, 1<<64 - 2}).Draw(t, "rawid")
		}
		big := 2
		if f == fC22 {
			big = 12
		}
		k := rapid.IntRange(0, 99).Draw(t, "argsclass")
		switch {
		case k < 12:
			// empty args
		case k < 12+big:
			m.ArgsLen = rapid.SampledFrom([]int{0xFC, 0xFD, 0xFFFF, 0x10000, 70000}).Draw(t, "argslen")
		case k < 45:
			m.RArgs, m.RDst, m.RAmt = true, genBytes(0, 25).Draw(t, "rdst"), rapid.Uint64().Draw(t, "ramt")
		default:
			m.Args = genBytes(1, 48).Draw(t, "args")
		}
		// boundary sizes of the outbound request record, and Args lengths around the var-bytes prefix switches
		q := 8
		if f == fC22 {
			q = 3
		}
		switch rapid.IntRange(0, q).Draw(t, "sizeclass") {
		case 0:
			m.ReqLen = rapid.SampledFrom(reqLenClasses).Draw(t, "reqlen")
		case 1:
			m.RArgs, m.Args = false, nil
			m.ArgsLen = rapid.SampledFrom([]int{252, 253, 254, 65534, 65535, 65536, 65537}).Draw(t, "argsedge")
		}
		out[i] = m
	}
	return out
}

type opWeights []struct {
	k string
	w int
}

var weights = map[focus]opWeights{
	fC20: {{"imp", 60}, {"vote", 10}, {"blk", 8}, {"black", 3}, {"white", 3}, {"quitfull", 2}, {"regfull", 4}, {"gen", 3}, {"asset", 2}, {"hgt", 1}, {"apr", 1}, {"reg", 1}, {"aqt", 1}, {"quit", 1}},
	fC21: {{"imp", 30}, {"impat", 8}, {"vote", 5}, {"blk", 3}, {"black", 14}, {"white", 11}, {"quitfull", 5}, {"regfull", 8}, {"gen", 4}, {"asset", 2}, {"hgt", 5}, {"apr", 3}, {"reg", 2}, {"aqt", 1}, {"quit", 1}},
	fC22: {{"imp", 68}, {"vote", 6}, {"blk", 8}, {"black", 3}, {"white", 3}, {"quitfull", 1}, {"regfull", 4}, {"gen", 3}, {"asset", 2}, {"hgt", 1}, {"apr", 1}},
}

func genOp(f focus, gated []int) *rapid.Generator[opDef] {
	ws := weights[f]
	total := 0
	for _, w := range ws {
		total += w.w
	}
	return rapid.Custom(func(t *rapid.T) opDef {
		r := rapid.IntRange(0, total-1).Draw(t, "opclass")
		k := ""
		for _, w := range ws {
			if r < w.w {
				k = w.k
				break
			}
			r -= w.w
		}
		op := opDef{K: k}
		switch k {
		case "blk":
			return op
		case "hgt":
			op.H = rapid.IntRange(0, len(heightTable)-1).Draw(t, "h")
			return op
		}
		op.C = rapid.IntRange(0, 5).Draw(t, "c")
		switch k {
		case "impat":
			op.M, op.H, op.V, op.X = rapid.IntRange(0, 5).Draw(t, "m"), rapid.IntRange(0, 7).Draw(t, "h"), rapid.IntRange(0, 6).Draw(t, "v"), rapid.IntRange(0, 7).Draw(t, "x")
			op.S = rapid.SampledFrom([]int{1, 2, 2, 3, 4, 0, 7}).Draw(t, "at")
			if len(gated) > 0 && rapid.IntRange(0, 4).Draw(t, "gatedsrc") > 0 {
				op.C = rapid.SampledFrom(gated).Draw(t, "gc")
			}
		case "imp":
			op.M, op.H, op.V, op.X = rapid.IntRange(0, 5).Draw(t, "m"), rapid.IntRange(0, 7).Draw(t, "h"), rapid.IntRange(0, 6).Draw(t, "v"), rapid.IntRange(0, 7).Draw(t, "x")
		case "vote":
			op.M, op.H, op.V, op.S = rapid.IntRange(0, 5).Draw(t, "m"), rapid.IntRange(0, 2).Draw(t, "h"), rapid.IntRange(0, 8).Draw(t, "v"), rapid.IntRange(0, 7).Draw(t, "s")
		case "apr", "aqt":
			op.V = rapid.IntRange(0, 6).Draw(t, "v")
		case "asset":
			op.X = rapid.SampledFrom([]int{63, 63, 63, 1, 2, 5, 42}).Draw(t, "mask")
		case "gen":
			op.S = rapid.IntRange(0, 3).Draw(t, "s")
		case "black", "white":
			op.S = rapid.IntRange(0, 3).Draw(t, "s")
			op.X = rapid.IntRange(0, 3).Draw(t, "x")
			op.M = rapid.IntRange(0, 5).Draw(t, "m")
		}
		return op
	})
}

func genHist(f focus) func(t *rapid.T) histCase {
	return func(t *rapid.T) histCase {
		c := histCase{N: rapid.SampledFrom([]int{2, 3, 4, 4, 4, 5, 7}).Draw(t, "n")}
		if f == fC21 && rapid.IntRange(0, 3).Draw(t, "lowstart") == 0 {
			c.H0 = rapid.IntRange(0, len(heightTable)-1).Draw(t, "h0")
		}
		c.Chains = genChains(t, f)
		c.Msgs = genMsgs(t, f)
		// usual bring-up: most chains registered, asset bindings and trust roots in place
		for s, ch := range c.Chains {
			if rapid.IntRange(0, 9).Draw(t, "setup") < 9 {
				c.Ops = append(c.Ops, opDef{K: "regfull", C: s})
				if ch.Router == rRIPPLE {
					c.Ops = append(c.Ops, opDef{K: "asset", C: s, X: 63})
				}
				if isEVM(ch.Router) {
					c.Ops = append(c.Ops, opDef{K: "gen", C: s})
				}
			}
		}
		var gated []int
		for s, ch := range c.Chains {
			if isGated(ch.Router) {
				gated = append(gated, s)
			}
		}
		maxOps := ev.Scale(24, 60)
		ops := rapid.SliceOfN(genOp(f, gated), 1, maxOps).Draw(t, "ops")
		c.Persist = rapid.Bool().Draw(t, "persist")
		if c.Persist {
			// block boundaries between the steps, so that imports, blacklist / whitelist operations, quits and
			// re-registrations meet records that an earlier block has already written to the store
			c.Ops = append(c.Ops, opDef{K: "blk"})
			cut := rapid.SliceOfN(rapid.IntRange(0, 2), len(ops), len(ops)).Draw(t, "blockcuts")
			for i, op := range ops {
				c.Ops = append(c.Ops, op)
				if cut[i] == 0 {
					c.Ops = append(c.Ops, opDef{K: "blk"})
				}
			}
		} else {
			c.Ops = append(c.Ops, ops...)
		}
		return c
	}
}

func runHist(f focus) func(ctx *ev.Ctx, c histCase) {
	return func(ctx *ev.Ctx, c histCase) {
		e := newEngine(ctx, f, c)
		defer e.release()
		e.run()
	}
}

const domainText = "cases: main-net L1 world with 2..7 consensus validators; a pool of 2..6 chains (routers vote, ripple-vote, eth, quorum, bsc, heco, pixie, hsc, bytom, " +
	"or a destination-only account-based router) and 1..6 messages drawn so that cross-chain ids collide; a history of up to 24 (thorough 60) operations: " +
	"registerSideChain/approve/quit flows, registerAsset, syncGenesisHeader (trust root / Istanbul validator set of a synthetic EVM chain built with go-ethereum tries), BlackChain/WhiteChain, " +
	"block/height changes (in half of the cases every block change flushes the block layer into the store, so later blocks overwrite/delete persisted records) and imports (votes one by one or to quorum; eth_getProof-style proofs; quorum: sealed Istanbul header with the import). Every transaction's outcome and complete state delta is compared with the model. "

func TestC20(t *testing.T) {
	ev.Drive(t, "C20", domainText+
		"non-trivial: an import was accepted and a later submission with the same (source chain, cross-chain id) but a different valid proof "+
		"(other vote height / other payload / other storage slot) reached the replay check; distinct by JSON encoding of the case",
		genHist(fC20), runHist(fC20))
}

func TestC21(t *testing.T) {
	ev.Drive(t, "C21", domainText+
		"non-trivial: an import whose proof/quorum is valid is refused only because its destination chain is blacklisted or unregistered, or (EVM-family sources, "+
		"valid proof attached) only because its source chain is blacklisted/unregistered or its hsc/bytom router is not yet active at the height of the transaction; "+
		"distinct by JSON encoding of the case",
		genHist(fC21), runHist(fC21))
}

func TestC22(t *testing.T) {
	ev.Drive(t, "C22", domainText+
		"non-trivial: an accepted import with non-empty args that is at least the second accepted import of its block; distinct by JSON encoding of the case",
		genHist(fC22), runHist(fC22))
}
