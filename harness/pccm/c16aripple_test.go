package pccm

// C16 part A, unit for the Ripple router: executing the same transaction on the same prior state
// always yields the same success flag, return value, write set and notify events.
//
// History (every transaction of it goes through r16Exec = 8 (thorough 16) executions on fresh
// overlay + transaction cache forks of the same prior state, then it is applied):
//   registerSideChain/approve of a vote-router source chain and of a Ripple chain whose
//   RippleExtraInfo names n = 2..5 signer keys and a quorum 1..n; registerAsset; updateFee votes of
//   the validators; a vote-router import towards the Ripple chain (real ripple MakeTransaction:
//   the raw payment is stored); then MultiSign transactions carrying 1..n signer entries each
//   (valid Ripple multi-signatures made with the rubblelabs/ripple signing code, plus entries of an
//   outsider key, corrupted signatures, repeats), in generated order.

import (
	"bytes"
	"crypto/sha256"
	"encoding/hex"
	"encoding/json"
	"fmt"
	"math/big"
	"sort"
	"sync"
	"testing"

	"github.com/polynetwork/poly/common"
	"github.com/polynetwork/poly/common/config"
	"github.com/polynetwork/poly/core/payload"
	scommon "github.com/polynetwork/poly/core/store/common"
	"github.com/polynetwork/poly/core/store/overlaydb"
	"github.com/polynetwork/poly/core/types"
	"github.com/polynetwork/poly/native"
	"github.com/polynetwork/poly/native/service/cross_chain_manager/ripple"
	"github.com/polynetwork/poly/native/service/governance/side_chain_manager"
	"github.com/polynetwork/poly/native/service/utils"
	"github.com/polynetwork/poly/native/storage"
	rtypes "github.com/polynetwork/ripple-sdk/types"
	rcrypto "github.com/rubblelabs/ripple/crypto"
	rdata "github.com/rubblelabs/ripple/data"
	"pgregory.net/rapid"

	"verif/harness/ev"
	"verif/harness/world"
)

type r16Batch struct {
	Signers []int `json:"signers"` // indices into the signer list; == n: an outsider key
	Corrupt int   `json:"corrupt"` // >0: the signature of entry (Corrupt-1) mod len is corrupted
	Req     int   `json:"req"`     // which outbound request
}

type r16Case struct {
	NS      int        `json:"ns"`     // signer keys 2..5
	Quorum  int        `json:"quorum"` // 1..NS
	NReq    int        `json:"nreq"`   // outbound requests 1..2
	Amount  uint64     `json:"amount"`
	Batches []r16Batch `json:"batches"`
	Persist bool       `json:"persist,omitempty"` // every applied transaction ends a block that is flushed to the store
}

func genR16(t *rapid.T) r16Case {
	c := r16Case{NS: rapid.IntRange(2, 5).Draw(t, "ns")}
	c.Quorum = rapid.IntRange(1, c.NS).Draw(t, "quorum")
	if rapid.IntRange(0, 3).Draw(t, "q2") > 0 && c.Quorum < 2 {
		c.Quorum = 2
	}
	c.NReq = rapid.IntRange(1, 2).Draw(t, "nreq")
	c.Amount = rapid.Uint64Range(1000000, 5000000000).Draw(t, "amount")
	c.Persist = rapid.Bool().Draw(t, "persist")
	c.Batches = rapid.SliceOfN(rapid.Custom(func(t *rapid.T) r16Batch {
		b := r16Batch{Signers: rapid.SliceOfN(rapid.IntRange(0, c.NS), 1, c.NS).Draw(t, "signers"), Req: rapid.IntRange(0, 1).Draw(t, "req")}
		if rapid.IntRange(0, 7).Draw(t, "corruptclass") == 0 {
			b.Corrupt = rapid.IntRange(1, 5).Draw(t, "corrupt")
		}
		return b
	}), 1, 8).Draw(t, "batches")
	return c
}

// ---------------------------------------------------------------------------------------------
// forked execution (same skeleton as the other C16A units)

type r16View struct{ o *overlaydb.OverlayDB }

func (v r16View) Get(key []byte) ([]byte, error) {
	val, err := v.o.Get(key)
	if err == nil && val == nil {
		return nil, scommon.ErrNotFound
	}
	return val, err
}
func (v r16View) Has(key []byte) (bool, error) {
	val, err := v.o.Get(key)
	return val != nil, err
}
func (v r16View) NewIterator(prefix []byte) scommon.StoreIterator { return v.o.NewIterator(prefix) }
func (v r16View) Put(key []byte, value []byte) error               { panic("read-only view") }
func (v r16View) Delete(key []byte) error                          { panic("read-only view") }
func (v r16View) NewBatch()                                        { panic("read-only view") }
func (v r16View) BatchPut(key []byte, value []byte)                { panic("read-only view") }
func (v r16View) BatchDelete(key []byte)                           { panic("read-only view") }
func (v r16View) BatchCommit() error                               { panic("read-only view") }
func (v r16View) Close() error                                     { return nil }

type r16Note struct {
	Contract string
	States   interface{}
}

type r16Fork struct {
	ok       bool
	errText  string
	panicked bool
	ret      []byte
	writeSet []byte
	records  int
	notes    []r16Note
	notify   []byte
	cross    []byte
}

func r16RunFork(w *world.World, tx *types.Transaction) *r16Fork {
	code := tx.Payload.(*payload.InvokeCode).Code
	ov := overlaydb.VerifNewOverlayDB(r16View{w.Overlay}, 64*1024, 64)
	cache := storage.NewCacheDB(ov)
	svc, err := native.NewNativeService(cache, tx, w.Time, w.Height, w.BlockHash, w.ChainID, code, false)
	if err != nil {
		panic(err)
	}
	fr := &r16Fork{}
	var ret interface{}
	func() {
		defer func() {
			if r := recover(); r != nil {
				fr.panicked = true
				err = fmt.Errorf("panic: %v", r)
			}
		}()
		ret, err = svc.Invoke()
	}()
	if err != nil {
		fr.errText = err.Error()
		return fr
	}
	fr.ok = true
	fr.ret = []byte(fmt.Sprintf("%v", ret))
	cache.Commit()
	var b bytes.Buffer
	ov.GetWriteSet().ForEach(func(k, v []byte) {
		fmt.Fprintf(&b, "%d:%x=%d:%x;", len(k), k, len(v), v)
		fr.records++
	})
	fr.writeSet = b.Bytes()
	for _, n := range svc.GetNotify() {
		fr.notes = append(fr.notes, r16Note{Contract: n.ContractAddress.ToHexString(), States: n.States})
	}
	fr.notify, _ = json.Marshal(fr.notes)
	for _, h := range svc.GetCrossHashes() {
		fr.cross = append(fr.cross, h[:]...)
	}
	return fr
}

var (
	r16Mu    sync.Mutex
	r16Table = map[string]int{}
)

func r16Count(k string, n int) { r16Mu.Lock(); r16Table[k] += n; r16Mu.Unlock() }

// onlySignerOrderDiffers: the two notification lists are equal except that the JSON payment of a
// "multisignedTxJson" event lists the same signer entries in another order.
func onlySignerOrderDiffers(a, b []r16Note) bool {
	if len(a) != len(b) {
		return false
	}
	norm := func(n r16Note) (string, bool) {
		st, ok := n.States.([]interface{})
		touched := false
		if ok && len(st) >= 5 && fmt.Sprint(st[0]) == "multisignedTxJson" {
			if js, isStr := st[4].(string); isStr {
				var m map[string]interface{}
				if json.Unmarshal([]byte(js), &m) == nil {
					if sg, has := m["Signers"].([]interface{}); has {
						ss := make([]string, len(sg))
						for i, x := range sg {
							bb, _ := json.Marshal(x)
							ss[i] = string(bb)
						}
						sort.Strings(ss)
						m["Signers"] = ss
						nb, _ := json.Marshal(m)
						cp := append([]interface{}{}, st...)
						cp[4] = string(nb)
						st, touched = cp, true
					}
				}
			}
		}
		o, _ := json.Marshal(r16Note{Contract: n.Contract, States: st})
		return string(o), touched
	}
	any := false
	for i := range a {
		x, t1 := norm(a[i])
		y, t2 := norm(b[i])
		if x != y {
			return false
		}
		any = any || t1 || t2
	}
	return any
}

type r16Env struct {
	ctx     *ev.Ctx
	w       *world.World
	persist bool
}

// exec: N executions on forks of the same prior state must agree; then the transaction is applied.
func (e *r16Env) exec(what string, contract common.Address, method string, args []byte, signers []common.Address) (world.Result, *r16Fork) {
	n := ev.Scale(8, 16)
	tx := e.w.MakeTx(contract, method, args, signers)
	var first *r16Fork
	for i := 0; i < n; i++ {
		fr := r16RunFork(e.w, tx)
		if i == 0 {
			first = fr
			continue
		}
		switch {
		case fr.ok != first.ok || fr.panicked != first.panicked:
			e.ctx.Failf("%s: execution %d ended ok=%v panic=%v (%s) but execution 0 ended ok=%v panic=%v (%s)", what, i, fr.ok, fr.panicked, fr.errText, first.ok, first.panicked, first.errText)
		case !bytes.Equal(fr.ret, first.ret):
			e.ctx.Failf("%s: return value of execution %d differs from execution 0: %s vs %s", what, i, fr.ret, first.ret)
		case !bytes.Equal(fr.writeSet, first.writeSet):
			e.ctx.Failf("%s: write set of execution %d differs from execution 0:\n exec0: %s\n exec%d: %s", what, i, clip(first.writeSet), i, clip(fr.writeSet))
		case !bytes.Equal(fr.cross, first.cross):
			e.ctx.Failf("%s: cross-chain hashes of execution %d differ from execution 0", what, i)
		case !bytes.Equal(fr.notify, first.notify):
			if method == "MultiSignRipple" && onlySignerOrderDiffers(fr.notes, first.notes) {
				e.ctx.Label("multisignedTxJson:signer-order-differs-between-executions")
				if e.ctx.Known("event-order:ripple.MultiSign", "%s: the multisignedTxJson event of the same transaction on the same prior state lists the signers in different orders "+
					"(ripple_handler.go MultiSign ranges over the map multisignInfo.SigMap when it builds payment.Signers):\n exec0: %s\n exec%d: %s", what, clipN(first.notify, 700), i, clipN(fr.notify, 700)) {
					continue
				}
			}
			e.ctx.Failf("%s: notify events of execution %d differ from execution 0:\n exec0: %s\n exec%d: %s", what, i, clipN(first.notify, 700), i, clipN(fr.notify, 700))
		}
	}
	r16Count("ripple:"+method+":txs", 1)
	r16Count("ripple:executions", n)
	res := e.w.Exec(tx)
	if e.persist {
		e.w.Persist()
	}
	if res.OK() != first.ok {
		e.ctx.Failf("%s: the applied transaction ended ok=%v (%v) but the forked executions ended ok=%v (%s)", what, res.OK(), res.Err, first.ok, first.errText)
	}
	switch {
	case first.panicked:
		r16Count("ripple:"+method+":panicked(consistently)", 1)
	case !first.ok:
		r16Count("ripple:"+method+":failed(consistently)", 1)
	default:
		r16Count("ripple:"+method+":succeeded", 1)
		r16Count("ripple:records_compared", first.records)
		if len(first.notes) > 0 {
			r16Count("ripple:"+method+":with_notifications", 1)
		}
	}
	return res, first
}

func clipN(b []byte, n int) []byte {
	if len(b) > n {
		return b[:n]
	}
	return b
}

// ---------------------------------------------------------------------------------------------

type r16Key struct {
	acct *rtypes.Account
	pub  []byte
}

func r16SignerKey(i int) r16Key {
	seed := sha256.Sum256([]byte(fmt.Sprintf("c16-ripple-signer-%d", i)))
	k, err := rcrypto.NewECDSAKey(seed[:16])
	if err != nil {
		panic(err)
	}
	var seq uint32
	id, err := rcrypto.AccountId(k, &seq)
	if err != nil {
		panic(err)
	}
	var a rdata.Account
	copy(a[:], id.Payload())
	return r16Key{acct: &rtypes.Account{Account: a, Key: k}, pub: k.Public(&seq)}
}

func runR16(ctx *ev.Ctx, c r16Case) {
	ns := c.NS
	if ns < 2 {
		ns = 2
	}
	if ns > 5 {
		ns = 5
	}
	q := 1 + mod(c.Quorum-1, ns)
	nreq := 1 + mod(c.NReq-1, 2)
	const nval = 2
	w, release := newWorld(nval)
	defer release()
	e := &r16Env{ctx: ctx, w: w, persist: c.Persist}
	scm, ccmAddr := utils.SideChainManagerContractAddress, utils.CrossChainManagerContractAddress
	const srcID, ripID = uint64(2), uint64(3)
	owner := world.Acct(20)
	must := func(what string, res world.Result) {
		if !res.OK() {
			ctx.Failf("harness: %s failed: %v", what, res.Err)
		}
	}
	ser := func(f func(*common.ZeroCopySink)) []byte { s := common.NewZeroCopySink(nil); f(s); return s.Bytes() }

	keys := make([]r16Key, ns+1) // last: outsider
	var pks [][]byte
	for i := range keys {
		keys[i] = r16SignerKey(i)
		if i < ns {
			pks = append(pks, keys[i].pub)
		}
	}
	// --- chains -----------------------------------------------------------------------------------
	reg := func(id, router uint64, extra []byte) {
		p := &side_chain_manager.RegisterSideChainParam{Address: owner.Address, ChainId: id, Router: router, Name: fmt.Sprintf("c%d", id),
			BlocksToWait: 1, CCMCAddress: []byte{byte(id)}, ExtraInfo: extra}
		res, _ := e.exec("registerSideChain", scm, "registerSideChain", ser(func(s *common.ZeroCopySink) { p.Serialization(s) }), []common.Address{owner.Address})
		must("registerSideChain", res)
		for v := 0; v < nval; v++ {
			a := world.Acct(v).Address
			res, _ := e.exec("approveRegisterSideChain", scm, "approveRegisterSideChain", chainidParam(id, a), []common.Address{a})
			must("approveRegisterSideChain", res)
		}
	}
	reg(srcID, rVote, nil)
	xi := &side_chain_manager.RippleExtraInfo{Operator: owner.Address, Sequence: 7, Quorum: uint64(q), SignerNum: uint64(ns), Pks: pks, ReserveAmount: big.NewInt(100)}
	reg(ripID, rRIPPLE, ser(xi.Serialization))
	multisigAcct := sha256.Sum256([]byte("c16-ripple-multisig-account"))
	asset := multisigAcct[:20]
	ra := &side_chain_manager.RegisterAssetParam{OperatorAddress: owner.Address, ChainId: ripID, AssetMap: map[uint64][]byte{ripID: asset}, LockProxyMap: map[uint64][]byte{ripID: asset}}
	res, _ := e.exec("registerAsset", scm, "registerAsset", ser(ra.Serialization), []common.Address{owner.Address})
	must("registerAsset", res)
	for v := 0; v < nval; v++ {
		a := world.Acct(v).Address
		uf := &side_chain_manager.UpdateFeeParam{Address: a, ChainId: ripID, View: 0, Fee: big.NewInt(int64(10 + v))}
		res, _ := e.exec("updateFee", scm, "updateFee", ser(uf.Serialization), []common.Address{a})
		must("updateFee", res)
	}
	// --- outbound requests towards ripple (real MakeTransaction path) ------------------------------
	var raws []string
	var srcTx [][]byte
	for r := 0; r < nreq; r++ {
		dest := sha256.Sum256([]byte(fmt.Sprintf("c16-ripple-dest-%d", r)))
		args := append(refVarBytes(asset), refVarBytes(dest[:20])...)
		args = append(args, le64(c.Amount+uint64(r))...)
		m := &refMsg{TxHash: []byte{0xa0, byte(r)}, CCID: []byte{0xc0, byte(r)}, From: []byte{1}, To: ripID, ToC: asset, Method: []byte("unlock"), Args: args}
		for v := 0; v < nval; v++ {
			a := world.Acct(v).Address
			it := &importTx{src: srcID, height: 5, relayer: a[:], extra: m.encode()}
			res, _ := e.exec("ImportOuterTransfer(vote, towards ripple)", ccmAddr, "ImportOuterTransfer", it.args(), []common.Address{a})
			must("import towards ripple", res)
		}
		raw, err := ripple.GetTxJsonInfo(w.Service(), srcID, m.TxHash)
		if err != nil {
			ctx.Failf("harness: no raw ripple payment stored for the outbound request: %v", err)
		}
		raws = append(raws, raw)
		srcTx = append(srcTx, m.TxHash)
	}
	ctx.Label(fmt.Sprintf("quorum:%d-of-%d", q, ns))

	// --- MultiSign transactions -----------------------------------------------------------------
	distinct := make([]map[int]bool, nreq)
	done := make([]bool, nreq)
	for i := range distinct {
		distinct[i] = map[int]bool{}
	}
	for bi, b := range c.Batches {
		r := mod(b.Req, nreq)
		if len(b.Signers) == 0 {
			continue
		}
		var entries []*rtypes.Signer
		valid := true
		for j, si := range b.Signers {
			k := keys[mod(si, ns+1)]
			p, err := k.acct.MultiSignTx(raws[r])
			if err != nil || len(p.Signers) != 1 {
				ctx.Failf("harness: ripple multi-signing failed: %v", err)
			}
			sig := append([]byte(nil), (*p.Signers[0].Signer.TxnSignature)...)
			if b.Corrupt > 0 && mod(b.Corrupt-1, len(b.Signers)) == j {
				sig[len(sig)-1] ^= 0x01
				valid = false
			}
			if mod(si, ns+1) == ns {
				valid = false
			}
			s := &rtypes.Signer{}
			s.Signer.Account = k.acct.Account.String()
			s.Signer.SigningPubKey = fmt.Sprintf("%X", k.pub)
			s.Signer.TxnSignature = fmt.Sprintf("%X", sig)
			entries = append(entries, s)
		}
		tj, _ := json.Marshal(&rtypes.MultisignPayment{TransactionType: "Payment", Signers: entries})
		mp := &ripple.MultiSignParam{ToChainId: ripID, AssetAddress: asset, FromChainId: srcID, TxHash: srcTx[r], TxJson: string(tj)}
		what := fmt.Sprintf("MultiSign batch %d (request %d, signers %v, quorum %d of %d)", bi, r, b.Signers, q, ns)
		res, fr := e.exec(what, ccmAddr, "MultiSignRipple", ser(mp.Serialization), []common.Address{world.Acct(40).Address})
		switch {
		case done[r]:
			ctx.Label("multisign:after-completion")
		case !valid:
			ctx.Label("multisign:invalid-entry")
			if res.OK() {
				ctx.Label("multisign:invalid-entry-accepted(not judged here)")
			}
		default:
			if !res.OK() {
				ctx.Failf("harness: %s with valid signatures was refused: %v", what, res.Err)
			}
			for _, si := range b.Signers {
				distinct[r][mod(si, ns+1)] = true
			}
			emitted := false
			for _, n := range fr.notes {
				if st, ok := n.States.([]interface{}); ok && len(st) > 0 && fmt.Sprint(st[0]) == "multisignedTxJson" {
					emitted = true
				}
			}
			if emitted {
				done[r] = true
				ctx.Label("multisign:quorum-reached")
				if len(distinct[r]) >= 2 && q >= 2 {
					ctx.NonTrivial()
					ctx.Label("multisign:quorum>=2-reached")
				}
			} else {
				ctx.Label("multisign:below-quorum")
			}
		}
	}
	_ = hex.EncodeToString
}

func TestC16ARipple(t *testing.T) {
	id := propID("C16")
	oldLog := config.DefConfig.Common.EnableEventLog
	config.DefConfig.Common.EnableEventLog = true
	defer func() {
		config.DefConfig.Common.EnableEventLog = oldLog
		r16Mu.Lock()
		tab := map[string]int{}
		for k, v := range r16Table {
			tab[k] = v
		}
		r16Mu.Unlock()
		ev.Get(id).Extra("routers", tab)
	}()
	ev.Drive(t, id,
		"part A, unit for the Ripple router: a Ripple side chain with n = 2..5 signer keys and quorum 1..n (RippleExtraInfo), asset binding, fee votes, 1..2 outbound requests "+
			"towards Ripple through a vote-router import (real ripple MakeTransaction; raw payment stored), then 1..8 MultiSignRipple transactions carrying 1..n signer entries each "+
			"(valid Ripple multi-signatures in generated order, repeats, an outsider key, corrupted signatures, submissions after completion). EVERY transaction of the history "+
			"(registration, approvals, registerAsset, updateFee, imports, MultiSign) is executed 8 (thorough 16) times on a fresh overlay + transaction cache over the same prior state and then applied; "+
			"all executions must agree on success/panic, return value, write set, cross hashes and, byte for byte, on the notify events. "+
			"non-trivial: the case contains the MultiSign transaction that reaches a quorum >= 2 (the multisignedTxJson event is emitted with >= 2 signers); distinct by JSON of the case",
		genR16, runR16)
}
