package pccm

// Cheap fresh worlds. world.New allocates ~12 MB of zeroed buffers per world (LevelDB memtable and
// the 4 MB block overlay), which dominates the cost of a case. The persistent store of an L1
// world is never written (the block overlay is never flushed), so one empty store and one block
// overlay are reused: the overlay is Reset (complete, re-seeded) and genesis initConfig is executed
// again exactly as world.New does. Every case still starts from a byte-identical genesis state
// and a zero transaction nonce, i.e. run stays a pure function of the case. Cases that flush blocks
// into the store (World.PersistBlocks / Persist) are cleaned up on release.

import (
	"sync"

	"github.com/polynetwork/poly/common"
	"github.com/polynetwork/poly/common/config"
	"github.com/polynetwork/poly/core/store/leveldbstore"
	"github.com/polynetwork/poly/core/store/overlaydb"
	"github.com/polynetwork/poly/native/service/utils"
	"github.com/polynetwork/poly/native/storage"

	"verif/harness/world"
)

var (
	poolMu      sync.Mutex
	poolStore   *leveldbstore.LevelDBStore
	poolOverlay *overlaydb.OverlayDB
	poolBusy    bool
)

// newWorld returns a main-net world with validators Acct(0..n-1) and a release function.
func newWorld(n int) (*world.World, func()) {
	poolMu.Lock()
	if poolBusy {
		poolMu.Unlock()
		return world.New(n, world.Opts{NetworkID: config.NETWORK_ID_MAIN_NET}), func() {}
	}
	poolBusy = true
	if poolStore == nil {
		st, err := leveldbstore.NewMemLevelDBStore()
		if err != nil {
			panic(err)
		}
		poolStore = st
		poolOverlay = overlaydb.NewOverlayDB(st)
	}
	st, ov := poolStore, poolOverlay
	poolMu.Unlock()
	ov.Reset()
	world.ResetGlobals(config.NETWORK_ID_MAIN_NET)
	w := &world.World{Store: st, Overlay: ov, ChainID: config.GetChainIdByNetId(config.DefConfig.P2PNode.NetworkId), Time: 1600000000}
	w.Cache = storage.NewCacheDB(ov)
	w.Validators = world.Accts(0, n)
	sink := common.NewZeroCopySink(nil)
	world.VBFTConfigFor(w.Validators, 60000).Serialization(sink)
	if r := w.Invoke(utils.NodeManagerContractAddress, "initConfig", sink.Bytes(), nil); r.Err != nil {
		panic("pccm world: genesis initConfig failed: " + r.Err.Error())
	}
	w.Height = 1
	return w, func() {
		// a case that persisted blocks (world.Persist) wrote into the shared store: drop that store (deleting
		// the keys would leave LevelDB tombstones that slow every later iteration down)
		it := st.NewIterator(nil)
		dirty := it.Next()
		it.Release()
		poolMu.Lock()
		if dirty {
			st.Close()
			poolStore, poolOverlay = nil, nil
		}
		poolBusy = false
		poolMu.Unlock()
	}
}
