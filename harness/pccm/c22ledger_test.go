package pccm

// C22, ledger unit: "failed imports commit nothing" through REAL block execution
// (ledgerstore ExecuteBlock + SubmitBlock on a main-net ledger, package lworld), with blocks of
// several really signed transactions that mix
//   - imports that fail early (no witness, not a consensus peer, unregistered source, garbage),
//   - imports that fail LATE, i.e. after MakeDepositProposal has verified them and written the
//     vote/done records (destination chain not registered or black-listed, replay),
//   - votes below quorum, accepted imports, successful probe-contract writes, failing probe
//     transactions that wrote first, registry and blacklist transactions,
//   - later retries of a late-failed import once its destination exists (accepted exactly once).
// Source router: consensus vote (needs no external proof; one transaction per validator vote).
//
// Oracle: an explicit model of registry, blacklist, votes, done set, outbound requests and probe
// storage. After every block: per-transaction success flags, the block's cross-state leaves and
// root (RFC 6962 over sha256(0x00||request) of the accepted imports, in order), the stored
// cross-state root, and the COMPLETE contract state of the cross-chain manager and of the probe
// contract (every key and value, recomputed with the harness's own encoders) must equal the model;
// any other contract key may change only in a block that holds a successful governance transaction
// and only inside the side-chain-manager / node-manager namespaces.

import (
	"bytes"
	"crypto/sha256"
	"fmt"
	"os"
	"sort"
	"testing"

	"github.com/polynetwork/poly/account"
	"github.com/polynetwork/poly/common"
	cstates "github.com/polynetwork/poly/core/states"
	"github.com/polynetwork/poly/core/store"
	"github.com/polynetwork/poly/core/types"
	"github.com/polynetwork/poly/native/event"
	scom "github.com/polynetwork/poly/native/service/cross_chain_manager/common"
	"github.com/polynetwork/poly/native/service/utils"
	"pgregory.net/rapid"

	"verif/harness/ev"
	"verif/harness/lworld"
	"verif/harness/world"
)

type l22Msg struct {
	TxHash ev.B `json:"txhash,omitempty"`
	CCID   ev.B `json:"ccid"`
	To     int  `json:"to"` // destination slot 2..4 (chain ids 102, 103; 104 is never registered)
	Args   ev.B `json:"args,omitempty"`
	ReqLen int  `json:"reqlen,omitempty"` // > 0: Args padded so that the request record is exactly ReqLen bytes
}

type l22Tx struct {
	K string `json:"k"`           // vote | import | probe | probefail | reg | apr | regfull | black | white | garbage
	C int    `json:"c,omitempty"` // chain slot 0..4 (chain id 100+slot)
	M int    `json:"m,omitempty"`
	H int    `json:"h,omitempty"`
	V int    `json:"v,omitempty"`
	S int    `json:"s,omitempty"`
}

type l22Case struct {
	N      int       `json:"n"` // validators 1..4
	Msgs   []l22Msg  `json:"msgs"`
	Blocks [][]l22Tx `json:"blocks"`
}

// slots 0,1: vote-router sources; 2,3: account-based destinations (eth / bsc router ids); 4: never registered
var l22Router = []uint64{0, 0, 2, 6, 3}

func l22ID(slot int) uint64 { return 100 + uint64(mod(slot, 5)) }

func genL22Tx(t *rapid.T) l22Tx {
	k := rapid.SampledFrom([]string{"import", "import", "import", "import", "import", "import", "vote", "vote", "probe", "probe", "probe", "probefail",
		"regfull", "reg", "apr", "black", "white", "garbage"}).Draw(t, "k")
	tx := l22Tx{K: k}
	switch k {
	case "import", "vote":
		tx.C = rapid.SampledFrom([]int{0, 0, 0, 1, 1, 2, 4}).Draw(t, "src")
		tx.M = rapid.IntRange(0, 3).Draw(t, "m")
		tx.H = rapid.IntRange(0, 1).Draw(t, "h")
		tx.V = rapid.IntRange(0, 4).Draw(t, "v")
		if k == "vote" {
			tx.S = rapid.SampledFrom([]int{0, 0, 0, 0, 7}).Draw(t, "s")
		}
	case "regfull", "reg", "apr":
		tx.C = rapid.SampledFrom([]int{2, 2, 3, 3, 0, 1}).Draw(t, "c")
		tx.V = rapid.IntRange(0, 3).Draw(t, "v")
	case "black", "white":
		tx.C = rapid.IntRange(0, 4).Draw(t, "c")
		tx.S = rapid.SampledFrom([]int{0, 0, 0, 3}).Draw(t, "s")
	case "probe", "probefail":
		tx.V = rapid.IntRange(0, 3).Draw(t, "key")
		tx.M = rapid.IntRange(0, 255).Draw(t, "val")
	}
	return tx
}

func genL22(t *rapid.T) l22Case {
	c := l22Case{N: rapid.SampledFrom([]int{1, 2, 2, 3, 4}).Draw(t, "n")}
	npool := rapid.IntRange(1, 2).Draw(t, "nccid")
	pool := make([][]byte, npool)
	for i := range pool {
		pool[i] = genBytes(0, 8).Draw(t, "ccid")
	}
	nm := rapid.IntRange(1, 4).Draw(t, "nmsgs")
	for i := 0; i < nm; i++ {
		c.Msgs = append(c.Msgs, l22Msg{TxHash: genBytes(0, 8).Draw(t, "txhash"), CCID: pool[rapid.IntRange(0, npool-1).Draw(t, "ccidx")],
			To: rapid.SampledFrom([]int{2, 2, 2, 3, 3, 4}).Draw(t, "to"), Args: genBytes(0, 24).Draw(t, "args")})
		if rapid.IntRange(0, 2).Draw(t, "sizeclass") == 0 {
			c.Msgs[i].ReqLen = rapid.SampledFrom(reqLenClasses).Draw(t, "reqlen")
		}
	}
	// bring-up: the source chains exist; the destinations usually do not yet
	setup := []l22Tx{{K: "regfull", C: 0}}
	if rapid.Bool().Draw(t, "src1") {
		setup = append(setup, l22Tx{K: "regfull", C: 1})
	}
	if rapid.IntRange(0, 3).Draw(t, "dest-early") == 0 {
		setup = append(setup, l22Tx{K: "regfull", C: 2})
	}
	c.Blocks = append(c.Blocks, setup)
	blk := rapid.SliceOfN(rapid.Custom(genL22Tx), 1, 5)
	c.Blocks = append(c.Blocks, rapid.SliceOfN(blk, 1, ev.Scale(4, 8)).Draw(t, "phase1")...)
	// the destinations get registered; the relayers try again
	c.Blocks = append(c.Blocks, []l22Tx{{K: "regfull", C: 2}, {K: "regfull", C: 3}, {K: "white", C: 2}, {K: "white", C: 3}})
	c.Blocks = append(c.Blocks, rapid.SliceOfN(blk, 1, ev.Scale(4, 8)).Draw(t, "phase2")...)
	return c
}

// ---------------------------------------------------------------------------------------------
// model

type l22Model struct {
	n, quor                    int
	applied, registered        map[int]bool
	regSigns                   map[int]map[int]bool
	black                      map[uint64]bool
	votes                      map[string]map[int]bool // vote key -> validator indices
	voteDone                   map[string]bool
	done                       map[string][]byte // done key -> cross-chain id
	requests                   map[string][]byte // request key -> record
	probe                      map[string][]byte
	msgs                       []*refMsg
	extra                      [][]byte
}

type l22Planned struct {
	tx      *types.Transaction
	ok      bool // model: the transaction succeeds
	class   string
	request []byte // accepted import: the request record (leaf = sha256(0||record))
	gov     bool
	late    bool // failed after the import had been verified (writes were made before the failure)
	apply   func(relay []byte)
}

func l22VoteInfoValue(voters []common.Address, status bool) []byte {
	keys := make([]string, len(voters))
	for i, a := range voters {
		keys[i] = a.ToBase58()
	}
	sort.Sort(sort.Reverse(sort.StringSlice(keys)))
	var o []byte
	if status {
		o = append(o, 1)
	} else {
		o = append(o, 0)
	}
	o = append(o, le64(uint64(len(keys)))...)
	for _, k := range keys {
		o = append(o, refVarBytes([]byte(k))...)
		o = append(o, 1)
	}
	return o
}

func runL22(ctx *ev.Ctx, c l22Case) {
	n := c.N
	if n < 1 {
		n = 1
	}
	if n > 4 {
		n = 4
	}
	if len(c.Msgs) == 0 {
		return
	}
	dir := lworld.TempDir("c22l")
	defer os.RemoveAll(dir)
	ch, err := lworld.Open(dir, n, 1) // main net: the vote router applies the replay check
	if err != nil {
		ctx.Failf("open ledger: %v", err)
	}
	defer ch.Close()
	m := &l22Model{n: n, quor: quorumOf(n), applied: map[int]bool{}, registered: map[int]bool{}, regSigns: map[int]map[int]bool{},
		black: map[uint64]bool{}, votes: map[string]map[int]bool{}, voteDone: map[string]bool{}, done: map[string][]byte{},
		requests: map[string][]byte{}, probe: map[string][]byte{}}
	for _, d := range c.Msgs {
		rm := &refMsg{TxHash: d.TxHash, CCID: d.CCID, To: l22ID(2 + mod(d.To-2, 3)), ToC: []byte{0xcc}, Method: []byte("unlock"), Args: d.Args}
		if d.ReqLen > 0 {
			padToRequestLen(rm, d.ReqLen, byte(len(m.msgs)))
		}
		m.msgs = append(m.msgs, rm)
		m.extra = append(m.extra, rm.encode())
	}
	ccm := utils.CrossChainManagerContractAddress
	validator := func(i int) *account.Account { return ch.Vals[mod(i, n)] }
	probeCtr := 0
	lateFailed := map[string]bool{}
	routers := map[string]int{}

	// plan one generated op into transactions (the model is advanced transaction by transaction)
	var plan func(op l22Tx) []*l22Planned
	planVote := func(src, mi, hsel, voter, sv int) (*l22Planned, bool) {
		srcID := l22ID(src)
		msg, extra := m.msgs[mi], m.extra[mi]
		height := uint32(9000 + mod(hsel, 2))
		var va *account.Account
		isVal := false
		if v := mod(voter, n+1); v < n {
			va, isVal, voter = validator(v), true, v
		} else {
			va = world.Acct(41)
		}
		signers := []*account.Account{va}
		if sv == 7 {
			signers = []*account.Account{world.Acct(40)}
		}
		it := &importTx{src: srcID, height: height, relayer: va.Address[:], extra: extra}
		p := &l22Planned{tx: ch.SignedTx(ccm, "ImportOuterTransfer", it.args(), signers), apply: func([]byte) {}}
		vk := string(voteKey(srcID, height, extra))
		switch {
		case m.black[srcID]:
			p.class = "src-blacklisted"
		case !m.registered[src]:
			p.class = "src-unregistered"
		case l22Router[mod(src, 5)] != 0:
			return nil, true // registered chain with a router this unit has no proof for: not generated
		case sv == 7:
			p.class = "no-witness"
		case m.voteDone[vk]:
			p.ok, p.class = true, "redundant-after-execution"
		case !isVal:
			p.class = "not-consensus-peer"
		default:
			vs := m.votes[vk]
			cnt := len(vs)
			if !vs[voter] {
				cnt++
			}
			if cnt < m.quor {
				p.ok = true
				if vs[voter] {
					p.class = "vote-repeated"
				} else {
					p.class = "vote-recorded"
					p.apply = func([]byte) {
						if m.votes[vk] == nil {
							m.votes[vk] = map[int]bool{}
						}
						m.votes[vk][voter] = true
					}
				}
				return p, false
			}
			dk := string(doneKey(srcID, msg.CCID))
			dst := int(msg.To - 100)
			switch {
			case l22Has(m.done, dk):
				p.class, p.late = "late:replay", true
			case m.black[msg.To]:
				p.class, p.late = "late:dest-blacklisted", true
				lateFailed[vk] = true
			case !m.registered[dst]:
				p.class, p.late = "late:dest-unregistered", true
				lateFailed[vk] = true
			default:
				p.ok, p.class = true, "accept"
				if lateFailed[vk] {
					p.class = "accept:retry-after-late-failure"
				}
				p.apply = func(relay []byte) {
					if m.votes[vk] == nil {
						m.votes[vk] = map[int]bool{}
					}
					m.votes[vk][voter] = true
					m.voteDone[vk] = true
					m.done[dk] = msg.CCID
					rec := refRequest(relay, srcID, msg)
					m.requests[string(requestKey(msg.To, relay))] = rec
					p.request = rec
					if isReqLenClass(len(rec)) {
						ctx.Label(fmt.Sprintf("accepted-request-size:%d", len(rec)))
					}
					routers["vote(ledger)"]++
				}
			}
		}
		return p, true
	}
	plan = func(op l22Tx) []*l22Planned {
		s := mod(op.C, 5)
		mi := mod(op.M, len(m.msgs))
		switch op.K {
		case "vote":
			if p, _ := planVote(s, mi, op.H, op.V, op.S); p != nil {
				return []*l22Planned{p}
			}
		case "garbage":
			a := (&importTx{src: l22ID(0), height: 1, relayer: validator(0).Address[:], extra: m.extra[0]}).args()
			return []*l22Planned{{tx: ch.SignedTx(ccm, "ImportOuterTransfer", a[:len(a)-3], []*account.Account{validator(0)}), class: "garbage-params", apply: func([]byte) {}}}
		case "probe", "probefail":
			probeCtr++
			k := []byte(fmt.Sprintf("k%d", mod(op.V, 4)))
			v := []byte{byte(op.M), byte(probeCtr)}
			steps := []lworld.Step{{Op: "put", K: k, V: v}}
			p := &l22Planned{ok: true, class: "probe-put", apply: func([]byte) { m.probe[string(k)] = v }}
			if op.K == "probefail" {
				steps = append(steps, lworld.Step{Op: "cross", K: []byte("x"), V: []byte("leaf-of-a-failing-tx")}, lworld.Step{Op: "fail"})
				p = &l22Planned{class: "probe-writes-then-fails", late: true, apply: func([]byte) {}}
			}
			p.tx = ch.SignedTx(lworld.ProbeAddress, "run", lworld.EncodeScript(steps), nil)
			return []*l22Planned{p}
		case "reg":
			p := &l22Planned{gov: true, class: "register-chain", apply: func([]byte) {}}
			p.tx = ch.GovTx(lworld.GovOp{Op: "regchain", ID: uint64(s), A: s, R: l22Router[s]})
			if !m.applied[s] && !m.registered[s] {
				p.ok = true
				p.apply = func([]byte) { m.applied[s] = true }
			}
			return []*l22Planned{p}
		case "apr":
			v := mod(op.V, n)
			p := &l22Planned{gov: true, class: "approve-chain", apply: func([]byte) {}}
			p.tx = ch.GovTx(lworld.GovOp{Op: "approvechain", ID: uint64(s), V: v})
			if m.applied[s] {
				p.ok = true
				p.apply = func([]byte) {
					if m.regSigns[s] == nil {
						m.regSigns[s] = map[int]bool{}
					}
					m.regSigns[s][v] = true
					if len(m.regSigns[s]) >= m.quor {
						m.registered[s], m.applied[s] = true, false
						delete(m.regSigns, s)
					}
				}
			}
			return []*l22Planned{p}
		case "black", "white":
			sk := common.NewZeroCopySink(nil)
			(&scom.BlackChainParam{ChainID: l22ID(s)}).Serialization(sk)
			method := map[string]string{"black": "BlackChain", "white": "WhiteChain"}[op.K]
			p := &l22Planned{class: op.K + "-chain", apply: func([]byte) {}}
			if op.S == 3 {
				p.class += ":no-operator-witness"
				p.tx = ch.SignedTx(ccm, method, sk.Bytes(), []*account.Account{world.Acct(42)})
			} else {
				cons := ch.Vals
				sorted := append([]*account.Account{}, cons...)
				sort.Slice(sorted, func(i, j int) bool { return world.PubHex(sorted[i]) < world.PubHex(sorted[j]) })
				p.tx = ch.MultiSigTx(ccm, method, sk.Bytes(), sorted, n-(n-1)/3)
				p.ok = true
				id, b := l22ID(s), op.K == "black"
				p.apply = func([]byte) { m.black[id] = b }
			}
			return []*l22Planned{p}
		}
		return nil
	}

	for bi, ops := range c.Blocks {
		// transactions are planned against the model state as it will be when they execute, so the
		// model is advanced while the block is being assembled
		var planned []*l22Planned
		add := func(p *l22Planned) {
			if p == nil {
				return
			}
			relay := p.tx.Hash()
			if p.ok {
				p.apply(relay.ToArray())
			}
			ctx.Label("tx:" + p.class)
			planned = append(planned, p)
		}
		for _, op := range ops {
			switch op.K {
			case "import":
				for i := 0; i < n; i++ {
					p, fin := planVote(mod(op.C, 5), mod(op.M, len(m.msgs)), op.H, mod(op.V+i, n), 0)
					add(p)
					if fin {
						break
					}
				}
			case "regfull":
				s := mod(op.C, 5)
				if !m.applied[s] && !m.registered[s] {
					for _, p := range plan(l22Tx{K: "reg", C: s}) {
						add(p)
					}
				}
				for v := 0; v < n && m.applied[s]; v++ {
					for _, p := range plan(l22Tx{K: "apr", C: s, V: v}) {
						add(p)
					}
				}
			default:
				for _, p := range plan(op) {
					add(p)
				}
			}
		}
		if len(planned) == 0 {
			continue
		}
		var txs []*types.Transaction
		var wantLeaves []common.Uint256
		govOK, lateSeen := false, false
		for _, p := range planned {
			txs = append(txs, p.tx)
			if p.request != nil {
				wantLeaves = append(wantLeaves, common.Uint256(sha256.Sum256(append([]byte{0}, p.request...))))
			}
			govOK = govOK || (p.gov && p.ok)
			if p.ok && lateSeen {
				ctx.NonTrivial()
				ctx.Label("block:late-failing-tx-then-successful-tx")
			}
			lateSeen = lateSeen || (p.late && !p.ok)
		}
		before := lworld.SortedDump(ch.Store.VerifStateDump())
		b := lworld.Roundtrip(ch.Build(txs, lworld.BlockOpt{}))
		var res store.ExecuteResult
		if pn := ev.Catch(func() { res, err = ch.Store.ExecuteBlock(b) }); pn != "" {
			ctx.Failf("block %d: ExecuteBlock panicked: %s", bi+1, pn)
		}
		if err != nil {
			ctx.Failf("block %d: ExecuteBlock: %v", bi+1, err)
		}
		if len(res.Notify) != len(planned) {
			ctx.Failf("block %d: %d execution results for %d transactions", bi+1, len(res.Notify), len(planned))
		}
		for i, p := range planned {
			if got := res.Notify[i].State == event.CONTRACT_STATE_SUCCESS; got != p.ok {
				ctx.Failf("block %d tx %d (%s): executed with success=%v, model says %v", bi+1, i, p.class, got, p.ok)
			}
		}
		if len(res.CrossHashes) != len(wantLeaves) {
			ctx.Failf("block %d: %d cross-state leaves, the accepted imports give %d", bi+1, len(res.CrossHashes), len(wantLeaves))
		}
		for i := range wantLeaves {
			if res.CrossHashes[i] != wantLeaves[i] {
				ctx.Failf("block %d: cross-state leaf %d is not sha256(0x00 || request record) of accepted import %d", bi+1, i, i)
			}
		}
		wantRoot := common.UINT256_EMPTY
		if len(wantLeaves) > 0 {
			wantRoot = lworld.MTHLeafHashes(wantLeaves)
		}
		if res.CrossStatesRoot != wantRoot {
			ctx.Failf("block %d: cross-state root %x is not the tree hash of the accepted imports' requests (%x)", bi+1, res.CrossStatesRoot, wantRoot)
		}
		if err := ch.Store.SubmitBlock(b, res); err != nil {
			ctx.Failf("block %d: SubmitBlock: %v", bi+1, err)
		}
		ch.NoteCommitted(b)
		if r, err := ch.Store.GetCrossStateRoot(b.Header.Height); err != nil || r != wantRoot {
			ctx.Failf("block %d: stored cross-state root %x (err %v), want %x", bi+1, r, err, wantRoot)
		}
		// the next header carries this root (what side chains verify requests against)
		if nb := ch.Build(nil, lworld.BlockOpt{}); nb.Header.CrossStateRoot != wantRoot {
			ctx.Failf("block %d: the following header would carry cross-state root %x, want %x", bi+1, nb.Header.CrossStateRoot, wantRoot)
		}
		after := lworld.SortedDump(ch.Store.VerifStateDump())
		l22CheckState(ctx, bi+1, m, ch, before, after, govOK)
	}
	routerMu.Lock()
	for k, v := range routers {
		routerStats[fC22][k] += v
	}
	cp := map[string]int{}
	for k, v := range routerStats[fC22] {
		cp[k] = v
	}
	routerMu.Unlock()
	ev.Get(propID("C22")).Extra("routers_accepted_imports", cp)
}

// l22CheckState: complete cross-chain-manager and probe state == model; other contract keys change
// only with a successful governance transaction, inside the governance namespaces.
func l22CheckState(ctx *ev.Ctx, height int, m *l22Model, ch *lworld.Chain, before, after [][2][]byte, govOK bool) {
	ccmP := append([]byte{0x05}, utils.CrossChainManagerContractAddress[:]...)
	probeP := append([]byte{0x05}, lworld.ProbeAddress[:]...)
	scmP := append([]byte{0x05}, utils.SideChainManagerContractAddress[:]...)
	nmP := append([]byte{0x05}, utils.NodeManagerContractAddress[:]...)
	want := map[string][]byte{} // contract key (address || suffix) -> value
	for k, v := range m.requests {
		want[k] = v
	}
	for k, v := range m.done {
		want[k] = v
	}
	for id, b := range m.black {
		if b {
			want[string(blackKey(id))] = le64(id)
		}
	}
	for vk, vs := range m.votes {
		if len(vs) == 0 {
			continue
		}
		var addrs []common.Address
		for v := range vs {
			addrs = append(addrs, ch.Vals[v].Address)
		}
		want[vk] = l22VoteInfoValue(addrs, m.voteDone[vk])
	}
	for k, v := range m.probe {
		want[string(lworld.ProbeAddress[:])+k] = v
	}
	seen := map[string]bool{}
	for _, kv := range after {
		k := kv[0]
		if !bytes.HasPrefix(k, ccmP) && !bytes.HasPrefix(k, probeP) {
			continue
		}
		ck := string(k[1:])
		val, err := cstates.GetValueFromRawStorageItem(kv[1])
		if err != nil {
			ctx.Failf("block %d: state key %x holds no storage item: %v", height, k, err)
		}
		w, ok := want[ck]
		if !ok {
			ctx.Failf("block %d: state holds key %s (value %x) that no successful transaction wrote - residue of a failed transaction?", height, l22KeyName(k[1:]), clip(val))
		}
		if !bytes.Equal(w, val) {
			ctx.Failf("block %d: state key %s = %x, model %x", height, l22KeyName(k[1:]), clip(val), clip(w))
		}
		seen[ck] = true
	}
	for k := range want {
		if !seen[k] {
			ctx.Failf("block %d: key %s written by a successful transaction is missing from the state", height, l22KeyName([]byte(k)))
		}
	}
	// every other contract key: unchanged, unless a governance transaction succeeded
	bm := map[string][]byte{}
	for _, kv := range before {
		bm[string(kv[0])] = kv[1]
	}
	check := func(k []byte) {
		if len(k) == 0 || k[0] != 0x05 || bytes.HasPrefix(k, ccmP) || bytes.HasPrefix(k, probeP) {
			return
		}
		if govOK && (bytes.HasPrefix(k, scmP) || bytes.HasPrefix(k, nmP)) {
			return
		}
		ctx.Failf("block %d: contract key %x changed although no successful transaction of the block writes there", height, clip(k))
	}
	for _, kv := range after {
		if v, ok := bm[string(kv[0])]; !ok || !bytes.Equal(v, kv[1]) {
			check(kv[0])
		}
		delete(bm, string(kv[0]))
	}
	for k := range bm {
		check([]byte(k))
	}
}

func l22Has(m map[string][]byte, k string) bool { _, ok := m[k]; return ok }

func l22KeyName(k []byte) string {
	if len(k) < 20 {
		return fmt.Sprintf("%x", k)
	}
	suffix := k[20:]
	for _, p := range []string{"request", "doneTx", "voteInfo", "BlackedChain"} {
		if bytes.HasPrefix(suffix, []byte(p)) {
			return fmt.Sprintf("%s|%x", p, suffix[len(p):])
		}
	}
	return fmt.Sprintf("%x|%q", k[:20], suffix)
}

func TestC22Ledger(t *testing.T) {
	id := propID("C22")
	ev.Get(id).Extra("ledger_unit", "pccm.TestC22Ledger: real block execution (ExecuteBlock+SubmitBlock), multi-transaction blocks, vote router")
	ev.Drive(t, id,
		"ledger unit: main-net ledger with 1..4 validators; blocks of 1..5 operations expanded into really signed transactions: vote-router imports (single votes or to quorum) "+
			"of 1..4 messages with colliding cross-chain ids towards destinations that are unregistered at first, registered in a middle block, never registered, or black-listed; "+
			"early failures (no witness, outsider, unregistered source, truncated parameters), late failures (destination unregistered / black-listed, replay), probe-contract puts, "+
			"probe transactions that write and emit a leaf and then fail, register/approve and BlackChain/WhiteChain transactions; retries after the destination exists. "+
			"After every block: tx success flags, cross-state leaves/root, stored root, next header's root and the complete cross-chain-manager + probe state equal the model. "+
			"non-trivial: a block in which a transaction that fails after having written (late-failing import, failing probe) is followed by a successful transaction; distinct by JSON of the case",
		genL22, runL22)
}
