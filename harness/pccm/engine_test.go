package pccm

// Shared history engine of C20 / C21 / C22: a generated history (chain registrations through the
// real side_chain_manager flow, blacklist operations, trust-root installs, imports) is executed
// transaction by transaction on the real native contracts (L1 world, main-net network id) and
// every transaction's outcome and complete state delta is compared with an explicit model
// (registry, blacklist, votes, done set, expected request record) that is written from the
// property statements, not from the code: keys and encodings are re-derived here with the
// harness's own encoders.

import (
	"bytes"
	"crypto/sha256"
	"encoding/binary"
	"fmt"
	"math/big"
	"sort"
	"sync"

	"github.com/polynetwork/poly/common"
	scom "github.com/polynetwork/poly/native/service/cross_chain_manager/common"
	"github.com/polynetwork/poly/native/service/governance/side_chain_manager"
	hscom "github.com/polynetwork/poly/native/service/header_sync/common"
	"github.com/polynetwork/poly/native/service/utils"

	"verif/harness/ev"
	"verif/harness/world"
)

// router ids, restated from the protocol description (native/service/utils/params.go)
const (
	rVote   = uint64(0)
	rBTC    = uint64(1)
	rETH    = uint64(2)
	rBSC    = uint64(6)
	rHECO   = uint64(7)
	rPIXIE  = uint64(19)
	rHSC    = uint64(20)
	rBYTOM  = uint64(22)
	rRIPPLE = uint64(23)

	// main-net activation height of the gated routers (HARMONY, HSC, BYTOM)
	routerStartBlock = uint32(18823000)
)

var routerName = map[uint64]string{rVote: "vote", rETH: "eth", rBSC: "bsc", rHECO: "heco", rPIXIE: "pixie", rHSC: "hsc",
	rBYTOM: "bytom", rRIPPLE: "ripple-vote", rQUORUM: "quorum"}

// routers for which this package has no honest proof builder: never used as an import source
var routersNotExercised = []string{"btc", "ont", "neo", "neo3", "cosmos", "okex", "zilliqa", "zilliqalegacy", "msc",
	"polygon-bor", "starcoin", "harmony(stubbed: cgo)"}

// account-based routers used only as destination of messages (the destination's router id must not matter)
var destOnlyRouters = []uint64{3, 4, 5, 9, 10, 12, 14, 16, 17, 18, 21}

func isVoteFamily(r uint64) bool { return r == rVote || r == rRIPPLE }
func isEVM(r uint64) bool {
	// go-ethereum-trie routers with a builder here; quorum (Istanbul) carries its header with the import
	return r == rETH || r == rBSC || r == rHECO || r == rPIXIE || r == rHSC || r == rBYTOM || r == rQUORUM
}
func isGated(r uint64) bool      { return r == rHSC || r == rBYTOM }
func sourceCapable(r uint64) bool { return isVoteFamily(r) || isEVM(r) }

var heightTable = []uint32{20000000, 1000, routerStartBlock - 1, routerStartBlock, routerStartBlock + 1, 19954184, 19954185, 30000000}

// ---------------------------------------------------------------------------------------------
// case data

type chainDef struct {
	ID     uint64 `json:"id"`
	Router uint64 `json:"router"`
}

type msgDef struct {
	TxHash  ev.B   `json:"txhash"`
	CCID    ev.B   `json:"ccid"`
	From    ev.B   `json:"from,omitempty"`
	To      int    `json:"to"`              // destination: chain slot (mod pool size) ...
	ToRaw   uint64 `json:"toraw,omitempty"` // ... or, if non-zero, a raw chain id
	ToC     ev.B   `json:"toc,omitempty"`
	Method  ev.B   `json:"method,omitempty"`
	Args    ev.B   `json:"args,omitempty"`
	ArgsLen int    `json:"argslen,omitempty"` // > 0: args are ArgsLen derived bytes (keeps cases small)
	RDst    ev.B   `json:"rdst,omitempty"`    // Ripple-style args: var-bytes(RDst) || u64(RAmt)
	RAmt    uint64 `json:"ramt,omitempty"`
	RArgs   bool   `json:"rargs,omitempty"`
	ReqLen  int    `json:"reqlen,omitempty"` // > 0: Args are padded so that the outbound request record is exactly ReqLen bytes
}

type opDef struct {
	K string `json:"k"`
	C int    `json:"c,omitempty"` // chain slot
	M int    `json:"m,omitempty"` // message index
	V int    `json:"v,omitempty"` // validator / voter
	H int    `json:"h,omitempty"` // height selector
	S int    `json:"s,omitempty"` // signer variant
	X int    `json:"x,omitempty"` // proof variant / bit mask
}

type histCase struct {
	N      int        `json:"n"`  // consensus validators
	H0     int        `json:"h0"` // initial height selector
	Chains []chainDef `json:"chains"`
	Msgs   []msgDef   `json:"msgs"`
	Ops    []opDef    `json:"ops"`
	// Persist: every block change flushes the block overlay into the backing store (World.PersistBlocks),
	// so later blocks overwrite / delete PERSISTED records
	Persist bool `json:"persist,omitempty"`
}

// ---------------------------------------------------------------------------------------------
// reference encoders (wire format restated, independent of the code under test)

func le64(v uint64) []byte { b := make([]byte, 8); binary.LittleEndian.PutUint64(b, v); return b }
func le32(v uint32) []byte { b := make([]byte, 4); binary.LittleEndian.PutUint32(b, v); return b }

func refVarUint(v uint64) []byte {
	switch {
	case v < 0xFD:
		return []byte{byte(v)}
	case v <= 0xFFFF:
		return append([]byte{0xFD}, le64(v)[:2]...)
	case v <= 0xFFFFFFFF:
		return append([]byte{0xFE}, le64(v)[:4]...)
	}
	return append([]byte{0xFF}, le64(v)...)
}

func refVarBytes(b []byte) []byte { return append(refVarUint(uint64(len(b))), b...) }

type refMsg struct {
	TxHash, CCID, From []byte
	To                 uint64
	ToC, Method, Args  []byte
}

func (m *refMsg) encode() []byte {
	var o []byte
	o = append(o, refVarBytes(m.TxHash)...)
	o = append(o, refVarBytes(m.CCID)...)
	o = append(o, refVarBytes(m.From)...)
	o = append(o, le64(m.To)...)
	o = append(o, refVarBytes(m.ToC)...)
	o = append(o, refVarBytes(m.Method)...)
	o = append(o, refVarBytes(m.Args)...)
	return o
}

// refRequest is the outbound request record: relay tx hash, source chain, message.
func refRequest(relayTx []byte, src uint64, m *refMsg) []byte {
	o := refVarBytes(relayTx)
	o = append(o, le64(src)...)
	return append(o, m.encode()...)
}

// parseVarBytesU64 parses var-bytes || u64 from the front of b (the Ripple argument layout).
func parseVarBytesU64(b []byte) (dst []byte, amt uint64, ok bool) {
	if len(b) < 1 {
		return nil, 0, false
	}
	var n uint64
	switch b[0] {
	case 0xFD:
		if len(b) < 3 {
			return nil, 0, false
		}
		n, b = uint64(binary.LittleEndian.Uint16(b[1:])), b[3:]
	case 0xFE:
		if len(b) < 5 {
			return nil, 0, false
		}
		n, b = uint64(binary.LittleEndian.Uint32(b[1:])), b[5:]
	case 0xFF:
		if len(b) < 9 {
			return nil, 0, false
		}
		n, b = binary.LittleEndian.Uint64(b[1:]), b[9:]
	default:
		n, b = uint64(b[0]), b[1:]
	}
	if n > uint64(len(b)) {
		return nil, 0, false
	}
	dst, b = b[:n], b[n:]
	if len(b) < 8 {
		return nil, 0, false
	}
	return dst, binary.LittleEndian.Uint64(b), true
}

func ccmKey(parts ...[]byte) []byte {
	k := append([]byte(nil), utils.CrossChainManagerContractAddress[:]...)
	for _, p := range parts {
		k = append(k, p...)
	}
	return k
}

func requestKey(to uint64, relayTx []byte) []byte { return ccmKey([]byte("request"), le64(to), relayTx) }
func doneKey(src uint64, ccid []byte) []byte      { return ccmKey([]byte("doneTx"), le64(src), ccid) }
func blackKey(id uint64) []byte                   { return ccmKey([]byte("BlackedChain"), le64(id)) }
func voteKey(src uint64, height uint32, extra []byte) []byte {
	// id = sha256(EntranceParam{src, height, proof:"", relayer:"", extra, header:""})
	var p []byte
	p = append(p, le64(src)...)
	p = append(p, le32(height)...)
	p = append(p, 0, 0)
	p = append(p, refVarBytes(extra)...)
	p = append(p, 0)
	id := sha256.Sum256(p)
	return ccmKey([]byte("voteInfo"), id[:])
}

func fill(n int, seed byte) []byte {
	b := make([]byte, n)
	for i := range b {
		b[i] = byte(i*13) ^ seed
	}
	return b
}

// ---------------------------------------------------------------------------------------------
// engine

type focus int

const (
	fC20 focus = iota
	fC21
	fC22
)

type acceptedRec struct {
	height uint32
	extra  []byte
	proofV int
}

type engine struct {
	ctx   *ev.Ctx
	f     focus
	c     histCase
	w     *world.World
	n     int
	quor  int
	slotOf map[uint64]int
	msgs  []*refMsg // resolved pool messages (as submitted)
	extra [][]byte  // their encodings
	evm   map[int]*evmChain

	// model
	applied, registered, genesis map[int]bool
	regSigns, quitSigns          map[int]map[int]bool
	quitFresh, quitEver          map[int]bool
	black                        map[uint64]bool
	assets                       map[int]map[uint64]bool
	votes                        map[string]map[int]bool
	voteDone                     map[string]bool
	done                         map[string]bool
	accepted                     map[string]acceptedRec
	acceptedInBlock              int
	ccids                        [][]byte
	routersSeen                  map[string]int
	release                      func()
	btw                          map[int]uint64
}

var (
	routerMu    sync.Mutex
	routerStats = map[focus]map[string]int{fC20: {}, fC21: {}, fC22: {}}
)

func validatorAcct(i int) common.Address { return world.Acct(i).Address }
func ownerOf(slot int) common.Address    { return world.Acct(20 + slot).Address }
func outsider(i int) common.Address      { return world.Acct(40 + i%4).Address }
func ccmcOf(slot int) []byte {
	h := sha256.Sum256([]byte(fmt.Sprintf("ccmc-%d", slot)))
	return h[:20]
}

func quorumOf(n int) int { // smallest k with 3k >= 2n
	k := 0
	for 3*k < 2*n {
		k++
	}
	return k
}

func newEngine(ctx *ev.Ctx, f focus, c histCase) *engine {
	e := &engine{ctx: ctx, f: f, c: c, n: c.N, slotOf: map[uint64]int{}, evm: map[int]*evmChain{},
		applied: map[int]bool{}, registered: map[int]bool{}, genesis: map[int]bool{},
		regSigns: map[int]map[int]bool{}, quitSigns: map[int]map[int]bool{}, quitFresh: map[int]bool{}, quitEver: map[int]bool{},
		black: map[uint64]bool{}, assets: map[int]map[uint64]bool{}, votes: map[string]map[int]bool{}, voteDone: map[string]bool{},
		done: map[string]bool{}, accepted: map[string]acceptedRec{}, routersSeen: map[string]int{}}
	if e.n < 2 {
		e.n = 2
	}
	if e.n > 10 {
		e.n = 10
	}
	e.quor = quorumOf(e.n)
	e.release = func() {}
	for i, ch := range c.Chains {
		if _, dup := e.slotOf[ch.ID]; dup {
			ctx.Failf("harness: duplicate chain id %d in pool", ch.ID)
		}
		e.slotOf[ch.ID] = i
	}
	e.w, e.release = newWorld(e.n)
	e.w.Height = heightTable[mod(c.H0, len(heightTable))]
	e.w.PersistBlocks = c.Persist
	seen := map[string]bool{}
	for i := range c.Msgs {
		m := e.resolveMsg(i)
		e.msgs = append(e.msgs, m)
		e.extra = append(e.extra, m.encode())
		if !seen[string(m.CCID)] {
			seen[string(m.CCID)] = true
			e.ccids = append(e.ccids, m.CCID)
		}
	}
	return e
}

func mod(a, n int) int {
	if n <= 0 {
		return 0
	}
	a %= n
	if a < 0 {
		a += n
	}
	return a
}

func (e *engine) resolveMsg(i int) *refMsg {
	d := e.c.Msgs[i]
	m := &refMsg{TxHash: d.TxHash, CCID: d.CCID, From: d.From, ToC: d.ToC, Method: d.Method}
	if d.ToRaw != 0 {
		m.To = d.ToRaw
	} else {
		m.To = e.c.Chains[mod(d.To, len(e.c.Chains))].ID
	}
	switch {
	case d.RArgs:
		m.Args = append(refVarBytes(d.RDst), le64(d.RAmt)...)
	case d.ArgsLen > 0:
		m.Args = fill(d.ArgsLen, byte(i))
	default:
		m.Args = d.Args
	}
	if d.ReqLen > 0 {
		padToRequestLen(m, d.ReqLen, byte(i))
	}
	return m
}

// request-record sizes at which buffers, length prefixes and tree hashing switch regime
var reqLenClasses = []int{255, 256, 257, 511, 512, 513, 1023, 1024, 1025, 4095, 4096, 65535, 65536}

func isReqLenClass(n int) bool {
	for _, c := range reqLenClasses {
		if c == n {
			return true
		}
	}
	return false
}

// padToRequestLen replaces m.Args by derived bytes such that the request record
// (var-bytes(32-byte relay tx hash) || u64 source chain || message) is exactly total bytes long.
// Lengths the var-bytes prefix cannot hit (prefix switch at 0xFD / 0x10000) are reached by lengthening
// the method name by one or two bytes. Returns false (message untouched) if total is too small.
func padToRequestLen(m *refMsg, total int, seed byte) bool {
	saved := m.Args
	m.Args = nil
	base := 33 + 8 + len(m.encode()) - 1 // without the length prefix of Args
	for extra := 0; extra <= 2; extra++ {
		for _, pre := range []int{1, 3, 5} {
			n := total - base - extra - pre
			if n >= 0 && len(refVarUint(uint64(n))) == pre {
				m.Method = append(append([]byte(nil), m.Method...), bytes.Repeat([]byte{'m'}, extra)...)
				m.Args = fill(n, seed)
				return true
			}
		}
	}
	m.Args = saved
	return false
}

func (e *engine) isRegisteredID(id uint64) bool {
	s, ok := e.slotOf[id]
	return ok && e.registered[s]
}

func (e *engine) routerOfID(id uint64) uint64 { return e.c.Chains[e.slotOf[id]].Router }

func doneK(src uint64, ccid []byte) string { return fmt.Sprintf("%d|%x", src, ccid) }

// --- low-level execution ----------------------------------------------------------------------

type delta struct {
	added, changed, removed map[string][]byte // key -> new value (added/changed) or old value (removed)
}

// storeKey strips the one-byte contract-storage namespace (0x05) the state store puts in front of
// contract keys, so that deltas are expressed in contract keys (address || suffix).
func storeKey(k []byte) string {
	if len(k) > 0 && k[0] == 0x05 {
		return string(k[1:])
	}
	return "raw:" + string(k)
}

func diff(a, b [][2][]byte) delta {
	d := delta{added: map[string][]byte{}, changed: map[string][]byte{}, removed: map[string][]byte{}}
	am := map[string][]byte{}
	for _, kv := range a {
		am[storeKey(kv[0])] = kv[1]
	}
	for _, kv := range b {
		k := storeKey(kv[0])
		v, ok := am[k]
		if !ok {
			d.added[k] = kv[1]
		} else if !bytes.Equal(v, kv[1]) {
			d.changed[k] = kv[1]
		}
		delete(am, k)
	}
	for k, v := range am {
		d.removed[k] = v
	}
	return d
}

func (d delta) empty() bool { return len(d.added)+len(d.changed)+len(d.removed) == 0 }
func (d delta) String() string {
	var parts []string
	for k := range d.added {
		parts = append(parts, fmt.Sprintf("+%x", clip([]byte(k))))
	}
	for k := range d.changed {
		parts = append(parts, fmt.Sprintf("~%x", clip([]byte(k))))
	}
	for k := range d.removed {
		parts = append(parts, fmt.Sprintf("-%x", clip([]byte(k))))
	}
	sort.Strings(parts)
	return fmt.Sprint(parts)
}

func clip(b []byte) []byte {
	if len(b) > 80 {
		return b[:80]
	}
	return b
}

// exec runs one transaction and returns result + state delta of the block layer.
func (e *engine) exec(contract common.Address, method string, args []byte, signers []common.Address) (world.Result, delta) {
	before := e.w.Dump()
	res := e.w.Invoke(contract, method, args, signers)
	after := e.w.Dump()
	if res.Panic != "" {
		e.ctx.Failf("%s panicked inside transaction execution: %s", method, res.Panic)
	}
	return res, diff(before, after)
}

// expectFail: the transaction must report failure and leave the complete state unchanged.
func (e *engine) expectFail(what string, res world.Result, d delta) {
	if res.OK() {
		e.ctx.Failf("%s: expected rejection, but the transaction succeeded (delta %v)", what, d)
	}
	if !d.empty() {
		e.ctx.Failf("%s: rejected (%v) but state changed: %v", what, res.Err, d)
	}
	if len(res.CrossHashes) != 0 {
		e.ctx.Failf("%s: rejected but cross-state leaves were emitted", what)
	}
}

func (e *engine) expectOK(what string, res world.Result) {
	if !res.OK() {
		e.ctx.Failf("%s: expected success, got error: %v", what, res.Err)
	}
}

// --- governance ops ---------------------------------------------------------------------------

func (e *engine) slot(c int) int { return mod(c, len(e.c.Chains)) }

// blocksToWait: 1 in the history checks (one trust-root header); the C23 unit sets it per chain
func (e *engine) blocksToWait(s int) uint64 {
	if v, ok := e.btw[s]; ok {
		return v
	}
	return 1
}

func (e *engine) opReg(s int) {
	ch := e.c.Chains[s]
	var extra []byte
	if ch.Router == rRIPPLE {
		x := &side_chain_manager.RippleExtraInfo{Operator: ownerOf(s), Sequence: 1, Quorum: 1, SignerNum: 1,
			Pks: [][]byte{{2, 3, 4}}, ReserveAmount: big.NewInt(0)}
		sk := common.NewZeroCopySink(nil)
		x.Serialization(sk)
		extra = sk.Bytes()
	}
	p := &side_chain_manager.RegisterSideChainParam{Address: ownerOf(s), ChainId: ch.ID, Router: ch.Router,
		Name: fmt.Sprintf("chain-%d", ch.ID), BlocksToWait: e.blocksToWait(s), CCMCAddress: ccmcOf(s), ExtraInfo: extra}
	sk := common.NewZeroCopySink(nil)
	p.Serialization(sk)
	res, d := e.exec(utils.SideChainManagerContractAddress, "registerSideChain", sk.Bytes(), []common.Address{ownerOf(s)})
	if e.applied[s] || e.registered[s] {
		e.expectFail(fmt.Sprintf("registerSideChain(%d) while applied/registered", ch.ID), res, d)
		return
	}
	e.expectOK(fmt.Sprintf("registerSideChain(%d)", ch.ID), res)
	e.applied[s] = true
}

func chainidParam(id uint64, a common.Address) []byte {
	p := &side_chain_manager.ChainidParam{Chainid: id, Address: a}
	sk := common.NewZeroCopySink(nil)
	p.Serialization(sk)
	return sk.Bytes()
}

func (e *engine) opApproveReg(s, v int) {
	ch := e.c.Chains[s]
	v = mod(v, e.n)
	res, d := e.exec(utils.SideChainManagerContractAddress, "approveRegisterSideChain", chainidParam(ch.ID, validatorAcct(v)),
		[]common.Address{validatorAcct(v)})
	if !e.applied[s] {
		e.expectFail(fmt.Sprintf("approveRegisterSideChain(%d) without application", ch.ID), res, d)
		return
	}
	e.expectOK(fmt.Sprintf("approveRegisterSideChain(%d)", ch.ID), res)
	if e.regSigns[s] == nil {
		e.regSigns[s] = map[int]bool{}
	}
	e.regSigns[s][v] = true
	if len(e.regSigns[s]) >= e.quor {
		e.registered[s], e.applied[s] = true, false
		delete(e.regSigns, s)
	}
}

func (e *engine) opRegFull(s int) {
	if !e.applied[s] && !e.registered[s] {
		e.opReg(s)
	}
	for v := 0; v < e.n && e.applied[s]; v++ {
		e.opApproveReg(s, v)
	}
}

func (e *engine) opQuit(s int) {
	ch := e.c.Chains[s]
	res, d := e.exec(utils.SideChainManagerContractAddress, "quitSideChain", chainidParam(ch.ID, ownerOf(s)), []common.Address{ownerOf(s)})
	if !e.registered[s] {
		e.expectFail(fmt.Sprintf("quitSideChain(%d) of unregistered chain", ch.ID), res, d)
		return
	}
	e.expectOK(fmt.Sprintf("quitSideChain(%d)", ch.ID), res)
	e.quitFresh[s], e.quitEver[s] = true, true
}

func (e *engine) opApproveQuit(s, v int) {
	ch := e.c.Chains[s]
	v = mod(v, e.n)
	if !e.quitFresh[s] && e.quitEver[s] {
		// a quit request of an earlier round may still be stored (request record handling is the
		// subject of another property); not judged here
		e.ctx.Label("skip:approve-quit-after-earlier-round")
		return
	}
	res, d := e.exec(utils.SideChainManagerContractAddress, "approveQuitSideChain", chainidParam(ch.ID, validatorAcct(v)),
		[]common.Address{validatorAcct(v)})
	if !e.quitFresh[s] {
		e.expectFail(fmt.Sprintf("approveQuitSideChain(%d) without request", ch.ID), res, d)
		return
	}
	e.expectOK(fmt.Sprintf("approveQuitSideChain(%d)", ch.ID), res)
	if e.quitSigns[s] == nil {
		e.quitSigns[s] = map[int]bool{}
	}
	e.quitSigns[s][v] = true
	if len(e.quitSigns[s]) >= e.quor {
		e.registered[s], e.quitFresh[s] = false, false
		delete(e.quitSigns, s)
	}
}

func (e *engine) opQuitFull(s int) {
	if !e.registered[s] {
		return
	}
	e.opQuit(s)
	for v := 0; v < e.n && e.quitFresh[s]; v++ {
		e.opApproveQuit(s, v)
	}
}

// registerAsset for a Ripple-router source chain: binds asset and lock proxy for destinations.
func (e *engine) opAsset(s int, mask int) {
	ch := e.c.Chains[s]
	if ch.Router != rRIPPLE {
		return
	}
	am, lm := map[uint64][]byte{}, map[uint64][]byte{}
	for i, d := range e.c.Chains {
		if mask&(1<<uint(i)) != 0 && d.ID != ch.ID {
			am[d.ID] = rippleAsset(ch.ID, d.ID)
			lm[d.ID] = rippleProxy(ch.ID, d.ID)
		}
	}
	p := &side_chain_manager.RegisterAssetParam{OperatorAddress: ownerOf(s), ChainId: ch.ID, AssetMap: am, LockProxyMap: lm}
	sk := common.NewZeroCopySink(nil)
	p.Serialization(sk)
	res, d := e.exec(utils.SideChainManagerContractAddress, "registerAsset", sk.Bytes(), []common.Address{ownerOf(s)})
	if !e.registered[s] {
		e.expectFail(fmt.Sprintf("registerAsset(%d) for unregistered chain", ch.ID), res, d)
		return
	}
	e.expectOK(fmt.Sprintf("registerAsset(%d)", ch.ID), res)
	if e.assets[s] == nil {
		e.assets[s] = map[uint64]bool{}
	}
	for k := range am {
		e.assets[s][k] = true
	}
}

func rippleAsset(src, dst uint64) []byte { return []byte(fmt.Sprintf("asset-%d-%d", src, dst)) }
func rippleProxy(src, dst uint64) []byte { return []byte(fmt.Sprintf("proxy-%d-%d", src, dst)) }

func (e *engine) gateOpen(router uint64) bool {
	return !isGated(router) || e.w.Height >= routerStartBlock
}

func (e *engine) chainOf(s int) *evmChain {
	if c, ok := e.evm[s]; ok {
		return c
	}
	c := buildEVMChain(ccmcOf(s), e.extra, s+int(e.c.Chains[s].ID%97))
	e.evm[s] = c
	return c
}

// trust-root install through the real header_sync entrance
func (e *engine) opGenesis(s int, signer int) {
	ch := e.c.Chains[s]
	if !isEVM(ch.Router) {
		return
	}
	p := &hscom.SyncGenesisHeaderParam{ChainID: ch.ID, GenesisHeader: e.chainOf(s).genesisPayload(ch.Router)}
	sk := common.NewZeroCopySink(nil)
	p.Serialization(sk)
	signers := []common.Address{e.w.Operator()}
	if signer%4 == 3 {
		signers = []common.Address{outsider(0), validatorAcct(0)}
	}
	res, d := e.exec(utils.HeaderSyncContractAddress, "syncGenesisHeader", sk.Bytes(), signers)
	what := fmt.Sprintf("syncGenesisHeader(chain %d, router %s)", ch.ID, routerName[ch.Router])
	if !e.registered[s] || !e.gateOpen(ch.Router) || signer%4 == 3 || e.genesis[s] {
		e.expectFail(what+" [unregistered / inactive router / no operator witness / already installed]", res, d)
		return
	}
	e.expectOK(what, res)
	e.genesis[s] = true
}

func (e *engine) opBlackWhite(black bool, id uint64, signer int) {
	sk := common.NewZeroCopySink(nil)
	(&scom.BlackChainParam{ChainID: id}).Serialization(sk)
	var signers []common.Address
	switch signer % 4 {
	case 0, 1:
		signers = []common.Address{e.w.Operator()}
	case 2:
		signers = []common.Address{validatorAcct(0), ownerOf(0)}
	case 3:
		signers = []common.Address{outsider(1)}
	}
	method := "WhiteChain"
	if black {
		method = "BlackChain"
	}
	res, d := e.exec(utils.CrossChainManagerContractAddress, method, sk.Bytes(), signers)
	what := fmt.Sprintf("%s(%d)", method, id)
	if signer%4 >= 2 {
		e.expectFail(what+" without operator witness", res, d)
		return
	}
	e.expectOK(what, res)
	// state delta: exactly the blacklist record of that chain
	k := string(blackKey(id))
	switch {
	case black && !e.black[id]:
		if len(d.added) != 1 || d.added[k] == nil || len(d.changed)+len(d.removed) != 0 {
			e.ctx.Failf("%s: expected exactly the blacklist record to be added, delta %v", what, d)
		}
	case !black && e.black[id]:
		if len(d.removed) != 1 || d.removed[k] == nil || len(d.changed)+len(d.added) != 0 {
			e.ctx.Failf("%s: expected exactly the blacklist record to be removed, delta %v", what, d)
		}
	default:
		if !d.empty() {
			e.ctx.Failf("%s: no-op expected, delta %v", what, d)
		}
	}
	e.black[id] = black
}

// --- imports ----------------------------------------------------------------------------------

type outcome int

const (
	oReject outcome = iota
	oNoop           // success reported, nothing changes (redundant vote)
	oVote           // success, one more vote recorded, message not yet executed
	oAccept
)

type importTx struct {
	src     uint64
	height  uint32
	proof   []byte
	relayer []byte
	extra   []byte
	header  []byte
	signers []common.Address
}

func (t *importTx) args() []byte {
	p := &scom.EntranceParam{SourceChainID: t.src, Height: t.height, Proof: t.proof, RelayerAddress: t.relayer, Extra: t.extra, HeaderOrCrossChainMsg: t.header}
	sk := common.NewZeroCopySink(nil)
	p.Serialization(sk)
	return sk.Bytes()
}

// finalize is the part of the model shared by all routers once the source-side proof/quorum is
// established for message m from src: replay check, (ripple rewrite), destination gates.
// Returns the verdict, the reason class and the message expected in the request record.
func (e *engine) finalize(src uint64, router uint64, m *refMsg) (outcome, string, *refMsg) {
	if e.done[doneK(src, m.CCID)] {
		return oReject, "replay", nil
	}
	out := m
	if router == rRIPPLE {
		s := e.slotOf[src]
		if !e.assets[s][m.To] {
			return oReject, "ripple:no-asset-binding", nil
		}
		dst, amt, ok := parseVarBytesU64(m.Args)
		if !ok {
			return oReject, "ripple:args-malformed", nil
		}
		var a []byte
		a = append(a, refVarBytes(rippleAsset(src, m.To))...)
		a = append(a, refVarBytes(dst)...)
		amt32 := make([]byte, 32)
		copy(amt32, le64(amt))
		a = append(a, amt32...)
		out = &refMsg{TxHash: m.TxHash, CCID: m.CCID, From: m.From, To: m.To, ToC: rippleProxy(src, m.To), Method: m.Method, Args: a}
	}
	if e.black[m.To] {
		return oReject, "dest-blacklisted", nil
	}
	if !e.isRegisteredID(m.To) {
		return oReject, "dest-unregistered", nil
	}
	if e.routerOfID(m.To) == rRIPPLE {
		// destination Ripple: needs an asset binding of the destination chain for itself, which
		// this harness never creates -> the Ripple transaction builder must refuse
		return oReject, "dest-ripple-unconfigured", nil
	}
	return oAccept, "accept", out
}

// sourceGate: registry / blacklist / router activation of the source chain.
func (e *engine) sourceGate(src uint64) (bool, string) {
	if e.black[src] {
		return false, "src-blacklisted"
	}
	if !e.isRegisteredID(src) {
		return false, "src-unregistered"
	}
	if !e.gateOpen(e.routerOfID(src)) {
		return false, "router-inactive"
	}
	return true, ""
}

// submit executes one ImportOuterTransfer and checks outcome + complete state delta.
func (e *engine) submit(t *importTx, want outcome, class string, exp *refMsg, vkey []byte, router uint64) {
	e.ctx.Label("import:" + class)
	res, d := e.exec(utils.CrossChainManagerContractAddress, "ImportOuterTransfer", t.args(), t.signers)
	what := fmt.Sprintf("import(src %d, height %d, class %s)", t.src, t.height, class)
	reqPrefix := string(ccmKey([]byte("request")))
	donePrefix := string(ccmKey([]byte("doneTx")))
	switch want {
	case oReject:
		e.expectFail(what, res, d)
	case oNoop:
		// the transaction is a redundant vote: whether it "fails" is not judged, but it must not
		// have any effect
		if !d.empty() || len(res.CrossHashes) != 0 {
			e.ctx.Failf("%s: redundant submission changed state: %v", what, d)
		}
	case oVote:
		e.expectOK(what, res)
		if len(res.CrossHashes) != 0 {
			e.ctx.Failf("%s: vote below quorum emitted a cross-state leaf", what)
		}
		for k := range mergeKeys(d) {
			if k != string(vkey) {
				e.ctx.Failf("%s: vote below quorum touched a key other than its vote record: %v", what, d)
			}
		}
	case oAccept:
		e.expectOK(what, res)
		relay := res.TxHash.ToArray()
		rk := string(requestKey(exp.To, relay))
		dk := string(doneKey(t.src, exp.CCID))
		// (C22) exactly one request record, keyed by (destination, relay tx hash)
		nreq := 0
		for k := range mergeKeys(d) {
			if len(k) >= len(reqPrefix) && k[:len(reqPrefix)] == reqPrefix {
				nreq++
			}
		}
		if nreq != 1 || d.added[rk] == nil {
			e.ctx.Failf("%s: accepted import must add exactly one request record, at key request|%d|%x; delta %v", what, exp.To, relay, d)
		}
		val := e.w.Get([]byte(rk))
		wantVal := refRequest(relay, t.src, exp)
		if !bytes.Equal(val, wantVal) {
			e.ctx.Failf("%s: request record differs from (relay tx hash, source chain, verified message):\n got  %x\n want %x", what, clip(val), clip(wantVal))
		}
		mv := new(scom.ToMerkleValue)
		if err := mv.Deserialization(common.NewZeroCopySource(val)); err != nil {
			e.ctx.Failf("%s: request record does not decode: %v", what, err)
		}
		p := mv.MakeTxParam
		if !bytes.Equal(mv.TxHash, relay) || mv.FromChainID != t.src || !bytes.Equal(p.TxHash, exp.TxHash) ||
			!bytes.Equal(p.CrossChainID, exp.CCID) || !bytes.Equal(p.FromContractAddress, exp.From) || p.ToChainID != exp.To ||
			!bytes.Equal(p.ToContractAddress, exp.ToC) || p.Method != string(exp.Method) || !bytes.Equal(p.Args, exp.Args) {
			e.ctx.Failf("%s: decoded request record differs field-wise from the submitted message", what)
		}
		// exactly one cross-state leaf: HashLeaf(record) = sha256(0x00 || record)
		leaf := sha256.Sum256(append([]byte{0}, val...))
		if len(res.CrossHashes) != 1 || res.CrossHashes[0] != common.Uint256(leaf) {
			e.ctx.Failf("%s: cross-state leaves %x, want exactly [%x]", what, res.CrossHashes, leaf)
		}
		// (C20) marked done exactly now
		ndone := 0
		for k := range mergeKeys(d) {
			if len(k) >= len(donePrefix) && k[:len(donePrefix)] == donePrefix {
				ndone++
			}
		}
		if ndone != 1 || d.added[dk] == nil {
			e.ctx.Failf("%s: accepted import must add exactly the done record doneTx|%d|%x; delta %v", what, t.src, exp.CCID, d)
		}
		// nothing else changes (vote family: plus the vote record)
		for k := range mergeKeys(d) {
			if k == rk || k == dk || (vkey != nil && k == string(vkey)) {
				continue
			}
			e.ctx.Failf("%s: accepted import touched an unexpected key: %v", what, d)
		}
		if len(d.removed) != 0 {
			e.ctx.Failf("%s: accepted import removed keys: %v", what, d)
		}
		e.done[doneK(t.src, exp.CCID)] = true
		e.acceptedInBlock++
		e.routersSeen[routerName[router]]++
		if isReqLenClass(len(wantVal)) {
			e.ctx.Label(fmt.Sprintf("accepted-request-size:%d", len(wantVal)))
		}
		if e.f == fC22 && len(exp.Args) > 0 && e.acceptedInBlock >= 2 {
			e.ctx.NonTrivial()
		}
	}
	if want != oAccept {
		// no request record and no done record may appear on any non-accepting path
		for k := range mergeKeys(d) {
			if (len(k) >= len(reqPrefix) && k[:len(reqPrefix)] == reqPrefix) || (len(k) >= len(donePrefix) && k[:len(donePrefix)] == donePrefix) {
				e.ctx.Failf("%s: request/done record written although the message was not accepted: %v", what, d)
			}
		}
	}
	if e.f == fC20 {
		e.checkDoneAgainstModel(what)
	}
}

func mergeKeys(d delta) map[string]bool {
	o := map[string]bool{}
	for k := range d.added {
		o[k] = true
	}
	for k := range d.changed {
		o[k] = true
	}
	for k := range d.removed {
		o[k] = true
	}
	return o
}

// checkDoneAgainstModel: the real CheckDoneTx agrees with the model for every (pool chain, pool id).
func (e *engine) checkDoneAgainstModel(after string) {
	svc := e.w.Service()
	for _, ch := range e.c.Chains {
		for _, id := range e.ccids {
			real := scom.CheckDoneTx(svc, id, ch.ID) != nil
			if real != e.done[doneK(ch.ID, id)] {
				e.ctx.Failf("after %s: CheckDoneTx(chain %d, id %x) says done=%v, model says %v", after, ch.ID, id, real, e.done[doneK(ch.ID, id)])
			}
		}
	}
}

// classifyReplay marks the C20 / C21 non-trivial rules for a finalize-stage verdict.
func (e *engine) noteFinalize(src uint64, m *refMsg, verdict outcome, class string, height uint32, extra []byte, proofV int) {
	k := doneK(src, m.CCID)
	switch {
	case verdict == oAccept:
		e.accepted[k] = acceptedRec{height: height, extra: extra, proofV: proofV}
	case class == "replay":
		a, ok := e.accepted[k]
		if ok && (a.height != height || !bytes.Equal(a.extra, extra) || a.proofV != proofV) {
			e.ctx.Label("replay:different-valid-proof")
			if e.f == fC20 {
				e.ctx.NonTrivial()
			}
		} else {
			e.ctx.Label("replay:exact")
		}
	case class == "dest-blacklisted" || class == "dest-unregistered":
		if e.f == fC21 {
			e.ctx.NonTrivial()
		}
	}
}

// one vote transaction of the vote / ripple-vote routers
func (e *engine) opVote(s, mi, hsel, voter, sv int) (finished bool) {
	ch := e.c.Chains[s]
	m, extra := e.msgs[mi], e.extra[mi]
	height := uint32(7000 + mod(hsel, 3))
	var va common.Address
	isVal := false
	voter = mod(voter, e.n+2)
	if voter < e.n {
		va, isVal = validatorAcct(voter), true
	} else {
		va = outsider(voter - e.n)
	}
	t := &importTx{src: ch.ID, height: height, relayer: va[:], extra: extra}
	signedBySelf := true
	switch mod(sv, 8) {
	case 7:
		t.signers, signedBySelf = []common.Address{outsider(3)}, false
	case 6:
		t.signers = []common.Address{outsider(3), va}
	default:
		t.signers = []common.Address{va}
	}
	vk := voteKey(ch.ID, height, extra)
	if ok, why := e.sourceGate(ch.ID); !ok {
		e.submit(t, oReject, why, nil, vk, ch.Router)
		return true
	}
	if !sourceCapable(ch.Router) {
		e.ctx.Label("skip:source-router-without-builder")
		return true
	}
	if !isVoteFamily(ch.Router) {
		return true
	}
	if !signedBySelf {
		e.submit(t, oReject, "vote:no-witness", nil, vk, ch.Router)
		return true
	}
	if e.voteDone[string(vk)] {
		e.submit(t, oNoop, "vote:redundant-after-execution", nil, vk, ch.Router)
		return true
	}
	if !isVal {
		e.submit(t, oReject, "vote:not-consensus-peer", nil, vk, ch.Router)
		return true
	}
	vs := e.votes[string(vk)]
	if vs == nil {
		vs = map[int]bool{}
		e.votes[string(vk)] = vs
	}
	cnt := len(vs)
	if !vs[voter] {
		cnt++
	}
	if cnt < e.quor {
		if vs[voter] {
			e.submit(t, oNoop, "vote:repeated", nil, vk, ch.Router)
		} else {
			e.submit(t, oVote, "vote:recorded", nil, vk, ch.Router)
			vs[voter] = true
		}
		return false
	}
	verdict, class, exp := e.finalize(ch.ID, ch.Router, m)
	e.noteFinalize(ch.ID, m, verdict, class, height, extra, 0)
	e.submit(t, verdict, class, exp, vk, ch.Router)
	if verdict == oAccept {
		vs[voter] = true
		e.voteDone[string(vk)] = true
	}
	return true
}

// votes by validators v, v+1, ... until the message is executed or refused at quorum
func (e *engine) opVoteToQuorum(s, mi, hsel, v int) {
	for i := 0; i < e.n; i++ {
		if e.opVote(s, mi, hsel, mod(v+i, e.n), 0) {
			return
		}
	}
}

// one import through an EVM-family router
func (e *engine) opEVM(s, mi, hsel, variant int) {
	ch := e.c.Chains[s]
	m, extra := e.msgs[mi], e.extra[mi]
	height := uint32(evmGenesisHeight)
	hclass := ""
	switch mod(hsel, 8) {
	case 6:
		height, hclass = evmGenesisHeight+1, "evm:height-above-tip"
	case 7:
		if ch.Router == rETH { // the PoSA handlers are not asked for heights without canonical header (other property)
			height, hclass = evmGenesisHeight-1, "evm:height-below-root"
		}
	}
	qv := 0
	if ch.Router == rQUORUM { // no tracked heights: the sealed header travels with the import
		height, hclass = evmGenesisHeight, ""
		switch mod(hsel, 8) {
		case 6:
			qv, hclass = 1, "quorum:header-sealed-by-outsider"
		case 7:
			qv, hclass = 2, "quorum:header-below-validator-epoch"
		}
	}
	t := &importTx{src: ch.ID, height: height, extra: extra, signers: []common.Address{outsider(2)}}
	if ch.Router == rQUORUM && e.genesis[s] {
		t.header = e.chainOf(s).quorumHeader(qv)
	}
	if ok, why := e.sourceGate(ch.ID); !ok {
		t.proof = []byte("{}")
		if isEVM(ch.Router) && e.genesis[s] {
			// submit the proof that would be valid, so that the gate is the only obstacle
			t.proof = e.chainOf(s).proofJSON(mi)
			if v, _, _ := e.finalize(ch.ID, ch.Router, m); v == oAccept && hclass == "" {
				why += ":otherwise-valid"
				if e.f == fC21 {
					e.ctx.NonTrivial()
				}
			}
		}
		e.submit(t, oReject, why, nil, nil, ch.Router)
		return
	}
	if !isEVM(ch.Router) {
		return
	}
	if !e.genesis[s] {
		t.proof = []byte("{}")
		e.submit(t, oReject, "evm:no-trust-root", nil, nil, ch.Router)
		return
	}
	c := e.chainOf(s)
	pv := 0
	switch mod(variant, 8) {
	case 6: // proof of another message's slot
		o := mod(mi+1, len(e.msgs))
		t.proof = c.proofJSON(o)
		if !bytes.Equal(e.extra[o], extra) {
			e.submit(t, oReject, "evm:proof-of-other-message", nil, nil, ch.Router)
			return
		}
		pv = 1
	case 7:
		t.proof = []byte(`{"address":"0x00","storageProof":[]}`)
		e.submit(t, oReject, "evm:malformed-proof", nil, nil, ch.Router)
		return
	default:
		t.proof = c.proofJSON(mi)
	}
	if hclass != "" {
		e.submit(t, oReject, hclass, nil, nil, ch.Router)
		return
	}
	verdict, class, exp := e.finalize(ch.ID, ch.Router, m)
	e.noteFinalize(ch.ID, m, verdict, class, height, extra, pv)
	e.submit(t, verdict, class, exp, nil, ch.Router)
}

// --- history ----------------------------------------------------------------------------------

func (e *engine) run() {
	if len(e.c.Chains) == 0 || len(e.c.Msgs) == 0 {
		return
	}
	for _, op := range e.c.Ops {
		s := e.slot(op.C)
		mi := mod(op.M, len(e.msgs))
		switch op.K {
		case "reg":
			e.opReg(s)
		case "apr":
			e.opApproveReg(s, op.V)
		case "regfull":
			e.opRegFull(s)
		case "quit":
			e.opQuit(s)
		case "aqt":
			e.opApproveQuit(s, op.V)
		case "quitfull":
			e.opQuitFull(s)
		case "asset":
			e.opAsset(s, op.X)
		case "gen":
			e.opGenesis(s, op.S)
		case "black":
			e.opBlackWhite(true, e.idOf(op), op.S)
		case "white":
			e.opBlackWhite(false, e.idOf(op), op.S)
		case "vote":
			e.opVote(s, mi, op.H, op.V, op.S)
		case "imp":
			// complete submission by the means of the source chain's router
			r := e.c.Chains[s].Router
			switch {
			case isEVM(r):
				e.opEVM(s, mi, op.H, op.X)
			default:
				e.opVoteToQuorum(s, mi, op.H, op.V)
			}
		case "impat":
			// one import executed at another height (heights are a free parameter of a transaction here)
			saved := e.w.Height
			e.w.Height = heightTable[mod(op.S, len(heightTable))]
			if isEVM(e.c.Chains[s].Router) {
				e.opEVM(s, mi, op.H, op.X)
			} else {
				e.opVoteToQuorum(s, mi, op.H, op.V)
			}
			e.w.Height = saved
		case "blk":
			e.w.NextBlock()
			e.acceptedInBlock = 0
		case "hgt":
			if e.w.PersistBlocks {
				e.w.Persist()
			}
			e.w.Height = heightTable[mod(op.H, len(heightTable))]
			e.acceptedInBlock = 0
		}
	}
	if e.f == fC21 {
		e.checkRegistryAgainstModel()
	}
	routerMu.Lock()
	for k, v := range e.routersSeen {
		routerStats[e.f][k] += v
	}
	cp := map[string]int{}
	for k, v := range routerStats[e.f] {
		cp[k] = v
	}
	routerMu.Unlock()
	id := map[focus]string{fC20: "C20", fC21: "C21", fC22: "C22"}[e.f]
	ev.Get(id).Extra("routers_accepted_imports", cp)
	ev.Get(id).Extra("routers_not_exercised", routersNotExercised)
}

// idOf: blacklist operations address pool chains, or (X odd) a destination id used by a message
func (e *engine) idOf(op opDef) uint64 {
	if op.X%2 == 1 {
		return e.msgs[mod(op.M, len(e.msgs))].To
	}
	return e.c.Chains[e.slot(op.C)].ID
}

// the registry the model assumed is the registry the side-chain manager holds
func (e *engine) checkRegistryAgainstModel() {
	svc := e.w.Service()
	for s, ch := range e.c.Chains {
		sc, err := side_chain_manager.GetSideChain(svc, ch.ID)
		if err != nil {
			e.ctx.Failf("GetSideChain(%d): %v", ch.ID, err)
		}
		if (sc != nil) != e.registered[s] {
			e.ctx.Failf("harness model out of sync: chain %d registered=%v in the contract, %v in the model", ch.ID, sc != nil, e.registered[s])
		}
	}
}
