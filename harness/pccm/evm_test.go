package pccm

// Synthetic EVM-family side chain, built with go-ethereum's own trie: a state trie holding the
// chain's cross-chain-manager contract account, whose storage trie holds one slot per message of
// the case's message pool (slot value = keccak(message bytes), as the CCMC contracts store it).
// The state root is carried by ONE header, installed as the chain's trust root through the real
// header_sync entrance ("syncGenesisHeader", operator witness). With BlocksToWait = 1 the real
// handlers accept proofs against that header (height == trust-root height), so no sealed headers
// are needed. Proofs are produced with trie.Prove, i.e. exactly what eth_getProof returns.

import (
	"crypto/ecdsa"
	"encoding/hex"
	"encoding/json"
	"fmt"
	"math/big"

	ecommon "github.com/ethereum/go-ethereum/common"
	"github.com/ethereum/go-ethereum/core/types"
	"github.com/ethereum/go-ethereum/crypto"
	"github.com/ethereum/go-ethereum/ethdb/memorydb"
	"github.com/ethereum/go-ethereum/rlp"
	"github.com/ethereum/go-ethereum/trie"
	hsquorum "github.com/polynetwork/poly/native/service/header_sync/quorum"
)

const evmGenesisHeight = 100

type evmChain struct {
	ccmc        []byte
	stateRoot   ecommon.Hash
	storageRoot ecommon.Hash
	acctProof   []string
	slotProof   [][]string // per message index
	slotKey     []ecommon.Hash
	header      *types.Header
	balance     *big.Int
	qHeaders    map[int][]byte
}

type evmAccount struct {
	Nonce    *big.Int
	Balance  *big.Int
	Storage  ecommon.Hash
	Codehash ecommon.Hash
}

func proofList(t *trie.Trie, key []byte) []string {
	db := memorydb.New()
	if err := t.Prove(key, 0, db); err != nil {
		panic(err)
	}
	var out []string
	it := db.NewIterator(nil, nil)
	for it.Next() {
		out = append(out, "0x"+hex.EncodeToString(it.Value()))
	}
	it.Release()
	return out
}

func slotKeyOf(i int) ecommon.Hash {
	return crypto.Keccak256Hash([]byte(fmt.Sprintf("verif-slot-%d", i)))
}

// buildEVMChain builds the world state of one synthetic chain: `extras` are the serialized
// messages (one storage slot each); `salt` adds unrelated accounts/slots so tries are not trivial.
func buildEVMChain(ccmc []byte, extras [][]byte, salt int) *evmChain {
	c := &evmChain{ccmc: ccmc}
	st, _ := trie.New(ecommon.Hash{}, trie.NewDatabase(memorydb.New()))
	for i, e := range extras {
		k := slotKeyOf(i)
		c.slotKey = append(c.slotKey, k)
		h := crypto.Keccak256(e)
		// storage values are RLP of the value with leading zero bytes stripped
		j := 0
		for j < len(h) && h[j] == 0 {
			j++
		}
		v, _ := rlp.EncodeToBytes(h[j:])
		st.Update(crypto.Keccak256(k.Bytes()), v)
	}
	for i := 0; i < 3+salt%5; i++ {
		k := crypto.Keccak256([]byte(fmt.Sprintf("other-slot-%d-%d", salt, i)))
		v, _ := rlp.EncodeToBytes([]byte{byte(i + 1), byte(salt)})
		st.Update(k, v)
	}
	c.storageRoot = st.Hash()
	for i := range extras {
		c.slotProof = append(c.slotProof, proofList(st, crypto.Keccak256(c.slotKey[i].Bytes())))
	}
	at, _ := trie.New(ecommon.Hash{}, trie.NewDatabase(memorydb.New()))
	c.balance = big.NewInt(int64(1000 + salt))
	acct := evmAccount{Nonce: big.NewInt(1), Balance: c.balance, Storage: c.storageRoot,
		Codehash: crypto.Keccak256Hash([]byte("ccmc-code"))}
	av, _ := rlp.EncodeToBytes(&acct)
	at.Update(crypto.Keccak256(ccmc), av)
	for i := 0; i < 4+salt%7; i++ {
		o := evmAccount{Nonce: big.NewInt(int64(i)), Balance: big.NewInt(int64(i * 17)), Storage: ecommon.Hash{},
			Codehash: crypto.Keccak256Hash(nil)}
		ov, _ := rlp.EncodeToBytes(&o)
		at.Update(crypto.Keccak256([]byte(fmt.Sprintf("other-acct-%d-%d", salt, i))), ov)
	}
	c.stateRoot = at.Hash()
	c.acctProof = proofList(at, crypto.Keccak256(ccmc))
	// header: PoSA-style extra = 32 vanity bytes || one 20-byte signer || 65 seal bytes
	extra := make([]byte, 32+20+65)
	copy(extra[32:], crypto.Keccak256([]byte("verif-signer"))[:20])
	c.header = &types.Header{
		ParentHash: crypto.Keccak256Hash([]byte("parent")), UncleHash: types.EmptyUncleHash,
		Root: c.stateRoot, TxHash: types.EmptyRootHash, ReceiptHash: types.EmptyRootHash,
		Difficulty: big.NewInt(2), Number: big.NewInt(evmGenesisHeight), GasLimit: 30000000, GasUsed: 0,
		Time: 1600000000, Extra: extra,
	}
	return c
}

// genesisPayload is the GenesisHeader argument of syncGenesisHeader for the router family.
func (c *evmChain) genesisPayload(router uint64) []byte {
	hj, err := c.header.MarshalJSON()
	if err != nil {
		panic(err)
	}
	if router == rETH {
		return hj
	}
	if router == rQUORUM { // Istanbul genesis: the validator set is read from the header's extra data
		g := *c.header
		g.MixDigest = hsquorum.IstanbulDigest
		g.Extra = istanbulExtra(quorumValidators(), nil, nil)
		qj, err := g.MarshalJSON()
		if err != nil {
			panic(err)
		}
		return qj
	}
	type hv struct {
		Height     *big.Int
		Validators []ecommon.Address
	}
	g := struct {
		Header         json.RawMessage
		PrevValidators []hv
	}{Header: hj, PrevValidators: []hv{{Height: big.NewInt(evmGenesisHeight - 50),
		Validators: []ecommon.Address{ecommon.BytesToAddress(c.header.Extra[32:52])}}}}
	b, err := json.Marshal(&g)
	if err != nil {
		panic(err)
	}
	return b
}

// proofJSON is the eth_getProof-shaped proof of message slot i.
func (c *evmChain) proofJSON(i int) []byte {
	type sp struct {
		Key   string   `json:"key"`
		Value string   `json:"value"`
		Proof []string `json:"proof"`
	}
	p := struct {
		Address       string   `json:"address"`
		Balance       string   `json:"balance"`
		CodeHash      string   `json:"codeHash"`
		Nonce         string   `json:"nonce"`
		StorageHash   string   `json:"storageHash"`
		AccountProof  []string `json:"accountProof"`
		StorageProofs []sp     `json:"storageProof"`
	}{
		Address: "0x" + hex.EncodeToString(c.ccmc), Balance: "0x" + c.balance.Text(16), CodeHash: crypto.Keccak256Hash([]byte("ccmc-code")).Hex(),
		Nonce: "0x1", StorageHash: c.storageRoot.Hex(), AccountProof: c.acctProof,
		StorageProofs: []sp{{Key: c.slotKey[i].Hex(), Value: "0x0", Proof: c.slotProof[i]}},
	}
	b, _ := json.Marshal(&p)
	return b
}

// ---------------------------------------------------------------------------------------------
// quorum (Istanbul BFT): four validators; a block header is sealed by validator 0 and carries the
// committed seals of validators 1 and 2 (more than F = 1)

func quorumValidators() []ecommon.Address {
	var a []ecommon.Address
	for i := 0; i < 4; i++ {
		a = append(a, crypto.PubkeyToAddress(c23QKey(i).PublicKey))
	}
	return a
}

// quorumHeader returns the JSON of a sealed header carrying the chain's state root.
// variant 0: honest; 1: proposer seal by an outsider; 2: number below the validator epoch height.
func (c *evmChain) quorumHeader(variant int) []byte {
	if b, ok := c.qHeaders[variant]; ok {
		return b
	}
	h := *c.header
	h.Number = big.NewInt(evmGenesisHeight + 7)
	proposer := c23QKey(0)
	switch variant {
	case 1:
		proposer = c23QKey(100)
	case 2:
		h.Number = big.NewInt(evmGenesisHeight - 1)
	}
	sealed := sealedQuorumHeader(&h, quorumValidators(), proposer, []*ecdsa.PrivateKey{c23QKey(1), c23QKey(2)})
	b, err := sealed.MarshalJSON()
	if err != nil {
		panic(err)
	}
	if c.qHeaders == nil {
		c.qHeaders = map[int][]byte{}
	}
	c.qHeaders[variant] = b
	return b
}
