package pccm

// C23 (unit for the routers that share cross_chain_manager/eth/utils.go: ETH and Quorum):
// deposit proofs are sound and complete. One import per case on a fresh main-net world.
//
// Harness side: a go-ethereum state trie with the registered CCMC account (+ other accounts), its
// storage trie with 1..6 slots, proofs from trie.Prove, ONE mutation of what the statement names,
// and a tracked chain:
//   eth    - trust root through the real syncGenesisHeader, further canonical headers and
//            non-canonical siblings written with the header_sync storage helpers (export shim; how
//            headers get accepted is the subject of C27/C28, not of this property);
//   quorum - validator set through the real syncGenesisHeader; the block header travels with the
//            import and is "tracked" iff sealed by a tracked validator with enough committed seals.
// Oracle: accept <=> height/confirmation (eth) resp. seal (quorum) condition AND the canonical
// block at that height carries the state the proof was built from AND the (mutated) proof still
// proves the registered account and the slot AND leftpad32(stored value) == keccak256(message).

import (
	"bytes"
	"crypto/ecdsa"
	"crypto/sha256"
	"encoding/hex"
	"encoding/json"
	"fmt"
	"math/big"
	"os"
	"strings"
	"sync"
	"testing"

	ecommon "github.com/ethereum/go-ethereum/common"
	"github.com/ethereum/go-ethereum/core/types"
	"github.com/ethereum/go-ethereum/crypto"
	"github.com/ethereum/go-ethereum/ethdb/memorydb"
	"github.com/ethereum/go-ethereum/rlp"
	"github.com/ethereum/go-ethereum/trie"
	"github.com/polynetwork/poly/common"
	scom "github.com/polynetwork/poly/native/service/cross_chain_manager/common"
	hscom "github.com/polynetwork/poly/native/service/header_sync/common"
	hseth "github.com/polynetwork/poly/native/service/header_sync/eth"
	hsquorum "github.com/polynetwork/poly/native/service/header_sync/quorum"
	"github.com/polynetwork/poly/native/service/utils"
	"pgregory.net/rapid"

	"verif/harness/ev"
)

const rQUORUM = uint64(8)

func propID(def string) string {
	if v := os.Getenv("VERIF_PROP_ID"); v != "" { // development only: lets the helper entry _C23eth collect the shard files
		return v
	}
	return def
}

type c23Case struct {
	Router string `json:"router"` // eth | quorum
	BTW    int    `json:"btw"`    // BlocksToWait (eth)
	Len    int    `json:"len"`    // canonical blocks after the trust root (eth)
	Alt    int    `json:"alt"`    // bit i: canonical block G+i carries ANOTHER state (eth); bit 0 for quorum: header carries another state
	Fork   bool   `json:"fork"`   // non-canonical siblings carrying the deposit state are stored where the canonical block does not
	H      int    `json:"h"`      // claimed height = G + H (eth); header number = G + H (quorum)

	NSlots  int    `json:"nslots"`
	Target  int    `json:"target"`
	NAccts  int    `json:"naccts"`
	ValKind string `json:"valkind"`
	ValK    int    `json:"valk"`
	ValX    ev.B   `json:"valx,omitempty"`

	TxHash ev.B   `json:"txhash"`
	CCID   ev.B   `json:"ccid"`
	From   ev.B   `json:"from,omitempty"`
	ToC    ev.B   `json:"toc,omitempty"`
	Method ev.B   `json:"method,omitempty"`
	Args   ev.B   `json:"args,omitempty"`
	Salt   uint32 `json:"salt"`

	Mut  string `json:"mut"`
	MutA int    `json:"muta,omitempty"`

	QVals   int `json:"qvals,omitempty"`   // quorum validators 1..4
	QSigner int `json:"qsigner,omitempty"` // proposer index; >= QVals: outsider
	QSeals  int `json:"qseals,omitempty"`  // committed seals by distinct validators

	Persist bool `json:"persist,omitempty"` // registry and tracked chain are flushed to the store before the import
}

var c23ValKinds = []string{"genuine", "genuine", "genuine", "genuine", "genuine", "leadzero", "leadzero", "untrimmed", "suffix", "suffix", "suffix",
	"grind1", "grind1", "grind2", "prefix", "empty", "empty", "long-tail", "long-head", "other32", "flip", "zero-word"}

var c23Muts = []string{"none", "none", "none", "none", "none", "none", "none", "none", "none", "none",
	"reorder-acct", "reorder-stor", "extra-acct", "extra-stor", "extra-junk", "addr-upper",
	"missing-acct", "missing-stor", "other-account-nodes", "other-account", "other-slot-nodes", "other-slot-key", "absent-slot",
	"wrong-address", "nonce", "balance", "storagehash", "codehash", "message", "message-field", "malformed", "two-storage-proofs", "no-storage-proof",
	"node-bitflip", "short-suffix", "short-suffix", "short-suffix", "long-suffix", "hash-prefix", "empty-value",
	"splice-storage", "splice-storage", "splice-storage"}

var c23ShortLens = []int{1, 2, 3, 8, 16, 20, 31}

func genC23(t *rapid.T) c23Case {
	c := c23Case{Router: rapid.SampledFrom([]string{"eth", "eth", "quorum"}).Draw(t, "router")}
	c.BTW = rapid.IntRange(1, 4).Draw(t, "btw")
	c.Len = rapid.IntRange(0, 5).Draw(t, "len")
	if rapid.IntRange(0, 3).Draw(t, "lenclass") > 0 { // mostly: enough blocks for the confirmation boundary to be reachable
		c.Len = c.BTW - 1 + rapid.IntRange(0, 2).Draw(t, "lenextra")
	}
	if rapid.IntRange(0, 3).Draw(t, "altclass") == 0 {
		c.Alt = rapid.IntRange(0, 63).Draw(t, "alt")
	}
	c.Fork = rapid.Bool().Draw(t, "fork")
	// heights: mostly around the confirmation boundary tip-BTW+1
	switch rapid.IntRange(0, 9).Draw(t, "hclass") {
	case 0:
		c.H = rapid.IntRange(-1, c.Len+1).Draw(t, "h")
	case 1:
		c.H = c.Len + 1
	case 2:
		c.H = -1
	default:
		c.H = c.Len - c.BTW + 1 + rapid.IntRange(-1, 1).Draw(t, "dh")
		if rapid.IntRange(0, 2).Draw(t, "clamp") > 0 && c.H < 0 {
			c.H = 0
		}
	}
	c.NSlots = rapid.IntRange(1, 6).Draw(t, "nslots")
	c.Target = rapid.IntRange(0, c.NSlots-1).Draw(t, "target")
	c.NAccts = rapid.IntRange(0, 8).Draw(t, "naccts")
	c.ValKind = rapid.SampledFrom(c23ValKinds).Draw(t, "valkind")
	if c.ValKind == "grind2" && !ev.Thorough() {
		c.ValKind = "grind1"
	}
	c.ValK = rapid.IntRange(1, 31).Draw(t, "valk")
	c.ValX = genBytes(1, 8).Draw(t, "valx")
	c.TxHash = genBytes(0, 32).Draw(t, "txhash")
	c.CCID = genBytes(0, 32).Draw(t, "ccid")
	c.From = genBytes(0, 20).Draw(t, "from")
	c.ToC = genBytes(0, 20).Draw(t, "toc")
	c.Method = genBytes(0, 8).Draw(t, "method")
	c.Args = genBytes(0, 40).Draw(t, "args")
	c.Salt = rapid.Uint32().Draw(t, "salt")
	c.Mut = rapid.SampledFrom(c23Muts).Draw(t, "mut")
	c.MutA = rapid.IntRange(0, 1000).Draw(t, "muta")
	c.Persist = rapid.Bool().Draw(t, "persist")
	if c.Router == "quorum" {
		c.QVals = rapid.IntRange(1, 4).Draw(t, "qvals")
		c.QSigner = rapid.IntRange(0, c.QVals).Draw(t, "qsigner")
		if rapid.IntRange(0, 3).Draw(t, "qsok") > 0 {
			c.QSigner = mod(c.QSigner, c.QVals)
		}
		c.QSeals = rapid.IntRange(0, c.QVals).Draw(t, "qseals")
		if rapid.IntRange(0, 3).Draw(t, "qcok") > 0 {
			c.QSeals = c.QVals
		}
		c.H = rapid.SampledFrom([]int{0, 0, 0, 1, 5, -1}).Draw(t, "qh")
	}
	return c
}

// ---------------------------------------------------------------------------------------------
// synthetic world state

type c23Acct struct {
	Nonce    *big.Int
	Balance  *big.Int
	Storage  ecommon.Hash
	Codehash ecommon.Hash
}

type c23State struct {
	stor     *trie.Trie
	acct     *trie.Trie
	root     ecommon.Hash
	storRoot ecommon.Hash
	ccmcAcct c23Acct
	other    []byte // address of another account that exists in the state trie
	otherAcc c23Acct
	slotKeys []ecommon.Hash
	slotVals [][]byte // decoded (un-RLP'd) values
}

func nodesOf(t *trie.Trie, key []byte) []string {
	db := memorydb.New()
	if err := t.Prove(key, 0, db); err != nil {
		panic(err)
	}
	var out []string
	it := db.NewIterator(nil, nil)
	for it.Next() {
		out = append(out, "0x"+hex.EncodeToString(it.Value()))
	}
	it.Release()
	return out
}

func c23SlotKey(i int) ecommon.Hash {
	return crypto.Keccak256Hash([]byte(fmt.Sprintf("c23-slot-%d", i)))
}

// buildState: account `ccmc` with the given slot values; variant != 0 gives an unrelated state
// (other slot contents -> other storage root -> other state root).
func buildState(ccmc []byte, vals [][]byte, naccts int, variant byte) *c23State {
	s := &c23State{slotVals: vals}
	s.stor, _ = trie.New(ecommon.Hash{}, trie.NewDatabase(memorydb.New()))
	for i, v := range vals {
		k := c23SlotKey(i)
		s.slotKeys = append(s.slotKeys, k)
		enc, _ := rlp.EncodeToBytes(v)
		s.stor.Update(crypto.Keccak256(k.Bytes()), enc)
	}
	if variant != 0 {
		enc, _ := rlp.EncodeToBytes([]byte{variant, 0x55})
		s.stor.Update(crypto.Keccak256([]byte("variant-slot")), enc)
	}
	s.storRoot = s.stor.Hash()
	s.acct, _ = trie.New(ecommon.Hash{}, trie.NewDatabase(memorydb.New()))
	s.ccmcAcct = c23Acct{Nonce: big.NewInt(1), Balance: big.NewInt(0x1234), Storage: s.storRoot, Codehash: crypto.Keccak256Hash([]byte("ccmc-code"))}
	av, _ := rlp.EncodeToBytes(&s.ccmcAcct)
	s.acct.Update(crypto.Keccak256(ccmc), av)
	// the "other" account shares the storage trie (so that complete, internally consistent proofs exist for it)
	s.other = crypto.Keccak256([]byte("other-contract"))[:20]
	s.otherAcc = c23Acct{Nonce: big.NewInt(7), Balance: big.NewInt(99), Storage: s.storRoot, Codehash: crypto.Keccak256Hash([]byte("other-code"))}
	ov, _ := rlp.EncodeToBytes(&s.otherAcc)
	s.acct.Update(crypto.Keccak256(s.other), ov)
	for i := 0; i < naccts; i++ {
		o := c23Acct{Nonce: big.NewInt(int64(i)), Balance: big.NewInt(int64(i*31 + 1)), Storage: types.EmptyRootHash, Codehash: crypto.Keccak256Hash(nil)}
		b, _ := rlp.EncodeToBytes(&o)
		s.acct.Update(crypto.Keccak256([]byte(fmt.Sprintf("acct-%d", i))), b)
	}
	s.root = s.acct.Hash()
	return s
}

type c23Proof struct {
	Address       string      `json:"address"`
	Balance       string      `json:"balance"`
	CodeHash      string      `json:"codeHash"`
	Nonce         string      `json:"nonce"`
	StorageHash   string      `json:"storageHash"`
	AccountProof  []string    `json:"accountProof"`
	StorageProofs []c23SProof `json:"storageProof"`
}

type c23SProof struct {
	Key   string   `json:"key"`
	Value string   `json:"value"`
	Proof []string `json:"proof"`
}

func (s *c23State) honestProof(addr []byte, a c23Acct, slot int) *c23Proof {
	return &c23Proof{
		Address: "0x" + hex.EncodeToString(addr), Balance: "0x" + a.Balance.Text(16), CodeHash: a.Codehash.Hex(), Nonce: "0x" + a.Nonce.Text(16),
		StorageHash: a.Storage.Hex(), AccountProof: nodesOf(s.acct, crypto.Keccak256(addr)),
		StorageProofs: []c23SProof{{Key: s.slotKeys[slot].Hex(), Value: "0x" + hex.EncodeToString(s.slotVals[slot]),
			Proof: nodesOf(s.stor, crypto.Keccak256(s.slotKeys[slot].Bytes()))}},
	}
}

func reverse(a []string) []string {
	o := make([]string, len(a))
	for i := range a {
		o[len(a)-1-i] = a[i]
	}
	return o
}

func leftPad32(v []byte) []byte {
	o := make([]byte, 32)
	copy(o[32-len(v):], v)
	return o
}

// ---------------------------------------------------------------------------------------------
// quorum (Istanbul) header builder

func c23QKey(i int) *ecdsa.PrivateKey {
	h := sha256.Sum256([]byte(fmt.Sprintf("c23-quorum-key-%d", i)))
	k, err := crypto.ToECDSA(h[:])
	if err != nil {
		panic(err)
	}
	return k
}

func istanbulExtra(vals []ecommon.Address, seal []byte, committed [][]byte) []byte {
	x := &hsquorum.IstanbulExtra{Validators: vals, Seal: seal, CommittedSeal: committed}
	if x.Seal == nil {
		x.Seal = []byte{}
	}
	if x.CommittedSeal == nil {
		x.CommittedSeal = [][]byte{}
	}
	p, err := rlp.EncodeToBytes(x)
	if err != nil {
		panic(err)
	}
	return append(make([]byte, hsquorum.IstanbulExtraVanity), p...)
}

// sealedQuorumHeader: proposer seal over keccak(keccak-rlp(header without seals)), committed seals
// over keccak(header hash || 0x02), as Istanbul BFT prescribes.
func sealedQuorumHeader(h *types.Header, vals []ecommon.Address, proposer *ecdsa.PrivateKey, committers []*ecdsa.PrivateKey) *types.Header {
	h.MixDigest = hsquorum.IstanbulDigest
	h.Extra = istanbulExtra(vals, nil, nil)
	// proposer seal: hash of the header with empty seal and no committed seals
	ph := crypto.Keccak256Hash(mustRLP(h))
	seal, err := crypto.Sign(crypto.Keccak256(ph.Bytes()), proposer)
	if err != nil {
		panic(err)
	}
	h.Extra = istanbulExtra(vals, seal, nil)
	// block hash for committed seals: header with the proposer seal and no committed seals
	bh := crypto.Keccak256Hash(mustRLP(h))
	var cs [][]byte
	for _, k := range committers {
		s, err := crypto.Sign(crypto.Keccak256(append(bh.Bytes(), 2)), k)
		if err != nil {
			panic(err)
		}
		cs = append(cs, s)
	}
	h.Extra = istanbulExtra(vals, seal, cs)
	return h
}

func mustRLP(v interface{}) []byte {
	b, err := rlp.EncodeToBytes(v)
	if err != nil {
		panic(err)
	}
	return b
}

// ---------------------------------------------------------------------------------------------

var (
	c23Mu    sync.Mutex
	c23Table = map[string]int{}
)

func c23Count(router, what string) {
	c23Mu.Lock()
	c23Table[router+":"+what]++
	cp := map[string]int{}
	for k, v := range c23Table {
		cp[k] = v
	}
	c23Mu.Unlock()
	ev.Get(propID("C23")).Extra("router_table", cp)
}

func runC23(ctx *ev.Ctx, c c23Case) {
	router := rETH
	if c.Router == "quorum" {
		router = rQUORUM
	}
	if c.NSlots < 1 {
		c.NSlots = 1
	}
	c.Target = mod(c.Target, c.NSlots)
	if c.BTW < 1 {
		c.BTW = 1
	}
	const srcID, dstID = uint64(2), uint64(3)
	e := newEngine(ctx, fC22, histCase{N: 2, Chains: []chainDef{{ID: srcID, Router: router}, {ID: dstID, Router: rVote}},
		Msgs: []msgDef{{To: 1}}})
	defer e.release()
	e.btw = map[int]uint64{0: uint64(c.BTW)}
	e.opRegFull(0)
	e.opRegFull(1)
	ccmc := ccmcOf(0)

	// --- message (ground, if the value class needs a hash with a particular shape) -----------------
	msg := &refMsg{TxHash: c.TxHash, CCID: c.CCID, From: c.From, To: dstID, ToC: c.ToC, Method: c.Method}
	fixed := []byte(nil)
	switch c.ValKind {
	case "grind1":
		fixed = []byte{c.ValX[0] | 1} // a non-zero one-byte slot value (flag / small counter)
	case "grind2":
		fixed = []byte{c.ValX[0] | 1, c.ValX[len(c.ValX)-1]}
	}
	var extra, hash []byte
	for salt, tries := c.Salt, 0; ; salt, tries = salt+1, tries+1 {
		msg.Args = append(append([]byte(nil), c.Args...), le32(salt)...)
		extra = msg.encode()
		hash = crypto.Keccak256(extra)
		ok := true
		switch c.ValKind {
		case "leadzero", "untrimmed":
			ok = hash[0] == 0
		case "grind1", "grind2":
			ok = bytes.HasSuffix(hash, fixed)
		default:
			ok = hash[0] != 0 // keep the classes apart
		}
		if ok {
			break
		}
		if tries > 1<<21 {
			ctx.Label("skip:grind-exhausted")
			return
		}
	}
	trimmed := bytes.TrimLeft(hash, "\x00")

	// --- value stored in the target slot -------------------------------------------------------
	var val []byte
	k := 1 + mod(c.ValK-1, 31)
	switch c.ValKind {
	case "genuine", "leadzero":
		val = trimmed
	case "untrimmed":
		val = hash
	case "suffix":
		val = hash[32-k:]
	case "grind1", "grind2":
		val = fixed
	case "prefix":
		val = hash[:k]
	case "empty":
		val = []byte{}
	case "long-tail":
		val = append(append([]byte(nil), hash...), c.ValX...)
	case "long-head":
		val = append([]byte{c.ValX[0] | 1}, hash...)
	case "other32":
		val = crypto.Keccak256(append([]byte("other"), extra...))
	case "flip":
		val = append([]byte(nil), hash...)
		val[mod(c.ValK, 32)] ^= 1 << uint(mod(int(c.ValX[0]), 8))
		val = bytes.TrimLeft(val, "\x00")
	case "zero-word":
		val = make([]byte, 32)
	default:
		ctx.Failf("harness: unknown value kind %q", c.ValKind)
	}
	ctx.Label("value:" + c.ValKind)
	vals := make([][]byte, c.NSlots)
	for i := range vals {
		vals[i] = crypto.Keccak256([]byte(fmt.Sprintf("filler-%d", i)))
		if i%3 == 2 {
			vals[i] = []byte{1} // a flag slot
		}
	}
	vals[c.Target] = val
	// neighbour slots of the same contract whose values are merely RELATED to keccak(message)
	// (the family of pevm.TestC23): last n bytes of the hash, 0x01||hash (33 bytes), first 16 bytes
	// with a zero tail, the empty string. Genuine proofs of these slots exist.
	nbShort := len(vals)
	for _, n := range c23ShortLens {
		vals = append(vals, append([]byte(nil), hash[32-n:]...))
	}
	nbLong := len(vals)
	vals = append(vals, append([]byte{1}, hash...))
	nbPrefix := len(vals)
	vals = append(vals, append(append([]byte(nil), hash[:16]...), make([]byte, 16)...))
	nbEmpty := len(vals)
	vals = append(vals, []byte{})
	stA := buildState(ccmc, vals, c.NAccts, 0)
	stB := buildState(ccmc, vals, c.NAccts, 0xB0)

	// --- proof with one mutation -----------------------------------------------------------------
	p := stA.honestProof(ccmc, stA.ccmcAcct, c.Target)
	proofOK := true
	effSlot := c.Target
	submitted := extra
	ctx.Label("mut:" + c.Mut)
	flipHex := func(s string) string { // alters a hex quantity, keeping it well-formed
		b := []byte(s)
		i := len(b) - 1 - mod(c.MutA, len(b)-2)
		if b[i] == '1' {
			b[i] = '2'
		} else {
			b[i] = '1'
		}
		return string(b)
	}
	var raw []byte
	spliced := false
	switch c.Mut {
	case "none":
	case "reorder-acct":
		p.AccountProof = reverse(p.AccountProof)
	case "reorder-stor":
		p.StorageProofs[0].Proof = reverse(p.StorageProofs[0].Proof)
	case "extra-acct":
		p.AccountProof = append(nodesOf(stA.acct, crypto.Keccak256(stA.other)), p.AccountProof...)
	case "extra-stor":
		p.StorageProofs[0].Proof = append(p.StorageProofs[0].Proof, nodesOf(stB.stor, crypto.Keccak256([]byte("variant-slot")))...)
	case "extra-junk":
		p.AccountProof = append(p.AccountProof, "0x"+hex.EncodeToString(crypto.Keccak256([]byte("junk"))))
		p.StorageProofs[0].Proof = append([]string{"0xc0"}, p.StorageProofs[0].Proof...)
	case "addr-upper":
		p.Address = "0X" + strings.ToUpper(hex.EncodeToString(ccmc))
	case "missing-acct":
		i := mod(c.MutA, len(p.AccountProof))
		p.AccountProof = append(append([]string{}, p.AccountProof[:i]...), p.AccountProof[i+1:]...)
		proofOK = false
	case "missing-stor":
		sp := p.StorageProofs[0].Proof
		i := mod(c.MutA, len(sp))
		p.StorageProofs[0].Proof = append(append([]string{}, sp[:i]...), sp[i+1:]...)
		proofOK = false
	case "other-account-nodes": // nodes prove another account, every field still claims the registered one
		honest := p.AccountProof
		p.AccountProof = nodesOf(stA.acct, crypto.Keccak256([]byte(fmt.Sprintf("acct-%d", mod(c.MutA, c.NAccts+1)))))
		proofOK = covers(p.AccountProof, honest) // tiny tries: the other path may contain the whole honest path
	case "other-account": // a complete, consistent proof - for an account that is not the registered contract
		p = stA.honestProof(stA.other, stA.otherAcc, c.Target)
		proofOK = false
	case "other-slot-nodes":
		if c.NSlots < 2 {
			ctx.Label("skip:single-slot")
			return
		}
		o := mod(c.Target+1+mod(c.MutA, c.NSlots-1), c.NSlots)
		honest := p.StorageProofs[0].Proof
		p.StorageProofs[0].Proof = nodesOf(stA.stor, crypto.Keccak256(stA.slotKeys[o].Bytes()))
		proofOK = covers(p.StorageProofs[0].Proof, honest)
	case "other-slot-key": // valid proof of another slot of the same contract
		if c.NSlots < 2 {
			ctx.Label("skip:single-slot")
			return
		}
		effSlot = mod(c.Target+1+mod(c.MutA, c.NSlots-1), c.NSlots)
		p = stA.honestProof(ccmc, stA.ccmcAcct, effSlot)
	case "splice-storage":
		// genuine account proof and genuine nonce / balance / code hash of the registered contract, but the
		// storage hash and a self-consistent storage proof come from ANOTHER storage trie in which
		// keccak(submitted message) sits at the slot; the message is the deposited one or (odd MutA) one that
		// was never deposited. The claimed storage root is not the one of the account proven under the block's
		// state root, so the account condition fails.
		if c.MutA%2 == 1 {
			m2 := *msg
			m2.CCID = append(append([]byte(nil), msg.CCID...), 0x5a)
			submitted = m2.encode()
		}
		t2, _ := trie.New(ecommon.Hash{}, trie.NewDatabase(memorydb.New()))
		for i := 0; i < 1+mod(c.MutA, 5); i++ {
			enc, _ := rlp.EncodeToBytes(crypto.Keccak256([]byte{byte(i), 0x77}))
			t2.Update(crypto.Keccak256([]byte(fmt.Sprintf("splice-filler-%d", i))), enc)
		}
		sh := crypto.Keccak256(submitted)
		enc, _ := rlp.EncodeToBytes(bytes.TrimLeft(sh, "\x00"))
		sk := stA.slotKeys[c.Target]
		t2.Update(crypto.Keccak256(sk.Bytes()), enc)
		p.StorageHash = t2.Hash().Hex()
		p.StorageProofs = []c23SProof{{Key: sk.Hex(), Value: "0x" + hex.EncodeToString(sh), Proof: nodesOf(t2, crypto.Keccak256(sk.Bytes()))}}
		proofOK = false
		spliced = true
	case "short-suffix": // genuine proof of a slot holding only the last n bytes of keccak(message)
		i := mod(c.MutA, len(c23ShortLens))
		effSlot = nbShort + i
		p = stA.honestProof(ccmc, stA.ccmcAcct, effSlot)
		ctx.Label(fmt.Sprintf("mut:short-suffix:%d", c23ShortLens[i]))
	case "long-suffix": // 33-byte value ending in the hash
		effSlot = nbLong
		p = stA.honestProof(ccmc, stA.ccmcAcct, effSlot)
	case "hash-prefix": // first half of the hash, zero tail (a full 32-byte word)
		effSlot = nbPrefix
		p = stA.honestProof(ccmc, stA.ccmcAcct, effSlot)
	case "empty-value":
		effSlot = nbEmpty
		p = stA.honestProof(ccmc, stA.ccmcAcct, effSlot)
	case "absent-slot": // valid proof that a slot does not exist
		ak := crypto.Keccak256Hash([]byte("absent"))
		p.StorageProofs[0].Key = ak.Hex()
		p.StorageProofs[0].Proof = nodesOf(stA.stor, crypto.Keccak256(ak.Bytes()))
		proofOK = false
	case "wrong-address":
		b := append([]byte(nil), ccmc...)
		b[mod(c.MutA, 20)] ^= 0x10
		p.Address = "0x" + hex.EncodeToString(b)
		proofOK = false
	case "nonce":
		p.Nonce = "0x" + new(big.Int).Add(stA.ccmcAcct.Nonce, big.NewInt(int64(1+c.MutA%3))).Text(16)
		proofOK = false
	case "balance":
		p.Balance = "0x" + new(big.Int).Add(stA.ccmcAcct.Balance, big.NewInt(int64(1+c.MutA))).Text(16)
		proofOK = false
	case "storagehash":
		p.StorageHash = flipHex(p.StorageHash)
		proofOK = false
	case "codehash":
		p.CodeHash = flipHex(p.CodeHash)
		proofOK = false
	case "message": // one bit of the submitted message differs from what the contract stored
		submitted = append([]byte(nil), extra...)
		submitted[len(submitted)-1-mod(c.MutA, 4)] ^= 0x04 // inside the salt: still parses
	case "message-field": // another destination contract / method: a different, well-formed message
		m2 := *msg
		m2.ToC = append(append([]byte(nil), msg.ToC...), 0x01)
		submitted = m2.encode()
	case "malformed":
		raw = []byte(`{"address":"0x` + hex.EncodeToString(ccmc) + `","accountProof":["zz"],"storageProof":`)
		proofOK = false
	case "two-storage-proofs":
		p.StorageProofs = append(p.StorageProofs, p.StorageProofs[0])
		proofOK = false
	case "no-storage-proof":
		p.StorageProofs = nil
		proofOK = false
	case "node-bitflip":
		sp := p.StorageProofs[0].Proof
		i := mod(c.MutA, len(sp))
		b, _ := hex.DecodeString(sp[i][2:])
		b[len(b)-1] ^= 1
		sp[i] = "0x" + hex.EncodeToString(b)
		proofOK = false
	default:
		ctx.Failf("harness: unknown mutation %q", c.Mut)
	}
	if raw == nil {
		raw, _ = json.Marshal(p)
	}
	// the storageProof[0].value member is informational (not proven); vary it
	valueOK := len(stA.slotVals[effSlot]) <= 32 && bytes.Equal(leftPad32(stA.slotVals[effSlot]), crypto.Keccak256(submitted))
	if spliced {
		valueOK = true // holds under the CLAIMED storage root; the account condition is what fails
	}

	// --- tracked chain ---------------------------------------------------------------------------
	chainOK := true
	rootOK := true
	tx := &importTx{src: srcID, proof: raw, extra: submitted, signers: []common.Address{outsider(2)}}
	G := uint64(evmGenesisHeight)
	stateAt := func(i int) *c23State {
		if c.Alt&(1<<uint(i)) != 0 {
			return stB
		}
		return stA
	}
	mkHeader := func(num uint64, parent ecommon.Hash, root ecommon.Hash, tag byte) *types.Header {
		return &types.Header{ParentHash: parent, UncleHash: types.EmptyUncleHash, Root: root, TxHash: types.EmptyRootHash,
			ReceiptHash: types.EmptyRootHash, Difficulty: big.NewInt(131072), Number: new(big.Int).SetUint64(num), GasLimit: 8000000,
			Time: uint64(1600000000 + 13*(int64(num)-int64(G))), Extra: []byte{tag}}
	}
	operator := []common.Address{e.w.Operator()}
	switch c.Router {
	case "eth":
		if c.Len < 0 || c.Len > 5 {
			c.Len = mod(c.Len, 6)
		}
		g := mkHeader(G, crypto.Keccak256Hash([]byte("pre")), stateAt(0).root, 0)
		gj, _ := g.MarshalJSON()
		sk := common.NewZeroCopySink(nil)
		(&hscom.SyncGenesisHeaderParam{ChainID: srcID, GenesisHeader: gj}).Serialization(sk)
		if res, _ := e.exec(utils.HeaderSyncContractAddress, "syncGenesisHeader", sk.Bytes(), operator); !res.OK() {
			ctx.Failf("harness: eth trust root refused: %v", res.Err)
		}
		// canonical blocks G+1..G+Len and non-canonical siblings, written with the storage helpers
		svc := e.w.Service()
		parent := hseth.To1559(g)
		sum := new(big.Int).Set(g.Difficulty)
		for i := 1; i <= c.Len; i++ {
			h := hseth.To1559(mkHeader(G+uint64(i), parent.Hash(), stateAt(i).root, 0))
			sum = new(big.Int).Add(sum, h.Difficulty)
			hseth.VerifPutBlockHeader(svc, *h, sum, srcID)
			hseth.VerifAppendHeader2Main(svc, G+uint64(i), h.Hash(), srcID)
			if c.Fork && stateAt(i) == stB {
				f := hseth.To1559(mkHeader(G+uint64(i), parent.Hash(), stA.root, 0xF0))
				hseth.VerifPutBlockHeader(svc, *f, sum, srcID)
			}
			parent = h
		}
		e.w.Cache.Commit()
		hh := int64(G) + int64(c.H)
		if hh < 0 {
			hh = 0
		}
		tx.height = uint32(hh)
		tip := int64(G) + int64(c.Len)
		inRange := hh >= int64(G) && hh <= tip
		chainOK = inRange && tip-hh+1 >= int64(c.BTW)
		if inRange {
			rootOK = stateAt(int(hh-int64(G))) == stA
		} else {
			rootOK = false
		}
		switch {
		case !inRange && hh > tip:
			ctx.Label("height:above-tip")
		case !inRange:
			ctx.Label("height:below-trust-root")
		case tip-hh+1 == int64(c.BTW):
			ctx.Label("height:confirmations=BlocksToWait")
		case tip-hh+1 == int64(c.BTW)-1:
			ctx.Label("height:confirmations=BlocksToWait-1")
		case tip-hh+1 > int64(c.BTW):
			ctx.Label("height:confirmations>BlocksToWait")
		default:
			ctx.Label("height:too-few-confirmations")
		}
		if inRange && !rootOK {
			if c.Fork {
				ctx.Label("block:deposit-only-on-non-canonical-sibling")
			} else {
				ctx.Label("block:canonical-block-has-other-state")
			}
		}
	case "quorum":
		nv := 1 + mod(c.QVals-1, 4)
		var keys []*ecdsa.PrivateKey
		var addrs []ecommon.Address
		for i := 0; i < nv; i++ {
			keys = append(keys, c23QKey(i))
			addrs = append(addrs, crypto.PubkeyToAddress(keys[i].PublicKey))
		}
		g := mkHeader(G, crypto.Keccak256Hash([]byte("pre")), stB.root, 0)
		g.MixDigest = hsquorum.IstanbulDigest
		g.Extra = istanbulExtra(addrs, nil, nil)
		gj, _ := g.MarshalJSON()
		sk := common.NewZeroCopySink(nil)
		(&hscom.SyncGenesisHeaderParam{ChainID: srcID, GenesisHeader: gj}).Serialization(sk)
		if res, _ := e.exec(utils.HeaderSyncContractAddress, "syncGenesisHeader", sk.Bytes(), operator); !res.OK() {
			ctx.Failf("harness: quorum trust root refused: %v", res.Err)
		}
		num := int64(G) + int64(c.H)
		root := stA.root
		if c.Alt&1 != 0 {
			root, rootOK = stB.root, false
			ctx.Label("block:header-has-other-state")
		}
		proposer := c23QKey(100) // outsider
		if s := mod(c.QSigner, nv+1); s < nv {
			proposer = keys[s]
		} else {
			chainOK = false
			ctx.Label("quorum:sealed-by-outsider")
		}
		ns := mod(c.QSeals, nv+1)
		// Istanbul: more than F = ceil(n/3)-1 of the validators must have committed; the handler
		// counts the proposer as one of them
		F := (nv+2)/3 - 1
		if 1+ns <= F {
			chainOK = false
			ctx.Label("quorum:too-few-committed-seals")
		}
		if num < int64(G) {
			chainOK = false
			ctx.Label("quorum:header-below-validator-epoch")
		}
		h := sealedQuorumHeader(mkHeader(uint64(num), crypto.Keccak256Hash([]byte("p")), root, 0), addrs, proposer, keys[:ns])
		hj, _ := h.MarshalJSON()
		tx.header = hj
		tx.height = uint32(num)
	default:
		ctx.Failf("harness: unknown router %q", c.Router)
	}

	// --- verdict ---------------------------------------------------------------------------------
	accept := chainOK && rootOK && proofOK && valueOK
	failing := 0
	for _, b := range []bool{chainOK, rootOK, proofOK, valueOK} {
		if !b {
			failing++
		}
	}
	if failing <= 1 {
		ctx.NonTrivial()
	}
	if !valueOK && proofOK && chainOK && rootOK {
		ctx.Label("single-fault:value")
		if len(stA.slotVals[effSlot]) < 32 && bytes.HasSuffix(crypto.Keccak256(submitted), stA.slotVals[effSlot]) {
			ctx.Label("value:short-slot-is-suffix-of-message-hash")
		}
	}
	if c.Persist {
		e.w.Persist()
	}
	before := e.w.Dump()
	res := e.w.Invoke(utils.CrossChainManagerContractAddress, "ImportOuterTransfer", tx.args(), tx.signers)
	d := diff(before, e.w.Dump())
	what := fmt.Sprintf("%s deposit (value %s, mutation %s, height %d; chain ok %v, state ok %v, proof ok %v, value ok %v)",
		c.Router, c.ValKind, c.Mut, tx.height, chainOK, rootOK, proofOK, valueOK)
	if res.Panic != "" {
		ctx.Failf("%s: panic inside transaction execution: %s", what, res.Panic)
	}
	if !accept {
		c23Count(c.Router, "rejected")
		if res.OK() {
			ctx.Failf("%s: UNSOUND - the deposit was accepted; stored value %x, keccak(message) %x", what, stA.slotVals[effSlot], crypto.Keccak256(submitted))
		}
		if !d.empty() || len(res.CrossHashes) != 0 {
			ctx.Failf("%s: rejected (%v) but state changed: %v", what, res.Err, d)
		}
		return
	}
	c23Count(c.Router, "accepted")
	if !res.OK() {
		ctx.Failf("%s: INCOMPLETE - a valid deposit was refused: %v", what, res.Err)
	}
	// the accepted message is exactly the submitted one
	relay := res.TxHash.ToArray()
	got := e.w.Get(requestKey(dstID, relay))
	sub := new(scom.MakeTxParam)
	if err := sub.Deserialization(common.NewZeroCopySource(submitted)); err != nil {
		ctx.Failf("harness: submitted message does not parse: %v", err)
	}
	wantMsg := &refMsg{TxHash: sub.TxHash, CCID: sub.CrossChainID, From: sub.FromContractAddress, To: sub.ToChainID, ToC: sub.ToContractAddress,
		Method: []byte(sub.Method), Args: sub.Args}
	if !bytes.Equal(wantMsg.encode(), submitted) {
		ctx.Failf("harness: reference encoding differs from submitted bytes")
	}
	if want := refRequest(relay, srcID, wantMsg); !bytes.Equal(got, want) {
		ctx.Failf("%s: accepted, but the stored request is not (relay tx, source chain, submitted message):\n got  %x\n want %x", what, clip(got), clip(want))
	}
	if d.added[string(doneKey(srcID, wantMsg.CCID))] == nil {
		ctx.Failf("%s: accepted without a done record: %v", what, d)
	}
}

// covers: every node of the honest path is present (proof verification looks nodes up by hash)
func covers(nodes, honest []string) bool {
	m := map[string]bool{}
	for _, x := range nodes {
		m[x] = true
	}
	for _, x := range honest {
		if !m[x] {
			return false
		}
	}
	return true
}

func TestC23Eth(t *testing.T) {
	id := propID("C23")
	ev.Get(id).Extra("routers_unit", "pccm.TestC23Eth: eth, quorum (the routers sharing cross_chain_manager/eth/utils.go)")
	ev.Drive(t, id,
		"ETH/Quorum unit: one deposit import per case on a fresh main-net world; synthetic go-ethereum state (registered CCMC account + 1..9 other accounts, 1..6 storage slots), "+
			"trie.Prove proofs with ONE mutation (re-ordered/extra/missing/bit-flipped nodes, nodes or complete proof of another account, of another slot, storage hash + storage proof spliced in from another storage trie (genuine account proof and fields), of a neighbour slot whose value is only related to the hash (last 1/2/3/8/16/20/31 bytes, 0x01||hash, first 16 bytes + zero tail, empty), absence proof, wrong address, "+
			"upper-case address, altered nonce/balance/storage hash/code hash, altered message, malformed JSON, 0 or 2 storage proofs); target slot value classes: genuine, hash with leading "+
			"zero byte (stored trimmed / untrimmed; message ground), proper suffix of the hash (1..31 bytes), fixed short flag value with the message ground so that its hash ends with it, prefix, "+
			"empty, >32 bytes, other/bit-flipped/zero word; eth: tracked chain of 1..6 blocks (BlocksToWait 1..4, heights around the confirmation boundary, below the trust root, above the tip, "+
			"canonical block with another state and the deposit only on a stored non-canonical sibling); quorum: header sealed by a tracked validator / an outsider, too few committed seals, below the validator epoch. "+
			"non-trivial: at most one of {chain, state, proof, value} conditions fails (honest deposits and single faults); distinct by JSON of the case",
		genC23, runC23)
}
