// Package lworld is the "ledger world" (L2) of the harness: a real ledgerstore.LedgerStoreImp on a
// temp directory with a VBFT genesis for validators from the deterministic key pool, a block
// builder that produces correctly linked, signed blocks (and deliberately wrong ones), a probe
// native contract for scripted transactions, and the crash/reopen model used by C12.
package lworld

import (
	"crypto/sha256"
	"encoding/json"
	"fmt"
	"math"
	"os"
	"sort"

	"github.com/ontio/ontology-crypto/keypair"
	"github.com/polynetwork/poly/account"
	"github.com/polynetwork/poly/common"
	"github.com/polynetwork/poly/common/config"
	vconfig "github.com/polynetwork/poly/consensus/vbft/config"
	"github.com/polynetwork/poly/core/genesis"
	"github.com/polynetwork/poly/core/ledger"
	"github.com/polynetwork/poly/core/payload"
	"github.com/polynetwork/poly/core/signature"
	"github.com/polynetwork/poly/core/store/ledgerstore"
	"github.com/polynetwork/poly/core/types"
	nstates "github.com/polynetwork/poly/native/states"

	"verif/harness/world"
)

type Chain struct {
	Dir       string
	Store     *ledgerstore.LedgerStoreImp
	Ledger    *ledger.Ledger // the same store behind the node's Ledger facade (what RPC/relayers use)
	Vals      []*account.Account // genesis validators (pool accounts 0..n-1)
	Cur       []*account.Account // validator set in force for the next block (block track model)
	Genesis   *types.Block
	Blocks    []*types.Block // committed blocks, index = height
	NetworkID uint32
	VBFT      *config.VBFTConfig
	nonce     uint32
}

// SetGlobals installs the process-wide configuration a ledger reads.
func SetGlobals(networkID uint32, cfg *config.VBFTConfig) {
	world.ResetGlobals(networkID)
	config.DefConfig.Genesis = &config.GenesisConfig{ConsensusType: config.CONSENSUS_TYPE_VBFT, VBFT: cfg,
		DBFT: &config.DBFTConfig{}, SOLO: &config.SOLOConfig{}}
	config.DefConfig.Common.EnableEventLog = true
}

func pubs(as []*account.Account) []keypair.PublicKey {
	out := make([]keypair.PublicKey, len(as))
	for i, a := range as {
		out[i] = a.PublicKey
	}
	return out
}

// Open creates (or reopens) the ledger in dir with the genesis for validators Acct(0..n-1).
func Open(dir string, n int, networkID uint32) (*Chain, error) {
	vals := world.Accts(0, n)
	cfg := world.VBFTConfigFor(vals, 60000)
	SetGlobals(networkID, cfg)
	gb, err := genesis.BuildGenesisBlock(pubs(vals), config.DefConfig.Genesis)
	if err != nil {
		return nil, err
	}
	ldg, err := ledger.NewLedger(dir)
	if err != nil {
		return nil, err
	}
	st := ldg.GetStore().(*ledgerstore.LedgerStoreImp)
	c := &Chain{Dir: dir, Store: st, Ledger: ldg, Vals: vals, Cur: vals, Genesis: gb, NetworkID: networkID, VBFT: cfg}
	if err := ldg.Init(pubs(vals), gb); err != nil {
		st.Close()
		return nil, err
	}
	c.Blocks = []*types.Block{gb}
	return c, nil
}

// Restart closes the ledger cleanly and starts it again on the same directory (node restart).
func (c *Chain) Restart() error {
	c.Store.Close()
	SetGlobals(c.NetworkID, c.VBFT)
	ldg, err := ledger.NewLedger(c.Dir)
	if err != nil {
		return err
	}
	c.Ledger = ldg
	c.Store = ldg.GetStore().(*ledgerstore.LedgerStoreImp)
	return ldg.Init(pubs(c.Vals), c.Genesis)
}

// OpenAfterInterruptedGenesis models a first start that stops at the named point while the genesis block is being
// persisted (e.g. "genesis-before-version": genesis fully committed, version marker not yet written), followed
// by a normal start on the same directory.
func OpenAfterInterruptedGenesis(dir string, n int, networkID uint32, point string) (*Chain, error) {
	vals := world.Accts(0, n)
	cfg := world.VBFTConfigFor(vals, 60000)
	SetGlobals(networkID, cfg)
	gb, err := genesis.BuildGenesisBlock(pubs(vals), config.DefConfig.Genesis)
	if err != nil {
		return nil, err
	}
	ldg, err := ledger.NewLedger(dir)
	if err != nil {
		return nil, err
	}
	crashed := false
	func() {
		defer func() {
			if r := recover(); r != nil {
				if s, ok := r.(string); ok && s == "lworld-crash" {
					crashed = true
					return
				}
				panic(r)
			}
		}()
		ledgerstore.VerifCrashHook = func(p string) {
			if p == point {
				ledgerstore.VerifCrashHook = nil
				panic("lworld-crash")
			}
		}
		defer func() { ledgerstore.VerifCrashHook = nil }()
		err = ldg.Init(pubs(vals), gb)
	}()
	ldg.GetStore().Close()
	if !crashed {
		return nil, fmt.Errorf("genesis crash point %s not reached (init err %v)", point, err)
	}
	return Open(dir, n, networkID)
}

// Prepare sets the globals and builds the genesis block for validators Acct(0..n-1) without
// touching any store (crash checks open the store themselves so they keep the handle).
func Prepare(n int, networkID uint32) (vals []*account.Account, gb *types.Block, bookkeepers []keypair.PublicKey) {
	vals = world.Accts(0, n)
	cfg := world.VBFTConfigFor(vals, 60000)
	SetGlobals(networkID, cfg)
	gb, err := genesis.BuildGenesisBlock(pubs(vals), config.DefConfig.Genesis)
	if err != nil {
		panic(err)
	}
	return vals, gb, pubs(vals)
}

// Reopen closes nothing; it opens the directory again (after a crash the old object was
// abandoned with Abandon) and re-runs the node's start-up sequence.
func Reopen(dir string, n int, networkID uint32) (*ledgerstore.LedgerStoreImp, error) {
	vals := world.Accts(0, n)
	cfg := world.VBFTConfigFor(vals, 60000)
	SetGlobals(networkID, cfg)
	gb, err := genesis.BuildGenesisBlock(pubs(vals), config.DefConfig.Genesis)
	if err != nil {
		return nil, err
	}
	st, err := ledgerstore.NewLedgerStore(dir)
	if err != nil {
		return nil, err
	}
	if err := st.InitLedgerStoreWithGenesisBlock(gb, pubs(vals)); err != nil {
		st.Close()
		return nil, err
	}
	return st, nil
}

func (c *Chain) Close() {
	if c.Store != nil {
		c.Store.Close()
		c.Store = nil
	}
}

func (c *Chain) Tip() *types.Block { return c.Blocks[len(c.Blocks)-1] }

// CrashAt submits block b (already executed: res) with a process stop at the named persistence point
// (the verif crash hook panics there), closes the handles without committing pending batches, and
// restarts the ledger from the same directory. It reports whether the restarted ledger holds b.
func (c *Chain) CrashAt(b *types.Block, point string) (held bool, err error) {
	crashed := false
	func() {
		defer func() {
			if r := recover(); r != nil {
				if s, ok := r.(string); ok && s == "lworld-crash" {
					crashed = true
					return
				}
				panic(r)
			}
		}()
		ledgerstore.VerifCrashHook = func(p string) {
			if p == point {
				ledgerstore.VerifCrashHook = nil
				panic("lworld-crash")
			}
		}
		defer func() { ledgerstore.VerifCrashHook = nil }()
		res, e := c.Store.ExecuteBlock(b)
		if e != nil {
			err = e
			return
		}
		err = c.Store.SubmitBlock(b, res)
	}()
	if err != nil {
		return false, err
	}
	if !crashed {
		return false, fmt.Errorf("crash point %s not reached", point)
	}
	c.Store.Close()
	SetGlobals(c.NetworkID, c.VBFT)
	ldg, e := ledger.NewLedger(c.Dir)
	if e != nil {
		return false, e
	}
	c.Ledger = ldg
	c.Store = ldg.GetStore().(*ledgerstore.LedgerStoreImp)
	if e := ldg.Init(pubs(c.Vals), c.Genesis); e != nil {
		return false, e
	}
	return c.Store.GetCurrentBlockHeight() == b.Header.Height, nil
}

// ---------------------------------------------------------------------------------------------
// transactions

// SignedTx builds an invoke transaction calling contract.method(args), really signed by the
// given accounts (one single-key signature entry each), so that it survives a store round trip.
func (c *Chain) SignedTx(contract common.Address, method string, args []byte, signers []*account.Account) *types.Transaction {
	c.nonce++
	return MakeSignedTx(c.chainID(), c.nonce, contract, method, args, signers)
}

func (c *Chain) chainID() uint64 { return config.GetChainIdByNetId(c.NetworkID) }

func MakeSignedTx(chainID uint64, nonce uint32, contract common.Address, method string, args []byte, signers []*account.Account) *types.Transaction {
	p := nstates.ContractInvokeParam{Address: contract, Method: method, Args: args}
	sink := common.NewZeroCopySink(nil)
	p.Serialization(sink)
	tx := &types.Transaction{Version: types.CURR_TX_VERSION, TxType: types.Invoke, Nonce: nonce, ChainID: chainID,
		Payload: &payload.InvokeCode{Code: sink.Bytes()}}
	// hash of the unsigned part
	s0 := common.NewZeroCopySink(nil)
	if err := tx.Serialization(s0); err != nil {
		panic(err)
	}
	t0, err := types.TransactionFromRawBytes(s0.Bytes())
	if err != nil {
		panic(err)
	}
	h := t0.Hash()
	for _, a := range signers {
		sig, err := signature.Sign(a, h[:])
		if err != nil {
			panic(err)
		}
		tx.Sigs = append(tx.Sigs, types.Sig{SigData: [][]byte{sig}, PubKeys: []keypair.PublicKey{a.PublicKey}, M: 1})
	}
	s1 := common.NewZeroCopySink(nil)
	if err := tx.Serialization(s1); err != nil {
		panic(err)
	}
	t1, err := types.TransactionFromRawBytes(s1.Bytes())
	if err != nil {
		panic(err)
	}
	return t1
}

// ---------------------------------------------------------------------------------------------
// blocks

type BlockOpt struct {
	Signers      []*account.Account // nil: a quorum (all) of the set in force
	NewVals      []*account.Account // non-nil: header announces a new chain config with these peers
	TimeDelta    int64              // default +1 (can be <= 0 for mutants)
	HeightDelta  int                // mutant: added to the correct height
	PrevHash     *common.Uint256    // mutant: override
	BlockRoot    *common.Uint256    // mutant: override
	TxRoot       *common.Uint256    // mutant: override
	Parent       *types.Block       // build on this block instead of the tip (forks); height = parent+1
	ConsensusDat uint64
}

// RefBlockRoot computes, independently of the ledger (RFC 6962 tree hash written in this
// package), the block root a block at the given height must carry: the root over the previous-hash
// leaves of blocks 0..height, i.e. [0, H(b0), …, H(b_{height-1})].
func RefBlockRoot(blocks []*types.Block, height uint32) common.Uint256 {
	leaves := make([][]byte, 0, height+1)
	var zero common.Uint256
	leaves = append(leaves, zero[:])
	for h := uint32(0); h < height; h++ {
		hh := blocks[h].Hash()
		leaves = append(leaves, append([]byte(nil), hh[:]...))
	}
	return MTH(leaves)
}

// MTH is the RFC 6962 Merkle tree hash.
func MTH(leaves [][]byte) (out common.Uint256) {
	switch len(leaves) {
	case 0:
		return sha256.Sum256(nil)
	case 1:
		return sha256.Sum256(append([]byte{0}, leaves[0]...))
	}
	k := 1
	for k*2 < len(leaves) {
		k *= 2
	}
	l, r := MTH(leaves[:k]), MTH(leaves[k:])
	b := append([]byte{1}, l[:]...)
	b = append(b, r[:]...)
	return sha256.Sum256(b)
}

// MTHLeafHashes is MTH over already-hashed leaves (leaf hashes given).
func MTHLeafHashes(hs []common.Uint256) (out common.Uint256) {
	switch len(hs) {
	case 0:
		return sha256.Sum256(nil)
	case 1:
		return hs[0]
	}
	k := 1
	for k*2 < len(hs) {
		k *= 2
	}
	l, r := MTHLeafHashes(hs[:k]), MTHLeafHashes(hs[k:])
	b := append([]byte{1}, l[:]...)
	b = append(b, r[:]...)
	return sha256.Sum256(b)
}

func ChainConfigFor(vals []*account.Account, view uint32) *vconfig.ChainConfig {
	cfg := world.VBFTConfigFor(vals, 60000)
	cc, err := vconfig.GenesisChainConfig(cfg, cfg.Peers, 0)
	if err != nil {
		panic(err)
	}
	cc.View = view
	return cc
}

// Build makes the next block on top of the committed chain (not submitted).
func (c *Chain) Build(txs []*types.Transaction, o BlockOpt) *types.Block {
	parent := c.Tip()
	chain := c.Blocks
	if o.Parent != nil {
		parent = o.Parent
		chain = c.Blocks[:parent.Header.Height+1]
	}
	height := parent.Header.Height + 1
	info := &vconfig.VbftBlockInfo{Proposer: 1, LastConfigBlockNum: c.lastConfigHeight(chain)}
	if o.NewVals != nil {
		info.NewChainConfig = ChainConfigFor(o.NewVals, uint32(height)+1)
	}
	payloadBytes, _ := json.Marshal(info)
	td := o.TimeDelta
	if td == 0 {
		td = 1
	}
	hdr := &types.Header{
		Version:          types.CURR_HEADER_VERSION,
		ChainID:          c.chainID(),
		PrevBlockHash:    parent.Hash(),
		Timestamp:        uint32(int64(parent.Header.Timestamp) + td),
		Height:           uint32(int(height) + o.HeightDelta),
		ConsensusData:    o.ConsensusDat,
		ConsensusPayload: payloadBytes,
		BlockRoot:        RefBlockRoot(chain, height),
	}
	// like the consensus message builder: a header carries the cross-state root of its parent block
	if c.Store != nil && o.Parent == nil {
		if r, err := c.Store.GetCrossStateRoot(parent.Header.Height); err == nil {
			hdr.CrossStateRoot = r
		}
	}
	if o.PrevHash != nil {
		hdr.PrevBlockHash = *o.PrevHash
	}
	if o.BlockRoot != nil {
		hdr.BlockRoot = *o.BlockRoot
	}
	b := &types.Block{Header: hdr, Transactions: txs}
	b.RebuildMerkleRoot()
	if o.TxRoot != nil {
		hdr.TransactionsRoot = *o.TxRoot
	}
	signers := o.Signers
	if signers == nil {
		signers = c.Cur
	}
	SignHeader(hdr, signers)
	return b
}

func (c *Chain) lastConfigHeight(chain []*types.Block) uint32 {
	for i := len(chain) - 1; i > 0; i-- {
		info, err := vconfig.VbftBlock(chain[i].Header)
		if err == nil && info.NewChainConfig != nil {
			return uint32(i)
		}
	}
	return 0
}

// SignHeader sets Bookkeepers/SigData: each signer signs the header hash, in the given order.
func SignHeader(hdr *types.Header, signers []*account.Account) {
	hdr.Bookkeepers = nil
	hdr.SigData = nil
	h := hdr.Hash()
	for _, a := range signers {
		sig, err := signature.Sign(a, h[:])
		if err != nil {
			panic(err)
		}
		hdr.Bookkeepers = append(hdr.Bookkeepers, a.PublicKey)
		hdr.SigData = append(hdr.SigData, sig)
	}
}

// Roundtrip re-decodes a block from its bytes (what a peer would hold).
func Roundtrip(b *types.Block) *types.Block {
	sink := common.NewZeroCopySink(nil)
	b.Serialization(sink)
	nb, err := types.BlockFromRawBytes(sink.Bytes())
	if err != nil {
		panic(fmt.Sprintf("lworld: built block does not decode: %v", err))
	}
	return nb
}

// Commit executes and submits a block through ExecuteBlock+SubmitBlock and records it.
func (c *Chain) Commit(b *types.Block) error {
	res, err := c.Store.ExecuteBlock(b)
	if err != nil {
		return err
	}
	if err := c.Store.SubmitBlock(b, res); err != nil {
		return err
	}
	c.noteCommitted(b)
	return nil
}

func (c *Chain) noteCommitted(b *types.Block) {
	c.Blocks = append(c.Blocks, b)
	if info, err := vconfig.VbftBlock(b.Header); err == nil && info.NewChainConfig != nil {
		var nv []*account.Account
		for _, p := range info.NewChainConfig.Peers {
			for i := 0; i < 64; i++ {
				if world.PubHex(world.Acct(i)) == p.ID {
					nv = append(nv, world.Acct(i))
				}
			}
		}
		c.Cur = nv
	}
}

// NoteCommitted lets callers that submit through other entry points keep the model in step.
func (c *Chain) NoteCommitted(b *types.Block) { c.noteCommitted(b) }

// ---------------------------------------------------------------------------------------------
// thresholds (reference)

// Quorum is the number of signatures the statement of C14 requires for n validators.
func Quorum(n int, legacy bool) int {
	if legacy {
		return n - (6*n)/7
	}
	return n - (n-1)/3
}

// ---------------------------------------------------------------------------------------------
// dumps

func SortedDump(d [][2][]byte) [][2][]byte {
	sort.Slice(d, func(i, j int) bool { return string(d[i][0]) < string(d[j][0]) })
	return d
}

func TempDir(tag string) string {
	base := os.Getenv("VERIF_TMP")
	if base == "" {
		base = os.TempDir()
		if st, err := os.Stat("/dev/shm"); err == nil && st.IsDir() {
			base = "/dev/shm"
		}
	}
	d, err := os.MkdirTemp(base, "verif-"+tag+"-")
	if err != nil {
		panic(err)
	}
	return d
}

var _ = math.MaxUint32

// RefVerifyPath is an independent verifier for the audit paths the ledger serves (written from the
// wire format, own SHA-256 calls): var-bytes value, then (side byte, 32-byte sibling) pairs from the
// leaf upwards; side 0 = sibling on the left. It returns the proven value, or an error when the path
// does not lead to root.
func RefVerifyPath(path []byte, root common.Uint256) ([]byte, error) {
	// own var-uint / var-bytes reader (1, 3, 5 or 9 byte length prefix, little endian)
	if len(path) == 0 {
		return nil, fmt.Errorf("path: empty")
	}
	pl, n := 1, uint64(path[0])
	switch path[0] {
	case 0xFD:
		pl = 3
	case 0xFE:
		pl = 5
	case 0xFF:
		pl = 9
	}
	if pl > 1 {
		if len(path) < pl {
			return nil, fmt.Errorf("path: length prefix truncated")
		}
		n = 0
		for i := pl - 1; i >= 1; i-- {
			n = n<<8 | uint64(path[i])
		}
	}
	if n > uint64(len(path)-pl) {
		return nil, fmt.Errorf("path: value truncated")
	}
	value := path[pl : pl+int(n)]
	h := sha256.Sum256(append([]byte{0}, value...))
	rest := path[pl+int(n):]
	if len(rest)%33 != 0 {
		return nil, fmt.Errorf("path: %d trailing bytes are not (side, hash) pairs", len(rest))
	}
	for i := 0; i < len(rest); i += 33 {
		sib := rest[i+1 : i+33]
		var b []byte
		if rest[i] == 0 {
			b = append(append([]byte{1}, sib...), h[:]...)
		} else {
			b = append(append([]byte{1}, h[:]...), sib...)
		}
		h = sha256.Sum256(b)
	}
	if common.Uint256(h) != root {
		return nil, fmt.Errorf("path leads to %x, root is %x", h[:8], root[:8])
	}
	return value, nil
}

// RefLeafHash is the RFC 6962 leaf hash, computed here (not by the code under test).
func RefLeafHash(v []byte) common.Uint256 { return sha256.Sum256(append([]byte{0}, v...)) }
