package lworld

import (
	"encoding/json"
	"fmt"

	"github.com/polynetwork/poly/common"
	cstates "github.com/polynetwork/poly/core/states"
	"github.com/polynetwork/poly/native"
	"github.com/polynetwork/poly/native/event"
	"github.com/polynetwork/poly/native/service/utils"

	"verif/harness/ev"
)

// ProbeAddress is the address of the scripted probe contract registered by the harness in
// native.Contracts (an exported map): it lets generated transactions drive the real
// executeBlock / HandleInvokeTransaction / NativeService bookkeeping with failures injected at any
// step, without modelling any real contract.
var ProbeAddress = common.Address{0xfe, 0xed, 0, 0, 0, 0, 0, 0, 0, 0, 0, 0, 0, 0, 0, 0, 0, 0, 0, 0x01}

// Step of a probe script.
//   put K V        write storage item V under K
//   del K          delete K
//   echo K         read K, write the value read (or "<absent>") under "echo:"+K   (makes leakage visible)
//   cross K V      store V as a storage item under K and emit V as a cross-chain record (PutMerkleVal)
//   notify V       emit an event with payload V
//   call SUB       nested NativeCall of the probe with script SUB (failure propagates)
//   trycall SUB    nested NativeCall whose failure is swallowed (the outer tx goes on)
//   fail           return an error
type Step struct {
	Op  string `json:"op"`
	K   ev.B   `json:"k,omitempty"`
	V   ev.B   `json:"v,omitempty"`
	Sub []Step `json:"sub,omitempty"`
}

func init() {
	native.Contracts[ProbeAddress] = func(s *native.NativeService) { s.Register("run", probeRun) }
}

func EncodeScript(steps []Step) []byte {
	b, err := json.Marshal(steps)
	if err != nil {
		panic(err)
	}
	return b
}

func probeKey(k []byte) []byte { return utils.ConcatKey(ProbeAddress, k) }

func probeRun(s *native.NativeService) ([]byte, error) {
	var steps []Step
	if err := json.Unmarshal(s.GetInput(), &steps); err != nil {
		return utils.BYTE_FALSE, fmt.Errorf("probe: bad script: %v", err)
	}
	for i, st := range steps {
		switch st.Op {
		case "put":
			s.GetCacheDB().Put(probeKey(st.K), cstates.GenRawStorageItem(st.V))
		case "del":
			s.GetCacheDB().Delete(probeKey(st.K))
		case "echo":
			raw, err := s.GetCacheDB().Get(probeKey(st.K))
			if err != nil {
				return utils.BYTE_FALSE, err
			}
			val := []byte("<absent>")
			if raw != nil {
				v, err := cstates.GetValueFromRawStorageItem(raw)
				if err != nil {
					return utils.BYTE_FALSE, err
				}
				val = append([]byte("="), v...)
			}
			s.GetCacheDB().Put(probeKey(append([]byte("echo:"), st.K...)), cstates.GenRawStorageItem(val))
		case "cross":
			s.GetCacheDB().Put(probeKey(st.K), cstates.GenRawStorageItem(st.V))
			s.PutMerkleVal(st.V)
		case "notify":
			s.AddNotify(&event.NotifyEventInfo{ContractAddress: ProbeAddress, States: []interface{}{"probe", fmt.Sprintf("%x", []byte(st.V))}})
		case "call", "trycall":
			in := s.GetInput()
			_, err := s.NativeCall(ProbeAddress, "run", EncodeScript(st.Sub))
			if err != nil && st.Op == "call" {
				return utils.BYTE_FALSE, fmt.Errorf("probe: nested call failed at step %d: %v", i, err)
			}
			_ = in
		case "fail":
			return utils.BYTE_FALSE, fmt.Errorf("probe: scripted failure at step %d", i)
		default:
			return utils.BYTE_FALSE, fmt.Errorf("probe: unknown op %q", st.Op)
		}
	}
	return utils.BYTE_TRUE, nil
}

// ---------------------------------------------------------------------------------------------
// reference interpreter (the oracle of C15): a plain map and lists, no storage layers.

type TxModel struct {
	OK      bool
	Cross   [][]byte // records emitted, in order
	Notify  []string // hex payloads, in order
	Touched map[string][]byte
}

// Interp applies a script to state (map key -> value; missing = absent). It returns whether the
// script succeeds; on failure state is left untouched (all-or-nothing), which is the property.
func Interp(state map[string][]byte, steps []Step) TxModel {
	work := map[string][]byte{}
	deleted := map[string]bool{}
	get := func(k string) ([]byte, bool) {
		if deleted[k] {
			return nil, false
		}
		if v, ok := work[k]; ok {
			return v, true
		}
		v, ok := state[k]
		return v, ok
	}
	m := TxModel{}
	var run func(steps []Step) bool
	run = func(steps []Step) bool {
		for _, st := range steps {
			switch st.Op {
			case "put":
				work[string(st.K)] = append([]byte{}, st.V...)
				delete(deleted, string(st.K))
			case "del":
				delete(work, string(st.K))
				deleted[string(st.K)] = true
			case "echo":
				v, ok := get(string(st.K))
				val := []byte("<absent>")
				if ok {
					val = append([]byte("="), v...)
				}
				k := "echo:" + string(st.K)
				work[k] = val
				delete(deleted, k)
			case "cross":
				work[string(st.K)] = append([]byte{}, st.V...)
				delete(deleted, string(st.K))
				m.Cross = append(m.Cross, append([]byte{}, st.V...))
			case "notify":
				m.Notify = append(m.Notify, fmt.Sprintf("%x", []byte(st.V)))
			case "call":
				if !run(st.Sub) {
					return false
				}
			case "trycall":
				// NOTE: a swallowed nested failure keeps the writes the nested call made before it
				// failed (the storage layer has no nested savepoints) but the real runtime drops the
				// nested call's events and cross records collected so far in that frame. The harness
				// does not judge that combination: generators only use trycall with sub-scripts that
				// cannot fail, unless stated otherwise.
				if !run(st.Sub) {
					return false
				}
			case "fail":
				return false
			default:
				return false
			}
		}
		return true
	}
	m.OK = run(steps)
	if !m.OK {
		return TxModel{OK: false}
	}
	m.Touched = map[string][]byte{}
	for k, v := range work {
		state[k] = v
		m.Touched[k] = v
	}
	for k := range deleted {
		delete(state, k)
		m.Touched[k] = nil
	}
	return m
}
