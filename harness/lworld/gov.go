package lworld

import (
	"fmt"
	"sort"

	"github.com/ontio/ontology-crypto/keypair"
	"github.com/polynetwork/poly/account"
	"github.com/polynetwork/poly/common"
	"github.com/polynetwork/poly/common/config"
	"github.com/polynetwork/poly/core/payload"
	"github.com/polynetwork/poly/core/signature"
	"github.com/polynetwork/poly/core/types"
	"github.com/polynetwork/poly/native/service/governance/node_manager"
	"github.com/polynetwork/poly/native/service/governance/relayer_manager"
	"github.com/polynetwork/poly/native/service/governance/side_chain_manager"
	"github.com/polynetwork/poly/native/service/utils"
	nstates "github.com/polynetwork/poly/native/states"

	"verif/harness/world"
)

// GovOp is one generated governance transaction for the L2 ledger, really signed.
//   regcand A [L]        pool account 10+A registers itself as candidate (L>0: registered by the separate owner account 50+L)
//   approvecand A V      validator V (index into the genesis validators) approves candidate A
//   black A V / white A V / quit A
//   commit               commitDpos witnessed by the operator multisig of the current consensus peers
//   regchain ID A R      account 10+A registers side chain ID with router R
//   approvechain ID V
//   regrelayer A L       account 10+A applies for relayers 30..30+L
//   approverelayer ID V
//   probe                scripted probe transaction (Steps)
type GovOp struct {
	Op    string `json:"op"`
	A     int    `json:"a,omitempty"`
	V     int    `json:"v,omitempty"`
	ID    uint64 `json:"id,omitempty"`
	R     uint64 `json:"r,omitempty"`
	L     int    `json:"l,omitempty"`
	Steps []Step `json:"steps,omitempty"`
	// Signer override: -1 default (the right one); otherwise pool account index that signs instead
	Signer int `json:"signer,omitempty"`
}

func ser(f func(*common.ZeroCopySink)) []byte {
	s := common.NewZeroCopySink(nil)
	f(s)
	return s.Bytes()
}

// ConsensusAccounts reads the committed peer pool of the current governance view from the ledger and
// returns the pool accounts that are consensus peers.
func (c *Chain) ConsensusAccounts() []*account.Account {
	gv, err := c.Ledger.GetStorageItem(utils.NodeManagerContractAddress, []byte(node_manager.GOVERNANCE_VIEW))
	if err != nil {
		return nil
	}
	view := new(node_manager.GovernanceView)
	if view.Deserialization(common.NewZeroCopySource(gv)) != nil {
		return nil
	}
	pp, err := c.Ledger.GetStorageItem(utils.NodeManagerContractAddress, append([]byte(node_manager.PEER_POOL), utils.GetUint32Bytes(view.View)...))
	if err != nil {
		return nil
	}
	m := &node_manager.PeerPoolMap{PeerPoolMap: map[string]*node_manager.PeerPoolItem{}}
	if m.Deserialization(common.NewZeroCopySource(pp)) != nil {
		return nil
	}
	var ids []string
	for k, it := range m.PeerPoolMap {
		if it.Status == node_manager.ConsensusStatus {
			ids = append(ids, k)
		}
	}
	sort.Strings(ids)
	var out []*account.Account
	for _, id := range ids {
		for i := 0; i < 64; i++ {
			if world.PubHex(world.Acct(i)) == id {
				out = append(out, world.Acct(i))
			}
		}
	}
	return out
}

// MultiSigTx builds a transaction witnessed by the m-of-n multi-signature address of keys.
func (c *Chain) MultiSigTx(contract common.Address, method string, args []byte, keys []*account.Account, m int) *types.Transaction {
	c.nonce++
	p := nstates.ContractInvokeParam{Address: contract, Method: method, Args: args}
	sink := common.NewZeroCopySink(nil)
	p.Serialization(sink)
	tx := &types.Transaction{Version: types.CURR_TX_VERSION, TxType: types.Invoke, Nonce: c.nonce, ChainID: config.GetChainIdByNetId(c.NetworkID),
		Payload: &payload.InvokeCode{Code: sink.Bytes()}}
	s0 := common.NewZeroCopySink(nil)
	tx.Serialization(s0)
	t0, err := types.TransactionFromRawBytes(s0.Bytes())
	if err != nil {
		panic(err)
	}
	h := t0.Hash()
	sig := types.Sig{M: uint16(m)}
	for i, a := range keys {
		sig.PubKeys = append(sig.PubKeys, a.PublicKey)
		if i < m {
			sd, err := signature.Sign(a, h[:])
			if err != nil {
				panic(err)
			}
			sig.SigData = append(sig.SigData, sd)
		}
	}
	tx.Sigs = []types.Sig{sig}
	s1 := common.NewZeroCopySink(nil)
	if err := tx.Serialization(s1); err != nil {
		panic(err)
	}
	t1, err := types.TransactionFromRawBytes(s1.Bytes())
	if err != nil {
		panic(err)
	}
	return t1
}

func cand(a int) *account.Account { return world.Acct(10 + a%20) }

// GovTx turns a GovOp into a signed transaction against the chain's current committed state.
func (c *Chain) GovTx(o GovOp) *types.Transaction {
	val := func(v int) *account.Account { return c.Vals[v%len(c.Vals)] }
	pick := func(def *account.Account) []*account.Account {
		if o.Signer > 0 {
			return []*account.Account{world.Acct(o.Signer % 64)}
		}
		return []*account.Account{def}
	}
	who := func(a int) *account.Account { // >= 100: a genesis validator, else a candidate account
		if a >= 100 {
			return c.Vals[(a-100)%len(c.Vals)]
		}
		return cand(a)
	}
	nm, scm, rm := utils.NodeManagerContractAddress, utils.SideChainManagerContractAddress, utils.RelayerManagerContractAddress
	switch o.Op {
	case "regcand":
		a := cand(o.A)
		owner := a
		if o.L > 0 {
			// the peer's owner (the wallet that registers and later quits the node) is a different account than the node key
			owner = world.Acct(50 + o.L%10)
		}
		p := &node_manager.RegisterPeerParam{PeerPubkey: world.PubHex(a), Address: owner.Address}
		return c.SignedTx(nm, node_manager.REGISTER_CANDIDATE, ser(p.Serialization), pick(owner))
	case "approvecand":
		v := val(o.V)
		p := &node_manager.PeerParam{PeerPubkey: world.PubHex(cand(o.A)), Address: v.Address}
		return c.SignedTx(nm, node_manager.APPROVE_CANDIDATE, ser(p.Serialization), pick(v))
	case "black", "white":
		v := val(o.V)
		method := node_manager.BLACK_NODE
		var args []byte
		if o.Op == "black" {
			p := &node_manager.PeerListParam{PeerPubkeyList: []string{world.PubHex(who(o.A))}, Address: v.Address}
			args = ser(p.Serialization)
		} else {
			method = node_manager.WHITE_NODE
			p := &node_manager.PeerParam{PeerPubkey: world.PubHex(who(o.A)), Address: v.Address}
			args = ser(p.Serialization)
		}
		return c.SignedTx(nm, method, args, pick(v))
	case "quit":
		a := who(o.A)
		p := &node_manager.PeerParam{PeerPubkey: world.PubHex(a), Address: a.Address}
		return c.SignedTx(nm, node_manager.QUIT_NODE, ser(p.Serialization), pick(a))
	case "commit":
		cons := c.ConsensusAccounts()
		if len(cons) == 0 {
			cons = c.Vals
		}
		var pks []keypair.PublicKey
		for _, a := range cons {
			pks = append(pks, a.PublicKey)
		}
		n := len(cons)
		return c.MultiSigTx(nm, node_manager.COMMIT_DPOS, nil, cons, n-(n-1)/3)
	case "regchain":
		a := cand(o.A)
		p := &side_chain_manager.RegisterSideChainParam{Address: a.Address, ChainId: 100 + o.ID%5, Router: o.R % 24, Name: fmt.Sprintf("chain-%d", o.ID),
			BlocksToWait: 1 + o.ID%7, CCMCAddress: []byte{1, 2, 3, byte(o.ID)}, ExtraInfo: []byte{byte(o.R)}}
		return c.SignedTx(scm, side_chain_manager.REGISTER_SIDE_CHAIN, ser(func(s *common.ZeroCopySink) { p.Serialization(s) }), pick(a))
	case "approvechain":
		v := val(o.V)
		p := &side_chain_manager.ChainidParam{Chainid: 100 + o.ID%5, Address: v.Address}
		return c.SignedTx(scm, side_chain_manager.APPROVE_REGISTER_SIDE_CHAIN, ser(p.Serialization), pick(v))
	case "regrelayer":
		a := cand(o.A)
		p := &relayer_manager.RelayerListParam{AddressList: RelayerList(o), Address: a.Address}
		return c.SignedTx(rm, relayer_manager.REGISTER_RELAYER, ser(p.Serialization), pick(a))
	case "rmrelayer":
		a := cand(o.A)
		p := &relayer_manager.RelayerListParam{AddressList: RelayerList(o), Address: a.Address}
		return c.SignedTx(rm, relayer_manager.REMOVE_RELAYER, ser(p.Serialization), pick(a))
	case "approvermrelayer":
		v := val(o.V)
		p := &relayer_manager.ApproveRelayerParam{ID: o.ID % 4, Address: v.Address}
		return c.SignedTx(rm, relayer_manager.APPROVE_REMOVE_RELAYER, ser(p.Serialization), pick(v))
	case "approverelayer":
		v := val(o.V)
		p := &relayer_manager.ApproveRelayerParam{ID: o.ID % 4, Address: v.Address}
		return c.SignedTx(rm, relayer_manager.APPROVE_REGISTER_RELAYER, ser(p.Serialization), pick(v))
	case "probe":
		return c.SignedTx(ProbeAddress, "run", EncodeScript(o.Steps), nil)
	}
	panic("lworld: unknown gov op " + o.Op)
}

// RelayerAccounts / RelayerList: the relayer addresses a regrelayer / rmrelayer op names
// (pool accounts 30+i+A%3 for i = 0..L%4).
func RelayerAccounts(o GovOp) []*account.Account {
	var out []*account.Account
	for i := 0; i <= o.L%4; i++ {
		out = append(out, world.Acct(30+i+o.A%3))
	}
	return out
}

func RelayerList(o GovOp) []common.Address {
	var list []common.Address
	for _, a := range RelayerAccounts(o) {
		list = append(list, a.Address)
	}
	return list
}
