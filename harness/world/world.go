// Package world holds the shared fixtures of the harness: deterministic key pools and the
// "native world" (L1): the real native-contract runtime over an in-memory LevelDB store, with
// genesis initConfig executed for a chosen validator set. Transactions are "signed" by setting
// tx.SignedAddr (an exported field consulted by GetSignatureAddresses), so any witness set can be
// generated without signing.
package world

import (
	"bytes"
	"crypto/ecdsa"
	"crypto/elliptic"
	"crypto/sha256"
	"encoding/hex"
	"fmt"
	"math/big"
	"sort"
	"sync"

	"github.com/ontio/ontology-crypto/ec"
	"github.com/ontio/ontology-crypto/keypair"
	s "github.com/ontio/ontology-crypto/signature"
	"github.com/polynetwork/poly/account"
	"github.com/polynetwork/poly/common"
	"github.com/polynetwork/poly/common/config"
	vconfig "github.com/polynetwork/poly/consensus/vbft/config"
	"github.com/polynetwork/poly/core/payload"
	"github.com/polynetwork/poly/core/states"
	"github.com/polynetwork/poly/core/store/leveldbstore"
	"github.com/polynetwork/poly/core/store/overlaydb"
	"github.com/polynetwork/poly/core/types"
	"github.com/polynetwork/poly/native"
	"github.com/polynetwork/poly/native/event"
	_ "github.com/polynetwork/poly/native/service" // registers the native contracts
	"github.com/polynetwork/poly/native/service/governance/node_manager"
	"github.com/polynetwork/poly/native/service/utils"
	nstates "github.com/polynetwork/poly/native/states"
	"github.com/polynetwork/poly/native/storage"
	"golang.org/x/crypto/ripemd160"
)

// ---------------------------------------------------------------------------------------------
// deterministic keys

var (
	acctMu sync.Mutex
	accts  = map[int]*account.Account{}
)

// Acct returns the i-th deterministic ECDSA-P256 account of the pool (same key in every process).
func Acct(i int) *account.Account {
	acctMu.Lock()
	defer acctMu.Unlock()
	if a, ok := accts[i]; ok {
		return a
	}
	c := elliptic.P256()
	h := sha256.Sum256([]byte(fmt.Sprintf("verif-poly-key-%d", i)))
	d := new(big.Int).SetBytes(h[:])
	d.Mod(d, new(big.Int).Sub(c.Params().N, big.NewInt(1)))
	d.Add(d, big.NewInt(1))
	x, y := c.ScalarBaseMult(d.Bytes())
	pri := &ec.PrivateKey{Algorithm: ec.ECDSA, PrivateKey: &ecdsa.PrivateKey{PublicKey: ecdsa.PublicKey{Curve: c, X: x, Y: y}, D: d}}
	pub := pri.Public()
	a := &account.Account{PrivateKey: pri, PublicKey: pub, Address: types.AddressFromPubKey(pub), SigScheme: s.SHA256withECDSA}
	accts[i] = a
	return a
}

// Accts returns accounts [from, from+n).
func Accts(from, n int) []*account.Account {
	out := make([]*account.Account, n)
	for i := range out {
		out[i] = Acct(from + i)
	}
	return out
}

// PubHex is the hex string of the serialized public key (the "peer pubkey" of governance).
func PubHex(a *account.Account) string {
	return hex.EncodeToString(keypair.SerializePublicKey(a.PublicKey))
}

// OperatorAddress recomputes, independently of node_manager AND of core/types, the consensus operator
// address: the (N - floor((N-1)/3))-of-N multi-signature address over the given public keys. The
// program (u16 n, var-bytes of each compressed key in ascending key order, u16 m, little endian) and
// its address ripemd160(sha256(program)) are built here; only P-256 ECDSA keys (the harness pool) are
// supported.
func OperatorAddress(pubs []keypair.PublicKey) common.Address {
	n := len(pubs)
	if n == 1 {
		return RefKeyAddress(pubs[0]) // a single consensus peer is its own operator (no 1-of-1 program)
	}
	return RefMultiAddress(pubs, n-(n-1)/3)
}

// RefKeyEnc is the compressed encoding of a P-256 ECDSA public key of the harness pool.
func RefKeyEnc(pub keypair.PublicKey) []byte {
	pk, ok := pub.(*ec.PublicKey)
	if !ok || pk.Curve != elliptic.P256() {
		panic("world: reference address derivation supports the P-256 ECDSA pool keys only")
	}
	out := make([]byte, 33)
	out[0] = 2 + byte(pk.Y.Bit(0))
	pk.X.FillBytes(out[1:])
	return out
}

// RefAddress is ripemd160(sha256(program)).
func RefAddress(program []byte) (a common.Address) {
	t := sha256.Sum256(program)
	h := ripemd160.New()
	h.Write(t[:])
	copy(a[:], h.Sum(nil))
	return
}

// RefKeyAddress is the address of a single pool key.
func RefKeyAddress(pub keypair.PublicKey) common.Address { return RefAddress(RefKeyEnc(pub)) }

// RefMultiAddress is the address of the m-of-n program over the given pool keys.
func RefMultiAddress(pubs []keypair.PublicKey, m int) common.Address {
	type xy struct {
		x, y *big.Int
		enc  []byte
	}
	ks := make([]xy, len(pubs))
	for i, p := range pubs {
		pk := p.(*ec.PublicKey)
		ks[i] = xy{pk.X, pk.Y, RefKeyEnc(p)}
	}
	sort.SliceStable(ks, func(i, j int) bool {
		if c := ks[i].x.Cmp(ks[j].x); c != 0 {
			return c < 0
		}
		return ks[i].y.Cmp(ks[j].y) < 0
	})
	prog := []byte{byte(len(ks)), byte(len(ks) >> 8)}
	for _, k := range ks {
		prog = append(prog, byte(len(k.enc)))
		prog = append(prog, k.enc...)
	}
	prog = append(prog, byte(m), byte(m>>8))
	return RefAddress(prog)
}

// ---------------------------------------------------------------------------------------------
// L1 native world

type World struct {
	Store      *leveldbstore.LevelDBStore
	Overlay    *overlaydb.OverlayDB
	Cache      *storage.CacheDB
	Height     uint32
	Time       uint32
	ChainID    uint64
	BlockHash  common.Uint256
	Validators []*account.Account // genesis consensus peers, index i+1
	nonce      uint32
	// PersistBlocks makes NextBlock end the block the way the ledger does (see Persist). Off by
	// default: several harnesses read Overlay.GetWriteSet() as "everything written since genesis".
	PersistBlocks bool
}

type Opts struct {
	NetworkID          uint32 // default test net (2); main net = 1
	MaxBlockChangeView uint32 // default 60000
	StartHeight        uint32
}

// ResetGlobals puts the process-wide configuration the native contracts read into a fixed state.
func ResetGlobals(networkID uint32) {
	if networkID == 0 {
		networkID = config.NETWORK_ID_TEST_NET
	}
	config.DefConfig.P2PNode.NetworkId = networkID
	// Without a ledger the side-chain codecs must not consult ledger.DefLedger (see DESIGN 4).
	config.EXTRA_INFO_HEIGHT_FORK_CHECK = false
}

func VBFTConfigFor(vals []*account.Account, maxBlockChangeView uint32) *config.VBFTConfig {
	peers := make([]*config.VBFTPeerInfo, len(vals))
	for i, a := range vals {
		peers[i] = &config.VBFTPeerInfo{Index: uint32(i + 1), PeerPubkey: PubHex(a), Address: addr58(a.Address)}
	}
	return &config.VBFTConfig{
		BlockMsgDelay: 10000, HashMsgDelay: 10000, PeerHandshakeTimeout: 10, MaxBlockChangeView: maxBlockChangeView,
		VrfValue: "1c9810aa9822e511d5804a9c4db9dd08497c31087b0daafa34d768a3253441fa20515e2f30f81741102af0ca3cefc4818fef16adb825fbaa8cad78647f3afb590e",
		VrfProof: "c57741f934042cb8d8b087b44b161db56fc3ffd4ffb675d36cd09f83935be853d8729f3f5298d12d6fd28d45dde515a4b9d7f67682d182ba5118abf451ff1988",
		Peers:    peers,
	}
}

// New builds a world whose genesis initConfig installs validators Acct(0..n-1).
func New(n int, o Opts) *World {
	ResetGlobals(o.NetworkID)
	if o.MaxBlockChangeView == 0 {
		o.MaxBlockChangeView = 60000
	}
	st, err := leveldbstore.NewMemLevelDBStore()
	if err != nil {
		panic(err)
	}
	w := &World{Store: st, ChainID: config.GetChainIdByNetId(config.DefConfig.P2PNode.NetworkId), Time: 1600000000}
	w.Overlay = overlaydb.NewOverlayDB(st)
	w.Cache = storage.NewCacheDB(w.Overlay)
	w.Validators = Accts(0, n)
	sink := common.NewZeroCopySink(nil)
	VBFTConfigFor(w.Validators, o.MaxBlockChangeView).Serialization(sink)
	r := w.Invoke(utils.NodeManagerContractAddress, "initConfig", sink.Bytes(), nil)
	if r.Err != nil {
		panic("world: genesis initConfig failed: " + r.Err.Error())
	}
	w.Height = o.StartHeight
	if w.Height == 0 {
		w.Height = 1
	}
	return w
}

type Result struct {
	Ret         interface{}
	Err         error
	Panic       string
	Notify      []*event.NotifyEventInfo
	CrossHashes []common.Uint256
	TxHash      common.Uint256
}

func (r Result) OK() bool { return r.Err == nil && r.Panic == "" }

// MakeTx builds an invoke transaction that calls contract.method(args), witnessed by signers.
func (w *World) MakeTx(contract common.Address, method string, args []byte, signers []common.Address) *types.Transaction {
	p := nstates.ContractInvokeParam{Address: contract, Method: method, Args: args}
	sink := common.NewZeroCopySink(nil)
	p.Serialization(sink)
	w.nonce++
	tx := &types.Transaction{Version: types.CURR_TX_VERSION, TxType: types.Invoke, Nonce: w.nonce, ChainID: w.ChainID,
		Payload: &payload.InvokeCode{Code: sink.Bytes()}}
	// give the transaction its raw bytes / hash exactly as a decoded transaction has them
	s2 := common.NewZeroCopySink(nil)
	if err := tx.Serialization(s2); err != nil {
		panic(err)
	}
	t2, err := types.TransactionFromRawBytes(s2.Bytes())
	if err != nil {
		panic(err)
	}
	t2.SignedAddr = append([]common.Address{}, signers...)
	return t2
}

// Invoke executes one transaction the way executeBlock + HandleInvokeTransaction do: the
// transaction layer is reset first, committed into the block layer on success only.
func (w *World) Invoke(contract common.Address, method string, args []byte, signers []common.Address) Result {
	return w.Exec(w.MakeTx(contract, method, args, signers))
}

func (w *World) Exec(tx *types.Transaction) (res Result) {
	w.Cache.Reset()
	res.TxHash = tx.Hash()
	code := tx.Payload.(*payload.InvokeCode).Code
	svc, err := native.NewNativeService(w.Cache, tx, w.Time, w.Height, w.BlockHash, w.ChainID, code, false)
	if err != nil {
		res.Err = err
		return
	}
	func() {
		defer func() {
			if r := recover(); r != nil {
				res.Panic = fmt.Sprintf("%v", r)
				res.Err = fmt.Errorf("panic: %v", r)
			}
		}()
		res.Ret, res.Err = svc.Invoke()
	}()
	if res.Err != nil {
		w.Cache.Reset()
		return
	}
	res.Notify = svc.GetNotify()
	res.CrossHashes = svc.GetCrossHashes()
	w.Cache.Commit()
	return
}

// NextBlock advances height and time like a new block (the block overlay keeps accumulating;
// reads go through it, so this is equivalent to committing and reopening for contract code).
func (w *World) NextBlock() {
	if w.PersistBlocks {
		w.Persist()
	}
	w.Height++
	w.Time += 2
	w.BlockHash = common.Uint256(sha256.Sum256([]byte(fmt.Sprintf("blk-%d", w.Height))))
}

// Persist ends the current block the way the ledger's submitBlock does: the block overlay is
// written to the backing store and a fresh overlay and transaction cache are opened over it, so
// later transactions read committed state through an empty overlay (and deletes made in a later
// block shadow PERSISTED values - the boundary a never-flushed overlay cannot exercise).
// Overlay and Cache are replaced: do not hold on to the old pointers.
func (w *World) Persist() {
	w.Store.NewBatch()
	w.Overlay.CommitTo()
	if err := w.Store.BatchCommit(); err != nil {
		panic("world: persist: " + err.Error())
	}
	w.Overlay = overlaydb.NewOverlayDB(w.Store)
	w.Cache = storage.NewCacheDB(w.Overlay)
}

// Dump returns every key/value visible through the block layer (store + uncommitted overlay),
// sorted by key: the full contract state as the next transaction would see it.
func (w *World) Dump() [][2][]byte {
	var out [][2][]byte
	it := w.Overlay.NewIterator(nil)
	for ok := it.First(); ok; ok = it.Next() {
		out = append(out, [2][]byte{append([]byte(nil), it.Key()...), append([]byte(nil), it.Value()...)})
	}
	it.Release()
	sort.Slice(out, func(i, j int) bool { return bytes.Compare(out[i][0], out[j][0]) < 0 })
	return out
}

// DumpHash is a digest of Dump (cheap equality of whole states).
func (w *World) DumpHash() [32]byte {
	h := sha256.New()
	for _, kv := range w.Dump() {
		var l [8]byte
		l[0], l[1], l[2], l[3] = byte(len(kv[0])), byte(len(kv[0])>>8), byte(len(kv[0])>>16), byte(len(kv[0])>>24)
		l[4], l[5], l[6], l[7] = byte(len(kv[1])), byte(len(kv[1])>>8), byte(len(kv[1])>>16), byte(len(kv[1])>>24)
		h.Write(l[:])
		h.Write(kv[0])
		h.Write(kv[1])
	}
	var o [32]byte
	copy(o[:], h.Sum(nil))
	return o
}

// DiffDump describes the first difference between two dumps ("" if equal).
func DiffDump(a, b [][2][]byte) string {
	am := map[string][]byte{}
	for _, kv := range a {
		am[string(kv[0])] = kv[1]
	}
	for _, kv := range b {
		v, ok := am[string(kv[0])]
		if !ok {
			return fmt.Sprintf("key %x added (value %x)", kv[0], clip(kv[1]))
		}
		if !bytes.Equal(v, kv[1]) {
			return fmt.Sprintf("key %x changed: %x -> %x", kv[0], clip(v), clip(kv[1]))
		}
		delete(am, string(kv[0]))
	}
	for k := range am {
		return fmt.Sprintf("key %x removed", k)
	}
	return ""
}

func clip(b []byte) []byte {
	if len(b) > 48 {
		return b[:48]
	}
	return b
}

// Get reads a raw contract-storage key (contract address || suffix) through the tx layer and
// strips the storage-item wrapper. Returns nil when absent.
func (w *World) Get(key []byte) []byte {
	v, err := w.Cache.Get(key)
	if err != nil || v == nil {
		return nil
	}
	item, err := states.GetValueFromRawStorageItem(v)
	if err != nil {
		return v
	}
	return item
}

// ConsensusPeers returns the accounts' pubkey strings that currently have consensus status,
// read from the real peer pool of the current governance view.
func (w *World) ConsensusPeers() (pubs []string, all map[string]*node_manager.PeerPoolItem) {
	svc, _ := native.NewNativeService(w.Cache, &types.Transaction{ChainID: w.ChainID}, w.Time, w.Height, w.BlockHash, w.ChainID, nil, false)
	view, err := node_manager.GetView(svc)
	if err != nil {
		panic(err)
	}
	m, err := node_manager.GetPeerPoolMap(svc, view)
	if err != nil {
		panic(err)
	}
	for k, it := range m.PeerPoolMap {
		if it.Status == node_manager.ConsensusStatus {
			pubs = append(pubs, k)
		}
	}
	sort.Strings(pubs)
	return pubs, m.PeerPoolMap
}

// Service returns a throw-away NativeService bound to the world's tx layer (for calling exported
// getters of the contracts).
func (w *World) Service() *native.NativeService {
	svc, _ := native.NewNativeService(w.Cache, &types.Transaction{ChainID: w.ChainID}, w.Time, w.Height, w.BlockHash, w.ChainID, nil, false)
	return svc
}

// OperatorOf computes the operator address for a list of peer pubkey hex strings.
func OperatorOf(pubHexes []string) common.Address {
	var pubs []keypair.PublicKey
	for _, h := range pubHexes {
		pk, err := vconfig.Pubkey(h)
		if err != nil {
			panic(err)
		}
		pubs = append(pubs, pk)
	}
	return OperatorAddress(pubs)
}

// Operator is the operator address of the current consensus peers.
func (w *World) Operator() common.Address {
	pubs, _ := w.ConsensusPeers()
	return OperatorOf(pubs)
}

func addr58(a common.Address) string { return a.ToBase58() }
