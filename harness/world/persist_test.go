package world

import (
	"testing"

	"github.com/ontio/ontology-crypto/keypair"
	"github.com/polynetwork/poly/core/types"

	"github.com/polynetwork/poly/native/service/utils"
)

// sanity of Persist: the dump (and therefore every contract read) is unchanged by ending a block
func TestPersistKeepsState(t *testing.T) {
	w := New(4, Opts{})
	before := w.DumpHash()
	w.Persist()
	if w.DumpHash() != before {
		t.Fatalf("dump changed by Persist")
	}
	w.PersistBlocks = true
	w.NextBlock()
	r := w.Invoke(utils.NodeManagerContractAddress, "commitDpos", nil, nil)
	_ = r
	if len(w.Dump()) == 0 {
		t.Fatalf("empty dump")
	}
}

// the reference address derivation agrees with the node's on the unchanged tree (sanity of the harness, not a check)
func TestRefAddresses(t *testing.T) {
	for n := 1; n <= 9; n++ {
		var pubs []keypair.PublicKey
		for _, a := range Accts(0, n) {
			pubs = append(pubs, a.PublicKey)
			if RefKeyAddress(a.PublicKey) != a.Address {
				t.Fatalf("single-key address differs for account")
			}
		}
		if n > 1 {
			want, err := types.AddressFromMultiPubKeys(pubs, n-(n-1)/3)
			if err != nil || want != OperatorAddress(pubs) {
				t.Fatalf("n=%d: operator address differs: %v", n, err)
			}
		}
	}
}
