package world

import (
	"testing"

	"github.com/polynetwork/poly/native/service/utils"
)

// sanity of Persist: the dump (and therefore every contract read) is unchanged by ending a block
func TestPersistKeepsState(t *testing.T) {
	w := New(4, Opts{})
	before := w.DumpHash()
	w.Persist()
	if w.DumpHash() != before {
		t.Fatalf("dump changed by Persist")
	}
	w.PersistBlocks = true
	w.NextBlock()
	r := w.Invoke(utils.NodeManagerContractAddress, "commitDpos", nil, nil)
	_ = r
	if len(w.Dump()) == 0 {
		t.Fatalf("empty dump")
	}
}
