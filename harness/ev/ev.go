// Package ev is the shared driver glue of the verification harness: it runs a property as
// "generate a case -> run it against the real code with an explicit oracle", records evidence
// (evaluations, distinct non-trivial cases, labels, samples), writes a replay file for every
// oracle failure (the smallest failing case wins, so after rapid's shrinking the file holds the
// minimal reproduction), replays committed regression cases first, and implements the
// known-findings policy.
package ev

import (
	"crypto/sha256"
	"encoding/binary"
	"encoding/json"
	"fmt"
	"os"
	"path/filepath"
	"runtime/debug"
	"sort"
	"strconv"
	"strings"
	"sync"
	"testing"
	"time"

	"pgregory.net/rapid"
)

// ---------------------------------------------------------------------------------------------
// configuration from the environment (set by /verif/check)

func envOr(k, d string) string {
	if v := os.Getenv(k); v != "" {
		return v
	}
	return d
}

func VerifDir() string { return envOr("VERIF_DIR", "/verif") }
func OutDir() string   { return envOr("VERIF_OUT", filepath.Join(VerifDir(), "out", "shards")) }
func Tier() string     { return envOr("VERIF_TIER", "quick") }
func Thorough() bool   { return Tier() == "thorough" }
func Shard() int       { n, _ := strconv.Atoi(envOr("VERIF_SHARD", "0")); return n }

// shardFile is the unique index used in output file names (a check may consist of several test
// units, each with its own local shard numbering).
func shardFile() int {
	if os.Getenv("VERIF_FUZZ") != "" {
		// native fuzzing: the coordinator and every worker are separate processes of one campaign
		return 1_000_000 + os.Getpid()
	}
	n, _ := strconv.Atoi(envOr("VERIF_SHARD_FILE", envOr("VERIF_SHARD", "0")))
	return n
}
func Shards() int {
	n, _ := strconv.Atoi(envOr("VERIF_SHARDS", "1"))
	if n < 1 {
		n = 1
	}
	return n
}

// Scale returns q in the quick tier and th in the thorough tier.
func Scale(q, th int) int {
	if Thorough() {
		return th
	}
	return q
}

// ---------------------------------------------------------------------------------------------
// known findings

type Finding struct {
	Property string `json:"property"`
	Key      string `json:"key"`
	Status   string `json:"status"` // "known" | "fixed"
	What     string `json:"what"`
	Commit   string `json:"commit,omitempty"`
}

var (
	knownOnce sync.Once
	knownMap  map[string]Finding
)

func loadKnown() {
	knownMap = map[string]Finding{}
	b, err := os.ReadFile(envOr("VERIF_KNOWN", filepath.Join(VerifDir(), "known_findings.json")))
	if err != nil {
		return
	}
	var f struct {
		Findings []Finding `json:"findings"`
	}
	if json.Unmarshal(b, &f) != nil {
		return
	}
	for _, x := range f.Findings {
		if x.Status == "known" {
			knownMap[x.Property+"|"+x.Key] = x
		}
	}
}

// IsKnown reports whether (property, root-cause key) is listed as a known (unrepaired) finding.
// Generators use it to exclude the class by construction; oracles use Ctx.Known.
func IsKnown(id, key string) bool {
	knownOnce.Do(loadKnown)
	_, ok := knownMap[id+"|"+key]
	return ok
}

// ---------------------------------------------------------------------------------------------
// recorder

type Rec struct {
	mu         sync.Mutex
	ID         string
	evals      int
	nontrivial map[uint64]struct{}
	capped     bool
	labels     map[string]int
	samples    []json.RawMessage
	sampleSeen int
	known      map[string]string // key -> message (observed known findings)
	viol       []violation
	extra      map[string]interface{}
	start      time.Time
	bestLen    map[string]int
	rule       string
	exhaustive bool
	test       string
}

type violation struct {
	Replay string `json:"replay"`
	Msg    string `json:"msg"`
}

var (
	recMu sync.Mutex
	recs  = map[string]*Rec{}
)

func Get(id string) *Rec {
	recMu.Lock()
	defer recMu.Unlock()
	r := recs[id]
	if r == nil {
		r = &Rec{ID: id, nontrivial: map[uint64]struct{}{}, labels: map[string]int{}, known: map[string]string{},
			extra: map[string]interface{}{}, start: time.Now(), bestLen: map[string]int{}}
		recs[id] = r
	}
	return r
}

const maxHashes = 4_000_000

func (r *Rec) SetRule(s string)              { r.mu.Lock(); r.rule = s; r.mu.Unlock() }
func (r *Rec) SetExhaustive(b bool)          { r.mu.Lock(); r.exhaustive = b; r.mu.Unlock() }
func (r *Rec) Extra(k string, v interface{}) { r.mu.Lock(); r.extra[k] = v; r.mu.Unlock() }
func (r *Rec) AddLabel(l string, n int)      { r.mu.Lock(); r.labels[l] += n; r.mu.Unlock() }
func (r *Rec) CountOnly(n int)               { r.mu.Lock(); r.evals += n; r.mu.Unlock() }
func (r *Rec) Evaluations() int              { r.mu.Lock(); defer r.mu.Unlock(); return r.evals }
func (r *Rec) record(c *Ctx, enc []byte) {
	r.mu.Lock()
	defer r.mu.Unlock()
	r.evals++
	for _, l := range c.labels {
		r.labels[l]++
	}
	if c.nontrivial {
		h := sha256.Sum256(enc)
		k := binary.LittleEndian.Uint64(h[:8])
		if len(r.nontrivial) < maxHashes {
			r.nontrivial[k] = struct{}{}
		} else {
			r.capped = true
		}
		// reservoir of samples: first 3 non-trivial cases and then a sparse tail
		r.sampleSeen++
		if len(r.samples) < 4 || (r.sampleSeen%997 == 0 && len(r.samples) < 8) {
			s := enc
			if len(s) > 700 {
				q, _ := json.Marshal(string(s[:700]) + "...(truncated)")
				s = q
			}
			r.samples = append(r.samples, json.RawMessage(append([]byte(nil), s...)))
		}
	}
	for k, m := range c.known {
		r.known[k] = m
	}
}

// Flush writes this process's shard file; called from TestMain (see Main).
func (r *Rec) Flush() {
	r.mu.Lock()
	defer r.mu.Unlock()
	dir := OutDir()
	os.MkdirAll(dir, 0o755)
	hs := make([]uint64, 0, len(r.nontrivial))
	for k := range r.nontrivial {
		hs = append(hs, k)
	}
	sort.Slice(hs, func(i, j int) bool { return hs[i] < hs[j] })
	hb := make([]byte, 8*len(hs))
	for i, h := range hs {
		binary.LittleEndian.PutUint64(hb[8*i:], h)
	}
	base := filepath.Join(dir, fmt.Sprintf("%s.%d", r.ID, shardFile()))
	os.WriteFile(base+".hashes", hb, 0o644)
	if len(r.samples) == 0 {
		r.samples = nil
	}
	out := map[string]interface{}{
		"property_id": r.ID, "shard": shardFile(), "test": r.test, "evaluations": r.evals, "distinct_nontrivial": len(hs),
		"hashes_capped": r.capped, "labels": r.labels, "samples": r.samples, "known": r.known,
		"violations": r.viol, "extra": r.extra, "wall_s": time.Since(r.start).Seconds(), "rule": r.rule,
		"exhaustive": r.exhaustive,
	}
	b, _ := json.MarshalIndent(out, "", " ")
	os.WriteFile(base+".json", b, 0o644)
}

// Main is the TestMain body of every harness test package.
func Main(m *testing.M) {
	code := m.Run()
	recMu.Lock()
	all := make([]*Rec, 0, len(recs))
	for _, r := range recs {
		all = append(all, r)
	}
	recMu.Unlock()
	for _, r := range all {
		r.Flush()
	}
	os.Exit(code)
}

// ---------------------------------------------------------------------------------------------
// per-case context

type Ctx struct {
	ID         string
	labels     []string
	nontrivial bool
	known      map[string]string
	failed     bool
	msg        string
	Replaying  bool
}

type failSentinel struct{}

func (c *Ctx) Label(l string)     { c.labels = append(c.labels, l) }
func (c *Ctx) NonTrivial()        { c.nontrivial = true }
func (c *Ctx) IsNonTrivial() bool { return c.nontrivial }

// Failf records an oracle failure for the current case and unwinds to the driver.
func (c *Ctx) Failf(format string, a ...interface{}) {
	c.failed = true
	c.msg = fmt.Sprintf(format, a...)
	panic(failSentinel{})
}

// Known handles a failure with a root-cause key: if the key is listed as a known finding it is
// recorded (KNOWN-FINDING line, run continues, returns true); otherwise it is a violation.
func (c *Ctx) Known(key, format string, a ...interface{}) bool {
	if IsKnown(c.ID, key) {
		if c.known == nil {
			c.known = map[string]string{}
		}
		c.known[key] = fmt.Sprintf(format, a...)
		return true
	}
	c.Failf("[key=%s] "+format, append([]interface{}{key}, a...)...)
	return false
}

// Catch runs f and returns a description of the panic it raised, or "" if none. Oracle failures
// raised through Failf inside f are passed through.
func Catch(f func()) (p string) {
	defer func() {
		if r := recover(); r != nil {
			if _, ok := r.(failSentinel); ok {
				panic(r)
			}
			p = fmt.Sprintf("%v\n%s", r, trimStack(debug.Stack()))
		}
	}()
	f()
	return ""
}

func trimStack(b []byte) string {
	s := string(b)
	lines := strings.Split(s, "\n")
	if len(lines) > 40 {
		lines = lines[:40]
	}
	return strings.Join(lines, "\n")
}

// PanicSite extracts the first poly frame "file.go:line" of a Catch result, for root-cause keys.
func PanicSite(p string) string {
	for _, l := range strings.Split(p, "\n") {
		l = strings.TrimSpace(l)
		if i := strings.Index(l, "/repo/"); i >= 0 && strings.Contains(l, ".go:") {
			s := l[i+len("/repo/"):]
			if j := strings.Index(s, " "); j >= 0 {
				s = s[:j]
			}
			if k := strings.LastIndex(s, ":"); k >= 0 {
				return s[:k] // file only: line numbers shift with unrelated edits
			}
			return s
		}
	}
	return "unknown"
}

// runOne executes run on one case, converting Failf and stray panics into (failed,msg).
func runOne[C any](id string, c C, run func(*Ctx, C), replaying bool) (ctx *Ctx) {
	ctx = &Ctx{ID: id, Replaying: replaying}
	defer func() {
		if r := recover(); r != nil {
			if _, ok := r.(failSentinel); ok {
				return
			}
			ctx.failed = true
			ctx.msg = fmt.Sprintf("panic: %v\n%s", r, trimStack(debug.Stack()))
		}
	}()
	run(ctx, c)
	return ctx
}

type replayFile struct {
	Property string          `json:"property"`
	Test     string          `json:"test,omitempty"`
	Msg      string          `json:"msg"`
	Case     json.RawMessage `json:"case"`
}

func (r *Rec) saveViolation(enc []byte, msg string) string {
	dir := filepath.Join(envOr("VERIF_REPLAY_DIR", filepath.Join(VerifDir(), "out", "replays")), r.ID)
	os.MkdirAll(dir, 0o755)
	path := filepath.Join(dir, fmt.Sprintf("shard%d-%s.json", shardFile(), Tier()))
	r.mu.Lock()
	defer r.mu.Unlock()
	if best, ok := r.bestLen[path]; ok && len(enc) > best {
		return path
	}
	r.bestLen[path] = len(enc)
	b, _ := json.MarshalIndent(replayFile{Property: r.ID, Test: r.test, Msg: msg, Case: enc}, "", " ")
	os.WriteFile(path, b, 0o644)
	found := false
	for i := range r.viol {
		if r.viol[i].Replay == path {
			r.viol[i].Msg = msg
			found = true
		}
	}
	if !found {
		r.viol = append(r.viol, violation{Replay: path, Msg: msg})
	}
	return path
}

// Drive decides one property: committed regression cases first (shard 0), then generated search.
// C must be JSON-serialisable; the JSON encoding of the case is the replay file payload.
func Drive[C any](t *testing.T, id string, rule string, gen func(*rapid.T) C, run func(*Ctx, C)) {
	rec := Get(id)
	rec.SetRule(rule)
	rec.mu.Lock()
	rec.test = t.Name()
	rec.mu.Unlock()
	if p := os.Getenv("VERIF_REPLAY"); p != "" {
		replayPath(t, rec, p, run, true)
		return
	}
	if Shard() == 0 {
		files, _ := filepath.Glob(filepath.Join(VerifDir(), "regress", id+os.Getenv("VERIF_REGRESS_SUFFIX"), "*.json"))
		sort.Strings(files)
		for _, f := range files {
			replayPath(t, rec, f, run, false)
		}
		rec.Extra("regression_cases_replayed", len(files))
	}
	if t.Failed() {
		return
	}
	rapid.Check(t, func(rt *rapid.T) {
		c := gen(rt)
		one(rt, rec, c, run)
	})
}

type fataler interface {
	Fatalf(format string, args ...any)
}

func one[C any](rt fataler, rec *Rec, c C, run func(*Ctx, C)) {
	enc, err := json.Marshal(c)
	if err != nil {
		panic("harness: case not serialisable: " + err.Error())
	}
	ctx := runOne(rec.ID, c, run, false)
	rec.record(ctx, enc)
	if ctx.failed {
		p := rec.saveViolation(enc, ctx.msg)
		fmt.Printf("VERIF-VIOLATION property=%s replay=%s\n", rec.ID, p)
		rt.Fatalf("%s: %s", rec.ID, ctx.msg)
	}
}

// Fuzz makes Go's coverage-guided fuzzer a second generator for a Drive unit: the input bytes are
// decoded (data-provider layer) into the unit's case type C and judged by the unit's oracle run.
// A failing input is saved by the fuzzer under testdata/fuzz and, as the JSON case, as an ordinary
// replay file of the Drive unit `test` (so `check <id> replay <file>` works on it). decode returns
// ok=false for inputs that do not map to a case (skipped, not counted). Seeds: f.Add calls made by
// the caller before Fuzz plus the committed corpus the driver copies to testdata/fuzz/<target>.
func Fuzz[C any](f *testing.F, id, test string, decode func([]byte) (C, bool), run func(*Ctx, C)) {
	rec := Get(id)
	rec.mu.Lock()
	if rec.test == "" {
		rec.test = test
	}
	rec.mu.Unlock()
	f.Fuzz(func(t *testing.T, data []byte) {
		c, ok := decode(data)
		if !ok {
			return
		}
		enc, err := json.Marshal(c)
		if err != nil {
			panic("harness: case not serialisable: " + err.Error())
		}
		ctx := runOne(id, c, run, false)
		rec.record(ctx, enc)
		if ctx.failed {
			p := rec.saveViolation(enc, ctx.msg)
			fmt.Printf("VERIF-VIOLATION property=%s replay=%s\n", id, p)
			// workers are killed once the coordinator has its crasher: persist what we have now
			rec.Flush()
			t.Fatalf("%s: %s", id, ctx.msg)
		}
	})
}

// DriveList runs a finite, enumerated list of cases (an exhaustive grid) through the same
// recording / violation path as Drive.
func DriveList[C any](t *testing.T, id string, cases []C, run func(*Ctx, C)) {
	rec := Get(id)
	for _, c := range cases {
		one(t, rec, c, run)
	}
}

func replayPath[C any](t *testing.T, rec *Rec, path string, run func(*Ctx, C), explicit bool) {
	b, err := os.ReadFile(path)
	if err != nil {
		t.Fatalf("replay: %v", err)
	}
	var rf replayFile
	if err := json.Unmarshal(b, &rf); err != nil {
		t.Fatalf("replay %s: %v", path, err)
	}
	var c C
	if err := json.Unmarshal(rf.Case, &c); err != nil {
		t.Fatalf("replay %s: case does not decode: %v", path, err)
	}
	ctx := runOne(rec.ID, c, run, true)
	enc, _ := json.Marshal(c)
	rec.record(ctx, enc)
	if ctx.failed {
		rec.mu.Lock()
		rec.viol = append(rec.viol, violation{Replay: path, Msg: ctx.msg})
		rec.mu.Unlock()
		fmt.Printf("VERIF-VIOLATION property=%s replay=%s\n", rec.ID, path)
		t.Errorf("%s: replay %s: %s", rec.ID, path, ctx.msg)
	} else if explicit {
		fmt.Printf("VERIF-REPLAY-OK property=%s replay=%s\n", rec.ID, path)
	}
}

// B is a []byte that serialises as hex in JSON (readable replay files).
type B []byte

func (b B) MarshalJSON() ([]byte, error) { return json.Marshal(fmt.Sprintf("%x", []byte(b))) }
func (b *B) UnmarshalJSON(d []byte) error {
	var s string
	if err := json.Unmarshal(d, &s); err != nil {
		return err
	}
	out := make([]byte, len(s)/2)
	for i := 0; i+1 < len(s); i += 2 {
		v, err := strconv.ParseUint(s[i:i+2], 16, 8)
		if err != nil {
			return err
		}
		out[i/2] = byte(v)
	}
	*b = out
	return nil
}
