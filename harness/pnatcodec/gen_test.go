package pnatcodec

import (
	"encoding/hex"
	"strings"

	"pgregory.net/rapid"

	"verif/harness/world"
)

// value pools -----------------------------------------------------------------------------------

var (
	pubkeyPool []string // hex public keys: real ones, case variants, shared 60-char prefixes
	keyPool    []string // adversarial map keys
	addrPool   [][]byte
)

func init() {
	for i := 0; i < 6; i++ {
		p := world.PubHex(world.Acct(i))
		pubkeyPool = append(pubkeyPool, p)
	}
	base := pubkeyPool[0]
	pubkeyPool = append(pubkeyPool,
		strings.ToUpper(base),                        // differs only in case (F9 class)
		base[:2]+strings.ToUpper(base[2:]),           // partly upper
		base[:len(base)-2]+"00", base[:len(base)-2]+"01", base[:len(base)-2]+"ff", // shared prefix
		base[:len(base)-1], base+"00", // prefix of / extension of another key
		"02"+strings.Repeat("ab", 32), "03"+strings.Repeat("ab", 32), "02"+strings.Repeat("AB", 32),
	)
	keyPool = append([]string{"", "a", "A", "b", "ab", "aB", "Ab", "abc", "ab\x00", "\x00", "\xff", "\xff\xff", "\xfe", "~", "0", "00"}, pubkeyPool...)
	for i := 0; i < 6; i++ {
		a := world.Acct(i).Address
		addrPool = append(addrPool, append([]byte(nil), a[:]...))
	}
	z := make([]byte, 20)
	f, _ := hex.DecodeString(strings.Repeat("ff", 20))
	addrPool = append(addrPool, z, f)
	// same bytes except the first / the last byte: separates plain order from reversed-hex order
	for _, pos := range []int{0, 19} {
		for _, v := range []byte{0x00, 0x01, 0x7f, 0x80, 0xff} {
			a := append([]byte(nil), addrPool[0]...)
			a[pos] = v
			addrPool = append(addrPool, a)
		}
	}
}

var u64Edges = []uint64{0, 1, 2, 0xFC, 0xFD, 0xFE, 0xFF, 0x100, 0xFFFE, 0xFFFF, 0x10000, 0x10001, 0xFFFFFFFE, 0xFFFFFFFF,
	0x100000000, 1 << 62, 1<<63 - 1, 1 << 63, 1<<64 - 2, 1<<64 - 1}

func genU64() *rapid.Generator[uint64] {
	return rapid.OneOf(rapid.SampledFrom(u64Edges), rapid.Uint64(), rapid.Uint64Range(0, 300))
}

func genU32() *rapid.Generator[uint64] {
	return rapid.OneOf(rapid.SampledFrom([]uint64{0, 1, 0xFC, 0xFD, 0xFFFF, 0x10000, 0x7FFFFFFF, 0x80000000, 0xFFFFFFFF}),
		rapid.Uint64Range(0, 0xFFFFFFFF), rapid.Uint64Range(0, 300))
}

func fill(n int, seed byte) []byte {
	b := make([]byte, n)
	for i := range b {
		b[i] = byte(i*13) ^ seed
	}
	return b
}

// genBytes: mostly short; sometimes a length that needs a 3-byte var-uint prefix.
func genBytes(t *rapid.T, dom string) []byte {
	pick := rapid.IntRange(0, 19).Draw(t, "bytesclass")
	if pick == 19 {
		n := rapid.SampledFrom([]int{0xFC, 0xFD, 0xFE, 0xFF, 0x100, 300}).Draw(t, "biglen")
		return fill(n, rapid.Byte().Draw(t, "fill"))
	}
	if pick <= 10 {
		switch dom {
		case "hash":
			return rapid.SliceOfN(rapid.Byte(), 32, 32).Draw(t, "hash")
		case "addr":
			if pick <= 5 {
				return append([]byte(nil), rapid.SampledFrom(addrPool).Draw(t, "addrpool")...)
			}
			return rapid.SliceOfN(rapid.Byte(), 20, 20).Draw(t, "addr")
		case "pk":
			b := rapid.SliceOfN(rapid.Byte(), 33, 33).Draw(t, "pk")
			b[0] = 2 + b[0]&1
			return b
		}
	}
	return rapid.SliceOfN(rapid.Byte(), 0, 40).Draw(t, "bytes")
}

func genString(t *rapid.T, dom string) []byte {
	switch dom {
	case "pubkey":
		if rapid.IntRange(0, 9).Draw(t, "pkclass") < 8 {
			return []byte(rapid.SampledFrom(pubkeyPool).Draw(t, "pubkey"))
		}
	case "key":
		if rapid.IntRange(0, 9).Draw(t, "keyclass") < 8 {
			return []byte(rapid.SampledFrom(keyPool).Draw(t, "key"))
		}
	case "name":
		if rapid.IntRange(0, 9).Draw(t, "nameclass") < 6 {
			return []byte(rapid.StringMatching(`[a-zA-Z0-9_]{0,16}`).Draw(t, "name"))
		}
	}
	if rapid.IntRange(0, 29).Draw(t, "longstr") == 29 {
		return fill(rapid.SampledFrom([]int{0xFC, 0xFD, 0x100}).Draw(t, "strlen"), rapid.Byte().Draw(t, "fill"))
	}
	return rapid.SliceOfN(rapid.Byte(), 0, 24).Draw(t, "strbytes") // arbitrary bytes, not only UTF-8
}

func genAddr(t *rapid.T) []byte {
	if rapid.Bool().Draw(t, "pooladdr") {
		return append([]byte(nil), rapid.SampledFrom(addrPool).Draw(t, "addrpool")...)
	}
	return rapid.SliceOfN(rapid.Byte(), 20, 20).Draw(t, "addr")
}

func genBig(t *rapid.T) []byte {
	n := rapid.SampledFrom([]int{0, 0, 1, 1, 2, 8, 8, 9, 16, 32, 33}).Draw(t, "biglen")
	if n == 0 {
		return nil // zero: big.Int.Bytes() is empty
	}
	b := rapid.SliceOfN(rapid.Byte(), n, n).Draw(t, "bigbytes")
	if b[0] == 0 {
		b[0] = 1 // magnitude bytes are minimal
	}
	return b
}

func clamp(k *kind, v uint64) uint64 {
	if k.hasRange {
		if v < k.min {
			return k.min
		}
		if v > k.max {
			return k.max
		}
	}
	return v
}

func keyID(k *kind, g gv) string {
	if k.order == ordNum {
		return string(le(g.U, 8))
	}
	return string(g.B)
}

func genOf(k *kind) *rapid.Generator[gv] {
	return rapid.Custom(func(t *rapid.T) gv { return genVal(t, k) })
}

func emptyFlag(t *rapid.T) uint64 { return uint64(rapid.IntRange(0, 1).Draw(t, "emptyNonNil")) }

// genVal draws a value of the schema from the domain the decoder accepts.
func genVal(t *rapid.T, k *kind) gv {
	switch k.k {
	case kU8:
		return gv{U: clamp(k, uint64(rapid.Uint8().Draw(t, "u8")))}
	case kVerDrop:
		return gv{}
	case kBool:
		return gv{U: uint64(rapid.IntRange(0, 1).Draw(t, "bool"))}
	case kU32:
		return gv{U: genU32().Draw(t, "u32")}
	case kU64, kI64, kVarU:
		return gv{U: clamp(k, genU64().Draw(t, "u64"))}
	case kBytes, kOptTail:
		b := genBytes(t, k.dom)
		g := gv{B: nb(b)}
		if len(b) == 0 {
			g.U = emptyFlag(t)
		}
		return g
	case kStr:
		return gv{B: nb(genString(t, k.dom))}
	case kAddr, kAddrVB:
		return gv{B: genAddr(t)}
	case kHash:
		return gv{B: rapid.SliceOfN(rapid.Byte(), 32, 32).Draw(t, "hash32")}
	case kBig:
		return gv{B: nb(genBig(t))}
	case kList:
		l := rapid.SliceOfN(genOf(k.elem), 0, 8).Draw(t, "list")
		g := gv{L: l}
		if len(l) == 0 {
			g.L, g.U = nil, emptyFlag(t)
		}
		return g
	case kMap:
		n := rapid.IntRange(0, 12).Draw(t, "mapsize")
		seen := map[string]bool{}
		var l []gv
		for i := 0; i < n; i++ {
			var key, val gv
			if k.keyFrom >= 0 {
				val = genVal(t, k.elem)
				key = gv{B: val.L[k.keyFrom].B} // map key == the item's own key, as every real caller does
			} else {
				key = genVal(t, k.key)
				val = genVal(t, k.elem)
			}
			id := keyID(k, key)
			if seen[id] {
				continue
			}
			seen[id] = true
			l = append(l, gv{L: []gv{key, val}})
		}
		g := gv{L: l}
		if len(l) == 0 {
			g.U = emptyFlag(t)
		}
		return g
	case kStruct:
		l := make([]gv, len(k.fields))
		for i, f := range k.fields {
			l[i] = genVal(t, f.k)
		}
		return gv{L: l}
	}
	panic("genVal: kind")
}

var countEdges = []uint64{0, 1, 2, 3, 0xFC, 0xFD, 0xFFFF, 0x10000, 4096, 4097, 70000, 1 << 20, 1 << 31, 1 << 32, 1 << 40, 1 << 42, 1 << 43,
	1 << 45, 1 << 47, 1 << 48, 1 << 62, 1<<63 - 1, 1 << 63, 1<<63 + 1, 1<<64 - 1}
