package pnatcodec

// Registry of every type with a Serialization/Deserialization (or Serialize/Deserialize) pair in
// the anchor files of C04: name, wire schema with per-field value domains (the generator), and
// adapters to the real encoder / decoder.

import (
	"bytes"
	"reflect"

	"github.com/polynetwork/poly/common"
	cstates "github.com/polynetwork/poly/core/states"
	"github.com/polynetwork/poly/native/service/cross_chain_manager/btc"
	ccmcom "github.com/polynetwork/poly/native/service/cross_chain_manager/common"
	"github.com/polynetwork/poly/native/service/cross_chain_manager/consensus_vote"
	"github.com/polynetwork/poly/native/service/governance/neo3_state_manager"
	"github.com/polynetwork/poly/native/service/governance/node_manager"
	"github.com/polynetwork/poly/native/service/governance/relayer_manager"
	"github.com/polynetwork/poly/native/service/governance/side_chain_manager"
	"github.com/polynetwork/poly/native/service/governance/signature_manager"
	hscom "github.com/polynetwork/poly/native/service/header_sync/common"
	nstates "github.com/polynetwork/poly/native/states"
)

type entry struct {
	name string
	file string
	k    *kind
	newv func() interface{}                           // pointer to a zero value
	enc  func(v interface{}) ([]byte, error)          // real encoder
	dec  func(d []byte) (interface{}, int, error)     // real decoder; consumed bytes or -1 if unknown
	tx   bool                                         // decoded directly from transaction input
}

type zc[T any] interface {
	*T
	Serialization(*common.ZeroCopySink)
	Deserialization(*common.ZeroCopySource) error
}

type zcErr[T any] interface {
	*T
	Serialization(*common.ZeroCopySink) error
	Deserialization(*common.ZeroCopySource) error
}

func std[T any, P zc[T]](name, file string, tx bool, k *kind) *entry {
	return &entry{name: name, file: file, k: k, tx: tx,
		newv: func() interface{} { return P(new(T)) },
		enc: func(v interface{}) ([]byte, error) {
			s := common.NewZeroCopySink(nil)
			v.(P).Serialization(s)
			return s.Bytes(), nil
		},
		dec: func(d []byte) (interface{}, int, error) {
			v := P(new(T))
			src := common.NewZeroCopySource(d)
			err := v.Deserialization(src)
			return v, int(src.Pos()), err
		}}
}

func stdErr[T any, P zcErr[T]](name, file string, tx bool, k *kind) *entry {
	return &entry{name: name, file: file, k: k, tx: tx,
		newv: func() interface{} { return P(new(T)) },
		enc: func(v interface{}) ([]byte, error) {
			s := common.NewZeroCopySink(nil)
			err := v.(P).Serialization(s)
			return s.Bytes(), err
		},
		dec: func(d []byte) (interface{}, int, error) {
			v := P(new(T))
			src := common.NewZeroCopySource(d)
			err := v.Deserialization(src)
			return v, int(src.Pos()), err
		}}
}

// rawItem models GenRawStorageItem / GetValueFromRawStorageItem as a codec of its own.
type rawItem struct {
	Ver   byte
	Value []byte
}

const (
	fCCM  = "native/service/cross_chain_manager/common/param.go"
	fHS   = "native/service/header_sync/common/param.go"
	fNMP  = "native/service/governance/node_manager/param.go"
	fNMS  = "native/service/governance/node_manager/states.go"
	fSCP  = "native/service/governance/side_chain_manager/param.go"
	fSCS  = "native/service/governance/side_chain_manager/states.go"
	fRM   = "native/service/governance/relayer_manager/param.go"
	fNEO  = "native/service/governance/neo3_state_manager/param.go"
	fSIG  = "native/service/governance/signature_manager/states.go"
	fVOTE = "native/service/cross_chain_manager/consensus_vote/states.go"
	fBTC  = "native/service/cross_chain_manager/btc/states.go"
	fNST  = "native/states/contract.go"
	fCST  = "core/states/storage_item.go"
)

func makeTxParamSchema() *kind {
	return Struct(
		F("TxHash", VB("hash")), F("CrossChainID", VB("hash")), F("FromContractAddress", VB("addr")),
		F("ToChainID", U64()), F("ToContractAddress", VB("addr")), F("Method", Str("name")), F("Args", VB("any")))
}

func configurationSchema() *kind {
	return Struct(F("BlockMsgDelay", U32()), F("HashMsgDelay", U32()), F("PeerHandshakeTimeout", U32()), F("MaxBlockChangeView", U32()))
}

func peerPoolItemSchema() *kind {
	return Struct(F("Index", U32()), F("PeerPubkey", Str("pubkey")), F("Address", AddrVB()), F("Status", U8()))
}

func outPointSchema() *kind { return Struct(F("Hash", VB("hash")), F("Index", U32())) }

func utxoSchema() *kind {
	return Struct(F("Op", outPointSchema()), F("AtHeight", U32()), F("Value", U64()), F("ScriptPubkey", VB("any")))
}

func btcDetailSchema() *kind {
	return Struct(F("PVersion", VarU()), F("FeeRate", VarU()), F("MinChange", VarU()))
}

func sideChainSchema(minBlocks bool) *kind {
	b := VarU()
	if minBlocks {
		b = VarUMin(1) // RegisterSideChainParam.Deserialization: "minimal value of BlocksToWait is 1"
	}
	return Struct(F("Address", AddrVB()), F("ChainId", VarU()), F("Router", VarU()), F("Name", Str("name")),
		F("BlocksToWait", b), F("CCMCAddress", VB("addr")), F("ExtraInfo", OptTail()))
}

func assetMaps() []field {
	return []field{
		F("AssetMap", MapAlloc(kVarU, VarU(), VB("addr"), ordNum)),
		F("LockProxyMap", MapAlloc(kVarU, VarU(), VB("addr"), ordNum)),
	}
}

func buildRegistry() []*entry {
	var r []*entry
	add := func(e *entry) { r = append(r, e) }

	// --- cross_chain_manager/common/param.go
	add(std[ccmcom.InitRedeemScriptParam]("InitRedeemScriptParam", fCCM, false, Struct(F("RedeemScript", Str("name")))))
	add(std[ccmcom.EntranceParam]("EntranceParam", fCCM, true, Struct(
		F("SourceChainID", U64()), F("Height", U32()), F("Proof", VB("any")), F("RelayerAddress", VB("addr")),
		F("Extra", VB("any")), F("HeaderOrCrossChainMsg", VB("any")))))
	add(&entry{name: "MakeTxParamWithSender", file: fCCM,
		k:    Struct(F("Sender", Addr()), F("MakeTxParam", makeTxParamSchema())),
		newv: func() interface{} { return new(ccmcom.MakeTxParamWithSender) },
		enc:  func(v interface{}) ([]byte, error) { return v.(*ccmcom.MakeTxParamWithSender).Serialization() },
		dec: func(d []byte) (interface{}, int, error) {
			v := new(ccmcom.MakeTxParamWithSender)
			err := v.Deserialization(d)
			return v, -1, err
		}})
	add(std[ccmcom.MakeTxParam]("MakeTxParam", fCCM, false, makeTxParamSchema()))
	add(std[ccmcom.MultiSignParam]("MultiSignParam", fCCM, true, Struct(
		F("ChainID", U64()), F("RedeemKey", Str("key")), F("TxHash", VB("hash")), F("Address", Str("name")),
		F("Signs", List(kU64, VB("any"))))))
	add(std[ccmcom.ToMerkleValue]("ToMerkleValue", fCCM, false, Struct(
		F("TxHash", VB("hash")), F("FromChainID", U64()), F("MakeTxParam", makeTxParamSchema()))))
	add(std[ccmcom.BlackChainParam]("BlackChainParam", fCCM, true, Struct(F("ChainID", VarU()))))

	// --- header_sync/common/param.go
	add(std[hscom.SyncGenesisHeaderParam]("SyncGenesisHeaderParam", fHS, true, Struct(F("ChainID", U64()), F("GenesisHeader", VB("any")))))
	add(std[hscom.SyncBlockHeaderParam]("SyncBlockHeaderParam", fHS, true, Struct(
		F("ChainID", U64()), F("Address", Addr()), F("Headers", List(kU64, VB("any"))))))
	add(std[hscom.SyncCrossChainMsgParam]("SyncCrossChainMsgParam", fHS, true, Struct(
		F("ChainID", U64()), F("Address", Addr()), F("CrossChainMsgs", List(kU64, VB("any"))))))

	// --- governance/node_manager/param.go
	add(std[node_manager.RegisterPeerParam]("RegisterPeerParam", fNMP, true, Struct(F("PeerPubkey", Str("pubkey")), F("Address", AddrVB()))))
	add(std[node_manager.PeerParam]("PeerParam", fNMP, true, Struct(F("PeerPubkey", Str("pubkey")), F("Address", AddrVB()))))
	add(std[node_manager.PeerListParam]("PeerListParam", fNMP, true, Struct(
		F("PeerPubkeyList", List(kVarU, Str("pubkey"))), F("Address", AddrVB()))))
	add(std[node_manager.UpdateConfigParam]("UpdateConfigParam", fNMP, true, Struct(F("Configuration", configurationSchema()))))

	// --- governance/node_manager/states.go
	add(std[node_manager.Status]("Status", fNMS, false, U8()))
	add(std[node_manager.BlackListItem]("BlackListItem", fNMS, false, Struct(F("PeerPubkey", Str("pubkey")), F("Address", AddrVB()))))
	add(std[node_manager.PeerPoolMap]("PeerPoolMap", fNMS, false, Struct(
		F("PeerPoolMap", MapKeyFrom(kVarU, Str("pubkey"), peerPoolItemSchema(), 1)))))
	add(std[node_manager.PeerPoolItem]("PeerPoolItem", fNMS, false, peerPoolItemSchema()))
	add(std[node_manager.GovernanceView]("GovernanceView", fNMS, false, Struct(F("View", U32()), F("Height", U32()), F("TxHash", Hash()))))
	add(std[node_manager.ConsensusSigns]("ConsensusSigns", fNMS, false, Struct(
		F("SignsMap", Map(kVarU, AddrVB(), Bool(), ordHexRev)))))
	add(std[node_manager.Configuration]("Configuration", fNMS, false, configurationSchema()))

	// --- governance/side_chain_manager/param.go
	add(stdErr[side_chain_manager.RegisterSideChainParam]("RegisterSideChainParam", fSCP, true, sideChainSchema(true)))
	add(std[side_chain_manager.ChainidParam]("ChainidParam", fSCP, true, Struct(F("Chainid", VarU()), F("Address", AddrVB()))))
	add(std[side_chain_manager.RegisterRedeemParam]("RegisterRedeemParam", fSCP, true, Struct(
		F("RedeemChainID", VarU()), F("ContractChainID", VarU()), F("Redeem", VB("any")), F("CVersion", VarU()),
		F("ContractAddress", VB("addr")), F("Signs", List(kVarU, VB("any"))))))
	add(std[side_chain_manager.BtcTxParamDetial]("BtcTxParamDetial", fSCP, false, btcDetailSchema()))
	add(std[side_chain_manager.BtcTxParam]("BtcTxParam", fSCP, true, Struct(
		F("Redeem", VB("any")), F("RedeemChainId", VarU()), F("Sigs", ListAlloc(kVarU, VB("any"))), F("Detial", btcDetailSchema()))))
	add(std[side_chain_manager.RegisterAssetParam]("RegisterAssetParam", fSCP, true, Struct(
		append([]field{F("OperatorAddress", Addr()), F("ChainId", VarU())}, assetMaps()...)...)))
	add(std[side_chain_manager.AssetBind]("AssetBind", fSCP, false, Struct(assetMaps()...)))
	add(std[side_chain_manager.UpdateFeeParam]("UpdateFeeParam", fSCP, true, Struct(
		F("Address", Addr()), F("ChainId", U64()), F("View", U64()), F("Fee", Big()))))

	// --- governance/side_chain_manager/states.go
	add(stdErr[side_chain_manager.SideChain]("SideChain", fSCS, false, sideChainSchema(false)))
	add(std[side_chain_manager.BindSignInfo]("BindSignInfo", fSCS, false, Struct(
		F("BindSignInfo", Map(kVarU, Str("key"), VB("any"), ordStr)))))
	add(std[side_chain_manager.ContractBinded]("ContractBinded", fSCS, false, Struct(F("Contract", VB("addr")), F("Ver", U64()))))
	add(std[side_chain_manager.Fee]("Fee", fSCS, false, Struct(F("View", U64()), F("Fee", Big()))))
	add(std[side_chain_manager.FeeInfo]("FeeInfo", fSCS, false, Struct(
		F("StartTime", U32()), F("FeeInfo", Map(kVarU, Addr(), Big(), ordHexRev)))))
	add(std[side_chain_manager.RippleExtraInfo]("RippleExtraInfo", fSCS, true, Struct(
		F("Operator", Addr()), F("Sequence", U64()), F("Quorum", U64()), F("SignerNum", U64()),
		F("Pks", ListAlloc(kVarU, VB("pk"))), F("ReserveAmount", Big()))))

	// --- governance/relayer_manager/param.go
	add(std[relayer_manager.RelayerListParam]("RelayerListParam", fRM, true, Struct(
		F("AddressList", List(kVarU, AddrVB())), F("Address", AddrVB()))))
	add(std[relayer_manager.ApproveRelayerParam]("ApproveRelayerParam", fRM, true, Struct(F("ID", VarU()), F("Address", AddrVB()))))

	// --- governance/neo3_state_manager/param.go
	add(std[neo3_state_manager.StateValidatorListParam]("StateValidatorListParam", fNEO, true, Struct(
		F("StateValidators", ListAlloc(kVarU, Str("pubkey"))), F("Address", AddrVB()))))
	add(std[neo3_state_manager.ApproveStateValidatorParam]("ApproveStateValidatorParam", fNEO, true, Struct(F("ID", VarU()), F("Address", AddrVB()))))

	// --- governance/signature_manager/states.go, cross_chain_manager/consensus_vote/states.go
	add(std[signature_manager.SigInfo]("SigInfo", fSIG, false, Struct(
		F("Status", Bool()), F("SigInfo", Map(kU64, Str("key"), VB("any"), ordStr)))))
	add(std[consensus_vote.VoteInfo]("VoteInfo", fVOTE, false, Struct(
		F("Status", Bool()), F("VoteInfo", Map(kU64, Str("key"), Bool(), ordStr)))))

	// --- cross_chain_manager/btc/states.go
	add(std[btc.BtcProof]("BtcProof", fBTC, false, Struct(
		F("Tx", VB("any")), F("Proof", VB("any")), F("Height", U32()), F("BlocksToWait", U64()))))
	add(std[btc.Utxos]("Utxos", fBTC, false, Struct(F("Utxos", List(kU64, utxoSchema())))))
	add(std[btc.Utxo]("Utxo", fBTC, false, utxoSchema()))
	add(std[btc.OutPoint]("OutPoint", fBTC, false, outPointSchema()))
	add(std[btc.MultiSignInfo]("MultiSignInfo", fBTC, false, Struct(
		F("MultiSignInfo", Map(kU64, Str("key"), List(kU64, VB("any")), ordStr)))))
	add(std[btc.Args]("Args", fBTC, false, Struct(F("ToChainID", U64()), F("Fee", I64()), F("Address", VB("addr")))))
	add(std[btc.BtcFromInfo]("BtcFromInfo", fBTC, false, Struct(F("FromTxHash", VB("hash")), F("FromChainID", U64()))))

	// --- native/states/contract.go
	add(std[nstates.ContractInvokeParam]("ContractInvokeParam", fNST, true, Struct(
		F("Version", U8Max(nstates.MAX_NATIVE_VERSION)), F("Address", Addr()), F("Method", Str("name")), F("Args", VB("any")))))

	// --- core/states/storage_item.go
	add(&entry{name: "StorageItem", file: fCST,
		k:    Struct(F("StateBase", Struct(F("StateVersion", U8()))), F("Value", VB("any"))),
		newv: func() interface{} { return new(cstates.StorageItem) },
		enc: func(v interface{}) ([]byte, error) {
			var b bytes.Buffer
			err := v.(*cstates.StorageItem).Serialize(&b)
			return b.Bytes(), err
		},
		dec: func(d []byte) (interface{}, int, error) {
			v := new(cstates.StorageItem)
			rd := bytes.NewReader(d)
			err := v.Deserialize(rd)
			return v, len(d) - rd.Len(), err
		}})
	add(&entry{name: "RawStorageItem", file: fCST,
		k:    Struct(F("Ver", VerDrop()), F("Value", VB("any"))),
		newv: func() interface{} { return new(rawItem) },
		enc:  func(v interface{}) ([]byte, error) { return cstates.GenRawStorageItem(v.(*rawItem).Value), nil },
		dec: func(d []byte) (interface{}, int, error) {
			val, err := cstates.GetValueFromRawStorageItem(d)
			return &rawItem{Value: val}, -1, err
		}})
	return r
}

var (
	registry  = buildRegistry()
	byName    = map[string]*entry{}
	typeNames []string
)

func init() {
	for _, e := range registry {
		if byName[e.name] != nil {
			panic("duplicate registry entry " + e.name)
		}
		byName[e.name] = e
		typeNames = append(typeNames, e.name)
		// every schema field must exist in the real struct (fails fast on a typo)
		setVal(e.k, zeroOf(e.k), reflect.ValueOf(e.newv()).Elem())
	}
}

// zeroOf is the all-zero value of a schema.
func zeroOf(k *kind) gv {
	switch k.k {
	case kAddr, kAddrVB:
		return gv{B: make([]byte, 20)}
	case kHash:
		return gv{B: make([]byte, 32)}
	case kU8, kVarU:
		return gv{U: k.min}
	case kStruct:
		l := make([]gv, len(k.fields))
		for i, f := range k.fields {
			l[i] = zeroOf(f.k)
		}
		return gv{L: l}
	}
	return gv{}
}
