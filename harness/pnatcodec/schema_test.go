package pnatcodec

// Wire-format model of the native-contract codecs, written from the format description of each
// type (one schema per type, see registry_test.go). It is deliberately independent of the code
// under test: a generic value tree (gv), a reference encoder, a reference parser that also
// classifies format slack, and reflection glue that builds / reads the real Go structs.

import (
	"bytes"
	"encoding/binary"
	"fmt"
	"math/big"
	"reflect"
	"sort"

	"verif/harness/ev"
)

// gv is a JSON-serialisable generic value: numbers in U, byte strings / strings / addresses /
// big-int magnitudes in B, list items / struct fields / map entries (each entry = L[key,value],
// in INSERTION order) in L. For empty []byte / list / map nodes U&1 selects "empty but non-nil".
type gv struct {
	U uint64 `json:"u,omitempty"`
	B ev.B   `json:"b,omitempty"`
	L []gv   `json:"l,omitempty"`
}

type kk int

const (
	kU8 kk = iota
	kU32
	kU64
	kI64
	kBool
	kVarU
	kBytes   // var-bytes <-> []byte
	kStr     // var-bytes <-> string
	kAddr    // 20 raw bytes <-> [20]byte
	kAddrVB  // var-bytes that must be 20 long <-> [20]byte
	kHash    // 32 raw bytes <-> [32]byte
	kBig     // var-bytes holding the big-endian magnitude <-> *big.Int (>= 0)
	kList    // count, items
	kMap     // count, entries sorted by key, descending
	kStruct  // fields in order
	kOptTail // trailing var-bytes whose absence / truncation the decoder tolerates
	kVerDrop // one byte written as 0, any value accepted and dropped on read
)

type allocMode int

const (
	allocNone  allocMode = iota
	allocSlice           // decoder pre-allocates a slice from the wire count
	allocMap             // decoder passes the wire count as a map size hint
)

const (
	ordStr    = iota // descending by raw key bytes (Go string order)
	ordHexRev        // descending by hex of the byte-reversed address (Address.ToHexString)
	ordNum           // descending by numeric key
)

type field struct {
	name string
	k    *kind
}

type kind struct {
	k        kk
	dom      string // generator flavour
	hasRange bool
	min, max uint64 // decoder rejects numbers outside [min,max] when hasRange
	cnt      kk     // kU64 | kVarU: width of a list/map count
	elem     *kind
	key      *kind
	order    int
	keyFrom  int // >=0: map entries carry no key on the wire, key = value struct field #keyFrom
	alloc    allocMode
	fields   []field
}

func F(name string, k *kind) field { return field{name, k} }

func U8() *kind                 { return &kind{k: kU8} }
func U8Max(m uint64) *kind      { return &kind{k: kU8, hasRange: true, max: m} }
func U32() *kind                { return &kind{k: kU32} }
func U64() *kind                { return &kind{k: kU64} }
func I64() *kind                { return &kind{k: kI64} }
func Bool() *kind               { return &kind{k: kBool} }
func VarU() *kind               { return &kind{k: kVarU} }
func VarUMin(m uint64) *kind    { return &kind{k: kVarU, hasRange: true, min: m, max: ^uint64(0)} }
func VB(dom string) *kind       { return &kind{k: kBytes, dom: dom} }
func Str(dom string) *kind      { return &kind{k: kStr, dom: dom} }
func Addr() *kind               { return &kind{k: kAddr} }
func AddrVB() *kind             { return &kind{k: kAddrVB} }
func Hash() *kind               { return &kind{k: kHash} }
func Big() *kind                { return &kind{k: kBig} }
func OptTail() *kind            { return &kind{k: kOptTail, dom: "any"} }
func VerDrop() *kind            { return &kind{k: kVerDrop} }
func Struct(fs ...field) *kind  { return &kind{k: kStruct, fields: fs} }
func List(cnt kk, e *kind) *kind { return &kind{k: kList, cnt: cnt, elem: e} }
func ListAlloc(cnt kk, e *kind) *kind {
	return &kind{k: kList, cnt: cnt, elem: e, alloc: allocSlice}
}
func Map(cnt kk, key, val *kind, order int) *kind {
	return &kind{k: kMap, cnt: cnt, key: key, elem: val, order: order, keyFrom: -1}
}
func MapAlloc(cnt kk, key, val *kind, order int) *kind {
	m := Map(cnt, key, val, order)
	m.alloc = allocMap
	return m
}
func MapKeyFrom(cnt kk, key, val *kind, keyFrom int) *kind {
	return &kind{k: kMap, cnt: cnt, key: key, elem: val, order: ordStr, keyFrom: keyFrom}
}

func hasKind(k *kind, want kk) bool {
	if k.k == want {
		return true
	}
	if k.elem != nil && hasKind(k.elem, want) {
		return true
	}
	if k.key != nil && hasKind(k.key, want) {
		return true
	}
	for _, f := range k.fields {
		if hasKind(f.k, want) {
			return true
		}
	}
	return false
}

// ---------------------------------------------------------------------------------------------
// key order

func rev(b []byte) []byte {
	o := make([]byte, len(b))
	for i := range b {
		o[len(b)-1-i] = b[i]
	}
	return o
}

func cmpKey(order int, a, b gv) int {
	switch order {
	case ordNum:
		switch {
		case a.U < b.U:
			return -1
		case a.U > b.U:
			return 1
		}
		return 0
	case ordHexRev:
		return bytes.Compare(rev(a.B), rev(b.B))
	}
	return bytes.Compare(a.B, b.B)
}

// wireKey is the value the documented sort is applied to.
func wireKey(k *kind, e gv) gv {
	if k.keyFrom >= 0 {
		return e.L[1].L[k.keyFrom]
	}
	return e.L[0]
}

func sortedEntries(k *kind, es []gv, by func(gv) gv) []gv {
	out := append([]gv(nil), es...)
	sort.SliceStable(out, func(i, j int) bool { return cmpKey(k.order, by(out[i]), by(out[j])) > 0 })
	return out
}

// ---------------------------------------------------------------------------------------------
// normal form (used for value comparison)

func nb(b []byte) ev.B {
	if len(b) == 0 {
		return nil
	}
	return append(ev.B(nil), b...)
}

func stripZeros(b []byte) []byte {
	for len(b) > 0 && b[0] == 0 {
		b = b[1:]
	}
	return b
}

func norm(k *kind, g gv) gv {
	switch k.k {
	case kU8, kU32, kU64, kI64, kVarU, kBool:
		return gv{U: g.U}
	case kVerDrop:
		return gv{}
	case kBytes, kStr, kAddr, kAddrVB, kHash, kOptTail:
		return gv{B: nb(g.B)}
	case kBig:
		return gv{B: nb(stripZeros(g.B))}
	case kList:
		var l []gv
		for _, x := range g.L {
			l = append(l, norm(k.elem, x))
		}
		return gv{L: l}
	case kMap:
		var l []gv
		for _, e := range g.L {
			l = append(l, gv{L: []gv{norm(k.key, e.L[0]), norm(k.elem, e.L[1])}})
		}
		l = sortedEntries(k, l, func(e gv) gv { return e.L[0] })
		return gv{L: l}
	case kStruct:
		l := make([]gv, len(k.fields))
		for i, f := range k.fields {
			l[i] = norm(f.k, g.L[i])
		}
		return gv{L: l}
	}
	panic("norm: kind")
}

func eqv(a, b gv) bool { return reflect.DeepEqual(a, b) }

// interesting reports the property's non-trivial rule on a value: a map with >= 2 entries or a
// list with >= 2 items somewhere in the value.
func interesting(k *kind, g gv) bool {
	switch k.k {
	case kList:
		if len(g.L) >= 2 {
			return true
		}
		for _, x := range g.L {
			if interesting(k.elem, x) {
				return true
			}
		}
	case kMap:
		if len(g.L) >= 2 {
			return true
		}
		for _, e := range g.L {
			if interesting(k.elem, e.L[1]) {
				return true
			}
		}
	case kStruct:
		for i, f := range k.fields {
			if interesting(f.k, g.L[i]) {
				return true
			}
		}
	}
	return false
}

// ---------------------------------------------------------------------------------------------
// deterministic insertion-order permutation of every map node

func mix(x *uint64) uint64 {
	*x += 0x9E3779B97F4A7C15
	z := *x
	z = (z ^ (z >> 30)) * 0xBF58476D1CE4E5B9
	z = (z ^ (z >> 27)) * 0x94D049BB133111EB
	return z ^ (z >> 31)
}

func permuted(k *kind, g gv, rng *uint64) gv {
	out := gv{U: g.U, B: g.B}
	switch k.k {
	case kList:
		for _, x := range g.L {
			out.L = append(out.L, permuted(k.elem, x, rng))
		}
	case kMap:
		for _, e := range g.L {
			out.L = append(out.L, gv{L: []gv{e.L[0], permuted(k.elem, e.L[1], rng)}})
		}
		for i := len(out.L) - 1; i > 0; i-- {
			j := int(mix(rng) % uint64(i+1))
			out.L[i], out.L[j] = out.L[j], out.L[i]
		}
	case kStruct:
		for i, f := range k.fields {
			out.L = append(out.L, permuted(f.k, g.L[i], rng))
		}
	}
	return out
}

// ---------------------------------------------------------------------------------------------
// reference encoder

type mark struct {
	Off, W int
	U64    bool // 8-byte little-endian count (else var-uint)
	Count  bool // element count (else byte length)
	Alloc  allocMode
}

type refEnc struct {
	out   []byte
	marks []mark
	// out-of-domain injection: the viol-th constrained node (bool, 20-byte var-bytes address,
	// range-checked number) is written with a value outside its domain
	viol     int
	seen     int
	violSalt byte
	injected bool
}

// inject reports whether the current constrained node is the one to spoil.
func (e *refEnc) inject() bool {
	e.seen++
	if e.viol > 0 && e.seen == e.viol {
		e.injected = true
		return true
	}
	return false
}

func constrained(k *kind) bool {
	if k.k == kBool || k.k == kAddrVB || (k.hasRange && (k.min > 0 || (k.k == kU8 && k.max < 0xFF))) {
		return true
	}
	if k.elem != nil && constrained(k.elem) {
		return true
	}
	if k.key != nil && constrained(k.key) {
		return true
	}
	for _, f := range k.fields {
		if constrained(f.k) {
			return true
		}
	}
	return false
}

func refVarUint(v uint64) []byte {
	switch {
	case v < 0xFD:
		return []byte{byte(v)}
	case v <= 0xFFFF:
		b := []byte{0xFD, 0, 0}
		binary.LittleEndian.PutUint16(b[1:], uint16(v))
		return b
	case v <= 0xFFFFFFFF:
		b := []byte{0xFE, 0, 0, 0, 0}
		binary.LittleEndian.PutUint32(b[1:], uint32(v))
		return b
	}
	b := make([]byte, 9)
	b[0] = 0xFF
	binary.LittleEndian.PutUint64(b[1:], v)
	return b
}

func le(v uint64, n int) []byte {
	b := make([]byte, 8)
	binary.LittleEndian.PutUint64(b, v)
	return b[:n]
}

func (e *refEnc) prefix(cnt kk, v uint64, count bool, alloc allocMode) {
	var b []byte
	if cnt == kU64 {
		b = le(v, 8)
	} else {
		b = refVarUint(v)
	}
	e.marks = append(e.marks, mark{Off: len(e.out), W: len(b), U64: cnt == kU64, Count: count, Alloc: alloc})
	e.out = append(e.out, b...)
}

func (e *refEnc) vb(b []byte) {
	e.prefix(kVarU, uint64(len(b)), false, allocNone)
	e.out = append(e.out, b...)
}

func (e *refEnc) enc(k *kind, g gv) {
	switch k.k {
	case kU8:
		if k.hasRange && k.max < 0xFF && e.inject() {
			e.out = append(e.out, byte(k.max)+1+e.violSalt%byte(0xFF-k.max))
			return
		}
		e.out = append(e.out, byte(g.U))
	case kVerDrop:
		e.out = append(e.out, 0)
	case kBool:
		if e.inject() {
			e.out = append(e.out, 2+e.violSalt%254)
			return
		}
		e.out = append(e.out, byte(g.U&1))
	case kU32:
		e.out = append(e.out, le(g.U, 4)...)
	case kU64, kI64:
		e.out = append(e.out, le(g.U, 8)...)
	case kVarU:
		if k.hasRange && k.min > 0 && e.inject() {
			e.out = append(e.out, refVarUint(uint64(e.violSalt)%k.min)...)
			return
		}
		e.out = append(e.out, refVarUint(g.U)...)
	case kAddrVB:
		if e.inject() {
			switch e.violSalt % 3 {
			case 0:
				e.vb(g.B[:19])
			case 1:
				e.vb(append(append([]byte(nil), g.B...), e.violSalt))
			default:
				e.vb(nil)
			}
			return
		}
		e.vb(g.B)
	case kBytes, kStr, kOptTail:
		e.vb(g.B)
	case kBig:
		e.vb(stripZeros(g.B))
	case kAddr, kHash:
		e.out = append(e.out, g.B...)
	case kList:
		e.prefix(k.cnt, uint64(len(g.L)), true, k.alloc)
		for _, x := range g.L {
			e.enc(k.elem, x)
		}
	case kMap:
		e.prefix(k.cnt, uint64(len(g.L)), true, k.alloc)
		for _, en := range sortedEntries(k, g.L, func(x gv) gv { return wireKey(k, x) }) {
			if k.keyFrom < 0 {
				e.enc(k.key, en.L[0])
			}
			e.enc(k.elem, en.L[1])
		}
	case kStruct:
		for i, f := range k.fields {
			e.enc(f.k, g.L[i])
		}
	default:
		panic("enc: kind")
	}
}

func refEncode(k *kind, g gv) ([]byte, []mark) {
	e := &refEnc{}
	e.enc(k, g)
	return e.out, e.marks
}

// ---------------------------------------------------------------------------------------------
// reference parser

const hazardThreshold = 4096

type refDec struct {
	d      []byte
	pos    int
	eof    bool   // input exhausted inside a mandatory field: reject
	sem    string // first semantic rejection (bad bool, address length, range)
	stop   bool
	slack  map[string]bool
	hazard bool // an element count > hazardThreshold that the remaining input cannot satisfy
	hzCnt  uint64
	hzMode allocMode // whether the decoder is known (schema) to pre-allocate from this count
	hzOff  int       // position and width of that count in the input
	hzW    int
}

func (p *refDec) fail() bool { return p.eof || p.stop }

func (p *refDec) need(n uint64) []byte {
	if p.fail() {
		return nil
	}
	if n > uint64(len(p.d)-p.pos) {
		p.eof = true
		return nil
	}
	b := p.d[p.pos : p.pos+int(n)]
	p.pos += int(n)
	return b
}

func (p *refDec) semErr(s string, stop bool) {
	if p.sem == "" {
		p.sem = s
	}
	if stop {
		p.stop = true
	}
}

func (p *refDec) note(s string) {
	if p.slack == nil {
		p.slack = map[string]bool{}
	}
	p.slack[s] = true
}

func (p *refDec) fixed(n int) uint64 {
	b := p.need(uint64(n))
	if b == nil {
		return 0
	}
	var t [8]byte
	copy(t[:], b)
	return binary.LittleEndian.Uint64(t[:])
}

func (p *refDec) varu() uint64 {
	b := p.need(1)
	if b == nil {
		return 0
	}
	var v uint64
	switch b[0] {
	case 0xFD:
		v = p.fixed(2)
		if !p.fail() && v < 0xFD {
			p.note("noncanonical-varuint")
		}
	case 0xFE:
		v = p.fixed(4)
		if !p.fail() && v <= 0xFFFF {
			p.note("noncanonical-varuint")
		}
	case 0xFF:
		v = p.fixed(8)
		if !p.fail() && v <= 0xFFFFFFFF {
			p.note("noncanonical-varuint")
		}
	default:
		v = uint64(b[0])
	}
	return v
}

func (p *refDec) count(k *kind) uint64 {
	var n uint64
	start := p.pos
	if k.cnt == kU64 {
		n = p.fixed(8)
	} else {
		n = p.varu()
	}
	if p.fail() {
		return 0
	}
	if n > hazardThreshold && n > uint64(len(p.d)-p.pos) {
		// every element takes at least one byte: the count cannot be satisfied by the remaining input
		p.hazard, p.hzCnt, p.hzMode, p.hzOff, p.hzW = true, n, k.alloc, start, p.pos-start
		p.eof = true
		return 0
	}
	return n
}

func (p *refDec) rng(k *kind, v uint64) {
	if k.hasRange && (v < k.min || v > k.max) {
		p.semErr(fmt.Sprintf("value %d outside [%d,%d]", v, k.min, k.max), true)
	}
}

func (p *refDec) dec(k *kind) gv {
	if p.fail() {
		return gv{}
	}
	switch k.k {
	case kU8:
		v := p.fixed(1)
		p.rng(k, v)
		return gv{U: v}
	case kVerDrop:
		if v := p.fixed(1); v != 0 && !p.fail() {
			p.note("version-byte-dropped")
		}
		return gv{}
	case kBool:
		v := p.fixed(1)
		if v > 1 {
			p.semErr("bool byte > 1", true)
		}
		return gv{U: v}
	case kU32:
		return gv{U: p.fixed(4)}
	case kU64, kI64:
		return gv{U: p.fixed(8)}
	case kVarU:
		v := p.varu()
		if !p.fail() {
			p.rng(k, v)
		}
		return gv{U: v}
	case kBytes, kStr:
		return gv{B: nb(p.need(p.varu()))}
	case kAddrVB:
		b := p.need(p.varu())
		if !p.fail() && len(b) != 20 {
			p.semErr("address length != 20", false) // some decoders check only after later fields
		}
		return gv{B: nb(b)}
	case kBig:
		b := p.need(p.varu())
		if len(b) > 0 && b[0] == 0 {
			p.note("bigint-leading-zero")
		}
		return gv{B: nb(stripZeros(b))}
	case kAddr:
		return gv{B: nb(p.need(20))}
	case kHash:
		return gv{B: nb(p.need(32))}
	case kOptTail:
		// `x, _ := source.NextVarBytes()`: absence and truncation are tolerated
		if p.pos == len(p.d) {
			p.note("opt-tail-absent")
			return gv{}
		}
		save := *p
		n := p.varu()
		if p.eof {
			*p = save
			p.pos = len(p.d)
			p.note("opt-tail-truncated")
			return gv{}
		}
		if n > uint64(len(p.d)-p.pos) {
			b := p.d[p.pos:]
			p.pos = len(p.d)
			p.note("opt-tail-truncated")
			return gv{B: nb(b)}
		}
		return gv{B: nb(p.need(n))}
	case kList:
		n := p.count(k)
		var l []gv
		for i := uint64(0); i < n && !p.fail(); i++ {
			l = append(l, p.dec(k.elem))
		}
		return gv{L: l}
	case kMap:
		n := p.count(k)
		var l []gv
		for i := uint64(0); i < n && !p.fail(); i++ {
			var key gv
			if k.keyFrom < 0 {
				key = p.dec(k.key)
			}
			val := p.dec(k.elem)
			if p.fail() {
				break
			}
			if k.keyFrom >= 0 {
				key = val.L[k.keyFrom]
			}
			if len(l) > 0 && cmpKey(k.order, l[len(l)-1].L[0], key) < 0 {
				p.note("map-unsorted")
			}
			dup := false
			for j := range l {
				if cmpKey(k.order, l[j].L[0], key) == 0 {
					l[j].L[1] = val // later entry wins, as with Go map assignment
					dup = true
					p.note("map-duplicate-key")
				}
			}
			if !dup {
				l = append(l, gv{L: []gv{key, val}})
			}
		}
		return gv{L: sortedEntries(k, l, func(e gv) gv { return e.L[0] })}
	case kStruct:
		l := make([]gv, len(k.fields))
		for i, f := range k.fields {
			l[i] = p.dec(f.k)
		}
		return gv{L: l}
	}
	panic("dec: kind")
}

type refResult struct {
	ok       bool
	val      gv
	consumed int
	why      string
	slack    []string
	hazard   bool
	hzCnt    uint64
	hzMode   allocMode
	hzOff    int
	hzW      int
}

func refParse(k *kind, d []byte) refResult {
	p := &refDec{d: d}
	v := p.dec(k)
	r := refResult{hazard: p.hazard, hzCnt: p.hzCnt, hzMode: p.hzMode, hzOff: p.hzOff, hzW: p.hzW}
	switch {
	case p.eof:
		r.why = "input exhausted"
	case p.sem != "":
		r.why = p.sem
	default:
		r.ok, r.val, r.consumed = true, v, p.pos
		for s := range p.slack {
			r.slack = append(r.slack, s)
		}
		sort.Strings(r.slack)
	}
	return r
}

// ---------------------------------------------------------------------------------------------
// reflection glue: gv <-> real struct

func setVal(k *kind, g gv, rv reflect.Value) {
	switch k.k {
	case kU8, kU32, kU64, kVarU:
		rv.SetUint(g.U)
	case kVerDrop:
		rv.SetUint(0)
	case kI64:
		rv.SetInt(int64(g.U))
	case kBool:
		rv.SetBool(g.U&1 == 1)
	case kBytes, kOptTail:
		switch {
		case len(g.B) > 0:
			rv.SetBytes(append([]byte(nil), g.B...))
		case g.U&1 == 1:
			rv.SetBytes([]byte{})
		default:
			rv.Set(reflect.Zero(rv.Type()))
		}
	case kStr:
		rv.SetString(string(g.B))
	case kAddr, kAddrVB, kHash:
		if len(g.B) != rv.Len() {
			panic(fmt.Sprintf("harness: %d bytes for a %d-byte array", len(g.B), rv.Len()))
		}
		reflect.Copy(rv, reflect.ValueOf([]byte(g.B)))
	case kBig:
		rv.Set(reflect.ValueOf(new(big.Int).SetBytes(g.B)))
	case kList:
		n := len(g.L)
		if n == 0 && g.U&1 == 0 {
			rv.Set(reflect.Zero(rv.Type()))
			return
		}
		s := reflect.MakeSlice(rv.Type(), n, n)
		for i := 0; i < n; i++ {
			setVal(k.elem, g.L[i], s.Index(i))
		}
		rv.Set(s)
	case kMap:
		if len(g.L) == 0 && g.U&1 == 0 {
			rv.Set(reflect.Zero(rv.Type()))
			return
		}
		m := reflect.MakeMap(rv.Type())
		for _, e := range g.L {
			key := reflect.New(rv.Type().Key()).Elem()
			setVal(k.key, e.L[0], key)
			val := reflect.New(rv.Type().Elem()).Elem()
			setVal(k.elem, e.L[1], val)
			m.SetMapIndex(key, val)
		}
		rv.Set(m)
	case kStruct:
		if rv.Kind() == reflect.Ptr {
			p := reflect.New(rv.Type().Elem())
			rv.Set(p)
			rv = p.Elem()
		}
		for i, f := range k.fields {
			fv := rv.FieldByName(f.name)
			if !fv.IsValid() {
				panic("harness: no field " + f.name + " in " + rv.Type().String())
			}
			setVal(f.k, g.L[i], fv)
		}
	default:
		panic("setVal: kind")
	}
}

// getVal reads the real value back into normal form.
func getVal(k *kind, rv reflect.Value) (gv, error) {
	switch k.k {
	case kU8, kU32, kU64, kVarU:
		return gv{U: rv.Uint()}, nil
	case kVerDrop:
		return gv{}, nil
	case kI64:
		return gv{U: uint64(rv.Int())}, nil
	case kBool:
		if rv.Bool() {
			return gv{U: 1}, nil
		}
		return gv{}, nil
	case kBytes, kOptTail:
		return gv{B: nb(rv.Bytes())}, nil
	case kStr:
		return gv{B: nb([]byte(rv.String()))}, nil
	case kAddr, kAddrVB, kHash:
		b := make([]byte, rv.Len())
		reflect.Copy(reflect.ValueOf(b), rv)
		return gv{B: nb(b)}, nil
	case kBig:
		if rv.IsNil() {
			return gv{}, fmt.Errorf("nil *big.Int")
		}
		bi := rv.Interface().(*big.Int)
		if bi.Sign() < 0 {
			return gv{}, fmt.Errorf("negative big.Int %s", bi)
		}
		return gv{B: nb(bi.Bytes())}, nil
	case kList:
		var l []gv
		for i := 0; i < rv.Len(); i++ {
			x, err := getVal(k.elem, rv.Index(i))
			if err != nil {
				return gv{}, err
			}
			l = append(l, x)
		}
		return gv{L: l}, nil
	case kMap:
		var l []gv
		it := rv.MapRange()
		for it.Next() {
			key, err := getVal(k.key, it.Key())
			if err != nil {
				return gv{}, err
			}
			val, err := getVal(k.elem, it.Value())
			if err != nil {
				return gv{}, err
			}
			l = append(l, gv{L: []gv{key, val}})
		}
		return gv{L: sortedEntries(k, l, func(e gv) gv { return e.L[0] })}, nil
	case kStruct:
		if rv.Kind() == reflect.Ptr {
			if rv.IsNil() {
				return gv{}, fmt.Errorf("nil pointer to %s", rv.Type().Elem())
			}
			rv = rv.Elem()
		}
		l := make([]gv, len(k.fields))
		for i, f := range k.fields {
			x, err := getVal(f.k, rv.FieldByName(f.name))
			if err != nil {
				return gv{}, fmt.Errorf("%s: %v", f.name, err)
			}
			l[i] = x
		}
		return gv{L: l}, nil
	}
	panic("getVal: kind")
}
