package pnatcodec

import (
	"testing"

	"verif/harness/ev"
)

// detVal builds a small valid value of a schema without rapid (fuzz seeds): lists and maps get
// two entries, byte strings a few bytes.
// With adv, maps get four adversarial keys instead (addresses differing only in the first or only
// in the last byte, strings differing in case / sharing prefixes, numbers around the var-uint steps).
func detVal(k *kind, rng *uint64, adv bool) gv {
	r := func() uint64 { return mix(rng) }
	bytesN := func(n int) ev.B {
		b := make(ev.B, n)
		for i := range b {
			b[i] = byte(r())
		}
		return b
	}
	switch k.k {
	case kU8:
		return gv{U: clamp(k, r()%256)}
	case kVerDrop:
		return gv{}
	case kBool:
		return gv{U: r() % 2}
	case kU32:
		return gv{U: r() % 100000}
	case kU64, kI64, kVarU:
		return gv{U: clamp(k, r()%1000)}
	case kBytes, kOptTail:
		return gv{B: bytesN(int(r() % 5))}
	case kStr:
		if k.dom == "pubkey" || k.dom == "key" {
			return gv{B: ev.B(pubkeyPool[r()%6])}
		}
		return gv{B: ev.B("abc")}
	case kAddr, kAddrVB:
		return gv{B: append(ev.B(nil), addrPool[r()%6]...)}
	case kHash:
		return gv{B: bytesN(32)}
	case kBig:
		return gv{B: nb(stripZeros(bytesN(int(r() % 4))))}
	case kList:
		return gv{L: []gv{detVal(k.elem, rng, adv), detVal(k.elem, rng, adv)}}
	case kMap:
		if adv {
			var l []gv
			for i := 0; i < 4; i++ {
				var key gv
				switch {
				case k.key.k == kAddr || k.key.k == kAddrVB:
					// addrPool[8..12] vary byte 0 of addrPool[0], addrPool[13..17] vary byte 19
					key = gv{B: append(ev.B(nil), addrPool[[]int{8, 9, 13, 14}[i]]...)}
				case k.order == ordNum:
					key = gv{U: []uint64{0xFC, 0xFD, 0xFFFF, 0x10000}[i]}
				case k.keyFrom >= 0:
					key = gv{B: ev.B(pubkeyPool[[]int{0, 6, 8, 9}[i]])} // base, upper-case, shared prefix
				default:
					key = gv{B: ev.B([]string{"a", "A", "ab", "aB"}[i])}
				}
				val := detVal(k.elem, rng, adv)
				if k.keyFrom >= 0 {
					val.L[k.keyFrom] = gv{B: key.B}
				}
				l = append(l, gv{L: []gv{key, val}})
			}
			return gv{L: l}
		}
		var l []gv
		seen := map[string]bool{}
		for len(l) < 2 {
			var key, val gv
			if k.keyFrom >= 0 {
				val = detVal(k.elem, rng, adv)
				key = gv{B: val.L[k.keyFrom].B}
			} else {
				key, val = detVal(k.key, rng, adv), detVal(k.elem, rng, adv)
			}
			if id := keyID(k, key); !seen[id] {
				seen[id] = true
				l = append(l, gv{L: []gv{key, val}})
			}
		}
		return gv{L: l}
	case kStruct:
		l := make([]gv, len(k.fields))
		for i, f := range k.fields {
			l[i] = detVal(f.k, rng, adv)
		}
		return gv{L: l}
	}
	panic("detVal: kind")
}

const fuzzMaxRaw = 4096

// decodeFuzzC04 is the data-provider layer: byte 0 selects the registered codec (mod table size),
// the rest (at most 4 KiB) is handed to that type's decoder through the arbitrary-bytes mode.
func decodeFuzzC04(d []byte) (c04Case, bool) {
	if len(d) < 1 {
		return c04Case{}, false
	}
	raw := d[1:]
	if len(raw) > fuzzMaxRaw {
		raw = raw[:fuzzMaxRaw]
	}
	return c04Case{Type: typeNames[int(d[0])%len(typeNames)], Mode: "random", Raw: append(ev.B(nil), raw...)}, true
}

// FuzzC04 drives the arbitrary-bytes mode of C04 with coverage-guided inputs. Seeds: for every
// registered type one small genuine encoding (map types: three more with adversarial keys), and for every type with an element count the same
// encoding with its first count rewritten to hostile values (0xFD/0xFE/0xFF prefixes, huge counts).
func FuzzC04(f *testing.F) {
	hostile := [][]byte{
		{0xFD, 0xFF, 0xFF},
		{0xFE, 0xFF, 0xFF, 0xFF, 0xFF},
		{0xFE, 0x00, 0x00, 0x10, 0x00},
		{0xFF, 0xFF, 0xFF, 0xFF, 0xFF, 0xFF, 0xFF, 0xFF, 0xFF},
		{0xFF, 0x00, 0x00, 0x00, 0x00, 0x00, 0x20, 0x00, 0x00}, // 2^45
		{0xFF, 0x01, 0x00, 0x00, 0x00, 0x00, 0x00, 0x00, 0x80}, // 2^63+1
	}
	hostile64 := [][]byte{
		{0xFF, 0xFF, 0xFF, 0xFF, 0xFF, 0xFF, 0xFF, 0xFF},
		{0x00, 0x00, 0x10, 0x00, 0x00, 0x00, 0x00, 0x00},
		{0x00, 0x00, 0x00, 0x00, 0x00, 0x20, 0x00, 0x00},
		{0x01, 0x00, 0x00, 0x00, 0x00, 0x00, 0x00, 0x80},
	}
	for i, name := range typeNames {
		e := byName[name]
		rng := uint64(i) + 1
		enc, marks := refEncode(e.k, detVal(e.k, &rng, false))
		f.Add(append([]byte{byte(i)}, enc...))
		if hasKind(e.k, kMap) {
			for j := 0; j < 3; j++ {
				adv, _ := refEncode(e.k, detVal(e.k, &rng, true))
				f.Add(append([]byte{byte(i)}, adv...))
			}
		}
		for _, m := range marks {
			if !m.Count {
				continue
			}
			hs := hostile
			if m.U64 {
				hs = hostile64
			}
			for _, h := range hs {
				d := append([]byte{byte(i)}, enc[:m.Off]...)
				d = append(append(d, h...), enc[m.Off+m.W:]...)
				f.Add(d)
			}
			break // first element count only
		}
		f.Add(append([]byte{byte(i)}, hostile[3]...))
	}
	ev.Fuzz(f, "C04", "TestC04", decodeFuzzC04, runC04)
}
