package pnatcodec

import (
	"testing"

	"verif/harness/ev"
)

// detVal builds a small valid value of a schema without rapid (fuzz seeds): lists and maps get
// two entries, byte strings a few bytes.
func detVal(k *kind, rng *uint64) gv {
	r := func() uint64 { return mix(rng) }
	bytesN := func(n int) ev.B {
		b := make(ev.B, n)
		for i := range b {
			b[i] = byte(r())
		}
		return b
	}
	switch k.k {
	case kU8:
		return gv{U: clamp(k, r()%256)}
	case kVerDrop:
		return gv{}
	case kBool:
		return gv{U: r() % 2}
	case kU32:
		return gv{U: r() % 100000}
	case kU64, kI64, kVarU:
		return gv{U: clamp(k, r()%1000)}
	case kBytes, kOptTail:
		return gv{B: bytesN(int(r() % 5))}
	case kStr:
		if k.dom == "pubkey" || k.dom == "key" {
			return gv{B: ev.B(pubkeyPool[r()%6])}
		}
		return gv{B: ev.B("abc")}
	case kAddr, kAddrVB:
		return gv{B: append(ev.B(nil), addrPool[r()%6]...)}
	case kHash:
		return gv{B: bytesN(32)}
	case kBig:
		return gv{B: nb(stripZeros(bytesN(int(r() % 4))))}
	case kList:
		return gv{L: []gv{detVal(k.elem, rng), detVal(k.elem, rng)}}
	case kMap:
		var l []gv
		seen := map[string]bool{}
		for len(l) < 2 {
			var key, val gv
			if k.keyFrom >= 0 {
				val = detVal(k.elem, rng)
				key = gv{B: val.L[k.keyFrom].B}
			} else {
				key, val = detVal(k.key, rng), detVal(k.elem, rng)
			}
			if id := keyID(k, key); !seen[id] {
				seen[id] = true
				l = append(l, gv{L: []gv{key, val}})
			}
		}
		return gv{L: l}
	case kStruct:
		l := make([]gv, len(k.fields))
		for i, f := range k.fields {
			l[i] = detVal(f.k, rng)
		}
		return gv{L: l}
	}
	panic("detVal: kind")
}

const fuzzMaxRaw = 4096

// decodeFuzzC04 is the data-provider layer: byte 0 selects the registered codec (mod table size),
// the rest (at most 4 KiB) is handed to that type's decoder through the arbitrary-bytes mode.
func decodeFuzzC04(d []byte) (c04Case, bool) {
	if len(d) < 1 {
		return c04Case{}, false
	}
	raw := d[1:]
	if len(raw) > fuzzMaxRaw {
		raw = raw[:fuzzMaxRaw]
	}
	return c04Case{Type: typeNames[int(d[0])%len(typeNames)], Mode: "random", Raw: append(ev.B(nil), raw...)}, true
}

// FuzzC04 drives the arbitrary-bytes mode of C04 with coverage-guided inputs. Seeds: for every
// registered type one small genuine encoding, and for every type with an element count the same
// encoding with its first count rewritten to hostile values (0xFD/0xFE/0xFF prefixes, huge counts).
func FuzzC04(f *testing.F) {
	hostile := [][]byte{
		{0xFD, 0xFF, 0xFF},
		{0xFE, 0xFF, 0xFF, 0xFF, 0xFF},
		{0xFE, 0x00, 0x00, 0x10, 0x00},
		{0xFF, 0xFF, 0xFF, 0xFF, 0xFF, 0xFF, 0xFF, 0xFF, 0xFF},
		{0xFF, 0x00, 0x00, 0x00, 0x00, 0x00, 0x20, 0x00, 0x00}, // 2^45
		{0xFF, 0x01, 0x00, 0x00, 0x00, 0x00, 0x00, 0x00, 0x80}, // 2^63+1
	}
	hostile64 := [][]byte{
		{0xFF, 0xFF, 0xFF, 0xFF, 0xFF, 0xFF, 0xFF, 0xFF},
		{0x00, 0x00, 0x10, 0x00, 0x00, 0x00, 0x00, 0x00},
		{0x00, 0x00, 0x00, 0x00, 0x00, 0x20, 0x00, 0x00},
		{0x01, 0x00, 0x00, 0x00, 0x00, 0x00, 0x00, 0x80},
	}
	for i, name := range typeNames {
		e := byName[name]
		rng := uint64(i) + 1
		enc, marks := refEncode(e.k, detVal(e.k, &rng))
		f.Add(append([]byte{byte(i)}, enc...))
		for _, m := range marks {
			if !m.Count {
				continue
			}
			hs := hostile
			if m.U64 {
				hs = hostile64
			}
			for _, h := range hs {
				d := append([]byte{byte(i)}, enc[:m.Off]...)
				d = append(append(d, h...), enc[m.Off+m.W:]...)
				f.Add(d)
			}
			break // first element count only
		}
		f.Add(append([]byte{byte(i)}, hostile[3]...))
	}
	ev.Fuzz(f, "C04", "TestC04", decodeFuzzC04, runC04)
}
