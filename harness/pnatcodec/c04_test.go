package pnatcodec

import (
	"bytes"
	"fmt"
	"reflect"
	"runtime"
	"strings"
	"sync"
	"testing"

	cstates "github.com/polynetwork/poly/core/states"
	"pgregory.net/rapid"

	"verif/harness/ev"
	"verif/harness/world"
)

func TestMain(m *testing.M) { ev.Main(m) }

// ---------------------------------------------------------------------------------------------
// C04 Contract parameters and stored records round-trip canonically

type edit struct {
	Pos int  `json:"pos"`
	Xor byte `json:"xor"`
}

type c04Case struct {
	Type     string `json:"type"`
	Mode     string `json:"mode"` // roundtrip | trunc | corrupt | count | alloccount | outofdomain | widen | unsorted | splice | random | peermismatch
	V        *gv    `json:"v,omitempty"`
	Perm     uint64 `json:"perm,omitempty"`     // seed of the map insertion orders
	Cut      int    `json:"cut,omitempty"`      // trunc: keep Cut % len bytes
	Edits    []edit `json:"edits,omitempty"`    // corrupt: data[Pos%len] ^= Xor
	Which    int    `json:"which,omitempty"`    // count/widen: which length or count prefix
	NewCount uint64 `json:"newcount,omitempty"` // count: replacement value
	Width    int    `json:"width,omitempty"`    // widen: 3, 5 or 9 byte var-uint
	Salt     byte   `json:"salt,omitempty"`     // outofdomain: selects the invalid value
	Tail     ev.B   `json:"tail,omitempty"`     // splice: bytes appended to a valid encoding
	Raw      ev.B   `json:"raw,omitempty"`      // random: the whole input
}

var (
	cntMu     sync.Mutex
	typeCount = map[string]int{}
	typeRT    = map[string]int{}
	typeBytes = map[string]int{}
)

func hasAlloc(k *kind) bool {
	if k.alloc != allocNone {
		return true
	}
	if k.elem != nil && hasAlloc(k.elem) {
		return true
	}
	for _, f := range k.fields {
		if hasAlloc(f.k) {
			return true
		}
	}
	return false
}

func hasPrefix(k *kind) bool {
	for _, x := range []kk{kBytes, kStr, kAddrVB, kBig, kList, kMap, kOptTail} {
		if hasKind(k, x) {
			return true
		}
	}
	return false
}

func genC04(t *rapid.T) c04Case {
	// rapid's integer generators favour small values; hashing a drawn word spreads the cases evenly
	// over the registry so every type gets its share
	var sel uint64
	for _, b := range rapid.SliceOfN(rapid.Byte(), 4, 4).Draw(t, "typesel") {
		sel = sel<<8 | uint64(b)
	}
	name := typeNames[mix(&sel)%uint64(len(typeNames))]
	e := byName[name]
	modes := []string{"roundtrip", "roundtrip", "roundtrip", "trunc", "corrupt", "splice", "random", "random"}
	if hasPrefix(e.k) {
		modes = append(modes, "count", "count", "widen")
	}
	if hasKind(e.k, kMap) {
		modes = append(modes, "roundtrip", "unsorted")
	}
	if constrained(e.k) {
		modes = append(modes, "outofdomain")
	}
	if hasAlloc(e.k) {
		modes = append(modes, "alloccount", "alloccount", "alloccount")
	}
	if name == "PeerPoolMap" {
		modes = append(modes, "peermismatch")
	}
	c := c04Case{Type: name, Mode: rapid.SampledFrom(modes).Draw(t, "mode")}
	switch c.Mode {
	case "random":
		c.Raw = rapid.SliceOfN(rapid.Byte(), 0, 96).Draw(t, "raw")
		if len(c.Raw) > 0 && rapid.Bool().Draw(t, "smallfirst") {
			c.Raw[0] = rapid.SampledFrom([]byte{0, 1, 2, 3, 20, 0xFC, 0xFD, 0xFE, 0xFF}).Draw(t, "b0")
		}
		return c
	case "peermismatch":
		v := genPeerMismatch(t)
		c.V = &v
		c.Perm = rapid.Uint64().Draw(t, "perm")
		return c
	}
	v := genVal(t, e.k)
	c.V = &v
	c.Perm = rapid.Uint64().Draw(t, "perm")
	switch c.Mode {
	case "trunc":
		c.Cut = rapid.IntRange(0, 1<<30).Draw(t, "cut")
	case "corrupt":
		c.Edits = rapid.SliceOfN(rapid.Custom(func(t *rapid.T) edit {
			return edit{Pos: rapid.IntRange(0, 1<<30).Draw(t, "pos"),
				Xor: rapid.OneOf(rapid.SampledFrom([]byte{1, 2, 0x80, 0xFF, 0xFD, 0xFE}), rapid.ByteRange(1, 255)).Draw(t, "xor")}
		}), 1, 3).Draw(t, "edits")
	case "count", "alloccount":
		c.Which = rapid.IntRange(0, 1<<20).Draw(t, "which")
		c.NewCount = rapid.OneOf(rapid.SampledFrom(countEdges), rapid.Uint64Range(0, 40), rapid.Uint64()).Draw(t, "newcount")
	case "widen":
		c.Which = rapid.IntRange(0, 1<<20).Draw(t, "which")
		c.Width = rapid.SampledFrom([]int{3, 5, 9}).Draw(t, "width")
	case "splice":
		c.Tail = rapid.SliceOfN(rapid.Byte(), 1, 24).Draw(t, "tail")
	case "outofdomain":
		c.Which = rapid.IntRange(0, 1<<20).Draw(t, "which")
		c.Salt = rapid.Byte().Draw(t, "salt")
	}
	return c
}

// genPeerMismatch: a PeerPoolMap whose map keys are NOT the items' own PeerPubkey and where several
// items share one PeerPubkey (the hex-case situation of F9). Only classified, never judged.
func genPeerMismatch(t *rapid.T) gv {
	n := rapid.IntRange(2, 6).Draw(t, "items")
	pubs := pubkeyPool[:3]
	var l []gv
	for i := 0; i < n; i++ {
		item := genVal(t, peerPoolItemSchema())
		item.L[1] = gv{B: []byte(rapid.SampledFrom(pubs).Draw(t, "pub"))}
		l = append(l, gv{L: []gv{{B: []byte(fmt.Sprintf("key-%d", i))}, item}})
	}
	return gv{L: []gv{{L: l}}}
}

func count(name string, m map[string]int) {
	cntMu.Lock()
	m[name]++
	cntMu.Unlock()
}

func clip(b []byte) []byte {
	if len(b) > 120 {
		return b[:120]
	}
	return b
}

// build constructs the real value of e from g, inserting map entries in the order given by seed.
func build(e *entry, g gv, seed uint64) interface{} {
	v := e.newv()
	s := seed
	setVal(e.k, permuted(e.k, g, &s), reflect.ValueOf(v).Elem())
	return v
}

func encode(ctx *ev.Ctx, e *entry, v interface{}, what string) []byte {
	var b []byte
	var err error
	if p := ev.Catch(func() { b, err = e.enc(v) }); p != "" {
		ctx.Failf("%s: %s encoder panicked: %s", e.name, what, p)
	}
	if err != nil {
		ctx.Failf("%s: %s encoder returned error: %v", e.name, what, err)
	}
	return append([]byte(nil), b...)
}

func runC04(ctx *ev.Ctx, c c04Case) {
	// fork check off: RegisterSideChainParam / SideChain always write ExtraInfo (post-fork format)
	world.ResetGlobals(0)
	e := byName[c.Type]
	if e == nil {
		ctx.Failf("unknown type %q in case", c.Type)
	}
	count(c.Type, typeCount)
	ctx.Label("mode:" + c.Mode)
	if c.Mode == "random" {
		count(c.Type, typeBytes)
		ctx.NonTrivial()
		checkBytes(ctx, e, c.Raw, "")
		return
	}
	if c.V == nil {
		ctx.Failf("case without value")
	}
	if c.Mode == "peermismatch" {
		count(c.Type, typeRT)
		runPeerMismatch(ctx, e, c)
		return
	}
	want, marks := refEncode(e.k, *c.V)
	if c.Mode == "roundtrip" {
		count(c.Type, typeRT)
		runRoundTrip(ctx, e, c, want)
		return
	}
	count(c.Type, typeBytes)
	ctx.NonTrivial()
	data := append([]byte(nil), want...)
	mustReject := ""
	switch c.Mode {
	case "trunc":
		if len(data) == 0 {
			ctx.Label("trunc:empty-encoding")
			return
		}
		data = data[:c.Cut%len(data)]
		// a strict prefix of a valid encoding lacks mandatory bytes, except where the format
		// has an optional tail
		if !hasKind(e.k, kOptTail) {
			mustReject = "a strict truncation of a valid encoding"
		}
	case "corrupt":
		if len(data) == 0 {
			ctx.Label("corrupt:empty-encoding")
			return
		}
		for _, ed := range c.Edits {
			data[ed.Pos%len(data)] ^= ed.Xor
		}
	case "count", "widen", "alloccount":
		var cand []mark
		for _, m := range marks {
			if c.Mode == "widen" && m.U64 {
				continue
			}
			if c.Mode == "alloccount" && m.Alloc == allocNone {
				continue
			}
			cand = append(cand, m)
		}
		if len(cand) == 0 {
			ctx.Label(c.Mode + ":no-prefix")
			return
		}
		m := cand[c.Which%len(cand)]
		var nb []byte
		if c.Mode != "widen" {
			if m.U64 {
				nb = le(c.NewCount, 8)
			} else {
				nb = refVarUint(c.NewCount)
			}
			if m.Count {
				ctx.Label("count:element-count")
			} else {
				ctx.Label("count:byte-length")
			}
		} else {
			old := refParse(VarU(), want[m.Off:m.Off+m.W]).val.U
			switch c.Width {
			case 3:
				nb = append([]byte{0xFD}, le(old, 2)...)
			case 5:
				nb = append([]byte{0xFE}, le(old, 4)...)
			default:
				nb = append([]byte{0xFF}, le(old, 8)...)
			}
			if uint64(old) != refParse(VarU(), nb).val.U {
				ctx.Label("widen:does-not-fit")
				return
			}
		}
		data = append(append(append([]byte(nil), want[:m.Off]...), nb...), want[m.Off+m.W:]...)
	case "outofdomain":
		// one constrained field (bool, 20-byte address as var-bytes, range-checked number) is
		// written with a value outside the decoder's documented domain: must be rejected
		probe := &refEnc{}
		probe.enc(e.k, *c.V)
		if probe.seen == 0 {
			ctx.Label("outofdomain:no-constrained-node")
			return
		}
		inj := &refEnc{viol: 1 + c.Which%probe.seen, violSalt: c.Salt}
		inj.enc(e.k, *c.V)
		if !inj.injected {
			ctx.Failf("harness: injection did not happen")
		}
		data = inj.out
		mustReject = "an encoding with one field outside the decoder's domain"
	case "unsorted":
		// maps written in insertion order instead of sorted order: still a parseable record
		s := c.Perm
		data = encodeInsertionOrder(e.k, permuted(e.k, *c.V, &s))
	case "splice":
		data = append(data, c.Tail...)
	default:
		ctx.Failf("unknown mode %q", c.Mode)
	}
	checkBytes(ctx, e, data, mustReject)
}

// encodeInsertionOrder is the reference encoder without the key sort.
func encodeInsertionOrder(k *kind, g gv) []byte {
	var out []byte
	var walk func(k *kind, g gv)
	walk = func(k *kind, g gv) {
		switch k.k {
		case kMap:
			if k.cnt == kU64 {
				out = append(out, le(uint64(len(g.L)), 8)...)
			} else {
				out = append(out, refVarUint(uint64(len(g.L)))...)
			}
			for _, en := range g.L {
				if k.keyFrom < 0 {
					walk(k.key, en.L[0])
				}
				walk(k.elem, en.L[1])
			}
		case kList:
			if k.cnt == kU64 {
				out = append(out, le(uint64(len(g.L)), 8)...)
			} else {
				out = append(out, refVarUint(uint64(len(g.L)))...)
			}
			for _, x := range g.L {
				walk(k.elem, x)
			}
		case kStruct:
			for i, f := range k.fields {
				walk(f.k, g.L[i])
			}
		default:
			b, _ := refEncode(k, g)
			out = append(out, b...)
		}
	}
	walk(k, g)
	return out
}

func runRoundTrip(ctx *ev.Ctx, e *entry, c c04Case, want []byte) {
	g := *c.V
	ng := norm(e.k, g)
	if interesting(e.k, g) {
		ctx.NonTrivial()
	}
	v := build(e, g, c.Perm)
	got := encode(ctx, e, v, "first")
	if !bytes.Equal(got, want) {
		ctx.Failf("%s: encoding differs from the wire-format model\n got  %x\n want %x", e.name, clip(got), clip(want))
	}
	// (1) decode(encode(v)) == v, whole input consumed, re-encoding identical
	var v2 interface{}
	var consumed int
	var err error
	if p := ev.Catch(func() { v2, consumed, err = e.dec(got) }); p != "" {
		ctx.Failf("%s: decoder panicked on its own encoding %x: %s", e.name, clip(got), p)
	}
	if err != nil {
		ctx.Failf("%s: decoder rejected its own encoding %x: %v", e.name, clip(got), err)
	}
	if consumed >= 0 && consumed != len(got) {
		ctx.Failf("%s: decoder consumed %d of %d bytes of its own encoding", e.name, consumed, len(got))
	}
	g2, gerr := getVal(e.k, reflect.ValueOf(v2).Elem())
	if gerr != nil {
		ctx.Failf("%s: decoded value malformed: %v", e.name, gerr)
	}
	if !eqv(g2, ng) {
		ctx.Failf("%s: round trip changed the value\n in  %+v\n out %+v\n bytes %x", e.name, ng, g2, clip(got))
	}
	if re := encode(ctx, e, v2, "second"); !bytes.Equal(re, got) {
		ctx.Failf("%s: re-encoding of the decoded value differs\n first  %x\n second %x", e.name, clip(got), clip(re))
	}
	// (2) canonicality: same logical value, different insertion orders, repeated serialisation
	if hasKind(e.k, kMap) {
		builds, reps := ev.Scale(8, 8), ev.Scale(8, 8)
		seed := c.Perm
		for i := 0; i < builds; i++ {
			vi := build(e, g, mix(&seed))
			for j := 0; j < reps; j++ {
				if b := encode(ctx, e, vi, "repeated"); !bytes.Equal(b, want) {
					ctx.Failf("%s: encoding depends on map insertion/iteration order (build %d, serialisation %d)\n got  %x\n want %x",
						e.name, i, j, clip(b), clip(want))
				}
			}
		}
		ctx.Label("canonicality-checked")
	}
	// (4) raw storage item helpers on the StorageItem encoding
	if e.name == "StorageItem" {
		val, err := cstates.GetValueFromRawStorageItem(got)
		if err != nil || !bytes.Equal(val, g.L[1].B) {
			ctx.Failf("GetValueFromRawStorageItem(%x) = %x, %v; want %x", clip(got), clip(val), err, clip(g.L[1].B))
		}
		raw := cstates.GenRawStorageItem(g.L[1].B)
		if wantRaw := append([]byte{0}, want[1:]...); !bytes.Equal(raw, wantRaw) {
			ctx.Failf("GenRawStorageItem(%x) = %x, want %x", clip(g.L[1].B), clip(raw), clip(wantRaw))
		}
	}
}

// checkBytes feeds arbitrary / mutated bytes to the real decoder and judges it against the
// reference parser: never panics; accepts exactly the inputs of the format; an accepted value
// equals the reference value, consumes the same prefix, re-encodes to the canonical encoding
// (equal to the consumed prefix unless the parser saw documented slack), and that re-encoding
// decodes back to the same value.
func checkBytes(ctx *ev.Ctx, e *entry, data []byte, mustReject string) {
	ref := refParse(e.k, data)
	if ref.hazard {
		// A count far beyond what the input can hold. A decoder that hands it to make() either panics
		// (count*elemsize > max alloc) or reserves count*elemsize bytes - possibly a fatal out-of-memory,
		// which cannot be observed safely. So the allocation behaviour is measured on a probe: the same
		// input with that count lowered to at most 2^16 (still unsatisfiable); only if the probe's
		// allocation is in proportion to the input is the original executed.
		if !probeAlloc(ctx, e, data, ref) {
			return
		}
	}
	var v interface{}
	var consumed int
	var err error
	if p := ev.Catch(func() { v, consumed, err = e.dec(data) }); p != "" {
		if ref.hazard && strings.Contains(p, "makeslice") {
			if ctx.Known("unbounded-make:"+e.name,
				"%s.Deserialization panics (%s) on %d input bytes: element count %d read from the input is passed to make() unchecked; input %x",
				e.name, strings.SplitN(p, "\n", 2)[0], len(data), ref.hzCnt, clip(data)) {
				ctx.Label("known:unbounded-make")
				return
			}
		}
		ctx.Failf("%s: decoder panicked on %x: %s", e.name, clip(data), p)
	}
	if mustReject != "" && err == nil {
		ctx.Failf("%s: %s (%d bytes) was accepted: %x", e.name, mustReject, len(data), clip(data))
	}
	if (err == nil) != ref.ok {
		if ref.ok {
			ctx.Failf("%s: decoder rejected well-formed input %x: %v", e.name, clip(data), err)
		}
		ctx.Failf("%s: decoder accepted malformed input %x (format model: %s)", e.name, clip(data), ref.why)
	}
	if !ref.ok {
		ctx.Label("rejected")
		return
	}
	got, gerr := getVal(e.k, reflect.ValueOf(v).Elem())
	if gerr != nil {
		ctx.Failf("%s: accepted value malformed: %v (input %x)", e.name, gerr, clip(data))
	}
	if !eqv(got, ref.val) {
		ctx.Failf("%s: decoded value differs from the format model\n got  %+v\n want %+v\n input %x", e.name, got, ref.val, clip(data))
	}
	if consumed >= 0 && consumed != ref.consumed {
		ctx.Failf("%s: decoder consumed %d bytes, format model %d; input %x", e.name, consumed, ref.consumed, clip(data))
	}
	re := encode(ctx, e, v, "re-")
	canon, _ := refEncode(e.k, ref.val)
	if !bytes.Equal(re, canon) {
		ctx.Failf("%s: re-encoding of an accepted value is not its canonical encoding\n got  %x\n want %x\n input %x", e.name, clip(re), clip(canon), clip(data))
	}
	if len(ref.slack) == 0 {
		if !bytes.Equal(re, data[:ref.consumed]) {
			ctx.Failf("%s: accepted input is not reproduced by re-encoding\n input prefix %x\n re-encoded   %x", e.name, clip(data[:ref.consumed]), clip(re))
		}
		ctx.Label("accepted:exact")
	} else {
		for _, s := range ref.slack {
			ctx.Label("accepted:slack:" + s)
		}
	}
	// the canonical form is a fixed point
	var v2 interface{}
	var c2 int
	if p := ev.Catch(func() { v2, c2, err = e.dec(re) }); p != "" {
		ctx.Failf("%s: decoder panicked on a re-encoding %x: %s", e.name, clip(re), p)
	}
	if err != nil || (c2 >= 0 && c2 != len(re)) {
		ctx.Failf("%s: re-encoding %x does not decode completely: consumed %d, err %v", e.name, clip(re), c2, err)
	}
	g2, gerr := getVal(e.k, reflect.ValueOf(v2).Elem())
	if gerr != nil || !eqv(g2, got) {
		ctx.Failf("%s: decode(encode(x)) != x for an accepted value: %+v vs %+v (%v)", e.name, g2, got, gerr)
	}
	if re2 := encode(ctx, e, v2, "third"); !bytes.Equal(re2, re) {
		ctx.Failf("%s: canonical encoding is not stable: %x vs %x", e.name, clip(re), clip(re2))
	}
}

const probeCount = 1 << 16

// probeAlloc decodes data with the unsatisfiable element count found by the reference parser
// lowered to min(count, 2^16) and measures the heap bytes allocated. It reports whether the
// original input may be executed.
func probeAlloc(ctx *ev.Ctx, e *entry, data []byte, ref refResult) bool {
	pc := ref.hzCnt
	if pc > probeCount {
		pc = probeCount
	}
	if uint64(len(data)-ref.hzOff-ref.hzW) >= pc {
		ctx.Label("alloc:input-too-large-to-probe")
		return false
	}
	var cb []byte
	switch ref.hzW {
	case 8:
		cb = le(pc, 8)
	case 3:
		cb = append([]byte{0xFD}, le(pc, 2)...)
	case 5:
		cb = append([]byte{0xFE}, le(pc, 4)...)
	case 9:
		cb = append([]byte{0xFF}, le(pc, 8)...)
	default:
		ctx.Failf("harness: count of width %d", ref.hzW)
	}
	probe := append(append(append([]byte(nil), data[:ref.hzOff]...), cb...), data[ref.hzOff+ref.hzW:]...)
	var m0, m1 runtime.MemStats
	var err error
	runtime.ReadMemStats(&m0)
	p := ev.Catch(func() { _, _, err = e.dec(probe) })
	runtime.ReadMemStats(&m1)
	if p != "" {
		ctx.Failf("%s: decoder panicked on %x: %s", e.name, clip(probe), p)
	}
	if err == nil {
		ctx.Failf("%s: decoder accepted %x although it announces %d elements in %d remaining bytes", e.name, clip(probe), pc, len(data)-ref.hzOff-ref.hzW)
	}
	delta := m1.TotalAlloc - m0.TotalAlloc
	limit := 8*pc + 64<<10 + 16*uint64(len(data))
	if delta > limit {
		if ctx.Known("unbounded-make:"+e.name,
			"%s.Deserialization allocates in proportion to an element count read from the input, not to the input: %d-byte input %x announces %d elements; "+
				"with the count lowered to %d the decoder allocated %d bytes before rejecting (the original count would reserve ~%d x that, or panic in make)",
			e.name, len(data), clip(data), ref.hzCnt, pc, delta, ref.hzCnt/pc) {
			ctx.Label("known:unbounded-make")
		}
		return false
	}
	ctx.Label("alloc:probe-proportionate")
	return true
}

// runPeerMismatch only classifies (DESIGN C04 note): PeerPoolMap sorts by the item's PeerPubkey,
// so a map holding two items with the same PeerPubkey under different keys has no defined order.
func runPeerMismatch(ctx *ev.Ctx, e *entry, c c04Case) {
	distinct := map[string]bool{}
	seed := c.Perm
	for i := 0; i < 4; i++ {
		v := build(e, *c.V, mix(&seed))
		for j := 0; j < 8; j++ {
			b := encode(ctx, e, v, "mismatch")
			distinct[string(b)] = true
			if p := ev.Catch(func() { e.dec(b) }); p != "" {
				ctx.Failf("PeerPoolMap: decoder panicked on %x: %s", clip(b), p)
			}
		}
	}
	pubs := map[string]int{}
	dup := false
	for _, en := range c.V.L[0].L {
		pubs[string(en.L[1].L[1].B)]++
		if pubs[string(en.L[1].L[1].B)] > 1 {
			dup = true
		}
	}
	switch {
	case !dup:
		ctx.Label("peermismatch:no-shared-pubkey")
		if len(distinct) != 1 {
			ctx.Failf("PeerPoolMap: items with distinct PeerPubkey serialised in %d different ways", len(distinct))
		}
	case len(distinct) == 1:
		ctx.Label("peermismatch:shared-pubkey:bytes-stable")
	default:
		ctx.Label("peermismatch:shared-pubkey:bytes-vary")
	}
}

func TestC04(t *testing.T) {
	rec := ev.Get("C04")
	rec.Extra("types", typeCount)
	rec.Extra("types_roundtrip", typeRT)
	rec.Extra("types_bytes", typeBytes)
	rec.Extra("registered_types", fmt.Sprintf("%d: %s", len(typeNames), strings.Join(typeNames, " ")))
	ev.Drive(t, "C04",
		fmt.Sprintf("cases: one of %d registered codec types (uniform) x mode. roundtrip: value drawn from the per-field domains of the type's schema "+
			"(20-byte addresses, non-negative big ints, maps of 0..12 distinct adversarial keys, lists 0..8, nil/empty variants), built with a seeded map insertion order; "+
			"byte modes: strict truncation, 1-3 byte corruptions, rewritten length/count prefixes (incl. huge counts), widened var-uints, unsorted map entries, one field outside its domain (bool>1, address length!=20, BlocksToWait 0, version>0), "+
			"trailing bytes, arbitrary bytes (<=96). non-trivial: value holds a map with >=2 entries or a list with >=2 items, or the input is mutated/arbitrary; "+
			"distinct by JSON encoding of the case. Fork check off (EXTRA_INFO_HEIGHT_FORK_CHECK=false): ExtraInfo always written.", len(typeNames)),
		genC04, runC04)
}
