package pauth

import (
	"encoding/json"
	"fmt"
	"strings"
	"testing"

	"github.com/polynetwork/poly/common"
	"github.com/polynetwork/poly/native/service/governance/node_manager"
	"github.com/polynetwork/poly/native/service/governance/side_chain_manager"
	"pgregory.net/rapid"

	"verif/harness/ev"
	"verif/harness/world"
)

// ---------------------------------------------------------------------------------------------
// C18 Privileged native operations require the right witness
//
// Two kinds of cases:
//  priv: a forked L1 world with every router registered through the real side_chain_manager flow
//        and a sequence of privileged calls, each signed by a generated subset of {required
//        witness, one validator, all validators individually, outsider, decoy operator addresses,
//        owners of other things, the impostor named in the parameter}, sent directly or through
//        one or two probe-contract hops. Oracle: a call whose required witness (operator address
//        recomputed independently from the consensus peers / the recorded owner) is neither among
//        the signers nor the immediately calling contract must fail and leave the state dump
//        unchanged; any transaction not witnessed by the operator must leave the header-sync
//        keyspace, the consensus configuration record and the chain black list unchanged.
//  ctx:  a call tree over four probe contracts; at every evaluation point CheckWitness(q) must be
//        true exactly for q in signers or q == the contract that made the call.

// key pool allocation (world.Acct indices)
const (
	aCandApproved = 16 // peer approved as candidate in preludes >= 1
	aCandPending  = 17 // peer with a pending application
	aFreshPeer    = 18 // 18,19: fresh peer keys for registerCandidate
	aAttackerSet  = 20 // 20..27: peer set used by post-genesis initConfig
	aOwnCandAppr  = 40
	aOwnCandPend  = 41
	aChainOwner   = 42 // 42..44
	aRelayerOwner = 45
	aRippleOp     = 46
	aFreshOwner   = 47
	aSVOwner      = 48
	aOutsider     = 60
	aRelayer      = 61
)

const (
	chainPending   = uint64(900)
	chainUpdPend   = uint64(102) // ETH chain: update request pending
	chainQuitPend  = uint64(103) // ONT chain: quit request pending
	chainRipple    = uint64(123)
	chainVote      = uint64(100)
	highStartBlock = 18823000 + 7
)

type c18Chain struct {
	ID, Router uint64
	Owner      int
}

type c18Info struct {
	N      int
	Chains []c18Chain
}

func c18Routers() []uint64 {
	var r []uint64
	for i := uint64(0); i <= 23; i++ {
		if i != 13 {
			r = append(r, i)
		}
	}
	return append(r, 13, 99) // two ids without a handler
}

func acctAddr(i int) common.Address { return world.Acct(i).Address }

func one(a common.Address) []common.Address { return []common.Address{a} }

func rippleExtra() []byte {
	return encRippleExtra(acctAddr(aRippleOp), 1, 2, 3, [][]byte{{2, 1}, {2, 2}, {2, 3}}, []byte{0x01, 0x00})
}

func registerChain(f *fw, n int, c c18Chain) {
	extra := []byte{}
	if c.Router == 23 {
		extra = rippleExtra()
	}
	owner := acctAddr(c.Owner)
	mustOK(f.invoke(scmAddr, "registerSideChain",
		encRegisterSideChain(owner, c.ID, c.Router, fmt.Sprintf("chain-%d", c.ID), 1, make([]byte, 20), extra), one(owner)),
		fmt.Sprintf("registerSideChain %d", c.ID))
	for i := 0; i < n; i++ { // approvals past the quorum fail ("not requested"): ignored
		f.invoke(scmAddr, "approveRegisterSideChain", encChainid(c.ID, acctAddr(i)), one(acctAddr(i)))
	}
}

// genesis epoch lengths (MaxBlockChangeView given to initConfig, which puts no bound on it)
var c18GenesisBcv = []uint32{60000, 1<<32 - 1, 7, 1 << 31}

func buildC18(n int, net uint32, hi bool, prelude int, bcv uint32) (*world.World, interface{}) {
	start := uint32(1)
	if hi {
		start = highStartBlock
	}
	w := world.New(n, world.Opts{NetworkID: net, StartHeight: start, MaxBlockChangeView: bcv})
	f := &fw{World: w, nonce: 1 << 16}
	info := &c18Info{N: n}
	for _, r := range c18Routers() {
		c := c18Chain{ID: 100 + r, Router: r, Owner: aChainOwner + int(r%3)}
		registerChain(f, n, c)
		info.Chains = append(info.Chains, c)
	}
	// every chain must really be registered now (the flow is the real one)
	for _, c := range info.Chains {
		sc, err := side_chain_manager.GetSideChain(w.Service(), c.ID)
		if err != nil || sc == nil || sc.Router != c.Router {
			panic(fmt.Sprintf("harness setup: chain %d not registered: %v", c.ID, err))
		}
	}
	own := acctAddr(aChainOwner)
	mustOK(f.invoke(scmAddr, "registerSideChain", encRegisterSideChain(own, chainPending, 2, "pending", 1, make([]byte, 20), nil), one(own)), "pending chain")
	o102 := acctAddr(aChainOwner + 2%3)
	mustOK(f.invoke(scmAddr, "updateSideChain", encRegisterSideChain(o102, chainUpdPend, 2, "renamed", 2, make([]byte, 20), nil), one(o102)), "update request")
	o103 := acctAddr(aChainOwner + 3%3)
	mustOK(f.invoke(scmAddr, "quitSideChain", encChainid(chainQuitPend, o103), one(o103)), "quit request")
	mustOK(f.invoke(scmAddr, "registerAsset", encRegisterAsset(acctAddr(aRippleOp), chainRipple, chainUpdPend, make([]byte, 20), make([]byte, 20)), one(acctAddr(aRippleOp))), "registerAsset")
	// node manager: one pending application
	mustOK(f.invoke(nmAddr, "registerCandidate", encPeer(world.PubHex(world.Acct(aCandPending)), acctAddr(aOwnCandPend)), one(acctAddr(aOwnCandPend))), "registerCandidate pending")
	// relayer manager: apply 0 pending, apply 1 approved, remove 0 pending
	ro := acctAddr(aRelayerOwner)
	mustOK(f.invoke(rmAddr, "registerRelayer", encAddrList(one(acctAddr(aRelayer)), ro), one(ro)), "registerRelayer 0")
	mustOK(f.invoke(rmAddr, "registerRelayer", encAddrList(one(acctAddr(aRelayer)), ro), one(ro)), "registerRelayer 1")
	for i := 0; i < n; i++ {
		f.invoke(rmAddr, "approveRegisterRelayer", encIDAddr(1, acctAddr(i)), one(acctAddr(i)))
	}
	mustOK(f.invoke(rmAddr, "RemoveRelayer", encAddrList(one(acctAddr(aRelayer)), ro), one(ro)), "RemoveRelayer 0")
	// neo3 state validators: apply 0 and remove 0 pending
	so := acctAddr(aSVOwner)
	sv := []string{world.PubHex(world.Acct(aRelayer))}
	mustOK(f.invoke(n3Addr, "registerStateValidator", encStringList(sv, so), one(so)), "registerStateValidator")
	mustOK(f.invoke(n3Addr, "removeStateValidator", encStringList(sv, so), one(so)), "removeStateValidator")
	if prelude >= 1 {
		oc := acctAddr(aOwnCandAppr)
		pub := world.PubHex(world.Acct(aCandApproved))
		mustOK(f.invoke(nmAddr, "registerCandidate", encPeer(pub, oc), one(oc)), "registerCandidate approved")
		for i := 0; i < n; i++ {
			f.invoke(nmAddr, "approveCandidate", encPeer(pub, acctAddr(i)), one(acctAddr(i)))
		}
		_, all := w.ConsensusPeers()
		if it, ok := all[pub]; !ok || it.Status != node_manager.CandidateStatus {
			panic("harness setup: candidate not approved")
		}
	}
	if prelude >= 2 {
		q := n - 1
		mustOK(f.invoke(nmAddr, "quitNode", encPeer(world.PubHex(world.Acct(q)), acctAddr(q)), one(acctAddr(q))), "quitNode")
		w.NextBlock()
		mustOK(f.invoke(nmAddr, "commitDpos", nil, one(w.Operator())), "commitDpos witnessed by the operator address derived from the consensus peers")
		pubs, _ := w.ConsensusPeers()
		if len(pubs) != n { // n-1 old + 1 new
			panic(fmt.Sprintf("harness setup: epoch change gave %d consensus peers, want %d", len(pubs), n))
		}
	}
	w.NextBlock()
	return w, info
}

// ---------------------------------------------------------------------------------------------
// case

type c18Op struct {
	M    string `json:"m"`
	Sub  int    `json:"sub,omitempty"`  // chain / router / peer selector
	Own  int    `json:"own,omitempty"`  // who is named in the parameter (free-owner methods) / impostor selector
	S    int    `json:"s"`              // signer bit mask, see signersFor
	Via  int    `json:"via,omitempty"`  // probe hops in front of the call
	Pay  int    `json:"pay,omitempty"`  // payload variant (syncGenesisHeader)
	Raw  ev.B   `json:"raw,omitempty"`  // payload bytes for variant "random"
	Adv  int    `json:"adv,omitempty"`  // before the call: 1 next block; 2 jump 70000 blocks; 3/4/5 jump to one block before / exactly / one block after the height at which the running epoch is due
	Dcoy int    `json:"dcoy,omitempty"` // decoy operator variant
	Pyr  int    `json:"pyr,omitempty"`  // Payer field of the transaction: 0 empty, 1 the address whose witness the call requires, 2 the address named in the parameter (the payer never signs by that alone)
}

type c18Case struct {
	Mode    string  `json:"mode"` // priv | ctx
	N       int     `json:"n,omitempty"`
	Net     uint32  `json:"net,omitempty"`
	Hi      bool    `json:"hi,omitempty"`
	Prelude int     `json:"prelude,omitempty"`
	Bcv     int     `json:"bcv,omitempty"` // genesis MaxBlockChangeView: 0 60000, 1 2^32-1, 2 seven blocks, 3 2^31
	Ops     []c18Op `json:"ops,omitempty"`
	Tree    *pnode  `json:"tree,omitempty"`
	Signers []int   `json:"signers,omitempty"` // ctx mode: pool indices of the signers
}

var (
	c18OperatorMethods = []string{"syncGenesisHeader", "syncGenesisHeader", "syncGenesisHeader", "updateConfig", "updateConfig", "BlackChain", "WhiteChain", "commitDpos", "commitDpos", "commitDpos", "initConfig"}
	c18FreeOwner       = []string{"registerCandidate", "registerSideChain", "registerRelayer", "RemoveRelayer", "registerStateValidator",
		"removeStateValidator", "approveCandidate", "blackNode", "whiteNode", "approveRegisterSideChain", "approveUpdateSideChain",
		"approveQuitSideChain", "approveRegisterRelayer", "approveRemoveRelayer", "approveRegisterStateValidator",
		"approveRemoveStateValidator", "updateFee", "addSignature", "voteImport", "rippleImport"}
	c18FixedOwner = []string{"unRegisterCandidate", "quitNode", "updateSideChain", "quitSideChain", "registerAsset"}
)

func genC18Op(t *rapid.T) c18Op {
	var op c18Op
	switch rapid.IntRange(0, 9).Draw(t, "class") {
	case 0, 1, 2, 3, 4:
		op.M = rapid.SampledFrom(c18OperatorMethods).Draw(t, "m")
	case 5, 6, 7:
		op.M = rapid.SampledFrom(c18FreeOwner).Draw(t, "m")
	default:
		op.M = rapid.SampledFrom(c18FixedOwner).Draw(t, "m")
	}
	op.Sub = rapid.IntRange(0, 63).Draw(t, "sub")
	op.Own = rapid.IntRange(0, 4).Draw(t, "own")
	// signer masks: mostly WITHOUT the required witness (bit 0) but with other plausible ones
	op.S = rapid.OneOf(
		rapid.IntRange(0, 127),
		rapid.Map(rapid.IntRange(0, 63), func(v int) int { return v << 1 }),
		rapid.Map(rapid.IntRange(1, 63), func(v int) int { return v << 1 }),
		rapid.SampledFrom([]int{0, 1, 2, 4, 8, 16, 32, 64, 6, 22, 126}),
	).Draw(t, "s")
	op.Via = rapid.SampledFrom([]int{0, 0, 0, 1, 2}).Draw(t, "via")
	op.Dcoy = rapid.IntRange(0, 5).Draw(t, "dcoy")
	op.Pyr = rapid.SampledFrom([]int{0, 0, 0, 1, 1, 2}).Draw(t, "pyr")
	op.Adv = rapid.SampledFrom([]int{0, 0, 0, 0, 1, 1, 2}).Draw(t, "adv")
	if op.M == "commitDpos" {
		op.Adv = rapid.SampledFrom([]int{0, 1, 1, 2, 3, 4, 5}).Draw(t, "adv")
	}
	if op.M == "syncGenesisHeader" {
		op.Pay = rapid.SampledFrom([]int{5, 5, 5, 0, 1, 2, 3, 4, 6}).Draw(t, "pay")
		if op.Pay == 1 {
			op.Raw = rapid.SliceOfN(rapid.Byte(), 0, 120).Draw(t, "raw")
		}
	}
	return op
}

func genPNode(t *rapid.T, id string, depth int) *pnode {
	n := &pnode{ID: id, C: rapid.IntRange(0, nProbes-1).Draw(t, "c")}
	n.Fail = rapid.IntRange(0, 9).Draw(t, "fail") == 0
	maxKids := 3
	if depth >= 3 {
		maxKids = 0
	}
	k := rapid.IntRange(0, maxKids).Draw(t, "nkids")
	for i := 0; i < k; i++ {
		n.Kids = append(n.Kids, pkid{Probe: genPNode(t, fmt.Sprintf("%s.%d", id, i), depth+1),
			Swallow: rapid.IntRange(0, 2).Draw(t, "swallow") == 0})
	}
	return n
}

func genC18(t *rapid.T) c18Case {
	if rapid.IntRange(0, 7).Draw(t, "kind") == 0 {
		c := c18Case{Mode: "ctx"}
		c.Tree = genPNode(t, "r", 0)
		c.Signers = rapid.SliceOfNDistinct(rapid.SampledFrom([]int{0, 1, aOutsider, aChainOwner}), 0, 3, rapid.ID[int]).Draw(t, "signers")
		return c
	}
	c := c18Case{Mode: "priv"}
	c.N = rapid.IntRange(4, ev.Scale(7, 9)).Draw(t, "n")
	c.Net = rapid.SampledFrom([]uint32{2, 2, 1}).Draw(t, "net")
	c.Hi = rapid.Bool().Draw(t, "hi")
	c.Prelude = rapid.IntRange(0, 2).Draw(t, "prelude")
	c.Bcv = rapid.SampledFrom([]int{0, 0, 0, 0, 0, 0, 1, 1, 2, 3}).Draw(t, "bcv")
	if c.Bcv != 0 { // the genesis-length variants exist for one world shape only (each base world costs a build)
		c.N, c.Net, c.Hi = 4, 2, false
	}
	nops := rapid.SampledFrom([]int{1, 3, 8, 15, 25, 40}).Draw(t, "nops")
	c.Ops = rapid.SliceOfN(rapid.Custom(genC18Op), nops, nops).Draw(t, "ops")
	return c
}

// ---------------------------------------------------------------------------------------------
// payloads

func btcHeader84(seed byte) []byte {
	b := make([]byte, 84)
	for i := range b[:80] {
		b[i] = byte(i)*3 + seed
	}
	b[83] = 1 + seed%7 // height (big endian)
	return b
}

const ethGenesisJSON = `{"parentHash":"0x0000000000000000000000000000000000000000000000000000000000000000",` +
	`"sha3Uncles":"0x1dcc4de8dec75d7aab85b567b6ccd41ad312451b948a7413f0a142fd40d49347",` +
	`"miner":"0x0000000000000000000000000000000000000000",` +
	`"stateRoot":"0xd7f8974fb5ac78d9ac099b9ad5018bedc2ce0a72dad1827a1709da30580f0544",` +
	`"transactionsRoot":"0x56e81f171bcc55a6ff8345e692c0f86e5b48e01b996cadc001622fb5e363b421",` +
	`"receiptsRoot":"0x56e81f171bcc55a6ff8345e692c0f86e5b48e01b996cadc001622fb5e363b421",` +
	`"logsBloom":"0x%s","difficulty":"0x400000000","number":"0x0","gasLimit":"0x1388","gasUsed":"0x0","timestamp":"0x0",` +
	`"extraData":"0x11bbe8db4e347b4e8c937c1c8370e4b5ed33adb3db69cbdb7a38e1e50b1b82fa",` +
	`"mixHash":"0x0000000000000000000000000000000000000000000000000000000000000000","nonce":"0x0000000000000042",` +
	`"hash":"0xd4e56740f876aef8c010b86a40d5f56745a118d0906a34e69aec8c0db1cb8fa3"}`

func ethGenesis() []byte { return []byte(fmt.Sprintf(ethGenesisJSON, strings.Repeat("00", 256))) }

// posaGenesis is a genesis payload of the BSC-style handlers: an EVM header at height 400 whose
// extra data lists two validators, plus one earlier validator set.
func posaGenesis() []byte {
	ext := "0x" + strings.Repeat("00", 32) + strings.Repeat("11", 20) + strings.Repeat("22", 20) + strings.Repeat("00", 65)
	hdr := strings.Replace(string(ethGenesis()), `"number":"0x0"`, `"number":"0x190"`, 1)
	hdr = strings.Replace(hdr, `"extraData":"0x11bbe8db4e347b4e8c937c1c8370e4b5ed33adb3db69cbdb7a38e1e50b1b82fa"`, `"extraData":"`+ext+`"`, 1)
	return []byte(fmt.Sprintf(`{"Header":%s,"PrevValidators":[{"Height":200,"Validators":["0x%s"]}]}`, hdr, strings.Repeat("33", 20)))
}

// routers whose handler accepts posaGenesis (found by experiment): bsc, heco, pixiechain, hsc, bytom
func posaRouter(r uint64) bool { return r == 6 || r == 7 || r == 19 || r == 20 || r == 22 }

func genesisPayload(op c18Op, router uint64) (b []byte, valid bool) {
	switch op.Pay {
	case 0:
		return nil, false
	case 1:
		return op.Raw, router == 1 && len(op.Raw) == 84
	case 2:
		return btcHeader84(byte(op.Sub)), router == 1
	case 3:
		return ethGenesis(), router == 2
	case 4:
		return []byte("{}"), false
	case 6:
		return posaGenesis(), posaRouter(router)
	default:
		// router-matched cheap valid payload where there is one
		switch {
		case router == 1:
			return btcHeader84(byte(op.Sub)), true
		case router == 2:
			return ethGenesis(), true
		case posaRouter(router):
			return posaGenesis(), true
		}
		return []byte{0}, false
	}
}

// ---------------------------------------------------------------------------------------------
// running a priv case

type c18Run struct {
	ctx  *ev.Ctx
	f    *fw
	info *c18Info
	op   common.Address // current operator (independently recomputed after every successful tx)
}

type c18Call struct {
	contract common.Address
	method   string
	args     []byte
	required common.Address // the witness without which the call must fail
	named    common.Address // address named in the parameter (may be an impostor)
	exempt   string         // non-empty: the property does not restrict this call (label)
	opOnly   bool
	validPay bool
}

func (r *c18Run) namedFree(op c18Op) common.Address {
	switch op.Own {
	case 0:
		return acctAddr(aFreshOwner)
	case 1:
		return acctAddr(op.Sub % r.info.N)
	case 2:
		return probeAddrs[0]
	case 3:
		return probeAddrs[1]
	}
	return acctAddr(aOutsider)
}

// impostor: for fixed-owner methods the parameter may name somebody else than the recorded owner
func (r *c18Run) namedFixed(op c18Op, owner common.Address) common.Address {
	switch op.Own {
	case 3:
		return acctAddr(aOutsider)
	case 4:
		return acctAddr(op.Sub % r.info.N)
	}
	return owner
}

func (r *c18Run) build(op c18Op) c18Call {
	info := r.info
	ch := info.Chains[op.Sub%len(info.Chains)]
	c := c18Call{}
	switch op.M {
	// ---- operator-only
	case "syncGenesisHeader":
		pay, valid := genesisPayload(op, ch.Router)
		c = c18Call{contract: hsAddr, method: "syncGenesisHeader", args: encSyncGenesis(ch.ID, pay), validPay: valid}
		c.opOnly = true
	case "updateConfig":
		// epoch lengths: ordinary ones, the minimum, and huge ones ("rotation switched off"): updateConfig has no upper bound
		bcv := []uint32{10000 + uint32(op.Sub)*7, 10000 + uint32(op.Sub)*7, 10000, 1 << 31, 1<<32 - 1, 1<<32 - 2, 1<<32 - 4, 1<<32 - 1001}[op.Sub%8]
		c = c18Call{contract: nmAddr, method: "updateConfig", args: encConfiguration(5000+uint32(op.Sub), 6000, 10+uint32(op.Sub%3), bcv), validPay: true}
		c.opOnly = true
	case "BlackChain", "WhiteChain":
		c = c18Call{contract: ccmAddr, method: op.M, args: encVarUint(ch.ID), validPay: true, opOnly: true}
	case "commitDpos":
		c = c18Call{contract: nmAddr, method: "commitDpos", validPay: true, opOnly: true}
		svc := r.f.Service()
		gv, err1 := node_manager.GetGovernanceView(svc)
		cfg, err2 := node_manager.GetConfig(svc)
		if err1 != nil || err2 != nil {
			panic(fmt.Sprintf("harness: cannot read governance view/config: %v %v", err1, err2))
		}
		// the epoch is due at start + length, computed without wrap-around
		if uint64(r.f.Height) >= uint64(gv.Height)+uint64(cfg.MaxBlockChangeView) {
			c.exempt = "commitDpos-after-cycle"
		} else if uint64(gv.Height)+uint64(cfg.MaxBlockChangeView) > 1<<32-1 {
			r.ctx.Label("commitDpos:due-height-beyond-uint32")
		}
		if gv.Height > 0 {
			r.ctx.Label("commitDpos:epoch-started-above-0")
		}
	case "initConfig":
		var peers []int
		if op.Sub%4 == 0 { // same peer set as genesis, other parameters
			for i := 0; i < info.N; i++ {
				peers = append(peers, i)
			}
		} else {
			for i := 0; i < 4+op.Sub%4; i++ {
				peers = append(peers, aAttackerSet+i)
			}
		}
		c = c18Call{contract: nmAddr, method: "initConfig", args: encVBFTConfig(peers, 20000+uint32(op.Sub)), validPay: true, opOnly: true}
	// ---- owner named in the parameter, nothing recorded
	case "registerCandidate":
		x := r.namedFree(op)
		c = c18Call{contract: nmAddr, method: op.M, args: encPeer(world.PubHex(world.Acct(aFreshPeer+op.Sub%2)), x), required: x}
	case "registerSideChain":
		x := r.namedFree(op)
		c = c18Call{contract: scmAddr, method: op.M, args: encRegisterSideChain(x, 500+uint64(op.Sub%8), uint64(op.Sub%24), "new", 1, make([]byte, 20), nil), required: x}
	case "registerRelayer", "RemoveRelayer":
		x := r.namedFree(op)
		c = c18Call{contract: rmAddr, method: op.M, args: encAddrList(one(acctAddr(aRelayer)), x), required: x}
	case "registerStateValidator", "removeStateValidator":
		x := r.namedFree(op)
		c = c18Call{contract: n3Addr, method: op.M, args: encStringList([]string{world.PubHex(world.Acct(aOutsider))}, x), required: x}
	case "approveCandidate":
		x := r.namedFree(op)
		c = c18Call{contract: nmAddr, method: op.M, args: encPeer(world.PubHex(world.Acct(aCandPending)), x), required: x}
	case "blackNode":
		x := r.namedFree(op)
		c = c18Call{contract: nmAddr, method: op.M, args: encPeerList([]string{world.PubHex(world.Acct((op.Sub / 8) % info.N))}, x), required: x}
	case "whiteNode":
		x := r.namedFree(op)
		c = c18Call{contract: nmAddr, method: op.M, args: encPeer(world.PubHex(world.Acct((op.Sub/8)%info.N)), x), required: x}
	case "approveRegisterSideChain":
		x := r.namedFree(op)
		c = c18Call{contract: scmAddr, method: op.M, args: encChainid(chainPending, x), required: x}
	case "approveUpdateSideChain":
		x := r.namedFree(op)
		c = c18Call{contract: scmAddr, method: op.M, args: encChainid(chainUpdPend, x), required: x}
	case "approveQuitSideChain":
		x := r.namedFree(op)
		c = c18Call{contract: scmAddr, method: op.M, args: encChainid(chainQuitPend, x), required: x}
	case "approveRegisterRelayer", "approveRemoveRelayer":
		x := r.namedFree(op)
		c = c18Call{contract: rmAddr, method: op.M, args: encIDAddr(0, x), required: x}
	case "approveRegisterStateValidator", "approveRemoveStateValidator":
		x := r.namedFree(op)
		c = c18Call{contract: n3Addr, method: op.M, args: encIDAddr(0, x), required: x}
	case "updateFee":
		x := r.namedFree(op)
		c = c18Call{contract: scmAddr, method: op.M, args: encUpdateFee(x, chainRipple, 0, []byte{byte(1 + op.Sub)}), required: x}
	case "addSignature":
		x := r.namedFree(op)
		c = c18Call{contract: smAddr, method: op.M, args: encAddSignature(x, ch.ID, []byte{byte(op.Sub % 4)}, []byte{1, 2, 3, byte(op.Sub)}), required: x}
	case "voteImport":
		x := r.namedFree(op)
		extra := encMakeTxParam([]byte{1}, []byte{byte(op.Sub % 4)}, []byte{2}, chainUpdPend, make([]byte, 20), "unlock", []byte{3})
		c = c18Call{contract: ccmAddr, method: "ImportOuterTransfer", args: encEntrance(chainVote, uint32(op.Sub%4), nil, x[:], extra, nil), required: x}
	case "rippleImport":
		x := r.namedFree(op)
		s := newSnk()
		s.WriteVarBytes(make([]byte, 20))
		s.WriteUint64(1000)
		extra := encMakeTxParam([]byte{1}, []byte{byte(op.Sub % 4)}, []byte{2}, chainUpdPend, nil, "unlock", s.Bytes())
		c = c18Call{contract: ccmAddr, method: "ImportOuterTransfer", args: encEntrance(chainRipple, uint32(op.Sub%4), nil, x[:], extra, nil), required: x}
	// ---- owner recorded in state
	case "unRegisterCandidate":
		owner := acctAddr(aOwnCandPend)
		x := r.namedFixed(op, owner)
		c = c18Call{contract: nmAddr, method: op.M, args: encPeer(world.PubHex(world.Acct(aCandPending)), x), required: owner, named: x}
	case "quitNode":
		i := (op.Sub / 8) % info.N
		owner := acctAddr(i)
		x := r.namedFixed(op, owner)
		c = c18Call{contract: nmAddr, method: op.M, args: encPeer(world.PubHex(world.Acct(i)), x), required: owner, named: x}
	case "updateSideChain":
		owner := acctAddr(ch.Owner)
		x := r.namedFixed(op, owner)
		c = c18Call{contract: scmAddr, method: op.M, args: encRegisterSideChain(x, ch.ID, ch.Router, "upd", 3, make([]byte, 20), nil), required: owner, named: x}
	case "quitSideChain":
		owner := acctAddr(ch.Owner)
		x := r.namedFixed(op, owner)
		c = c18Call{contract: scmAddr, method: op.M, args: encChainid(ch.ID, x), required: owner, named: x}
	case "registerAsset":
		owner := acctAddr(aRippleOp)
		x := r.namedFixed(op, owner)
		c = c18Call{contract: scmAddr, method: op.M, args: encRegisterAsset(x, chainRipple, 100+uint64(op.Sub%24), make([]byte, 20), make([]byte, 20)), required: owner, named: x}
	default:
		panic("unknown method " + op.M)
	}
	if c.opOnly {
		c.required = r.op
	} else {
		c.validPay = true
	}
	if c.named == (common.Address{}) {
		c.named = c.required
	}
	return c
}

// decoy operator addresses: plausible, but not the address derived from the current consensus set
func (r *c18Run) decoy(op c18Op) common.Address {
	n := r.info.N
	all := make([]int, n)
	for i := range all {
		all[i] = i
	}
	m := n - (n-1)/3
	switch op.Dcoy {
	case 0: // genesis validators (differs from the current operator after an epoch change / quit)
		return multisigOf(all, m)
	case 1: // one signature fewer
		return multisigOf(all, m-1)
	case 2: // every pool member incl. the candidate
		return multisigOf(append(append([]int{}, all...), aCandApproved), (n+1)-n/3)
	case 3: // all-of-n
		return multisigOf(all, n)
	case 4: // consensus set of the epoch after prelude 2 under the genesis threshold
		return multisigOf(append(append([]int{}, all[:n-1]...), aCandApproved), m)
	}
	return multisigOf(all[:n-1], (n-1)-(n-2)/3)
}

func (r *c18Run) signersFor(op c18Op, c c18Call) []common.Address {
	var s []common.Address
	add := func(a common.Address) {
		if !hasAddr(s, a) {
			s = append(s, a)
		}
	}
	if op.S&2 != 0 {
		add(acctAddr(op.Sub % r.info.N))
	}
	if op.S&4 != 0 {
		for i := 0; i < r.info.N; i++ {
			add(acctAddr(i))
		}
	}
	if op.S&8 != 0 {
		add(acctAddr(aOutsider))
	}
	if op.S&16 != 0 {
		add(r.decoy(op))
	}
	if op.S&32 != 0 {
		add(acctAddr(aChainOwner + op.Sub%3))
		add(acctAddr(aOwnCandPend))
	}
	if op.S&64 != 0 {
		add(c.named)
	}
	if op.S&1 != 0 {
		add(c.required)
	}
	return s
}

func caller(via int) common.Address {
	if via <= 0 {
		return common.ADDRESS_EMPTY
	}
	return probeAddrs[via-1]
}

var c18Protected = [][]byte{
	hsAddr[:], // every record of the header-sync contract: trust roots, headers, consensus peers
	append(append([]byte{}, nmAddr[:]...), []byte("vbftConfig")...),
	append(append([]byte{}, ccmAddr[:]...), []byte("BlackedChain")...),
}

func (r *c18Run) send(op c18Op, c c18Call, signers []common.Address) world.Result {
	contract, method, args := viaPlan(op.Via, c.contract, c.method, c.args)
	probeReset(nil)
	switch op.Pyr {
	case 1:
		r.f.payer = c.required
	case 2:
		r.f.payer = c.named
	}
	return r.f.invoke(contract, method, args, signers)
}

func (r *c18Run) step(op c18Op) {
	ctx := r.ctx
	switch op.Adv {
	case 1:
		r.f.NextBlock()
	case 2:
		r.f.NextBlock()
		if r.f.Height < 1<<32-1<<21 {
			r.f.Height += 70000
		}
	case 3, 4, 5:
		r.f.NextBlock()
		svc := r.f.Service()
		gv, err1 := node_manager.GetGovernanceView(svc)
		cfg, err2 := node_manager.GetConfig(svc)
		if err1 == nil && err2 == nil {
			target := uint64(gv.Height) + uint64(cfg.MaxBlockChangeView) + uint64(op.Adv) - 4
			// block heights only grow and stay clear of 2^32 (room for the rest of the case)
			if target > uint64(r.f.Height) && target < 1<<32-1<<20 {
				r.f.Height = uint32(target)
				ctx.Label(fmt.Sprintf("height:due%+d", op.Adv-4))
			}
		}
	}
	c := r.build(op)
	signers := r.signersFor(op, c)
	witnessed := hasAddr(signers, c.required) || (op.Via > 0 && caller(op.Via) == c.required)
	opWitnessed := hasAddr(signers, r.op)
	router := ""
	if op.M == "syncGenesisHeader" {
		router = fmt.Sprintf(":r%d", r.info.Chains[op.Sub%len(r.info.Chains)].Router)
	}
	h0 := changeHash(r.f.World)
	var g0 map[string]string
	if !opWitnessed && c.exempt == "" {
		g0 = guardedWrites(r.f.World, c18Protected)
	}
	res := r.send(op, c, signers)
	changed := changeHash(r.f.World) != h0
	if res.Panic != "" {
		ctx.Label("handler-panic:" + op.M + router)
	}
	// frame condition: without the operator's witness the operator-guarded records do not move
	if changed && !opWitnessed && c.exempt == "" {
		if d := guardedDiff(r.f.World, g0, guardedWrites(r.f.World, c18Protected)); d != "" {
			r.guardedChange(op, c, signers, res, d)
		}
	}
	switch {
	case c.exempt != "":
		ctx.Label("exempt:" + c.exempt)
	case !witnessed:
		if res.OK() {
			r.unwitnessedSuccess(op, c, signers)
		} else {
			if changed {
				ctx.Failf("%s failed (%v) for signers lacking the required witness but changed the state", op.M, res.Err)
			}
			ctx.Label("rejected:" + op.M + router)
			// paired run: same payload with the required witness added. A success shows that the
			// witness was the only thing missing (non-vacuous rejection).
			res2 := r.send(op, c, append(append([]common.Address{}, signers...), c.required))
			changed = changed || res2.OK()
			switch {
			case res2.OK():
				ctx.Label("paired-accepted:" + op.M + router)
				if len(signers) > 0 || op.Via > 0 {
					ctx.NonTrivial()
				}
			case errHas(res.Err, "authentication failed") && !errHas(res2.Err, "authentication failed"):
				// the witnessed twin got past the witness gate and failed later (payload / precondition)
				ctx.Label("paired-past-gate:" + op.M + router)
			default:
				ctx.Label("paired-vacuous:" + op.M + router)
			}
		}
	default:
		if res.OK() {
			ctx.Label("witnessed-accepted:" + op.M + router)
		} else {
			ctx.Label("witnessed-rejected:" + op.M + router)
		}
	}
	// the operator is a function of the pool: recompute after anything that may have changed it
	if changed {
		r.op = operatorOf(r.f.World)
	}
}

func (r *c18Run) describe(op c18Op, c c18Call, signers []common.Address) string {
	var s []string
	for _, a := range signers {
		s = append(s, a.ToHexString()[:8])
	}
	return fmt.Sprintf("%s via %d probe hop(s), signers [%s], required witness %s (current operator %s)", op.M, op.Via,
		strings.Join(s, ","), c.required.ToHexString()[:8], r.op.ToHexString()[:8])
}

func (r *c18Run) unwitnessedSuccess(op c18Op, c c18Call, signers []common.Address) {
	ctx := r.ctx
	ch := r.info.Chains[op.Sub%len(r.info.Chains)]
	switch {
	case op.M == "syncGenesisHeader" && ch.Router == 1:
		ctx.Known("F5-btc-syncGenesisHeader-no-witness-check",
			"BTC syncGenesisHeader succeeded without the operator's witness: %s", r.describe(op, c, signers))
		ctx.Label("known:F5")
	case op.M == "initConfig":
		ctx.Known("F6-initConfig-reinvocable",
			"initConfig succeeded after genesis without the operator's witness: %s", r.describe(op, c, signers))
		ctx.Label("known:F6")
	default:
		ctx.Failf("privileged call succeeded without the required witness: %s", r.describe(op, c, signers))
	}
}

func (r *c18Run) guardedChange(op c18Op, c c18Call, signers []common.Address, res world.Result, d string) {
	ctx := r.ctx
	ch := r.info.Chains[op.Sub%len(r.info.Chains)]
	switch {
	case op.M == "syncGenesisHeader" && ch.Router == 1:
		ctx.Known("F5-btc-syncGenesisHeader-no-witness-check",
			"transaction not witnessed by the operator changed a header-sync record (%s): %s", d, r.describe(op, c, signers))
	case op.M == "initConfig":
		ctx.Known("F6-initConfig-reinvocable",
			"transaction not witnessed by the operator changed an operator-guarded record (%s): %s", d, r.describe(op, c, signers))
	default:
		ctx.Failf("transaction not witnessed by the operator changed an operator-guarded record (%s): %s; result err=%v", d, r.describe(op, c, signers), res.Err)
	}
}

func runC18(ctx *ev.Ctx, c c18Case) {
	if c.Mode == "ctx" {
		runC18Ctx(ctx, c)
		return
	}
	ctx.Label("mode:priv")
	if c.N < 4 || c.N > 15 {
		ctx.Label("skipped:bad-n")
		return
	}
	net := c.Net
	if net != 1 {
		net = 2
	}
	hi := c.Hi && net == 1 // the router start block only exists on the main net
	bcv := c18GenesisBcv[((c.Bcv%len(c18GenesisBcv))+len(c18GenesisBcv))%len(c18GenesisBcv)]
	key := fmt.Sprintf("c18/%d/%d/%v/%d/%d", c.N, net, hi, c.Prelude%3, bcv)
	f, info := getBase(key, net, func() (*world.World, interface{}) { return buildC18(c.N, net, hi, c.Prelude%3, bcv) })
	r := &c18Run{ctx: ctx, f: f, info: info.(*c18Info)}
	r.op = operatorOf(f.World)
	ctx.Label(fmt.Sprintf("prelude:%d", c.Prelude%3))
	for _, op := range c.Ops {
		r.step(op)
	}
}

// ---------------------------------------------------------------------------------------------
// ctx mode: CheckWitness semantics over call trees

type expRec struct {
	ID, When string
	Self     common.Address
	Caller   common.Address
	Dirty    bool // a failed nested call was swallowed earlier in this transaction
}

type ctxSim struct {
	exp   []expRec
	dirty bool
}

func (s *ctxSim) run(n *pnode, callerAddr common.Address) bool {
	self := probeAddrs[n.C%nProbes]
	s.exp = append(s.exp, expRec{n.ID, "entry", self, callerAddr, s.dirty})
	for i, k := range n.Kids {
		ok := s.run(k.Probe, self)
		if !ok {
			if !k.Swallow {
				return false
			}
			s.dirty = true
		}
		s.exp = append(s.exp, expRec{n.ID, fmt.Sprintf("after-kid-%d", i), self, callerAddr, s.dirty})
	}
	return !n.Fail
}

func treeSize(n *pnode) int {
	k := 1
	for _, c := range n.Kids {
		k += treeSize(c.Probe)
	}
	return k
}

const ctxLeakKey = "invoke-leaves-context-after-failed-call"

func runC18Ctx(ctx *ev.Ctx, c c18Case) {
	ctx.Label("mode:ctx")
	if c.Tree == nil {
		return
	}
	f, _ := getBase("c18ctx", 2, func() (*world.World, interface{}) { return world.New(4, world.Opts{}), nil })
	var signers []common.Address
	for _, i := range c.Signers {
		signers = append(signers, acctAddr(i%64))
	}
	queries := append([]common.Address{}, signers...)
	queries = append(queries, acctAddr(aRelayer), nmAddr, common.ADDRESS_EMPTY)
	queries = append(queries, probeAddrs[:]...)
	probeReset(queries)
	args, _ := json.Marshal(c.Tree)
	res := f.invoke(probeAddrs[c.Tree.C%nProbes], "run", args, signers)
	log := probeLog
	sim := &ctxSim{}
	okExp := sim.run(c.Tree, common.ADDRESS_EMPTY)
	if treeSize(c.Tree) >= 3 {
		ctx.NonTrivial()
	}
	if sim.dirty {
		ctx.Label("ctx:swallowed-failure")
	}
	fail := func(dirty bool, format string, a ...interface{}) bool {
		if dirty {
			// deviation after a failed-and-ignored nested call: one root cause (Invoke does not
			// pop the callee's context on the error path)
			ctx.Known(ctxLeakKey, format, a...)
			ctx.Label("known:ctx-leak")
			return true
		}
		ctx.Failf(format, a...)
		return false
	}
	if len(log) != len(sim.exp) {
		fail(sim.dirty, "probe tree: %d evaluation points reached, %d expected", len(log), len(sim.exp))
		return
	}
	for i, e := range sim.exp {
		g := log[i]
		if g.ID != e.ID || g.When != e.When {
			fail(e.Dirty, "probe tree: evaluation point %d is %s/%s, expected %s/%s", i, g.ID, g.When, e.ID, e.When)
			return
		}
		if g.Self != e.Self {
			if fail(e.Dirty, "node %s (%s): CurrentContext is %x, the executing contract is %x", e.ID, e.When, g.Self[:], e.Self[:]) {
				return
			}
		}
		for qi, q := range queries {
			want := hasAddr(signers, q) || (e.Caller != common.ADDRESS_EMPTY && q == e.Caller)
			if g.Res[qi] != want {
				if fail(e.Dirty, "node %s (%s): CheckWitness(%x) = %v, want %v (signers %d, immediate caller %x)",
					e.ID, e.When, q[:], g.Res[qi], want, len(signers), e.Caller[:]) {
					return
				}
			}
		}
	}
	if res.OK() != okExp {
		fail(sim.dirty, "probe tree: transaction ok=%v (%v), expected ok=%v", res.OK(), res.Err, okExp)
	}
}

func TestC18(t *testing.T) {
	ev.Drive(t, "C18",
		"cases: (priv) forked L1 world (N=4..9 validators, main/test net, low/high start block, prelude: genesis | approved candidate | "+
			"epoch change with one validator replaced) with 26 side chains (every router id 0..23 and two unknown ids) registered and approved through "+
			"side_chain_manager, then 1..40 privileged calls (operator-only: syncGenesisHeader per router, updateConfig, BlackChain, WhiteChain, "+
			"commitDpos, initConfig; epoch lengths 7 / 10000.. / 60000 / 2^31 / 2^32-1-k set at genesis or by operator-signed updateConfig, epochs starting at "+
			"height 0 or later, commitDpos tried one block before / at / after the due height computed in 64 bits; owner-only: 25 methods of node/side-chain/relayer/state-validator/signature managers and vote/ripple imports), "+
			"each signed by a generated subset of {required witness, validator, all validators, outsider, decoy operator multisig, other owners, "+
			"impostor named in the parameter}, direct or through 1-2 probe-contract hops; (ctx) call trees over four probe contracts evaluating "+
			"CheckWitness at every step. non-trivial: a call lacking the required witness but carrying another signer or caller context was "+
			"rejected AND the same call with the witness added succeeded; or a probe tree of >= 3 nodes; distinct by JSON of the case",
		genC18, runC18)
}
