// Package pauth decides the authorisation cluster: C18 (privileged native operations require the
// right witness), C25 (vote-based approvals fire exactly once at two thirds) and the governance
// part of C42 (behaviourally extracted thresholds). Everything runs on the L1 native world.
package pauth

import (
	"bytes"
	"fmt"
	"sort"
	"strings"
	"sync"
	"testing"

	"github.com/ontio/ontology-crypto/keypair"
	"github.com/polynetwork/poly/account"
	"github.com/polynetwork/poly/common"
	"github.com/polynetwork/poly/common/config"
	"github.com/polynetwork/poly/core/payload"
	"github.com/polynetwork/poly/core/types"
	"github.com/polynetwork/poly/native/service/utils"
	nstates "github.com/polynetwork/poly/native/states"

	"verif/harness/ev"
	"verif/harness/world"
)

func TestMain(m *testing.M) {
	registerProbes()
	ev.Main(m)
}

// ---------------------------------------------------------------------------------------------
// contract addresses and method names (written out here, not imported from the handlers' tables)

var (
	hsAddr  = utils.HeaderSyncContractAddress
	ccmAddr = utils.CrossChainManagerContractAddress
	scmAddr = utils.SideChainManagerContractAddress
	nmAddr  = utils.NodeManagerContractAddress
	rmAddr  = utils.RelayerManagerContractAddress
	n3Addr  = utils.Neo3StateManagerContractAddress
	smAddr  = utils.SignatureManagerContractAddress
)

// ---------------------------------------------------------------------------------------------
// hand-written parameter encoders (wire layout taken from the param files' documentation; they
// only build inputs, the oracles never decode with them)

type accountT = account.Account

// storagePrefix is the data-entry prefix byte the cache layer puts before every contract key.
const storagePrefix = 0x05

type snk struct{ *common.ZeroCopySink }

func newSnk() snk { return snk{common.NewZeroCopySink(nil)} }

func (s snk) addrVB(a common.Address) snk { s.WriteVarBytes(a[:]); return s }

func encPeer(pub string, a common.Address) []byte {
	s := newSnk()
	s.WriteString(pub)
	s.addrVB(a)
	return s.Bytes()
}

func encPeerList(pubs []string, a common.Address) []byte {
	s := newSnk()
	s.WriteVarUint(uint64(len(pubs)))
	for _, p := range pubs {
		s.WriteString(p)
	}
	s.addrVB(a)
	return s.Bytes()
}

func encRegisterSideChain(a common.Address, chainID, router uint64, name string, btw uint64, ccmc, extra []byte) []byte {
	s := newSnk()
	s.addrVB(a)
	s.WriteVarUint(chainID)
	s.WriteVarUint(router)
	s.WriteVarBytes([]byte(name))
	s.WriteVarUint(btw)
	s.WriteVarBytes(ccmc)
	s.WriteVarBytes(extra)
	return s.Bytes()
}

func encChainid(chainID uint64, a common.Address) []byte {
	s := newSnk()
	s.WriteVarUint(chainID)
	s.addrVB(a)
	return s.Bytes()
}

func encAddrList(list []common.Address, a common.Address) []byte {
	s := newSnk()
	s.WriteVarUint(uint64(len(list)))
	for _, x := range list {
		s.addrVB(x)
	}
	s.addrVB(a)
	return s.Bytes()
}

func encIDAddr(id uint64, a common.Address) []byte {
	s := newSnk()
	s.WriteVarUint(id)
	s.addrVB(a)
	return s.Bytes()
}

func encStringList(list []string, a common.Address) []byte {
	s := newSnk()
	s.WriteVarUint(uint64(len(list)))
	for _, x := range list {
		s.WriteString(x)
	}
	s.addrVB(a)
	return s.Bytes()
}

func encAddSignature(a common.Address, sideChain uint64, subject, sig []byte) []byte {
	s := newSnk()
	s.addrVB(a)
	s.WriteUint64(sideChain)
	s.WriteVarBytes(subject)
	s.WriteVarBytes(sig)
	return s.Bytes()
}

func encEntrance(source uint64, height uint32, proof, relayer, extra, hdr []byte) []byte {
	s := newSnk()
	s.WriteUint64(source)
	s.WriteUint32(height)
	s.WriteVarBytes(proof)
	s.WriteVarBytes(relayer)
	s.WriteVarBytes(extra)
	s.WriteVarBytes(hdr)
	return s.Bytes()
}

func encMakeTxParam(txHash, ccID, fromContract []byte, toChain uint64, toContract []byte, method string, args []byte) []byte {
	s := newSnk()
	s.WriteVarBytes(txHash)
	s.WriteVarBytes(ccID)
	s.WriteVarBytes(fromContract)
	s.WriteUint64(toChain)
	s.WriteVarBytes(toContract)
	s.WriteVarBytes([]byte(method))
	s.WriteVarBytes(args)
	return s.Bytes()
}

func encSyncGenesis(chainID uint64, hdr []byte) []byte {
	s := newSnk()
	s.WriteUint64(chainID)
	s.WriteVarBytes(hdr)
	return s.Bytes()
}

func encVarUint(v uint64) []byte {
	s := newSnk()
	s.WriteVarUint(v)
	return s.Bytes()
}

func encConfiguration(blockMsgDelay, hashMsgDelay, handshake, maxBCV uint32) []byte {
	s := newSnk()
	s.WriteUint32(blockMsgDelay)
	s.WriteUint32(hashMsgDelay)
	s.WriteUint32(handshake)
	s.WriteUint32(maxBCV)
	return s.Bytes()
}

func encRippleExtra(op common.Address, seq, quorum, signerNum uint64, pks [][]byte, reserve []byte) []byte {
	s := newSnk()
	s.WriteAddress(op)
	s.WriteUint64(seq)
	s.WriteUint64(quorum)
	s.WriteUint64(signerNum)
	s.WriteVarUint(uint64(len(pks)))
	for _, p := range pks {
		s.WriteVarBytes(p)
	}
	s.WriteVarBytes(reserve)
	return s.Bytes()
}

// encRegisterAsset: one entry in each map.
func encRegisterAsset(op common.Address, chainID, toChain uint64, asset, proxy []byte) []byte {
	s := newSnk()
	s.WriteAddress(op)
	s.WriteVarUint(chainID)
	s.WriteVarUint(1)
	s.WriteVarUint(toChain)
	s.WriteVarBytes(asset)
	s.WriteVarUint(1)
	s.WriteVarUint(toChain)
	s.WriteVarBytes(proxy)
	return s.Bytes()
}

func encUpdateFee(a common.Address, chainID, view uint64, fee []byte) []byte {
	s := newSnk()
	s.WriteAddress(a)
	s.WriteUint64(chainID)
	s.WriteUint64(view)
	s.WriteVarBytes(fee)
	return s.Bytes()
}

func encVBFTConfig(vals []int, maxBCV uint32) []byte {
	s := newSnk()
	accts := make([]*accountT, 0, len(vals))
	for _, i := range vals {
		accts = append(accts, world.Acct(i))
	}
	world.VBFTConfigFor(accts, maxBCV).Serialization(s.ZeroCopySink)
	return s.Bytes()
}

// ---------------------------------------------------------------------------------------------
// quorum formula, written independently of the (2*sum+2)/3 expression of the node

// twoThirds is the smallest t with 3t >= 2n.
func twoThirds(n int) int {
	t := 0
	for 3*t < 2*n {
		t++
	}
	return t
}

// ---------------------------------------------------------------------------------------------
// forkable worlds: a base world is built once per configuration (deterministically), its block
// overlay is flushed into the memory store, and every case runs on a fresh overlay over that
// read-only store. Cases never write to the store (world.Exec only commits into the overlay).

type fw struct {
	*world.World
	nonce uint32
	payer common.Address // Payer field of the NEXT transaction only (free-form, unverified data: it proves nothing about who signed)
}

type baseWorld struct {
	w    *world.World // the world the base was built in (its overlay is flushed into Store)
	fork *fw          // the one fork over Store; its overlay is reset at the start of every case
	info interface{}
}

var (
	baseMu sync.Mutex
	bases  = map[string]*baseWorld{}
)

// getBase returns the fork of the base world `key` in its initial state (building the base on
// first use). Allocating an overlay costs several MB of cleared memory, so the fork object is
// reused: both write layers are reset, which drops everything the previous case did.
func getBase(key string, netID uint32, build func() (*world.World, interface{})) (*fw, interface{}) {
	baseMu.Lock()
	defer baseMu.Unlock()
	b := bases[key]
	if b == nil {
		w, info := build()
		w.Cache.Reset()
		w.Store.NewBatch()
		w.Overlay.CommitTo()
		if err := w.Store.BatchCommit(); err != nil {
			panic(err)
		}
		w.Overlay.Reset()
		b = &baseWorld{w: w, info: info}
		// the build world's own layers are empty now and sit over the flushed store: reuse them
		b.fork = &fw{World: &world.World{Store: w.Store, Overlay: w.Overlay, Cache: w.Cache, ChainID: w.ChainID, Validators: w.Validators}}
		bases[key] = b
	}
	world.ResetGlobals(netID)
	f := b.fork
	f.Overlay.Reset()
	f.Cache.Reset()
	f.Height, f.Time, f.BlockHash = b.w.Height, b.w.Time, b.w.BlockHash
	f.nonce = 1 << 24
	return f, b.info
}

// invoke is world.Invoke with this fork's own nonce space.
func (f *fw) invoke(contract common.Address, method string, args []byte, signers []common.Address) world.Result {
	p := nstates.ContractInvokeParam{Address: contract, Method: method, Args: args}
	sink := common.NewZeroCopySink(nil)
	p.Serialization(sink)
	f.nonce++
	tx := &types.Transaction{Version: types.CURR_TX_VERSION, TxType: types.Invoke, Nonce: f.nonce, ChainID: f.ChainID,
		Payer: f.payer, Payload: &payload.InvokeCode{Code: sink.Bytes()}}
	f.payer = common.ADDRESS_EMPTY
	s2 := common.NewZeroCopySink(nil)
	if err := tx.Serialization(s2); err != nil {
		panic(err)
	}
	t2, err := types.TransactionFromRawBytes(s2.Bytes())
	if err != nil {
		panic(err)
	}
	t2.SignedAddr = append([]common.Address{}, signers...)
	return f.Exec(t2)
}

func mustOK(r world.Result, what string) world.Result {
	if !r.OK() {
		panic(fmt.Sprintf("harness setup: %s failed: %v", what, r.Err))
	}
	return r
}

// consensusAddrs: addresses of the peers that have consensus status in the current view, read
// from the real pool record (state observation), sorted by pubkey string.
func consensusAddrs(w *world.World) (pubs []string, addrs []common.Address) {
	pubs, _ = w.ConsensusPeers()
	for _, h := range pubs {
		addrs = append(addrs, addrOfPubHex(h))
	}
	return
}

var (
	pubAddrMu sync.Mutex
	pubAddr   = map[string]common.Address{}
	pubKeyOf  = map[string]keypair.PublicKey{}
)

func addrOfPubHex(h string) common.Address {
	pubAddrMu.Lock()
	defer pubAddrMu.Unlock()
	if a, ok := pubAddr[h]; ok {
		return a
	}
	// the key pool is the only source of peers in this package
	for i := 0; i < 96; i++ {
		a := world.Acct(i)
		pubAddr[world.PubHex(a)] = a.Address
		pubKeyOf[world.PubHex(a)] = a.PublicKey
	}
	a, ok := pubAddr[h]
	if !ok {
		panic("peer pubkey outside the key pool: " + h)
	}
	return a
}

// multisigOf is the m-of-n address over the given pool accounts.
func multisigOf(idx []int, m int) common.Address {
	var pubs []keypair.PublicKey
	for _, i := range idx {
		pubs = append(pubs, world.Acct(i).PublicKey)
	}
	a, err := types.AddressFromMultiPubKeys(pubs, m)
	if err != nil {
		panic(err)
	}
	return a
}

func hasAddr(list []common.Address, a common.Address) bool {
	for _, x := range list {
		if x == a {
			return true
		}
	}
	return false
}

func hasNotify(r world.Result, contract common.Address, first string) bool {
	for _, n := range r.Notify {
		if n.ContractAddress != contract {
			continue
		}
		if st, ok := n.States.([]interface{}); ok && len(st) > 0 {
			if s, ok := st[0].(string); ok && s == first {
				return true
			}
		}
	}
	return false
}

// changeHash digests everything written to the block layer since the fork started; a transaction
// left the state untouched iff the digest is the same before and after.
func changeHash(w *world.World) common.Uint256 { return w.Overlay.ChangeHash() }

// guardedWrites returns the block-layer writes (key -> value, "" for a delete) under the given
// contract-key prefixes.
func guardedWrites(w *world.World, prefixes [][]byte) map[string]string {
	m := map[string]string{}
	w.Overlay.GetWriteSet().ForEach(func(k, v []byte) {
		ck := stripPrefix(k)
		for _, p := range prefixes {
			if bytes.HasPrefix(ck, p) {
				m[string(k)] = string(v)
				return
			}
		}
	})
	return m
}

// guardedDiff compares two guardedWrites snapshots of the same fork and reports the first key
// whose visible value really changed (a rewrite of the value already in the store is no change).
func guardedDiff(w *world.World, before, after map[string]string) string {
	keys := make([]string, 0, len(after))
	for k := range after {
		keys = append(keys, k)
	}
	sort.Strings(keys)
	for _, k := range keys {
		v := after[k]
		old, had := before[k]
		if !had {
			sv, err := w.Store.Get([]byte(k))
			if err != nil {
				sv = nil
			}
			old = string(sv)
		}
		if old != v {
			return fmt.Sprintf("key %x: %x -> %x", stripPrefix([]byte(k)), clipS(old), clipS(v))
		}
	}
	return ""
}

func clipS(s string) string {
	if len(s) > 48 {
		return s[:48]
	}
	return s
}

// stripPrefix removes the one-byte data-entry prefix the cache layer puts before contract keys.
func stripPrefix(k []byte) []byte {
	if len(k) > 0 && k[0] == byte(storagePrefix) {
		return k[1:]
	}
	return k
}

// operatorOf recomputes the operator address from the pool state: the (n - floor((n-1)/3))-of-n
// multi-signature address over the keys of the peers that have consensus status (a single key's
// own address for n == 1, as a one-key multi-signature address does not exist).
func operatorOf(w *world.World) common.Address {
	pubs, _ := w.ConsensusPeers()
	var keys []keypair.PublicKey
	for _, h := range pubs {
		addrOfPubHex(h) // fills the cache
		keys = append(keys, pubKeyOf[h])
	}
	if len(keys) == 1 {
		return types.AddressFromPubKey(keys[0])
	}
	return world.OperatorAddress(keys)
}

func sortedStrings(m map[string]int) []string {
	var o []string
	for k := range m {
		o = append(o, k)
	}
	sort.Strings(o)
	return o
}

func errHas(err error, sub string) bool { return err != nil && strings.Contains(err.Error(), sub) }

var _ = config.DefConfig
var _ = testing.Short
