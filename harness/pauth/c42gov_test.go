package pauth

import (
	"fmt"
	"os"
	"testing"

	"verif/harness/ev"
	"verif/harness/world"
)

// ---------------------------------------------------------------------------------------------
// C42 (governance part): the node's 2/3 thresholds, extracted behaviourally.
//
// For every validator count N the three counting routines are driven through their real entry
// points with one vote per distinct validator until the effect fires:
//   consensus-signs : node_manager.CheckConsensusSigns via approveRegisterSideChain
//   votes           : consensus_vote.CheckVotes        via ImportOuterTransfer on a vote-router chain
//   signs           : signature_manager.CheckSigns     via addSignature
// The smallest number of distinct validators at which the effect fires must equal ceil(2N/3),
// computed as the least t with 3t >= 2N; it must not fire earlier and not a second time when the
// remaining validators vote as well.
//
// Recorded under property id C42 (override with VERIF_C42GOV_ID). Run:
//   <pauth test binary> -test.run '^TestC42Gov$'      (VERIF_TIER=thorough widens N to 1..128)

type c42Case struct {
	N    int    `json:"n"`
	Mech string `json:"mech"` // consensus-signs | votes | signs
}

func c42ID() string {
	if v := os.Getenv("VERIF_C42GOV_ID"); v != "" {
		return v
	}
	return "C42"
}

func runC42Gov(ctx *ev.Ctx, c c42Case) {
	n := c.N
	if n < 1 || n > 400 {
		return
	}
	w := world.New(n, world.Opts{})
	f := &fw{World: w, nonce: 1 << 16}
	ctx.Label("mech:" + c.Mech)
	ctx.NonTrivial()
	want := twoThirds(n)
	firedAt := 0
	fires := 0
	vote := func(i int) bool { return false }
	switch c.Mech {
	case "consensus-signs":
		own := acctAddr(aChainOwner)
		mustOK(f.invoke(scmAddr, "registerSideChain", encRegisterSideChain(own, 777, 2, "c42", 1, make([]byte, 20), nil), one(own)), "registerSideChain")
		vote = func(i int) bool {
			r := f.invoke(scmAddr, "approveRegisterSideChain", encChainid(777, acctAddr(i)), one(acctAddr(i)))
			if fires > 0 {
				// once the chain is registered the request is gone: further approvals are refused
				return r.OK() && hasNotify(r, nmAddr, "ApproveRegisterSideChain")
			}
			if !r.OK() {
				ctx.Failf("N=%d: approval %d by a validator failed: %v", n, i+1, r.Err)
			}
			return hasNotify(r, nmAddr, "ApproveRegisterSideChain")
		}
	case "votes":
		// the vote chain and a target chain are registered with the help of all validators
		registerChain(f, n, c18Chain{ID: chainVote, Router: 0, Owner: aChainOwner})
		registerChain(f, n, c18Chain{ID: c25Target, Router: 2, Owner: aChainOwner})
		extra := encMakeTxParam([]byte{1}, []byte{2}, []byte{3}, c25Target, make([]byte, 20), "unlock", []byte{4})
		vote = func(i int) bool {
			a := acctAddr(i)
			r := f.invoke(ccmAddr, "ImportOuterTransfer", encEntrance(chainVote, 5, nil, a[:], extra, nil), one(a))
			if !r.OK() {
				ctx.Failf("N=%d: vote %d by a validator failed: %v", n, i+1, r.Err)
			}
			return len(r.CrossHashes) > 0
		}
	case "signs":
		vote = func(i int) bool {
			a := acctAddr(i)
			r := f.invoke(smAddr, "addSignature", encAddSignature(a, 9, []byte("subject"), []byte{byte(i), 1}), one(a))
			if !r.OK() {
				ctx.Failf("N=%d: signature %d by a validator failed: %v", n, i+1, r.Err)
			}
			return hasNotify(r, smAddr, "AddSignatureQuorum")
		}
	default:
		return
	}
	for i := 0; i < n; i++ {
		if vote(i) {
			fires++
			if firedAt == 0 {
				firedAt = i + 1
			}
		}
	}
	if firedAt != want || fires != 1 {
		ctx.Failf("N=%d %s: effect fired %d time(s), first with %d distinct validators; the 2/3 threshold ceil(2N/3) is %d", n, c.Mech, fires, firedAt, want)
	}
	// intersection margin of the formula itself: two qualifying sets share more than f members
	if flt := (n - 1) / 3; 2*want-n <= flt {
		ctx.Failf("N=%d: two sets of %d validators can share only %d <= f=%d members", n, want, 2*want-n, flt)
	}
}

func c42Cases() []c42Case {
	var cs []c42Case
	hi := ev.Scale(64, 128)
	for n := 1; n <= hi; n++ {
		for _, m := range []string{"consensus-signs", "votes", "signs"} {
			cs = append(cs, c42Case{N: n, Mech: m})
		}
	}
	// sharding: every shard takes its residue class
	var mine []c42Case
	for i, c := range cs {
		if i%ev.Shards() == ev.Shard() {
			mine = append(mine, c)
		}
	}
	return mine
}

func TestC42Gov(t *testing.T) {
	id := c42ID()
	rec := ev.Get(id)
	rec.Extra("gov_thresholds_n_max", ev.Scale(64, 128))
	ev.DriveList(t, id, c42Cases(), runC42Gov)
	if !t.Failed() {
		fmt.Printf("C42Gov: %d (N, mechanism) pairs checked on shard %d/%d\n", len(c42Cases()), ev.Shard(), ev.Shards())
	}
}
