package pauth

import (
	"encoding/json"
	"errors"
	"fmt"

	"github.com/polynetwork/poly/common"
	"github.com/polynetwork/poly/native"

	"verif/harness/ev"
)

// Probe contracts: four native contracts registered (in this test binary only) next to the real
// ones. A probe executes a call plan: it evaluates NativeService.CheckWitness on a list of query
// addresses when entered, after each nested call and before returning, and performs nested
// NativeCalls either into another probe or into a real contract method.

const nProbes = 4

var probeAddrs [nProbes]common.Address

func init() {
	for i := range probeAddrs {
		copy(probeAddrs[i][:], []byte("verif-probe-contract"))
		probeAddrs[i][19] = byte('0' + i)
	}
}

type pnode struct {
	ID   string `json:"id"`
	C    int    `json:"c"` // probe index
	Kids []pkid `json:"kids,omitempty"`
	Fail bool   `json:"fail,omitempty"` // return an error after the kids ran
}

type pkid struct {
	Probe   *pnode `json:"probe,omitempty"`
	Addr    ev.B   `json:"addr,omitempty"` // real contract call when Probe == nil
	Method  string `json:"method,omitempty"`
	Args    ev.B   `json:"args,omitempty"`
	Swallow bool   `json:"swallow,omitempty"` // the calling probe ignores an error of this kid
}

type probeRec struct {
	ID   string
	When string
	Self common.Address
	Res  []bool
}

var (
	probeLog     []probeRec
	probeQueries []common.Address
	probeKidErr  []string // errors of kids (swallowed or not), in call order
)

func probeReset(q []common.Address) {
	probeLog = nil
	probeKidErr = nil
	probeQueries = q
}

func registerProbes() {
	for i := range probeAddrs {
		native.Contracts[probeAddrs[i]] = func(ns *native.NativeService) { ns.Register("run", probeRun) }
	}
}

func probeEval(ns *native.NativeService, id, when string) {
	r := probeRec{ID: id, When: when, Self: ns.CurrentContext(), Res: make([]bool, len(probeQueries))}
	for i, a := range probeQueries {
		r.Res[i] = ns.CheckWitness(a)
	}
	probeLog = append(probeLog, r)
}

func probeRun(ns *native.NativeService) ([]byte, error) {
	var n pnode
	if err := json.Unmarshal(ns.GetInput(), &n); err != nil {
		return nil, fmt.Errorf("probe: bad plan: %v", err)
	}
	probeEval(ns, n.ID, "entry")
	for i, k := range n.Kids {
		var err error
		if k.Probe != nil {
			args, _ := json.Marshal(k.Probe)
			_, err = ns.NativeCall(probeAddrs[k.Probe.C%nProbes], "run", args)
		} else {
			var a common.Address
			copy(a[:], k.Addr)
			_, err = ns.NativeCall(a, k.Method, k.Args)
		}
		if err != nil {
			probeKidErr = append(probeKidErr, err.Error())
			if !k.Swallow {
				return nil, fmt.Errorf("probe %s: kid %d: %v", n.ID, i, err)
			}
		}
		probeEval(ns, n.ID, fmt.Sprintf("after-kid-%d", i))
	}
	if n.Fail {
		return nil, errors.New("probe: requested failure")
	}
	return []byte{1}, nil
}

// viaPlan wraps a real contract call into 0, 1 or 2 probe hops: the immediate caller of the real
// method is probe (via-1) for via>=1.
func viaPlan(via int, contract common.Address, method string, args []byte) (common.Address, string, []byte) {
	if via <= 0 {
		return contract, method, args
	}
	leaf := &pnode{ID: "leaf", C: via - 1, Kids: []pkid{{Addr: contract[:], Method: method, Args: args}}}
	for c := via - 2; c >= 0; c-- {
		leaf = &pnode{ID: fmt.Sprintf("hop%d", c), C: c, Kids: []pkid{{Probe: leaf}}}
	}
	b, _ := json.Marshal(leaf)
	return probeAddrs[0], "run", b
}
