package pauth

import (
	"fmt"
	"testing"

	"github.com/polynetwork/poly/common"
	"github.com/polynetwork/poly/native/service/governance/node_manager"
	"pgregory.net/rapid"

	"verif/harness/ev"
	"verif/harness/world"
)

// ---------------------------------------------------------------------------------------------
// C25 Vote-based approvals fire exactly once at two thirds
//
// A case is a history over a forked L1 world with N validators and K approved candidates: votes on
// up to three message ids per entry point (vote-router import, ripple import, addSignature) by
// validators, candidates and outsiders, interleaved with validator-set changes (quitNode takes a
// validator out of the consensus set at once, commitDpos promotes the candidates). The model keeps,
// per id, the set of accepted voters and a released flag; the consensus set itself is observed
// from the pool record after every set change.

const (
	c25Target = uint64(102)
	c25MaxK   = 3
	c25Cand   = 70 // pool index of the first candidate peer (validators may occupy 0..39)
)

type c25Op struct {
	K        string `json:"k"`             // vote | quit | commit
	E        int    `json:"e,omitempty"`   // entry point: 0 vote router, 1 ripple, 2 addSignature
	Msg      int    `json:"msg,omitempty"` // message selector
	V        int    `json:"v,omitempty"`   // voter / quitting validator selector
	Var      int    `json:"var,omitempty"` // payload variant: same source chain, height and cross-chain id, different content
	Unsigned bool   `json:"unsigned,omitempty"`
}

type c25Case struct {
	N    int     `json:"n"`
	K    int     `json:"k"`
	Net  uint32  `json:"net"`
	Ids  int     `json:"ids"` // number of message ids in play (1..3)
	Fam  bool    `json:"fam,omitempty"` // message families: several payloads share (source chain, height, cross-chain id)
	Ents []int   `json:"ents"`
	Ops  []c25Op `json:"ops"`
}

func buildC25(n, k int, net uint32) (*world.World, interface{}) {
	w := world.New(n, world.Opts{NetworkID: net})
	f := &fw{World: w, nonce: 1 << 16}
	registerChain(f, n, c18Chain{ID: chainVote, Router: 0, Owner: aChainOwner})
	registerChain(f, n, c18Chain{ID: chainRipple, Router: 23, Owner: aChainOwner})
	registerChain(f, n, c18Chain{ID: c25Target, Router: 2, Owner: aChainOwner})
	mustOK(f.invoke(scmAddr, "registerAsset", encRegisterAsset(acctAddr(aRippleOp), chainRipple, c25Target, make([]byte, 20), make([]byte, 20)), one(acctAddr(aRippleOp))), "registerAsset")
	for j := 0; j < k; j++ {
		oc := acctAddr(aOwnCandAppr)
		pub := world.PubHex(world.Acct(c25Cand + j))
		mustOK(f.invoke(nmAddr, "registerCandidate", encPeer(pub, oc), one(oc)), "registerCandidate")
		for i := 0; i < n; i++ {
			f.invoke(nmAddr, "approveCandidate", encPeer(pub, acctAddr(i)), one(acctAddr(i)))
		}
		_, all := w.ConsensusPeers()
		if it, ok := all[pub]; !ok || it.Status != node_manager.CandidateStatus {
			panic("harness setup: candidate not approved")
		}
	}
	w.NextBlock()
	return w, nil
}

func genC25(t *rapid.T) c25Case {
	c := c25Case{}
	// thorough: one case in five has 13..40 validators (a vote costs 2N public-key decompressions)
	c.N = rapid.OneOf(rapid.IntRange(4, 12), rapid.IntRange(4, 12), rapid.IntRange(4, 12), rapid.IntRange(4, 12), rapid.IntRange(ev.Scale(4, 13), ev.Scale(12, 40))).Draw(t, "n")
	c.K = rapid.SampledFrom([]int{0, 2, 2}).Draw(t, "k")
	c.Net = rapid.SampledFrom([]uint32{2, 1}).Draw(t, "net")
	c.Ids = rapid.SampledFrom([]int{1, 1, 1, 2, 3}).Draw(t, "ids")
	c.Ents = rapid.SampledFrom([][]int{{0}, {1}, {2}, {0, 2}, {1, 2}, {0, 1}, {0, 1, 2}}).Draw(t, "ents")
	c.Fam = rapid.Bool().Draw(t, "fam")
	univ := c.N + c.K + 2
	// weights through explicit tables (rapid's integer ranges favour small values)
	kinds := make([]string, 0, 50)
	for i := 0; i < 46; i++ {
		kinds = append(kinds, "vote")
	}
	kinds = append(kinds, "quit", "quit", "commit", "commit")
	genOp := rapid.Custom(func(t *rapid.T) c25Op {
		k := rapid.SampledFrom(kinds).Draw(t, "kind")
		switch k {
		case "quit":
			return c25Op{K: k, V: rapid.IntRange(0, c.N-1).Draw(t, "v")}
		case "commit":
			return c25Op{K: k}
		}
		op := c25Op{K: "vote"}
		op.E = rapid.IntRange(0, len(c.Ents)-1).Draw(t, "e")
		op.Msg = rapid.IntRange(0, c.Ids-1).Draw(t, "msg")
		// mostly validators; sometimes anybody; sometimes surely not a genesis validator
		op.V = rapid.OneOf(rapid.IntRange(0, c.N-1), rapid.IntRange(0, c.N-1), rapid.IntRange(0, c.N-1), rapid.IntRange(0, c.N-1),
			rapid.IntRange(0, univ-1), rapid.IntRange(c.N, univ-1)).Draw(t, "v")
		op.Unsigned = rapid.IntRange(0, 39).Draw(t, "unsigned") == 39
		if c.Fam {
			op.Var = rapid.SampledFrom([]int{0, 0, 1, 1, 2}).Draw(t, "var")
		}
		return op
	})
	// the length is drawn from a table: rapid's own slice lengths are mostly short, and a threshold of
	// 2N/3 distinct voters needs histories of a few dozen votes
	nops := rapid.SampledFrom([]int{6, 12, 20, 30, 40, 50, ev.Scale(60, 100), ev.Scale(60, 160)}).Draw(t, "nops")
	c.Ops = rapid.SliceOfN(genOp, nops, nops).Draw(t, "ops")
	return c
}

type c25Id struct {
	voters   map[common.Address]bool
	released bool
	// for the non-trivial rule
	repeatBefore, outsiderBefore, afterRelease bool
}

func runC25(ctx *ev.Ctx, c c25Case) {
	if c.N < 4 || c.N > 40 || c.K < 0 || c.K > c25MaxK || len(c.Ents) == 0 {
		ctx.Label("skipped:bad-shape")
		return
	}
	net := c.Net
	if net != 1 {
		net = 2
	}
	f, _ := getBase(fmt.Sprintf("c25/%d/%d/%d", c.N, c.K, net), net, func() (*world.World, interface{}) { return buildC25(c.N, c.K, net) })
	ids := map[string]*c25Id{}
	done := map[string]bool{} // (entry, message family) whose cross-chain id has been recorded as done by a release
	_, cons := consensusAddrs(f.World)
	ctx.Label(fmt.Sprintf("n:%d", c.N))
	entName := []string{"vote", "ripple", "sig"}

	voter := func(v int) (common.Address, string) {
		univ := c.N + c.K + 2
		v = ((v % univ) + univ) % univ
		switch {
		case v < c.N:
			return acctAddr(v), "validator"
		case v < c.N+c.K:
			return acctAddr(c25Cand + v - c.N), "candidate"
		}
		return acctAddr(aOutsider + v - c.N - c.K), "outsider"
	}

	for i, op := range c.Ops {
		switch op.K {
		case "quit":
			v := ((op.V % c.N) + c.N) % c.N
			r := f.invoke(nmAddr, "quitNode", encPeer(world.PubHex(world.Acct(v)), acctAddr(v)), one(acctAddr(v)))
			if r.OK() {
				ctx.Label("set-change:quit")
				_, cons = consensusAddrs(f.World)
			}
			continue
		case "commit":
			f.NextBlock()
			if len(cons) > 16 || len(cons) < 1 {
				continue // no operator address exists for such a set
			}
			r := f.invoke(nmAddr, "commitDpos", nil, one(operatorOf(f.World)))
			if r.OK() {
				ctx.Label("set-change:commit")
				_, cons = consensusAddrs(f.World)
			}
			continue
		case "vote":
		default:
			continue
		}
		ent := c.Ents[((op.E%len(c.Ents))+len(c.Ents))%len(c.Ents)] % 3
		msg := ((op.Msg % 3) + 3) % 3
		a, vkind := voter(op.V)
		vr := 0
		if c.Fam && ent != 2 { // a collected signature is identified by its subject alone: no families there
			vr = ((op.Var % 3) + 3) % 3
		}
		fam := fmt.Sprintf("%s/%d", entName[ent], msg)
		key := fmt.Sprintf("%s/%d", fam, vr)
		// the replay guard on the cross-chain id: always on the ripple router, on the vote router on the main net
		doneActive := ent == 1 || (ent == 0 && net == 1)
		id := ids[key]
		if id == nil {
			id = &c25Id{voters: map[common.Address]bool{}}
			ids[key] = id
		}
		signers := one(a)
		if op.Unsigned {
			signers = one(acctAddr(aFreshOwner)) // somebody else signs
		}
		var contract common.Address
		var method string
		var args []byte
		switch ent {
		case 0:
			toContract := make([]byte, 20)
			toContract[0] = byte(vr)
			extra := encMakeTxParam([]byte{0xA0, byte(msg), byte(vr)}, []byte{0xC0, byte(msg)}, []byte{2}, c25Target, toContract, []string{"unlock", "mint", "unlock"}[vr], []byte{3, byte(msg), byte(7 * vr)})
			contract, method, args = ccmAddr, "ImportOuterTransfer", encEntrance(chainVote, uint32(10+msg), []byte{byte(i)}, a[:], extra, nil)
		case 1:
			s := newSnk()
			dst := make([]byte, 20)
			dst[19] = byte(vr)
			s.WriteVarBytes(dst)
			s.WriteUint64(1000 + uint64(msg) + 500000*uint64(vr))
			extra := encMakeTxParam([]byte{0xA1, byte(msg)}, []byte{0xC1, byte(msg)}, []byte{2}, c25Target, nil, "unlock", s.Bytes())
			contract, method, args = ccmAddr, "ImportOuterTransfer", encEntrance(chainRipple, uint32(20+msg), nil, a[:], extra, []byte{byte(i)})
		default:
			contract, method, args = smAddr, "addSignature", encAddSignature(a, c25Target, []byte{'s', byte(msg)}, []byte{byte(op.V), 7})
		}
		h0 := changeHash(f.World)
		res := f.invoke(contract, method, args, signers)
		changed := changeHash(f.World) != h0
		var fired bool
		if ent == 2 {
			fired = hasNotify(res, smAddr, "AddSignatureQuorum")
		} else {
			fired = len(res.CrossHashes) > 0
		}
		isCons := hasAddr(cons, a)
		where := fmt.Sprintf("op %d: %s vote on %s by %s %s (consensus set %d, accepted voters %d, released %v)", i, entName[ent], key, vkind, a.ToHexString()[:8], len(cons), len(id.voters), id.released)
		switch {
		case op.Unsigned:
			ctx.Label("vote:unsigned")
			if res.OK() || fired || changed {
				ctx.Failf("%s: vote not witnessed by the voter was accepted (ok=%v fired=%v changed=%v)", where, res.OK(), fired, changed)
			}
		case !isCons:
			ctx.Label("vote:non-consensus-" + vkind)
			if !id.released {
				id.outsiderBefore = true
			}
			if fired {
				ctx.Failf("%s: a vote by an address outside the consensus set released the message", where)
			}
			if changed {
				ctx.Failf("%s: a vote by an address outside the consensus set was recorded", where)
			}
			if ent != 2 && id.released {
				// the vote handler answers "already done" before looking at the voter: accepted no-op
				ctx.Label("vote:non-consensus-after-release-noop")
			} else if res.OK() {
				ctx.Failf("%s: a vote by an address outside the consensus set did not fail", where)
			}
		default:
			ctx.Label("vote:consensus")
			if id.voters[a] {
				ctx.Label("vote:repeat")
				if !id.released {
					id.repeatBefore = true
				}
			}
			if id.released {
				id.afterRelease = true
			}
			wasVoter := id.voters[a]
			id.voters[a] = true
			cnt := 0
			for _, x := range cons {
				if id.voters[x] {
					cnt++
				}
			}
			want := !id.released && cnt >= twoThirds(len(cons))
			if want && doneActive && done[fam] {
				// another message with the same cross-chain id has been released: the replay guard refuses
				// this one at its quorum vote; the transaction fails as a whole, so the vote is not kept
				ctx.Label("release-refused:cross-chain-id-done")
				if fired || changed {
					ctx.Failf("%s: quorum vote for a message whose cross-chain id is already done: fired=%v changed=%v", where, fired, changed)
				}
				if res.OK() {
					ctx.Failf("%s: %d of %d current validators voted for exactly this message (need %d) but the vote was accepted without a release", where, cnt, len(cons), twoThirds(len(cons)))
				}
				if !wasVoter {
					delete(id.voters, a)
				}
				continue
			}
			if !res.OK() {
				ctx.Failf("%s: vote by a current consensus validator failed: %v", where, res.Err)
			}
			if fired != want {
				ctx.Failf("%s: released=%v, expected %v (%d of %d current validators have voted, need %d)", where, fired, want, cnt, len(cons), twoThirds(len(cons)))
			}
			if fired {
				id.released = true
				done[fam] = true
				if vr != 0 || c.Fam {
					ctx.Label("released:family-member")
				}
				ctx.Label("released:" + entName[ent])
				if ent != 2 && len(res.CrossHashes) != 1 {
					ctx.Failf("%s: release produced %d cross-chain messages", where, len(res.CrossHashes))
				}
			}
		}
	}
	for _, id := range ids {
		if id.repeatBefore && id.outsiderBefore && id.afterRelease {
			ctx.NonTrivial()
		}
	}
}

func TestC25(t *testing.T) {
	ev.Drive(t, "C25",
		"cases: forked L1 world with N=4..12 (thorough ..40) validators and 0..3 approved candidates, vote/ripple/target chains registered through "+
			"side_chain_manager; history of 4..60 (thorough ..160) operations: votes on 1..3 message ids through ImportOuterTransfer on the vote router, "+
			"ImportOuterTransfer on the ripple router and addSignature, by validators / candidates / outsiders / unsigned, interleaved with quitNode "+
			"(in half of the cases a vote/ripple message id is a family of up to three different payloads sharing source chain, height and cross-chain id, "+
			"each tallied on its own bytes) "+
			"(consensus set shrinks at once) and commitDpos (candidates join). non-trivial: some id saw a repeat voter and a non-consensus voter "+
			"before its threshold and at least one vote after its release; distinct by JSON of the case",
		genC25, runC25)
}
