package pmerkle

import (
	"bytes"
	"fmt"
	"testing"

	"github.com/polynetwork/poly/common"
	"github.com/polynetwork/poly/merkle"
	"pgregory.net/rapid"

	"verif/harness/ev"
)

// ---------------------------------------------------------------------------------------------
// C07 Merkle proof verifiers are sound
//
// A case is a list of leaves plus 1..6 claims. Every claim starts as an honest tuple built by the
// RFC 6962 reference (ref.go) for a tree size n <= N and is then changed by 0..3 semantic
// mutations. Expected verdict, in two independent layers:
//   D-truth : the tuple equals what the reference derives from the known leaves (MTH/PATH/PROOF)
//   E       : the top-down RFC recomputation in ref.go (refInclusionRoot / refConsistencyRoots /
//             refFoldLeafPath) reproduces the claimed root(s)
// D-true implies E (self-check of the oracle). The real verifier must accept iff E. D-false tuples
// that E accepts are counted under their own label: they are either honest claims about a different
// tree (an interior node presented through the leaf-HASH API) or differ from the honest tuple only in
// an index/size that leaves the shape of the path unchanged (RFC 6962 proofs do not authenticate more
// than that). An interior node can never pass through the leaf-BYTES APIs unless domain separation is
// broken. Classes the statement does not decide are labelled, not judged.

const keyF3EqualRoots = "consistency-equal-roots-shortcut"

type c07Mut struct {
	K string `json:"k"`
	A uint32 `json:"a,omitempty"`
	B uint32 `json:"b,omitempty"`
	X ev.B   `json:"x,omitempty"`
}

type c07Claim struct {
	API  string   `json:"api"` // hash | bytes | path | cons
	I    uint32   `json:"i"`   // leaf index selector (cons: old size selector)
	S    uint32   `json:"s"`   // tree size selector
	Muts []c07Mut `json:"muts,omitempty"`
	// UseRaw (fuzz target): Raw replaces the honest proof before Muts are applied. hash/bytes/cons: Raw is
	// cut into 32-byte hashes (a short tail is zero-padded); path: Raw IS the byte string given to MerkleProve.
	UseRaw bool `json:"useraw,omitempty"`
	Raw    ev.B `json:"raw,omitempty"`
}

type c07Case struct {
	N      int        `json:"n"`
	Seed   uint32     `json:"seed"`
	Leaf   string     `json:"leaf"` // h32 | short | len64 | dup | rawlen | prefix64
	Claims []c07Claim `json:"claims"`
}

var c07Kinds = map[string][]string{
	"hash":  {"p-alter", "p-alter", "p-insert", "p-delete", "p-swap", "index", "index", "size", "size", "leaf", "root", "splice"},
	"bytes": {"p-alter", "p-alter", "p-insert", "p-delete", "p-swap", "index", "index", "size", "size", "leaf", "leaf", "root", "splice", "splice"},
	"path": {"p-alter", "p-alter", "p-insert", "p-delete", "p-swap", "flag-flip", "flag-flip", "flag-high", "all-right", "value", "value",
		"root", "root-len", "trailing", "splice", "splice"},
	"cons": {"p-alter", "p-alter", "p-insert", "p-delete", "p-swap", "old-size", "old-size", "new-size", "new-size", "old-root", "new-root",
		"roots-equal", "swap-roots", "swap-sizes"},
}

func genC07Claim(t *rapid.T) c07Claim {
	api := rapid.SampledFrom([]string{"hash", "bytes", "path", "cons", "cons"}).Draw(t, "api")
	kinds := c07Kinds[api]
	genMut := rapid.Custom(func(t *rapid.T) c07Mut {
		return c07Mut{
			K: rapid.SampledFrom(kinds).Draw(t, "k"),
			A: rapid.Uint32().Draw(t, "a"),
			B: rapid.Uint32().Draw(t, "b"),
			X: ev.B(rapid.SliceOfN(rapid.Byte(), 0, 32).Draw(t, "x")),
		}
	})
	return c07Claim{
		API: api,
		I:   rapid.Uint32().Draw(t, "i"),
		S:   rapid.Uint32().Draw(t, "s"),
		// one claim in five stays honest (must verify); the others carry 1..3 mutations
		Muts: rapid.OneOf(rapid.SliceOfN(genMut, 1, 3), rapid.SliceOfN(genMut, 1, 3), rapid.SliceOfN(genMut, 1, 1),
			rapid.SliceOfN(genMut, 2, 3), rapid.SliceOfN(genMut, 0, 0)).Draw(t, "muts"),
	}
}

func genC07(t *rapid.T) c07Case {
	maxN := ev.Scale(300, 2000)
	return c07Case{
		N: rapid.OneOf(rapid.IntRange(1, 17), rapid.IntRange(1, 70), rapid.IntRange(1, maxN),
			rapid.SampledFrom([]int{1, 2, 3, 4, 5, 6, 7, 8, 9, 15, 16, 17, 31, 32, 33, 63, 64, 65, 127, 128, 129, 255, 256, 257})).Draw(t, "n"),
		Seed:   rapid.Uint32().Draw(t, "seed"),
		Leaf:   rapid.SampledFrom([]string{"h32", "h32", "short", "len64", "dup", "rawlen", "rawlen", "prefix64", "prefix64"}).Draw(t, "leaf"),
		Claims: rapid.SliceOfN(rapid.Custom(genC07Claim), 1, 6).Draw(t, "claims"),
	}
}

type c07World struct {
	ctx       *ev.Ctx
	n         int
	ref       *refTree
	data      [][]byte
	verifier  *merkle.MerkleVerifier
	rootSizes map[H][]int
	valueIdx  map[string][]int
}

func c07Leaf(mode string, seed uint32, i int) []byte {
	switch mode {
	case "short":
		return derivedLeaf(seed, i)[:i%5]
	case "len64":
		return append(derivedLeaf(seed, i), derivedLeaf(seed+1, i)...)
	case "dup":
		return derivedLeaf(seed, i%3)
	case "rawlen":
		// raw leaves of every interesting length, 0..1000 bytes
		return derivedBytes(seed, i, rawLeafLens[i%len(rawLeafLens)])
	case "prefix64":
		// neighbours (2j, 2j+1) share their first 64 bytes and differ behind them
		return append(derivedBytes(seed, i/2, 64), derivedBytes(seed+7, i, 1+i%37)...)
	}
	return derivedLeaf(seed, i)
}

func xHash(x []byte) H {
	var h H
	copy(h[:], x)
	return h
}

func minInt(a, b int) int {
	if a < b {
		return a
	}
	return b
}

// pick chooses a replacement hash: random bytes, a one-bit change, or a hash that really occurs in
// the tree (leaf hash, earlier root, interior node, another proof element, empty/zero hash).
func (w *c07World) pick(sel uint32, x []byte, orig H, proof []H) H {
	b := sel / 7
	switch sel % 7 {
	case 0:
		return xHash(x)
	case 1:
		h := orig
		h[(b/8)%32] ^= 1 << (b % 8)
		return h
	case 2:
		return w.ref.lh[int(b)%w.n]
	case 3:
		return w.ref.mth(0, 1+int(b)%w.n)
	case 4:
		j := int(b) % w.n
		ht := uint(1 + int(b>>16)%4)
		lo := (j >> ht) << ht
		return w.ref.mth(lo, minInt(w.n, lo+(1<<ht)))
	case 5:
		if len(proof) > 0 {
			return proof[int(b)%len(proof)]
		}
		return refEmpty()
	}
	if b%2 == 0 {
		return refEmpty()
	}
	return H{}
}

func cloneH(p []H) []H { return append([]H(nil), p...) }

// mutProof applies the list mutations shared by all proof kinds; pos is the affected position.
func (w *c07World) mutProof(p []H, m c07Mut) (out []H, pos int, ok bool) {
	switch m.K {
	case "p-alter":
		if len(p) == 0 {
			return p, 0, false
		}
		i := int(m.A) % len(p)
		out = cloneH(p)
		out[i] = w.pick(m.B, m.X, p[i], p)
		return out, i, true
	case "p-insert":
		i := int(m.A) % (len(p) + 1)
		h := w.pick(m.B, m.X, H{}, p)
		out = append(cloneH(p[:i]), h)
		return append(out, p[i:]...), i, true
	case "p-delete":
		if len(p) == 0 {
			return p, 0, false
		}
		i := int(m.A) % len(p)
		out = cloneH(p[:i])
		return append(out, p[i+1:]...), i, true
	case "p-swap":
		if len(p) < 2 {
			return p, 0, false
		}
		i, j := int(m.A)%len(p), int(m.B)%len(p)
		if i == j {
			j = (i + 1) % len(p)
		}
		out = cloneH(p)
		out[i], out[j] = out[j], out[i]
		return out, i, true
	}
	return p, 0, false
}

func mutU32(cur, other uint32, a, b uint32, span uint32) uint32 {
	switch a % 8 {
	case 0:
		return cur + 1
	case 1:
		return cur - 1
	case 2:
		return uint32(uint64(b) % (uint64(span) + 1))
	case 3:
		return 0
	case 4:
		return b
	case 5:
		return cur ^ (1 << (b % 32))
	case 6:
		return other
	}
	return other + 1
}

// mutLeafBytes: other leaf, random bytes, extensions, prefix games, truncation, neighbour leaf,
// change behind the 64th byte.
func (w *c07World) mutLeafBytes(cur []byte, m c07Mut) []byte {
	switch m.A % 10 {
	case 8: // the neighbouring leaf (shares a 64-byte prefix in style prefix64)
		for j, d := range w.data {
			if bytes.Equal(d, cur) {
				return append([]byte(nil), w.data[(j^1)%w.n]...)
			}
		}
		return append([]byte(nil), w.data[int(m.B)%w.n]...)
	case 9: // keep the first 64 bytes, change or add something behind them
		if len(cur) > 64 {
			out := append([]byte(nil), cur...)
			out[64+int(m.B)%(len(cur)-64)] ^= 1 << (m.B % 8)
			return out
		}
		return append(append([]byte(nil), cur...), bytes.Repeat([]byte{byte(m.B)}, 65-len(cur))...)
	case 0:
		return append([]byte(nil), w.data[int(m.B)%w.n]...)
	case 1:
		return append([]byte(nil), m.X...)
	case 2:
		return append(append([]byte(nil), cur...), 0x00)
	case 3:
		return append([]byte{0x00}, cur...)
	case 4:
		return append([]byte{0x01}, cur...)
	case 5:
		return nil
	case 6:
		if len(cur) == 0 {
			return []byte{byte(m.B)}
		}
		out := append([]byte(nil), cur...)
		out[int(m.B/8)%len(out)] ^= 1 << (m.B % 8)
		return out
	}
	if len(cur) == 0 {
		return []byte{0x01}
	}
	return append([]byte(nil), cur[:len(cur)-1]...)
}

// spliceInfo: the node `up` real levels above leaf index in the size-leaf tree: its leaf range,
// how many audit path elements lie below it, and the (index,size) of that node in the tree of
// level-`up` nodes.
func spliceInfo(index, size uint32, up int) (lo, hi int, consumed int, nIndex, nSize uint32) {
	idx, last := index, size-1
	lvl := 0
	for lvl < up && last > 0 {
		if idx%2 == 1 || idx < last {
			consumed++
		}
		idx /= 2
		last /= 2
		lvl++
	}
	lo = int(idx) << uint(lvl)
	hi = minInt(int(size), lo+(1<<uint(lvl)))
	return lo, hi, consumed, idx, last + 1
}

// ---------------------------------------------------------------------------------------------

type inclClaim struct {
	leaf  []byte // bytes API only
	lh    H
	index uint32
	size  uint32
	root  H
	proof []H
}

func (w *c07World) runInclusion(cl c07Claim, bytesAPI bool) (nontrivial bool) {
	ctx := w.ctx
	n := w.resolveSize(cl.S)
	i := int(cl.I) % n
	base, _ := w.ref.path(i, 0, n)
	c := inclClaim{leaf: append([]byte(nil), w.data[i]...), lh: w.ref.lh[i], index: uint32(i), size: uint32(n), root: w.ref.mth(0, n), proof: base}
	api := "hash"
	if bytesAPI {
		api = "bytes"
	}
	applied := 0
	if cl.UseRaw {
		c.proof = chunk32(cl.Raw)
		applied++
		ctx.Label("mut:" + api + ":raw-proof")
	}
	for _, m := range cl.Muts {
		ok := true
		switch m.K {
		case "p-alter", "p-insert", "p-delete", "p-swap":
			c.proof, _, ok = w.mutProof(c.proof, m)
		case "index":
			c.index = mutU32(c.index, c.size, m.A, m.B, c.size)
		case "size":
			c.size = mutU32(c.size, c.index, m.A, m.B, uint32(2*w.n+2))
		case "leaf":
			if bytesAPI {
				c.leaf = w.mutLeafBytes(c.leaf, m)
			} else {
				c.lh = w.pick(m.B, m.X, c.lh, c.proof)
			}
		case "root":
			c.root = w.pick(m.B, m.X, c.root, c.proof)
		case "splice":
			// present the interior node `up` levels above the leaf as if it were the leaf
			if c.size == 0 || int(c.size) > w.n || c.index >= c.size {
				ok = false
				break
			}
			lo, hi, consumed, ni, ns := spliceInfo(c.index, c.size, 1+int(m.A%5))
			if hi-lo < 2 || consumed > len(c.proof) {
				ok = false
				break
			}
			k := int(refSplit(uint64(hi - lo)))
			l, r := w.ref.mth(lo, lo+k), w.ref.mth(lo+k, hi)
			c.leaf = append(append([]byte(nil), l[:]...), r[:]...) // node preimage without the 0x01 prefix
			c.lh = w.ref.mth(lo, hi)
			if m.B%4 != 0 { // usually also adapt the coordinates so that only domain separation stands in the way
				c.proof = cloneH(c.proof[consumed:])
				c.index, c.size = ni, ns
			}
		default:
			panic("harness: mutation " + m.K)
		}
		if ok {
			applied++
			ctx.Label("mut:" + api + ":" + m.K)
		}
	}
	if bytesAPI {
		c.lh = refLeafHash(c.leaf)
	}
	// layer 1: truth against the known leaves
	dTrue := c.size >= 1 && int(c.size) <= w.n && c.index < c.size
	if dTrue {
		want, _ := w.ref.path(int(c.index), 0, int(c.size))
		dTrue = c.lh == w.ref.lh[c.index] && c.root == w.ref.mth(0, int(c.size)) && eqHashes(c.proof, want)
		if bytesAPI {
			dTrue = dTrue && bytes.Equal(c.leaf, w.data[c.index])
		}
	}
	// layer 2: RFC recomputation
	rr, okr := refInclusionRoot(c.lh, uint64(c.index), uint64(c.size), c.proof)
	E := okr && rr == c.root
	if dTrue && !E {
		ctx.Failf("harness self-check: reference PATH tuple not reproduced by reference verifier (index %d size %d)", c.index, c.size)
	}
	var err error
	if p := ev.Catch(func() {
		if bytesAPI {
			err = w.verifier.VerifyLeafInclusion(c.leaf, c.index, u256s(c.proof), common.Uint256(c.root), c.size)
		} else {
			err = w.verifier.VerifyLeafHashInclusion(common.Uint256(c.lh), c.index, u256s(c.proof), common.Uint256(c.root), c.size)
		}
	}); p != "" {
		ctx.Failf("inclusion verifier (%s API) panicked: leaf=%x index=%d size=%d root=%x proof=%x\n%s", api, c.leaf, c.index, c.size, c.root, c.proof, p)
	}
	accepted := err == nil
	desc := fmt.Sprintf("(%s API) leaf=%x leafhash=%x index=%d size=%d root=%x proof=%x; honest tuple was leaf %d of size %d (tree of %d leaves)",
		api, c.leaf, c.lh, c.index, c.size, c.root, c.proof, i, n, w.n)
	switch {
	case accepted && !E:
		ctx.Failf("inclusion verifier ACCEPTS a claim that the RFC 6962 recomputation refutes %s", desc)
	case !accepted && E:
		ctx.Failf("inclusion verifier rejects (%v) a claim that the RFC 6962 recomputation confirms %s", err, desc)
	}
	switch {
	case dTrue:
		ctx.Label("verdict:" + api + ":true-accepted")
	case E:
		// false for the known leaves, yet every RFC 6962 verifier must accept: an audit path authenticates
		// (index, size) only up to the shape of the path (leaf 2 of size 7 and of size 8 have the same
		// shape), and through the leaf-HASH API an interior node is a legitimate "leaf" of the tree of
		// nodes above it. The statement's "any altered index/size makes verification fail" is stronger
		// than what RFC 6962 proofs provide; counted separately.
		ctx.Label("verdict:" + api + ":false-for-known-leaves-but-rfc-recomputation-confirms-accepted")
	default:
		ctx.Label("verdict:" + api + ":false-rejected")
	}
	return len(base) >= 2 && applied > 0 && !dTrue
}

// ---------------------------------------------------------------------------------------------

type pathClaim struct {
	value    []byte
	flags    []byte
	hs       []H
	trailing []byte
	root     []byte
}

func (w *c07World) buildIndexes() {
	if w.rootSizes != nil {
		return
	}
	w.rootSizes = map[H][]int{}
	for s := 1; s <= w.n; s++ {
		r := w.ref.mth(0, s)
		w.rootSizes[r] = append(w.rootSizes[r], s)
	}
	w.valueIdx = map[string][]int{}
	for i, d := range w.data {
		w.valueIdx[string(d)] = append(w.valueIdx[string(d)], i)
	}
}

func (w *c07World) pathDTrue(value, flags []byte, hs []H, root []byte) bool {
	if len(root) != 32 {
		return false
	}
	w.buildIndexes()
	for _, s := range w.rootSizes[xHash(root)] {
		for _, j := range w.valueIdx[string(value)] {
			if j >= s {
				continue
			}
			p, f := w.ref.path(j, 0, s)
			if eqHashes(p, hs) && bytes.Equal(f, flags) {
				return true
			}
		}
	}
	return false
}

func (w *c07World) runPath(cl c07Claim) (nontrivial bool) {
	ctx := w.ctx
	if cl.UseRaw {
		return w.runPathRaw(cl)
	}
	n := w.resolveSize(cl.S)
	i := int(cl.I) % n
	base, bflags := w.ref.path(i, 0, n)
	root := w.ref.mth(0, n)
	c := pathClaim{value: append([]byte(nil), w.data[i]...), flags: append([]byte(nil), bflags...), hs: base, root: root[:]}
	// coordinates for "splice" (valid while items were not restructured)
	index, size, structural := uint32(i), uint32(n), false
	applied := 0
	for _, m := range cl.Muts {
		ok := true
		switch m.K {
		case "p-alter", "p-swap":
			c.hs, _, ok = w.mutProof(c.hs, m)
		case "p-insert":
			var pos int
			c.hs, pos, ok = w.mutProof(c.hs, m)
			fl := append([]byte(nil), c.flags[:pos]...)
			fl = append(fl, byte(m.A>>8)%2)
			c.flags = append(fl, c.flags[pos:]...)
			structural = true
		case "p-delete":
			var pos int
			c.hs, pos, ok = w.mutProof(c.hs, m)
			if ok {
				fl := append([]byte(nil), c.flags[:pos]...)
				c.flags = append(fl, c.flags[pos+1:]...)
				structural = true
			}
		case "flag-flip":
			if len(c.flags) == 0 {
				ok = false
				break
			}
			j := int(m.A) % len(c.flags)
			c.flags = append([]byte(nil), c.flags...)
			if c.flags[j] == 0 {
				c.flags[j] = 1
			} else {
				c.flags[j] = 0
			}
		case "flag-high":
			if len(c.flags) == 0 {
				ok = false
				break
			}
			j := int(m.A) % len(c.flags)
			c.flags = append([]byte(nil), c.flags...)
			c.flags[j] = byte(2 + m.B%254)
		case "all-right":
			c.flags = bytes.Repeat([]byte{1}, len(c.flags))
		case "value":
			c.value = w.mutLeafBytes(c.value, m)
		case "root":
			r := w.pick(m.B, m.X, xHash(c.root), c.hs)
			c.root = r[:]
		case "root-len":
			if m.A%2 == 0 && len(c.root) > 0 {
				c.root = append([]byte(nil), c.root[:len(c.root)-1]...)
			} else {
				c.root = append(append([]byte(nil), c.root...), byte(m.B))
			}
		case "trailing":
			c.trailing = append(append([]byte(nil), m.X...), 0xEE)
			c.trailing = c.trailing[:1+int(m.A)%minInt(32, len(c.trailing))]
		case "splice":
			if structural {
				ok = false
				break
			}
			lo, hi, consumed, ni, ns := spliceInfo(index, size, 1+int(m.A%5))
			if hi-lo < 2 || consumed > len(c.hs) {
				ok = false
				break
			}
			k := int(refSplit(uint64(hi - lo)))
			l, r := w.ref.mth(lo, lo+k), w.ref.mth(lo+k, hi)
			switch m.B % 4 {
			case 0: // preimage with the node prefix
				c.value = append(append([]byte{0x01}, l[:]...), r[:]...)
			default:
				c.value = append(append([]byte(nil), l[:]...), r[:]...)
			}
			c.hs = cloneH(c.hs[consumed:])
			c.flags = append([]byte(nil), c.flags[consumed:]...)
			index, size = ni, ns
		default:
			panic("harness: mutation " + m.K)
		}
		if ok {
			applied++
			ctx.Label("mut:path:" + m.K)
		}
	}
	norm := append([]byte(nil), c.flags...)
	high := false
	for j := range norm {
		if norm[j] > 1 {
			norm[j] = 1
			high = true
		}
	}
	malleable := high || len(c.trailing) > 0
	dTrue := !malleable && w.pathDTrue(c.value, c.flags, c.hs, c.root)
	fold := refFoldLeafPath(c.value, norm, c.hs)
	E := len(c.root) == 32 && bytes.Equal(fold[:], c.root)
	if dTrue && !E {
		ctx.Failf("harness self-check: reference leaf path not reproduced by reference fold")
	}
	enc := refEncodeLeafPath(c.value, c.flags, c.hs, c.trailing)
	var val []byte
	var err error
	if p := ev.Catch(func() { val, err = merkle.MerkleProve(enc, c.root) }); p != "" {
		ctx.Failf("MerkleProve panicked on path=%x root=%x\n%s", enc, c.root, p)
	}
	accepted := err == nil
	desc := fmt.Sprintf("value=%x flags=%x hashes=%x trailing=%x root=%x; honest tuple was leaf %d of size %d (tree of %d leaves)",
		c.value, c.flags, c.hs, c.trailing, c.root, i, n, w.n)
	if accepted && !E {
		ctx.Failf("MerkleProve ACCEPTS a leaf path whose recomputed root differs from the claimed root: %s", desc)
	}
	if accepted && !bytes.Equal(val, c.value) {
		ctx.Failf("MerkleProve returned value %x for a path carrying value %x", val, c.value)
	}
	switch {
	case malleable && E:
		// DESIGN interpretation: flag bytes 2..255 / trailing bytes shorter than one item are an encoding
		// malleability of a claim that stays true; counted, not judged
		if accepted {
			ctx.Label("verdict:path:malleable-encoding-accepted(unjudged)")
		} else {
			ctx.Label("verdict:path:malleable-encoding-rejected(unjudged)")
		}
	case !accepted && E:
		ctx.Failf("MerkleProve rejects (%v) a leaf path whose recomputed root equals the claimed root: %s", err, desc)
	case dTrue:
		ctx.Label("verdict:path:true-accepted")
	case E:
		ctx.Label("verdict:path:false-for-known-leaves-but-rfc-recomputation-confirms-accepted")
	default:
		ctx.Label("verdict:path:false-rejected")
	}
	return len(base) >= 2 && applied > 0 && !dTrue
}

// ---------------------------------------------------------------------------------------------

type consClaim struct {
	m, n             uint32
	oldRoot, newRoot H
	proof            []H
}

func (w *c07World) runConsistency(cl c07Claim) (nontrivial bool) {
	ctx := w.ctx
	n := w.resolveSize(cl.S)
	m := consOldSize(cl.I, n)
	base := w.ref.proof(m, n)
	c := consClaim{m: uint32(m), n: uint32(n), oldRoot: w.ref.mth(0, m), newRoot: w.ref.mth(0, n), proof: base}
	applied := 0
	if cl.UseRaw {
		c.proof = chunk32(cl.Raw)
		applied++
		ctx.Label("mut:cons:raw-proof")
	}
	for _, mu := range cl.Muts {
		ok := true
		switch mu.K {
		case "p-alter", "p-insert", "p-delete", "p-swap":
			c.proof, _, ok = w.mutProof(c.proof, mu)
		case "old-size":
			c.m = mutU32(c.m, c.n, mu.A, mu.B, c.n)
		case "new-size":
			c.n = mutU32(c.n, c.m, mu.A, mu.B, uint32(2*w.n+2))
		case "old-root":
			c.oldRoot = w.pick(mu.B, mu.X, c.oldRoot, c.proof)
		case "new-root":
			c.newRoot = w.pick(mu.B, mu.X, c.newRoot, c.proof)
		case "roots-equal":
			if mu.A%2 == 0 {
				c.newRoot = c.oldRoot
			} else {
				c.oldRoot = c.newRoot
			}
		case "swap-roots":
			c.oldRoot, c.newRoot = c.newRoot, c.oldRoot
		case "swap-sizes":
			c.m, c.n = c.n, c.m
		default:
			panic("harness: mutation " + mu.K)
		}
		if ok {
			applied++
			ctx.Label("mut:cons:" + mu.K)
		}
	}
	dTrue := c.m >= 1 && c.m <= c.n && int(c.n) <= w.n &&
		c.oldRoot == w.ref.mth(0, int(c.m)) && c.newRoot == w.ref.mth(0, int(c.n)) && eqHashes(c.proof, w.ref.proof(int(c.m), int(c.n)))
	var err error
	if p := ev.Catch(func() {
		err = w.verifier.VerifyConsistency(c.m, c.n, common.Uint256(c.oldRoot), common.Uint256(c.newRoot), u256s(c.proof))
	}); p != "" {
		ctx.Failf("VerifyConsistency panicked: old_size=%d new_size=%d old_root=%x new_root=%x proof=%x\n%s", c.m, c.n, c.oldRoot, c.newRoot, c.proof, p)
	}
	accepted := err == nil
	desc := fmt.Sprintf("old_size=%d new_size=%d old_root=%x new_root=%x proof=%x; honest tuple was %d -> %d (tree of %d leaves)",
		c.m, c.n, c.oldRoot, c.newRoot, c.proof, m, n, w.n)
	nt := len(base) >= 2 && applied > 0 && !dTrue
	switch {
	case c.m > c.n:
		if accepted {
			ctx.Failf("VerifyConsistency ACCEPTS old_size > new_size: %s", desc)
		}
		ctx.Label("verdict:cons:sizes-reversed-rejected")
	case c.m == 0:
		// RFC 6962 defines PROOF only for 0 < m; "every tree is consistent with the empty tree" and CT
		// reference verifiers return success here without looking at roots or proof. The statement of C07
		// read literally ("any altered root makes verification fail") is not met for old_size 0, but no
		// verifier can check new_root without the leaves: classified, not judged.
		switch {
		case !accepted:
			ctx.Label("verdict:cons:old-size-0-rejected(unjudged)")
		case c.oldRoot != refEmpty():
			ctx.Label("verdict:cons:old-size-0-accepted-with-non-empty-old-root(unjudged)")
		default:
			ctx.Label("verdict:cons:old-size-0-accepted(unjudged)")
		}
		return false
	case c.m == c.n:
		if c.oldRoot != c.newRoot {
			if accepted {
				ctx.Failf("VerifyConsistency ACCEPTS two different roots for the same tree size: %s", desc)
			}
			ctx.Label("verdict:cons:same-size-different-roots-rejected")
		} else if len(c.proof) == 0 {
			if !accepted {
				ctx.Failf("VerifyConsistency rejects (%v) identical tree heads with the empty proof: %s", err, desc)
			}
			ctx.Label("verdict:cons:same-head-accepted")
		} else {
			// identical heads with a superfluous proof: the heads are trivially consistent, the proof is
			// ignored by the CT reference verifier too (malleability, not a false claim)
			ctx.Label("verdict:cons:same-head-superfluous-proof(unjudged)")
			return false
		}
	default: // 0 < m < n
		o, nw, okr := refConsistencyRoots(uint64(c.m), uint64(c.n), true, c.proof, c.oldRoot)
		E := okr && o == c.oldRoot && nw == c.newRoot
		if dTrue && !E {
			ctx.Failf("harness self-check: reference PROOF tuple not reproduced by reference verifier (%d -> %d)", c.m, c.n)
		}
		switch {
		case accepted && !E && c.oldRoot == c.newRoot:
			// F3: two tree heads of DIFFERENT sizes with the SAME root hash; no list of leaves has
			// MTH(D[0:m]) == MTH(D[0:n]) for m < n unless SHA-256 collides, so the claim is false for every tree
			ctx.Known(keyF3EqualRoots, "VerifyConsistency ACCEPTS old_size < new_size with old_root == new_root without looking at the proof: %s", desc)
			ctx.Label("verdict:cons:F3-equal-roots-accepted")
		case accepted && !E:
			ctx.Failf("VerifyConsistency ACCEPTS a claim that the RFC 6962 recomputation refutes: %s", desc)
		case !accepted && E:
			ctx.Failf("VerifyConsistency rejects (%v) a claim that the RFC 6962 recomputation confirms: %s", err, desc)
		case dTrue:
			ctx.Label("verdict:cons:true-accepted")
		case E:
			ctx.Label("verdict:cons:false-for-known-leaves-but-rfc-recomputation-confirms-accepted")
		default:
			ctx.Label("verdict:cons:false-rejected")
		}
	}
	return nt
}

func (w *c07World) resolveSize(s uint32) int {
	if s%4 == 0 {
		return w.n
	}
	return 1 + int(s/4)%w.n
}

func runC07(ctx *ev.Ctx, c c07Case) {
	if c.N < 1 {
		panic("harness: N")
	}
	w := &c07World{ctx: ctx, n: c.N, ref: newRefTree(), verifier: merkle.NewMerkleVerifier()}
	for i := 0; i < c.N; i++ {
		d := c07Leaf(c.Leaf, c.Seed, i)
		w.data = append(w.data, d)
		w.ref.add(d)
	}
	ctx.Label("leaves:" + c.Leaf)
	for _, cl := range c.Claims {
		var nt bool
		switch cl.API {
		case "hash":
			nt = w.runInclusion(cl, false)
		case "bytes":
			nt = w.runInclusion(cl, true)
		case "path":
			nt = w.runPath(cl)
		case "cons":
			nt = w.runConsistency(cl)
		default:
			panic("harness: api " + cl.API)
		}
		if nt {
			ctx.NonTrivial()
		}
	}
}

func consOldSize(sel uint32, n int) int {
	m := 1 + int(sel)%n
	if m == n && n > 1 && sel%3 != 0 { // keep m == n (empty proof) a minority
		m = 1 + int(sel/3)%(n-1)
	}
	return m
}

func chunk32(raw []byte) []H {
	var out []H
	for len(raw) > 0 {
		var h H
		k := copy(h[:], raw)
		out = append(out, h)
		raw = raw[k:]
	}
	return out
}

// refParseLeafPath: the harness's own reader of varbytes(value) || {flag || hash}* (length prefix
// 1/3/5/9 bytes little endian; like the node's decoder it does not insist on the shortest prefix,
// canonical reports whether the shortest one was used).
func refParseLeafPath(raw []byte) (value, flags []byte, hs []H, trailing []byte, canonical, ok bool) {
	if len(raw) == 0 {
		return
	}
	var l uint64
	pre := 1
	switch raw[0] {
	case 0xFD:
		pre = 3
	case 0xFE:
		pre = 5
	case 0xFF:
		pre = 9
	}
	if len(raw) < pre {
		return
	}
	if pre == 1 {
		l = uint64(raw[0])
	} else {
		for k := pre - 1; k >= 1; k-- {
			l = l<<8 | uint64(raw[k])
		}
	}
	canonical = len(refVarUint(l)) == pre
	rest := raw[pre:]
	if l > uint64(len(rest)) {
		return
	}
	value = rest[:l]
	rest = rest[l:]
	for len(rest) >= 33 {
		flags = append(flags, rest[0])
		var h H
		copy(h[:], rest[1:33])
		hs = append(hs, h)
		rest = rest[33:]
	}
	return value, flags, hs, rest, canonical, true
}

// runPathRaw: arbitrary bytes as the audit path of MerkleProve against the honest root of size n.
func (w *c07World) runPathRaw(cl c07Claim) (nontrivial bool) {
	ctx := w.ctx
	n := w.resolveSize(cl.S)
	i := int(cl.I) % n
	base, _ := w.ref.path(i, 0, n)
	root := w.ref.mth(0, n)
	raw := []byte(cl.Raw)
	ctx.Label("mut:path:raw-path")
	var val []byte
	var err error
	if p := ev.Catch(func() { val, err = merkle.MerkleProve(append([]byte(nil), raw...), root[:]) }); p != "" {
		ctx.Failf("MerkleProve panicked on path=%x root=%x\n%s", raw, root, p)
	}
	accepted := err == nil
	value, flags, hs, trailing, canonical, ok := refParseLeafPath(raw)
	if !ok {
		if accepted {
			ctx.Failf("MerkleProve ACCEPTS bytes that do not even hold a complete value: path=%x root=%x (size %d of %d leaves)", raw, root, n, w.n)
		}
		ctx.Label("verdict:path-raw:unparsable-rejected")
		return true
	}
	norm := append([]byte(nil), flags...)
	malleable := len(trailing) > 0 || !canonical
	for j := range norm {
		if norm[j] > 1 {
			norm[j] = 1
			malleable = true
		}
	}
	E := refFoldLeafPath(value, norm, hs) == root
	dTrue := !malleable && w.pathDTrue(value, flags, hs, root[:])
	if dTrue && !E {
		ctx.Failf("harness self-check: reference leaf path not reproduced by reference fold")
	}
	desc := fmt.Sprintf("path=%x (value=%x flags=%x %d hashes, %d trailing bytes) root=%x = MTH of the first %d of %d leaves", raw, value, flags, len(hs), len(trailing), root, n, w.n)
	if accepted && !E {
		ctx.Failf("MerkleProve ACCEPTS a leaf path whose recomputed root differs from the claimed root: %s", desc)
	}
	if accepted && !bytes.Equal(val, value) {
		ctx.Failf("MerkleProve returned value %x, the path carries %x: %s", val, value, desc)
	}
	if accepted {
		// the extracted value must be a committed leaf of that tree
		w.buildIndexes()
		found := false
		for _, j := range w.valueIdx[string(val)] {
			if j < n {
				found = true
			}
		}
		if !found {
			ctx.Failf("MerkleProve extracted %x which is not among the first %d leaves: %s", val, n, desc)
		}
	}
	switch {
	case malleable && E:
		if accepted {
			ctx.Label("verdict:path-raw:malleable-encoding-accepted(unjudged)")
		} else {
			ctx.Label("verdict:path-raw:malleable-encoding-rejected(unjudged)")
		}
	case !accepted && E:
		ctx.Failf("MerkleProve rejects (%v) a leaf path whose recomputed root equals the claimed root: %s", err, desc)
	case dTrue:
		ctx.Label("verdict:path-raw:true-accepted")
	case E:
		ctx.Label("verdict:path-raw:false-for-known-leaves-but-rfc-recomputation-confirms-accepted")
	default:
		ctx.Label("verdict:path-raw:false-rejected")
	}
	return len(base) >= 2 && !dTrue
}

// ---------------------------------------------------------------------------------------------
// FuzzC07: coverage-guided bytes -> one claim on a small tree, judged by runC07.
//   d[0] tree size (table)  d[1] leaf style  d[2] verifier (hash|bytes|path|cons)  d[3] leaf index / old size
//   selector  d[4] claimed-size selector  d[5] even: payload is the raw proof / raw audit path,
//   odd: payload is a mutation script {kind, a(2), b(2), xlen, x...}* applied to the genuine proof.

var fuzzC07Sizes = []int{1, 2, 3, 4, 5, 6, 7, 8, 9, 11, 13, 15, 16, 17, 21, 32, 33}
var fuzzC07Leaf = []string{"h32", "short", "len64", "dup", "rawlen", "prefix64"}
var fuzzC07API = []string{"hash", "bytes", "path", "cons"}

func decodeFuzzC07(d []byte) (c07Case, bool) {
	if len(d) < 6 || len(d) > 6+2048 {
		return c07Case{}, false
	}
	c := c07Case{N: fuzzC07Sizes[int(d[0])%len(fuzzC07Sizes)], Seed: 0, Leaf: fuzzC07Leaf[int(d[1])%len(fuzzC07Leaf)]}
	cl := c07Claim{API: fuzzC07API[int(d[2])%len(fuzzC07API)], I: uint32(d[3]), S: uint32(d[4])}
	p := d[6:]
	if d[5]%2 == 0 {
		cl.UseRaw = true
		cl.Raw = ev.B(append([]byte(nil), p...))
	} else {
		kinds := c07Kinds[cl.API]
		for len(p) >= 6 && len(cl.Muts) < 8 {
			m := c07Mut{K: kinds[int(p[0])%len(kinds)], A: uint32(p[1]) | uint32(p[2])<<8, B: uint32(p[3]) | uint32(p[4])<<8}
			if p[4]&0x80 != 0 {
				m.B |= 0xFFFF0000 // lets sizes / indices reach the top of the uint32 range
			}
			xl := int(p[5]) % 33
			p = p[6:]
			if xl > len(p) {
				xl = len(p)
			}
			m.X = ev.B(append([]byte(nil), p[:xl]...))
			p = p[xl:]
			cl.Muts = append(cl.Muts, m)
		}
	}
	c.Claims = []c07Claim{cl}
	return c, true
}

func FuzzC07(f *testing.F) {
	// seeds: genuine proofs (raw form) for sizes 1, 2, 3, 8, 13, every verifier; plus two scripts
	for _, n := range []int{1, 2, 3, 8, 13} {
		si := 0
		for k, v := range fuzzC07Sizes {
			if v == n {
				si = k
			}
		}
		ref := newRefTree()
		var data [][]byte
		for i := 0; i < n; i++ {
			data = append(data, c07Leaf("h32", 0, i))
			ref.add(data[i])
		}
		for _, sel := range []int{0, n / 2, n - 1} {
			i := sel % n
			hs, flags := ref.path(i, 0, n)
			var flat []byte
			for _, h := range hs {
				flat = append(flat, h[:]...)
			}
			f.Add(append([]byte{byte(si), 0, 0, byte(sel), 0, 0}, flat...))
			f.Add(append([]byte{byte(si), 0, 1, byte(sel), 0, 0}, flat...))
			f.Add(append([]byte{byte(si), 0, 2, byte(sel), 0, 0}, refEncodeLeafPath(data[i], flags, hs, nil)...))
			var cflat []byte
			for _, h := range ref.proof(consOldSize(uint32(sel), n), n) {
				cflat = append(cflat, h[:]...)
			}
			f.Add(append([]byte{byte(si), 0, 3, byte(sel), 0, 0}, cflat...))
		}
	}
	f.Add([]byte{7, 0, 0, 3, 0, 1})                                      // honest, empty script
	f.Add([]byte{10, 0, 3, 5, 0, 1, 0, 1, 0, 1, 0, 0})                   // consistency, one altered hash
	f.Add([]byte{7, 0, 2, 2, 0, 1, 5, 1, 0, 0, 0, 0, 11, 0, 0, 0, 0, 0}) // path: flag flip + root
	ev.Fuzz(f, "C07", "TestC07", decodeFuzzC07, runC07)
}

func TestC07(t *testing.T) {
	ev.Drive(t, "C07",
		"cases: a list of 1..300 (thorough 2000) leaves (32-byte, short incl. empty, 64-byte, duplicated, raw lengths 0..1000, pairs sharing a 64-byte prefix) and 1..6 claims; each claim is an honest "+
			"(leaf, index, size, root, proof) / leaf-path / (old size, new size, roots, proof) tuple from the RFC 6962 reference for some size n<=N, "+
			"changed by 0..3 semantic mutations (alter/insert/delete/swap proof hashes, flip or corrupt position flags, change index/sizes/leaf/roots "+
			"using random hashes and hashes that occur in the tree, interior-node-as-leaf splices, equalised or swapped roots); verdict expected from the "+
			"reference (known leaves + top-down RFC recomputation). non-trivial: honest proof has >=2 hashes and the mutations changed the claim; "+
			"distinct by JSON of the case",
		genC07, runC07)
}
