package pmerkle

import (
	"testing"

	"verif/harness/ev"
)

func TestMain(m *testing.M) { ev.Main(m) }
