package pmerkle

import (
	"bytes"
	"crypto/sha256"
	"encoding/binary"
	"fmt"
	"os"
	"path/filepath"
	"runtime"
	"testing"

	"github.com/polynetwork/poly/common"
	"github.com/polynetwork/poly/merkle"
	"pgregory.net/rapid"

	"verif/harness/ev"
)

// ---------------------------------------------------------------------------------------------
// C06 Block-hash accumulator is a correct append-only Merkle tree
//
// A case is a history of operations on one CompactMerkleTree (file-backed hash store, in-memory
// hash store, or no store like the node's delta tree). The oracle is the RFC 6962 reference in
// ref.go over the list of leaves the history really appended.

type c06Op struct {
	K      string `json:"k"`                // append|rawlen|bulk|predict|predict1|marshal|reopen|proof|sweep|badargs|snap|restore|foreign|grid
	Leaves []ev.B `json:"leaves,omitempty"` // explicit leaf data (append), or 32-byte leaves (predict)
	Lens   []int  `json:"lens,omitempty"`   // rawlen: lengths of derived raw leaves
	N      int    `json:"n,omitempty"`      // bulk/predict: number of derived 32-byte leaves
	A      uint32 `json:"a,omitempty"`      // selector (tree size n for proofs; variant for reopen)
	B      uint32 `json:"b,omitempty"`      // selector (leaf index m for proofs)
	Commit bool   `json:"commit,omitempty"` // predict: really append the predicted leaves afterwards
}

type c06Case struct {
	Store string  `json:"store"` // file | mem | none
	Seed  uint32  `json:"seed"`
	Ops   []c06Op `json:"ops"`
}

func c06MaxSize() int { return ev.Scale(320, 5000) }

var c06EdgeCounts = []int{1, 2, 3, 4, 5, 7, 8, 9, 15, 16, 17, 31, 32, 33, 63, 64, 65, 127, 128, 129, 255, 256, 257}

func genC06Op(t *rapid.T) c06Op {
	k := rapid.SampledFrom([]string{"append", "append", "rawlen", "rawlen", "rawlen", "bulk", "bulk", "bulk", "predict", "predict1", "marshal", "reopen", "reopen",
		"proof", "proof", "proof", "proof", "proof", "proof", "sweep", "badargs", "snap", "snap", "restore", "restore", "restore", "foreign"}).Draw(t, "k")
	op := c06Op{K: k}
	switch k {
	case "append":
		op.Leaves = make([]ev.B, 0, 3)
		for _, l := range rapid.SliceOfN(rapid.SliceOfN(rapid.Byte(), 0, 70), 1, 3).Draw(t, "leaves") {
			op.Leaves = append(op.Leaves, ev.B(l))
		}
	case "rawlen":
		// raw leaves of chosen lengths (content derived), optionally each followed by a twin that shares its first 64 bytes
		op.Lens = rapid.SliceOfN(rapid.OneOf(rapid.SampledFrom(rawLeafLens), rapid.SampledFrom(rawLeafLens), rapid.IntRange(0, 200), rapid.IntRange(60, 70)), 1, 4).Draw(t, "lens")
		op.Commit = rapid.Bool().Draw(t, "twins")
		op.A = rapid.Uint32().Draw(t, "a")
	case "bulk":
		op.N = rapid.OneOf(rapid.IntRange(1, 8), rapid.IntRange(1, 64), rapid.SampledFrom(c06EdgeCounts),
			rapid.IntRange(1, ev.Scale(64, 2500))).Draw(t, "n")
	case "predict":
		op.N = rapid.IntRange(0, 9).Draw(t, "n")
		op.Commit = rapid.Bool().Draw(t, "commit")
	case "predict1":
		op.Leaves = []ev.B{ev.B(rapid.SliceOfN(rapid.Byte(), 32, 32).Draw(t, "leaf"))}
		op.Commit = rapid.Bool().Draw(t, "commit")
	case "reopen":
		op.A = rapid.Uint32Range(0, 7).Draw(t, "variant")
		op.B = rapid.Uint32Range(1, 3).Draw(t, "surplus")
	case "proof", "sweep", "badargs", "restore":
		op.A = rapid.Uint32().Draw(t, "a")
		op.B = rapid.Uint32().Draw(t, "b")
	case "foreign":
		op.N = rapid.OneOf(rapid.IntRange(0, 3), rapid.IntRange(0, 40), rapid.SampledFrom(c06EdgeCounts)).Draw(t, "n")
		op.A = rapid.Uint32().Draw(t, "a")
		op.B = rapid.Uint32().Draw(t, "b")
	}
	return op
}

func genC06(t *rapid.T) c06Case {
	c := c06Case{
		Store: rapid.SampledFrom([]string{"file", "file", "file", "mem", "none"}).Draw(t, "store"),
		Seed:  rapid.Uint32().Draw(t, "seed"),
	}
	// most histories start from a non-empty tree so that proof operations have something to prove
	init := rapid.OneOf(rapid.Just(0), rapid.IntRange(0, 40), rapid.IntRange(0, 40), rapid.SampledFrom(c06EdgeCounts)).Draw(t, "init")
	c.Ops = append([]c06Op{{K: "bulk", N: init}}, rapid.SliceOfN(rapid.Custom(genC06Op), 1, 40).Draw(t, "ops")...)
	return c
}

// lengths around the 32/64-byte marks (hash-sized, node-preimage-sized) and clearly beyond
var rawLeafLens = []int{0, 1, 31, 32, 33, 63, 64, 65, 100, 1000}

// derivedBytes: n pseudo-random bytes determined by (seed, i) (SHA-256 in counter mode).
func derivedBytes(seed uint32, i int, n int) []byte {
	out := make([]byte, 0, n+32)
	for blk := 0; len(out) < n; blk++ {
		var b [16]byte
		binary.LittleEndian.PutUint32(b[0:], seed)
		binary.LittleEndian.PutUint64(b[4:], uint64(i))
		binary.LittleEndian.PutUint32(b[12:], uint32(blk))
		h := sha256.Sum256(b[:])
		out = append(out, h[:]...)
	}
	return out[:n]
}

// twinLeaf: a different leaf that shares the first 64 bytes (or all of a shorter leaf) with d.
func twinLeaf(d []byte, seed uint32, i int, extra int) []byte {
	k := len(d)
	if k > 64 {
		k = 64
	}
	return append(append([]byte(nil), d[:k]...), derivedBytes(^seed, i, 1+extra)...)
}

func derivedLeaf(seed uint32, i int) []byte {
	var b [12]byte
	binary.LittleEndian.PutUint32(b[0:], seed)
	binary.LittleEndian.PutUint64(b[4:], uint64(i))
	h := sha256.Sum256(b[:])
	return h[:]
}

func tmpBase() string {
	if st, err := os.Stat("/dev/shm"); err == nil && st.IsDir() {
		return "/dev/shm"
	}
	return ""
}

type c06World struct {
	ctx      *ev.Ctx
	c        c06Case
	tree     *merkle.CompactMerkleTree
	store    merkle.HashStore
	dir      string
	file     string
	ref      *refTree
	data     [][]byte
	verifier *merkle.MerkleVerifier
	derived  int // counter of derived leaves
	pairs    int
	// Bookkeeping of what the hash store really holds. UnMarshal into the live object replaces the
	// compact state but not the store, so after a rollback the store still holds the hashes of the
	// abandoned leaves and later appends land behind them. storeLH = leaf hashes whose node hashes sit
	// at their proper post-order positions; valid = length of the common prefix of storeLH and the
	// tree's current leaves = largest n for which proofs can be expected from the store; frozen = an
	// append happened while the store was out of step (its write position is wrong from then on).
	storeLH []H
	valid   int
	frozen  bool
	snaps   []c06Snap
}

type c06Snap struct {
	buf  []byte
	data [][]byte
}

func u256s(hs []H) []common.Uint256 {
	out := make([]common.Uint256, len(hs))
	for i := range hs {
		out[i] = common.Uint256(hs[i])
	}
	return out
}

func eqU(a []common.Uint256, b []H) bool {
	if len(a) != len(b) {
		return false
	}
	for i := range a {
		if H(a[i]) != b[i] {
			return false
		}
	}
	return true
}

func (w *c06World) size() int { return len(w.data) }

func (w *c06World) appendLeaf(d []byte) {
	d = append([]byte(nil), d...)
	if p := ev.Catch(func() { w.tree.Append(d) }); p != "" {
		w.ctx.Failf("Append of leaf %d panicked: %s", w.size(), p)
	}
	inStep := !w.frozen && len(w.storeLH) == len(w.data) && w.valid == len(w.data)
	w.data = append(w.data, d)
	w.ref.add(d)
	if w.c.Store != "none" {
		if inStep {
			w.storeLH = append(w.storeLH, w.ref.lh[len(w.ref.lh)-1])
			w.valid++
		} else {
			w.frozen = true
		}
	}
}

// snap remembers the compact state and the leaves it stands for (at most 4 snapshots).
func (w *c06World) snap(what string, slot int) {
	buf, err := w.tree.Marshal()
	if err != nil {
		w.ctx.Failf("%s: Marshal failed: %v", what, err)
	}
	sn := c06Snap{buf: append([]byte(nil), buf...), data: append([][]byte(nil), w.data...)}
	if len(w.snaps) < 4 {
		w.snaps = append(w.snaps, sn)
	} else {
		w.snaps[slot%4] = sn
	}
}

// proofLimit: largest tree size for which the hash store can serve proofs of the current leaves.
func (w *c06World) proofLimit() int {
	if w.c.Store == "none" {
		return 0
	}
	return w.valid
}

// adopt makes `data` the expected list of leaves (after a reload of another state into the live tree).
func (w *c06World) adopt(data [][]byte) {
	w.data = nil
	w.ref = newRefTree()
	for _, d := range data {
		w.data = append(w.data, append([]byte(nil), d...))
		w.ref.add(d)
	}
	w.valid = 0
	for w.valid < len(w.data) && w.valid < len(w.storeLH) && w.storeLH[w.valid] == w.ref.lh[w.valid] {
		w.valid++
	}
}

// unmarshalLive loads a compact state into the LIVE tree object (rollback / roll forward / foreign
// state) and checks everything that does not depend on the hash store against the reference.
func (w *c06World) unmarshalLive(what string, buf []byte, data [][]byte, rootFirst bool, sel uint32) {
	ctx := w.ctx
	if rootFirst {
		w.tree.Root() // a root is cached in the object
		ctx.Label("reload:live-unmarshal:root-cached")
	} else {
		// no cached root: the last thing the object saw is an append
		if w.size() < c06MaxSize() {
			w.appendLeaf(w.nextDerived())
		}
		ctx.Label("reload:live-unmarshal:after-append")
	}
	var err error
	if p := ev.Catch(func() { err = w.tree.UnMarshal(append([]byte(nil), buf...)) }); p != "" {
		ctx.Failf("%s: UnMarshal into the live tree panicked: %s", what, p)
	}
	if err != nil {
		ctx.Failf("%s: UnMarshal of a Marshal output into the live tree failed: %v", what, err)
	}
	w.adopt(data)
	w.checkState(what + " (state loaded into the live tree object)")
	if lim := w.proofLimit(); lim > 0 {
		n := lim
		if n > w.size() {
			n = w.size()
		}
		w.checkPair(int(sel)%n, n)
		w.checkPair(n-1, n)
	}
	// a prediction on the reloaded object
	var u common.Uint256
	copy(u[:], derivedLeaf(^w.c.Seed, int(sel%1000)))
	tmp := newRefTree()
	tmp.lh = append(tmp.lh, w.ref.lh...)
	tmp.add(u[:])
	if got, want := w.tree.GetRootWithNewLeaf(u), tmp.mth(0, tmp.size()); H(got) != want {
		ctx.Failf("%s: predicted root on the reloaded live tree (size %d) = %x, want %x", what, w.size(), got, want)
	}
	w.checkState(what + " (after prediction)")
}

// checkState: size, root and compact frontier agree with the reference after every step.
func (w *c06World) checkState(after string) {
	n := w.size()
	if got := w.tree.TreeSize(); int(got) != n {
		w.ctx.Failf("after %s: TreeSize()=%d, %d leaves were appended", after, got, n)
	}
	want := w.ref.mth(0, n)
	if got := w.tree.Root(); H(got) != want {
		w.ctx.Failf("after %s: Root()=%x, RFC 6962 MTH of the %d appended leaves is %x", after, got, n, want)
	}
	if got := w.tree.Root(); H(got) != want { // second call goes through the cache
		w.ctx.Failf("after %s: second Root() call = %x, want %x", after, got, want)
	}
	if fr := w.ref.frontier(n); !eqU(w.tree.Hashes(), fr) {
		w.ctx.Failf("after %s: compact hashes %x differ from the complete-subtree roots %x (size %d)", after, w.tree.Hashes(), fr, n)
	}
}

func (w *c06World) nextDerived() []byte {
	w.derived++
	return derivedLeaf(w.c.Seed, w.derived)
}

// checkPair: every prover output for (leaf m, tree size n) equals the RFC reference and is accepted
// by the node's own verifiers; likewise the consistency proof (m+1 -> n).
func (w *c06World) checkPair(m, n int) {
	ctx := w.ctx
	w.pairs++
	root := w.ref.mth(0, n)
	wantPath, wantFlags := w.ref.path(m, 0, n)

	var incl []common.Uint256
	var err error
	if p := ev.Catch(func() { incl, err = w.tree.InclusionProof(uint32(m), uint32(n)) }); p != "" {
		ctx.Failf("InclusionProof(%d,%d) panicked (tree size %d): %s", m, n, w.size(), p)
	}
	if err != nil {
		ctx.Failf("InclusionProof(%d,%d) failed on a tree of size %d: %v", m, n, w.size(), err)
	}
	if !eqU(incl, wantPath) {
		ctx.Failf("InclusionProof(%d,%d) = %x, RFC 6962 PATH = %x", m, n, incl, wantPath)
	}
	if p := ev.Catch(func() {
		err = w.verifier.VerifyLeafHashInclusion(common.Uint256(w.ref.lh[m]), uint32(m), incl, common.Uint256(root), uint32(n))
	}); p != "" {
		ctx.Failf("VerifyLeafHashInclusion panicked on an honest proof (%d,%d): %s", m, n, p)
	}
	if err != nil {
		ctx.Failf("VerifyLeafHashInclusion rejects the node's own inclusion proof for leaf %d of size %d: %v", m, n, err)
	}
	if err = w.verifier.VerifyLeafInclusion(w.data[m], uint32(m), incl, common.Uint256(root), uint32(n)); err != nil {
		ctx.Failf("VerifyLeafInclusion rejects the node's own inclusion proof for leaf %d of size %d: %v", m, n, err)
	}

	var lp []byte
	if p := ev.Catch(func() { lp, err = w.tree.MerkleInclusionLeafPath(w.data[m], uint32(m), uint32(n)) }); p != "" {
		ctx.Failf("MerkleInclusionLeafPath(%d,%d) panicked: %s", m, n, p)
	}
	if err != nil {
		ctx.Failf("MerkleInclusionLeafPath(%d,%d) failed on a tree of size %d: %v", m, n, w.size(), err)
	}
	if want := refEncodeLeafPath(w.data[m], wantFlags, wantPath, nil); !bytes.Equal(lp, want) {
		ctx.Failf("MerkleInclusionLeafPath(%d,%d) = %x, reference leaf path = %x", m, n, lp, want)
	}
	var val []byte
	if p := ev.Catch(func() { val, err = merkle.MerkleProve(lp, root[:]) }); p != "" {
		ctx.Failf("MerkleProve panicked on an honest leaf path (%d,%d): %s", m, n, p)
	}
	if err != nil {
		ctx.Failf("MerkleProve rejects the node's own leaf path for leaf %d of size %d: %v", m, n, err)
	}
	if !bytes.Equal(val, w.data[m]) {
		ctx.Failf("MerkleProve returned %x for leaf %d, leaf data is %x", val, m, w.data[m])
	}

	// consistency old size m+1 (1..n) -> n
	m1 := m + 1
	var cons []common.Uint256
	if p := ev.Catch(func() { cons = w.tree.ConsistencyProof(uint32(m1), uint32(n)) }); p != "" {
		ctx.Failf("ConsistencyProof(%d,%d) panicked: %s", m1, n, p)
	}
	if want := w.ref.proof(m1, n); !eqU(cons, want) {
		ctx.Failf("ConsistencyProof(%d,%d) = %x, RFC 6962 PROOF = %x", m1, n, cons, want)
	}
	oldRoot := w.ref.mth(0, m1)
	if p := ev.Catch(func() {
		err = w.verifier.VerifyConsistency(uint32(m1), uint32(n), common.Uint256(oldRoot), common.Uint256(root), cons)
	}); p != "" {
		ctx.Failf("VerifyConsistency panicked on an honest proof (%d,%d): %s", m1, n, p)
	}
	if err != nil {
		ctx.Failf("VerifyConsistency rejects the node's own consistency proof %d -> %d: %v", m1, n, err)
	}
	if n >= 3 && !(isPow2(m1) && isPow2(n)) {
		ctx.NonTrivial()
	}
}

func isPow2(x int) bool { return x > 0 && x&(x-1) == 0 }

func (w *c06World) openFileStore(size int) {
	st, err := merkle.NewFileHashStore(w.file, uint32(size))
	if err != nil {
		w.ctx.Failf("NewFileHashStore(size %d) failed although the file holds every hash of that tree: %v", size, err)
	}
	w.store = st
}

func runC06(ctx *ev.Ctx, c c06Case) {
	w := &c06World{ctx: ctx, c: c, ref: newRefTree(), verifier: merkle.NewMerkleVerifier()}
	ctx.Label("store:" + c.Store)
	switch c.Store {
	case "file":
		dir, err := os.MkdirTemp(tmpBase(), "pmerkle-c06-")
		if err != nil {
			panic("harness: temp dir: " + err.Error())
		}
		w.dir = dir
		w.file = filepath.Join(dir, "hashes.db")
		defer os.RemoveAll(dir)
		w.openFileStore(0)
		defer func() {
			if w.store != nil {
				w.store.Close()
			}
		}()
	case "mem":
		w.store = merkle.NewMemHashStore()
	case "none":
		w.store = nil
	default:
		panic("harness: store kind")
	}
	w.tree = merkle.NewTree(0, nil, w.store)
	w.checkState("NewTree")
	maxSize := c06MaxSize()
	reloaded := false

	for oi, op := range c.Ops {
		what := fmt.Sprintf("op %d (%s)", oi, op.K)
		switch op.K {
		case "append":
			for _, l := range op.Leaves {
				if w.size() >= maxSize {
					break
				}
				w.appendLeaf(l)
				w.checkState(what)
			}
		case "rawlen":
			for li, ln := range op.Lens {
				if w.size()+2 > maxSize || ln < 0 || ln > 4096 {
					break
				}
				w.derived++
				d := derivedBytes(c.Seed, w.derived, ln)
				w.appendLeaf(d)
				w.checkState(what)
				if op.Commit {
					w.appendLeaf(twinLeaf(d, c.Seed, w.derived, int(op.A>>uint(li))%40))
					w.checkState(what + " twin")
					ctx.Label("leaf:twin-sharing-64-byte-prefix")
				}
				if ln > 64 {
					ctx.Label("leaf:longer-than-64-bytes")
				}
			}
			if n := minInt(w.size(), w.proofLimit()); n > 0 {
				w.checkPair(n-1, n) // proof, leaf path and VerifyLeafInclusion for the raw leaf just added
				if n > 1 {
					w.checkPair(n-2, n)
				}
			}
		case "bulk":
			for i := 0; i < op.N && w.size() < maxSize; i++ {
				w.appendLeaf(w.nextDerived())
				// checking the root after every leaf is what catches a stale cached root
				if i < 3 || i == op.N-1 || i%17 == 0 {
					w.checkState(what)
				}
			}
			w.checkState(what)
		case "predict", "predict1":
			var leaves []common.Uint256
			if op.K == "predict1" {
				var u common.Uint256
				copy(u[:], op.Leaves[0])
				leaves = []common.Uint256{u}
			} else {
				for i := 0; i < op.N; i++ {
					var u common.Uint256
					copy(u[:], w.nextDerived())
					leaves = append(leaves, u)
				}
			}
			// reference: MTH over the appended leaves plus the new ones (as 32-byte leaf data)
			tmp := newRefTree()
			tmp.lh = append(tmp.lh, w.ref.lh...)
			for _, u := range leaves {
				tmp.add(u[:])
			}
			want := tmp.mth(0, tmp.size())
			var got common.Uint256
			if p := ev.Catch(func() {
				if op.K == "predict1" {
					got = w.tree.GetRootWithNewLeaf(leaves[0])
				} else {
					got = w.tree.GetRootWithNewLeaves(leaves)
				}
			}); p != "" {
				ctx.Failf("%s: root prediction for %d leaves on size %d panicked: %s", what, len(leaves), w.size(), p)
			}
			if H(got) != want {
				ctx.Failf("%s: predicted root for %d extra leaves on size %d = %x, MTH of the extended list = %x", what, len(leaves), w.size(), got, want)
			}
			w.checkState(what + " (tree must be unchanged by a prediction)")
			if op.K == "predict1" {
				// both prediction entry points agree
				if g2 := w.tree.GetRootWithNewLeaves(leaves); g2 != got {
					ctx.Failf("%s: GetRootWithNewLeaf=%x but GetRootWithNewLeaves=%x", what, got, g2)
				}
			}
			if op.Commit && w.size()+len(leaves) <= maxSize {
				for _, u := range leaves {
					w.appendLeaf(u.ToArray())
				}
				w.checkState(what + " commit")
				if r := w.tree.Root(); r != got {
					ctx.Failf("%s: predicted root %x differs from root after really appending %x", what, got, r)
				}
				ctx.Label("predict:committed")
			}
		case "marshal":
			var buf []byte
			var err error
			buf, err = w.tree.Marshal()
			if err != nil {
				ctx.Failf("%s: Marshal failed: %v", what, err)
			}
			// independent expectation of the compact encoding: size(4, BE) || frontier hashes
			exp := make([]byte, 4)
			binary.BigEndian.PutUint32(exp, uint32(w.size()))
			for _, h := range w.ref.frontier(w.size()) {
				exp = append(exp, h[:]...)
			}
			if !bytes.Equal(buf, exp) {
				ctx.Failf("%s: Marshal()=%x, expected %x", what, buf, exp)
			}
			nt := merkle.NewTree(0, nil, w.store)
			if p := ev.Catch(func() { err = nt.UnMarshal(append([]byte(nil), buf...)) }); p != "" {
				ctx.Failf("%s: UnMarshal of Marshal output panicked: %s", what, p)
			}
			if err != nil {
				ctx.Failf("%s: UnMarshal of Marshal output failed: %v", what, err)
			}
			w.tree = nt
			reloaded = true
			ctx.Label("reload:marshal")
			w.checkState(what)
		case "reopen":
			// the node persists (tree size, compact hashes) in its KV store and the node hashes in a file;
			// on start it reopens the file with the persisted size.
			savedSize := w.tree.TreeSize()
			savedHashes := append([]common.Uint256(nil), w.tree.Hashes()...)
			if c.Store == "file" && w.valid != w.size() {
				// the file does not hold this tree (state of another tree was loaded into the object)
				ctx.Label("reload:file-skipped-store-holds-other-tree")
				continue
			}
			switch c.Store {
			case "file":
				variant := op.A % 8
				if variant >= 5 && variant <= 6 {
					// uncommitted appends: hashes reach the file, the persisted state does not
					for i := uint32(0); i < op.B; i++ {
						w.tree.Append(derivedLeaf(^c.Seed, 1000000+oi*8+int(i)))
					}
					ctx.Label("reload:file-surplus")
				} else if variant == 7 && savedSize > 0 {
					// a file that lost its tail must be refused
					w.store.Close()
					w.store = nil
					raw, err := os.ReadFile(w.file)
					if err != nil {
						panic("harness: " + err.Error())
					}
					need := storedHashCount(int(savedSize)) * 32
					if int64(len(raw)) < need {
						ctx.Failf("%s: hash file holds %d bytes, a tree of %d leaves has %d node hashes", what, len(raw), savedSize, need/32)
					}
					short := filepath.Join(w.dir, "short.db")
					cut := need - 1 - int64(op.B%32)
					if err := os.WriteFile(short, raw[:cut], 0o644); err != nil {
						panic("harness: " + err.Error())
					}
					if st, err := merkle.NewFileHashStore(short, savedSize); err == nil {
						st.Close()
						ctx.Failf("%s: NewFileHashStore accepted a file of %d bytes for tree size %d (needs %d)", what, cut, savedSize, need)
					}
					os.Remove(short)
					runtime.GC() // the refused store leaves its descriptor to the finalizer
					ctx.Label("reload:file-truncated-refused")
				} else {
					ctx.Label("reload:file-clean")
				}
				if w.store != nil {
					w.store.Close()
				}
				w.openFileStore(int(savedSize))
				// reopening positions the file behind the hashes of exactly this tree
				w.storeLH = append([]H(nil), w.storeLH[:savedSize]...)
				w.valid = int(savedSize)
				w.frozen = false
			case "mem":
				ctx.Label("reload:mem-newtree")
			case "none":
				ctx.Label("reload:none-newtree")
			}
			if p := ev.Catch(func() { w.tree = merkle.NewTree(savedSize, savedHashes, w.store) }); p != "" {
				ctx.Failf("%s: NewTree(size %d, %d hashes) panicked: %s", what, savedSize, len(savedHashes), p)
			}
			reloaded = true
			w.checkState(what)
			if n := minInt(w.size(), w.proofLimit()); n > 0 {
				w.checkPair(int(op.B)%n, n)
				w.checkPair(n-1, n)
			}
		case "snap":
			w.snap(what, oi)
		case "restore":
			if len(w.snaps) == 0 {
				ctx.Label("reload:live-unmarshal:no-snapshot-yet")
				continue
			}
			sn := w.snaps[int(op.A)%len(w.snaps)]
			before := w.size()
			w.unmarshalLive(what, sn.buf, sn.data, op.B%2 == 0, op.B/2)
			switch {
			case len(sn.data) < before:
				ctx.Label("reload:live-unmarshal:rollback")
			case len(sn.data) > before:
				ctx.Label("reload:live-unmarshal:roll-forward")
			default:
				ctx.Label("reload:live-unmarshal:same-size")
			}
			reloaded = true
		case "foreign":
			// compact state of another tree (other leaves, any size incl. empty) loaded into the live object
			ft := merkle.NewTree(0, nil, nil)
			var fdata [][]byte
			for i := 0; i < op.N; i++ {
				d := derivedLeaf(c.Seed^0x5a5a5a5a, int(op.A%7)*100000+i)
				ft.Append(d)
				fdata = append(fdata, d)
			}
			buf, _ := ft.Marshal()
			w.unmarshalLive(what, buf, fdata, op.B%2 == 0, op.B/2)
			ctx.Label("reload:live-unmarshal:foreign-tree")
			reloaded = true
		case "proof", "sweep":
			n := minInt(w.size(), w.proofLimit())
			if c.Store == "none" {
				n = w.size()
			}
			if n == 0 {
				if w.size() == 0 {
					ctx.Label("proof:empty-tree")
				} else {
					ctx.Label("proof:skipped-store-holds-other-tree")
				}
				continue
			}
			// half of the proofs are for the current size, half for an earlier size
			pn := n
			if op.A%2 == 1 {
				pn = 1 + int(op.A/2)%n
			}
			if c.Store == "none" {
				_, e1 := w.tree.InclusionProof(uint32(int(op.B)%pn), uint32(pn))
				_, e2 := w.tree.MerkleInclusionLeafPath(nil, uint32(int(op.B)%pn), uint32(pn))
				if e1 == nil || e2 == nil || w.tree.ConsistencyProof(uint32(pn), uint32(pn)) != nil {
					ctx.Failf("%s: a tree without hash store returned a proof", what)
				}
				ctx.Label("proof:no-store-refused")
				continue
			}
			if op.K == "proof" {
				w.checkPair(int(op.B)%pn, pn)
			} else {
				step := 1
				if pn > 64 {
					step = 1 + pn/64
				}
				for m := int(op.B) % step; m < pn; m += step {
					w.checkPair(m, pn)
				}
			}
		case "badargs":
			// documented refusals: index >= size, size beyond the tree
			n := w.size()
			if c.Store == "none" {
				continue
			}
			big := uint32(n + 1 + int(op.A%5))
			m := uint32(op.B) % big
			var e1, e2 error
			var cp []common.Uint256
			if p := ev.Catch(func() {
				_, e1 = w.tree.InclusionProof(m, big)
				_, e2 = w.tree.MerkleInclusionLeafPath([]byte{1}, m, big)
				cp = w.tree.ConsistencyProof(m, big)
			}); p != "" {
				ctx.Failf("%s: proof request for size %d on a tree of %d panicked: %s", what, big, n, p)
			}
			if e1 == nil || e2 == nil || cp != nil {
				ctx.Failf("%s: proof for tree size %d served by a tree of size %d", what, big, n)
			}
			if n > 0 {
				pn := uint32(1 + int(op.A)%n)
				idx := pn + op.B%3
				_, e1 = w.tree.InclusionProof(idx, pn)
				_, e2 = w.tree.MerkleInclusionLeafPath([]byte{1}, idx, pn)
				if e1 == nil || e2 == nil {
					ctx.Failf("%s: inclusion proof served for index %d >= size %d", what, idx, pn)
				}
				if pn < uint32(n) && w.tree.ConsistencyProof(pn+1, pn) != nil {
					ctx.Failf("%s: consistency proof served for old size %d > new size %d", what, pn+1, pn)
				}
			}
			ctx.Label("proof:badargs-refused")
		case "grid":
			// all (m, n) with n = A mod B over the current tree
			for n := 1; n <= minInt(w.size(), w.proofLimit()); n++ {
				if uint32(n)%op.B != op.A%op.B {
					continue
				}
				for m := 0; m < n; m++ {
					w.checkPair(m, n)
				}
			}
		default:
			panic("harness: op kind " + op.K)
		}
		if oi == 0 {
			w.snap(what, 0) // the state after the first operation is always available for a later rollback
		}
	}
	if reloaded {
		ctx.NonTrivial()
	}
	ctx.Label(sizeClass(w.size()))
	if !ctx.Replaying {
		ev.Get("C06").AddLabel("pairs-checked(m,n)", w.pairs)
	}
}

func sizeClass(n int) string {
	switch {
	case n == 0:
		return "final-size:0"
	case n <= 2:
		return "final-size:1-2"
	case n <= 16:
		return "final-size:3-16"
	case n <= 128:
		return "final-size:17-128"
	case n <= 512:
		return "final-size:129-512"
	}
	return "final-size:>512"
}

func TestC06(t *testing.T) {
	// exhaustive (m,n) grid over one file-backed tree, split across the shards
	gridN := ev.Scale(257, 1025)
	grid := c06Case{Store: "file", Seed: 6962, Ops: []c06Op{{K: "bulk", N: gridN}, {K: "grid", A: uint32(ev.Shard()), B: uint32(ev.Shards())}}}
	if os.Getenv("VERIF_REPLAY") == "" {
		ev.DriveList(t, "C06", []c06Case{grid}, runC06)
		if ev.Shard() == 0 {
			ev.Get("C06").Extra("grid_max_tree_size", gridN)
		}
		if t.Failed() {
			return
		}
	}
	ev.Drive(t, "C06",
		"cases: histories of 2..41 operations (append explicit leaves of 0..70 bytes, raw leaves of lengths 0/1/31/32/33/63/64/65/100/1000 and 0..200 with twins sharing the first 64 bytes, bulk append, root prediction with/without commit, "+
			"marshal/unmarshal into a fresh tree, snapshots and UnMarshal of earlier/later snapshots or of another tree's state into the live tree object "+
			"(with a cached root / right after an append), reopen of the hash file incl. surplus hashes of uncommitted appends and truncated files, single proofs, proof sweeps, "+
			"refused arguments) on a file-backed, memory-backed or store-less CompactMerkleTree, plus one exhaustive (m,n) grid case per shard; "+
			"every step is compared with a recursive RFC 6962 MTH/PATH/PROOF reference and every proof is fed to the node's verifiers. "+
			"non-trivial: some checked proof has n>=3 with (m,n) not both powers of two, or a reload (unmarshal/reopen) happened; distinct by JSON of the case",
		genC06, runC06)
}
