// Package pmerkle holds the checks of properties C06 (accumulator correctness) and C07 (proof
// verifier soundness). This file is the harness's own reference model, written from RFC 6962
// section 2.1 (MTH, PATH, PROOF/SUBPROOF) and from the documented wire format of poly's
// "leaf path" proofs. It shares no code with /repo/merkle.
package pmerkle

import (
	"crypto/sha256"
	"encoding/binary"
)

// H is a SHA-256 output (convertible to common.Uint256).
type H = [32]byte

// RFC 6962 2.1: MTH({}) = SHA-256()
func refEmpty() H { return sha256.Sum256(nil) }

// RFC 6962 2.1: MTH({d(0)}) = SHA-256(0x00 || d(0))
func refLeafHash(d []byte) H {
	b := make([]byte, 0, 1+len(d))
	b = append(b, 0x00)
	b = append(b, d...)
	return sha256.Sum256(b)
}

// RFC 6962 2.1: SHA-256(0x01 || MTH(D[0:k]) || MTH(D[k:n]))
func refNodeHash(l, r H) H {
	var b [65]byte
	b[0] = 0x01
	copy(b[1:33], l[:])
	copy(b[33:], r[:])
	return sha256.Sum256(b[:])
}

// refSplit: "let k be the largest power of two smaller than n (i.e., k < n <= 2k)"; n >= 2.
func refSplit(n uint64) uint64 {
	k := uint64(1)
	for k<<1 < n {
		k <<= 1
	}
	return k
}

// refTree is an append-only list of leaf hashes with the recursive RFC definitions on top.
// mth is memoised per (lo,hi) range; ranges never change because the list is append-only.
type refTree struct {
	lh   []H
	memo map[uint64]H
}

func newRefTree() *refTree { return &refTree{memo: map[uint64]H{}} }

func (t *refTree) add(d []byte) { t.lh = append(t.lh, refLeafHash(d)) }
func (t *refTree) size() int    { return len(t.lh) }

// mth = MTH(D[lo:hi])
func (t *refTree) mth(lo, hi int) H {
	n := hi - lo
	if n == 0 {
		return refEmpty()
	}
	if n == 1 {
		return t.lh[lo]
	}
	key := uint64(lo)<<32 | uint64(hi)
	if h, ok := t.memo[key]; ok {
		return h
	}
	k := int(refSplit(uint64(n)))
	h := refNodeHash(t.mth(lo, lo+k), t.mth(lo+k, hi))
	t.memo[key] = h
	return h
}

// path = PATH(m, D[lo:hi]) with m relative to lo; flags[i] says on which side the i-th path
// element sits (poly's leaf-path format: 0 = sibling is the LEFT child, 1 = sibling is the RIGHT child).
func (t *refTree) path(m, lo, hi int) (hs []H, flags []byte) {
	n := hi - lo
	if n == 1 {
		return nil, nil
	}
	k := int(refSplit(uint64(n)))
	if m < k {
		hs, flags = t.path(m, lo, lo+k)
		return append(hs, t.mth(lo+k, hi)), append(flags, 1)
	}
	hs, flags = t.path(m-k, lo+k, hi)
	return append(hs, t.mth(lo, lo+k)), append(flags, 0)
}

// subproof = SUBPROOF(m, D[lo:hi], b), m relative to lo, 0 < m <= hi-lo
func (t *refTree) subproof(m, lo, hi int, b bool) []H {
	n := hi - lo
	if m == n {
		if b {
			return nil
		}
		return []H{t.mth(lo, hi)}
	}
	k := int(refSplit(uint64(n)))
	if m <= k {
		return append(t.subproof(m, lo, lo+k, b), t.mth(lo+k, hi))
	}
	return append(t.subproof(m-k, lo+k, hi, false), t.mth(lo, lo+k))
}

// proof = PROOF(m, D[0:n]) for 0 < m <= n (m == n gives the empty proof)
func (t *refTree) proof(m, n int) []H { return t.subproof(m, 0, n, true) }

// frontier: the roots of the complete subtrees in the binary decomposition of n, left to right
// (what a "compact" tree has to remember).
func (t *refTree) frontier(n int) []H {
	var out []H
	off := 0
	for bit := 31; bit >= 0; bit-- {
		w := 1 << uint(bit)
		if n&w != 0 {
			out = append(out, t.mth(off, off+w))
			off += w
		}
	}
	return out
}

// storedHashCount: number of node hashes of a post-order store holding n leaves
// (each complete subtree of 2^b leaves has 2^(b+1)-1 nodes).
func storedHashCount(n int) int64 {
	var s int64
	for bit := 31; bit >= 0; bit-- {
		w := int64(1) << uint(bit)
		if int64(n)&w != 0 {
			s += 2*w - 1
		}
	}
	return s
}

// ---------------------------------------------------------------------------------------------
// reference verifiers: top-down recursion over the RFC definitions (the code under test walks
// bottom-up with bit tricks), usable for sizes up to 2^32-1.

// refInclusionRoot recomputes the root implied by (leaf hash, index, size, PATH).
func refInclusionRoot(lh H, i, n uint64, proof []H) (H, bool) {
	if i >= n {
		return H{}, false
	}
	if n == 1 {
		return lh, len(proof) == 0
	}
	if len(proof) == 0 {
		return H{}, false
	}
	k := refSplit(n)
	last, rest := proof[len(proof)-1], proof[:len(proof)-1]
	if i < k {
		sub, ok := refInclusionRoot(lh, i, k, rest)
		return refNodeHash(sub, last), ok
	}
	sub, ok := refInclusionRoot(lh, i-k, n-k, rest)
	return refNodeHash(last, sub), ok
}

// refConsistencyRoots recomputes (old root, new root) implied by SUBPROOF(m, D[n], b), 0 < m <= n.
func refConsistencyRoots(m, n uint64, b bool, proof []H, oldRoot H) (o, nw H, ok bool) {
	if m == n {
		if b {
			return oldRoot, oldRoot, len(proof) == 0
		}
		if len(proof) != 1 {
			return H{}, H{}, false
		}
		return proof[0], proof[0], true
	}
	if len(proof) == 0 {
		return H{}, H{}, false
	}
	k := refSplit(n)
	last, rest := proof[len(proof)-1], proof[:len(proof)-1]
	if m <= k {
		o, nw, ok = refConsistencyRoots(m, k, b, rest, oldRoot)
		return o, refNodeHash(nw, last), ok
	}
	o, nw, ok = refConsistencyRoots(m-k, n-k, false, rest, oldRoot)
	return refNodeHash(last, o), refNodeHash(last, nw), ok
}

// ---------------------------------------------------------------------------------------------
// poly leaf-path wire format: varbytes(value) || { flag(1) || hash(32) }*

func refVarUint(v uint64) []byte {
	switch {
	case v < 0xFD:
		return []byte{byte(v)}
	case v <= 0xFFFF:
		b := []byte{0xFD, 0, 0}
		binary.LittleEndian.PutUint16(b[1:], uint16(v))
		return b
	case v <= 0xFFFFFFFF:
		b := []byte{0xFE, 0, 0, 0, 0}
		binary.LittleEndian.PutUint32(b[1:], uint32(v))
		return b
	}
	b := make([]byte, 9)
	b[0] = 0xFF
	binary.LittleEndian.PutUint64(b[1:], v)
	return b
}

func refEncodeLeafPath(value []byte, flags []byte, hs []H, trailing []byte) []byte {
	out := append(refVarUint(uint64(len(value))), value...)
	for i := range hs {
		out = append(out, flags[i])
		out = append(out, hs[i][:]...)
	}
	return append(out, trailing...)
}

// refFoldLeafPath: root implied by a leaf path; flag 0 = sibling on the left, otherwise right.
func refFoldLeafPath(value []byte, flags []byte, hs []H) H {
	h := refLeafHash(value)
	for i := range hs {
		if flags[i] == 0 {
			h = refNodeHash(hs[i], h)
		} else {
			h = refNodeHash(h, hs[i])
		}
	}
	return h
}

func eqHashes(a, b []H) bool {
	if len(a) != len(b) {
		return false
	}
	for i := range a {
		if a[i] != b[i] {
			return false
		}
	}
	return true
}
