package pgov

import (
	"fmt"
	"testing"

	"github.com/polynetwork/poly/common"
	"github.com/polynetwork/poly/native/service/governance/node_manager"
	"pgregory.net/rapid"

	"verif/harness/ev"
	"verif/harness/world"
)

// ---------------------------------------------------------------------------------------------
// C35 Side-chain registry changes only through owner request and approval
//
// Full reference model of the registry written from the statement: per chain id the registered
// record, the pending register / update / quit request and the approvers of each approve method.
// A request transaction is accepted iff it carries the witness of the address it names and (update,
// quit) that address owns the registered chain / (register) the id is neither registered nor
// requested; an approval is accepted iff witnessed and the request is pending, and takes effect at
// ceil(2N/3) distinct approvers that are consensus validators at that moment (the consensus set is read
// from the real pool before every transaction; candidates, quitting and blacklisted pool members do not count). After every transaction
// the real registry (GetSideChain) must equal the model registry for every chain id.

type c35Case struct {
	N       int   `json:"n"`
	Persist bool  `json:"persist,omitempty"` // every block boundary flushes the block overlay into the store
	Ops     []gop `json:"ops"`
}

var c35Requests = []string{kScReg, kScReg, kScUpd, kScUpd, kScQuit}
var c35Approves = []string{kScApprReg, kScApprReg, kScApprUpd, kScApprQuit}

const c35F13a = "approveQuitSideChain-request-not-deleted"

// An update request outlives the removal of the chain it was made for: after the id is registered
// again by somebody else, approving the old request overwrites the new owner's record (and owner).
// Judged like F13a (the registered owner of the chain that is changed never asked for it).
const c35StaleUpd = "updateSideChainRequest-survives-chain-removal"

func genC35(t *rapid.T) c35Case {
	n := rapid.IntRange(4, ev.Scale(7, 13)).Draw(t, "n")
	o := n + spareNodes
	owners := []int{o, o, o, o + 1, o + 1, o + 2} // three owner accounts, the first one most frequent
	chainGen := rapid.SampledFrom([]int{1, 1, 1, 2, 2, 3})
	witness := func(t *rapid.T, g *gop) {
		if rapid.IntRange(0, 14).Draw(t, "badWitness") == 0 {
			g.W = 1
		}
	}
	single := func(t *rapid.T) gop {
		switch x := rapid.IntRange(0, 99).Draw(t, "class"); {
		case x < 35: // request by one of three owners (so owner / non-owner both occur)
			g := gop{K: rapid.SampledFrom(c35Requests).Draw(t, "req"), A: rapid.SampledFrom(owners).Draw(t, "owner"),
				B: chainGen.Draw(t, "chain"), C: rapid.IntRange(0, 11).Draw(t, "content")}
			witness(t, &g)
			return g
		case x < 60: // approval round (full, partial)
			return gop{K: kRound, M: rapid.SampledFrom(c35Approves).Draw(t, "rkind"), B: chainGen.Draw(t, "chain"),
				A: rapid.IntRange(0, n-1).Draw(t, "start"), C: rapid.SampledFrom([]int{0, 0, 0, -1, -1, -2, 1, 2}).Draw(t, "count")}
		case x < 95: // single approval by anybody
			g := gop{K: rapid.SampledFrom(c35Approves).Draw(t, "akind"), B: chainGen.Draw(t, "chain"),
				A: rapid.OneOf(rapid.IntRange(0, n-1), genActor(n)).Draw(t, "approver")}
			witness(t, &g)
			return g
		default:
			return gop{K: kNext}
		}
	}
	// an episode: a request, optionally partially approved and overwritten / contested, then (mostly) approved
	episode := func(t *rapid.T, ch int, rk string, owner int) []gop {
		if ch == 0 {
			ch = chainGen.Draw(t, "chain")
		}
		if rk == "" {
			rk = rapid.SampledFrom(c35Requests).Draw(t, "req")
		}
		if owner < 0 {
			owner = rapid.SampledFrom(owners).Draw(t, "owner")
		}
		ak := map[string]string{kScReg: kScApprReg, kScUpd: kScApprUpd, kScQuit: kScApprQuit}[rk]
		req := gop{K: rk, A: owner, B: ch, C: rapid.IntRange(0, 11).Draw(t, "content")}
		out := []gop{req}
		if rapid.IntRange(0, 2).Draw(t, "partialFirst") == 0 {
			out = append(out, gop{K: kRound, M: ak, B: ch, A: rapid.IntRange(0, n-1).Draw(t, "s1"), C: rapid.SampledFrom([]int{-1, 1, 2}).Draw(t, "c1")})
			if rapid.Bool().Draw(t, "contest") { // another request for the same chain while partially approved
				out = append(out, gop{K: rapid.SampledFrom(c35Requests).Draw(t, "req2"), A: rapid.SampledFrom(owners).Draw(t, "owner2"), B: ch,
					C: rapid.IntRange(0, 11).Draw(t, "content2")})
			}
		}
		if rapid.IntRange(0, 3).Draw(t, "outsider") == 0 {
			out = append(out, gop{K: ak, B: ch, A: genActor(n).Draw(t, "anybody")})
		}
		if rapid.IntRange(0, 3).Draw(t, "nonConsensusRound") == 0 { // pool members without consensus status approve (must not count)
			out = append(out, gop{K: kRound, M: ak, B: ch, W: 4, A: rapid.IntRange(0, 3).Draw(t, "s4"), C: rapid.SampledFrom([]int{0, -2, -2, 1}).Draw(t, "c4")})
		}
		if rapid.IntRange(0, 4).Draw(t, "complete") > 0 {
			out = append(out, gop{K: kRound, M: ak, B: ch, A: rapid.IntRange(0, n-1).Draw(t, "s2"), C: rapid.SampledFrom([]int{0, 0, -2}).Draw(t, "c2")})
		}
		return out
	}
	// a chain's life: registered, updated (also attempted by a non-owner), removed, possibly re-registered by
	// somebody else, with further approval rounds of the old update / quit requests afterwards
	lifecycle := func(t *rapid.T) []gop {
		ch := chainGen.Draw(t, "chain")
		own := rapid.SampledFrom(owners).Draw(t, "lifeOwner")
		other := own + 1
		if other > o+2 {
			other = o
		}
		out := episode(t, ch, kScReg, own)
		for i, k := 0, rapid.IntRange(0, 2).Draw(t, "updates"); i < k; i++ {
			who := own
			if rapid.IntRange(0, 3).Draw(t, "nonOwnerUpd") == 0 {
				who = other
			}
			out = append(out, episode(t, ch, kScUpd, who)...)
		}
		if rapid.Bool().Draw(t, "nonOwnerQuit") {
			out = append(out, episode(t, ch, kScQuit, other)...)
		}
		out = append(out, episode(t, ch, kScQuit, own)...)
		if rapid.Bool().Draw(t, "reRegister") {
			out = append(out, episode(t, ch, kScReg, rapid.SampledFrom([]int{own, other, other}).Draw(t, "newOwner"))...)
			out = append(out, gop{K: kRound, M: rapid.SampledFrom([]string{kScApprQuit, kScApprUpd}).Draw(t, "late"), B: ch,
				A: rapid.IntRange(0, n-1).Draw(t, "s3"), C: rapid.SampledFrom([]int{0, -1, -2}).Draw(t, "c3")})
		}
		return out
	}
	var ops []gop
	// pool shaping (3 cases in 4): peers that are in the pool of the current view but are no consensus validators -
	// approved candidates (no epoch change follows), a validator or candidate that quit, a blacklisted candidate
	if rapid.IntRange(0, 3).Draw(t, "shapePool") > 0 {
		k := rapid.IntRange(1, spareNodes).Draw(t, "candidates")
		for i := 0; i < k; i++ {
			ops = append(ops, gop{K: kRegCand, A: n + i, B: n + i}, gop{K: kRound, M: kApprCand, B: n + i, A: rapid.IntRange(0, n-1).Draw(t, "sc")})
		}
		if rapid.Bool().Draw(t, "quitOne") {
			q := rapid.IntRange(0, n+k-1).Draw(t, "quitter")
			ops = append(ops, gop{K: kQuit, A: -1, B: q})
		}
		if rapid.IntRange(0, 2).Draw(t, "blackOne") == 0 {
			ops = append(ops, gop{K: kRound, M: kBlack, L: []int{(n + rapid.IntRange(0, k-1).Draw(t, "blackened")) * 8}, A: rapid.IntRange(0, n-1).Draw(t, "sb")})
		}
	}
	parts := rapid.SliceOfN(rapid.Custom(func(t *rapid.T) []gop {
		switch x := rapid.IntRange(0, 19).Draw(t, "part"); {
		case x < 6:
			return lifecycle(t)
		case x < 13:
			return episode(t, 0, "", -1)
		case x < 15: // approvals by the non-consensus members of the pool
			return []gop{{K: kRound, M: rapid.SampledFrom(c35Approves).Draw(t, "nkind"), B: chainGen.Draw(t, "chain"), W: 4,
				A: rapid.IntRange(0, 3).Draw(t, "s5"), C: rapid.SampledFrom([]int{0, -2, 1, 2}).Draw(t, "c5")}}
		case x < 16: // the pool changes in between: a quit, an epoch change
			if rapid.Bool().Draw(t, "quitOrCommit") {
				return []gop{{K: kQuit, A: -1, B: rapid.IntRange(0, n+spareNodes-1).Draw(t, "quitter2")}}
			}
			return []gop{{K: kNext}, {K: kCommit}}
		}
		return []gop{single(t)}
	}), 2, ev.Scale(12, 30)).Draw(t, "parts")
	for _, p := range parts {
		ops = append(ops, p...)
	}
	return c35Case{N: n, Persist: rapid.Bool().Draw(t, "persist"), Ops: sprinkleNext(t, ops)}
}

type c35Chain struct {
	reg, apply, upd scRec
	quit            bool
	quitConsumed    bool // a quit approval took effect and no quit request was accepted since
	quitStale       bool // known defect: approvals of the consumed quit request are still accepted
	appr            map[string]map[common.Address]bool
}

func runC35(ctx *ev.Ctx, c c35Case) {
	if c.N < 4 {
		c.N = 4
	}
	e := newEng(ctx, c.N, engOpts{persist: c.Persist})
	if c.Persist {
		e.label("blocks-persisted")
	}
	chains := map[uint64]*c35Chain{}
	for id := uint64(1); id <= numChains; id++ {
		chains[id] = &c35Chain{appr: map[string]map[common.Address]bool{}}
	}
	neutral := ev.IsKnown("C35", c35F13a) && !ctx.Replaying
	neutralUpd := ev.IsKnown("C35", c35StaleUpd) && !ctx.Replaying
	var sawUpd, sawQuit, sawNonOwner, sawOverwrite, nonConsApprover bool
	step := 0
	for _, top := range c.Ops {
		for _, op := range e.expand(top) {
			step++
			if family(op.K) != "sc" { // next block, pool shaping (candidates, quit, blacklisting, epoch change)
				if sr := e.exec(op); sr.res.Panic != "" {
					ctx.Failf("step %d %s panicked: %s", step, op.K, sr.res.Panic)
				}
				continue
			}
			prePool := e.pool()
			cons, _, n := e.validators()
			thr := ceil2of3(n)
			if isApprove(op.K) {
				if it, ok := prePool.Items[world.PubHex(e.actor(op.A))]; ok && it.Status != node_manager.ConsensusStatus {
					nonConsApprover = true
				}
			}
			t := e.targetOf(op.K, op)
			ch := chains[t.id]
			if op.K == kScApprQuit && neutral && !ch.quit && ch.quitConsumed {
				e.label("excluded:approval-of-consumed-quit-request(" + c35F13a + ")")
				continue
			}
			if op.K == kScApprUpd && neutralUpd && ch.upd.Present && ch.reg.Present && ch.reg.Owner != ch.upd.Owner {
				e.label("excluded:approval-of-former-owners-update-request(" + c35StaleUpd + ")")
				continue
			}
			sr := e.exec(op)
			what := fmt.Sprintf("step %d %s(chain %d) by account %d", step, op.K, t.id, mod(op.A, len(e.actors)))
			if sr.res.Panic != "" {
				ctx.Failf("%s panicked: %s", what, sr.res.Panic)
			}
			ok := sr.res.OK()
			expect := func(want bool, why string) {
				if ok != want {
					ctx.Failf("%s: accepted=%v, expected %v (%s); error: %v", what, ok, want, why, sr.res.Err)
				}
			}
			switch op.K {
			case kScReg:
				switch {
				case !sr.witness:
					expect(false, "no witness of the named owner")
				case ch.reg.Present:
					expect(false, "chain id already registered")
				case ch.apply.Present:
					expect(false, "chain id already requested")
				default:
					expect(true, "fresh chain id, witnessed")
					ch.apply = scRecOfParam(scContent(t.id, sr.acting, op.C))
				}
			case kScUpd, kScQuit:
				switch {
				case !sr.witness:
					expect(false, "no witness of the named owner")
				case !ch.reg.Present:
					expect(false, "chain is not registered")
				case ch.reg.Owner != sr.acting:
					sawNonOwner = true
					expect(false, "requester is not the registered owner")
				default:
					expect(true, "request by the registered owner")
					if op.K == kScUpd {
						if len(ch.appr[kScApprUpd]) > 0 {
							sawOverwrite = true
							e.label("ambiguous:update-request-overwritten-while-partially-approved")
						}
						ch.upd = scRecOfParam(scContent(t.id, sr.acting, op.C))
					} else {
						ch.quit, ch.quitConsumed, ch.quitStale = true, false, false
					}
				}
			case kScApprReg, kScApprUpd, kScApprQuit:
				pend := map[string]bool{kScApprReg: ch.apply.Present, kScApprUpd: ch.upd.Present, kScApprQuit: ch.quit}[op.K]
				switch {
				case !sr.witness:
					expect(false, "no witness of the approver")
				case !pend:
					if ok && op.K == kScApprQuit && ch.quitConsumed {
						// the consumed quit request is still stored (F13a): follow the code from here on so that
						// the consequence for the registry is attributed to the same root cause
						if ctx.Known(c35F13a, "%s: approval accepted although the only quit request of chain %d was consumed by an earlier approval round", what, t.id) {
							ch.quitStale = true
							c35Count(ctx, e, ch, op.K, sr, cons, thr, what, t.id)
						}
						break
					}
					expect(false, "no such request pending")
				default:
					expect(true, "pending request, witnessed approver")
					c35Count(ctx, e, ch, op.K, sr, cons, thr, what, t.id)
				}
			}
			if op.K == kScApprUpd && sr.fired {
				sawUpd = true
			}
			if op.K == kScApprQuit && sr.fired {
				sawQuit = true
			}
			// registry and pending requests: real vs model, every chain id
			for id := uint64(1); id <= numChains; id++ {
				mc := chains[id]
				if got := e.scRegistered(id); got != mc.reg {
					ctx.Failf("after %s: registry entry of chain %d is %v, the model (owner requests + approval rounds) says %v", what, id, got, mc.reg)
				}
				if mc.reg.Present { // and byte for byte, against the harness's own encoding
					e.scStoredCheck("after "+what, mc.reg)
				}
				if got := e.scApply(id); got != mc.apply {
					ctx.Failf("after %s: pending registration of chain %d is %v, model says %v", what, id, got, mc.apply)
				}
				if got := e.scUpdate(id); got != mc.upd {
					ctx.Failf("after %s: pending update of chain %d is %v, model says %v", what, id, got, mc.upd)
				}
			}
		}
	}
	if sawUpd && sawQuit && sawNonOwner {
		ctx.NonTrivial()
	}
	if sawOverwrite {
		e.label("update-overwritten-while-partially-approved")
	}
	if nonConsApprover {
		e.label("approval-sent-by-non-consensus-pool-member")
	}
}

// c35Count records an accepted approval and applies the request when the threshold is reached.
func c35Count(ctx *ev.Ctx, e *eng, ch *c35Chain, k string, sr stepRes, cons map[common.Address]int, thr int, what string, id uint64) {
	set := ch.appr[k]
	if set == nil {
		set = map[common.Address]bool{}
		ch.appr[k] = set
	}
	set[sr.acting] = true
	count := 0
	for a := range set {
		if cons[a] > 0 {
			count++
		}
	}
	want := count >= thr
	if sr.fired != want {
		ctx.Failf("%s: took effect = %v with %d consensus approvers (threshold %d)", what, sr.fired, count, thr)
	}
	if !want {
		return
	}
	delete(ch.appr, k)
	e.label("took-effect:" + k)
	switch k {
	case kScApprReg:
		ch.reg, ch.apply = ch.apply, scRec{}
	case kScApprUpd:
		switch {
		case !ch.reg.Present:
			// not settled by the statement (the id is registered from an approved request of its former owner,
			// without a registration request): counted, the model follows the stored request
			e.label("ambiguous:stale-update-request-applied-to-unregistered-chain")
		case ch.reg.Owner != ch.upd.Owner:
			ctx.Known(c35StaleUpd, "%s replaced the record of chain %d (%v) by %v: an update requested by a former owner before the chain was removed and re-registered; the registered owner never requested an update",
				what, id, ch.reg, ch.upd)
		}
		ch.reg, ch.upd = ch.upd, scRec{}
	case kScApprQuit:
		if ch.quitStale && ch.reg.Present {
			ctx.Known(c35F13a, "%s removed chain %d (%v) although its registered owner never requested removal: the quit request of a previous registration was approved a second time", what, id, ch.reg)
		}
		ch.reg = scRec{}
		ch.quit, ch.quitConsumed, ch.quitStale = false, true, false
		// whether the removal also drops a still pending update request of the removed chain is not settled by the
		// statement: both behaviours are accepted, the model follows the contract
		if ch.upd.Present && !e.scUpdate(id).Present {
			e.label("observed:pending-update-dropped-with-removed-chain")
			ch.upd = scRec{}
		}
	}
}

func TestC35(t *testing.T) {
	ev.Drive(t, "C35",
		"cases: N=4..7 (thorough 13) validators, chain ids 1..3, three owner accounts; 3..45 (thorough 100) ops: register/update/quit requests by owners and non-owners (7% with a foreign witness), "+
			"3 cases in 4 first put non-consensus members into the pool (1..4 approved candidates without epoch change, a quit, a blacklisted candidate); approval rounds (threshold, threshold-1, all, 1, 2) by consensus validators and by the non-consensus pool members, single approvals by validators, pool members and outsiders, occasional quit / epoch change in between, requests overwritten while partially approved. "+
			"non-trivial: an update and a removal took effect and a non-owner's update/quit request was attempted on a registered chain; in half of the cases every block boundary persists the block overlay into the store, and about one op in three is followed by a block boundary; distinct by JSON of the case",
		genC35, runC35)
}
