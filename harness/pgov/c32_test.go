package pgov

import (
	"bytes"
	"fmt"
	"testing"

	"github.com/polynetwork/poly/common"
	"github.com/polynetwork/poly/native/service/governance/neo3_state_manager"
	"github.com/polynetwork/poly/native/service/governance/node_manager"
	"github.com/polynetwork/poly/native/service/governance/relayer_manager"
	"github.com/polynetwork/poly/native/service/utils"
	"pgregory.net/rapid"

	"verif/harness/ev"
	"verif/harness/world"
)

// ---------------------------------------------------------------------------------------------
// C32 Governance approvals need two thirds of distinct current validators
//
// Model (written from the statement): per (approve method, request identity) the set of distinct
// addresses whose approval transaction was accepted. An accepted approval takes effect iff, after
// adding the approver, the number of approvers that are consensus validators at that moment is at
// least ceil(2N/3), N = number of consensus validators at that moment; when it takes effect the
// approver set of that (method, request) is forgotten. The consensus set is read from the real
// pool immediately before the transaction; everything else is the model's own bookkeeping.

type c32Case struct {
	N       int   `json:"n"`
	Own     int   `json:"own,omitempty"`     // ownership layout of the genesis validators, see ownerOf
	Persist bool  `json:"persist,omitempty"` // every block boundary flushes the block overlay into the store
	Ops     []gop `json:"ops"`
}

func genC32(t *rapid.T) c32Case {
	maxN := ev.Scale(12, 40)
	n := rapid.OneOf(rapid.IntRange(4, 7), rapid.IntRange(5, 7), rapid.IntRange(4, maxN)).Draw(t, "n")
	c := c32Case{N: n, Own: rapid.SampledFrom([]int{0, 0, 1, 1, 2, 3, 4}).Draw(t, "own")}
	ownerWallet := rapid.IntRange(n+spareNodes+outsiders, n+spareNodes+outsiders+n-1)
	// 2..4 focus (method, request) pairs per case, with the requests that make them pending
	kinds := rapid.SliceOfNDistinct(rapid.SampledFrom(approveKinds), 2, 4, rapid.ID[string]).Draw(t, "kinds")
	owner := n + spareNodes + rapid.IntRange(0, 1).Draw(t, "owner")
	focus := make([]gop, len(kinds))
	var setup []gop
	for i, k := range kinds {
		f := gop{K: k}
		genApproveTarget(t, n, k, &f)
		switch k {
		case kApprCand:
			setup = append(setup, gop{K: kRegCand, A: f.B, B: f.B})
		case kWhite:
			f.B = rapid.IntRange(0, n-1).Draw(t, "blackened")
			setup = append(setup, gop{K: kRound, M: kBlack, L: []int{f.B * 8}, A: f.B + 1})
		case kScApprReg:
			setup = append(setup, gop{K: kScReg, A: owner, B: f.B, C: i})
		case kScApprUpd:
			setup = append(setup, gop{K: kScReg, A: owner, B: f.B, C: i}, gop{K: kRound, M: kScApprReg, B: f.B}, gop{K: kScUpd, A: owner, B: f.B, C: i + 5})
		case kScApprQuit:
			setup = append(setup, gop{K: kScReg, A: owner, B: f.B, C: i}, gop{K: kRound, M: kScApprReg, B: f.B}, gop{K: kScQuit, A: owner, B: f.B})
		case kRlApprReg:
			f.B = 0
			setup = append(setup, gop{K: kRlReg, A: owner, L: []int{owner, owner + 1}})
		case kRlApprRem:
			f.B = 0
			setup = append(setup, gop{K: kRlRem, A: owner, L: []int{owner}})
		case kSvApprReg:
			f.B = 0
			setup = append(setup, gop{K: kSvReg, A: owner, L: []int{owner, owner + 1}})
		case kSvApprRem:
			f.B = 0
			setup = append(setup, gop{K: kSvRem, A: owner, L: []int{owner}})
		}
		focus[i] = f
	}
	body := rapid.SliceOfN(rapid.Custom(func(t *rapid.T) gop {
		switch x := rapid.IntRange(0, 99).Draw(t, "class"); {
		case x < 50: // single approval of a focus pair
			f := focus[rapid.IntRange(0, len(focus)-1).Draw(t, "focus")]
			f.A = rapid.OneOf(rapid.IntRange(0, n-1), rapid.IntRange(0, n-1), genActor(n), ownerWallet).Draw(t, "approver")
			if rapid.IntRange(0, 19).Draw(t, "badWitness") == 0 {
				f.W = 1
			}
			return f
		case x < 60:
			return genApprove(t, n, approveKinds)
		case x < 72: // round on a focus pair
			f := focus[rapid.IntRange(0, len(focus)-1).Draw(t, "focus")]
			return gop{K: kRound, M: f.K, B: f.B, L: f.L, A: rapid.IntRange(0, n-1).Draw(t, "start"),
				C: rapid.SampledFrom([]int{0, -1, -1, -1, -2, 1, 2}).Draw(t, "count"), W: rapid.SampledFrom([]int{0, 0, 0, 2, 3}).Draw(t, "who")}
		case x < 76:
			return genRound(t, n, approveKinds)
		case x < 88:
			return genRequest(t, n, requestKinds)
		default:
			return genPoolOp(t, n)
		}
	}), 4, ev.Scale(40, 90)).Draw(t, "ops")
	c.Persist = rapid.Bool().Draw(t, "persist")
	c.Ops = sprinkleNext(t, append(setup, body...))
	if c.Own != 0 { // candidates are registered by separate owner wallets too (one wallet may own several)
		for i := range c.Ops {
			if o := &c.Ops[i]; o.K == kRegCand && o.A == o.B {
				o.A = n + spareNodes + outsiders + o.B%2
			}
		}
	}
	return c
}

// c32Content is what an accepted request transaction asked for, as the harness built it (never decoded
// by the contract's codecs): the effect of the approval is compared with it.
type c32Content struct {
	rec   scRec
	addrs []common.Address
	keys  []string
}

type c32Model struct {
	appr        map[string]map[common.Address]bool // method|request -> accepted approvers
	content     map[string]c32Content              // method|request -> content of the latest accepted request
	interleaved bool
	outsider    bool
	fires       int
	belowThr    bool
}

var consensusSignsPrefix = append(append([]byte{}, utils.NodeManagerContractAddress[:]...), []byte(node_manager.CONSENSUS_SIGNS)...)

func runC32(ctx *ev.Ctx, c c32Case) {
	if c.N < 4 {
		c.N = 4
	}
	e := newEng(ctx, c.N, engOpts{own: c.Own, persist: c.Persist})
	if c.Persist {
		e.label("blocks-persisted")
	}
	e.label(fmt.Sprintf("ownership-layout:%d", mod(c.Own, 5)))
	m := &c32Model{appr: map[string]map[common.Address]bool{}, content: map[string]c32Content{}}
	for _, top := range c.Ops {
		for _, op := range e.expand(top) {
			if isApprove(op.K) {
				c32Approve(e, m, op)
				continue
			}
			sr := e.exec(op)
			if sr.res.Panic != "" {
				ctx.Failf("%s panicked: %s", op.K, sr.res.Panic)
			}
			if ak, ok := requestOf[op.K]; ok && sr.res.OK() {
				var ct c32Content
				switch op.K {
				case kScReg, kScUpd:
					ct.rec = scRecOfParam(scContent(sr.t.id, sr.acting, op.C))
				case kRlReg, kRlRem:
					ct.addrs = e.acctList(op.L)
				case kSvReg, kSvRem:
					ct.keys = e.svList(op.L)
				}
				m.content[ak+"|"+sr.t.req] = ct
			}
		}
	}
	if m.interleaved && m.outsider && m.fires > 0 {
		ctx.NonTrivial()
	}
	if m.fires > 0 {
		e.label("some-approval-took-effect")
	}
	if m.fires > 1 {
		e.label("several-approvals-took-effect")
	}
}

func c32Approve(e *eng, m *c32Model, op gop) {
	ctx := e.ctx
	t := e.targetOf(op.K, op)
	pre := e.pool()
	cons, _, n := e.validators() // the harness's own pool bookkeeping (cross-checked against the contract's pool)
	thr := ceil2of3(n)
	pending, pendKnown := e.pendingOf(op.K, t)
	// content of the pending request (for the effect check)
	var preApply, preUpd scRec
	var preAddrs []common.Address
	var preKeys []string
	switch op.K {
	case kScApprReg:
		preApply = e.scApply(t.id)
	case kScApprUpd:
		preUpd = e.scUpdate(t.id)
	case kRlApprReg:
		preAddrs, _ = relayer_manager.VerifRelayerApplyPending(e.w.Service(), t.id)
	case kRlApprRem:
		preAddrs, _ = relayer_manager.VerifRelayerRemovePending(e.w.Service(), t.id)
	case kSvApprReg:
		preKeys, _ = neo3_state_manager.VerifStateValidatorApplyPending(e.w.Service(), t.id)
	case kSvApprRem:
		preKeys, _ = neo3_state_manager.VerifStateValidatorRemovePending(e.w.Service(), t.id)
	}
	preDump := e.w.Dump()
	sr := e.exec(op)
	key := op.K + "|" + t.req
	what := fmt.Sprintf("%s(%s) by account %d", op.K, short(t.req), mod(op.A, len(e.actors)))
	neo3 := op.K == kSvApprReg || op.K == kSvApprRem
	if !sr.res.OK() {
		if sr.res.Panic != "" {
			if e.neo3AbsentPanic(sr) {
				return
			}
			ctx.Failf("%s panicked: %s", what, sr.res.Panic)
		}
		if sr.witness && pendKnown && pending && !neo3 {
			ctx.Failf("%s: properly witnessed approval of a pending request was rejected: %v", what, sr.res.Err)
		}
		e.label("approval-rejected")
		return
	}
	// accepted
	if !sr.witness {
		ctx.Failf("%s: approval accepted although the transaction does not carry the approver's witness", what)
	}
	if pendKnown && !pending && !neo3 {
		ctx.Failf("%s: approval accepted although no such request is pending", what)
	}
	set := m.appr[key]
	if set == nil {
		set = map[common.Address]bool{}
		m.appr[key] = set
	}
	before := 0
	for a := range set {
		if cons[a] > 0 {
			before++
		}
	}
	set[sr.acting] = true
	count := 0
	for a := range set {
		if cons[a] > 0 {
			count++
		}
	}
	if cons[sr.acting] == 0 {
		m.outsider = true
		e.label("accepted-approval-by-non-validator")
		for _, it := range pre.Items {
			if it.Address == sr.acting && it.Status == node_manager.ConsensusStatus {
				e.label("accepted-approval-by-owner-wallet-of-a-validator")
			}
		}
	} else if it, ok := pre.Items[world.PubHex(e.actors[e.byAddr[sr.acting]])]; ok && it.Address != sr.acting {
		e.label("accepted-approval-by-validator-with-separate-owner")
	}
	want := count >= thr
	if sr.fired != want {
		ctx.Failf("%s: took effect = %v, but %d of the %d consensus validators have approved this request (threshold ceil(2*%d/3) = %d); approvers recorded by the model: %d",
			what, sr.fired, count, n, n, thr, len(set))
	}
	post := e.w.Dump()
	if !sr.fired {
		m.belowThr = true
		for _, k := range dumpDiff(preDump, post) {
			if len(k) < 1 || !bytes.HasPrefix(k[1:], consensusSignsPrefix) { // k[0] is the store's data-class prefix byte
				ctx.Failf("%s: approval below the threshold (%d/%d) changed state outside the approval record: key %x", what, count, thr, k)
			}
		}
		open := 0
		for _, s := range m.appr {
			if len(s) > 0 {
				open++
			}
		}
		if open >= 2 {
			m.interleaved = true
		}
		return
	}
	// took effect
	m.fires++
	if before >= thr {
		e.label("ambiguous:threshold-already-met-before-this-approval(validator-set-shrank)")
	}
	delete(m.appr, key)
	e.label("effect:" + op.K)
	ct, seen := m.content[key]
	if !seen && pendKnown {
		ctx.Failf("harness-model mismatch: %s took effect but the harness never saw an accepted request transaction for it", what)
	}
	// the request as the contract's own getters decoded it must be the request the harness sent
	switch op.K {
	case kScApprReg:
		if preApply != ct.rec {
			ctx.Failf("%s: pending request read back as %v, the accepted request transaction asked for %v", what, preApply, ct.rec)
		}
	case kScApprUpd:
		if preUpd != ct.rec {
			ctx.Failf("%s: pending update read back as %v, the accepted request transaction asked for %v", what, preUpd, ct.rec)
		}
	case kRlApprReg, kRlApprRem:
		if fmt.Sprint(preAddrs) != fmt.Sprint(ct.addrs) {
			ctx.Failf("%s: pending list read back as %v, the accepted request transaction listed %v", what, preAddrs, ct.addrs)
		}
		preAddrs = ct.addrs
	case kSvApprReg, kSvApprRem:
		if fmt.Sprint(preKeys) != fmt.Sprint(ct.keys) {
			ctx.Failf("%s: pending list read back as %v, the accepted request transaction listed %v", what, preKeys, ct.keys)
		}
		preKeys = ct.keys
	}
	switch op.K {
	case kApprCand:
		it, ok := e.pool().Items[t.pub]
		if !ok || (it.Status != node_manager.CandidateStatus && it.Status != node_manager.ConsensusStatus) {
			ctx.Failf("%s took effect but the peer is not an active pool member afterwards", what)
		}
		if e.candApplied(t.pub) {
			ctx.Failf("%s took effect but the candidacy is still pending", what)
		}
	case kBlack:
		p := e.pool()
		for _, k := range t.pubs {
			if it, ok := p.Items[k]; ok && it.Status != node_manager.BlackStatus {
				ctx.Failf("%s took effect but peer %s has status %d afterwards", what, short(k), it.Status)
			}
		}
	case kScApprReg:
		if got := e.scRegistered(t.id); got != ct.rec {
			ctx.Failf("%s took effect: registered record %v differs from the approved request %v", what, got, ct.rec)
		}
		e.scStoredCheck(what, ct.rec)
	case kScApprUpd:
		if got := e.scRegistered(t.id); got != ct.rec {
			ctx.Failf("%s took effect: registered record %v differs from the approved update %v", what, got, ct.rec)
		}
		e.scStoredCheck(what, ct.rec)
	case kScApprQuit:
		if got := e.scRegistered(t.id); got.Present {
			ctx.Failf("%s took effect but the chain is still registered: %v", what, got)
		}
	case kRlApprReg:
		for _, a := range preAddrs {
			if !e.isRelayer(a) {
				ctx.Failf("%s took effect but %s is not a relayer", what, a.ToBase58())
			}
		}
	case kRlApprRem:
		for _, a := range preAddrs {
			if e.isRelayer(a) {
				ctx.Failf("%s took effect but %s is still a relayer", what, a.ToBase58())
			}
		}
	case kSvApprReg, kSvApprRem:
		cur := map[string]bool{}
		for _, k := range e.stateValidators() {
			cur[k] = true
		}
		for _, k := range preKeys {
			if cur[k] != (op.K == kSvApprReg) {
				ctx.Failf("%s took effect but state validator %s present=%v afterwards", what, short(k), cur[k])
			}
		}
	}
}

func TestC32(t *testing.T) {
	ev.Drive(t, "C32",
		"cases: N=4..12 (thorough 40) genesis validators whose owner wallets (pool item Address) are the node addresses, separate wallets, or wallets owning 2-3 nodes; candidates registered by separate wallets; 2..8 request transactions, then 4..40 (thorough 90) ops: single approvals of the ten consensus-approved methods "+
			"(approve candidate, black/white node, approve register/update/quit side chain, approve register/remove relayer, approve register/remove state validator) by validators, "+
			"repeat approvers, owner wallets, spare nodes and outsiders (5% with a foreign witness), approval rounds by node addresses / owner wallets / both, further requests, quit/commitDpos/next-block. "+
			"non-trivial: at least two (method, request) approval records were open at the same time, a non-validator's approval was accepted, and at least one approval took effect; in half of the cases every block boundary persists the block overlay into the store, and about one op in three is followed by a block boundary; distinct by JSON of the case",
		genC32, runC32)
}
