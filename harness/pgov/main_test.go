// Package pgov decides the governance cluster C32..C35: histories of governance transactions are
// generated as plain op lists and interpreted against the REAL native contracts (node_manager,
// side_chain_manager, relayer_manager, neo3_state_manager) running in the L1 world, next to
// independent models written from the property statements.
package pgov

import (
	"bytes"
	"crypto/elliptic"
	"encoding/hex"
	"fmt"
	"os"
	"sort"
	"strings"
	"testing"

	"github.com/ontio/ontology-crypto/keypair"
	"github.com/polynetwork/poly/account"
	"github.com/polynetwork/poly/common"
	"github.com/polynetwork/poly/common/config"
	"github.com/polynetwork/poly/core/store/leveldbstore"
	"github.com/polynetwork/poly/core/store/overlaydb"
	"github.com/polynetwork/poly/core/types"
	"github.com/polynetwork/poly/native/service/governance/neo3_state_manager"
	"github.com/polynetwork/poly/native/service/governance/node_manager"
	"github.com/polynetwork/poly/native/service/governance/relayer_manager"
	"github.com/polynetwork/poly/native/service/governance/side_chain_manager"
	"github.com/polynetwork/poly/native/service/utils"
	"github.com/polynetwork/poly/native/storage"
	"pgregory.net/rapid"

	"verif/harness/ev"
	"verif/harness/world"
)

func TestMain(m *testing.M) { ev.Main(m) }

// ---------------------------------------------------------------------------------------------
// ops: one governance transaction (or block boundary) each; all indices are resolved modulo the
// current state inside run, so every case is plain replayable data.

type gop struct {
	K string `json:"k"`           // kind, see the constants below
	A int    `json:"a,omitempty"` // acting account (index into the actor table); for "round": offset into the consensus list
	B int    `json:"b,omitempty"` // target: peer index / chain id / request id
	V int    `json:"v,omitempty"` // textual encoding variant of the peer public key (0 = canonical)
	C int    `json:"c,omitempty"` // content selector / count
	W int    `json:"w,omitempty"` // 0: witnessed by the acting account (commit/updCfg: by the operator multisig); 1: witnessed by somebody else (commit/updCfg: by account A)
	L []int  `json:"l,omitempty"` // list argument (peers*8+variant, relayer accounts, state-validator keys, initConfig peers)
	M string `json:"m,omitempty"` // for "round": the approve kind
}

const (
	kRegCand   = "regCand"
	kUnregCand = "unregCand"
	kApprCand  = "apprCand"
	kBlack     = "black"
	kWhite     = "white"
	kQuit      = "quit"
	kCommit    = "commit"
	kUpdCfg    = "updCfg"
	kInitCfg   = "initCfg"
	kNext      = "next"

	kScReg      = "scReg"
	kScUpd      = "scUpd"
	kScQuit     = "scQuit"
	kScApprReg  = "scApprReg"
	kScApprUpd  = "scApprUpd"
	kScApprQuit = "scApprQuit"

	kRlReg     = "rlReg"
	kRlRem     = "rlRem"
	kRlApprReg = "rlApprReg"
	kRlApprRem = "rlApprRem"

	kSvReg     = "svReg"
	kSvRem     = "svRem"
	kSvApprReg = "svApprReg"
	kSvApprRem = "svApprRem"

	kRound = "round" // macro: approvals of kind M / target B by C consecutive current consensus validators starting at A
)

// approve kinds -> the notification that the contract emits only when the approval took effect
var firedNotify = map[string]string{
	kApprCand: "approveCandidate", kBlack: "blackNode", kWhite: "whiteNode",
	kScApprReg: "ApproveRegisterSideChain", kScApprUpd: "ApproveUpdateSideChain", kScApprQuit: "ApproveQuitSideChain",
	kRlApprReg: "ApproveRegisterRelayer", kRlApprRem: "ApproveRemoveRelayer",
	kSvApprReg: "ApproveRegisterStateValidator", kSvApprRem: "ApproveRemoveStateValidator",
}

var approveKinds = []string{kApprCand, kBlack, kWhite, kScApprReg, kScApprUpd, kScApprQuit, kRlApprReg, kRlApprRem, kSvApprReg, kSvApprRem}

func isApprove(k string) bool { _, ok := firedNotify[k]; return ok }

const (
	spareNodes = 4   // node keys beyond the genesis validators (candidates)
	outsiders  = 4   // accounts that are never node keys (owners, relayers, outsiders)
	outBase    = 100 // first outsider account index in the world key pool
	ownerBase  = 200 // first owner-wallet account index (wallets that own nodes but are no node key)
	numChains  = 3   // side-chain ids 1..numChains
	numVariant = 5
)

// ---------------------------------------------------------------------------------------------
// engine

type eng struct {
	ctx    *ev.Ctx
	w      *world.World
	n      int
	actors []*account.Account // validators 0..n-1, spare nodes n..n+3, outsiders n+4..n+7
	byAddr map[common.Address]int
	labels map[string]bool

	rlReg, rlRem, svReg, svRem int                            // number of accepted requests so far = next request id
	pm                         map[string]node_manager.Status // the harness's own pool bookkeeping: key string -> status
	persist                    bool
}

// engOpts: genesis MaxBlockChangeView, ownership layout (ownerOf), genesis index layout (genesisIndex) and
// whether every block boundary persists the block overlay into the store like the ledger does.
type engOpts struct {
	mbcv    uint32
	own     int
	idx     int
	persist bool
}

func newEng(ctx *ev.Ctx, n int, o engOpts) *eng {
	e := &eng{ctx: ctx, n: n, byAddr: map[common.Address]int{}, labels: map[string]bool{}}
	e.w = newWorld(n, o.mbcv, o.own, o.idx)
	e.persist = o.persist
	for i := 0; i < n+spareNodes; i++ {
		e.actors = append(e.actors, world.Acct(i))
	}
	for i := 0; i < outsiders; i++ {
		e.actors = append(e.actors, world.Acct(outBase+i))
	}
	for i := 0; i < n; i++ { // owner wallets (separate from every node key), indices n+8 .. 2n+7
		e.actors = append(e.actors, world.Acct(ownerBase+i))
	}
	for i, a := range e.actors {
		e.byAddr[a.Address] = i
	}
	e.pm = map[string]node_manager.Status{}
	for i := 0; i < n; i++ { // the genesis configuration the harness itself built
		e.pm[world.PubHex(world.Acct(i))] = node_manager.ConsensusStatus
	}
	return e
}

// ---- the harness's own bookkeeping of the validator pool, driven only by what the transactions
// did (accepted / took effect), following the statement of C34: an approved candidate is a
// candidate member, a quit makes the member quitting, a blacklisting that took effect makes the
// listed members blacklisted and - if one of them was a consensus member - changes the epoch, an
// accepted commitDpos changes the epoch; an epoch change drops quitting and blacklisted members and
// makes every other member a consensus member.

func (e *eng) pmEpoch() {
	for k, st := range e.pm {
		if st == node_manager.QuitingStatus || st == node_manager.BlackStatus {
			delete(e.pm, k)
		} else {
			e.pm[k] = node_manager.ConsensusStatus
		}
	}
}

func (e *eng) pmUpdate(sr stepRes) {
	if !sr.res.OK() {
		return
	}
	switch sr.op.K {
	case kApprCand:
		if sr.fired {
			e.pm[sr.t.pub] = node_manager.CandidateStatus
		}
	case kQuit:
		e.pm[sr.t.pub] = node_manager.QuitingStatus
	case kBlack:
		if sr.fired {
			epoch := false
			for _, k := range sr.t.pubs {
				if e.pm[k] == node_manager.ConsensusStatus {
					epoch = true
				}
				e.pm[k] = node_manager.BlackStatus
			}
			if epoch {
				e.pmEpoch()
			}
		}
	case kCommit:
		e.pmEpoch()
	case kInitCfg: // accepted again after genesis (defect F6, fixed): the pool was replaced wholesale
		e.label("pool-model-resynchronised-after-initConfig")
		e.pm = map[string]node_manager.Status{}
		for k, it := range e.pool().Items {
			e.pm[k] = it.Status
		}
	}
}

// validators returns the current consensus validators according to the harness's own pool
// bookkeeping (address -> number of entries, addresses in key order, count), after cross-checking
// the bookkeeping against the contract's pool: a difference is reported as a harness-model mismatch.
func (e *eng) validators() (addrs map[common.Address]int, order []common.Address, n int) {
	real := e.pool()
	for k, st := range e.pm {
		if it, ok := real.Items[k]; !ok || it.Status != st {
			e.ctx.Failf("harness-model mismatch: the harness's pool bookkeeping has %s with status %d, the contract's pool has present=%v status %d", short(k), st, ok, it.Status)
		}
	}
	for k, it := range real.Items {
		if _, ok := e.pm[k]; !ok {
			e.ctx.Failf("harness-model mismatch: the contract's pool holds %s (status %d) which the harness's pool bookkeeping does not have", short(k), it.Status)
		}
	}
	addrs = map[common.Address]int{}
	keys := make([]string, 0, len(e.pm))
	for k := range e.pm {
		keys = append(keys, k)
	}
	sort.Strings(keys)
	for _, k := range keys {
		if e.pm[k] != node_manager.ConsensusStatus {
			continue
		}
		n++
		if a, ok := addrOfPub(k); ok {
			if addrs[a] == 0 {
				order = append(order, a)
			}
			addrs[a]++
		}
	}
	return
}

// newWorld is world.New(n, Opts{MaxBlockChangeView: mbcv}) without its per-call cost: world.New
// allocates two fresh 4 MiB skip-list buffers (LevelDB mem store + block overlay) and leaks the
// LevelDB background goroutines, ~50-100 ms per case on the shared machine. The L1 world never
// flushes the block overlay into the store, so the store stays empty for ever and the whole
// contract state lives in the overlay; this function therefore keeps ONE store + overlay per
// process and resets the overlay (the operation the ledger itself performs between blocks) before
// building a brand-new World value around it. Cases run strictly sequentially inside a process.
// PGOV_FRESH_WORLD=1 switches back to world.New.
var sharedStore *leveldbstore.LevelDBStore
var sharedOverlay *overlaydb.OverlayDB

// ownerOf is the wallet that owns genesis validator i (PeerPoolItem.Address) under ownership
// layout own: 0 the node's own address (conventional), 1 a separate wallet per node, 2 one wallet
// per two nodes, 3 one wallet per three nodes, 4 odd nodes separately owned, even nodes self-owned.
func ownerOf(i, own int) *account.Account {
	switch mod(own, 5) {
	case 1:
		return world.Acct(ownerBase + i)
	case 2:
		return world.Acct(ownerBase + i/2)
	case 3:
		return world.Acct(ownerBase + i/3)
	case 4:
		if i%2 == 1 {
			return world.Acct(ownerBase + i)
		}
	}
	return world.Acct(i)
}

// genesisIndex is the peer index of genesis validator i under index layout idx: 0 the conventional i+1,
// 1 offset by one (2..n+1), 2 offset by three, 3 a gap before the last (1..n-1, n+2), 4 a gap in the
// middle (1, 3, 4, ..), 5 descending with an offset (n+1 .. 2), 6 large (1000+7i).
func genesisIndex(i, n, idx int) uint32 {
	switch mod(idx, 7) {
	case 1:
		return uint32(i + 2)
	case 2:
		return uint32(i + 4)
	case 3:
		if i == n-1 {
			return uint32(n + 2)
		}
	case 4:
		if i > 0 {
			return uint32(i + 2)
		}
	case 5:
		return uint32(n + 1 - i)
	case 6:
		return uint32(1000 + 7*i)
	}
	return uint32(i + 1)
}

// persistBlock ends the current block the way the ledger (and world.Persist) does: the block overlay is
// written to the backing store, then an empty overlay and transaction cache continue over it. Same effect
// as world.Persist, but the overlay object is reset instead of re-allocated (4 MiB per block otherwise).
func (e *eng) persistBlock() {
	w := e.w
	w.Store.NewBatch()
	w.Overlay.CommitTo()
	if err := w.Store.BatchCommit(); err != nil {
		panic("pgov: persist: " + err.Error())
	}
	w.Overlay.Reset()
	w.Cache.Reset()
	storeDirty = true
}

var storeDirty bool // the shared store holds persisted state of the previous case

func clearStore(st *leveldbstore.LevelDBStore) {
	it := st.NewIterator(nil)
	var keys [][]byte
	for ok := it.First(); ok; ok = it.Next() {
		keys = append(keys, append([]byte(nil), it.Key()...))
	}
	it.Release()
	st.NewBatch()
	for _, k := range keys {
		st.BatchDelete(k)
	}
	if err := st.BatchCommit(); err != nil {
		panic("pgov: clearing the store: " + err.Error())
	}
	if it2 := st.NewIterator(nil); it2.First() {
		panic("pgov: store not empty after clearing")
	} else {
		it2.Release()
	}
}

func newWorld(n int, mbcv uint32, own int, idx int) *world.World {
	if os.Getenv("PGOV_FRESH_WORLD") != "" && mod(own, 5) == 0 && mod(idx, 7) == 0 {
		return world.New(n, world.Opts{MaxBlockChangeView: mbcv})
	}
	world.ResetGlobals(0)
	if mbcv == 0 {
		mbcv = 60000
	}
	if sharedStore == nil {
		st, err := leveldbstore.NewMemLevelDBStore()
		if err != nil {
			panic(err)
		}
		sharedStore, sharedOverlay = st, overlaydb.NewOverlayDB(st)
	}
	if storeDirty {
		clearStore(sharedStore)
		storeDirty = false
	}
	sharedOverlay.Reset()
	w := &world.World{Store: sharedStore, Overlay: sharedOverlay, Time: 1600000000,
		ChainID: config.GetChainIdByNetId(config.DefConfig.P2PNode.NetworkId)}
	w.Cache = storage.NewCacheDB(w.Overlay)
	w.Validators = world.Accts(0, n)
	sink := common.NewZeroCopySink(nil)
	cfg := world.VBFTConfigFor(w.Validators, mbcv)
	for i := range cfg.Peers { // the owner wallet is free in the genesis config: not tied to the peer public key
		cfg.Peers[i].Address = ownerOf(i, own).Address.ToBase58()
		cfg.Peers[i].Index = genesisIndex(i, n, idx) // indices only have to be distinct and > 0
	}
	cfg.Serialization(sink)
	if r := w.Invoke(utils.NodeManagerContractAddress, "initConfig", sink.Bytes(), nil); r.Err != nil {
		panic("pgov: genesis initConfig failed: " + r.Err.Error())
	}
	w.Height = 1
	return w
}

func (e *eng) label(s string) {
	if !e.labels[s] {
		e.labels[s] = true
		e.ctx.Label(s)
	}
}

func mod(i, n int) int {
	if n <= 0 {
		return 0
	}
	i %= n
	if i < 0 {
		i += n
	}
	return i
}

func (e *eng) actor(i int) *account.Account { return e.actors[mod(i, len(e.actors))] }
func (e *eng) node(i int) *account.Account  { return e.actors[mod(i, e.n+spareNodes)] }

// pubVariant renders the public key of a in one of several textual encodings that all decode
// (hex + keypair.DeserializePublicKey) to the same key.
func pubVariant(a *account.Account, v int) string {
	canon := world.PubHex(a)
	switch mod(v, numVariant) {
	case 1:
		return strings.ToUpper(canon)
	case 2: // only the first hex letter in upper case
		b := []byte(canon)
		for i, c := range b {
			if c >= 'a' && c <= 'f' {
				b[i] = c - 'a' + 'A'
				break
			}
		}
		return string(b)
	case 3: // uncompressed point 04 || X || Y
		return hex.EncodeToString(uncompressed(a))
	case 4: // algorithm byte || curve label || compressed point
		raw, _ := hex.DecodeString(canon)
		label, err := keypair.GetCurveLabel(elliptic.P256())
		if err != nil {
			panic(err)
		}
		return hex.EncodeToString(append([]byte{byte(keypair.PK_ECDSA), label}, raw...))
	}
	return canon
}

func uncompressed(a *account.Account) []byte {
	raw, _ := hex.DecodeString(world.PubHex(a))
	x, y := elliptic.UnmarshalCompressed(elliptic.P256(), raw)
	if x == nil {
		panic("cannot decompress pool key")
	}
	return elliptic.Marshal(elliptic.P256(), x, y)
}

// canonOf decodes a peer pubkey string the way the contracts do and returns the canonical
// (lower-case hex of the canonical serialisation) form, "" if it does not decode.
func canonOf(s string) string {
	raw, err := hex.DecodeString(s)
	if err != nil {
		return ""
	}
	pk, err := keypair.DeserializePublicKey(raw)
	if err != nil {
		return ""
	}
	return hex.EncodeToString(keypair.SerializePublicKey(pk))
}

func addrOfPub(s string) (common.Address, bool) {
	raw, err := hex.DecodeString(s)
	if err != nil {
		return common.ADDRESS_EMPTY, false
	}
	pk, err := keypair.DeserializePublicKey(raw)
	if err != nil {
		return common.ADDRESS_EMPTY, false
	}
	return types.AddressFromPubKey(pk), true
}

// ---- observations of the real state (through the contracts' own getters)

type poolObs struct {
	View   uint32
	Height uint32 // height of the last view change
	Items  map[string]node_manager.PeerPoolItem
}

func (e *eng) pool() poolObs {
	svc := e.w.Service()
	gv, err := node_manager.GetGovernanceView(svc)
	if err != nil {
		e.ctx.Failf("governance view unreadable: %v", err)
	}
	m, err := node_manager.GetPeerPoolMap(svc, gv.View)
	if err != nil {
		e.ctx.Failf("peer pool of current view %d unreadable: %v", gv.View, err)
	}
	o := poolObs{View: gv.View, Height: gv.Height, Items: map[string]node_manager.PeerPoolItem{}}
	for k, it := range m.PeerPoolMap {
		o.Items[k] = *it
	}
	return o
}

func (p poolObs) keys() []string {
	ks := make([]string, 0, len(p.Items))
	for k := range p.Items {
		ks = append(ks, k)
	}
	sort.Strings(ks)
	return ks
}

// consensus returns the addresses of the entries with consensus status (address -> number of
// entries) and the number of such entries, in sorted key order.
func (p poolObs) consensus() (addrs map[common.Address]int, order []common.Address, n int) {
	addrs = map[common.Address]int{}
	for _, k := range p.keys() {
		it := p.Items[k]
		if it.Status != node_manager.ConsensusStatus {
			continue
		}
		n++
		if a, ok := addrOfPub(k); ok {
			if addrs[a] == 0 {
				order = append(order, a)
			}
			addrs[a]++
		}
	}
	return
}

func ceil2of3(n int) int { // ceil(2n/3)
	q := 2 * n / 3
	if 2*n%3 != 0 {
		q++
	}
	return q
}

type scRec struct {
	Chain   uint64
	Owner   common.Address
	Router  uint64
	Name    string
	Blocks  uint64
	CCMC    string
	Extra   string
	Present bool
}

func recOf(s *side_chain_manager.SideChain) scRec {
	if s == nil {
		return scRec{}
	}
	return scRec{Chain: s.ChainId, Owner: s.Address, Router: s.Router, Name: s.Name, Blocks: s.BlocksToWait, CCMC: string(s.CCMCAddress), Extra: string(s.ExtraInfo), Present: true}
}

func (r scRec) String() string {
	if !r.Present {
		return "<none>"
	}
	return fmt.Sprintf("{chain %d owner %s router %d name %q blocks %d ccmc %x extra %x}", r.Chain, r.Owner.ToBase58(), r.Router, r.Name, r.Blocks, r.CCMC, r.Extra)
}

// ---- the stored side-chain record, byte for byte, against the harness's own encoding (written from the
// wire format: var-bytes owner, var-uint chain id, var-uint router, var-bytes name, var-uint blocks-to-wait,
// var-bytes CCMC address, var-bytes extra info) - independent of the contract's (de)serialisers

func refVarUint(v uint64) []byte {
	switch {
	case v < 0xFD:
		return []byte{byte(v)}
	case v <= 0xFFFF:
		return []byte{0xFD, byte(v), byte(v >> 8)}
	case v <= 0xFFFFFFFF:
		return []byte{0xFE, byte(v), byte(v >> 8), byte(v >> 16), byte(v >> 24)}
	}
	b := []byte{0xFF, 0, 0, 0, 0, 0, 0, 0, 0}
	for i := 0; i < 8; i++ {
		b[1+i] = byte(v >> (8 * uint(i)))
	}
	return b
}

func refVarBytes(b []byte) []byte { return append(refVarUint(uint64(len(b))), b...) }

func (r scRec) refBytes() []byte {
	var out []byte
	out = append(out, refVarBytes(r.Owner[:])...)
	out = append(out, refVarUint(r.Chain)...)
	out = append(out, refVarUint(r.Router)...)
	out = append(out, refVarBytes([]byte(r.Name))...)
	out = append(out, refVarUint(r.Blocks)...)
	out = append(out, refVarBytes([]byte(r.CCMC))...)
	out = append(out, refVarBytes([]byte(r.Extra))...)
	return out
}

// scStoredCheck compares the raw stored registry entry of a chain with the harness encoding of want.
func (e *eng) scStoredCheck(what string, want scRec) {
	var le [8]byte
	for i := 0; i < 8; i++ {
		le[i] = byte(want.Chain >> (8 * uint(i)))
	}
	raw := e.w.Get(utils.ConcatKey(utils.SideChainManagerContractAddress, []byte(side_chain_manager.SIDE_CHAIN), le[:]))
	if !bytes.Equal(raw, want.refBytes()) {
		e.ctx.Failf("%s: stored registry entry of chain %d is %x, the approved request %v encodes to %x", what, want.Chain, raw, want, want.refBytes())
	}
}

func (e *eng) scRegistered(chain uint64) scRec {
	s, err := side_chain_manager.GetSideChain(e.w.Service(), chain)
	if err != nil {
		e.ctx.Failf("GetSideChain(%d): %v", chain, err)
	}
	return recOf(s)
}
func (e *eng) scApply(chain uint64) scRec {
	s, err := side_chain_manager.VerifGetSideChainApply(e.w.Service(), chain)
	if err != nil {
		e.ctx.Failf("getSideChainApply(%d): %v", chain, err)
	}
	return recOf(s)
}
func (e *eng) scUpdate(chain uint64) scRec {
	s, err := side_chain_manager.VerifGetUpdateSideChain(e.w.Service(), chain)
	if err != nil {
		e.ctx.Failf("getUpdateSideChain(%d): %v", chain, err)
	}
	return recOf(s)
}
func (e *eng) scQuitPending(chain uint64) bool {
	return side_chain_manager.VerifQuitSideChainRequested(e.w.Service(), chain)
}

func (e *eng) isRelayer(a common.Address) bool {
	// the registry entry as the transaction pool reads it: contract || "relayer" || address
	return e.w.Get(utils.ConcatKey(utils.RelayerManagerContractAddress, []byte(relayer_manager.RELAYER), a[:])) != nil
}

func (e *eng) stateValidators() []string {
	r := e.w.Invoke(utils.Neo3StateManagerContractAddress, neo3_state_manager.GET_CURRENT_STATE_VALIDATOR, nil, nil)
	if !r.OK() {
		e.ctx.Failf("getCurrentStateValidator failed: %v", r.Err)
	}
	b, _ := r.Ret.([]byte)
	l, err := neo3_state_manager.DeserializeStringArray(b)
	if err != nil {
		e.ctx.Failf("state validator list does not decode: %v", err)
	}
	return l
}

func (e *eng) candApplied(pub string) bool {
	p, err := node_manager.GetPeerApply(e.w.Service(), pub)
	return err == nil && p != nil
}

// pendingOf reports whether the request that approve kind k / target op refers to is pending,
// asking the contract's own lookup. known=false for kinds without a request record (black, white).
func (e *eng) pendingOf(k string, t target) (pending bool, known bool) {
	svc := e.w.Service()
	switch k {
	case kApprCand:
		return e.candApplied(t.pub), true
	case kScApprReg:
		return e.scApply(t.id).Present, true
	case kScApprUpd:
		return e.scUpdate(t.id).Present, true
	case kScApprQuit:
		return e.scQuitPending(t.id), true
	case kRlApprReg:
		_, ok := relayer_manager.VerifRelayerApplyPending(svc, t.id)
		return ok, true
	case kRlApprRem:
		_, ok := relayer_manager.VerifRelayerRemovePending(svc, t.id)
		return ok, true
	case kSvApprReg:
		_, ok := neo3_state_manager.VerifStateValidatorApplyPending(svc, t.id)
		return ok, true
	case kSvApprRem:
		_, ok := neo3_state_manager.VerifStateValidatorRemovePending(svc, t.id)
		return ok, true
	}
	return false, false
}

// ---- resolving targets

type target struct {
	id   uint64   // chain id / request id
	pub  string   // peer pubkey string (cand, white)
	pubs []string // black list
	req  string   // request identity within the method (what the approvals are counted under)
}

func (e *eng) peerList(l []int) []string {
	var out []string
	for _, x := range l {
		x = mod(x, 8*(e.n+spareNodes))
		out = append(out, pubVariant(e.node(x/8), x%8))
	}
	return out
}

func (e *eng) targetOf(k string, op gop) target {
	switch k {
	case kApprCand, kWhite, kRegCand, kUnregCand, kQuit:
		p := pubVariant(e.node(op.B), op.V)
		return target{pub: p, req: p}
	case kBlack:
		ps := e.peerList(op.L)
		return target{pubs: ps, req: strings.Join(ps, "")}
	case kScApprReg, kScApprUpd, kScApprQuit, kScReg, kScUpd, kScQuit:
		id := uint64(1 + mod(op.B-1, numChains))
		return target{id: id, req: fmt.Sprint(id)}
	case kRlApprReg:
		id := uint64(mod(op.B, e.rlReg+1))
		return target{id: id, req: fmt.Sprint(id)}
	case kRlApprRem:
		id := uint64(mod(op.B, e.rlRem+1))
		return target{id: id, req: fmt.Sprint(id)}
	case kSvApprReg:
		id := uint64(mod(op.B, e.svReg+1))
		return target{id: id, req: fmt.Sprint(id)}
	case kSvApprRem:
		id := uint64(mod(op.B, e.svRem+1))
		return target{id: id, req: fmt.Sprint(id)}
	}
	return target{}
}

func scContent(chain uint64, owner common.Address, c int) *side_chain_manager.RegisterSideChainParam {
	c = mod(c, 12)
	p := &side_chain_manager.RegisterSideChainParam{
		Address: owner, ChainId: chain, Router: uint64(c % 4), Name: fmt.Sprintf("chain%d-v%d", chain, c),
		BlocksToWait: uint64(1 + c%3), CCMCAddress: []byte{byte(chain), byte(c), 0xcc},
	}
	if c%2 == 1 {
		p.ExtraInfo = []byte{0xee, byte(c)}
	}
	return p
}

func scRecOfParam(p *side_chain_manager.RegisterSideChainParam) scRec {
	return scRec{Chain: p.ChainId, Owner: p.Address, Router: p.Router, Name: p.Name, Blocks: p.BlocksToWait, CCMC: string(p.CCMCAddress), Extra: string(p.ExtraInfo), Present: true}
}

func (e *eng) acctList(l []int) []common.Address {
	var out []common.Address
	seen := map[common.Address]bool{}
	for _, x := range l {
		a := e.actor(x).Address
		if !seen[a] {
			seen[a] = true
			out = append(out, a)
		}
	}
	return out
}

func (e *eng) svList(l []int) []string {
	var out []string
	seen := map[string]bool{}
	for _, x := range l {
		s := world.PubHex(e.actor(x))
		if !seen[s] {
			seen[s] = true
			out = append(out, s)
		}
	}
	return out
}

// ---- executing one op on the real contracts

type stepRes struct {
	op      gop
	t       target
	res     world.Result
	acting  common.Address // the address named in the parameters
	witness bool           // the transaction carries the witness of `acting`
	fired   bool           // approve kinds: the took-effect notification was emitted
	skipped bool
}

func sinkBytes(f func(s *common.ZeroCopySink)) []byte {
	s := common.NewZeroCopySink(nil)
	f(s)
	return s.Bytes()
}

func hasNotify(r world.Result, name string) bool {
	for _, n := range r.Notify {
		if st, ok := n.States.([]interface{}); ok && len(st) > 0 {
			if s, ok := st[0].(string); ok && s == name {
				return true
			}
		}
	}
	return false
}

func (e *eng) exec(op gop) stepRes {
	sr := stepRes{op: op, t: e.targetOf(op.K, op)}
	a := e.actor(op.A)
	if op.A < 0 && (op.K == kQuit || op.K == kUnregCand) { // A<0: "the wallet that registered this peer"
		if it, ok := e.pool().Items[sr.t.pub]; ok && op.K == kQuit {
			if i, ok := e.byAddr[it.Address]; ok {
				a = e.actors[i]
			}
		} else if p, err := node_manager.GetPeerApply(e.w.Service(), sr.t.pub); err == nil && p != nil {
			if i, ok := e.byAddr[p.Address]; ok {
				a = e.actors[i]
			}
		}
	}
	sr.acting = a.Address
	signers := []common.Address{a.Address}
	sr.witness = true
	if op.W == 1 && op.K != kCommit && op.K != kUpdCfg {
		signers = []common.Address{e.actors[mod(e.byAddr[a.Address]+1, len(e.actors))].Address}
		sr.witness = signers[0] == a.Address
	}
	nm, sc, rl, sv := utils.NodeManagerContractAddress, utils.SideChainManagerContractAddress, utils.RelayerManagerContractAddress, utils.Neo3StateManagerContractAddress
	peerParam := func() []byte {
		return sinkBytes(func(s *common.ZeroCopySink) {
			(&node_manager.PeerParam{PeerPubkey: sr.t.pub, Address: a.Address}).Serialization(s)
		})
	}
	chainParam := func() []byte {
		return sinkBytes(func(s *common.ZeroCopySink) {
			(&side_chain_manager.ChainidParam{Chainid: sr.t.id, Address: a.Address}).Serialization(s)
		})
	}
	idParam := func() []byte {
		return sinkBytes(func(s *common.ZeroCopySink) {
			(&relayer_manager.ApproveRelayerParam{ID: sr.t.id, Address: a.Address}).Serialization(s)
		})
	}
	switch op.K {
	case kNext:
		steps := []int{1, 1, 1, 2, 3, 7}[mod(op.C, 6)]
		for i := 0; i < steps; i++ {
			if e.persist {
				e.persistBlock()
			}
			e.w.NextBlock()
		}
		return sr
	case kRegCand:
		args := sinkBytes(func(s *common.ZeroCopySink) {
			(&node_manager.RegisterPeerParam{PeerPubkey: sr.t.pub, Address: a.Address}).Serialization(s)
		})
		sr.res = e.w.Invoke(nm, node_manager.REGISTER_CANDIDATE, args, signers)
	case kUnregCand:
		sr.res = e.w.Invoke(nm, node_manager.UNREGISTER_CANDIDATE, peerParam(), signers)
	case kApprCand:
		sr.res = e.w.Invoke(nm, node_manager.APPROVE_CANDIDATE, peerParam(), signers)
	case kWhite:
		sr.res = e.w.Invoke(nm, node_manager.WHITE_NODE, peerParam(), signers)
	case kQuit:
		sr.res = e.w.Invoke(nm, node_manager.QUIT_NODE, peerParam(), signers)
	case kBlack:
		args := sinkBytes(func(s *common.ZeroCopySink) {
			(&node_manager.PeerListParam{PeerPubkeyList: sr.t.pubs, Address: a.Address}).Serialization(s)
		})
		sr.res = e.w.Invoke(nm, node_manager.BLACK_NODE, args, signers)
	case kCommit, kUpdCfg:
		if op.W == 0 {
			var opAddr common.Address
			if p := ev.Catch(func() { opAddr = e.w.Operator() }); p != "" {
				e.label("operator-address-not-computable")
				opAddr = a.Address
			}
			signers = []common.Address{opAddr}
			sr.acting = opAddr
		}
		if op.K == kCommit {
			sr.res = e.w.Invoke(nm, node_manager.COMMIT_DPOS, nil, signers)
		} else {
			cfg := &node_manager.Configuration{BlockMsgDelay: 10000, HashMsgDelay: 10000, PeerHandshakeTimeout: 10,
				MaxBlockChangeView: []uint32{10000, 60000, 9999, 20000}[mod(op.C, 4)]}
			sr.res = e.w.Invoke(nm, node_manager.UPDATE_CONFIG, sinkBytes(func(s *common.ZeroCopySink) { cfg.Serialization(s) }), signers)
		}
	case kInitCfg:
		var accs []*account.Account
		seen := map[int]bool{}
		for _, x := range op.L {
			i := mod(x, len(e.actors))
			if !seen[i] {
				seen[i] = true
				accs = append(accs, e.actors[i])
			}
		}
		cfg := world.VBFTConfigFor(accs, 60000)
		for i := range cfg.Peers {
			cfg.Peers[i].Index = uint32(i + 1 + mod(op.C, 3))
		}
		sr.res = e.w.Invoke(nm, "initConfig", sinkBytes(func(s *common.ZeroCopySink) { cfg.Serialization(s) }), signers)
	case kScReg, kScUpd:
		p := scContent(sr.t.id, a.Address, op.C)
		args := sinkBytes(func(s *common.ZeroCopySink) { p.Serialization(s) })
		m := side_chain_manager.REGISTER_SIDE_CHAIN
		if op.K == kScUpd {
			m = side_chain_manager.UPDATE_SIDE_CHAIN
		}
		sr.res = e.w.Invoke(sc, m, args, signers)
	case kScQuit:
		sr.res = e.w.Invoke(sc, side_chain_manager.QUIT_SIDE_CHAIN, chainParam(), signers)
	case kScApprReg:
		sr.res = e.w.Invoke(sc, side_chain_manager.APPROVE_REGISTER_SIDE_CHAIN, chainParam(), signers)
	case kScApprUpd:
		sr.res = e.w.Invoke(sc, side_chain_manager.APPROVE_UPDATE_SIDE_CHAIN, chainParam(), signers)
	case kScApprQuit:
		sr.res = e.w.Invoke(sc, side_chain_manager.APPROVE_QUIT_SIDE_CHAIN, chainParam(), signers)
	case kRlReg, kRlRem:
		args := sinkBytes(func(s *common.ZeroCopySink) {
			(&relayer_manager.RelayerListParam{AddressList: e.acctList(op.L), Address: a.Address}).Serialization(s)
		})
		if op.K == kRlReg {
			sr.t.id = uint64(e.rlReg)
			sr.res = e.w.Invoke(rl, relayer_manager.REGISTER_RELAYER, args, signers)
			if sr.res.OK() {
				e.rlReg++
			}
		} else {
			sr.t.id = uint64(e.rlRem)
			sr.res = e.w.Invoke(rl, relayer_manager.REMOVE_RELAYER, args, signers)
			if sr.res.OK() {
				e.rlRem++
			}
		}
		sr.t.req = fmt.Sprint(sr.t.id)
	case kRlApprReg:
		sr.res = e.w.Invoke(rl, relayer_manager.APPROVE_REGISTER_RELAYER, idParam(), signers)
	case kRlApprRem:
		sr.res = e.w.Invoke(rl, relayer_manager.APPROVE_REMOVE_RELAYER, idParam(), signers)
	case kSvReg, kSvRem:
		args := sinkBytes(func(s *common.ZeroCopySink) {
			(&neo3_state_manager.StateValidatorListParam{StateValidators: e.svList(op.L), Address: a.Address}).Serialization(s)
		})
		if op.K == kSvReg {
			sr.t.id = uint64(e.svReg)
			sr.res = e.w.Invoke(sv, neo3_state_manager.REGISTER_STATE_VALIDATOR, args, signers)
			if sr.res.OK() {
				e.svReg++
			}
		} else {
			sr.t.id = uint64(e.svRem)
			sr.res = e.w.Invoke(sv, neo3_state_manager.REMOVE_STATE_VALIDATOR, args, signers)
			if sr.res.OK() {
				e.svRem++
			}
		}
		sr.t.req = fmt.Sprint(sr.t.id)
	case kSvApprReg:
		sr.res = e.w.Invoke(sv, neo3_state_manager.APPROVE_REGISTER_STATE_VALIDATOR, idParam(), signers)
	case kSvApprRem:
		sr.res = e.w.Invoke(sv, neo3_state_manager.APPROVE_REMOVE_STATE_VALIDATOR, idParam(), signers)
	default:
		e.ctx.Failf("harness: unknown op kind %q", op.K)
	}
	if n, ok := firedNotify[op.K]; ok && sr.res.OK() {
		sr.fired = hasNotify(sr.res, n)
	}
	e.pmUpdate(sr)
	return sr
}

// expand turns a "round" macro into single approvals by consecutive current consensus validators
// (W 0), their owner wallets (2), both (3) or the non-consensus members of the pool (4).
func (e *eng) expand(op gop) []gop {
	if op.K != kRound {
		return []gop{op}
	}
	if !isApprove(op.M) {
		return nil
	}
	pl := e.pool()
	_, order, n := pl.consensus()
	if len(order) == 0 {
		return nil
	}
	ownerOfNode := map[common.Address]common.Address{}
	for k, it := range pl.Items {
		if a, ok := addrOfPub(k); ok {
			ownerOfNode[a] = it.Address
		}
	}
	if op.W == 4 { // W 4: the approvers are the pool members that are NOT consensus validators
		// (approved candidates before the epoch change, quitting and blacklisted peers), in key order
		order = nil
		for _, k := range pl.keys() {
			if it := pl.Items[k]; it.Status != node_manager.ConsensusStatus {
				if a, ok := addrOfPub(k); ok {
					order = append(order, a)
				}
			}
		}
		if len(order) == 0 {
			return nil
		}
	}
	cnt := op.C
	switch {
	case op.C == 0:
		cnt = ceil2of3(n)
	case op.C == -1:
		cnt = ceil2of3(n) - 1
	case op.C == -2:
		cnt = len(order)
	case op.C < 0:
		cnt = 1
	}
	if cnt > len(order) {
		cnt = len(order)
	}
	var out []gop
	for i := 0; i < cnt; i++ {
		ad := order[mod(op.A+i, len(order))]
		// W: 0 the validators' node addresses approve, 2 their owner wallets, 3 both
		if op.W == 0 || op.W == 3 || op.W == 4 {
			if idx, ok := e.byAddr[ad]; ok { // (a consensus key outside the actor table: re-initialised pool)
				out = append(out, gop{K: op.M, A: idx, B: op.B, V: op.V, L: op.L})
			}
		}
		if op.W == 2 || op.W == 3 {
			if idx, ok := e.byAddr[ownerOfNode[ad]]; ok {
				out = append(out, gop{K: op.M, A: idx, B: op.B, V: op.V, L: op.L})
			}
		}
	}
	return out
}

// neo3 approvals of an id without a request record are accepted and recorded by the contract and
// dereference a nil request once the threshold is reached (observed, outside C32..C35's statements).
func (e *eng) neo3AbsentPanic(sr stepRes) bool {
	if sr.res.Panic == "" || (sr.op.K != kSvApprReg && sr.op.K != kSvApprRem) {
		return false
	}
	if p, _ := e.pendingOf(sr.op.K, sr.t); p {
		return false
	}
	e.label("observed:neo3-approval-of-absent-request-panics-at-threshold")
	return true
}

func dumpDiff(a, b [][2][]byte) (changed [][]byte) {
	am := map[string][]byte{}
	for _, kv := range a {
		am[string(kv[0])] = kv[1]
	}
	for _, kv := range b {
		v, ok := am[string(kv[0])]
		if !ok || !bytes.Equal(v, kv[1]) {
			changed = append(changed, kv[0])
		}
		delete(am, string(kv[0]))
	}
	for k := range am {
		changed = append(changed, []byte(k))
	}
	sort.Slice(changed, func(i, j int) bool { return bytes.Compare(changed[i], changed[j]) < 0 })
	return
}

// ---------------------------------------------------------------------------------------------
// shared generator pieces

func genActor(n int) *rapid.Generator[int] { return rapid.IntRange(0, n+spareNodes+outsiders+n-1) }

func genApproveTarget(t *rapid.T, n int, k string, op *gop) {
	switch k {
	case kApprCand, kWhite:
		op.B = rapid.IntRange(n, n+spareNodes-1).Draw(t, "peer")
		if k == kWhite && rapid.Bool().Draw(t, "anyPeer") {
			op.B = rapid.IntRange(0, n+spareNodes-1).Draw(t, "peer2")
		}
	case kBlack:
		op.L = rapid.SliceOfN(rapid.Map(rapid.IntRange(0, n+spareNodes-1), func(i int) int { return i * 8 }), 1, 2).Draw(t, "list")
	case kScApprReg, kScApprUpd, kScApprQuit:
		op.B = rapid.IntRange(1, numChains).Draw(t, "chain")
	default:
		op.B = rapid.IntRange(0, 2).Draw(t, "id")
	}
}

func genApprove(t *rapid.T, n int, kinds []string) gop {
	op := gop{K: rapid.SampledFrom(kinds).Draw(t, "akind"), A: genActor(n).Draw(t, "approver")}
	genApproveTarget(t, n, op.K, &op)
	if rapid.IntRange(0, 19).Draw(t, "badWitness") == 0 {
		op.W = 1
	}
	return op
}

func genRound(t *rapid.T, n int, kinds []string) gop {
	op := gop{K: kRound, M: rapid.SampledFrom(kinds).Draw(t, "rkind"), A: rapid.IntRange(0, n-1).Draw(t, "start"),
		C: rapid.SampledFrom([]int{0, 0, -1, -1, -2, 1, 2}).Draw(t, "count")}
	genApproveTarget(t, n, op.M, &op)
	return op
}

var requestKinds = []string{kScReg, kScUpd, kScQuit, kRlReg, kRlRem, kSvReg, kSvRem, kRegCand, kUnregCand}

func genRequest(t *rapid.T, n int, kinds []string) gop {
	k := rapid.SampledFrom(kinds).Draw(t, "qkind")
	op := gop{K: k}
	switch k {
	case kScReg, kScUpd, kScQuit:
		op.A = rapid.IntRange(n+spareNodes, n+spareNodes+1).Draw(t, "owner")
		if rapid.IntRange(0, 5).Draw(t, "other") == 0 {
			op.A = genActor(n).Draw(t, "anyOwner")
		}
		op.B = rapid.IntRange(1, numChains).Draw(t, "chain")
		op.C = rapid.IntRange(0, 11).Draw(t, "content")
	case kRlReg, kRlRem, kSvReg, kSvRem:
		op.A = genActor(n).Draw(t, "by")
		op.L = rapid.SliceOfN(rapid.IntRange(n+spareNodes, n+spareNodes+outsiders-1), 0, 3).Draw(t, "list")
	case kRegCand, kUnregCand:
		op.B = rapid.IntRange(n, n+spareNodes-1).Draw(t, "peer")
		op.A = op.B // the node's own account is its owner
		if rapid.IntRange(0, 5).Draw(t, "otherOwner") == 0 {
			op.A = genActor(n).Draw(t, "anyOwner")
		}
	}
	if rapid.IntRange(0, 19).Draw(t, "badWitness") == 0 {
		op.W = 1
	}
	return op
}

func genPoolOp(t *rapid.T, n int) gop {
	k := rapid.SampledFrom([]string{kQuit, kCommit, kCommit, kNext, kNext, kNext}).Draw(t, "pkind")
	op := gop{K: k}
	switch k {
	case kQuit:
		op.B = rapid.IntRange(0, n+spareNodes-1).Draw(t, "peer")
		op.A = -1 // the wallet that registered the peer
		if rapid.IntRange(0, 4).Draw(t, "byNode") == 0 {
			op.A = op.B
		}
	case kCommit:
		if rapid.IntRange(0, 3).Draw(t, "byActor") == 0 {
			op.W = 1
			op.A = genActor(n).Draw(t, "actor")
		}
	case kNext:
		op.C = rapid.IntRange(0, 5).Draw(t, "blocks")
	}
	return op
}

// sprinkleNext inserts block boundaries between the ops of a history (about one op in three is
// followed by one), so that requests, partial rounds and effects land in different blocks and -
// with persisted blocks - later deletes shadow values that are already in the store.
func sprinkleNext(t *rapid.T, ops []gop) []gop {
	out := make([]gop, 0, len(ops)+len(ops)/3+1)
	for _, o := range ops {
		out = append(out, o)
		if o.K != kNext && rapid.IntRange(0, 2).Draw(t, "blockBoundary") == 0 {
			out = append(out, gop{K: kNext})
		}
	}
	return out
}

func short(s string) string {
	if len(s) > 14 {
		return s[:6] + ".." + s[len(s)-4:]
	}
	return s
}
