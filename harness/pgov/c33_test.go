package pgov

import (
	"fmt"
	"testing"

	"github.com/polynetwork/poly/common"
	"pgregory.net/rapid"

	"verif/harness/ev"
	"verif/harness/world"
)

// ---------------------------------------------------------------------------------------------
// C33 Approved governance requests are consumed
//
// Oracle (temporal, written from the statement): a request (kind, id) becomes pending when its
// request transaction is accepted and stops being pending when its approval takes effect (or, for
// a candidacy, when it is withdrawn). After every transaction the contract's own lookup of every
// request in the small domain must agree with that, and an approval may take effect only while the
// model says pending - i.e. between two effects of the same (kind, id) there is an accepted request.
// "Took effect" is the contract's own took-effect notification; the threshold rule itself is C32's.

type c33Case struct {
	N       int   `json:"n"`
	Persist bool  `json:"persist,omitempty"` // every block boundary flushes the block overlay into the store
	Ops     []gop `json:"ops"`
}

// approve kinds that have a stored request record (black/white node have none)
var c33Kinds = []string{kApprCand, kScApprReg, kScApprUpd, kScApprQuit, kRlApprReg, kRlApprRem, kSvApprReg, kSvApprRem}

// request kind -> the approve kind whose pending record it creates
var requestOf = map[string]string{kRegCand: kApprCand, kScReg: kScApprReg, kScUpd: kScApprUpd, kScQuit: kScApprQuit,
	kRlReg: kRlApprReg, kRlRem: kRlApprRem, kSvReg: kSvApprReg, kSvRem: kSvApprRem}

// root causes of confirmed defects (DESIGN 6, F13a / F13b)
var c33KnownKey = map[string]string{
	kScApprQuit: "approveQuitSideChain-request-not-deleted",
	kRlApprRem:  "approveRemoveRelayer-request-not-deleted",
}

func family(k string) string {
	switch k {
	case kApprCand, kRegCand, kUnregCand:
		return "cand"
	case kScApprReg, kScApprUpd, kScApprQuit, kScReg, kScUpd, kScQuit:
		return "sc"
	case kRlApprReg, kRlApprRem, kRlReg, kRlRem:
		return "rl"
	case kSvApprReg, kSvApprRem, kSvReg, kSvRem:
		return "sv"
	}
	return ""
}

func genC33(t *rapid.T) c33Case {
	n := rapid.IntRange(4, ev.Scale(8, 16)).Draw(t, "n")
	kind := rapid.SampledFrom(c33Kinds).Draw(t, "kind")
	o1, o2 := n+spareNodes, n+spareNodes+1
	ch := rapid.IntRange(1, numChains).Draw(t, "chain")
	peer := rapid.IntRange(n, n+spareNodes-1).Draw(t, "peer")
	x := rapid.IntRange(0, 11).Draw(t, "content")
	round := func(k string, b int, label string) gop {
		return gop{K: kRound, M: k, B: b, A: rapid.IntRange(0, n-1).Draw(t, "start-"+label),
			C: rapid.SampledFrom([]int{0, 0, 0, 0, -2, -1, 1}).Draw(t, "count-"+label)}
	}
	var ops []gop
	add := func(o ...gop) { ops = append(ops, o...) }
	switch kind {
	case kScApprReg:
		add(gop{K: kScReg, A: o1, B: ch, C: x}, round(kScApprReg, ch, "r1"), round(kScApprReg, ch, "r2"),
			gop{K: kScQuit, A: o1, B: ch}, round(kScApprQuit, ch, "q"), round(kScApprReg, ch, "r3"))
		if rapid.Bool().Draw(t, "again") {
			add(gop{K: kScReg, A: o2, B: ch, C: x + 1}, round(kScApprReg, ch, "r4"), round(kScApprReg, ch, "r5"))
		}
	case kScApprUpd:
		updC := x + 1
		if rapid.Bool().Draw(t, "noopUpdate") {
			updC = x // the update equals the registered record: a no-op at the moment of effect
		}
		add(gop{K: kScReg, A: o1, B: ch, C: x}, round(kScApprReg, ch, "r1"), gop{K: kScUpd, A: o1, B: ch, C: updC},
			round(kScApprUpd, ch, "u1"), round(kScApprUpd, ch, "u2"),
			gop{K: kScQuit, A: o1, B: ch}, round(kScApprQuit, ch, "q"), gop{K: kScReg, A: o2, B: ch, C: x + 2},
			round(kScApprReg, ch, "r2"), round(kScApprUpd, ch, "u3"))
	case kScApprQuit:
		add(gop{K: kScReg, A: o1, B: ch, C: x}, round(kScApprReg, ch, "r1"), gop{K: kScQuit, A: o1, B: ch},
			round(kScApprQuit, ch, "q1"), round(kScApprQuit, ch, "q2"),
			gop{K: kScReg, A: o2, B: ch, C: x + 1}, round(kScApprReg, ch, "r2"), round(kScApprQuit, ch, "q3"))
	case kRlApprReg, kSvApprReg:
		reg, rem, aReg, aRem := kRlReg, kRlRem, kRlApprReg, kRlApprRem
		if kind == kSvApprReg {
			reg, rem, aReg, aRem = kSvReg, kSvRem, kSvApprReg, kSvApprRem
		}
		if rapid.Bool().Draw(t, "noop") {
			// a request whose effect is a no-op when the quorum is reached: its list is already registered
			// (subset / identical) or empty; then the member is removed and the consumed request approved again
			sub := rapid.SampledFrom([][]int{{o1}, {o1, o2}, {o2, o1}, {}}).Draw(t, "sublist")
			add(gop{K: reg, A: o1, L: []int{o1, o2}}, round(aReg, 0, "r1"), gop{K: reg, A: o2, L: sub}, round(aReg, 1, "n1"), round(aReg, 1, "n2"),
				gop{K: rem, A: o1, L: []int{o1}}, round(aRem, 0, "m1"), round(aReg, 1, "n3"))
			break
		}
		add(gop{K: reg, A: o1, L: []int{o1, o2}}, round(aReg, 0, "r1"), round(aReg, 0, "r2"),
			gop{K: rem, A: o1, L: []int{o1}}, round(aRem, 0, "m1"), round(aReg, 0, "r3"))
	case kRlApprRem, kSvApprRem:
		reg, rem, aReg, aRem := kRlReg, kRlRem, kRlApprReg, kRlApprRem
		if kind == kSvApprRem {
			reg, rem, aReg, aRem = kSvReg, kSvRem, kSvApprReg, kSvApprRem
		}
		if rapid.Bool().Draw(t, "noop") {
			// removal of members that are not registered (or of nobody): a no-op at the moment of effect
			sub := rapid.SampledFrom([][]int{{o1}, {o1, o2}, {}}).Draw(t, "sublist")
			add(gop{K: rem, A: o1, L: sub}, round(aRem, 0, "n1"), round(aRem, 0, "n2"),
				gop{K: reg, A: o2, L: []int{o1, o2}}, round(aReg, 0, "r1"), round(aRem, 0, "n3"))
			break
		}
		add(gop{K: reg, A: o1, L: []int{o1, o2}}, round(aReg, 0, "r1"), gop{K: rem, A: o1, L: []int{o1}},
			round(aRem, 0, "m1"), round(aRem, 0, "m2"),
			gop{K: reg, A: o2, L: []int{o1}}, round(aReg, 1, "r2"), round(aRem, 0, "m3"))
	case kApprCand:
		add(gop{K: kRegCand, A: peer, B: peer}, round(kApprCand, peer, "c1"), round(kApprCand, peer, "c2"),
			gop{K: kQuit, A: peer, B: peer}, gop{K: kNext}, gop{K: kCommit}, round(kApprCand, peer, "c3"))
		if rapid.Bool().Draw(t, "again") {
			add(gop{K: kRegCand, A: peer, B: peer}, round(kApprCand, peer, "c4"), round(kApprCand, peer, "c5"))
		}
	}
	// noise: a few arbitrary governance transactions at arbitrary positions, and an arbitrary tail
	noise := rapid.Custom(func(t *rapid.T) gop {
		switch y := rapid.IntRange(0, 9).Draw(t, "nclass"); {
		case y < 4:
			return genApprove(t, n, c33Kinds)
		case y < 6:
			return genRound(t, n, c33Kinds)
		case y < 9:
			return genRequest(t, n, requestKinds)
		default:
			return genPoolOp(t, n)
		}
	})
	for _, nz := range rapid.SliceOfN(noise, 0, 5).Draw(t, "noise") {
		at := rapid.IntRange(0, len(ops)).Draw(t, "at")
		ops = append(ops[:at], append([]gop{nz}, ops[at:]...)...)
	}
	ops = append(ops, rapid.SliceOfN(noise, 0, ev.Scale(10, 30)).Draw(t, "tail")...)
	return c33Case{N: n, Persist: rapid.Bool().Draw(t, "persist"), Ops: sprinkleNext(t, ops)}
}

type c33Model struct {
	pending  map[string]bool                    // kind|id
	consumed map[string]bool                    // an approval of kind|id took effect and no request was accepted since
	stale    map[string]bool                    // known defect observed for kind|id: the consumed request is still stored
	phase    map[string]int                     // 1 took effect, 2 + family re-created afterwards, 3 + approval attempted while consumed
	appr     map[string]map[common.Address]bool // accepted approvers per kind|id since the last effect (quorum rule of C32)
}

func runC33(ctx *ev.Ctx, c c33Case) {
	if c.N < 4 {
		c.N = 4
	}
	e := newEng(ctx, c.N, engOpts{persist: c.Persist})
	if c.Persist {
		e.label("blocks-persisted")
	}
	m := &c33Model{pending: map[string]bool{}, consumed: map[string]bool{}, stale: map[string]bool{}, phase: map[string]int{},
		appr: map[string]map[common.Address]bool{}}
	neutral := func(k string) bool { // the class is a listed known finding: keep the search away from it
		kk, ok := c33KnownKey[k]
		return ok && ev.IsKnown("C33", kk) && !ctx.Replaying
	}
	step := 0
	for _, top := range c.Ops {
		for _, op := range e.expand(top) {
			step++
			t := e.targetOf(op.K, op)
			key := op.K + "|" + t.req
			tracked := false
			for _, k := range c33Kinds {
				tracked = tracked || k == op.K
			}
			if tracked && m.consumed[key] && !m.pending[key] {
				if neutral(op.K) {
					e.label("excluded:approval-of-consumed-request(" + c33KnownKey[op.K] + ")")
					continue
				}
				if m.phase[key] == 2 {
					m.phase[key] = 3
				}
			}
			cons, _, nCons := e.validators()
			sr := e.exec(op)
			what := fmt.Sprintf("step %d %s(%s) by account %d", step, op.K, short(sr.t.req), mod(op.A, len(e.actors)))
			// "took effect" = the contract said so, OR the quorum of the statement of C32 was reached by this accepted
			// approval (an approval whose effect is a no-op - everything it asks for already holds - still consumes
			// the request, whether or not the contract announces it)
			effect := sr.fired
			if tracked && sr.res.OK() {
				set := m.appr[key]
				if set == nil {
					set = map[common.Address]bool{}
					m.appr[key] = set
				}
				set[sr.acting] = true
				cnt := 0
				for a := range set {
					if cons[a] > 0 {
						cnt++
					}
				}
				if cnt >= ceil2of3(nCons) {
					if !sr.fired {
						e.label("quorum-reached-without-took-effect-notification:" + op.K)
					}
					effect = true
				}
				if effect {
					delete(m.appr, key)
				}
			}
			if sr.res.Panic != "" && !e.neo3AbsentPanic(sr) {
				ctx.Failf("%s panicked: %s", what, sr.res.Panic)
			}
			if sr.res.OK() {
				if ak, ok := requestOf[op.K]; ok {
					rk := ak + "|" + sr.t.req
					m.pending[rk], m.consumed[rk] = true, false
					for k2, ph := range m.phase { // re-creation inside the family of an already consumed request
						if ph == 1 && family(kindOfKey(k2)) == family(op.K) {
							m.phase[k2] = 2
						}
					}
				}
				if op.K == kUnregCand {
					m.pending[kApprCand+"|"+sr.t.req] = false
				}
				if tracked && effect {
					e.label("took-effect:" + op.K)
					if !m.pending[key] {
						msg := fmt.Sprintf("%s took effect although the request was consumed by an earlier approval and no fresh request was made", what)
						if !m.consumed[key] {
							msg = fmt.Sprintf("%s took effect although no request transaction for it was ever accepted", what)
						}
						if kk, ok := c33KnownKey[op.K]; ok && m.consumed[key] {
							ctx.Known(kk, "%s", msg)
						} else {
							ctx.Failf("%s", msg)
						}
					}
					m.pending[key], m.consumed[key] = false, true
					if m.phase[key] == 0 {
						m.phase[key] = 1
					}
					if neutral(op.K) {
						m.stale[key] = true
						e.label("known-skip:" + c33KnownKey[op.K])
					}
				}
			}
			c33Compare(e, m, what)
		}
	}
	for _, ph := range m.phase {
		if ph == 3 {
			ctx.NonTrivial()
			break
		}
	}
}

func kindOfKey(k string) string {
	for i := 0; i < len(k); i++ {
		if k[i] == '|' {
			return k[:i]
		}
	}
	return k
}

// c33Compare: the contract's own lookup of every request in the domain against the model.
func c33Compare(e *eng, m *c33Model, what string) {
	check := func(k string, t target) {
		key := k + "|" + t.req
		real, _ := e.pendingOf(k, t)
		want := m.pending[key]
		if real == want {
			return
		}
		if m.stale[key] {
			return
		}
		if real && !want {
			if m.consumed[key] {
				msg := fmt.Sprintf("after %s: request %s(%s) is still pending although its approval already took effect and no fresh request was made", what, k, short(t.req))
				if kk, ok := c33KnownKey[k]; ok {
					if e.ctx.Known(kk, "%s", msg) {
						m.stale[key] = true
					}
					return
				}
				e.ctx.Failf("%s", msg)
			}
			e.ctx.Failf("after %s: request %s(%s) is pending although no request transaction for it was accepted", what, k, short(t.req))
		}
		// a pending request disappeared without approval or withdrawal (e.g. an implementation that drops the
		// pending update request together with the removed chain): not covered by the statement; the model follows
		e.label("observed:pending-request-dropped-without-approval:" + k)
		m.pending[key] = false
	}
	for i := e.n; i < e.n+spareNodes; i++ {
		p := world.PubHex(e.actors[i])
		check(kApprCand, target{pub: p, req: p})
	}
	for c := uint64(1); c <= numChains; c++ {
		for _, k := range []string{kScApprReg, kScApprUpd, kScApprQuit} {
			check(k, target{id: c, req: fmt.Sprint(c)})
		}
	}
	for id := 0; id <= e.rlReg; id++ {
		check(kRlApprReg, target{id: uint64(id), req: fmt.Sprint(id)})
	}
	for id := 0; id <= e.rlRem; id++ {
		check(kRlApprRem, target{id: uint64(id), req: fmt.Sprint(id)})
	}
	for id := 0; id <= e.svReg; id++ {
		check(kSvApprReg, target{id: uint64(id), req: fmt.Sprint(id)})
	}
	for id := 0; id <= e.svRem; id++ {
		check(kSvApprRem, target{id: uint64(id), req: fmt.Sprint(id)})
	}
}

func TestC33(t *testing.T) {
	ev.Drive(t, "C33",
		"cases: N=4..8 (thorough 16) validators; one scenario per request kind (side-chain register/update/quit, relayer register/remove, state-validator register/remove, candidacy): "+
			"request, approval round to effect, SECOND approval round on the same id, no-op requests (lists already registered / not registered / empty, update equal to the record); re-creation of the target (chain re-registered under another owner / relayer re-registered / candidate quit and epoch change), THIRD round; "+
			"round sizes vary (threshold, threshold-1, all, 1), up to 5 arbitrary governance transactions inserted anywhere and an arbitrary tail. "+
			"non-trivial: some request took effect, its target family was re-created afterwards, and a further approval of the consumed request was attempted; in half of the cases every block boundary persists the block overlay into the store, and about one op in three is followed by a block boundary; distinct by JSON of the case",
		genC33, runC33)
}
