package pgov

import (
	"fmt"
	"testing"

	"github.com/polynetwork/poly/native/service/governance/node_manager"
	"pgregory.net/rapid"

	"verif/harness/ev"
)

// ---------------------------------------------------------------------------------------------
// C34 Validator pool invariants hold across epochs
//
// Oracle: invariants evaluated on the real pool (read through GetGovernanceView / GetPeerPoolMap)
// after every transaction, plus a light model (the set of blacklisted keys, the block height of the
// last epoch change, and the expected pool after an epoch change computed from the pool before it).

type c34Case struct {
	N       int   `json:"n"`
	MBCV    int   `json:"mbcv"`              // genesis MaxBlockChangeView (small values let anybody commit after a timeout)
	Own     int   `json:"own,omitempty"`     // ownership layout of the genesis validators, see ownerOf
	Idx     int   `json:"idx,omitempty"`     // genesis peer index layout, see genesisIndex
	Persist bool  `json:"persist,omitempty"` // every block boundary flushes the block overlay into the store
	Ops     []gop `json:"ops"`
}

const (
	c34F6 = "initConfig-reinvocable-after-genesis"
	c34F9 = "peerPubkey-noncanonical-string-duplicate-pool-entry"
)

// the statement's "at least four" (a literal here, not the contract's constant)
const minPeerNumC34 = 4

func genC34(t *rapid.T) c34Case {
	n := rapid.IntRange(4, ev.Scale(8, 16)).Draw(t, "n")
	c := c34Case{N: n, MBCV: rapid.SampledFrom([]int{60000, 60000, 3, 6}).Draw(t, "mbcv"), Own: rapid.SampledFrom([]int{0, 0, 0, 1, 2, 3, 4}).Draw(t, "own"),
		Idx: rapid.SampledFrom([]int{0, 0, 0, 1, 2, 3, 4, 5, 6}).Draw(t, "idx"), Persist: rapid.Bool().Draw(t, "persist")}
	variant := func(t *rapid.T) int {
		if rapid.IntRange(0, 5).Draw(t, "variantClass") == 0 {
			return rapid.IntRange(1, numVariant-1).Draw(t, "variant")
		}
		return 0
	}
	peerAny := rapid.IntRange(0, n+spareNodes-1)
	var ops []gop
	// optional scenario prefix: get candidates into the pool so that quitting and blacklisting have room
	if rapid.IntRange(0, 9).Draw(t, "prefix") < 7 {
		k := rapid.IntRange(1, spareNodes).Draw(t, "cands")
		for i := 0; i < k; i++ {
			ops = append(ops, gop{K: kRegCand, A: n + i, B: n + i}, gop{K: kRound, M: kApprCand, B: n + i, A: rapid.IntRange(0, n-1).Draw(t, "s")})
		}
		if rapid.Bool().Draw(t, "commitFirst") {
			ops = append(ops, gop{K: kNext}, gop{K: kCommit})
		}
		q := rapid.IntRange(0, n+k-1).Draw(t, "quitter")
		b := rapid.IntRange(0, n+k-1).Draw(t, "blackened")
		ops = append(ops, gop{K: kQuit, A: q, B: q}, gop{K: kNext}, gop{K: kRound, M: kBlack, L: []int{b * 8}, A: rapid.IntRange(0, n-1).Draw(t, "s2")})
		if rapid.Bool().Draw(t, "commitAfter") {
			ops = append(ops, gop{K: kNext}, gop{K: kCommit})
		}
	}
	body := rapid.SliceOfN(rapid.Custom(func(t *rapid.T) gop {
		switch x := rapid.IntRange(0, 99).Draw(t, "class"); {
		case x < 14:
			p := rapid.OneOf(rapid.IntRange(n, n+spareNodes-1), peerAny).Draw(t, "peer")
			g := gop{K: kRegCand, A: p, B: p, V: variant(t)}
			if rapid.IntRange(0, 5).Draw(t, "otherOwner") == 0 {
				g.A = genActor(n).Draw(t, "owner")
			}
			return g
		case x < 18:
			p := peerAny.Draw(t, "peer")
			return gop{K: kUnregCand, A: p, B: p, V: variant(t)}
		case x < 34:
			return gop{K: kRound, M: kApprCand, B: peerAny.Draw(t, "peer"), V: variant(t), A: rapid.IntRange(0, n-1).Draw(t, "start"),
				C: rapid.SampledFrom([]int{0, 0, 0, -1, -2, 1}).Draw(t, "count")}
		case x < 40:
			return gop{K: kApprCand, B: peerAny.Draw(t, "peer"), V: variant(t), A: genActor(n).Draw(t, "approver")}
		case x < 52:
			p := peerAny.Draw(t, "peer")
			g := gop{K: kQuit, A: p, B: p, V: variant(t)}
			if rapid.IntRange(0, 7).Draw(t, "otherOwner") == 0 {
				g.A = genActor(n).Draw(t, "owner")
			}
			return g
		case x < 66:
			l := rapid.SliceOfN(rapid.Custom(func(t *rapid.T) int { return peerAny.Draw(t, "bp")*8 + variant(t) }), 1, 3).Draw(t, "list")
			return gop{K: kRound, M: kBlack, L: l, A: rapid.IntRange(0, n-1).Draw(t, "start"), C: rapid.SampledFrom([]int{0, 0, 0, -1, -2, 1}).Draw(t, "count")}
		case x < 72:
			return gop{K: kRound, M: kWhite, B: peerAny.Draw(t, "peer"), V: variant(t), A: rapid.IntRange(0, n-1).Draw(t, "start"),
				C: rapid.SampledFrom([]int{0, 0, -1, -2}).Draw(t, "count")}
		case x < 84:
			g := gop{K: kCommit}
			if rapid.IntRange(0, 2).Draw(t, "byActor") == 0 {
				g.W, g.A = 1, genActor(n).Draw(t, "actor")
			}
			return g
		case x < 94:
			return gop{K: kNext, C: rapid.IntRange(0, 5).Draw(t, "blocks")}
		case x < 96:
			g := gop{K: kUpdCfg, C: rapid.IntRange(0, 3).Draw(t, "cfg")}
			if rapid.Bool().Draw(t, "byActor") {
				g.W, g.A = 1, genActor(n).Draw(t, "actor")
			}
			return g
		default: // initConfig invoked again after genesis, by an outsider, with 1..6 arbitrary peers
			return gop{K: kInitCfg, A: n + spareNodes + rapid.IntRange(0, outsiders-1).Draw(t, "outsider"),
				L: rapid.SliceOfN(genActor(n), 1, 6).Draw(t, "peers"), C: rapid.IntRange(0, 2).Draw(t, "indexBase")}
		}
	}), 3, ev.Scale(40, 90)).Draw(t, "ops")
	c.Ops = append(ops, body...)
	for i := range c.Ops {
		o := &c.Ops[i]
		switch {
		case (o.K == kQuit || o.K == kUnregCand) && o.A == o.B:
			o.A = -1 // by the wallet that registered the peer
		case o.K == kRegCand && o.A == o.B && c.Own != 0:
			o.A = n + spareNodes + outsiders + o.B%2 // separate owner wallets, one wallet may own several nodes
		}
	}
	return c
}

type c34Model struct {
	black       map[string]string // canonical key -> the key string it was blacklisted under (black took effect, no white since)
	epochHeight uint32            // block height of the last epoch change (genesis: 0)
	quits       int
	blacks      int
	epochAfter  bool // an epoch change happened after >=1 quit and >=1 blacklisting
	reinit      bool // known defect F6 observed: the pool was replaced by a re-invoked initConfig
}

func runC34(ctx *ev.Ctx, c c34Case) {
	if c.N < 4 {
		c.N = 4
	}
	mb := uint32(c.MBCV)
	if mb == 0 {
		mb = 60000
	}
	e := newEng(ctx, c.N, engOpts{mbcv: mb, own: c.Own, idx: c.Idx, persist: c.Persist})
	if c.Persist {
		e.label("blocks-persisted")
	}
	e.label(fmt.Sprintf("genesis-index-layout:%d", mod(c.Idx, 7)))
	m := &c34Model{black: map[string]string{}}
	noF6 := ev.IsKnown("C34", c34F6) && !ctx.Replaying
	noF9 := ev.IsKnown("C34", c34F9) && !ctx.Replaying
	c34Invariants(e, m, e.pool(), "genesis", gop{})
	step := 0
	for _, top := range c.Ops {
		if noF9 { // neutralise the known class: only canonical key strings
			changed := top.V != 0
			top.V = 0
			l := append([]int(nil), top.L...)
			if top.K == kBlack || (top.K == kRound && top.M == kBlack) {
				for i := range l {
					if mod(l[i], 8)%numVariant != 0 {
						changed = true
					}
					l[i] = l[i] / 8 * 8
				}
				top.L = l
			}
			if changed {
				e.label("excluded:non-canonical-pubkey-string(" + c34F9 + ")")
			}
		}
		if noF6 && top.K == kInitCfg {
			e.label("excluded:initConfig-after-genesis(" + c34F6 + ")")
			continue
		}
		for _, op := range e.expand(top) {
			step++
			pre := e.pool()
			sr := e.exec(op)
			what := fmt.Sprintf("step %d %s", step, op.K)
			if sr.t.pub != "" {
				what += "(" + short(sr.t.pub) + ")"
			}
			if op.K == kNext {
				continue
			}
			if sr.res.Panic != "" {
				ctx.Failf("%s panicked: %s", what, sr.res.Panic)
			}
			post := e.pool()
			if !sr.res.OK() {
				continue
			}
			e.label("accepted:" + op.K)
			// ---- light model
			switch op.K {
			case kRegCand:
				if ck := canonOf(sr.t.pub); m.black[ck] != "" {
					msg := fmt.Sprintf("%s: a blacklisted public key registered as candidate (string %s, blacklisted as %s)", what, short(sr.t.pub), short(m.black[ck]))
					if sr.t.pub != ck || m.black[ck] != ck {
						ctx.Known(c34F9, "%s", msg)
					} else if m.reinit {
						ctx.Known(c34F6, "%s", msg)
					} else {
						ctx.Failf("%s", msg)
					}
				}
			case kQuit:
				m.quits++
			case kBlack:
				if sr.fired {
					m.blacks++
					for _, p := range sr.t.pubs {
						m.black[canonOf(p)] = p
					}
				}
			case kWhite:
				if sr.fired {
					delete(m.black, canonOf(sr.t.pub))
				}
			}
			// ---- epoch change
			if post.View != pre.View || op.K == kInitCfg {
				c34Epoch(e, m, pre, post, sr, what)
			}
			c34Invariants(e, m, post, what, op)
		}
	}
	if m.epochAfter {
		ctx.NonTrivial()
	}
}

// c34Epoch judges one observed change of the governance view.
func c34Epoch(e *eng, m *c34Model, pre, post poolObs, sr stepRes, what string) {
	ctx := e.ctx
	fail := func(format string, a ...interface{}) {
		msg := fmt.Sprintf(format, a...)
		if sr.op.K == kInitCfg {
			// initConfig executed again after genesis: root cause F6
			if ctx.Known(c34F6, "%s", msg) {
				m.reinit = true
			}
			return
		}
		ctx.Failf("%s", msg)
	}
	if sr.op.K == kInitCfg {
		// accepted after genesis: the pool / view were re-initialised outside any epoch change
		same := post.View == pre.View && len(post.Items) == len(pre.Items)
		for k, it := range pre.Items {
			if p, ok := post.Items[k]; !ok || p != it {
				same = false
			}
		}
		if !same {
			fail("%s by an outsider was accepted after genesis and replaced the validator pool: view %d -> %d, %d -> %d entries", what, pre.View, post.View, len(pre.Items), len(post.Items))
		} else {
			e.label("initConfig-accepted-again-without-visible-change")
		}
		m.epochHeight = e.w.Height
		return
	}
	e.label("epoch-change")
	if post.View != pre.View+1 {
		fail("%s: epoch change moved the view from %d to %d (must advance by exactly one)", what, pre.View, post.View)
	}
	if e.w.Height == m.epochHeight {
		fail("%s: second epoch change at block height %d", what, e.w.Height)
	}
	if post.Height != e.w.Height {
		fail("%s: epoch change at height %d recorded as height %d", what, e.w.Height, post.Height)
	}
	m.epochHeight = e.w.Height
	// expected pool: every active member consensus, quitting and blacklisted members dropped
	blackened := map[string]bool{}
	if sr.op.K == kBlack {
		for _, p := range sr.t.pubs {
			blackened[p] = true
		}
	}
	want := map[string]node_manager.PeerPoolItem{}
	for k, it := range pre.Items {
		if blackened[k] || it.Status == node_manager.BlackStatus || it.Status == node_manager.QuitingStatus {
			continue
		}
		it.Status = node_manager.ConsensusStatus
		want[k] = it
	}
	for k, it := range want {
		got, ok := post.Items[k]
		if !ok {
			fail("%s: epoch change dropped active member %s", what, short(k))
		} else if got != it {
			fail("%s: after the epoch change member %s is %+v, expected %+v", what, short(k), got, it)
		}
	}
	for k, it := range post.Items {
		if _, ok := want[k]; !ok {
			fail("%s: after the epoch change the pool holds %s (status %d) which was quitting/blacklisted/absent before", what, short(k), it.Status)
		}
	}
	if m.quits > 0 && m.blacks > 0 {
		m.epochAfter = true
	}
}

// c34Invariants: the state invariants of the statement, on the real pool of the current view.
func c34Invariants(e *eng, m *c34Model, p poolObs, what string, op gop) {
	ctx := e.ctx
	attribute := func(nonCanonical bool, format string, a ...interface{}) {
		msg := fmt.Sprintf(format, a...)
		switch {
		case nonCanonical:
			ctx.Known(c34F9, "%s", msg)
		case op.K == kInitCfg || m.reinit:
			if ctx.Known(c34F6, "%s", msg) {
				m.reinit = true
			}
		default:
			ctx.Failf("%s", msg)
		}
	}
	byKey := map[string]string{}   // canonical key -> entry string
	byIndex := map[uint32]string{} // index -> canonical key
	activeEntries, activeKeys := 0, map[string]bool{}
	anyNonCanon := false
	for _, k := range p.keys() {
		it := p.Items[k]
		ck := canonOf(k)
		if ck == "" {
			ctx.Failf("after %s: pool entry %q does not decode to a public key", what, k)
		}
		if ck != k {
			anyNonCanon = true
		}
		if it.PeerPubkey != k {
			ctx.Failf("after %s: pool entry stored under %s names key %s", what, short(k), short(it.PeerPubkey))
		}
		if other, dup := byKey[ck]; dup {
			attribute(other != ck || k != ck, "after %s: public key %s occupies two pool entries: %q and %q", what, short(ck), other, k)
		} else {
			byKey[ck] = k
			if prev, clash := byIndex[it.Index]; clash && prev != ck {
				attribute(false, "after %s: distinct keys %s and %s share index %d", what, short(prev), short(ck), it.Index)
			}
			byIndex[it.Index] = ck
		}
		if it.Status == node_manager.CandidateStatus || it.Status == node_manager.ConsensusStatus {
			activeEntries++
			activeKeys[ck] = true
		}
		if it.Status > node_manager.BlackStatus {
			ctx.Failf("after %s: pool entry %s has unknown status %d", what, short(k), it.Status)
		}
	}
	if len(activeKeys) < minPeerNumC34 {
		attribute(anyNonCanon && activeEntries >= minPeerNumC34,
			"after %s: the pool has %d active members (%d active entries), fewer than four", what, len(activeKeys), activeEntries)
	}
}

func TestC34(t *testing.T) {
	ev.Drive(t, "C34",
		"cases: genesis pool of N=4..8 (thorough 16) validators with peer indices 1..n, offset, with gaps, descending or large, owner wallets equal to or separate from the node addresses, block boundaries persisted into the store in half of the cases, genesis MaxBlockChangeView 60000 or 3/6 blocks; optional prefix (1..4 candidates registered and approved, epoch change, a quit, a blacklisting round, epoch change) "+
			"then 3..40 (thorough 90) ops: register/unregister candidate, approve (rounds of k validators and singles), quit, blackNode rounds (lists of 1..3 incl. duplicates), whiteNode rounds, "+
			"commitDpos (operator multisig / arbitrary account, also after the timeout), several ops per block, updateConfig, initConfig invoked again by an outsider; one key string in six is a non-canonical encoding "+
			"(upper/mixed-case hex, uncompressed point, algorithm-prefixed) of a pool key. "+
			"non-trivial: at least one epoch change after a successful quit and a blacklisting that took effect; distinct by JSON of the case",
		genC34, runC34)
}
