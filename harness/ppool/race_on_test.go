//go:build race

package ppool

const raceBuild = true
